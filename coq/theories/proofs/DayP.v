(* DayP.v — theorems about the day orchestration (Day.v), real instance, for EVERY choice of the processes
   ([Procs]) unless a hypothesis about an individual process is stated.

   C12 / frame, by construction of the types: [day_core], [day_proc], [reset] RETURN a state (and rows, trace) only;
   the parameters [DPar] (profile, soil scalars, irrigation / field management, crops, CO2, groundwater flag), the
   weather record [W] and the clock values are inputs that do not occur in the result types — the orchestration
   cannot change them.  (The only parameter store of the implementation while stepping, `Crop_.Aer = 5; Crop_.Zmin =
   0.3` on the filler crop before the first season, is the pure function [fallow_crop] here and is listed in
   GenFactsOK.reported_sites.)

   Method: a day is [day_out x R] where [x : Ctx] is everything the step receives and [R : Results] what the processes
   returned; [Spec x P R] says that R is what the processes [P] return on the arguments recorded in the trace
   ([results_spec]: the results computed by [day_core] satisfy it).  The theorems are stated for the day [day_core]
   computes; hypotheses about individual processes are statements about THE CALLS OF THAT DAY (argument record in the
   trace, result record), named like the theorems of the process units that discharge them. *)
From Coq Require Import String List Bool ZArith.
From AC Require Import Num RInst Params Clock Day.
From AC.proofs Require Import ProfR GenFactsOK.
From AC.gen Require Import StateFields.
Import ListNotations.
Local Open Scope R_scope.

(* ------------------------------------------------------------------------------------------------------------ *)
(*  the results are the processes applied to the traced arguments                                                *)
(* ------------------------------------------------------------------------------------------------------------ *)
Record Spec (x : Ctx R) (P : Procs R) (R : Results R) : Prop := {
  sp_gdd : rs_gdd R = if x_gs x then gdR_gdd (p_gd P (arg_gd x)) else 3 / 10;
  sp_gw : rs_gw R = p_gw P (x_prof x) (t_gw (trace_of x R));
  sp_rd : rs_rd R = p_rd P (x_prof x) (t_rd (trace_of x R));
  sp_pi : rs_pi R = p_pi P (x_prof x) (t_pi (trace_of x R));
  sp_dr : rs_dr R = p_dr P (x_prof x) (t_dr (trace_of x R));
  sp_rp : rs_rp R = p_rp P (x_prof x) (t_rp (trace_of x R));
  sp_ir : rs_ir R = p_ir P (x_prof x) (t_ir (trace_of x R));
  sp_inf : rs_inf R = p_inf P (x_prof x) (t_inf (trace_of x R));
  sp_cr : rs_cr R = p_cr P (x_prof x) (t_cr (trace_of x R));
  sp_ge : rs_ge R = p_ge P (x_prof x) (t_ge (trace_of x R));
  sp_gst : rs_gst R = p_gst P (t_gst (trace_of x R));
  sp_cc : rs_cc R = p_cc P (x_prof x) (t_cc (trace_of x R));
  sp_ev : rs_ev R = p_ev P (x_prof x) (t_ev (trace_of x R));
  sp_tr : rs_tr R = p_tr P (x_prof x) (t_tr (trace_of x R));
  sp_gi : rs_gi R = p_gi P (x_prof x) (t_gi (trace_of x R));
  sp_hr : rs_hr R = p_hr P (t_hr (trace_of x R));
  sp_bm : rs_bm R = p_bm P (t_bm (trace_of x R));
  sp_hi : rs_hi R = p_hi P (x_prof x) (t_hi (trace_of x R));
  sp_rz : rs_rz R = p_rz P (x_prof x) (t_rz (trace_of x R)) }.

Lemma results_spec x P : Spec x P (results x P).
Proof. constructor; reflexivity. Qed.

Definition ctx (par : DPar R) (season : Z) (gs : bool) (dap tsc : Z) (w : Day.W R) (s : DState R) : Ctx R :=
  {| x_par := par; x_season := season; x_gs := gs; x_dap := dap; x_tsc := tsc; x_w := w; x_s := s |}.

Lemma day_core_out par P season gs dap tsc w s :
  day_core par P season gs dap tsc w s = day_out (ctx par season gs dap tsc w s) (results (ctx par season gs dap tsc w s) P).
Proof. reflexivity. Qed.

Lemma day_proc_out par P season gs dap tsc w s :
  day_proc par P season gs dap tsc w s =
  (state_of (ctx par season gs dap tsc w s) (results (ctx par season gs dap tsc w s) P),
   row_of (ctx par season gs dap tsc w s) (results (ctx par season gs dap tsc w s) P)).
Proof. reflexivity. Qed.

(* ============================================================================================================ *)
Section Day.
  Variables (par : DPar R) (P : Procs R) (season : Z) (gs : bool) (dap tsc : Z) (w : Day.W R) (s : DState R).
  Let x := ctx par season gs dap tsc w s.
  Let Rs := results x P.
  Let o := day_core par P season gs dap tsc w s.
  Let s' := o_state o.
  Let row := o_row o.
  Let tr := o_trace o.
  Let prof := so_prof (p_soil par).
  Let crop := sel_crop par season.
  Let irr := sel_irr par season.
  Let field := sel_field par season gs.
  (* the argument and result records of the day's calls *)
  Let a_pi := t_pi tr.   Let r_pi := p_pi P prof a_pi.
  Let a_dr := t_dr tr.   Let r_dr := p_dr P prof a_dr.
  Let a_rp := t_rp tr.   Let r_rp := p_rp P prof a_rp.
  Let a_ir := t_ir tr.   Let r_ir := p_ir P prof a_ir.
  Let a_inf := t_inf tr. Let r_inf := p_inf P prof a_inf.
  Let a_cr := t_cr tr.   Let r_cr := p_cr P prof a_cr.
  Let a_ev := t_ev tr.   Let r_ev := p_ev P prof a_ev.
  Let a_tr := t_tr tr.   Let r_tr := p_tr P prof a_tr.
  Let a_gi := t_gi tr.   Let r_gi := p_gi P prof a_gi.
  Let a_gw := t_gw tr.   Let r_gw := p_gw P prof a_gw.
  Let a_rz := t_rz tr.   Let r_rz := p_rz P prof a_rz.

  Lemma day_proc_eq : day_proc par P season gs dap tsc w s = (s', row).
  Proof. reflexivity. Qed.

  (* ---------------------------------------------------------------- 1. C06: yield identities in the crop-growth row *)
  Theorem yield_identities :
    let g := r_growth (snd (day_proc par P season gs dap tsc w s)) in
    gr_Pot g = (gr_B_ns g / 100) * gr_HI g /\
    (gs = true -> gr_Dry g = (gr_B g / 100) * gr_HIadj g /\ gr_Fresh g = gr_Dry g / (c_YldWC crop / 100)) /\
    (gs = false -> gr_Dry g = 0 /\ gr_Fresh g = 0).
  Proof.
    cbv zeta. split; [reflexivity|]. split; intros E.
    - split; cbn [snd day_proc o_row day_core day_out row_of r_growth gr_Dry gr_Fresh gr_B gr_HIadj]; unfold fresh_of, dry_of;
        cbn [x_gs]; rewrite E; reflexivity.
    - split; cbn [snd day_proc o_row day_core day_out row_of r_growth gr_Dry gr_Fresh]; unfold fresh_of, dry_of; cbn [x_gs];
        rewrite E; reflexivity.
  Qed.

  (* the state keeps the same three values, and [summary_of] reports exactly them; the seasonal irrigation reported is
     the counter of the selected strategy AFTER the step *)
  Theorem summary_values :
    let g := r_growth row in
    let so := summary_of par season gs s' in
    o_Dry so = gr_Dry g /\ o_Fresh so = gr_Fresh g /\ o_Pot so = gr_Pot g /\
    d_DryYield s' = gr_Dry g /\ d_FreshYield s' = gr_Fresh g /\ d_YieldPot s' = gr_Pot g /\
    o_IrrTot so = (if gs then (if (i_method irr =? 4)%Z then d_irr_net_cum s' else d_irr_cum s') else 0) /\
    d_irr_cum s' = irR_irrcum r_ir /\
    d_irr_net_cum s' = trR_irr_net_cum r_tr + piR_preirr r_pi.
  Proof. cbv zeta. repeat split; reflexivity. Qed.

  (* ---------------------------------------------------------------- 2. what is written into the three rows *)
  Theorem row_wiring :
    let f := r_flux row in let g := r_growth row in let st := r_sto row in
    (* irrigation column: the irrigation process' Irr, or with net irrigation (method 4) transpiration's IrrNet plus
       the pre-irrigation; zero outside the season *)
    fl_IrrDay f = (if gs then (if (i_method irr =? 4)%Z then trR_irrnet r_tr + piR_preirr r_pi else irR_irr r_ir) else 0) /\
    (* Infl, Runoff, DeepPerc: the values returned by INFILTRATION, which received drainage's DeepPerc and
       rainfall_partition's Runoff / Infl and the irrigation process' Irr, and returns the totals *)
    fl_Infl f = infR_infl r_inf /\ fl_Runoff f = infR_runoff r_inf /\ fl_DeepPerc f = infR_deepperc r_inf /\
    infA_deepperc a_inf = drR_deepperc r_dr /\ infA_runoff a_inf = rpR_runoff r_rp /\
    infA_infl a_inf = rpR_infl r_rp /\ infA_irr a_inf = irR_irr r_ir /\ infA_eff a_inf = i_AppEff irr /\ infA_gs a_inf = gs /\
    (* CR: capillary_rise; GwIn: groundwater_inflow; Es, EsPot: soil_evaporation; Tr, TrPot: transpiration *)
    fl_CR f = crR_cr r_cr /\ fl_GwIn f = giR_gwin r_gi /\ fl_Es f = evR_es r_ev /\ fl_EsPot f = evR_espot r_ev /\
    fl_Tr f = trR_tr r_tr /\ fl_TrPot f = trR_trpot r_tr /\
    (* state columns: values AFTER the last process *)
    fl_surf f = d_surface_storage s' /\ d_surface_storage s' = trR_surf r_tr /\
    fl_zgw f = d_z_gw s' /\ d_z_gw s' = gwR_zgw r_gw /\
    fl_Wr f = rzR_wr r_rz /\ rzA_th a_rz = d_th s' /\ rzA_zroot a_rz = d_z_root s' /\
    st_th st = d_th s' /\ d_th s' = giR_th r_gi /\
    gr_gdd_cum g = d_gdd_cum s' /\ gr_z_root g = d_z_root s' /\ gr_cc g = d_canopy_cover s' /\ gr_cc_ns g = d_canopy_cover_ns s' /\
    gr_B g = d_biomass s' /\ gr_B_ns g = d_biomass_ns s' /\ gr_HI g = d_harvest_index s' /\ gr_HIadj g = d_harvest_index_adj s' /\
    (* index columns *)
    fl_tsc f = tsc /\ fl_season f = season /\ fl_dap f = dap /\ gr_tsc g = tsc /\ gr_season g = season /\ gr_dap g = dap /\
    st_tsc st = tsc /\ st_gs st = gs /\ st_dap st = dap.
  Proof. cbv zeta. repeat split; reflexivity. Qed.

  (* ---------------------------------------------------------------- 4. outside the growing season *)
  (* what the orchestration itself guarantees (Tr = 0, Irr = 0, CC = 0 ... come from the processes, which all receive
     growing_season = false and, in the season's place, the fallow field management) *)
  Theorem off_season_wiring : gs = false ->
    fl_IrrDay (r_flux row) = 0 /\ gr_Dry (r_growth row) = 0 /\ gr_Fresh (r_growth row) = 0 /\
    gr_gdd_cum (r_growth row) = 0 /\ d_gdd_cum s' = 0 /\ d_DryYield s' = 0 /\ d_FreshYield s' = 0 /\
    d_growing_season s' = false /\ d_gdd s' = d_gdd s /\ t_gd tr = None /\
    gr_gdd (r_growth row) = 3 / 10 /\                 (* the local gdd handed to the processes and REPORTED off season *)
    o_IrrTot (summary_of par season gs s') = 0 /\
    d_depletion s' = rzR_drrz r_rz /\ d_taw s' = rzR_tawrz r_rz /\
    field = p_fallow_field par /\
    rdA_gs (t_rd tr) = false /\ piA_gs (t_pi tr) = false /\ irA_gs (t_ir tr) = false /\ infA_gs (t_inf tr) = false /\
    geA_gs (t_ge tr) = false /\ gstA_gs (t_gst tr) = false /\ ccA_gs (t_cc tr) = false /\ evA_gs (t_ev tr) = false /\
    trA_gs (t_tr tr) = false /\ hrA_gs (t_hr tr) = false /\ bmA_gs (t_bm tr) = false /\ hiA_gs (t_hi tr) = false.
  Proof.
    intros E.
    assert (Ef : field = p_fallow_field par) by (subst field; rewrite E; unfold sel_field; destruct (0 <=? season)%Z; reflexivity).
    subst r_rz a_rz r_ir a_ir r_tr a_tr r_pi a_pi o s' row tr x Rs. clear - E Ef.
    unfold day_core, day_out, state_of, row_of, trace_of, irrday_of, dry_of, fresh_of, gdd_cum_of, summary_of.
    cbn [o_state o_row o_trace r_flux r_growth fl_IrrDay gr_Dry gr_Fresh gr_gdd_cum gr_gdd d_gdd_cum d_DryYield d_FreshYield
         d_growing_season d_gdd t_gd o_IrrTot d_depletion d_taw x_gs x_s t_rd t_pi t_ir t_inf t_ge t_gst t_cc t_ev t_tr t_hr t_bm t_hi
         t_rz rs_gdd results].
    rewrite E. repeat split; try reflexivity. exact Ef.
  Qed.

  (* ---------------------------------------------------------------- 3. C01: the water balance of the day *)
  (* water offered to the surface by the infiltration call: max(Infl,0) plus, in the season, Irr * AppEff/100 *)
  Definition offered (a : A_inf R) : R := Rmax (infA_infl a) 0 + (if infA_gs a then infA_irr a * (infA_eff a / 100) else 0).
  (* the water the capillary-rise call actually added to the profile (its reported CR differs by rounding, see
     GroundwaterR.capillary_balance) *)
  Definition CRactual : R := storage prof (crR_th r_cr) - storage prof (crA_th a_cr).

  (* the balance statements of the individual processes, for the calls of this day *)
  Record CallsBalance : Prop := {
    pre_irrigation_balance : storage prof (piR_th r_pi) = storage prof (piA_th a_pi) + piR_preirr r_pi;
    pre_irrigation_inert : piA_gs a_pi = false \/ i_method (piA_irr a_pi) <> 4%Z -> piR_preirr r_pi = 0;
    drainage_balance : storage prof (drR_th r_dr) + drR_deepperc r_dr = storage prof (drA_th a_dr);
    infiltration_balance :
      storage prof (infR_th r_inf) + infR_surf r_inf + infR_deepperc r_inf + infR_runoff r_inf =
      storage prof (infA_th a_inf) + infA_surf a_inf + offered a_inf + infA_deepperc a_inf + infA_runoff a_inf;
    surface_identity : infR_infl r_inf + (infR_runoff r_inf - infA_runoff a_inf) = offered a_inf;
    evaporation_balance : storage prof (evR_th r_ev) + evR_surf r_ev + evR_es r_ev = storage prof (evA_th a_ev) + evA_surf a_ev;
    transpiration_balance :
      storage prof (trR_th r_tr) + trR_surf r_tr + trR_tr r_tr = storage prof (trA_th a_tr) + trA_surf a_tr + trR_irrnet r_tr;
    net_irrigation_inert : trA_gs a_tr = false \/ trA_method a_tr <> 4%Z -> trR_irrnet r_tr = 0;
    gw_inflow_balance : storage prof (giR_th r_gi) = storage prof (giA_th a_gi) + giR_gwin r_gi }.

  (* every term but CRactual is read from the flux row written by the day; th/surf are those of the state before and
     after the step.  No extra term is needed: the Runoff and DeepPerc produced before infiltration (rainfall_partition,
     drainage) are handed to infiltration and come back inside the totals it returns, which are the ones reported. *)
  Theorem day_balance : CallsBalance ->
    let f := r_flux row in
    storage prof (d_th s') + d_surface_storage s' - (storage prof (d_th s) + d_surface_storage s) =
    fl_Infl f + (if (i_method irr =? 4)%Z then fl_IrrDay f else 0) + CRactual + fl_GwIn f - fl_DeepPerc f - fl_Es f - fl_Tr f.
  Proof.
    intros [B1 B2 B3 B4 B5 B6 B7 B8 B9]. cbv zeta.
    change (d_th s') with (giR_th r_gi). change (d_surface_storage s') with (trR_surf r_tr).
    change (fl_Infl (r_flux row)) with (infR_infl r_inf). change (fl_GwIn (r_flux row)) with (giR_gwin r_gi).
    change (fl_DeepPerc (r_flux row)) with (infR_deepperc r_inf). change (fl_Es (r_flux row)) with (evR_es r_ev).
    change (fl_Tr (r_flux row)) with (trR_tr r_tr).
    change (fl_IrrDay (r_flux row)) with (if gs then (if (i_method irr =? 4)%Z then trR_irrnet r_tr + piR_preirr r_pi else irR_irr r_ir) else 0).
    unfold CRactual.
    change (piA_th a_pi) with (d_th s) in B1. change (piA_gs a_pi) with gs in B2. change (piA_irr a_pi) with irr in B2.
    change (drA_th a_dr) with (piR_th r_pi) in B3.
    change (infA_th a_inf) with (drR_th r_dr) in B4. change (infA_surf a_inf) with (d_surface_storage s) in B4.
    change (infA_deepperc a_inf) with (drR_deepperc r_dr) in B4.
    change (crA_th a_cr) with (infR_th r_inf).
    change (evA_th a_ev) with (crR_th r_cr) in B6. change (evA_surf a_ev) with (infR_surf r_inf) in B6.
    change (trA_th a_tr) with (evR_th r_ev) in B7. change (trA_surf a_tr) with (evR_surf r_ev) in B7.
    change (trA_gs a_tr) with gs in B8. change (trA_method a_tr) with (i_method irr) in B8.
    change (giA_th a_gi) with (trR_th r_tr) in B9.
    destruct (Z.eqb_spec (i_method irr) 4) as [Em|Em].
    - destruct gs.
      + lra.
      + rewrite B2, B8 in * by (left; reflexivity). lra.
    - rewrite B2 in * by (right; exact Em). rewrite B8 in * by (right; exact Em). lra.
  Qed.

  (* ---------------------------------------------------------------- 3b. C03: bounds are preserved by the day *)
  Variable zb : R.     (* the bound on the ponding depth (bund height, or 0 without bunds) *)
  Definition surf_ok (v : R) : Prop := 0 <= v <= zb.
  Record CallsBounds : Prop := {
    pre_irrigation_bounds : in_bounds prof (piA_th a_pi) -> in_bounds prof (piR_th r_pi);
    drainage_bounds : in_bounds prof (drA_th a_dr) -> in_bounds prof (drR_th r_dr);
    infiltration_bounds : in_bounds prof (infA_th a_inf) -> surf_ok (infA_surf a_inf) ->
                          in_bounds prof (infR_th r_inf) /\ surf_ok (infR_surf r_inf);
    capillary_in_bounds : in_bounds prof (crA_th a_cr) -> in_bounds prof (crR_th r_cr);
    evaporation_bounds : in_bounds prof (evA_th a_ev) -> surf_ok (evA_surf a_ev) ->
                         in_bounds prof (evR_th r_ev) /\ surf_ok (evR_surf r_ev);
    transpiration_bounds : in_bounds prof (trA_th a_tr) -> surf_ok (trA_surf a_tr) ->
                           in_bounds prof (trR_th r_tr) /\ surf_ok (trR_surf r_tr);
    gw_inflow_in_bounds : in_bounds prof (giA_th a_gi) -> in_bounds prof (giR_th r_gi) }.

  (* the state after the day is within bounds, and so is the water content handed to every process in between *)
  Theorem day_bounds : CallsBounds -> in_bounds prof (d_th s) -> surf_ok (d_surface_storage s) ->
    (in_bounds prof (d_th s') /\ surf_ok (d_surface_storage s')) /\
    in_bounds prof (piA_th a_pi) /\ in_bounds prof (drA_th a_dr) /\ in_bounds prof (infA_th a_inf) /\
    in_bounds prof (crA_th a_cr) /\ in_bounds prof (evA_th a_ev) /\ in_bounds prof (trA_th a_tr) /\ in_bounds prof (giA_th a_gi) /\
    surf_ok (infA_surf a_inf) /\ surf_ok (evA_surf a_ev) /\ surf_ok (trA_surf a_tr).
  Proof.
    intros [C1 C2 C3 C4 C5 C6 C7] H0 S0.
    change (piA_th a_pi) with (d_th s) in *. change (drA_th a_dr) with (piR_th r_pi) in *.
    change (infA_th a_inf) with (drR_th r_dr) in *. change (infA_surf a_inf) with (d_surface_storage s) in *.
    change (crA_th a_cr) with (infR_th r_inf) in *. change (evA_th a_ev) with (crR_th r_cr) in *.
    change (evA_surf a_ev) with (infR_surf r_inf) in *. change (trA_th a_tr) with (evR_th r_ev) in *.
    change (trA_surf a_tr) with (evR_surf r_ev) in *. change (giA_th a_gi) with (trR_th r_tr) in *.
    change (d_th s') with (giR_th r_gi). change (d_surface_storage s') with (trR_surf r_tr).
    pose proof (C1 H0) as H1. pose proof (C2 H1) as H2. destruct (C3 H2 S0) as [H3 S3]. pose proof (C4 H3) as H4.
    destruct (C5 H4 S3) as [H5 S5]. destruct (C6 H5 S5) as [H6 S6]. pose proof (C7 H6) as H7.
    repeat match goal with |- _ /\ _ => split end; assumption.
  Qed.
End Day.

(* the universally quantified form: processes that satisfy their balance statements on every argument *)
Corollary day_balance_all par P season gs dap tsc w s :
  let prof := so_prof (p_soil par) in
  (forall a, storage prof (piR_th (p_pi P prof a)) = storage prof (piA_th a) + piR_preirr (p_pi P prof a)) ->
  (forall a, piA_gs a = false \/ i_method (piA_irr a) <> 4%Z -> piR_preirr (p_pi P prof a) = 0) ->
  (forall a, storage prof (drR_th (p_dr P prof a)) + drR_deepperc (p_dr P prof a) = storage prof (drA_th a)) ->
  (forall a, let r := p_inf P prof a in
             storage prof (infR_th r) + infR_surf r + infR_deepperc r + infR_runoff r =
             storage prof (infA_th a) + infA_surf a + offered a + infA_deepperc a + infA_runoff a) ->
  (forall a, let r := p_inf P prof a in infR_infl r + (infR_runoff r - infA_runoff a) = offered a) ->
  (forall a, let r := p_ev P prof a in storage prof (evR_th r) + evR_surf r + evR_es r = storage prof (evA_th a) + evA_surf a) ->
  (forall a, let r := p_tr P prof a in
             storage prof (trR_th r) + trR_surf r + trR_tr r = storage prof (trA_th a) + trA_surf a + trR_irrnet r) ->
  (forall a, trA_gs a = false \/ trA_method a <> 4%Z -> trR_irrnet (p_tr P prof a) = 0) ->
  (forall a, storage prof (giR_th (p_gi P prof a)) = storage prof (giA_th a) + giR_gwin (p_gi P prof a)) ->
  let o := day_core par P season gs dap tsc w s in
  let f := r_flux (o_row o) in
  storage prof (d_th (o_state o)) + d_surface_storage (o_state o) - (storage prof (d_th s) + d_surface_storage s) =
  fl_Infl f + (if (i_method (sel_irr par season) =? 4)%Z then fl_IrrDay f else 0) + CRactual par P season gs dap tsc w s
  + fl_GwIn f - fl_DeepPerc f - fl_Es f - fl_Tr f.
Proof.
  intros prof H1 H2 H3 H4 H5 H6 H7 H8 H9. apply day_balance. constructor; auto.
Qed.

(* ============================================================================================================ *)
(*  the day inside Clock.v's [day_step]                                                                          *)
(* ============================================================================================================ *)
(* the summary row written by the clock on a harvest day carries exactly the yields of the crop-growth row written
   the same day and the seasonal irrigation counter of the configured strategy after that day *)
Theorem day_step_summary par P c w (st : St (DState R)) st1 t row r :
  day_step' par P c w st = (st1, (t, row), Some r) ->
  let gs := in_season (DState R) dead c st in
  o_Dry (s_out r) = gr_Dry (r_growth row) /\ o_Fresh (s_out r) = gr_Fresh (r_growth row) /\ o_Pot (s_out r) = gr_Pot (r_growth row) /\
  o_IrrTot (s_out r) = (if gs then (if (i_method (sel_irr par (season st)) =? 4)%Z then d_irr_net_cum (phys st1) else d_irr_cum (phys st1)) else 0) /\
  s_season r = season st /\ s_step r = tsc st /\ s_date r = (tsc st + 1)%Z /\ t = tsc st /\ hflag st = false /\ hflag st1 = true.
Proof.
  unfold day_step', day_step. rewrite day_proc_out. cbv beta iota zeta.
  match goal with |- context [if ?b then Some _ else None] => destruct b eqn:Eb end; [|discriminate].
  intros E. inversion E; subst; clear E. cbn [s_out s_season s_step s_date phys hflag].
  repeat split; try reflexivity.
  apply andb_true_iff in Eb. destruct Eb as [_ Eb]. apply negb_true_iff in Eb. exact Eb.
Qed.

(* outside the growing season the clock hands dap = 0 to the day: every row has dap = 0 and no irrigation, no yield *)
Theorem day_step_off_season par P c w (st : St (DState R)) :
  in_season (DState R) dead c st = false ->
  let '(st1, (_, row), _) := day_step' par P c w st in
  Clock.dap st1 = 0%Z /\ fl_dap (r_flux row) = 0%Z /\ gr_dap (r_growth row) = 0%Z /\ st_dap (r_sto row) = 0%Z /\ st_gs (r_sto row) = false /\
  fl_IrrDay (r_flux row) = 0 /\ gr_Dry (r_growth row) = 0 /\ gr_Fresh (r_growth row) = 0 /\ gr_gdd_cum (r_growth row) = 0 /\
  d_gdd_cum (phys st1) = 0 /\ d_growing_season (phys st1) = false /\ mature st1 = mature st.
Proof.
  intros E. unfold day_step', day_step. rewrite day_proc_out. cbv beta iota zeta. rewrite E.
  cbn [Clock.dap phys mature andb].
  pose proof (off_season_wiring par P (season st) false 0 (tsc st) w (phys st) eq_refl) as H.
  cbv zeta in H. decompose [and] H. clear H.
  repeat split; try reflexivity; assumption.
Qed.

(* ============================================================================================================ *)
(*  5. the season reset: frame                                                                                   *)
(* ============================================================================================================ *)
Definition field_eq (f : string) (a b : DState R) : Prop :=
  if String.eqb f "age_days" then d_age_days a = d_age_days b else
  if String.eqb f "age_days_ns" then d_age_days_ns a = d_age_days_ns b else
  if String.eqb f "aer_days" then d_aer_days a = d_aer_days b else
  if String.eqb f "aer_days_comp" then d_aer_days_comp a = d_aer_days_comp b else
  if String.eqb f "irr_cum" then d_irr_cum a = d_irr_cum b else
  if String.eqb f "delayed_gdds" then d_delayed_gdds a = d_delayed_gdds b else
  if String.eqb f "delayed_cds" then d_delayed_cds a = d_delayed_cds b else
  if String.eqb f "pct_lag_phase" then d_pct_lag_phase a = d_pct_lag_phase b else
  if String.eqb f "t_early_sen" then d_t_early_sen a = d_t_early_sen b else
  if String.eqb f "gdd_cum" then d_gdd_cum a = d_gdd_cum b else
  if String.eqb f "day_submerged" then d_day_submerged a = d_day_submerged b else
  if String.eqb f "irr_net_cum" then d_irr_net_cum a = d_irr_net_cum b else
  if String.eqb f "e_pot" then d_e_pot a = d_e_pot b else
  if String.eqb f "t_pot" then d_t_pot a = d_t_pot b else
  if String.eqb f "pre_adj" then d_pre_adj a = d_pre_adj b else
  if String.eqb f "crop_dead" then d_crop_dead a = d_crop_dead b else
  if String.eqb f "germination" then d_germination a = d_germination b else
  if String.eqb f "premat_senes" then d_premat_senes a = d_premat_senes b else
  if String.eqb f "growing_season" then d_growing_season a = d_growing_season b else
  if String.eqb f "yield_form" then d_yield_form a = d_yield_form b else
  if String.eqb f "stage2" then d_stage2 a = d_stage2 b else
  if String.eqb f "wt_in_soil" then d_wt_in_soil a = d_wt_in_soil b else
  if String.eqb f "stage" then d_stage a = d_stage b else
  if String.eqb f "f_pre" then d_f_pre a = d_f_pre b else
  if String.eqb f "f_post" then d_f_post a = d_f_post b else
  if String.eqb f "fpost_dwn" then d_fpost_dwn a = d_fpost_dwn b else
  if String.eqb f "fpost_upp" then d_fpost_upp a = d_fpost_upp b else
  if String.eqb f "h1_cor_asum" then d_h1_cor_asum a = d_h1_cor_asum b else
  if String.eqb f "h1_cor_bsum" then d_h1_cor_bsum a = d_h1_cor_bsum b else
  if String.eqb f "f_pol" then d_f_pol a = d_f_pol b else
  if String.eqb f "s_cor1" then d_s_cor1 a = d_s_cor1 b else
  if String.eqb f "s_cor2" then d_s_cor2 a = d_s_cor2 b else
  if String.eqb f "hi_ref" then d_hi_ref a = d_hi_ref b else
  if String.eqb f "HIfinal" then d_HIfinal a = d_HIfinal b else
  if String.eqb f "growth_stage" then d_growth_stage a = d_growth_stage b else
  if String.eqb f "tr_ratio" then d_tr_ratio a = d_tr_ratio b else
  if String.eqb f "r_cor" then d_r_cor a = d_r_cor b else
  if String.eqb f "canopy_cover" then d_canopy_cover a = d_canopy_cover b else
  if String.eqb f "canopy_cover_adj" then d_canopy_cover_adj a = d_canopy_cover_adj b else
  if String.eqb f "canopy_cover_ns" then d_canopy_cover_ns a = d_canopy_cover_ns b else
  if String.eqb f "canopy_cover_adj_ns" then d_canopy_cover_adj_ns a = d_canopy_cover_adj_ns b else
  if String.eqb f "biomass" then d_biomass a = d_biomass b else
  if String.eqb f "biomass_ns" then d_biomass_ns a = d_biomass_ns b else
  if String.eqb f "YieldPot" then d_YieldPot a = d_YieldPot b else
  if String.eqb f "harvest_index" then d_harvest_index a = d_harvest_index b else
  if String.eqb f "harvest_index_adj" then d_harvest_index_adj a = d_harvest_index_adj b else
  if String.eqb f "ccx_act" then d_ccx_act a = d_ccx_act b else
  if String.eqb f "ccx_act_ns" then d_ccx_act_ns a = d_ccx_act_ns b else
  if String.eqb f "ccx_w" then d_ccx_w a = d_ccx_w b else
  if String.eqb f "ccx_w_ns" then d_ccx_w_ns a = d_ccx_w_ns b else
  if String.eqb f "ccx_early_sen" then d_ccx_early_sen a = d_ccx_early_sen b else
  if String.eqb f "cc_prev" then d_cc_prev a = d_cc_prev b else
  if String.eqb f "protected_seed" then d_protected_seed a = d_protected_seed b else
  if String.eqb f "DryYield" then d_DryYield a = d_DryYield b else
  if String.eqb f "FreshYield" then d_FreshYield a = d_FreshYield b else
  if String.eqb f "z_root" then d_z_root a = d_z_root b else
  if String.eqb f "cc0_adj" then d_cc0_adj a = d_cc0_adj b else
  if String.eqb f "surface_storage" then d_surface_storage a = d_surface_storage b else
  if String.eqb f "z_gw" then d_z_gw a = d_z_gw b else
  if String.eqb f "th_fc_Adj" then d_th_fc_Adj a = d_th_fc_Adj b else
  if String.eqb f "th" then d_th a = d_th b else
  if String.eqb f "thini" then d_thini a = d_thini b else
  if String.eqb f "time_step_counter" then d_time_step_counter a = d_time_step_counter b else
  if String.eqb f "precipitation" then d_precipitation a = d_precipitation b else
  if String.eqb f "temp_max" then d_temp_max a = d_temp_max b else
  if String.eqb f "temp_min" then d_temp_min a = d_temp_min b else
  if String.eqb f "et0" then d_et0 a = d_et0 b else
  if String.eqb f "sumET0EarlySen" then d_sumET0EarlySen a = d_sumET0EarlySen b else
  if String.eqb f "gdd" then d_gdd a = d_gdd b else
  if String.eqb f "w_surf" then d_w_surf a = d_w_surf b else
  if String.eqb f "evap_z" then d_evap_z a = d_evap_z b else
  if String.eqb f "w_stage_2" then d_w_stage_2 a = d_w_stage_2 b else
  if String.eqb f "depletion" then d_depletion a = d_depletion b else
  if String.eqb f "taw" then d_taw a = d_taw b else
  True.

(* the fields assigned by the model's [reset] (source order of reset_initial_conditions.py); dap, crop_mature and
   harvest_flag are the clock fields, reset by Clock.start_season *)
Definition reset_list : list string :=
  [ "age_days"; "age_days_ns"; "aer_days"; "irr_cum"; "delayed_gdds"; "delayed_cds"; "pct_lag_phase"; "t_early_sen"; "gdd_cum";
    "day_submerged"; "irr_net_cum"; "dap"; "aer_days_comp"; "pre_adj"; "crop_mature"; "crop_dead"; "germination"; "premat_senes";
    "harvest_flag"; "stage"; "f_pre"; "f_post"; "fpost_dwn"; "fpost_upp"; "h1_cor_asum"; "h1_cor_bsum"; "f_pol"; "s_cor1"; "s_cor2";
    "growth_stage"; "tr_ratio"; "r_cor"; "canopy_cover"; "canopy_cover_adj"; "canopy_cover_ns"; "canopy_cover_adj_ns"; "biomass";
    "biomass_ns"; "harvest_index"; "harvest_index_adj"; "ccx_act"; "ccx_act_ns"; "ccx_w"; "ccx_w_ns"; "ccx_early_sen"; "cc_prev";
    "cc0_adj"; "protected_seed"; "sumET0EarlySen"; "HIfinal"; "DryYield"; "FreshYield"; "th"; "e_pot"; "t_pot"; "surface_storage" ]%string.

Theorem reset_fields_match : reset_list = reset_fields.
Proof. vm_compute. reflexivity. Qed.

Local Ltac in_cases H := repeat (destruct H as [<- | H]; [try reflexivity|]); try destruct H.

(* every state field that is not in the list is left unchanged by [reset] *)
Theorem reset_frame par k ws (s : DState R) :
  forall f, In f state_fields -> ~ In f reset_fields -> field_eq f (reset par k ws s) s.
Proof.
  intros f Hf Hn. assert (H : In f carried_fields) by (apply carried_fields_spec; split; assumption).
  clear Hf Hn. vm_compute in H. in_cases H.
Qed.

(* ... and when the off-season is simulated also th, e_pot, t_pot and the ponding depth *)
Theorem reset_frame_off_season par k ws (s : DState R) : p_sim_off par = true ->
  let s1 := reset par k ws s in
  d_th s1 = d_th s /\ d_e_pot s1 = d_e_pot s /\ d_t_pot s1 = d_t_pot s /\ d_surface_storage s1 = d_surface_storage s.
Proof. intros E. cbn [reset d_th d_e_pot d_t_pot d_surface_storage]. rewrite E. repeat split; reflexivity. Qed.

(* when the off-season is skipped the water content restarts from the stored initial content *)
Theorem reset_restores_water par k ws (s : DState R) : p_sim_off par = false ->
  let s1 := reset par k ws s in
  d_th s1 = d_thini s /\ d_thini s1 = d_thini s /\ d_e_pot s1 = 0 /\ d_t_pot s1 = 0.
Proof. intros E. cbn [reset d_th d_e_pot d_t_pot d_thini]. rewrite E. repeat split; reflexivity. Qed.

(* the clock part of the reset *)
Theorem start_season_clock par k ws (st : St (DState R)) t :
  let st1 := start_season' par k ws st t in
  Clock.dap st1 = 0%Z /\ mature st1 = false /\ hflag st1 = false /\ season st1 = k /\ tsc st1 = t /\ phys st1 = reset par k ws (phys st).
Proof. repeat split; reflexivity. Qed.

(* ============================================================================================================ *)
(*  6. C08: fields that are dead at a season start                                                               *)
(* ============================================================================================================ *)
(* [proj] overwrites with fixed values the fields that survive the reset (GenFactsOK.carried_ok) and are claimed dead
   on the first day of a season.  Two carried fields are NOT blanked because they are live: [thini] (the source of the
   reset of th) and [th_fc_Adj] (without a water table check_groundwater_table returns it unchanged; it is a run
   constant then, see GenFactsOK). *)
Definition proj (s : DState R) : DState R :=
  {| d_age_days := d_age_days s; d_age_days_ns := d_age_days_ns s; d_aer_days := d_aer_days s; d_aer_days_comp := d_aer_days_comp s;
     d_irr_cum := d_irr_cum s; d_delayed_gdds := d_delayed_gdds s; d_delayed_cds := d_delayed_cds s; d_pct_lag_phase := d_pct_lag_phase s;
     d_t_early_sen := d_t_early_sen s; d_gdd_cum := d_gdd_cum s; d_day_submerged := d_day_submerged s; d_irr_net_cum := d_irr_net_cum s;
     d_e_pot := d_e_pot s; d_t_pot := d_t_pot s; d_pre_adj := d_pre_adj s; d_crop_dead := d_crop_dead s; d_germination := d_germination s;
     d_premat_senes := d_premat_senes s;
     d_growing_season := false; d_yield_form := false; d_stage2 := false; d_wt_in_soil := None;
     d_stage := d_stage s; d_f_pre := d_f_pre s; d_f_post := d_f_post s; d_fpost_dwn := d_fpost_dwn s; d_fpost_upp := d_fpost_upp s;
     d_h1_cor_asum := d_h1_cor_asum s; d_h1_cor_bsum := d_h1_cor_bsum s; d_f_pol := d_f_pol s; d_s_cor1 := d_s_cor1 s; d_s_cor2 := d_s_cor2 s;
     d_hi_ref := 0; d_HIfinal := d_HIfinal s; d_growth_stage := d_growth_stage s; d_tr_ratio := d_tr_ratio s; d_r_cor := d_r_cor s;
     d_canopy_cover := d_canopy_cover s; d_canopy_cover_adj := d_canopy_cover_adj s; d_canopy_cover_ns := d_canopy_cover_ns s;
     d_canopy_cover_adj_ns := d_canopy_cover_adj_ns s; d_biomass := d_biomass s; d_biomass_ns := d_biomass_ns s; d_YieldPot := 0;
     d_harvest_index := d_harvest_index s; d_harvest_index_adj := d_harvest_index_adj s; d_ccx_act := d_ccx_act s;
     d_ccx_act_ns := d_ccx_act_ns s; d_ccx_w := d_ccx_w s; d_ccx_w_ns := d_ccx_w_ns s; d_ccx_early_sen := d_ccx_early_sen s;
     d_cc_prev := d_cc_prev s; d_protected_seed := d_protected_seed s; d_DryYield := d_DryYield s; d_FreshYield := d_FreshYield s;
     d_z_root := 0; d_cc0_adj := d_cc0_adj s; d_surface_storage := d_surface_storage s; d_z_gw := None;
     d_th_fc_Adj := d_th_fc_Adj s; d_th := d_th s; d_thini := d_thini s;
     d_time_step_counter := 0%Z; d_precipitation := 0; d_temp_max := 0; d_temp_min := 0; d_et0 := 0;
     d_sumET0EarlySen := d_sumET0EarlySen s; d_gdd := 0; d_w_surf := 0; d_evap_z := 0; d_w_stage_2 := 0; d_depletion := 0; d_taw := 0 |}.

(* the blanked fields are exactly the carried fields other than thini and th_fc_Adj: on every other field proj is the identity *)
Definition proj_list : list string :=
  [ "growing_season"; "yield_form"; "stage2"; "w_surf"; "evap_z"; "w_stage_2"; "wt_in_soil"; "z_gw"; "hi_ref"; "YieldPot"; "z_root";
    "time_step_counter"; "precipitation"; "temp_max"; "temp_min"; "et0"; "gdd"; "depletion"; "taw" ]%string.
Theorem proj_list_carried : forall f, In f proj_list -> In f carried_ok /\ ~ In f reset_fields.
Proof.
  intros f H. split.
  - revert f H. apply subsetb_incl. vm_compute. reflexivity.
  - apply mem_not_In. revert f H. apply (proj1 (Forall_forall _ _)). vm_compute. repeat constructor.
Qed.
Theorem carried_ok_proj_or_live : forall f, In f carried_ok -> In f proj_list \/ f = "thini"%string \/ f = "th_fc_Adj"%string.
Proof. intros f H. vm_compute in H. repeat (destruct H as [<- | H]; [vm_compute; tauto|]). destruct H. Qed.
Theorem proj_frame (s : DState R) : forall f, In f state_fields -> ~ In f proj_list -> field_eq f (proj s) s.
Proof.
  intros f Hf Hn.
  assert (H : In f (filter (fun f => negb (mem f proj_list)) state_fields))
    by (apply filter_In; split; [assumption | apply negb_true_iff, mem_not_In; assumption]).
  clear Hf Hn. vm_compute in H. in_cases H.
Qed.

(* record updates used to state that a process ignores some of its arguments *)
Definition gw_with (a : A_gw R) (z : option R) : A_gw R :=
  {| gwA_zgw := z; gwA_th := gwA_th a; gwA_fcadj := gwA_fcadj a; gwA_wt := gwA_wt a; gwA_gw := gwA_gw a |}.
Definition rd_with (a : A_rd R) (z : R) : A_rd R :=
  {| rdA_crop := rdA_crop a; rdA_dap := rdA_dap a; rdA_zroot := z; rdA_dcd := rdA_dcd a; rdA_gddcum := rdA_gddcum a; rdA_dgdd := rdA_dgdd a;
     rdA_trratio := rdA_trratio a; rdA_th := rdA_th a; rdA_cc := rdA_cc a; rdA_ccns := rdA_ccns a; rdA_germ := rdA_germ a;
     rdA_rcor := rdA_rcor a; rdA_tpot := rdA_tpot a; rdA_zgw := rdA_zgw a; rdA_gdd := rdA_gdd a; rdA_gs := rdA_gs a; rdA_wt := rdA_wt a |}.
Definition ev_with (a : A_ev R) (wsurf evapz : R) (stage2 : bool) (wstage2 : R) : A_ev R :=
  {| evA_steps := evA_steps a; evA_simoff := evA_simoff a; evA_tsc := evA_tsc a; evA_zmin := evA_zmin a; evA_zmax := evA_zmax a;
     evA_rew := evA_rew a; evA_kex := evA_kex a; evA_fwcc := evA_fwcc a; evA_fwrelexp := evA_fwrelexp a; evA_fevap := evA_fevap a;
     evA_caltype := evA_caltype a; evA_senescence := evA_senescence a; evA_method := evA_method a; evA_wetsurf := evA_wetsurf a;
     evA_mulches := evA_mulches a; evA_fmulch := evA_fmulch a; evA_mulchpct := evA_mulchpct a; evA_dap := evA_dap a;
     evA_wsurf := wsurf; evA_evapz := evapz; evA_stage2 := stage2; evA_th := evA_th a; evA_dcd := evA_dcd a; evA_gddcum := evA_gddcum a;
     evA_dgdd := evA_dgdd a; evA_ccxw := evA_ccxw a; evA_ccadj := evA_ccadj a; evA_ccxact := evA_ccxact a; evA_cc := evA_cc a;
     evA_premat := evA_premat a; evA_surf := evA_surf a; evA_wstage2 := wstage2; evA_epot := evA_epot a; evA_et0 := evA_et0 a;
     evA_infl := evA_infl a; evA_rain := evA_rain a; evA_irr := evA_irr a; evA_gs := evA_gs a |}.
Definition hr_with (a : A_hr R) (hiref : R) (yf : bool) : A_hr R :=
  {| hrA_hiref := hiref; hrA_hifinal := hrA_hifinal a; hrA_dap := hrA_dap a; hrA_dcd := hrA_dcd a; hrA_yf := yf; hrA_pct := hrA_pct a;
     hrA_cc := hrA_cc a; hrA_ccprev := hrA_ccprev a; hrA_ccxw := hrA_ccxw a; hrA_crop := hrA_crop a; hrA_gs := hrA_gs a |}.

Section Day1.
  Variables (par : DPar R) (P : Procs R).
  Let prof := so_prof (p_soil par).
  (* hypotheses about individual processes (each is a statement a process unit can discharge from its model):
     check_groundwater_table does not use the previous groundwater depth it is handed *)
  Hypothesis check_gw_ignores_depth : forall a z, p_gw P prof (gw_with a z) = p_gw P prof a.
  (* root_development starts from Crop.Zmin on the first day after planting (RootsR.root_first_day) *)
  Hypothesis root_first_day : forall a z, rdA_dap a = 1%Z -> rdA_gs a = true -> p_rd P prof (rd_with a z) = p_rd P prof a.
  (* soil_evaporation re-initialises w_surf, evap_z, stage2, w_stage_2 when dap = 1 and the off-season is skipped *)
  Hypothesis evaporation_first_day : forall a ws ez s2 w2, evA_dap a = 1%Z -> evA_simoff a = false ->
    p_ev P prof (ev_with a ws ez s2 w2) = p_ev P prof a.
  (* HIref_current_day: HIt = dap - delayed_cds - HIstartCD - 1 <= 0 on the first day, so hi_ref := 0, and yield_form is
     assigned on every in-season path *)
  Hypothesis hiref_first_day : forall a h y, hrA_dap a = 1%Z -> hrA_gs a = true -> (0 <= hrA_dcd a)%Z ->
    p_hr P (hr_with a h y) = p_hr P a.

  Theorem day1_dead season tsc w (s : DState R) :
    p_sim_off par = false ->
    (0 <= geR_dcd (rs_ge (results (ctx par season true 1 tsc w s) P)))%Z ->   (* germination returns a non-negative day count *)
    day_proc par P season true 1 tsc w (proj s) = day_proc par P season true 1 tsc w s.
  Proof.
    intros Eoff Hdcd. rewrite !day_proc_out.
    set (x := ctx par season true 1 tsc w s). set (x' := ctx par season true 1 tsc w (proj s)).
    pose proof (results_spec x P) as Sp. pose proof (results_spec x' P) as Sp'.
    fold x in Hdcd.
    set (Rs := results x P) in *. set (Rs' := results x' P) in *. clearbody Rs Rs'.
    destruct Sp as [S0 S1 S2 S3 S4 S5 S6 S7 S8 S9 S10 S11 S12 S13 S14 S15 S16 S17 S18].
    destruct Sp' as [T0 T1 T2 T3 T4 T5 T6 T7 T8 T9 T10 T11 T12 T13 T14 T15 T16 T17 T18].
    assert (E0 : rs_gdd Rs' = rs_gdd Rs) by (rewrite S0, T0; reflexivity).
    assert (E1 : rs_gw Rs' = rs_gw Rs).
    { rewrite S1, T1. change (t_gw (trace_of x' Rs')) with (gw_with (t_gw (trace_of x Rs)) None). apply check_gw_ignores_depth. }
    assert (E2 : rs_rd Rs' = rs_rd Rs).
    { rewrite S2, T2. cbn [t_rd trace_of]. rewrite E0, E1.
      change (arg_rd x' (rs_gdd Rs) (rs_gw Rs)) with (rd_with (arg_rd x (rs_gdd Rs) (rs_gw Rs)) 0). apply root_first_day; reflexivity. }
    assert (E3 : rs_pi Rs' = rs_pi Rs) by (rewrite S3, T3; cbn [t_pi trace_of]; rewrite E2; reflexivity).
    assert (E4 : rs_dr Rs' = rs_dr Rs) by (rewrite S4, T4; cbn [t_dr trace_of]; rewrite E1, E3; reflexivity).
    assert (E5 : rs_rp Rs' = rs_rp Rs) by (rewrite S5, T5; cbn [t_rp trace_of]; rewrite E4; reflexivity).
    assert (E6 : rs_ir Rs' = rs_ir Rs) by (rewrite S6, T6; cbn [t_ir trace_of]; rewrite E2, E4, E5; reflexivity).
    assert (E7 : rs_inf Rs' = rs_inf Rs) by (rewrite S7, T7; cbn [t_inf trace_of]; rewrite E1, E4, E5, E6; reflexivity).
    assert (E8 : rs_cr Rs' = rs_cr Rs) by (rewrite S8, T8; cbn [t_cr trace_of]; rewrite E1, E7; reflexivity).
    assert (E9 : rs_ge Rs' = rs_ge Rs) by (rewrite S9, T9; cbn [t_ge trace_of]; rewrite E0, E8; reflexivity).
    assert (E10 : rs_gst Rs' = rs_gst Rs) by (rewrite S10, T10; cbn [t_gst trace_of]; rewrite E0, E9; reflexivity).
    assert (E11 : rs_cc Rs' = rs_cc Rs) by (rewrite S11, T11; cbn [t_cc trace_of]; rewrite E0, E2, E8, E9; reflexivity).
    assert (E12 : rs_ev Rs' = rs_ev Rs).
    { rewrite S12, T12. cbn [t_ev trace_of]. rewrite E0, E6, E7, E8, E9, E11.
      change (arg_ev x' (rs_gdd Rs) (rs_ir Rs) (rs_inf Rs) (rs_cr Rs) (rs_ge Rs) (rs_cc Rs))
        with (ev_with (arg_ev x (rs_gdd Rs) (rs_ir Rs) (rs_inf Rs) (rs_cr Rs) (rs_ge Rs) (rs_cc Rs)) 0 0 false 0).
      apply evaporation_first_day; [reflexivity | exact Eoff]. }
    assert (E13 : rs_tr Rs' = rs_tr Rs) by (rewrite S13, T13; cbn [t_tr trace_of]; rewrite E0, E2, E5, E6, E9, E11, E12; reflexivity).
    assert (E14 : rs_gi Rs' = rs_gi Rs) by (rewrite S14, T14; cbn [t_gi trace_of]; rewrite E1, E13; reflexivity).
    assert (E15 : rs_hr Rs' = rs_hr Rs).
    { rewrite S15, T15. cbn [t_hr trace_of]. rewrite E9, E11, E13.
      change (arg_hr x' (rs_ge Rs) (rs_cc Rs) (rs_tr Rs)) with (hr_with (arg_hr x (rs_ge Rs) (rs_cc Rs) (rs_tr Rs)) 0 false).
      apply hiref_first_day; [reflexivity | reflexivity | exact Hdcd]. }
    assert (E16 : rs_bm Rs' = rs_bm Rs) by (rewrite S16, T16; cbn [t_bm trace_of]; rewrite E9, E13, E15; reflexivity).
    assert (E17 : rs_hi Rs' = rs_hi Rs) by (rewrite S17, T17; cbn [t_hi trace_of]; rewrite E2, E9, E11, E13, E14, E15, E16; reflexivity).
    assert (E18 : rs_rz Rs' = rs_rz Rs) by (rewrite S18, T18; cbn [t_rz trace_of]; rewrite E2, E14; reflexivity).
    assert (ER : Rs' = Rs).
    { clear - E0 E1 E2 E3 E4 E5 E6 E7 E8 E9 E10 E11 E12 E13 E14 E15 E16 E17 E18. destruct Rs, Rs'. cbn in *. subst. reflexivity. }
    rewrite ER. reflexivity.
  Qed.
End Day1.

(* ============================================================================================================ *)
(*  Examples: the hypotheses of the main theorems are satisfiable on a concrete, non-trivial instance             *)
(* ============================================================================================================ *)
Module Ex.
Definition zeroS : DState R :=
  {| d_age_days := 0;
     d_age_days_ns := 0;
     d_aer_days := 0;
     d_aer_days_comp := [];
     d_irr_cum := 0;
     d_delayed_gdds := 0;
     d_delayed_cds := 0%Z;
     d_pct_lag_phase := 0;
     d_t_early_sen := 0;
     d_gdd_cum := 0;
     d_day_submerged := 0;
     d_irr_net_cum := 0;
     d_e_pot := 0;
     d_t_pot := 0;
     d_pre_adj := false;
     d_crop_dead := false;
     d_germination := false;
     d_premat_senes := false;
     d_growing_season := false;
     d_yield_form := false;
     d_stage2 := false;
     d_wt_in_soil := None;
     d_stage := 0;
     d_f_pre := 0;
     d_f_post := 0;
     d_fpost_dwn := 0;
     d_fpost_upp := 0;
     d_h1_cor_asum := 0;
     d_h1_cor_bsum := 0;
     d_f_pol := 0;
     d_s_cor1 := 0;
     d_s_cor2 := 0;
     d_hi_ref := 0;
     d_HIfinal := 0;
     d_growth_stage := 0%Z;
     d_tr_ratio := 0;
     d_r_cor := 0;
     d_canopy_cover := 0;
     d_canopy_cover_adj := 0;
     d_canopy_cover_ns := 0;
     d_canopy_cover_adj_ns := 0;
     d_biomass := 0;
     d_biomass_ns := 0;
     d_YieldPot := 0;
     d_harvest_index := 0;
     d_harvest_index_adj := 0;
     d_ccx_act := 0;
     d_ccx_act_ns := 0;
     d_ccx_w := 0;
     d_ccx_w_ns := 0;
     d_ccx_early_sen := 0;
     d_cc_prev := 0;
     d_protected_seed := false;
     d_DryYield := 0;
     d_FreshYield := 0;
     d_z_root := 0;
     d_cc0_adj := 0;
     d_surface_storage := 2;
     d_z_gw := None;
     d_th_fc_Adj := [3/10];
     d_th := [3/10];
     d_thini := [3/10];
     d_time_step_counter := 0%Z;
     d_precipitation := 0;
     d_temp_max := 0;
     d_temp_min := 0;
     d_et0 := 0;
     d_sumET0EarlySen := 0;
     d_gdd := 0;
     d_w_surf := 0;
     d_evap_z := 0;
     d_w_stage_2 := 0;
     d_depletion := 0;
     d_taw := 0 |}.
Definition z_gd : R_gd R := {| gdR_gdd := 0 |}.
Definition z_gw : R_gw R := {| gwR_fcadj := []; gwR_wtsoil := None; gwR_zgw := None |}.
Definition z_rd : R_rd R := {| rdR_zroot := 0; rdR_rcor := 0 |}.
Definition z_pi : R_pi R := {| piR_th := []; piR_preirr := 0 |}.
Definition z_dr : R_dr R := {| drR_th := []; drR_deepperc := 0; drR_flux := [] |}.
Definition z_rp : R_rp R := {| rpR_runoff := 0; rpR_infl := 0; rpR_daysub := 0 |}.
Definition z_ir : R_ir R := {| irR_depletion := 0; irR_taw := 0; irR_irrcum := 0; irR_irr := 0 |}.
Definition z_inf : R_inf R := {| infR_th := []; infR_surf := 0; infR_deepperc := 0; infR_runoff := 0; infR_infl := 0; infR_flux := [] |}.
Definition z_cr : R_cr R := {| crR_th := []; crR_cr := 0 |}.
Definition z_ge : R_ge R := {| geR_germ := false; geR_prot := false; geR_dcd := 0%Z; geR_dgdd := 0 |}.
Definition z_gst : R_gst := {| gstR_stage := 0%Z |}.
Definition z_cc : R_cc R := {| ccR_cc := 0; ccR_cc_prev := 0; ccR_cc_ns := 0; ccR_cc_adj := 0; ccR_cc_adj_ns := 0; ccR_ccx_act := 0; ccR_ccx_act_ns := 0; ccR_ccx_w := 0; ccR_ccx_w_ns := 0; ccR_cc0_adj := 0; ccR_ccx_early_sen := 0; ccR_t_early_sen := 0; ccR_prot := false; ccR_premat := false; ccR_dead := false |}.
Definition z_ev : R_ev R := {| evR_epot := 0; evR_th := []; evR_stage2 := false; evR_wstage2 := 0; evR_wsurf := 0; evR_surf := 0; evR_evapz := 0; evR_es := 0; evR_espot := 0 |}.
Definition z_tr : R_tr R := {| trR_tr := 0; trR_trpot_ns := 0; trR_trpot := 0; trR_irrnet := 0; trR_age_days_ns := 0; trR_age_days := 0; trR_cc := 0; trR_surf := 0; trR_day_sub := 0; trR_aer_comp := []; trR_th := []; trR_aer_days := 0; trR_irr_net_cum := 0; trR_depletion := 0; trR_taw := 0; trR_tr_ratio := 0; trR_t_pot := 0 |}.
Definition z_gi : R_gi R := {| giR_th := []; giR_gwin := 0 |}.
Definition z_hr : R_hr R := {| hrR_hiref := 0; hrR_yf := false; hrR_pct := 0 |}.
Definition z_bm : R_bm R := {| bmR_b := 0; bmR_bns := 0 |}.
Definition z_hi : R_hi R := {| hiR_hi := 0; hiR_hiadj := 0; hiR_preadj := false; hiR_fpre := 0; hiR_fpol := 0; hiR_scor1 := 0; hiR_scor2 := 0; hiR_upp := 0; hiR_dwn := 0; hiR_fpost := 0 |}.
Definition z_rz : R_rz R := {| rzR_wr := 0; rzR_drzt := 0; rzR_drrz := 0; rzR_tawzt := 0; rzR_tawrz := 0 |}.
Definition comp0 : Comp R :=
  {| c_dz := 1 / 10; c_dzsum := 1 / 10; c_zmid := 5 / 100; c_layer := 1; c_th_dry := 5 / 100; c_th_wp := 1 / 10; c_th_fc := 3 / 10;
     c_th_s := 5 / 10; c_ksat := 500; c_tau := 1 / 2; c_pen := 100; c_acr := 0; c_bcr := 0 |}.
Definition crop0 : DCrop R :=
  {| c_id := 0; c_GDDmethod := 3; c_Tupp := 30; c_Tbase := 8; c_GermThr := 2 / 10; c_PlantMethod := 1; c_CalendarType := 1;
     c_Senescence := 100; c_YldWC := 15; c_Maturity := 120; c_Zmin := 3 / 10; c_Aer := 5; c_CC0 := 1 / 100; c_HI0 := 48 / 100 |}.
Definition irr0 : DIrr R :=
  {| i_id := 0; i_method := 4; i_SMT := [70; 70; 70; 70]; i_AppEff := 100; i_MaxIrr := 25; i_IrrInterval := 3; i_Schedule := [];
     i_depth := 0; i_MaxIrrSeason := 10000; i_NetIrrSMT := 80; i_WetSurf := 100 |}.
Definition field0 : DField R :=
  {| f_id := 0; f_sr_inhb := false; f_bunds := true; f_z_bund := 10; f_cn_adj := false; f_cn_adj_pct := 0; f_mulches := false;
     f_f_mulch := 0; f_mulch_pct := 0; f_bund_water := 0 |}.
Definition soil0 : DSoil R :=
  {| so_cn := 61; so_adj_cn := 1; so_z_cn := 3 / 10; so_nComp := 1; so_z_top := 1 / 10; so_nLayer := 1; so_fshape_cr := 16;
     so_z_germ := 3 / 10; so_evap_z_min := 15 / 100; so_evap_z_max := 3 / 10; so_rew := 9; so_kex := 11 / 10; so_fwcc := 50;
     so_f_wrel_exp := 4 / 10; so_f_evap := 4; so_prof := [comp0] |}.
Definition par0 : DPar R :=
  {| p_soil := soil0; p_irr := irr0; p_fallow_irr := irr0; p_field := field0; p_fallow_field := field0; p_crop := fun _ => crop0;
     p_fallow_crop := crop0; p_water_table := 0; p_co2c := fun _ => 400; p_co2r := 36941 / 100; p_evap_steps := 20; p_sim_off := false |}.
Definition w0 : Day.W R := {| w_rain := 5; w_tmax := 25; w_tmin := 12; w_et0 := 4; w_gw := 0 |}.

(* toy processes: rain and irrigation pond on the surface, the pond evaporates completely, net irrigation adds 1 mm to
   the single compartment, pre-irrigation 2 mm; everything else passes its inputs through *)
Definition P0 : Procs R :=
  {| p_gd := fun _ => {| gdR_gdd := 10 |};
     p_gw := fun _ a => {| gwR_fcadj := gwA_fcadj a; gwR_wtsoil := None; gwR_zgw := None |};
     p_rd := fun _ a => {| rdR_zroot := 3 / 10; rdR_rcor := 1 |};
     p_pi := fun _ a => {| piR_th := map (fun t => t + 2 / 100) (piA_th a); piR_preirr := 2 |};
     p_dr := fun _ a => {| drR_th := drA_th a; drR_deepperc := 0; drR_flux := [] |};
     p_rp := fun _ a => {| rpR_runoff := 0; rpR_infl := rpA_rain a; rpR_daysub := rpA_daysub a |};
     p_ir := fun _ a => {| irR_depletion := 0; irR_taw := 0; irR_irrcum := irA_irrcum a; irR_irr := 0 |};
     p_inf := fun _ a => {| infR_th := infA_th a; infR_surf := infA_surf a + offered a; infR_deepperc := infA_deepperc a;
                            infR_runoff := infA_runoff a; infR_infl := offered a; infR_flux := infA_flux a |};
     p_cr := fun _ a => {| crR_th := crA_th a; crR_cr := 0 |};
     p_ge := fun _ a => {| geR_germ := true; geR_prot := geA_prot a; geR_dcd := 0; geR_dgdd := geA_dgdd a |};
     p_gst := fun _ => {| gstR_stage := 1 |};
     p_cc := fun _ a => {| ccR_cc := ccA_cc a; ccR_cc_prev := ccA_cc a; ccR_cc_ns := ccA_cc_ns a; ccR_cc_adj := ccA_cc_adj a;
                           ccR_cc_adj_ns := ccA_cc_adj_ns a; ccR_ccx_act := ccA_ccx_act a; ccR_ccx_act_ns := ccA_ccx_act_ns a;
                           ccR_ccx_w := ccA_ccx_w a; ccR_ccx_w_ns := ccA_ccx_w_ns a; ccR_cc0_adj := ccA_cc0_adj a;
                           ccR_ccx_early_sen := ccA_ccx_early_sen a; ccR_t_early_sen := ccA_t_early_sen a; ccR_prot := ccA_prot a;
                           ccR_premat := ccA_premat a; ccR_dead := ccA_dead a |};
     p_ev := fun _ a => {| evR_epot := 4; evR_th := evA_th a; evR_stage2 := false; evR_wstage2 := 0; evR_wsurf := 0; evR_surf := 0;
                           evR_evapz := 15 / 100; evR_es := evA_surf a; evR_espot := 4 |};
     p_tr := fun _ a => {| trR_tr := 0; trR_trpot_ns := 0; trR_trpot := 0; trR_irrnet := 1; trR_age_days_ns := trA_age_days_ns a;
                           trR_age_days := trA_age_days a; trR_cc := trA_cc a; trR_surf := trA_surf a; trR_day_sub := trA_day_sub a;
                           trR_aer_comp := trA_aer_comp a; trR_th := map (fun t => t + 1 / 100) (trA_th a); trR_aer_days := trA_aer_days a;
                           trR_irr_net_cum := trA_irr_net_cum a + 1; trR_depletion := trA_depletion a; trR_taw := trA_taw a;
                           trR_tr_ratio := 1; trR_t_pot := 0 |};
     p_gi := fun _ a => {| giR_th := giA_th a; giR_gwin := 0 |};
     p_hr := fun a => {| hrR_hiref := 0; hrR_yf := false; hrR_pct := 0 |};
     p_bm := fun a => {| bmR_b := bmA_b a + 12; bmR_bns := bmA_bns a + 15 |};
     p_hi := fun _ a => {| hiR_hi := 3 / 10; hiR_hiadj := 1 / 4; hiR_preadj := hiA_preadj a; hiR_fpre := hiA_fpre a; hiR_fpol := hiA_fpol a;
                           hiR_scor1 := hiA_scor1 a; hiR_scor2 := hiA_scor2 a; hiR_upp := hiA_upp a; hiR_dwn := hiA_dwn a;
                           hiR_fpost := hiA_fpost a |};
     p_rz := fun _ a => z_rz |}.

Example balance_hypotheses_satisfiable : CallsBalance par0 P0 0 true 1 0 w0 zeroS.
Proof.
  constructor; cbn; rnum; unfold offered; cbn; rnum; try lra.
  all: intros [H|H]; [discriminate | exfalso; apply H; reflexivity].
Qed.

(* ... and the conclusion on it: +5 mm rain ponded, 7 mm evaporated from the pond, 3 mm net irrigation incl. pre-irrigation *)
Example day_balance_example :
  let o := day_core par0 P0 0 true 1 0 w0 zeroS in
  storage [comp0] (d_th (o_state o)) + d_surface_storage (o_state o) - (storage [comp0] (d_th zeroS) + d_surface_storage zeroS) = 5 + 3 - 7
  /\ fl_Infl (r_flux (o_row o)) = 5 /\ fl_IrrDay (r_flux (o_row o)) = 3 /\ fl_Es (r_flux (o_row o)) = 7.
Proof.
  cbn. rnum. unfold offered, Rmax; cbn. destruct (Rle_dec 5 0); [lra|]. repeat split; lra.
Qed.

Example bounds_hypotheses_satisfiable :
  CallsBounds par0 P0 0 true 1 0 w0 zeroS 10 /\ in_bounds [comp0] (d_th zeroS) /\ surf_ok 10 (d_surface_storage zeroS).
Proof.
  assert (B : forall v, 5 / 100 <= v <= 5 / 10 -> in_bounds [comp0] [v]) by (intros v Hv; constructor; [cbn; lra | constructor]).
  split; [|split; [apply B; cbn; lra | unfold surf_ok; cbn; lra]].
  constructor; cbn; rnum; unfold surf_ok, offered, Rmax; cbn; try (destruct (Rle_dec 5 0)); intros;
    repeat split; try (apply B); try assumption; rnum; try lra.
Qed.

Example day1_hypotheses_satisfiable :
  (forall a z, p_gw P0 [comp0] (gw_with a z) = p_gw P0 [comp0] a) /\
  (forall a z, rdA_dap a = 1%Z -> rdA_gs a = true -> p_rd P0 [comp0] (rd_with a z) = p_rd P0 [comp0] a) /\
  (forall a ws ez s2 w2, evA_dap a = 1%Z -> evA_simoff a = false -> p_ev P0 [comp0] (ev_with a ws ez s2 w2) = p_ev P0 [comp0] a) /\
  (forall a h y, hrA_dap a = 1%Z -> hrA_gs a = true -> (0 <= hrA_dcd a)%Z -> p_hr P0 (hr_with a h y) = p_hr P0 a) /\
  p_sim_off par0 = false /\ (0 <= geR_dcd (rs_ge (results (ctx par0 0 true 1 0 w0 zeroS) P0)))%Z.
Proof. repeat split; try reflexivity. Qed.
End Ex.

