(* DayRowsP.v — per-ROW theorems of the CONCRETE day (DayConcrete.v: the orchestration of Day.v instantiated with the 19
   unit models), stated on the row the day writes ([row : DRow R], columns [fl_*], [gr_*], [st_*]) and on the states
   before / after the day, under the day-level invariant [DayConcreteP.DayInv] plus named static hypotheses on the
   parameters; and their lift to whole runs (RunConcrete.v) by the induction scheme of RunP.v / RunConcreteP.v.

   Part A  inversion of the concrete processes not covered by DayConcreteP (rainfall_partition, irrigation, gdd,
           HIref, biomass, groundwater check / inflow with the values handed over).
   Part B  Section RowsDay: the calls of one defined day as calls of the unit models on the day's values, and the
           unit theorems applied to them.
   Part C  the day theorems
             C04  [day_fluxes_concrete], [day_fluxes_noside_concrete]
             C02  [day_surface_concrete]
             C13  [day_irrigation_concrete], [day_irr_totals_concrete]
             C05  [day_gdd_concrete]
             C06  [day_yield_concrete]
             C19  [day_groundwater_concrete]
   Part D  run-level lift: [rows_day], [inv_rows_day], [run_steps_rows], [run_till_rows].
   Part E  satisfiability examples and Print Assumptions. *)
From Coq Require Import Reals List Bool ZArith Lra Lia.
From AC Require Import Num RInst Params Kernels Clock Day DayConcrete RunConcrete.
From AC.Water Require RootZone RainIrr Infiltration Drainage Groundwater Evaporation Transpiration.
From AC.Crop Require Canopy Roots Yield.
From AC.proofs Require Import ProfR DayP DayConcreteP ClockP RunP RunConcreteP.
From AC.proofs Require DrainageR InfiltrationR GroundwaterR EvaporationR TranspirationR RootsR YieldR RainIrrR KernelsR RootZoneR.
Import ListNotations.
Local Open Scope R_scope.

#[local] Existing Instance YieldR.RTrig.

(* ============================================================================================================ *)
(*  Part A: a call of a concrete process is a call of the unit model (the processes DayConcreteP does not invert)  *)
(* ============================================================================================================ *)
Lemma cgd_call a r : c_gd a = Some r ->
  growing_degree_day (gdA_method a) (gdA_tupp a) (gdA_tbase a) (gdA_tmax a) (gdA_tmin a) = Some (gdR_gdd r).
Proof. unfold c_gd. destruct (growing_degree_day _ _ _ _ _) as [g|]; intros [= <-]. reflexivity. Qed.

Lemma crp_call p a r : c_rp p a = Some r -> exists ds,
  RainIrr.rainfall_partition (rpA_rain a) (rpA_th a) (ntrunc num_ops (rpA_daysub a)) (rpA_srinhb a) (rpA_bunds a) (rpA_zbund a)
                             (rpA_pct a) (rpA_cn a) (rpA_adjcn a) (rpA_zcn a) (rpA_ncomp a) p
  = Some (rpR_runoff r, rpR_infl r, ds).
Proof.
  unfold c_rp. destruct (RainIrr.rainfall_partition _ _ _ _ _ _ _ _ _ _ _ _) as [[[ro infl] ds]|]; intros [= <-]. exists ds. reflexivity.
Qed.

Lemma cir_call p a r : c_ir p a = Some r ->
  RainIrr.irrigation (irA_method a) (irA_smt a) (irA_eff a) (irA_maxirr a) (irA_interval a) (irA_sched a) (irA_depth a)
                     (irA_maxseason a) (irA_stage a) (irA_irrcum a) (irA_epot a) (irA_tpot a) (irA_zroot a) (irA_th a)
                     (irA_dap a) (irA_tsc a) (c_Zmin (irA_crop a)) (c_Aer (irA_crop a)) p (irA_ztop a) (irA_gs a)
                     (irA_rain a) (irA_runoff a)
  = Some (irR_depletion r, irR_taw r, irR_irrcum r, irR_irr r).
Proof.
  unfold c_ir. destruct (RainIrr.irrigation _ _ _ _ _ _ _ _ _ _ _ _ _ _ _ _ _ _ _ _ _ _ _) as [[[[d t] c] i]|]; intros [= <-]. reflexivity.
Qed.

Lemma chr_call crops a r : c_hr crops a = Some r ->
  Yield.HIref_current_day (cf_y (crops (c_id (hrA_crop a)))) (hrA_hiref a) (hrA_hifinal a) (hrA_dap a) (hrA_dcd a) (hrA_yf a)
                          (hrA_pct a) (hrA_cc a) (hrA_ccxw a) (hrA_gs a) = (hrR_hiref r, hrR_yf r, hrR_pct r).
Proof.
  unfold c_hr. destruct (Yield.HIref_current_day _ _ _ _ _ _ _ _ _ _) as [[h yf] pct]. intros [= <-]. reflexivity.
Qed.

Lemma cbm_call crops a r : c_bm crops a = Some r ->
  Yield.biomass_accumulation (cf_y (crops (c_id (bmA_crop a)))) (bmA_dap a) (bmA_dcd a) (bmA_hiref a) (bmA_pct a) (bmA_b a)
                             (bmA_bns a) (bmA_tr a) (bmA_trpot a) (bmA_et0 a) (bmA_gs a) = Some (bmR_b r, bmR_bns r).
Proof.
  unfold c_bm. destruct (Yield.biomass_accumulation _ _ _ _ _ _ _ _ _ _ _) as [[b bns]|]; intros [= <-]. reflexivity.
Qed.

(* the groundwater check, with what it hands to the later processes *)
Lemma cgw_call_table p a r : gwA_wt a = 1%Z -> c_gw p a = Some r ->
  gwR_wtsoil r = Some (Groundwater.gw_wt_in_soil (gwA_gw a) p) /\ gwR_zgw r = Some (gwA_gw a) /\ 0 <= gwA_gw a.
Proof.
  intros E. unfold c_gw, Groundwater.check_groundwater_table. rewrite E. cbn [Z.eqb Pos.eqb]. rnum.
  destruct (Rleb_spec 0 (gwA_gw a)) as [H|H]; intros [= <-]; cbn. repeat split; try reflexivity. exact H.
Qed.
Lemma cgw_call_notable p a r : gwA_wt a <> 1%Z -> c_gw p a = Some r ->
  gwR_fcadj r = gwA_fcadj a /\ gwR_wtsoil r = None /\ gwR_zgw r = None.
Proof.
  intros E. unfold c_gw. rewrite (GroundwaterR.no_table _ _ _ _ E). intros [= <-]. cbn. repeat split; reflexivity.
Qed.

(* groundwater inflow with a known depth *)
Lemma cgi_call_depth p a r z : giA_zgw a = Some z -> c_gi p a = Some r ->
  Groundwater.groundwater_inflow p (giA_th a) (gi_wts a) z = Some (giR_th r, giR_gwin r).
Proof.
  intros E. unfold c_gi, obind. rewrite E.
  destruct (Groundwater.groundwater_inflow _ _ _ _) as [[th g]|] eqn:E1; intros [= <-]. reflexivity.
Qed.
Lemma cgi_call_off p a r : giA_wtsoil a = None -> c_gi p a = Some r -> giR_th r = giA_th a /\ giR_gwin r = 0.
Proof.
  intros E. unfold c_gi, obind, gi_wts. rewrite E. destruct (giA_zgw a); cbn [Groundwater.groundwater_inflow]; intros [= <-]; cbn; rnum; auto.
Qed.

(* transpiration, with the cumulative net-irrigation counter *)
Lemma ctr_call_cum crops p a r : c_tr crops p a = Some r ->
  exists o, Transpiration.transpiration p (trA_ztop a) (tr_crop (crops (c_id (trA_crop a))) (trA_crop a)) (trA_method a) (trA_smt a) (tr_state a)
                                         (trA_et0 a) (trA_co2c a) (trA_co2r a) (trA_gs a) (trA_gdd a) = Some o /\
            trR_irrnet r = Transpiration.o_IrrNet o /\ trR_irr_net_cum r = Transpiration.s_irr_net_cum (Transpiration.o_state o).
Proof.
  unfold c_tr. destruct (Transpiration.transpiration _ _ _ _ _ _ _ _ _ _ _) as [o|]; intros [= <-]. exists o. repeat split; reflexivity.
Qed.

(* in the season the net-irrigation counter advances by exactly the day's net irrigation (strategy 4) *)
Lemma irr_net_cum_update p ztop k smt s et0 co2c co2r gdd o :
  Transpiration.transpiration p ztop k 4 smt s et0 co2c co2r true gdd = Some o ->
  Transpiration.s_irr_net_cum (Transpiration.o_state o) = Transpiration.s_irr_net_cum s + Transpiration.o_IrrNet o.
Proof.
  TranspirationR.tr_inv. cbn [Transpiration.s_irr_net_cum Transpiration.o_state Transpiration.o_IrrNet].
  revert Et. unfold Transpiration.tr_tail. cbn [Z.eqb Pos.eqb andb]. rnum.
  match goal with |- context [Rltb 0 ?t] => destruct (Rltb_spec 0 t) as [Hpos|Hpos] end.
  - destruct (RootZone.root_zone_water p _ th1 _ _ _) as [r3|]; [|discriminate].
    match goal with |- match ?e with _ => _ end = _ -> _ => destruct e as [[t2 i2]|]; [|discriminate] end.
    intros [= _ <- <- _ _]. reflexivity.
  - match goal with |- context [Rleb ?t 0] => destruct (Rleb_spec t 0) as [Hle|Hle] end; [|lra]. intros [= _ <- <- _ _]. lra.
Qed.

Lemma tr_le_pot_gs p ztop k m smt s et0 co2c co2r gs gdd o : gs = true ->
  TranspirationR.tr_wf p k s -> Transpiration.transpiration p ztop k m smt s et0 co2c co2r gs gdd = Some o ->
  0 <= Transpiration.o_TrPot0 o -> 0 <= Transpiration.o_TrAct o <= Transpiration.o_TrPot0 o.
Proof. intros ->. apply TranspirationR.tr_le_pot. Qed.

Lemma Forall3_proj13 {A B C} (P : A -> B -> C -> Prop) (Q : A -> C -> Prop) la lb lc :
  (forall a b c, P a b c -> Q a c) -> GroundwaterR.Forall3 P la lb lc -> Forall2 Q la lc.
Proof. intros H F. induction F; constructor; eauto. Qed.

(* ============================================================================================================ *)
(*  static hypotheses on the parameters, named                                                                   *)
(* ============================================================================================================ *)
(* the effective curve number of the field management [f] (soil CN times the management adjustment, which applies only
   when the adjustment is switched on) lies in (0,100] — exactly the hypothesis of RainIrrR.scs_split *)
Definition cn_ok_field (par : DPar R) (f : DField R) : Prop :=
  0 < RainIrrR.cn_mgmt (so_cn (p_soil par)) (if f_cn_adj f then f_cn_adj_pct f else 0) <= 100.
Definition cn_ok (par : DPar R) : Prop := cn_ok_field par (p_field par) /\ cn_ok_field par (p_fallow_field par).
Lemma cn_ok_sel par season gs : cn_ok par -> cn_ok_field par (sel_field par season gs).
Proof. intros [H1 H2]. unfold sel_field. destruct (0 <=? season)%Z; [destruct gs|]; assumption. Qed.

(* the irrigation depth applied at the surface, read from the flux row: the IrrDay column, except under net irrigation
   (method 4) where the column reports the net requirement and nothing is applied at the surface *)
Definition surface_irr (par : DPar R) (season : Z) (row : DRow R) : R :=
  if (i_method (sel_irr par season) =? 4)%Z then 0 else fl_IrrDay (r_flux row).

Lemma gs_cases (b : bool) : b = true \/ b = false.
Proof. destruct b; auto. Qed.

(* ============================================================================================================ *)
(*  Part B: one defined concrete day                                                                             *)
(* ============================================================================================================ *)
Section RowsDay.
  Variables (par : DPar R) (crops : Z -> CropFull R) (season : Z) (gs : bool) (dap tsc : Z) (w : Day.W R) (s : DState R).
  Variable Rs : Results R.
  Let x := ctx par season gs dap tsc w s.
  Let PO := procs_concrete crops.
  Let prof := so_prof (p_soil par).
  Let soil := p_soil par.
  Let irr := sel_irr par season.
  Let field := sel_field par season gs.
  Let crop := sel_crop par season.
  Hypothesis HR : results_opt x PO = Some Rs.
  Let SO : SpecO x PO Rs := results_opt_spec _ _ _ HR.
  Let tr := trace_of x Rs.
  Let row := row_of x Rs.
  Let s' := state_of x Rs.

  (* ---- the remaining calls, as calls of the unit models on the values of the day ---------------------------- *)
  Lemma v_gd : gs = true ->
    growing_degree_day (c_GDDmethod crop) (c_Tupp crop) (c_Tbase crop) (w_tmax w) (w_tmin w) = Some (rs_gdd Rs).
  Proof.
    intros E. pose proof (so_gdd _ _ _ SO) as H. cbn [x_gs x ctx] in H. rewrite E in H. destruct H as (g & H1 & H2).
    rewrite H2. exact (cgd_call _ _ H1).
  Qed.
  Lemma v_gdd_off : gs = false -> rs_gdd Rs = 3 / 10.
  Proof. intros E. pose proof (so_gdd _ _ _ SO) as H. cbn [x_gs x ctx] in H. rewrite E in H. exact H. Qed.

  Lemma v_rp : exists ds,
    RainIrr.rainfall_partition (w_rain w) (drR_th (rs_dr Rs)) (ntrunc num_ops (d_day_submerged s)) (f_sr_inhb field) (f_bunds field)
      (f_z_bund field) (if f_cn_adj field then f_cn_adj_pct field else 0) (so_cn soil) (so_adj_cn soil) (so_z_cn soil) (so_nComp soil) prof
    = Some (rpR_runoff (rs_rp Rs), rpR_infl (rs_rp Rs), ds).
  Proof. exact (crp_call _ _ _ (so_rp _ _ _ SO)). Qed.

  Lemma v_ir :
    RainIrr.irrigation (i_method irr) (i_SMT irr) (i_AppEff irr) (i_MaxIrr irr) (i_IrrInterval irr) (i_Schedule irr) (i_depth irr)
      (i_MaxIrrSeason irr) (d_growth_stage s) (d_irr_cum s) (d_e_pot s) (d_t_pot s) (rdR_zroot (rs_rd Rs)) (drR_th (rs_dr Rs)) dap tsc
      (c_Zmin crop) (c_Aer crop) prof (so_z_top soil) gs (w_rain w) (rpR_runoff (rs_rp Rs))
    = Some (irR_depletion (rs_ir Rs), irR_taw (rs_ir Rs), irR_irrcum (rs_ir Rs), irR_irr (rs_ir Rs)).
  Proof. exact (cir_call _ _ _ (so_ir _ _ _ SO)). Qed.

  Lemma v_hr :
    Yield.HIref_current_day (cf_y (crops (c_id crop))) (d_hi_ref s) (d_HIfinal s) dap (geR_dcd (rs_ge Rs)) (d_yield_form s)
      (d_pct_lag_phase s) (trR_cc (rs_tr Rs)) (ccR_ccx_w (rs_cc Rs)) gs = (hrR_hiref (rs_hr Rs), hrR_yf (rs_hr Rs), hrR_pct (rs_hr Rs)).
  Proof. exact (chr_call _ _ _ (so_hr _ _ _ SO)). Qed.

  Lemma v_bm :
    Yield.biomass_accumulation (cf_y (crops (c_id crop))) dap (geR_dcd (rs_ge Rs)) (hrR_hiref (rs_hr Rs)) (hrR_pct (rs_hr Rs))
      (d_biomass s) (d_biomass_ns s) (trR_tr (rs_tr Rs)) (trR_trpot_ns (rs_tr Rs)) (w_et0 w) gs = Some (bmR_b (rs_bm Rs), bmR_bns (rs_bm Rs)).
  Proof. exact (cbm_call _ _ _ (so_bm _ _ _ SO)). Qed.

  (* the surface irrigation read from the row is the irrigation process's result *)
  Lemma surface_irr_eq : surface_irr par season row = irR_irr (rs_ir Rs).
  Proof.
    unfold surface_irr. subst row. cbn [row_of r_flux fl_IrrDay]. unfold irrday_of.
    change (x_irr x) with irr. change (x_gs x) with gs. fold irr.
    destruct (Z.eqb_spec (i_method irr) 4) as [E|E].
    - symmetry. exact (RainIrrR.irr_net_zero _ _ _ _ _ _ _ _ _ _ _ _ _ _ _ _ _ _ _ _ _ _ _ _ _ _ _ v_ir E).
    - destruct (gs_cases gs) as [Eg|Eg]; rewrite Eg; [reflexivity|].
      symmetry. exact (proj1 (RainIrrR.irr_off_season_zero _ _ _ _ _ _ _ _ _ _ _ _ _ _ _ _ _ _ _ _ _ _ _ _ _ _ _ v_ir Eg)).
  Qed.

  Hypothesis Inv : DayInv par s.
  Let Hwf : wf_prof prof := inv_wf _ _ Inv.
  Let Bfc : fcadj_ok prof (gwR_fcadj (rs_gw Rs)) := b_fc _ _ _ _ _ _ _ _ _ HR Inv.
  Let Bpi : in_bounds prof (piR_th (rs_pi Rs)) := b_pi _ _ _ _ _ _ _ _ _ HR Inv.
  Let Bdr : in_bounds prof (drR_th (rs_dr Rs)) := b_dr _ _ _ _ _ _ _ _ _ HR Inv.
  Let Binf := b_inf _ _ _ _ _ _ _ _ _ HR Inv.
  Let Udr := u_dr _ _ _ _ _ _ _ _ _ HR.
  Let Uinf := u_inf _ _ _ _ _ _ _ _ _ HR.

  Lemma flux_ok_dr : InfiltrationR.flux_ok prof (drR_flux (rs_dr Rs)).
  Proof. exact (DrainageR.drainage_flux_le_ksat _ _ _ _ _ _ Hwf Bpi Bfc Udr). Qed.

  (* ---- C04: signs that need no side condition ----------------------------------------------------------------- *)
  Lemma f_irr_nonneg : 0 <= irR_irr (rs_ir Rs).
  Proof. exact (RainIrrR.irr_nonneg _ _ _ _ _ _ _ _ _ _ _ _ _ _ _ _ _ _ _ _ _ _ _ _ _ _ _ v_ir). Qed.
  Lemma f_preirr_nonneg : 0 <= piR_preirr (rs_pi Rs).
  Proof. exact (proj2 (RootsR.pre_irrigation_balance _ _ _ _ _ _ _ _ _ _ Hwf (u_pi _ _ _ _ _ _ _ _ _ HR))). Qed.
  Lemma f_dp_dr_nonneg : 0 <= drR_deepperc (rs_dr Rs).
  Proof. exact (DrainageR.drainage_deep_perc_nonneg _ _ _ _ _ _ Hwf Bpi Bfc Udr). Qed.
  Lemma f_deepperc : drR_deepperc (rs_dr Rs) <= infR_deepperc (rs_inf Rs).
  Proof.
    exact (proj1 (InfiltrationR.deep_perc_nonneg _ _ _ _ _ _ _ _ _ _ _ _ _ _ _ _ _ _ _ Hwf Bdr Bfc flux_ok_dr (inv_surf _ _ Inv) Uinf)).
  Qed.
  Lemma f_runoff_ge : rpR_runoff (rs_rp Rs) <= infR_runoff (rs_inf Rs).
  Proof.
    pose proof (InfiltrationR.runoff_lower _ _ _ _ _ _ _ _ _ _ _ _ _ _ _ _ _ _ _ Hwf Bdr Bfc (inv_surf _ _ Inv) Uinf). lra.
  Qed.
  Lemma f_cr_nonneg : 0 <= crR_cr (rs_cr Rs).
  Proof.
    destruct (u_cr _ _ _ _ _ _ _ _ _ HR) as (z & E).
    exact (GroundwaterR.cr_nonneg _ _ _ _ _ _ _ _ _ _ Hwf (eq_sym (in_bounds_length _ _ (proj1 Binf))) (eq_sym (fcadj_ok_length _ _ Bfc)) E).
  Qed.
  Lemma f_gwin_nonneg : 0 <= giR_gwin (rs_gi Rs).
  Proof. destruct (u_gi _ _ _ _ _ _ _ _ _ HR) as (z & E). exact (GroundwaterR.gwin_nonneg _ _ _ _ _ _ Hwf E). Qed.
  Lemma f_es : 0 <= evR_espot (rs_ev Rs) -> 0 <= evR_es (rs_ev Rs) <= evR_espot (rs_ev Rs).
  Proof.
    intros H. destruct (u_ev _ _ _ _ _ _ _ _ _ HR) as (o & E & _ & _ & -> & Ep). rewrite Ep in *.
    exact (EvaporationR.es_le_pot _ _ _ _ _ _ _ _ _ _ E H).
  Qed.

  (* ---- rain partition: needs the curve-number hypothesis and rain >= 0 --------------------------------------- *)
  Hypothesis Hrain : 0 <= w_rain w.
  Hypothesis Hcn : cn_ok_field par field.

  Lemma f_split : rpR_runoff (rs_rp Rs) + rpR_infl (rs_rp Rs) = w_rain w /\ 0 <= rpR_runoff (rs_rp Rs) <= w_rain w.
  Proof. destruct v_rp as (ds & E). exact (RainIrrR.scs_split _ _ _ _ _ _ _ _ _ _ _ _ _ _ _ Hcn Hrain E). Qed.
  Lemma f_runoff_nonneg : 0 <= infR_runoff (rs_inf Rs).
  Proof. pose proof f_split. pose proof f_runoff_ge. lra. Qed.

  (* what infiltration is offered: the rain that did not run off plus the efficiency-adjusted irrigation *)
  Lemma f_offered : offered (t_inf tr) = rpR_infl (rs_rp Rs) + irR_irr (rs_ir Rs) * (i_AppEff irr / 100).
  Proof.
    unfold offered. subst tr. cbn [t_inf trace_of arg_inf infA_infl infA_gs infA_irr infA_eff x_gs x ctx x_irr x_par x_season]. fold irr.
    destruct f_split as [H1 H2]. rewrite Rmax_left by lra.
    destruct (gs_cases gs) as [Eg|Eg]; rewrite Eg; [reflexivity|].
    rewrite (proj1 (RainIrrR.irr_off_season_zero _ _ _ _ _ _ _ _ _ _ _ _ _ _ _ _ _ _ _ _ _ _ _ _ _ _ _ v_ir Eg)). lra.
  Qed.
  Lemma f_offeredR : InfiltrationR.offered (rpR_infl (rs_rp Rs)) (irR_irr (rs_ir Rs)) (i_AppEff irr) gs
                     = rpR_infl (rs_rp Rs) + irR_irr (rs_ir Rs) * (i_AppEff irr / 100).
  Proof. rewrite <- f_offered. symmetry. exact (offered_eq (t_inf tr)). Qed.

  (* ---- C02 ------------------------------------------------------------------------------------------------------ *)
  Lemma c02_identity : infR_infl (rs_inf Rs) + infR_runoff (rs_inf Rs) = w_rain w + irR_irr (rs_ir Rs) * (i_AppEff irr / 100).
  Proof.
    pose proof (InfiltrationR.surface_identity _ _ _ _ _ _ _ _ _ _ _ _ _ _ _ _ _ _ _ Uinf) as H. fold irr in H. rewrite f_offeredR in H.
    destruct f_split as [H1 _]. lra.
  Qed.
  Lemma c02_runoff : 0 <= infR_runoff (rs_inf Rs) <= w_rain w + irR_irr (rs_ir Rs) * (i_AppEff irr / 100) + d_surface_storage s.
  Proof.
    pose proof (InfiltrationR.runoff_bounds _ _ _ _ _ _ _ _ _ _ _ _ _ _ _ _ _ _ _ Hwf Bdr Bfc flux_ok_dr (inv_surf _ _ Inv) Uinf) as H.
    fold irr in H. rewrite f_offeredR in H. destruct f_split as [H1 H2]. lra.
  Qed.
  Lemma c02_infl_neg : infR_infl (rs_inf Rs) < 0 ->
    (f_bunds field = false \/ f_z_bund field <= 1 / 1000 \/ f_z_bund field < d_surface_storage s) /\ 0 < d_surface_storage s /\
    - d_surface_storage s <= infR_infl (rs_inf Rs).
  Proof.
    intros Hn.
    destruct (InfiltrationR.infl_negative_only_without_bunds _ _ _ _ _ _ _ _ _ _ _ _ _ _ _ _ _ _ _ Hwf Bdr Bfc flux_ok_dr (inv_surf _ _ Inv) Uinf Hn)
      as [H1 H2].
    pose proof (InfiltrationR.infl_lower _ _ _ _ _ _ _ _ _ _ _ _ _ _ _ _ _ _ _ Hwf Bdr Bfc flux_ok_dr (inv_surf _ _ Inv) Uinf) as [H3 _].
    split; [exact H1|]. split; [exact H2|exact H3].
  Qed.
  (* with the ponding invariant of C03 for the field management in force only the bund-removal day is left *)
  Lemma c02_infl_neg_removal : d_surface_storage s <= zb_of field \/ zb_of field = 0 -> infR_infl (rs_inf Rs) < 0 ->
    f_bunds field = false \/ f_z_bund field <= 1 / 1000.
  Proof.
    intros Hz Hn. destruct (c02_infl_neg Hn) as ([H|[H|H]] & Hs & _); [left; exact H | right; exact H |].
    unfold zb_of in Hz. destruct (f_bunds field); [|left; reflexivity]. cbn [andb] in Hz.
    destruct (Rltb_spec (1 / 1000) (f_z_bund field)) as [Hb|Hb]; [|right; lra]. exfalso. destruct Hz as [Hz|Hz]; lra.
  Qed.
  Lemma c02_dry : w_rain w = 0 -> irR_irr (rs_ir Rs) = 0 -> d_surface_storage s = 0 ->
    infR_infl (rs_inf Rs) = 0 /\ infR_runoff (rs_inf Rs) = 0.
  Proof.
    intros Hr Hi Hs. destruct f_split as [H1 H2].
    assert (Ho : InfiltrationR.offered (rpR_infl (rs_rp Rs)) (irR_irr (rs_ir Rs)) (i_AppEff irr) gs = 0) by (rewrite f_offeredR, Hi; lra).
    destruct (InfiltrationR.dry_day _ _ _ _ _ _ _ _ _ _ _ _ _ _ _ _ _ _ _ Hwf Bdr Bfc Ho Hs Uinf) as (A & B & _).
    split; [exact A | lra].
  Qed.

  (* ---- C04: transpiration and the net-irrigation requirement (need TranspirationR.tr_wf for the day's call) ---- *)
  Lemma f_tr : TranspirationR.tr_wf prof (tr_crop (crops (c_id crop)) crop) (tr_state (t_tr tr)) -> 0 <= trR_trpot (rs_tr Rs) ->
    0 <= trR_tr (rs_tr Rs) <= trR_trpot (rs_tr Rs).
  Proof.
    intros Hw Hp. destruct (gs_cases gs) as [Eg|Eg].
    - destruct (u_tr _ _ _ _ _ _ _ _ _ HR) as (o & E & _ & _ & -> & _ & Ep). rewrite Ep in *.
      exact (tr_le_pot_gs _ _ _ _ _ _ _ _ _ _ _ _ Eg Hw E Hp).
    - pose proof (so_tr _ _ _ SO) as S13. cbn [procs_concrete po_tr PO] in S13.
      destruct (c_tr_off crops (x_prof x) (t_tr tr) (rs_tr Rs) Eg S13) as (T1 & T2 & _). rewrite T1, T2. lra.
  Qed.
  Lemma f_irrnet_lower :
    TranspirationR.tr_wf prof (tr_crop (crops (c_id crop)) crop) (tr_state (t_tr tr)) -> 1 / 100 <= c_Zmin crop ->
    (i_method irr = 4%Z -> TranspirationR.layers_ok prof) ->
    - (1 / 100) * INR (Transpiration.tr_comp_sto prof (Transpiration.tr_rootdepth (rdR_zroot (rs_rd Rs)) (c_Zmin crop))) <= trR_irrnet (rs_tr Rs).
  Proof.
    intros Hw Hz Hl. destruct (u_tr _ _ _ _ _ _ _ _ _ HR) as (o & E & _ & _ & _ & -> & _).
    assert (Hm : i_method irr = 4%Z -> 0 <= i_NetIrrSMT irr <= 100 /\ TranspirationR.layers_ok prof)
      by (intros M; split; [exact (irr_smt par season s Inv) | exact (Hl M)]).
    exact (TranspirationR.irrnet_lower _ _ _ _ _ _ _ _ _ _ _ _ Hw Hz Hm E).
  Qed.

  (* ---- C19 ------------------------------------------------------------------------------------------------------ *)
  Lemma c19_no_table : p_water_table par = 0%Z -> crR_cr (rs_cr Rs) = 0 /\ giR_gwin (rs_gi Rs) = 0.
  Proof.
    intros W0. split.
    - destruct (u_cr _ _ _ _ _ _ _ _ _ HR) as (z & E). rewrite W0 in E.
      rewrite (proj1 (GroundwaterR.no_table_zero _ _ _ _ _ _ _)) in E. inversion E. reflexivity.
    - pose proof (so_gw _ _ _ SO) as S1. cbn [procs_concrete po_gw PO] in S1.
      assert (N1 : gwA_wt (t_gw tr) <> 1%Z) by (cbn; unfold x_wt; cbn; rewrite W0; discriminate).
      destruct (cgw_call_notable (x_prof x) (t_gw tr) (rs_gw Rs) N1 S1) as (_ & G2 & _).
      pose proof (so_gi _ _ _ SO) as S14. cbn [procs_concrete po_gi PO] in S14.
      exact (proj2 (cgi_call_off (x_prof x) (t_gi tr) (rs_gi Rs) G2 S14)).
  Qed.

  Lemma c19_saturated : p_water_table par = 1%Z -> in_bounds prof (trR_th (rs_tr Rs)) ->
    Forall2 (fun c t' => w_gw w <= c_zmid c -> t' = c_th_s c) prof (giR_th (rs_gi Rs)).
  Proof.
    intros W1 Hb.
    pose proof (so_gw _ _ _ SO) as S1. cbn [procs_concrete po_gw PO] in S1.
    assert (E1 : gwA_wt (t_gw tr) = 1%Z) by exact W1.
    destruct (cgw_call_table (x_prof x) (t_gw tr) (rs_gw Rs) E1 S1) as (G1 & G2 & G3).
    pose proof (so_gi _ _ _ SO) as S14. cbn [procs_concrete po_gi PO] in S14.
    pose proof (cgi_call_depth (x_prof x) (t_gi tr) (rs_gi Rs) _ G2 S14) as E.
    assert (Ew : gi_wts (t_gi tr) = Groundwater.gw_wt_in_soil (w_gw w) prof) by (unfold gi_wts; cbn [t_gi tr trace_of arg_gi giA_wtsoil]; rewrite G1; reflexivity).
    cbn [t_gi tr trace_of arg_gi giA_th t_gw arg_gw gwA_gw x_w x ctx] in E. change (x_prof x) with prof in E.
    change (gi_wts (arg_gi x (rs_gw Rs) (rs_tr Rs))) with (gi_wts (t_gi tr)) in E. rewrite Ew in E.
    destruct (Groundwater.gw_wt_in_soil (w_gw w) prof) eqn:Es.
    - pose proof (GroundwaterR.gw_inflow_post _ _ _ _ _ Hb E) as F.
      eapply Forall3_proj13; [|exact F]. cbn. intros c t t' (H & _). exact H.
    - cbn [Groundwater.groundwater_inflow] in E. inversion E as [[E2 E3]].
      assert (Hn : Forall (fun c => ~ w_gw w <= c_zmid c) prof).
      { apply Forall_forall. intros c Hc Hz.
        assert (Hx : Groundwater.gw_wt_in_soil (w_gw w) prof = true)
          by (apply GroundwaterR.gw_wt_in_soil_spec; apply Exists_exists; exists c; split; assumption).
        congruence. }
      clear - Hn Hb. induction Hb as [|c t p0 l0 _ _ IH]; constructor.
      + inversion Hn; subst. intros; contradiction.
      + apply IH. inversion Hn; assumption.
  Qed.
End RowsDay.

(* ============================================================================================================ *)
(*  Part C: the day theorems, on the row the day writes                                                          *)
(* ============================================================================================================ *)
Lemma irrday_not4 par crops season gs dap tsc w s Rs :
  results_opt (ctx par season gs dap tsc w s) (procs_concrete crops) = Some Rs -> i_method (sel_irr par season) <> 4%Z ->
  fl_IrrDay (r_flux (row_of (ctx par season gs dap tsc w s) Rs)) = irR_irr (rs_ir Rs).
Proof.
  intros HR N. rewrite <- (surface_irr_eq par crops season gs dap tsc w s Rs HR). unfold surface_irr.
  apply Z.eqb_neq in N. rewrite N. reflexivity.
Qed.

(* ---- C04 -------------------------------------------------------------------------------------------------------- *)
(* the part that needs no side condition: under DayInv, rain >= 0 and an effective curve number in (0,100], irrigation
   (strategies other than net irrigation), runoff, deep percolation, capillary rise and groundwater inflow are >= 0, and
   actual soil evaporation lies between 0 and the potential whenever the potential is >= 0 *)
Theorem day_fluxes_noside_concrete par crops season gs dap tsc w s s' row :
  DayInv par s -> 0 <= w_rain w -> cn_ok_field par (sel_field par season gs) ->
  day_proc_opt par (procs_concrete crops) season gs dap tsc w s = Some (s', row) ->
  let f := r_flux row in
  (i_method (sel_irr par season) <> 4%Z -> 0 <= fl_IrrDay f) /\
  0 <= fl_Runoff f /\ 0 <= fl_DeepPerc f /\ 0 <= fl_CR f /\ 0 <= fl_GwIn f /\
  (0 <= fl_EsPot f -> 0 <= fl_Es f <= fl_EsPot f).
Proof.
  intros Inv Hr Hcn H. cbv zeta.
  destruct (day_proc_opt_total _ _ _ _ _ _ _ _ _ _ H) as (_ & Rs & HR & _ & -> & ->).
  split; [intros N; rewrite (irrday_not4 _ _ _ _ _ _ _ _ _ HR N); exact (f_irr_nonneg par crops season gs dap tsc w s Rs HR)|].
  cbn [row_of r_flux fl_Runoff fl_DeepPerc fl_CR fl_GwIn fl_Es fl_EsPot].
  split; [exact (f_runoff_nonneg par crops season gs dap tsc w s Rs HR Inv Hr Hcn)|].
  split; [pose proof (f_deepperc par crops season gs dap tsc w s Rs HR Inv); pose proof (f_dp_dr_nonneg par crops season gs dap tsc w s Rs HR Inv); lra|].
  split; [exact (f_cr_nonneg par crops season gs dap tsc w s Rs HR Inv)|].
  split; [exact (f_gwin_nonneg par crops season gs dap tsc w s Rs HR Inv)|].
  exact (f_es par crops season gs dap tsc w s Rs HR).
Qed.

(* the full statement, with the side conditions of the day (DaySide: EsPot >= 0, TrPot >= 0, tr_wf for the day's call,
   layers_ok under net irrigation).  Under net irrigation (strategy 4) the IrrDay column reports IrrNet + PreIrr, which
   is bounded below by minus the 0.01 mm-per-compartment rounding of the root-zone bookkeeping
   (TranspirationR.irrnet_lower; TranspirationR.irrnet_nonneg_refuted shows it can be negative) *)
Theorem day_fluxes_concrete par crops season gs dap tsc w s s' row :
  DayInv par s -> 0 <= w_rain w -> cn_ok_field par (sel_field par season gs) ->
  day_proc_opt par (procs_concrete crops) season gs dap tsc w s = Some (s', row) ->
  (forall Rs, results_opt (ctx par season gs dap tsc w s) (procs_concrete crops) = Some Rs -> DaySide par crops season gs dap tsc w s Rs) ->
  let f := r_flux row in let irr := sel_irr par season in let crop := sel_crop par season in
  (i_method irr <> 4%Z -> 0 <= fl_IrrDay f) /\
  (i_method irr = 4%Z -> 1 / 100 <= c_Zmin crop ->
   - (1 / 100) * INR (Transpiration.tr_comp_sto (so_prof (p_soil par)) (Transpiration.tr_rootdepth (gr_z_root (r_growth row)) (c_Zmin crop)))
   <= fl_IrrDay f) /\
  0 <= fl_Runoff f /\ 0 <= fl_DeepPerc f /\ 0 <= fl_CR f /\ 0 <= fl_GwIn f /\
  0 <= fl_EsPot f /\ 0 <= fl_Es f <= fl_EsPot f /\ 0 <= fl_TrPot f /\ 0 <= fl_Tr f <= fl_TrPot f.
Proof.
  intros Inv Hr Hcn H Side.
  destruct (day_fluxes_noside_concrete _ _ _ _ _ _ _ _ _ _ Inv Hr Hcn H) as (A1 & A2 & A3 & A4 & A5 & A6). cbv zeta in *.
  destruct (day_proc_opt_total _ _ _ _ _ _ _ _ _ _ H) as (_ & Rs & HR & _ & -> & ->).
  specialize (Side Rs HR). destruct Side as [_ Sesp Strp Swf Slay].
  split; [exact A1|]. split; [|split; [exact A2|]; split; [exact A3|]; split; [exact A4|]; split; [exact A5|]].
  - intros M Hz. cbn [row_of r_flux fl_IrrDay r_growth gr_z_root]. unfold irrday_of, irrnet_of. cbn [x_gs ctx].
    change (x_irr (ctx par season gs dap tsc w s)) with (sel_irr par season). rnum.
    apply Z.eqb_eq in M. rewrite M. apply Z.eqb_eq in M.
    pose proof (f_irrnet_lower par crops season gs dap tsc w s Rs HR Inv Swf Hz Slay) as L.
    pose proof (f_preirr_nonneg par crops season gs dap tsc w s Rs HR Inv) as P.
    pose proof (pos_INR (Transpiration.tr_comp_sto (so_prof (p_soil par))
                           (Transpiration.tr_rootdepth (rdR_zroot (rs_rd Rs)) (c_Zmin (sel_crop par season))))) as HX.
    set (X := INR _) in *. destruct gs; cbv iota; lra.
  - cbn [row_of r_flux fl_Es fl_EsPot fl_Tr fl_TrPot] in *.
    split; [exact Sesp|]. split; [exact (A6 Sesp)|]. split; [exact Strp|].
    exact (f_tr par crops season gs dap tsc w s Rs HR Swf Strp).
Qed.

(* ---- C02 -------------------------------------------------------------------------------------------------------- *)
Theorem day_surface_concrete par crops season gs dap tsc w s s' row :
  DayInv par s -> 0 <= w_rain w -> cn_ok_field par (sel_field par season gs) ->
  day_proc_opt par (procs_concrete crops) season gs dap tsc w s = Some (s', row) ->
  let f := r_flux row in let field := sel_field par season gs in
  let applied := surface_irr par season row * (i_AppEff (sel_irr par season) / 100) in
  (* rain plus the efficiency-adjusted irrigation = infiltration + runoff *)
  fl_Infl f + fl_Runoff f = w_rain w + applied /\
  0 <= fl_Runoff f <= w_rain w + applied + d_surface_storage s /\
  (* negative infiltration: only when ponded water is released (no bunds, bunds of at most 1 mm, or bunds lowered below the
     ponded depth), and by no more than the ponded water *)
  (fl_Infl f < 0 ->
     (f_bunds field = false \/ f_z_bund field <= 1 / 1000 \/ f_z_bund field < d_surface_storage s) /\
     0 < d_surface_storage s /\ - d_surface_storage s <= fl_Infl f) /\
  (* ... with the ponding invariant of C03 for the field management in force: only the bund-removal day *)
  (d_surface_storage s <= zb_of field \/ zb_of field = 0 -> fl_Infl f < 0 -> f_bunds field = false \/ f_z_bund field <= 1 / 1000) /\
  (* dry day *)
  (w_rain w = 0 -> surface_irr par season row = 0 -> d_surface_storage s = 0 -> fl_Infl f = 0 /\ fl_Runoff f = 0) /\
  (* the irrigation applied at the surface is never negative and is zero outside the season and under net irrigation *)
  0 <= surface_irr par season row /\ (gs = false -> surface_irr par season row = 0).
Proof.
  intros Inv Hr Hcn H. cbv zeta.
  destruct (day_proc_opt_total _ _ _ _ _ _ _ _ _ _ H) as (_ & Rs & HR & _ & -> & ->).
  rewrite (surface_irr_eq par crops season gs dap tsc w s Rs HR).
  cbn [row_of r_flux fl_Infl fl_Runoff].
  split; [exact (c02_identity par crops season gs dap tsc w s Rs HR Hr Hcn)|].
  split; [exact (c02_runoff par crops season gs dap tsc w s Rs HR Inv Hr Hcn)|].
  split; [exact (c02_infl_neg par crops season gs dap tsc w s Rs HR Inv)|].
  split; [exact (c02_infl_neg_removal par crops season gs dap tsc w s Rs HR Inv)|].
  split; [exact (c02_dry par crops season gs dap tsc w s Rs HR Inv Hr Hcn)|].
  split; [exact (f_irr_nonneg par crops season gs dap tsc w s Rs HR)|].
  intros Eg. exact (proj1 (RainIrrR.irr_off_season_zero _ _ _ _ _ _ _ _ _ _ _ _ _ _ _ _ _ _ _ _ _ _ _ _ _ _ _ (v_ir par crops season gs dap tsc w s Rs HR) Eg)).
Qed.

(* ---- C13 -------------------------------------------------------------------------------------------------------- *)
(* the two intermediate values the irrigation decision reads — the water content after drainage [th_dr] and the runoff of
   the rain partition [ro] — characterised from the state before the day, the adjusted field capacity of the day (stored
   in s') and the weather; valid for every strategy other than net irrigation (no pre-irrigation then) *)
Definition day_irr_inputs (par : DPar R) (season : Z) (gs : bool) (w : Day.W R) (s s' : DState R) (th_dr : list R) (ro : R) : Prop :=
  let prof := so_prof (p_soil par) in let soil := p_soil par in let field := sel_field par season gs in
  (exists dp fl, Drainage.drainage prof (d_th s) (d_th_fc_Adj s') = Some (th_dr, dp, fl)) /\
  (exists infl ds,
     RainIrr.rainfall_partition (w_rain w) th_dr (ntrunc num_ops (d_day_submerged s)) (f_sr_inhb field) (f_bunds field) (f_z_bund field)
       (if f_cn_adj field then f_cn_adj_pct field else 0) (so_cn soil) (so_adj_cn soil) (so_z_cn soil) (so_nComp soil) prof
     = Some (ro, infl, ds)).

Theorem day_irrigation_concrete par crops season gs dap tsc w s s' row :
  day_proc_opt par (procs_concrete crops) season gs dap tsc w s = Some (s', row) ->
  let irr := sel_irr par season in let crop := sel_crop par season in let f := r_flux row in
  let capped := RainIrrR.capped (i_MaxIrrSeason irr) (d_irr_cum s) in
  (* nothing outside the season, nothing when rainfed *)
  (gs = false -> fl_IrrDay f = 0 /\ d_irr_cum s' = 0) /\
  (i_method irr = 0%Z -> fl_IrrDay f = 0) /\
  (* daily maximum (strategies 0,1,2,3,5) *)
  (i_method irr <> 4%Z -> 0 <= fl_IrrDay f /\ (0 <= i_MaxIrr irr -> fl_IrrDay f <= i_MaxIrr irr)) /\
  (* seasonal maximum: preserved by the day; in the season the counter advances by the irrigation applied *)
  (0 <= i_MaxIrrSeason irr -> d_irr_cum s <= i_MaxIrrSeason irr -> d_irr_cum s' <= i_MaxIrrSeason irr) /\
  (gs = true -> d_irr_cum s <= i_MaxIrrSeason irr -> d_irr_cum s' <= i_MaxIrrSeason irr) /\
  (gs = true -> d_irr_cum s' = d_irr_cum s + surface_irr par season row) /\
  (* 2: fixed interval *)
  (gs = true -> i_method irr = 2%Z -> 0 < fl_IrrDay f -> i_IrrInterval irr <> 0%Z /\ ((dap - 1) mod i_IrrInterval irr = 0)%Z) /\
  (* 3: schedule *)
  (gs = true -> i_method irr = 3%Z ->
     exists v, RainIrr.py_index (i_Schedule irr) tsc = Some v /\ 0 <= v /\ fl_IrrDay f = capped (Rmin (i_MaxIrr irr) v) /\
               (0 <= i_MaxIrr irr -> d_irr_cum s + Rmin (i_MaxIrr irr) v <= i_MaxIrrSeason irr -> fl_IrrDay f = Rmin (i_MaxIrr irr) v)) /\
  (* 5: constant depth *)
  (gs = true -> i_method irr = 5%Z ->
     fl_IrrDay f = capped (Rmin (i_MaxIrr irr) (i_depth irr)) /\
     (0 <= i_MaxIrr irr -> 0 <= i_depth irr -> d_irr_cum s + Rmin (i_MaxIrr irr) (i_depth irr) <= i_MaxIrrSeason irr ->
      fl_IrrDay f = Rmin (i_MaxIrr irr) (i_depth irr))) /\
  (* 1: soil-moisture threshold of the growth stage stored the day before (stage 1 on the first day after planting) *)
  (gs = true -> i_method irr = 1%Z ->
     exists th_dr ro depl taw thr,
       day_irr_inputs par season gs w s s' th_dr ro /\
       RainIrr.irr_depletion (so_prof (p_soil par)) (gr_z_root (r_growth row)) th_dr (so_z_top (p_soil par)) (c_Zmin crop) (c_Aer crop)
                             (d_t_pot s) (d_e_pot s) (w_rain w) ro = Some (depl, taw) /\
       RainIrr.py_index (i_SMT irr) (RainIrrR.irr_stage dap (d_growth_stage s) - 1) = Some thr /\
       (1 - thr / 100 < depl / taw ->
          fl_IrrDay f = capped (Rmin (i_MaxIrr irr) (Rmax 0 depl * ((100 - i_AppEff irr + 100) / 100)))) /\
       (depl / taw <= 1 - thr / 100 -> fl_IrrDay f = 0) /\
       (0 < fl_IrrDay f -> 1 - thr / 100 < depl / taw /\ 0 < depl)) /\
  (* 4: net irrigation applies nothing at the surface: the counter of applied irrigation does not move *)
  (gs = true -> i_method irr = 4%Z -> d_irr_cum s' = d_irr_cum s).
Proof.
  intros H. cbv zeta.
  destruct (day_proc_opt_total _ _ _ _ _ _ _ _ _ _ H) as (_ & Rs & HR & _ & -> & ->).
  pose proof (v_ir par crops season gs dap tsc w s Rs HR) as V.
  pose proof (irrday_not4 par crops season gs dap tsc w s Rs HR) as EI.
  pose proof (surface_irr_eq par crops season gs dap tsc w s Rs HR) as ES.
  change (d_irr_cum (state_of (ctx par season gs dap tsc w s) Rs)) with (irR_irrcum (rs_ir Rs)).
  set (irr := sel_irr par season) in *.
  split.
  { intros Eg. destruct (RainIrrR.irr_off_season_zero _ _ _ _ _ _ _ _ _ _ _ _ _ _ _ _ _ _ _ _ _ _ _ _ _ _ _ V Eg) as (A & B & _).
    split; [|exact B]. subst gs. reflexivity. }
  split.
  { intros M. rewrite EI by (rewrite M; discriminate). exact (RainIrrR.irr_rainfed_zero _ _ _ _ _ _ _ _ _ _ _ _ _ _ _ _ _ _ _ _ _ _ _ _ _ _ _ V M). }
  split.
  { intros N. rewrite (EI N). split; [exact (RainIrrR.irr_nonneg _ _ _ _ _ _ _ _ _ _ _ _ _ _ _ _ _ _ _ _ _ _ _ _ _ _ _ V)|].
    exact (RainIrrR.irr_daily_cap _ _ _ _ _ _ _ _ _ _ _ _ _ _ _ _ _ _ _ _ _ _ _ _ _ _ _ V). }
  split; [exact (RainIrrR.irr_season_cap _ _ _ _ _ _ _ _ _ _ _ _ _ _ _ _ _ _ _ _ _ _ _ _ _ _ _ V)|].
  split; [exact (RainIrrR.irr_season_cap_in_season _ _ _ _ _ _ _ _ _ _ _ _ _ _ _ _ _ _ _ _ _ _ _ _ _ _ _ V)|].
  split; [intros Eg; rewrite ES; exact (RainIrrR.irr_cum_update _ _ _ _ _ _ _ _ _ _ _ _ _ _ _ _ _ _ _ _ _ _ _ _ _ _ _ V Eg)|].
  split.
  { intros Eg M. rewrite EI by (rewrite M; discriminate). exact (RainIrrR.irr_interval_days _ _ _ _ _ _ _ _ _ _ _ _ _ _ _ _ _ _ _ _ _ _ _ _ _ _ _ V Eg M). }
  split.
  { intros Eg M. rewrite EI by (rewrite M; discriminate). exact (RainIrrR.irr_schedule_exact _ _ _ _ _ _ _ _ _ _ _ _ _ _ _ _ _ _ _ _ _ _ _ _ _ _ _ V Eg M). }
  split.
  { intros Eg M. rewrite EI by (rewrite M; discriminate). exact (RainIrrR.irr_constant_depth _ _ _ _ _ _ _ _ _ _ _ _ _ _ _ _ _ _ _ _ _ _ _ _ _ _ _ V Eg M). }
  split.
  { intros Eg M. assert (N : i_method irr <> 4%Z) by (rewrite M; discriminate). rewrite (EI N).
    exists (drR_th (rs_dr Rs)), (rpR_runoff (rs_rp Rs)), (irR_depletion (rs_ir Rs)), (irR_taw (rs_ir Rs)).
    destruct (RainIrrR.irr_smt_spec _ _ _ _ _ _ _ _ _ _ _ _ _ _ _ _ _ _ _ _ _ _ _ _ _ _ _ V Eg M) as (thr & T1 & T2 & T3).
    exists thr.
    split.
    { unfold day_irr_inputs. cbv zeta. cbn [state_of d_th_fc_Adj].
      split.
      - pose proof (u_dr par crops season gs dap tsc w s Rs HR) as D.
        pose proof (u_pi par crops season gs dap tsc w s Rs HR) as P.
        rewrite RootsR.pre_irrigation_inert in P by (left; exact N). inversion P as [[P1 P2]]. rewrite <- P1 in D.
        eexists; eexists; exact D.
      - destruct (v_rp par crops season gs dap tsc w s Rs HR) as (ds & E). eexists; eexists; exact E. }
    split.
    { cbn [row_of r_growth gr_z_root]. pose proof V as V'. rewrite Eg in V'.
      destruct (RainIrrR.irrigation_in_season _ _ _ _ _ _ _ _ _ _ _ _ _ _ _ _ _ _ _ _ _ _ _ _ _ _ V') as (i0 & D & _). exact D. }
    split; [exact T1|]. split; [exact T2|]. split; [exact T3|].
    intros Hp. destruct (RainIrrR.irr_smt_only_if _ _ _ _ _ _ _ _ _ _ _ _ _ _ _ _ _ _ _ _ _ _ _ _ _ _ _ V Eg M Hp) as (thr' & U1 & U2 & U3).
    rewrite T1 in U1. inversion U1; subst thr'. split; assumption. }
  intros Eg M.
  rewrite (RainIrrR.irr_cum_update _ _ _ _ _ _ _ _ _ _ _ _ _ _ _ _ _ _ _ _ _ _ _ _ _ _ _ V Eg).
  rewrite (RainIrrR.irr_net_zero _ _ _ _ _ _ _ _ _ _ _ _ _ _ _ _ _ _ _ _ _ _ _ _ _ _ _ V M). lra.
Qed.

(* seasonal totals (C06 / C13): in the season the counter that the summary row reports advances by exactly the IrrDay
   column of the day — the applied irrigation for strategies 0,1,2,3,5, the net requirement incl. pre-irrigation for 4 *)
Theorem day_irr_totals_concrete par crops season gs dap tsc w s s' row :
  day_proc_opt par (procs_concrete crops) season gs dap tsc w s = Some (s', row) -> gs = true ->
  let irr := sel_irr par season in let f := r_flux row in
  (i_method irr <> 4%Z -> d_irr_cum s' = d_irr_cum s + fl_IrrDay f) /\
  (i_method irr = 4%Z -> d_irr_net_cum s' = d_irr_net_cum s + fl_IrrDay f).
Proof.
  intros H Eg. cbv zeta.
  destruct (day_proc_opt_total _ _ _ _ _ _ _ _ _ _ H) as (_ & Rs & HR & _ & -> & ->).
  split.
  - intros N. rewrite (irrday_not4 par crops season gs dap tsc w s Rs HR N).
    exact (RainIrrR.irr_cum_update _ _ _ _ _ _ _ _ _ _ _ _ _ _ _ _ _ _ _ _ _ _ _ _ _ _ _ (v_ir par crops season gs dap tsc w s Rs HR) Eg).
  - intros M. cbn [state_of d_irr_net_cum row_of r_flux fl_IrrDay]. unfold irrday_of, irrnet_of. cbn [x_gs ctx].
    change (x_irr (ctx par season gs dap tsc w s)) with (sel_irr par season). rewrite Eg.
    pose proof (so_tr _ _ _ (results_opt_spec _ _ _ HR)) as S13. cbn [procs_concrete po_tr] in S13.
    destruct (ctr_call_cum _ _ _ _ S13) as (o & E & E1 & E2).
    cbn [t_tr trace_of arg_tr trA_method trA_gs x_gs ctx] in E.
    change (x_irr (ctx par season gs dap tsc w s)) with (sel_irr par season) in E. rewrite M, Eg in E.
    pose proof (irr_net_cum_update _ _ _ _ _ _ _ _ _ _ E) as U. cbn [tr_state Transpiration.s_irr_net_cum trA_irr_net_cum arg_tr x_s ctx] in U.
    apply Z.eqb_eq in M. rewrite M. rnum. rewrite E1, E2, U. lra.
Qed.

(* ---- C05: growing degree days ------------------------------------------------------------------------------------ *)
Theorem day_gdd_concrete par crops season gs dap tsc w s s' row :
  day_proc_opt par (procs_concrete crops) season gs dap tsc w s = Some (s', row) ->
  let g := r_growth row in let crop := sel_crop par season in
  (gs = true -> c_Tbase crop <= c_Tupp crop -> 0 <= gr_gdd g <= c_Tupp crop - c_Tbase crop) /\
  (gs = true -> gr_gdd_cum g = d_gdd_cum s + gr_gdd g) /\
  d_gdd_cum s' = gr_gdd_cum g /\
  (gs = true -> c_Tbase crop <= c_Tupp crop -> d_gdd_cum s <= d_gdd_cum s') /\
  (gs = false -> gr_gdd g = 3 / 10 /\ gr_gdd_cum g = 0 /\ d_gdd_cum s' = 0).
Proof.
  intros H. cbv zeta.
  destruct (day_proc_opt_total _ _ _ _ _ _ _ _ _ _ H) as (_ & Rs & HR & _ & -> & ->).
  cbn [row_of r_growth gr_gdd gr_gdd_cum state_of d_gdd_cum]. unfold gdd_cum_of. cbn [x_gs ctx x_s].
  assert (G : gs = true -> c_Tbase (sel_crop par season) <= c_Tupp (sel_crop par season) ->
              0 <= rs_gdd Rs <= c_Tupp (sel_crop par season) - c_Tbase (sel_crop par season)).
  { intros Eg Hb. exact (KernelsR.gdd_range _ _ _ _ _ _ Hb (v_gd par crops season gs dap tsc w s Rs HR Eg)). }
  split; [exact G|].
  split; [intros ->; rnum; reflexivity|].
  split; [reflexivity|].
  split; [intros Eg Hb; specialize (G Eg Hb); rewrite Eg; rnum; lra|].
  intros Eg. rewrite (v_gdd_off par crops season gs dap tsc w s Rs HR Eg), Eg. rnum. repeat split; reflexivity.
Qed.

(* ---- C06: yields and biomass ------------------------------------------------------------------------------------- *)
Theorem day_yield_concrete par crops season gs dap tsc w s s' row :
  day_proc_opt par (procs_concrete crops) season gs dap tsc w s = Some (s', row) ->
  let g := r_growth row in let f := r_flux row in let crop := sel_crop par season in let c := cf_y (crops (c_id crop)) in
  gr_Pot g = gr_B_ns g / 100 * gr_HI g /\
  (gs = true -> gr_Dry g = gr_B g / 100 * gr_HIadj g /\ gr_Fresh g = gr_Dry g / (c_YldWC crop / 100)) /\
  (gs = false -> gr_Dry g = 0 /\ gr_Fresh g = 0) /\
  (* the state carries exactly the row's values *)
  d_biomass s' = gr_B g /\ d_biomass_ns s' = gr_B_ns g /\ d_DryYield s' = gr_Dry g /\ d_FreshYield s' = gr_Fresh g /\ d_YieldPot s' = gr_Pot g /\
  (* biomass gain (YieldR.biomass_gain; its two side conditions on PctLagPhase / HIref follow from the range of PctLagPhase
     before the day, which the day preserves) *)
  (0 <= d_pct_lag_phase s <= 100 -> 0 <= d_pct_lag_phase s' <= 100) /\
  (gs = true -> 0 <= d_pct_lag_phase s <= 100 -> Yield.y_WPy c <= 100 ->
     exists k, Yield.y_WPy c / 100 <= k <= 1 /\
               gr_B g - d_biomass s = Yield.y_WP c * Yield.y_fCO2 c * (fl_Tr f / w_et0 w) * k /\
               exists trpot_ns, gr_B_ns g - d_biomass_ns s = Yield.y_WP c * Yield.y_fCO2 c * (trpot_ns / w_et0 w) * k) /\
  (* biomass never decreases within the season *)
  (gs = true -> 0 <= d_pct_lag_phase s <= 100 -> 0 <= Yield.y_WPy c <= 100 -> 0 <= Yield.y_WP c -> 0 <= Yield.y_fCO2 c ->
     0 <= fl_Tr f -> 0 < w_et0 w -> d_biomass s <= gr_B g).
Proof.
  intros H. cbv zeta.
  destruct (day_proc_opt_total _ _ _ _ _ _ _ _ _ _ H) as (_ & Rs & HR & _ & -> & ->).
  cbn [row_of r_growth r_flux gr_Pot gr_B_ns gr_HI gr_Dry gr_B gr_HIadj gr_Fresh fl_Tr state_of d_biomass d_biomass_ns d_DryYield d_FreshYield
       d_YieldPot d_pct_lag_phase].
  unfold ypot_of, dry_of, fresh_of, dry_of. cbn [x_gs ctx]. change (x_crop (ctx par season gs dap tsc w s)) with (sel_crop par season).
  set (c := cf_y (crops (c_id (sel_crop par season)))).
  pose proof (v_hr par crops season gs dap tsc w s Rs HR) as VH. fold c in VH.
  pose proof (v_bm par crops season gs dap tsc w s Rs HR) as VB. fold c in VB.
  assert (Hpct : 0 <= d_pct_lag_phase s <= 100 -> 0 <= hrR_pct (rs_hr Rs) <= 100).
  { intros Hp. pose proof (YieldR.pct_lag_range c (d_hi_ref s) (d_HIfinal s) dap (geR_dcd (rs_ge Rs)) (d_yield_form s) (d_pct_lag_phase s)
                             (trR_cc (rs_tr Rs)) (ccR_ccx_w (rs_cc Rs)) gs Hp) as Q. rewrite VH in Q. exact Q. }
  assert (Hhit : 0 < hrR_hiref (rs_hr Rs) -> 0 <= Yield.hit c dap (geR_dcd (rs_ge Rs))).
  { intros Hh. pose proof (YieldR.hiref_pos_hit c (d_hi_ref s) (d_HIfinal s) dap (geR_dcd (rs_ge Rs)) (d_yield_form s) (d_pct_lag_phase s)
                             (trR_cc (rs_tr Rs)) (ccR_ccx_w (rs_cc Rs)) gs) as Q. rewrite VH in Q. cbn [fst] in Q. specialize (Q Hh). lra. }
  assert (Hgain : gs = true -> 0 <= d_pct_lag_phase s <= 100 -> Yield.y_WPy c <= 100 ->
     exists k, Yield.y_WPy c / 100 <= k <= 1 /\
               bmR_b (rs_bm Rs) - d_biomass s = Yield.y_WP c * Yield.y_fCO2 c * (trR_tr (rs_tr Rs) / w_et0 w) * k /\
               bmR_bns (rs_bm Rs) - d_biomass_ns s = Yield.y_WP c * Yield.y_fCO2 c * (trR_trpot_ns (rs_tr Rs) / w_et0 w) * k).
  { intros Eg Hp Hw. rewrite Eg in VB. exact (YieldR.biomass_gain _ _ _ _ _ _ _ _ _ _ _ _ VB (Hpct Hp) Hhit Hw). }
  split; [rnum; reflexivity|].
  split; [intros ->; rnum; split; reflexivity|].
  split; [intros ->; rnum; split; reflexivity|].
  do 5 (split; [reflexivity|]).
  split; [exact Hpct|].
  split.
  { intros Eg Hp Hw. destruct (Hgain Eg Hp Hw) as (k & K1 & K2 & K3). exists k. split; [exact K1|]. split; [exact K2|].
    exists (trR_trpot_ns (rs_tr Rs)). exact K3. }
  intros Eg Hp Hw HWP HfC HTr Het.
  destruct (Hgain Eg Hp (proj2 Hw)) as (k & K1 & K2 & _).
  assert (0 <= trR_tr (rs_tr Rs) / w_et0 w) by (apply Rmult_le_pos; [lra | left; apply Rinv_0_lt_compat; lra]).
  assert (0 <= k) by lra.
  assert (0 <= Yield.y_WP c * Yield.y_fCO2 c * (trR_tr (rs_tr Rs) / w_et0 w) * k)
    by (apply Rmult_le_pos; [apply Rmult_le_pos; [apply Rmult_le_pos|]|]; assumption).
  lra.
Qed.

(* ---- C19: shallow groundwater ------------------------------------------------------------------------------------ *)
Theorem day_groundwater_concrete par crops season gs dap tsc w s s' row :
  DayInv par s ->
  day_proc_opt par (procs_concrete crops) season gs dap tsc w s = Some (s', row) ->
  let prof := so_prof (p_soil par) in let f := r_flux row in
  (* adjusted field capacity between field capacity and saturation; the storage row holds the end-of-day water contents *)
  fcadj_ok prof (d_th_fc_Adj s') /\ st_th (r_sto row) = d_th s' /\ fl_zgw f = d_z_gw s' /\
  (* no water table: no capillary rise, no groundwater inflow, field capacity not adjusted, no depth reported *)
  (p_water_table par = 0%Z -> fl_CR f = 0 /\ fl_GwIn f = 0 /\ d_th_fc_Adj s' = d_th_fc_Adj s /\ fl_zgw f = None) /\
  (* water table: the depth reported is the day's observation, and (given the side conditions of the day, which keep the
     water contents within bounds up to the inflow step) every compartment centred at or below the table ends saturated *)
  (p_water_table par = 1%Z -> fl_zgw f = Some (w_gw w) /\ 0 <= w_gw w) /\
  (p_water_table par = 1%Z ->
   (forall Rs, results_opt (ctx par season gs dap tsc w s) (procs_concrete crops) = Some Rs -> DaySide par crops season gs dap tsc w s Rs) ->
   Forall2 (fun c t => w_gw w <= c_zmid c -> t = c_th_s c) prof (d_th s') /\
   Forall2 (fun c t => w_gw w <= c_zmid c -> t = c_th_s c) prof (st_th (r_sto row))).
Proof.
  intros Inv H. cbv zeta.
  destruct (day_proc_opt_total _ _ _ _ _ _ _ _ _ _ H) as (_ & Rs & HR & _ & -> & ->).
  cbn [row_of r_sto st_th r_flux fl_zgw fl_CR fl_GwIn state_of d_th d_th_fc_Adj d_z_gw].
  pose proof (so_gw _ _ _ (results_opt_spec _ _ _ HR)) as S1. cbn [procs_concrete po_gw] in S1.
  set (x := ctx par season gs dap tsc w s) in *.
  split; [exact (b_fc par crops season gs dap tsc w s Rs HR Inv)|].
  split; [reflexivity|]. split; [reflexivity|].
  split.
  { intros W0. destruct (c19_no_table par crops season gs dap tsc w s Rs HR W0) as [A B].
    assert (N1 : gwA_wt (t_gw (trace_of x Rs)) <> 1%Z) by (cbn; unfold x_wt; cbn; rewrite W0; discriminate).
    destruct (cgw_call_notable (x_prof x) (t_gw (trace_of x Rs)) (rs_gw Rs) N1 S1) as (G1 & _ & G3).
    split; [exact A|]. split; [exact B|]. split; [exact G1|exact G3]. }
  split.
  { intros W1. assert (E1 : gwA_wt (t_gw (trace_of x Rs)) = 1%Z) by exact W1.
    destruct (cgw_call_table (x_prof x) (t_gw (trace_of x Rs)) (rs_gw Rs) E1 S1) as (_ & G2 & G3). split; [exact G2|exact G3]. }
  intros W1 Side. specialize (Side Rs HR).
  pose proof (c19_saturated par crops season gs dap tsc w s Rs HR W1 (proj1 (b_tr par crops season gs dap tsc w s Rs HR Inv Side))) as F.
  split; exact F.
Qed.

(* ============================================================================================================ *)
(*  Part D: whole runs                                                                                           *)
(* ============================================================================================================ *)
(* the conclusions of the day theorems as predicates of (season, in-season?, dap, step, weather, state before, state after,
   row) — word for word the conclusions above (the proofs below are [exact (day_..._concrete ...)]) *)
Section RowPredicates.
  Variables (par : DPar R) (crops : Z -> CropFull R) (season : Z) (gs : bool) (dap tsc : Z) (w : Day.W R) (s s' : DState R) (row : DRow R).

  Definition fluxes_row : Prop :=
    let f := r_flux row in let irr := sel_irr par season in let crop := sel_crop par season in
    (i_method irr <> 4%Z -> 0 <= fl_IrrDay f) /\
    (i_method irr = 4%Z -> 1 / 100 <= c_Zmin crop ->
     - (1 / 100) * INR (Transpiration.tr_comp_sto (so_prof (p_soil par)) (Transpiration.tr_rootdepth (gr_z_root (r_growth row)) (c_Zmin crop)))
     <= fl_IrrDay f) /\
    0 <= fl_Runoff f /\ 0 <= fl_DeepPerc f /\ 0 <= fl_CR f /\ 0 <= fl_GwIn f /\
    0 <= fl_EsPot f /\ 0 <= fl_Es f <= fl_EsPot f /\ 0 <= fl_TrPot f /\ 0 <= fl_Tr f <= fl_TrPot f.

  Definition surface_row : Prop :=
    let f := r_flux row in let field := sel_field par season gs in
    let applied := surface_irr par season row * (i_AppEff (sel_irr par season) / 100) in
    fl_Infl f + fl_Runoff f = w_rain w + applied /\
    0 <= fl_Runoff f <= w_rain w + applied + d_surface_storage s /\
    (fl_Infl f < 0 ->
       (f_bunds field = false \/ f_z_bund field <= 1 / 1000 \/ f_z_bund field < d_surface_storage s) /\
       0 < d_surface_storage s /\ - d_surface_storage s <= fl_Infl f) /\
    (d_surface_storage s <= zb_of field \/ zb_of field = 0 -> fl_Infl f < 0 -> f_bunds field = false \/ f_z_bund field <= 1 / 1000) /\
    (w_rain w = 0 -> surface_irr par season row = 0 -> d_surface_storage s = 0 -> fl_Infl f = 0 /\ fl_Runoff f = 0) /\
    0 <= surface_irr par season row /\ (gs = false -> surface_irr par season row = 0).

  Definition irrigation_row : Prop :=
    let irr := sel_irr par season in let crop := sel_crop par season in let f := r_flux row in
    let capped := RainIrrR.capped (i_MaxIrrSeason irr) (d_irr_cum s) in
    (gs = false -> fl_IrrDay f = 0 /\ d_irr_cum s' = 0) /\
    (i_method irr = 0%Z -> fl_IrrDay f = 0) /\
    (i_method irr <> 4%Z -> 0 <= fl_IrrDay f /\ (0 <= i_MaxIrr irr -> fl_IrrDay f <= i_MaxIrr irr)) /\
    (0 <= i_MaxIrrSeason irr -> d_irr_cum s <= i_MaxIrrSeason irr -> d_irr_cum s' <= i_MaxIrrSeason irr) /\
    (gs = true -> d_irr_cum s <= i_MaxIrrSeason irr -> d_irr_cum s' <= i_MaxIrrSeason irr) /\
    (gs = true -> d_irr_cum s' = d_irr_cum s + surface_irr par season row) /\
    (gs = true -> i_method irr = 2%Z -> 0 < fl_IrrDay f -> i_IrrInterval irr <> 0%Z /\ ((dap - 1) mod i_IrrInterval irr = 0)%Z) /\
    (gs = true -> i_method irr = 3%Z ->
       exists v, RainIrr.py_index (i_Schedule irr) tsc = Some v /\ 0 <= v /\ fl_IrrDay f = capped (Rmin (i_MaxIrr irr) v) /\
                 (0 <= i_MaxIrr irr -> d_irr_cum s + Rmin (i_MaxIrr irr) v <= i_MaxIrrSeason irr -> fl_IrrDay f = Rmin (i_MaxIrr irr) v)) /\
    (gs = true -> i_method irr = 5%Z ->
       fl_IrrDay f = capped (Rmin (i_MaxIrr irr) (i_depth irr)) /\
       (0 <= i_MaxIrr irr -> 0 <= i_depth irr -> d_irr_cum s + Rmin (i_MaxIrr irr) (i_depth irr) <= i_MaxIrrSeason irr ->
        fl_IrrDay f = Rmin (i_MaxIrr irr) (i_depth irr))) /\
    (gs = true -> i_method irr = 1%Z ->
       exists th_dr ro depl taw thr,
         day_irr_inputs par season gs w s s' th_dr ro /\
         RainIrr.irr_depletion (so_prof (p_soil par)) (gr_z_root (r_growth row)) th_dr (so_z_top (p_soil par)) (c_Zmin crop) (c_Aer crop)
                               (d_t_pot s) (d_e_pot s) (w_rain w) ro = Some (depl, taw) /\
         RainIrr.py_index (i_SMT irr) (RainIrrR.irr_stage dap (d_growth_stage s) - 1) = Some thr /\
         (1 - thr / 100 < depl / taw ->
            fl_IrrDay f = capped (Rmin (i_MaxIrr irr) (Rmax 0 depl * ((100 - i_AppEff irr + 100) / 100)))) /\
         (depl / taw <= 1 - thr / 100 -> fl_IrrDay f = 0) /\
         (0 < fl_IrrDay f -> 1 - thr / 100 < depl / taw /\ 0 < depl)) /\
    (gs = true -> i_method irr = 4%Z -> d_irr_cum s' = d_irr_cum s).

  Definition totals_row : Prop :=
    let irr := sel_irr par season in let f := r_flux row in
    gs = true ->
    (i_method irr <> 4%Z -> d_irr_cum s' = d_irr_cum s + fl_IrrDay f) /\
    (i_method irr = 4%Z -> d_irr_net_cum s' = d_irr_net_cum s + fl_IrrDay f).

  Definition gdd_row : Prop :=
    let g := r_growth row in let crop := sel_crop par season in
    (gs = true -> c_Tbase crop <= c_Tupp crop -> 0 <= gr_gdd g <= c_Tupp crop - c_Tbase crop) /\
    (gs = true -> gr_gdd_cum g = d_gdd_cum s + gr_gdd g) /\
    d_gdd_cum s' = gr_gdd_cum g /\
    (gs = true -> c_Tbase crop <= c_Tupp crop -> d_gdd_cum s <= d_gdd_cum s') /\
    (gs = false -> gr_gdd g = 3 / 10 /\ gr_gdd_cum g = 0 /\ d_gdd_cum s' = 0).

  Definition yield_row : Prop :=
    let g := r_growth row in let f := r_flux row in let crop := sel_crop par season in let c := cf_y (crops (c_id crop)) in
    gr_Pot g = gr_B_ns g / 100 * gr_HI g /\
    (gs = true -> gr_Dry g = gr_B g / 100 * gr_HIadj g /\ gr_Fresh g = gr_Dry g / (c_YldWC crop / 100)) /\
    (gs = false -> gr_Dry g = 0 /\ gr_Fresh g = 0) /\
    d_biomass s' = gr_B g /\ d_biomass_ns s' = gr_B_ns g /\ d_DryYield s' = gr_Dry g /\ d_FreshYield s' = gr_Fresh g /\ d_YieldPot s' = gr_Pot g /\
    (0 <= d_pct_lag_phase s <= 100 -> 0 <= d_pct_lag_phase s' <= 100) /\
    (gs = true -> 0 <= d_pct_lag_phase s <= 100 -> Yield.y_WPy c <= 100 ->
       exists k, Yield.y_WPy c / 100 <= k <= 1 /\
                 gr_B g - d_biomass s = Yield.y_WP c * Yield.y_fCO2 c * (fl_Tr f / w_et0 w) * k /\
                 exists trpot_ns, gr_B_ns g - d_biomass_ns s = Yield.y_WP c * Yield.y_fCO2 c * (trpot_ns / w_et0 w) * k) /\
    (gs = true -> 0 <= d_pct_lag_phase s <= 100 -> 0 <= Yield.y_WPy c <= 100 -> 0 <= Yield.y_WP c -> 0 <= Yield.y_fCO2 c ->
       0 <= fl_Tr f -> 0 < w_et0 w -> d_biomass s <= gr_B g).

  Definition groundwater_row : Prop :=
    let prof := so_prof (p_soil par) in let f := r_flux row in
    fcadj_ok prof (d_th_fc_Adj s') /\ st_th (r_sto row) = d_th s' /\ fl_zgw f = d_z_gw s' /\
    (p_water_table par = 0%Z -> fl_CR f = 0 /\ fl_GwIn f = 0 /\ d_th_fc_Adj s' = d_th_fc_Adj s /\ fl_zgw f = None) /\
    (p_water_table par = 1%Z -> fl_zgw f = Some (w_gw w) /\ 0 <= w_gw w) /\
    (p_water_table par = 1%Z ->
     Forall2 (fun c t => w_gw w <= c_zmid c -> t = c_th_s c) prof (d_th s') /\
     Forall2 (fun c t => w_gw w <= c_zmid c -> t = c_th_s c) prof (st_th (r_sto row))).
End RowPredicates.

Section RunRows.
  Variables (par : DPar R) (crops : Z -> CropFull R).

  Notation PO := (procs_concrete crops).
  Notation procc := (proc_c par crops).
  Notation defc := (defined_c par crops).
  Notation EvC := (Ev (DState R) (Day.W R) (DRow R)).
  Notation is_day_c := (is_day (DState R) (Day.W R) (DRow R) procc defc).
  Notation ReachC := (Reach (DState R) (Day.W R) (DRow R) (DOut R) procc dead (matured par) (summary_of par) (reset par) defc).
  Notation eventc := (event_of (DState R) (Day.W R) (DRow R) procc dead).

  (* static hypotheses on the parameters: effective curve number of both field managements in (0,100]; the seasonal
     irrigation maximum is not negative *)
  Hypothesis Hcn : cn_ok par.
  Hypothesis Hmaxseason : 0 <= i_MaxIrrSeason (p_irr par).

  Section WithInv.
    Variable Inv : DState R -> Prop.
    Variable WP : Day.W R -> Prop.
    Hypothesis Inv_dayinv : forall s, Inv s -> DayInv par s.
    Hypothesis Inv_side : forall season gs dap tsc w s Rs, Inv s -> WP w ->
      results_opt (ctx par season gs dap tsc w s) PO = Some Rs -> DaySide par crops season gs dap tsc w s Rs.
    Hypothesis Inv_step : forall season gs dap tsc w s s' row, Inv s -> WP w ->
      day_proc_opt par PO season gs dap tsc w s = Some (s', row) -> Inv s'.
    Hypothesis Inv_reset : forall k ws s, Inv s -> Inv (reset par k ws s).
    (* weather facts *)
    Hypothesis WP_rain : forall w, WP w -> 0 <= w_rain w.

    (* the invariant of the run: the caller's invariant, PctLagPhase within [0,100] (side condition of the biomass-gain
       identity) and the seasonal irrigation counter within the seasonal maximum *)
    Definition RowsInv (s : DState R) : Prop :=
      Inv s /\ 0 <= d_pct_lag_phase s <= 100 /\ d_irr_cum s <= i_MaxIrrSeason (p_irr par).

    (* what one day of a run establishes about the row it writes *)
    Record rows_day (e : EvC) : Prop := {
      rd_gs_season : e_gs _ _ _ e = true -> (0 <= e_season _ _ _ e)%Z;
      rd_pct_pre : 0 <= d_pct_lag_phase (e_pre _ _ _ e) <= 100;
      rd_cum_pre : d_irr_cum (e_pre _ _ _ e) <= i_MaxIrrSeason (p_irr par);
      rd_cum_post : d_irr_cum (e_post _ _ _ e) <= i_MaxIrrSeason (p_irr par);
      rd_fluxes : fluxes_row par (e_season _ _ _ e) (e_row _ _ _ e);
      rd_surface : surface_row par (e_season _ _ _ e) (e_gs _ _ _ e) (e_w _ _ _ e) (e_pre _ _ _ e) (e_row _ _ _ e);
      rd_irrigation : irrigation_row par (e_season _ _ _ e) (e_gs _ _ _ e) (e_dap _ _ _ e) (e_tsc _ _ _ e) (e_w _ _ _ e) (e_pre _ _ _ e)
                                     (e_post _ _ _ e) (e_row _ _ _ e);
      rd_totals : totals_row par (e_season _ _ _ e) (e_gs _ _ _ e) (e_pre _ _ _ e) (e_post _ _ _ e) (e_row _ _ _ e);
      rd_gdd : gdd_row par (e_season _ _ _ e) (e_gs _ _ _ e) (e_pre _ _ _ e) (e_post _ _ _ e) (e_row _ _ _ e);
      rd_yield : yield_row par crops (e_season _ _ _ e) (e_gs _ _ _ e) (e_w _ _ _ e) (e_pre _ _ _ e) (e_post _ _ _ e) (e_row _ _ _ e);
      rd_groundwater : groundwater_row par (e_w _ _ _ e) (e_pre _ _ _ e) (e_post _ _ _ e) (e_row _ _ _ e) }.

    Lemma inv_rows_day (e : EvC) :
      is_day_c e -> (e_gs _ _ _ e = true -> (0 <= e_season _ _ _ e)%Z) -> WP (e_w _ _ _ e) ->
      RowsInv (e_pre _ _ _ e) -> RowsInv (e_post _ _ _ e) /\ rows_day e.
    Proof.
      intros Hd Hgs Hw (Hi & Hpct & Hcum). pose proof (is_day_opt par crops e Hd) as H.
      destruct e as [season gs dap tsc w s s' row]. cbn [e_season e_gs e_dap e_tsc e_w e_pre e_post e_row] in *.
      pose proof (Inv_dayinv _ Hi) as DI. pose proof (WP_rain _ Hw) as Hr. pose proof (cn_ok_sel par season gs Hcn) as Hc.
      pose proof (fun Rs HRs => Inv_side season gs dap tsc w s Rs Hi Hw HRs) as Side.
      pose proof (day_fluxes_concrete _ _ _ _ _ _ _ _ _ _ DI Hr Hc H Side) as T1.
      pose proof (day_surface_concrete _ _ _ _ _ _ _ _ _ _ DI Hr Hc H) as T2.
      pose proof (day_irrigation_concrete _ _ _ _ _ _ _ _ _ _ H) as T3.
      pose proof (day_irr_totals_concrete _ _ _ _ _ _ _ _ _ _ H) as T4.
      pose proof (day_gdd_concrete _ _ _ _ _ _ _ _ _ _ H) as T5.
      pose proof (day_yield_concrete _ _ _ _ _ _ _ _ _ _ H) as T6.
      pose proof (day_groundwater_concrete _ _ _ _ _ _ _ _ _ _ DI H) as T7.
      (* the seasonal counter after the day *)
      assert (Hcum' : d_irr_cum s' <= i_MaxIrrSeason (p_irr par)).
      { cbv zeta in T3. destruct T3 as (A1 & _ & _ & A4 & _).
        destruct gs.
        - specialize (Hgs eq_refl). unfold sel_irr in A4. apply Z.leb_le in Hgs. rewrite Hgs in A4. exact (A4 Hmaxseason Hcum).
        - destruct (A1 eq_refl) as [_ ->]. exact Hmaxseason. }
      assert (Hpct' : 0 <= d_pct_lag_phase s' <= 100).
      { cbv zeta in T6. destruct T6 as (_ & _ & _ & _ & _ & _ & _ & _ & A9 & _). exact (A9 Hpct). }
      split.
      - split; [exact (Inv_step _ _ _ _ _ _ _ _ Hi Hw H)|]. split; [exact Hpct'|exact Hcum'].
      - constructor; cbn [e_season e_gs e_dap e_tsc e_w e_pre e_post e_row];
          [exact Hgs | exact Hpct | exact Hcum | exact Hcum' | exact T1 | exact T2 | exact T3 | exact T4 | exact T5 | exact T6 | ].
        cbv zeta in T7. destruct T7 as (B1 & B2 & B3 & B4 & B5 & B6).
        unfold groundwater_row. cbv zeta. repeat (split; [assumption|]). intros W1. exact (B6 W1 Side).
    Qed.

    (* in-season events have a season index >= 0 (Clock.in_season) *)
    Lemma event_gs_season c w (st : St (DState R)) :
      e_gs _ _ _ (eventc c w st) = true -> (0 <= e_season _ _ _ (eventc c w st))%Z.
    Proof.
      cbn [event_of e_gs e_season]. unfold in_season. destruct (0 <=? season st)%Z eqn:E; [|discriminate].
      intros _. apply Z.leb_le. exact E.
    Qed.

    Lemma reset_rows_inv k ws s : RowsInv s -> RowsInv (reset par k ws s).
    Proof.
      intros (Hi & _ & _). split; [exact (Inv_reset k ws s Hi)|]. cbn [reset d_pct_lag_phase d_irr_cum]. rnum.
      split; [lra | exact Hmaxseason].
    Qed.

    (* the induction over the days of a run (RunP.reach_inv, with the season-index fact of the clock) *)
    Lemma reach_rows_inv c ws m0 evs m : weather_ok _ WP ws -> RowsInv (phys (st m0)) -> ReachC c ws m0 evs m ->
      RowsInv (phys (st m)) /\ Forall (fun e => RowsInv (e_pre _ _ _ e) /\ RowsInv (e_post _ _ _ e) /\ rows_day e) evs.
    Proof.
      intros Hws H0. induction 1 as [|evs m m' w HR [IH1 IH2] Ew Ed Hp]; [split; [exact H0|constructor]|].
      destruct (perform_event _ _ _ _ _ _ _ _ _ c ws m m' w Ew Hp) as [_ Hc]. cbv zeta in Hc.
      pose proof (event_is_day _ _ _ procc dead defc c w (st m) Ed) as Hd.
      assert (Hpre : RowsInv (e_pre _ _ _ (eventc c w (st m)))) by exact IH1.
      assert (Hw : WP (e_w _ _ _ (eventc c w (st m)))) by (exact (Hws _ _ Ew)).
      destruct (inv_rows_day _ Hd (event_gs_season c w (st m)) Hw Hpre) as [Hpost HQ].
      split.
      - destruct Hc as [-> | ->]; [exact Hpost | apply reset_rows_inv; exact Hpost].
      - constructor; [split; [exact Hpre|split; [exact Hpost|exact HQ]] | exact IH2].
    Qed.

    (* the whole-run statements: for a run by step counts ... *)
    Theorem run_steps_rows c ws k m0 m' :
      weather_ok _ WP ws -> RowsInv (phys (st m0)) -> run_steps_c par crops c ws k m0 = GOk m' ->
      exists evs : list EvC,
        ReachC c ws m0 evs m' /\ RowsInv (phys (st m')) /\
        Forall (fun e => is_day_c e /\ RowsInv (e_pre _ _ _ e) /\ RowsInv (e_post _ _ _ e) /\ rows_day e) evs /\
        chained _ _ _ (reset par) ws (phys (st m')) evs /\
        rows (tabs m') = map (fun e => (e_tsc _ _ _ e, e_row _ _ _ e)) evs ++ rows (tabs m0).
    Proof.
      intros Hws H0 H. unfold run_steps_c in H.
      destruct (run_steps_g_reach _ _ _ _ _ _ _ _ _ _ c ws k m0 [] m0 m' (Reach_nil _ _ _ _ _ _ _ _ _ _ c ws m0) H) as [evs HR].
      rewrite app_nil_r in HR. exists evs. destruct (reach_rows_inv c ws m0 evs m' Hws H0 HR) as [A B].
      split; [exact HR|]. split; [exact A|]. split; [|split].
      - pose proof (reach_days _ _ _ _ _ _ _ _ _ _ _ _ _ _ _ HR) as D. rewrite Forall_forall in *. intros e He.
        split; [apply D; exact He | apply B; exact He].
      - exact (proj1 (reach_chained _ _ _ _ _ _ _ _ _ _ _ _ _ _ _ HR)).
      - exact (reach_rows _ _ _ _ _ _ _ _ _ _ _ _ _ _ _ HR).
    Qed.

    (* ... and for a run to termination *)
    Theorem run_till_rows c ws fuel m0 m' :
      weather_ok _ WP ws -> RowsInv (phys (st m0)) -> run_till_c par crops c ws fuel m0 = Some (GOk m') ->
      exists evs : list EvC,
        ReachC c ws m0 evs m' /\ RowsInv (phys (st m')) /\
        Forall (fun e => is_day_c e /\ RowsInv (e_pre _ _ _ e) /\ RowsInv (e_post _ _ _ e) /\ rows_day e) evs /\
        chained _ _ _ (reset par) ws (phys (st m')) evs /\
        rows (tabs m') = map (fun e => (e_tsc _ _ _ e, e_row _ _ _ e)) evs ++ rows (tabs m0).
    Proof.
      intros Hws H0 H. unfold run_till_c in H.
      destruct (run_till_g_reach _ _ _ _ _ _ _ _ _ _ c ws fuel m0 [] m0 m' (Reach_nil _ _ _ _ _ _ _ _ _ _ c ws m0) H) as [evs HR].
      rewrite app_nil_r in HR. exists evs. destruct (reach_rows_inv c ws m0 evs m' Hws H0 HR) as [A B].
      split; [exact HR|]. split; [exact A|]. split; [|split].
      - pose proof (reach_days _ _ _ _ _ _ _ _ _ _ _ _ _ _ _ HR) as D. rewrite Forall_forall in *. intros e He.
        split; [apply D; exact He | apply B; exact He].
      - exact (proj1 (reach_chained _ _ _ _ _ _ _ _ _ _ _ _ _ _ _ HR)).
      - exact (reach_rows _ _ _ _ _ _ _ _ _ _ _ _ _ _ _ HR).
    Qed.
  End WithInv.
End RunRows.

(* ============================================================================================================ *)
(*  Part E: the hypotheses are satisfiable (instance of DayP.Ex / DayConcreteP.day_inv_satisfiable); assumptions    *)
(* ============================================================================================================ *)
(* curve number 61 without management adjustment; 5 mm rain; ET0 = 4 mm; seasonal maximum 10000 mm *)
Example cn_ok_satisfiable : cn_ok Ex.par0.
Proof. unfold cn_ok, cn_ok_field, RainIrrR.cn_mgmt. cbn. lra. Qed.

(* hypotheses of day_fluxes_noside_concrete / day_fluxes_concrete / day_surface_concrete (C04, C02), for a day in and a day
   outside the season *)
Example day_fluxes_hypotheses_satisfiable :
  DayInv Ex.par0 Ex.zeroS /\ 0 <= w_rain Ex.w0 /\
  cn_ok_field Ex.par0 (sel_field Ex.par0 0 true) /\ cn_ok_field Ex.par0 (sel_field Ex.par0 0 false).
Proof.
  split; [exact day_inv_satisfiable|]. split; [cbn; lra|].
  split; apply cn_ok_sel; exact cn_ok_satisfiable.
Qed.
Example day_surface_hypotheses_satisfiable :
  DayInv Ex.par0 Ex.zeroS /\ 0 <= w_rain Ex.w0 /\ cn_ok_field Ex.par0 (sel_field Ex.par0 0 true).
Proof. destruct day_fluxes_hypotheses_satisfiable as (A & B & C & _). auto. Qed.

(* day_irrigation_concrete / day_irr_totals_concrete / day_gdd_concrete have no hypothesis besides the defined day; the
   premises of their items hold for the instance: daily and seasonal maxima >= 0, counter within the maximum, Tbase <= Tupp *)
Example day_irrigation_premises_satisfiable :
  let irr := sel_irr Ex.par0 0 in
  0 <= i_MaxIrr irr /\ 0 <= i_MaxIrrSeason irr /\ d_irr_cum Ex.zeroS <= i_MaxIrrSeason irr.
Proof. cbn. lra. Qed.
Example day_gdd_premises_satisfiable : c_Tbase (sel_crop Ex.par0 0) <= c_Tupp (sel_crop Ex.par0 0).
Proof. cbn. lra. Qed.
(* day_yield_concrete: PctLagPhase within [0,100] before the day, ET0 > 0 *)
Example day_yield_premises_satisfiable : 0 <= d_pct_lag_phase Ex.zeroS <= 100 /\ 0 < w_et0 Ex.w0.
Proof. cbn. lra. Qed.
(* day_groundwater_concrete: the invariant; the instance has no water table *)
Example day_groundwater_hypotheses_satisfiable : DayInv Ex.par0 Ex.zeroS /\ p_water_table Ex.par0 = 0%Z.
Proof. split; [exact day_inv_satisfiable | reflexivity]. Qed.
(* run level: the static hypotheses and the part of RowsInv that this file adds to the caller's invariant *)
Example run_rows_hypotheses_satisfiable :
  cn_ok Ex.par0 /\ 0 <= i_MaxIrrSeason (p_irr Ex.par0) /\
  RowsInv Ex.par0 (DayInv Ex.par0) Ex.zeroS /\ (forall s, DayInv Ex.par0 s -> DayInv Ex.par0 s) /\
  (forall k ws s, DayInv Ex.par0 s -> DayInv Ex.par0 (reset Ex.par0 k ws s)).
Proof.
  split; [exact cn_ok_satisfiable|]. split; [cbn; lra|]. split; [|split; [auto | intros; apply reset_inv_preserved; assumption]].
  split; [exact day_inv_satisfiable|]. cbn. lra.
Qed.

Print Assumptions day_fluxes_noside_concrete.
Print Assumptions day_fluxes_concrete.
Print Assumptions day_surface_concrete.
Print Assumptions day_irrigation_concrete.
Print Assumptions day_irr_totals_concrete.
Print Assumptions day_gdd_concrete.
Print Assumptions day_yield_concrete.
Print Assumptions day_groundwater_concrete.
Print Assumptions inv_rows_day.
Print Assumptions run_steps_rows.
Print Assumptions run_till_rows.
