(* DayRowsP.v — per-ROW theorems of the CONCRETE day (DayConcrete.v: the orchestration of Day.v instantiated with the 19
   unit models), stated on the row the day writes ([row : DRow R], columns [fl_*], [gr_*], [st_*]) and on the states
   before / after the day, under the day-level invariant [DayConcreteP.DayInv] plus named static hypotheses on the
   parameters; and their lift to whole runs (RunConcrete.v) by the induction scheme of RunP.v / RunConcreteP.v.

   Part A  inversion of the concrete processes not covered by DayConcreteP (rainfall_partition, irrigation, gdd,
           HIref, biomass, groundwater check / inflow with the values handed over).
   Part B  Section RowsDay: the calls of one defined day as calls of the unit models on the day's values, and the
           unit theorems applied to them.
   Part C  the day theorems
             C04  [day_fluxes_concrete], [day_fluxes_noside_concrete]
             C02  [day_surface_concrete]
             C13  [day_irrigation_concrete], [day_irr_totals_concrete]
             C05  [day_gdd_concrete]
             C06  [day_yield_concrete]
             C19  [day_groundwater_concrete]
   Part D  run-level lift: [rows_day], [inv_rows_day], [run_steps_rows], [run_till_rows].
   Part E  satisfiability examples and Print Assumptions. *)
From Coq Require Import Reals List Bool ZArith Lra Lia.
From AC Require Import Num RInst Params Kernels Clock Day DayConcrete RunConcrete.
From AC.Water Require RootZone RainIrr Infiltration Drainage Groundwater Evaporation Transpiration.
From AC.Crop Require Canopy Roots Yield.
From AC.proofs Require Import ProfR DayP DayConcreteP ClockP RunP RunConcreteP.
From AC.proofs Require DrainageR InfiltrationR GroundwaterR EvaporationR TranspirationR RootsR YieldR RainIrrR KernelsR RootZoneR.
Import ListNotations.
Local Open Scope R_scope.

#[local] Existing Instance YieldR.RTrig.

(* ============================================================================================================ *)
(*  Part A: a call of a concrete process is a call of the unit model (the processes DayConcreteP does not invert)  *)
(* ============================================================================================================ *)
Lemma cgd_call a r : c_gd a = Some r ->
  growing_degree_day (gdA_method a) (gdA_tupp a) (gdA_tbase a) (gdA_tmax a) (gdA_tmin a) = Some (gdR_gdd r).
Proof. unfold c_gd. destruct (growing_degree_day _ _ _ _ _) as [g|]; intros [= <-]. reflexivity. Qed.

Lemma crp_call p a r : c_rp p a = Some r -> exists ds,
  RainIrr.rainfall_partition (rpA_rain a) (rpA_th a) (ntrunc num_ops (rpA_daysub a)) (rpA_srinhb a) (rpA_bunds a) (rpA_zbund a)
                             (rpA_pct a) (rpA_cn a) (rpA_adjcn a) (rpA_zcn a) (rpA_ncomp a) p
  = Some (rpR_runoff r, rpR_infl r, ds).
Proof.
  unfold c_rp. destruct (RainIrr.rainfall_partition _ _ _ _ _ _ _ _ _ _ _ _) as [[[ro infl] ds]|]; intros [= <-]. exists ds. reflexivity.
Qed.

Lemma cir_call p a r : c_ir p a = Some r ->
  RainIrr.irrigation (irA_method a) (irA_smt a) (irA_eff a) (irA_maxirr a) (irA_interval a) (irA_sched a) (irA_depth a)
                     (irA_maxseason a) (irA_stage a) (irA_irrcum a) (irA_epot a) (irA_tpot a) (irA_zroot a) (irA_th a)
                     (irA_dap a) (irA_tsc a) (c_Zmin (irA_crop a)) (c_Aer (irA_crop a)) p (irA_ztop a) (irA_gs a)
                     (irA_rain a) (irA_runoff a)
  = Some (irR_depletion r, irR_taw r, irR_irrcum r, irR_irr r).
Proof.
  unfold c_ir. destruct (RainIrr.irrigation _ _ _ _ _ _ _ _ _ _ _ _ _ _ _ _ _ _ _ _ _ _ _) as [[[[d t] c] i]|]; intros [= <-]. reflexivity.
Qed.

Lemma chr_call crops a r : c_hr crops a = Some r ->
  Yield.HIref_current_day (cf_y (crops (c_id (hrA_crop a)))) (hrA_hiref a) (hrA_hifinal a) (hrA_dap a) (hrA_dcd a) (hrA_yf a)
                          (hrA_pct a) (hrA_cc a) (hrA_ccxw a) (hrA_gs a) = (hrR_hiref r, hrR_yf r, hrR_pct r).
Proof.
  unfold c_hr. destruct (Yield.HIref_current_day _ _ _ _ _ _ _ _ _ _) as [[h yf] pct]. intros [= <-]. reflexivity.
Qed.

Lemma cbm_call crops a r : c_bm crops a = Some r ->
  Yield.biomass_accumulation (cf_y (crops (c_id (bmA_crop a)))) (bmA_dap a) (bmA_dcd a) (bmA_hiref a) (bmA_pct a) (bmA_b a)
                             (bmA_bns a) (bmA_tr a) (bmA_trpot a) (bmA_et0 a) (bmA_gs a) = Some (bmR_b r, bmR_bns r).
Proof.
  unfold c_bm. destruct (Yield.biomass_accumulation _ _ _ _ _ _ _ _ _ _ _) as [[b bns]|]; intros [= <-]. reflexivity.
Qed.

(* the groundwater check, with what it hands to the later processes *)
Lemma cgw_call_table p a r : gwA_wt a = 1%Z -> c_gw p a = Some r ->
  gwR_wtsoil r = Some (Groundwater.gw_wt_in_soil (gwA_gw a) p) /\ gwR_zgw r = Some (gwA_gw a) /\ 0 <= gwA_gw a.
Proof.
  intros E. unfold c_gw, Groundwater.check_groundwater_table. rewrite E. cbn [Z.eqb Pos.eqb]. rnum.
  destruct (Rleb_spec 0 (gwA_gw a)) as [H|H]; intros [= <-]; cbn. repeat split; try reflexivity. exact H.
Qed.
Lemma cgw_call_notable p a r : gwA_wt a <> 1%Z -> c_gw p a = Some r ->
  gwR_fcadj r = gwA_fcadj a /\ gwR_wtsoil r = None /\ gwR_zgw r = None.
Proof.
  intros E. unfold c_gw. rewrite (GroundwaterR.no_table _ _ _ _ E). intros [= <-]. cbn. repeat split; reflexivity.
Qed.

(* groundwater inflow with a known depth *)
Lemma cgi_call_depth p a r z : giA_zgw a = Some z -> c_gi p a = Some r ->
  Groundwater.groundwater_inflow p (giA_th a) (gi_wts a) z = Some (giR_th r, giR_gwin r).
Proof.
  intros E. unfold c_gi, obind. rewrite E.
  destruct (Groundwater.groundwater_inflow _ _ _ _) as [[th g]|] eqn:E1; intros [= <-]. reflexivity.
Qed.
Lemma cgi_call_off p a r : giA_wtsoil a = None -> c_gi p a = Some r -> giR_th r = giA_th a /\ giR_gwin r = 0.
Proof.
  intros E. unfold c_gi, obind, gi_wts. rewrite E. destruct (giA_zgw a); cbn [Groundwater.groundwater_inflow]; intros [= <-]; cbn; rnum; auto.
Qed.

(* transpiration, with the cumulative net-irrigation counter *)
Lemma ctr_call_cum crops p a r : c_tr crops p a = Some r ->
  exists o, Transpiration.transpiration p (trA_ztop a) (tr_crop (crops (c_id (trA_crop a))) (trA_crop a)) (trA_method a) (trA_smt a) (tr_state a)
                                         (trA_et0 a) (trA_co2c a) (trA_co2r a) (trA_gs a) (trA_gdd a) = Some o /\
            trR_irrnet r = Transpiration.o_IrrNet o /\ trR_irr_net_cum r = Transpiration.s_irr_net_cum (Transpiration.o_state o).
Proof.
  unfold c_tr. destruct (Transpiration.transpiration _ _ _ _ _ _ _ _ _ _ _) as [o|]; intros [= <-]. exists o. repeat split; reflexivity.
Qed.

(* in the season the net-irrigation counter advances by exactly the day's net irrigation (strategy 4) *)
Lemma irr_net_cum_update p ztop k smt s et0 co2c co2r gdd o :
  Transpiration.transpiration p ztop k 4 smt s et0 co2c co2r true gdd = Some o ->
  Transpiration.s_irr_net_cum (Transpiration.o_state o) = Transpiration.s_irr_net_cum s + Transpiration.o_IrrNet o.
Proof.
  TranspirationR.tr_inv. cbn [Transpiration.s_irr_net_cum Transpiration.o_state Transpiration.o_IrrNet].
  revert Et. unfold Transpiration.tr_tail. cbn [Z.eqb Pos.eqb andb]. rnum.
  match goal with |- context [Rltb 0 ?t] => destruct (Rltb_spec 0 t) as [Hpos|Hpos] end.
  - destruct (RootZone.root_zone_water p _ th1 _ _ _) as [r3|]; [|discriminate].
    match goal with |- match ?e with _ => _ end = _ -> _ => destruct e as [[t2 i2]|]; [|discriminate] end.
    intros [= _ <- <- _ _]. reflexivity.
  - match goal with |- context [Rleb ?t 0] => destruct (Rleb_spec t 0) as [Hle|Hle] end; [|lra]. intros [= _ <- <- _ _]. lra.
Qed.

Lemma tr_le_pot_gs p ztop k m smt s et0 co2c co2r gs gdd o : gs = true ->
  TranspirationR.tr_wf p k s -> Transpiration.transpiration p ztop k m smt s et0 co2c co2r gs gdd = Some o ->
  0 <= Transpiration.o_TrPot0 o -> 0 <= Transpiration.o_TrAct o <= Transpiration.o_TrPot0 o.
Proof. intros ->. apply TranspirationR.tr_le_pot. Qed.

Lemma Forall3_proj13 {A B C} (P : A -> B -> C -> Prop) (Q : A -> C -> Prop) la lb lc :
  (forall a b c, P a b c -> Q a c) -> GroundwaterR.Forall3 P la lb lc -> Forall2 Q la lc.
Proof. intros H F. induction F; constructor; eauto. Qed.

(* ============================================================================================================ *)
(*  static hypotheses on the parameters, named                                                                   *)
(* ============================================================================================================ *)
(* the effective curve number of the field management [f] (soil CN times the management adjustment, which applies only
   when the adjustment is switched on) lies in (0,100] — exactly the hypothesis of RainIrrR.scs_split *)
Definition cn_ok_field (par : DPar R) (f : DField R) : Prop :=
  0 < RainIrrR.cn_mgmt (so_cn (p_soil par)) (if f_cn_adj f then f_cn_adj_pct f else 0) <= 100.
Definition cn_ok (par : DPar R) : Prop := cn_ok_field par (p_field par) /\ cn_ok_field par (p_fallow_field par).
Lemma cn_ok_sel par season gs : cn_ok par -> cn_ok_field par (sel_field par season gs).
Proof. intros [H1 H2]. unfold sel_field. destruct (0 <=? season)%Z; [destruct gs|]; assumption. Qed.

(* the irrigation depth applied at the surface, read from the flux row: the IrrDay column, except under net irrigation
   (method 4) where the column reports the net requirement and nothing is applied at the surface *)
Definition surface_irr (par : DPar R) (season : Z) (row : DRow R) : R :=
  if (i_method (sel_irr par season) =? 4)%Z then 0 else fl_IrrDay (r_flux row).

Lemma gs_cases (b : bool) : b = true \/ b = false.
Proof. destruct b; auto. Qed.

(* ============================================================================================================ *)
(*  Part B: one defined concrete day                                                                             *)
(* ============================================================================================================ *)
Section RowsDay.
  Variables (par : DPar R) (crops : Z -> CropFull R) (season : Z) (gs : bool) (dap tsc : Z) (w : Day.W R) (s : DState R).
  Variable Rs : Results R.
  Let x := ctx par season gs dap tsc w s.
  Let PO := procs_concrete crops.
  Let prof := so_prof (p_soil par).
  Let soil := p_soil par.
  Let irr := sel_irr par season.
  Let field := sel_field par season gs.
  Let crop := sel_crop par season.
  Hypothesis HR : results_opt x PO = Some Rs.
  Let SO : SpecO x PO Rs := results_opt_spec _ _ _ HR.
  Let tr := trace_of x Rs.
  Let row := row_of x Rs.
  Let s' := state_of x Rs.

  (* ---- the remaining calls, as calls of the unit models on the values of the day ---------------------------- *)
  Lemma v_gd : gs = true ->
    growing_degree_day (c_GDDmethod crop) (c_Tupp crop) (c_Tbase crop) (w_tmax w) (w_tmin w) = Some (rs_gdd Rs).
  Proof.
    intros E. pose proof (so_gdd _ _ _ SO) as H. cbn [x_gs x ctx] in H. rewrite E in H. destruct H as (g & H1 & H2).
    rewrite H2. exact (cgd_call _ _ H1).
  Qed.
  Lemma v_gdd_off : gs = false -> rs_gdd Rs = 3 / 10.
  Proof. intros E. pose proof (so_gdd _ _ _ SO) as H. cbn [x_gs x ctx] in H. rewrite E in H. exact H. Qed.

  Lemma v_rp : exists ds,
    RainIrr.rainfall_partition (w_rain w) (drR_th (rs_dr Rs)) (ntrunc num_ops (d_day_submerged s)) (f_sr_inhb field) (f_bunds field)
      (f_z_bund field) (if f_cn_adj field then f_cn_adj_pct field else 0) (so_cn soil) (so_adj_cn soil) (so_z_cn soil) (so_nComp soil) prof
    = Some (rpR_runoff (rs_rp Rs), rpR_infl (rs_rp Rs), ds).
  Proof. exact (crp_call _ _ _ (so_rp _ _ _ SO)). Qed.

  Lemma v_ir :
    RainIrr.irrigation (i_method irr) (i_SMT irr) (i_AppEff irr) (i_MaxIrr irr) (i_IrrInterval irr) (i_Schedule irr) (i_depth irr)
      (i_MaxIrrSeason irr) (d_growth_stage s) (d_irr_cum s) (d_e_pot s) (d_t_pot s) (rdR_zroot (rs_rd Rs)) (drR_th (rs_dr Rs)) dap tsc
      (c_Zmin crop) (c_Aer crop) prof (so_z_top soil) gs (w_rain w) (rpR_runoff (rs_rp Rs))
    = Some (irR_depletion (rs_ir Rs), irR_taw (rs_ir Rs), irR_irrcum (rs_ir Rs), irR_irr (rs_ir Rs)).
  Proof. exact (cir_call _ _ _ (so_ir _ _ _ SO)). Qed.

  Lemma v_hr :
    Yield.HIref_current_day (cf_y (crops (c_id crop))) (d_hi_ref s) (d_HIfinal s) dap (geR_dcd (rs_ge Rs)) (d_yield_form s)
      (d_pct_lag_phase s) (trR_cc (rs_tr Rs)) (ccR_ccx_w (rs_cc Rs)) gs = (hrR_hiref (rs_hr Rs), hrR_yf (rs_hr Rs), hrR_pct (rs_hr Rs)).
  Proof. exact (chr_call _ _ _ (so_hr _ _ _ SO)). Qed.

  Lemma v_bm :
    Yield.biomass_accumulation (cf_y (crops (c_id crop))) dap (geR_dcd (rs_ge Rs)) (hrR_hiref (rs_hr Rs)) (hrR_pct (rs_hr Rs))
      (d_biomass s) (d_biomass_ns s) (trR_tr (rs_tr Rs)) (trR_trpot_ns (rs_tr Rs)) (w_et0 w) gs = Some (bmR_b (rs_bm Rs), bmR_bns (rs_bm Rs)).
  Proof. exact (cbm_call _ _ _ (so_bm _ _ _ SO)). Qed.

  (* the surface irrigation read from the row is the irrigation process's result *)
  Lemma surface_irr_eq : surface_irr par season row = irR_irr (rs_ir Rs).
  Proof.
    unfold surface_irr. subst row. cbn [row_of r_flux fl_IrrDay]. unfold irrday_of.
    change (x_irr x) with irr. change (x_gs x) with gs. fold irr.
    destruct (Z.eqb_spec (i_method irr) 4) as [E|E].
    - symmetry. exact (RainIrrR.irr_net_zero _ _ _ _ _ _ _ _ _ _ _ _ _ _ _ _ _ _ _ _ _ _ _ _ _ _ _ v_ir E).
    - destruct (gs_cases gs) as [Eg|Eg]; rewrite Eg; [reflexivity|].
      symmetry. exact (proj1 (RainIrrR.irr_off_season_zero _ _ _ _ _ _ _ _ _ _ _ _ _ _ _ _ _ _ _ _ _ _ _ _ _ _ _ v_ir Eg)).
  Qed.

  Hypothesis Inv : DayInv par s.
  Let Hwf : wf_prof prof := inv_wf _ _ Inv.
  Let Bfc : fcadj_ok prof (gwR_fcadj (rs_gw Rs)) := b_fc _ _ _ _ _ _ _ _ _ HR Inv.
  Let Bpi : in_bounds prof (piR_th (rs_pi Rs)) := b_pi _ _ _ _ _ _ _ _ _ HR Inv.
  Let Bdr : in_bounds prof (drR_th (rs_dr Rs)) := b_dr _ _ _ _ _ _ _ _ _ HR Inv.
  Let Binf := b_inf _ _ _ _ _ _ _ _ _ HR Inv.
  Let Udr := u_dr _ _ _ _ _ _ _ _ _ HR.
  Let Uinf := u_inf _ _ _ _ _ _ _ _ _ HR.

  Lemma flux_ok_dr : InfiltrationR.flux_ok prof (drR_flux (rs_dr Rs)).
  Proof. exact (DrainageR.drainage_flux_le_ksat _ _ _ _ _ _ Hwf Bpi Bfc Udr). Qed.

  (* ---- C04: signs that need no side condition ----------------------------------------------------------------- *)
  Lemma f_irr_nonneg : 0 <= irR_irr (rs_ir Rs).
  Proof. exact (RainIrrR.irr_nonneg _ _ _ _ _ _ _ _ _ _ _ _ _ _ _ _ _ _ _ _ _ _ _ _ _ _ _ v_ir). Qed.
  Lemma f_preirr_nonneg : 0 <= piR_preirr (rs_pi Rs).
  Proof. exact (proj2 (RootsR.pre_irrigation_balance _ _ _ _ _ _ _ _ _ _ Hwf (u_pi _ _ _ _ _ _ _ _ _ HR))). Qed.
  Lemma f_dp_dr_nonneg : 0 <= drR_deepperc (rs_dr Rs).
  Proof. exact (DrainageR.drainage_deep_perc_nonneg _ _ _ _ _ _ Hwf Bpi Bfc Udr). Qed.
  Lemma f_deepperc : drR_deepperc (rs_dr Rs) <= infR_deepperc (rs_inf Rs).
  Proof.
    exact (proj1 (InfiltrationR.deep_perc_nonneg _ _ _ _ _ _ _ _ _ _ _ _ _ _ _ _ _ _ _ Hwf Bdr Bfc flux_ok_dr (inv_surf _ _ Inv) Uinf)).
  Qed.
  Lemma f_runoff_ge : rpR_runoff (rs_rp Rs) <= infR_runoff (rs_inf Rs).
  Proof.
    pose proof (InfiltrationR.runoff_lower _ _ _ _ _ _ _ _ _ _ _ _ _ _ _ _ _ _ _ Hwf Bdr Bfc (inv_surf _ _ Inv) Uinf). lra.
  Qed.
  Lemma f_cr_nonneg : 0 <= crR_cr (rs_cr Rs).
  Proof.
    destruct (u_cr _ _ _ _ _ _ _ _ _ HR) as (z & E).
    exact (GroundwaterR.cr_nonneg _ _ _ _ _ _ _ _ _ _ Hwf (eq_sym (in_bounds_length _ _ (proj1 Binf))) (eq_sym (fcadj_ok_length _ _ Bfc)) E).
  Qed.
  Lemma f_gwin_nonneg : 0 <= giR_gwin (rs_gi Rs).
  Proof. destruct (u_gi _ _ _ _ _ _ _ _ _ HR) as (z & E). exact (GroundwaterR.gwin_nonneg _ _ _ _ _ _ Hwf E). Qed.
  Lemma f_es : 0 <= evR_espot (rs_ev Rs) -> 0 <= evR_es (rs_ev Rs) <= evR_espot (rs_ev Rs).
  Proof.
    intros H. destruct (u_ev _ _ _ _ _ _ _ _ _ HR) as (o & E & _ & _ & -> & Ep). rewrite Ep in *.
    exact (EvaporationR.es_le_pot _ _ _ _ _ _ _ _ _ _ E H).
  Qed.

  (* ---- rain partition: needs the curve-number hypothesis and rain >= 0 --------------------------------------- *)
  Hypothesis Hrain : 0 <= w_rain w.
  Hypothesis Hcn : cn_ok_field par field.

  Lemma f_split : rpR_runoff (rs_rp Rs) + rpR_infl (rs_rp Rs) = w_rain w /\ 0 <= rpR_runoff (rs_rp Rs) <= w_rain w.
  Proof. destruct v_rp as (ds & E). exact (RainIrrR.scs_split _ _ _ _ _ _ _ _ _ _ _ _ _ _ _ Hcn Hrain E). Qed.
  Lemma f_runoff_nonneg : 0 <= infR_runoff (rs_inf Rs).
  Proof. pose proof f_split. pose proof f_runoff_ge. lra. Qed.

  (* what infiltration is offered: the rain that did not run off plus the efficiency-adjusted irrigation *)
  Lemma f_offered : offered (t_inf tr) = rpR_infl (rs_rp Rs) + irR_irr (rs_ir Rs) * (i_AppEff irr / 100).
  Proof.
    unfold offered. subst tr. cbn [t_inf trace_of arg_inf infA_infl infA_gs infA_irr infA_eff x_gs x ctx x_irr x_par x_season]. fold irr.
    destruct f_split as [H1 H2]. rewrite Rmax_left by lra.
    destruct (gs_cases gs) as [Eg|Eg]; rewrite Eg; [reflexivity|].
    rewrite (proj1 (RainIrrR.irr_off_season_zero _ _ _ _ _ _ _ _ _ _ _ _ _ _ _ _ _ _ _ _ _ _ _ _ _ _ _ v_ir Eg)). lra.
  Qed.
  Lemma f_offeredR : InfiltrationR.offered (rpR_infl (rs_rp Rs)) (irR_irr (rs_ir Rs)) (i_AppEff irr) gs
                     = rpR_infl (rs_rp Rs) + irR_irr (rs_ir Rs) * (i_AppEff irr / 100).
  Proof. rewrite <- f_offered. symmetry. exact (offered_eq (t_inf tr)). Qed.

  (* ---- C02 ------------------------------------------------------------------------------------------------------ *)
  Lemma c02_identity : infR_infl (rs_inf Rs) + infR_runoff (rs_inf Rs) = w_rain w + irR_irr (rs_ir Rs) * (i_AppEff irr / 100).
  Proof.
    pose proof (InfiltrationR.surface_identity _ _ _ _ _ _ _ _ _ _ _ _ _ _ _ _ _ _ _ Uinf) as H. fold irr in H. rewrite f_offeredR in H.
    destruct f_split as [H1 _]. lra.
  Qed.
  Lemma c02_runoff : 0 <= infR_runoff (rs_inf Rs) <= w_rain w + irR_irr (rs_ir Rs) * (i_AppEff irr / 100) + d_surface_storage s.
  Proof.
    pose proof (InfiltrationR.runoff_bounds _ _ _ _ _ _ _ _ _ _ _ _ _ _ _ _ _ _ _ Hwf Bdr Bfc flux_ok_dr (inv_surf _ _ Inv) Uinf) as H.
    fold irr in H. rewrite f_offeredR in H. destruct f_split as [H1 H2]. lra.
  Qed.
  Lemma c02_infl_neg : infR_infl (rs_inf Rs) < 0 ->
    (f_bunds field = false \/ f_z_bund field <= 1 / 1000 \/ f_z_bund field < d_surface_storage s) /\ 0 < d_surface_storage s /\
    - d_surface_storage s <= infR_infl (rs_inf Rs).
  Proof.
    intros Hn.
    destruct (InfiltrationR.infl_negative_only_without_bunds _ _ _ _ _ _ _ _ _ _ _ _ _ _ _ _ _ _ _ Hwf Bdr Bfc flux_ok_dr (inv_surf _ _ Inv) Uinf Hn)
      as [H1 H2].
    pose proof (InfiltrationR.infl_lower _ _ _ _ _ _ _ _ _ _ _ _ _ _ _ _ _ _ _ Hwf Bdr Bfc flux_ok_dr (inv_surf _ _ Inv) Uinf) as [H3 _].
    split; [exact H1|]. split; [exact H2|exact H3].
  Qed.
  (* with the ponding invariant of C03 for the field management in force only the bund-removal day is left *)
  Lemma c02_infl_neg_removal : d_surface_storage s <= zb_of field \/ zb_of field = 0 -> infR_infl (rs_inf Rs) < 0 ->
    f_bunds field = false \/ f_z_bund field <= 1 / 1000.
  Proof.
    intros Hz Hn. destruct (c02_infl_neg Hn) as ([H|[H|H]] & Hs & _); [left; exact H | right; exact H |].
    unfold zb_of in Hz. destruct (f_bunds field); [|left; reflexivity]. cbn [andb] in Hz.
    destruct (Rltb_spec (1 / 1000) (f_z_bund field)) as [Hb|Hb]; [|right; lra]. exfalso. destruct Hz as [Hz|Hz]; lra.
  Qed.
  Lemma c02_dry : w_rain w = 0 -> irR_irr (rs_ir Rs) = 0 -> d_surface_storage s = 0 ->
    infR_infl (rs_inf Rs) = 0 /\ infR_runoff (rs_inf Rs) = 0.
  Proof.
    intros Hr Hi Hs. destruct f_split as [H1 H2].
    assert (Ho : InfiltrationR.offered (rpR_infl (rs_rp Rs)) (irR_irr (rs_ir Rs)) (i_AppEff irr) gs = 0) by (rewrite f_offeredR, Hi; lra).
    destruct (InfiltrationR.dry_day _ _ _ _ _ _ _ _ _ _ _ _ _ _ _ _ _ _ _ Hwf Bdr Bfc Ho Hs Uinf) as (A & B & _).
    split; [exact A | lra].
  Qed.

  (* ---- C04: transpiration and the net-irrigation requirement (need TranspirationR.tr_wf for the day's call) ---- *)
  Lemma f_tr : TranspirationR.tr_wf prof (tr_crop (crops (c_id crop)) crop) (tr_state (t_tr tr)) -> 0 <= trR_trpot (rs_tr Rs) ->
    0 <= trR_tr (rs_tr Rs) <= trR_trpot (rs_tr Rs).
  Proof.
    intros Hw Hp. destruct (gs_cases gs) as [Eg|Eg].
    - destruct (u_tr _ _ _ _ _ _ _ _ _ HR) as (o & E & _ & _ & -> & _ & Ep). rewrite Ep in *.
      exact (tr_le_pot_gs _ _ _ _ _ _ _ _ _ _ _ _ Eg Hw E Hp).
    - pose proof (so_tr _ _ _ SO) as S13. cbn [procs_concrete po_tr PO] in S13.
      destruct (c_tr_off crops (x_prof x) (t_tr tr) (rs_tr Rs) Eg S13) as (T1 & T2 & _). rewrite T1, T2. lra.
  Qed.
  Lemma f_irrnet_lower :
    TranspirationR.tr_wf prof (tr_crop (crops (c_id crop)) crop) (tr_state (t_tr tr)) -> 1 / 100 <= c_Zmin crop ->
    (i_method irr = 4%Z -> TranspirationR.layers_ok prof) ->
    - (1 / 100) * INR (Transpiration.tr_comp_sto prof (Transpiration.tr_rootdepth (rdR_zroot (rs_rd Rs)) (c_Zmin crop))) <= trR_irrnet (rs_tr Rs).
  Proof.
    intros Hw Hz Hl. destruct (u_tr _ _ _ _ _ _ _ _ _ HR) as (o & E & _ & _ & _ & -> & _).
    assert (Hm : i_method irr = 4%Z -> 0 <= i_NetIrrSMT irr <= 100 /\ TranspirationR.layers_ok prof)
      by (intros M; split; [exact (irr_smt par season s Inv) | exact (Hl M)]).
    exact (TranspirationR.irrnet_lower _ _ _ _ _ _ _ _ _ _ _ _ Hw Hz Hm E).
  Qed.

  (* ---- C19 ------------------------------------------------------------------------------------------------------ *)
  Lemma c19_no_table : p_water_table par = 0%Z -> crR_cr (rs_cr Rs) = 0 /\ giR_gwin (rs_gi Rs) = 0.
  Proof.
    intros W0. split.
    - destruct (u_cr _ _ _ _ _ _ _ _ _ HR) as (z & E). rewrite W0 in E.
      rewrite (proj1 (GroundwaterR.no_table_zero _ _ _ _ _ _ _)) in E. inversion E. reflexivity.
    - pose proof (so_gw _ _ _ SO) as S1. cbn [procs_concrete po_gw PO] in S1.
      assert (N1 : gwA_wt (t_gw tr) <> 1%Z) by (cbn; unfold x_wt; cbn; rewrite W0; discriminate).
      destruct (cgw_call_notable (x_prof x) (t_gw tr) (rs_gw Rs) N1 S1) as (_ & G2 & _).
      pose proof (so_gi _ _ _ SO) as S14. cbn [procs_concrete po_gi PO] in S14.
      exact (proj2 (cgi_call_off (x_prof x) (t_gi tr) (rs_gi Rs) G2 S14)).
  Qed.

  Lemma c19_saturated : p_water_table par = 1%Z -> in_bounds prof (trR_th (rs_tr Rs)) ->
    Forall2 (fun c t' => w_gw w <= c_zmid c -> t' = c_th_s c) prof (giR_th (rs_gi Rs)).
  Proof.
    intros W1 Hb.
    pose proof (so_gw _ _ _ SO) as S1. cbn [procs_concrete po_gw PO] in S1.
    assert (E1 : gwA_wt (t_gw tr) = 1%Z) by exact W1.
    destruct (cgw_call_table (x_prof x) (t_gw tr) (rs_gw Rs) E1 S1) as (G1 & G2 & G3).
    pose proof (so_gi _ _ _ SO) as S14. cbn [procs_concrete po_gi PO] in S14.
    pose proof (cgi_call_depth (x_prof x) (t_gi tr) (rs_gi Rs) _ G2 S14) as E.
    assert (Ew : gi_wts (t_gi tr) = Groundwater.gw_wt_in_soil (w_gw w) prof) by (unfold gi_wts; cbn [t_gi tr trace_of arg_gi giA_wtsoil]; rewrite G1; reflexivity).
    cbn [t_gi tr trace_of arg_gi giA_th t_gw arg_gw gwA_gw x_w x ctx] in E. change (x_prof x) with prof in E.
    change (gi_wts (arg_gi x (rs_gw Rs) (rs_tr Rs))) with (gi_wts (t_gi tr)) in E. rewrite Ew in E.
    destruct (Groundwater.gw_wt_in_soil (w_gw w) prof) eqn:Es.
    - pose proof (GroundwaterR.gw_inflow_post _ _ _ _ _ Hb E) as F.
      eapply Forall3_proj13; [|exact F]. cbn. intros c t t' (H & _). exact H.
    - cbn [Groundwater.groundwater_inflow] in E. inversion E as [[E2 E3]].
      assert (Hn : Forall (fun c => ~ w_gw w <= c_zmid c) prof).
      { apply Forall_forall. intros c Hc Hz.
        assert (Hx : Groundwater.gw_wt_in_soil (w_gw w) prof = true)
          by (apply GroundwaterR.gw_wt_in_soil_spec; apply Exists_exists; exists c; split; assumption).
        congruence. }
      clear - Hn Hb. induction Hb as [|c t p0 l0 _ _ IH]; constructor.
      + inversion Hn; subst. intros; contradiction.
      + apply IH. inversion Hn; assumption.
  Qed.
End RowsDay.

(* ============================================================================================================ *)
(*  Part C: the day theorems, on the row the day writes                                                          *)
(* ============================================================================================================ *)
Lemma irrday_not4 par crops season gs dap tsc w s Rs :
  results_opt (ctx par season gs dap tsc w s) (procs_concrete crops) = Some Rs -> i_method (sel_irr par season) <> 4%Z ->
  fl_IrrDay (r_flux (row_of (ctx par season gs dap tsc w s) Rs)) = irR_irr (rs_ir Rs).
Proof.
  intros HR N. rewrite <- (surface_irr_eq par crops season gs dap tsc w s Rs HR). unfold surface_irr.
  apply Z.eqb_neq in N. rewrite N. reflexivity.
Qed.

(* ---- C04 -------------------------------------------------------------------------------------------------------- *)
(* the part that needs no side condition: under DayInv, rain >= 0 and an effective curve number in (0,100], irrigation
   (strategies other than net irrigation), runoff, deep percolation, capillary rise and groundwater inflow are >= 0, and
   actual soil evaporation lies between 0 and the potential whenever the potential is >= 0 *)
Theorem day_fluxes_noside_concrete par crops season gs dap tsc w s s' row :
  DayInv par s -> 0 <= w_rain w -> cn_ok_field par (sel_field par season gs) ->
  day_proc_opt par (procs_concrete crops) season gs dap tsc w s = Some (s', row) ->
  let f := r_flux row in
  (i_method (sel_irr par season) <> 4%Z -> 0 <= fl_IrrDay f) /\
  0 <= fl_Runoff f /\ 0 <= fl_DeepPerc f /\ 0 <= fl_CR f /\ 0 <= fl_GwIn f /\
  (0 <= fl_EsPot f -> 0 <= fl_Es f <= fl_EsPot f).
Proof.
  intros Inv Hr Hcn H. cbv zeta.
  destruct (day_proc_opt_total _ _ _ _ _ _ _ _ _ _ H) as (_ & Rs & HR & _ & -> & ->).
  split; [intros N; rewrite (irrday_not4 _ _ _ _ _ _ _ _ _ HR N); exact (f_irr_nonneg par crops season gs dap tsc w s Rs HR)|].
  cbn [row_of r_flux fl_Runoff fl_DeepPerc fl_CR fl_GwIn fl_Es fl_EsPot].
  split; [exact (f_runoff_nonneg par crops season gs dap tsc w s Rs HR Inv Hr Hcn)|].
  split; [pose proof (f_deepperc par crops season gs dap tsc w s Rs HR Inv); pose proof (f_dp_dr_nonneg par crops season gs dap tsc w s Rs HR Inv); lra|].
  split; [exact (f_cr_nonneg par crops season gs dap tsc w s Rs HR Inv)|].
  split; [exact (f_gwin_nonneg par crops season gs dap tsc w s Rs HR Inv)|].
  exact (f_es par crops season gs dap tsc w s Rs HR).
Qed.

(* the full statement, with the side conditions of the day (DaySide: EsPot >= 0, TrPot >= 0, tr_wf for the day's call,
   layers_ok under net irrigation).  Under net irrigation (strategy 4) the IrrDay column reports IrrNet + PreIrr, which
   is bounded below by minus the 0.01 mm-per-compartment rounding of the root-zone bookkeeping
   (TranspirationR.irrnet_lower; TranspirationR.irrnet_nonneg_refuted shows it can be negative) *)
Theorem day_fluxes_concrete par crops season gs dap tsc w s s' row :
  DayInv par s -> 0 <= w_rain w -> cn_ok_field par (sel_field par season gs) ->
  day_proc_opt par (procs_concrete crops) season gs dap tsc w s = Some (s', row) ->
  (forall Rs, results_opt (ctx par season gs dap tsc w s) (procs_concrete crops) = Some Rs -> DaySide par crops season gs dap tsc w s Rs) ->
  let f := r_flux row in let irr := sel_irr par season in let crop := sel_crop par season in
  (i_method irr <> 4%Z -> 0 <= fl_IrrDay f) /\
  (i_method irr = 4%Z -> 1 / 100 <= c_Zmin crop ->
   - (1 / 100) * INR (Transpiration.tr_comp_sto (so_prof (p_soil par)) (Transpiration.tr_rootdepth (gr_z_root (r_growth row)) (c_Zmin crop)))
   <= fl_IrrDay f) /\
  0 <= fl_Runoff f /\ 0 <= fl_DeepPerc f /\ 0 <= fl_CR f /\ 0 <= fl_GwIn f /\
  0 <= fl_EsPot f /\ 0 <= fl_Es f <= fl_EsPot f /\ 0 <= fl_TrPot f /\ 0 <= fl_Tr f <= fl_TrPot f.
Proof.
  intros Inv Hr Hcn H Side.
  destruct (day_fluxes_noside_concrete _ _ _ _ _ _ _ _ _ _ Inv Hr Hcn H) as (A1 & A2 & A3 & A4 & A5 & A6). cbv zeta in *.
  destruct (day_proc_opt_total _ _ _ _ _ _ _ _ _ _ H) as (_ & Rs & HR & _ & -> & ->).
  specialize (Side Rs HR). destruct Side as [_ Sesp Strp Swf Slay].
  split; [exact A1|]. split; [|split; [exact A2|]; split; [exact A3|]; split; [exact A4|]; split; [exact A5|]].
  - intros M Hz. cbn [row_of r_flux fl_IrrDay r_growth gr_z_root]. unfold irrday_of, irrnet_of. cbn [x_gs ctx].
    change (x_irr (ctx par season gs dap tsc w s)) with (sel_irr par season). rnum.
    apply Z.eqb_eq in M. rewrite M. apply Z.eqb_eq in M.
    pose proof (f_irrnet_lower par crops season gs dap tsc w s Rs HR Inv Swf Hz Slay) as L.
    pose proof (f_preirr_nonneg par crops season gs dap tsc w s Rs HR Inv) as P.
    pose proof (pos_INR (Transpiration.tr_comp_sto (so_prof (p_soil par))
                           (Transpiration.tr_rootdepth (rdR_zroot (rs_rd Rs)) (c_Zmin (sel_crop par season))))) as HX.
    set (X := INR _) in *. destruct gs; cbv iota; lra.
  - cbn [row_of r_flux fl_Es fl_EsPot fl_Tr fl_TrPot] in *.
    split; [exact Sesp|]. split; [exact (A6 Sesp)|]. split; [exact Strp|].
    exact (f_tr par crops season gs dap tsc w s Rs HR Swf Strp).
Qed.

(* ---- C02 -------------------------------------------------------------------------------------------------------- *)
Theorem day_surface_concrete par crops season gs dap tsc w s s' row :
  DayInv par s -> 0 <= w_rain w -> cn_ok_field par (sel_field par season gs) ->
  day_proc_opt par (procs_concrete crops) season gs dap tsc w s = Some (s', row) ->
  let f := r_flux row in let field := sel_field par season gs in
  let applied := surface_irr par season row * (i_AppEff (sel_irr par season) / 100) in
  (* rain plus the efficiency-adjusted irrigation = infiltration + runoff *)
  fl_Infl f + fl_Runoff f = w_rain w + applied /\
  0 <= fl_Runoff f <= w_rain w + applied + d_surface_storage s /\
  (* negative infiltration: only when ponded water is released (no bunds, bunds of at most 1 mm, or bunds lowered below the
     ponded depth), and by no more than the ponded water *)
  (fl_Infl f < 0 ->
     (f_bunds field = false \/ f_z_bund field <= 1 / 1000 \/ f_z_bund field < d_surface_storage s) /\
     0 < d_surface_storage s /\ - d_surface_storage s <= fl_Infl f) /\
  (* ... with the ponding invariant of C03 for the field management in force: only the bund-removal day *)
  (d_surface_storage s <= zb_of field \/ zb_of field = 0 -> fl_Infl f < 0 -> f_bunds field = false \/ f_z_bund field <= 1 / 1000) /\
  (* dry day *)
  (w_rain w = 0 -> surface_irr par season row = 0 -> d_surface_storage s = 0 -> fl_Infl f = 0 /\ fl_Runoff f = 0) /\
  (* the irrigation applied at the surface is never negative and is zero outside the season and under net irrigation *)
  0 <= surface_irr par season row /\ (gs = false -> surface_irr par season row = 0).
Proof.
  intros Inv Hr Hcn H. cbv zeta.
  destruct (day_proc_opt_total _ _ _ _ _ _ _ _ _ _ H) as (_ & Rs & HR & _ & -> & ->).
  rewrite (surface_irr_eq par crops season gs dap tsc w s Rs HR).
  cbn [row_of r_flux fl_Infl fl_Runoff].
  split; [exact (c02_identity par crops season gs dap tsc w s Rs HR Hr Hcn)|].
  split; [exact (c02_runoff par crops season gs dap tsc w s Rs HR Inv Hr Hcn)|].
  split; [exact (c02_infl_neg par crops season gs dap tsc w s Rs HR Inv)|].
  split; [exact (c02_infl_neg_removal par crops season gs dap tsc w s Rs HR Inv)|].
  split; [exact (c02_dry par crops season gs dap tsc w s Rs HR Inv Hr Hcn)|].
  split; [exact (f_irr_nonneg par crops season gs dap tsc w s Rs HR)|].
  intros Eg. exact (proj1 (RainIrrR.irr_off_season_zero _ _ _ _ _ _ _ _ _ _ _ _ _ _ _ _ _ _ _ _ _ _ _ _ _ _ _ (v_ir par crops season gs dap tsc w s Rs HR) Eg)).
Qed.

(* ---- C13 -------------------------------------------------------------------------------------------------------- *)
(* the two intermediate values the irrigation decision reads — the water content after drainage [th_dr] and the runoff of
   the rain partition [ro] — characterised from the state before the day, the adjusted field capacity of the day (stored
   in s') and the weather; valid for every strategy other than net irrigation (no pre-irrigation then) *)
Definition day_irr_inputs (par : DPar R) (season : Z) (gs : bool) (w : Day.W R) (s s' : DState R) (th_dr : list R) (ro : R) : Prop :=
  let prof := so_prof (p_soil par) in let soil := p_soil par in let field := sel_field par season gs in
  (exists dp fl, Drainage.drainage prof (d_th s) (d_th_fc_Adj s') = Some (th_dr, dp, fl)) /\
  (exists infl ds,
     RainIrr.rainfall_partition (w_rain w) th_dr (ntrunc num_ops (d_day_submerged s)) (f_sr_inhb field) (f_bunds field) (f_z_bund field)
       (if f_cn_adj field then f_cn_adj_pct field else 0) (so_cn soil) (so_adj_cn soil) (so_z_cn soil) (so_nComp soil) prof
     = Some (ro, infl, ds)).

Theorem day_irrigation_concrete par crops season gs dap tsc w s s' row :
  day_proc_opt par (procs_concrete crops) season gs dap tsc w s = Some (s', row) ->
  let irr := sel_irr par season in let crop := sel_crop par season in let f := r_flux row in
  let capped := RainIrrR.capped (i_MaxIrrSeason irr) (d_irr_cum s) in
  (* nothing outside the season, nothing when rainfed *)
  (gs = false -> fl_IrrDay f = 0 /\ d_irr_cum s' = 0) /\
  (i_method irr = 0%Z -> fl_IrrDay f = 0) /\
  (* daily maximum (strategies 0,1,2,3,5) *)
  (i_method irr <> 4%Z -> 0 <= fl_IrrDay f /\ (0 <= i_MaxIrr irr -> fl_IrrDay f <= i_MaxIrr irr)) /\
  (* seasonal maximum: preserved by the day; in the season the counter advances by the irrigation applied *)
  (0 <= i_MaxIrrSeason irr -> d_irr_cum s <= i_MaxIrrSeason irr -> d_irr_cum s' <= i_MaxIrrSeason irr) /\
  (gs = true -> d_irr_cum s <= i_MaxIrrSeason irr -> d_irr_cum s' <= i_MaxIrrSeason irr) /\
  (gs = true -> d_irr_cum s' = d_irr_cum s + surface_irr par season row) /\
  (* 2: fixed interval *)
  (gs = true -> i_method irr = 2%Z -> 0 < fl_IrrDay f -> i_IrrInterval irr <> 0%Z /\ ((dap - 1) mod i_IrrInterval irr = 0)%Z) /\
  (* 3: schedule *)
  (gs = true -> i_method irr = 3%Z ->
     exists v, RainIrr.py_index (i_Schedule irr) tsc = Some v /\ 0 <= v /\ fl_IrrDay f = capped (Rmin (i_MaxIrr irr) v) /\
               (0 <= i_MaxIrr irr -> d_irr_cum s + Rmin (i_MaxIrr irr) v <= i_MaxIrrSeason irr -> fl_IrrDay f = Rmin (i_MaxIrr irr) v)) /\
  (* 5: constant depth *)
  (gs = true -> i_method irr = 5%Z ->
     fl_IrrDay f = capped (Rmin (i_MaxIrr irr) (i_depth irr)) /\
     (0 <= i_MaxIrr irr -> 0 <= i_depth irr -> d_irr_cum s + Rmin (i_MaxIrr irr) (i_depth irr) <= i_MaxIrrSeason irr ->
      fl_IrrDay f = Rmin (i_MaxIrr irr) (i_depth irr))) /\
  (* 1: soil-moisture threshold of the growth stage stored the day before (stage 1 on the first day after planting) *)
  (gs = true -> i_method irr = 1%Z ->
     exists th_dr ro depl taw thr,
       day_irr_inputs par season gs w s s' th_dr ro /\
       RainIrr.irr_depletion (so_prof (p_soil par)) (gr_z_root (r_growth row)) th_dr (so_z_top (p_soil par)) (c_Zmin crop) (c_Aer crop)
                             (d_t_pot s) (d_e_pot s) (w_rain w) ro = Some (depl, taw) /\
       RainIrr.py_index (i_SMT irr) (RainIrrR.irr_stage dap (d_growth_stage s) - 1) = Some thr /\
       (1 - thr / 100 < depl / taw ->
          fl_IrrDay f = capped (Rmin (i_MaxIrr irr) (Rmax 0 depl * ((100 - i_AppEff irr + 100) / 100)))) /\
       (depl / taw <= 1 - thr / 100 -> fl_IrrDay f = 0) /\
       (0 < fl_IrrDay f -> 1 - thr / 100 < depl / taw /\ 0 < depl)) /\
  (* 4: net irrigation applies nothing at the surface: the counter of applied irrigation does not move *)
  (gs = true -> i_method irr = 4%Z -> d_irr_cum s' = d_irr_cum s).
Proof.
  intros H. cbv zeta.
  destruct (day_proc_opt_total _ _ _ _ _ _ _ _ _ _ H) as (_ & Rs & HR & _ & -> & ->).
  pose proof (v_ir par crops season gs dap tsc w s Rs HR) as V.
  pose proof (irrday_not4 par crops season gs dap tsc w s Rs HR) as EI.
  pose proof (surface_irr_eq par crops season gs dap tsc w s Rs HR) as ES.
  change (d_irr_cum (state_of (ctx par season gs dap tsc w s) Rs)) with (irR_irrcum (rs_ir Rs)).
  set (irr := sel_irr par season) in *.
  split.
  { intros Eg. destruct (RainIrrR.irr_off_season_zero _ _ _ _ _ _ _ _ _ _ _ _ _ _ _ _ _ _ _ _ _ _ _ _ _ _ _ V Eg) as (A & B & _).
    split; [|exact B]. subst gs. reflexivity. }
  split.
  { intros M. rewrite EI by (rewrite M; discriminate). exact (RainIrrR.irr_rainfed_zero _ _ _ _ _ _ _ _ _ _ _ _ _ _ _ _ _ _ _ _ _ _ _ _ _ _ _ V M). }
  split.
  { intros N. rewrite (EI N). split; [exact (RainIrrR.irr_nonneg _ _ _ _ _ _ _ _ _ _ _ _ _ _ _ _ _ _ _ _ _ _ _ _ _ _ _ V)|].
    exact (RainIrrR.irr_daily_cap _ _ _ _ _ _ _ _ _ _ _ _ _ _ _ _ _ _ _ _ _ _ _ _ _ _ _ V). }
  split; [exact (RainIrrR.irr_season_cap _ _ _ _ _ _ _ _ _ _ _ _ _ _ _ _ _ _ _ _ _ _ _ _ _ _ _ V)|].
  split; [exact (RainIrrR.irr_season_cap_in_season _ _ _ _ _ _ _ _ _ _ _ _ _ _ _ _ _ _ _ _ _ _ _ _ _ _ _ V)|].
  split; [intros Eg; rewrite ES; exact (RainIrrR.irr_cum_update _ _ _ _ _ _ _ _ _ _ _ _ _ _ _ _ _ _ _ _ _ _ _ _ _ _ _ V Eg)|].
  split.
  { intros Eg M. rewrite EI by (rewrite M; discriminate). exact (RainIrrR.irr_interval_days _ _ _ _ _ _ _ _ _ _ _ _ _ _ _ _ _ _ _ _ _ _ _ _ _ _ _ V Eg M). }
  split.
  { intros Eg M. rewrite EI by (rewrite M; discriminate). exact (RainIrrR.irr_schedule_exact _ _ _ _ _ _ _ _ _ _ _ _ _ _ _ _ _ _ _ _ _ _ _ _ _ _ _ V Eg M). }
  split.
  { intros Eg M. rewrite EI by (rewrite M; discriminate). exact (RainIrrR.irr_constant_depth _ _ _ _ _ _ _ _ _ _ _ _ _ _ _ _ _ _ _ _ _ _ _ _ _ _ _ V Eg M). }
  split.
  { intros Eg M. assert (N : i_method irr <> 4%Z) by (rewrite M; discriminate). rewrite (EI N).
    exists (drR_th (rs_dr Rs)), (rpR_runoff (rs_rp Rs)), (irR_depletion (rs_ir Rs)), (irR_taw (rs_ir Rs)).
    destruct (RainIrrR.irr_smt_spec _ _ _ _ _ _ _ _ _ _ _ _ _ _ _ _ _ _ _ _ _ _ _ _ _ _ _ V Eg M) as (thr & T1 & T2 & T3).
    exists thr.
    split.
    { unfold day_irr_inputs. cbv zeta. cbn [state_of d_th_fc_Adj].
      split.
      - pose proof (u_dr par crops season gs dap tsc w s Rs HR) as D.
        pose proof (u_pi par crops season gs dap tsc w s Rs HR) as P.
        rewrite RootsR.pre_irrigation_inert in P by (left; exact N). inversion P as [[P1 P2]]. rewrite <- P1 in D.
        eexists; eexists; exact D.
      - destruct (v_rp par crops season gs dap tsc w s Rs HR) as (ds & E). eexists; eexists; exact E. }
    split.
    { cbn [row_of r_growth gr_z_root]. pose proof V as V'. rewrite Eg in V'.
      destruct (RainIrrR.irrigation_in_season _ _ _ _ _ _ _ _ _ _ _ _ _ _ _ _ _ _ _ _ _ _ _ _ _ _ V') as (i0 & D & _). exact D. }
    split; [exact T1|]. split; [exact T2|]. split; [exact T3|].
    intros Hp. destruct (RainIrrR.irr_smt_only_if _ _ _ _ _ _ _ _ _ _ _ _ _ _ _ _ _ _ _ _ _ _ _ _ _ _ _ V Eg M Hp) as (thr' & U1 & U2 & U3).
    rewrite T1 in U1. inversion U1; subst thr'. split; assumption. }
  intros Eg M.
  rewrite (RainIrrR.irr_cum_update _ _ _ _ _ _ _ _ _ _ _ _ _ _ _ _ _ _ _ _ _ _ _ _ _ _ _ V Eg).
  rewrite (RainIrrR.irr_net_zero _ _ _ _ _ _ _ _ _ _ _ _ _ _ _ _ _ _ _ _ _ _ _ _ _ _ _ V M). lra.
Qed.
