(* DaySideP.v — the side conditions of the concrete day (DayConcreteP.DaySide) discharged from an invariant.

   [ParOK par crops]     static conditions on the parameter structures (profile, soil, managements, every crop);
   [WOK w]               condition on one weather record (ET0 >= 0);
   [DapOK .. gs dap]     condition on the clock value dap of the day (crop-age bound that keeps Kcb >= 0), see below;
   [StrongInv par crops season dap s]
                         the invariant of the physical state s, indexed by the clock values (season index, days after
                         planting BEFORE the day): DayInv + canopy envelope (with the canopy clock tied to dap and the delay
                         counters) + counters written by germination / root_development / transpiration.
   Theorems: [strong_dayinv], [strong_side] (DaySide for the day), [strong_step] (the invariant after the day, for the
   clock values Clock.day_step passes on: dap' = dap + 1 in the season, 0 outside), [strong_reset] (season reset,
   season index + 1 and dap = 0, exactly Clock.start_season), [strong_day] (C03 for the day from StrongInv alone),
   [strong_init_example] (non-vacuity).

   The only hypothesis about an intermediate value of the day that is left is [side_cap] (room for the capillary
   overshoot), and only when there is a water table (GroundwaterR.capillary_in_bounds_refuted). *)
From Coq Require Import List Bool ZArith.
From Flocq Require Import Core.
From AC Require Import Num RInst Params Kernels Clock Day DayConcrete.
From AC.Water Require RootZone RainIrr Infiltration Drainage Groundwater Evaporation Transpiration.
From AC.Crop Require Canopy Roots Yield.
From AC.proofs Require Import ProfR DayP DayConcreteP DaySideU.
From AC.proofs Require KernelsR CanopyR EvaporationR TranspirationR RootsR RainIrrR GroundwaterR YieldR.
Import ListNotations.
Local Open Scope R_scope.

#[local] Existing Instance YieldR.RTrig.

(* ============================================================================================================ *)
(*  inversion of the concrete processes not covered by DayConcreteP                                               *)
(* ============================================================================================================ *)
Lemma c_gd_inv a r : c_gd a = Some r ->
  growing_degree_day (gdA_method a) (gdA_tupp a) (gdA_tbase a) (gdA_tmax a) (gdA_tmin a) = Some (gdR_gdd r).
Proof. unfold c_gd. destruct (growing_degree_day _ _ _ _ _) as [g|]; intros [= <-]. reflexivity. Qed.

Lemma c_rd_inv crops p a r : c_rd crops p a = Some r -> exists zgw,
  Roots.root_development (root_crop (crops (c_id (rdA_crop a))) (rdA_crop a)) p (rdA_dap a) (rdA_zroot a) (rdA_dcd a) (rdA_gddcum a)
    (rdA_dgdd a) (rdA_trratio a) (rdA_th a) (rdA_cc a) (rdA_ccns a) (rdA_germ a) (rdA_rcor a) (rdA_tpot a) zgw (rdA_gdd a)
    (rdA_gs a) (rdA_wt a) = Some (rdR_zroot r, rdR_rcor r).
Proof.
  unfold c_rd, obind. destruct (zgw_of _ _) as [z|]; [|discriminate].
  destruct (Roots.root_development _ _ _ _ _ _ _ _ _ _ _ _ _ _ _ _ _ _) as [[z' r']|] eqn:E; intros [= <-]. exists z. exact E.
Qed.

Lemma c_rp_daysub p a r : c_rp p a = Some r -> rpR_daysub r = 0 \/ rpR_daysub r = IZR (Ztrunc (rpA_daysub a)).
Proof.
  unfold c_rp. destruct (RainIrr.rainfall_partition _ _ _ _ _ _ _ _ _ _ _ _) as [[[ro infl] ds]|] eqn:E; intros [= <-].
  cbn [rpR_daysub]. rnum. destruct (rainfall_partition_daysub _ _ _ _ _ _ _ _ _ _ _ _ _ _ _ E) as [-> | ->]; [left|right]; reflexivity.
Qed.

(* germination: the delay counter stays >= 0; in the season it advances by at most one day / the day's degree days *)
Lemma c_ge_facts p a r : c_ge p a = Some r -> (0 <= geA_dcd a)%Z ->
  (0 <= geR_dcd r)%Z /\
  (geA_gs a = true -> (geR_dcd r <= geA_dcd a + 1)%Z /\ (0 <= geA_gdd a -> geR_dgdd r <= geA_dgdd a + geA_gdd a)) /\
  (geA_gs a = false -> geR_dcd r = 0%Z /\ geR_dgdd r = 0).
Proof.
  unfold c_ge. destruct (Roots.germination _ _ _ _ _ _ _ _ _ _ _) as [g|] eqn:E; intros [= <-] H0.
  cbn [geR_dcd geR_dgdd]. revert E. unfold Roots.germination. destruct (geA_gs a).
  - destruct (geA_germ a).
    + intros [= <-]. cbn. split; [lia|]. split; [|discriminate]. intros _. split; [lia|]. intros; lra.
    + destruct (Roots.germ_loop _ _ _ _ _ _) as [w|]; [|discriminate].
      destruct (nleb _ _ _); intros [= <-]; cbn; rnum; (split; [lia|]); (split; [|discriminate]); intros _; (split; [lia|]); intros; lra.
  - intros [= <-]. cbn. rnum. split; [lia|]. split; [discriminate|]. intros _. split; reflexivity.
Qed.

Lemma c_cc_inv crops p a r : c_cc crops p a = Some r -> exists d1 d2 d3 d4 s',
  Canopy.canopy_cover (cf_can (crops (c_id (ccA_crop a)))) (canopy_state a) (ccA_dap a) (ccA_dcd a) (ccA_gddcum a) (ccA_dgdd a)
                      (ccA_gdd a) d1 d2 d3 d4 (ccA_et0 a) (ccA_gs a) = Some s' /\ r = canopy_result s'.
Proof.
  unfold c_cc. cbv zeta. destruct (ccA_gs a).
  - destruct (RootZone.root_zone_water _ _ _ _ _ _) as [rz|]; [|discriminate].
    destruct (Canopy.canopy_cover _ _ _ _ _ _ _ _ _ _ _ _ _) as [s'|] eqn:E; intros [= <-]. do 5 eexists. split; [exact E|reflexivity].
  - destruct (Canopy.canopy_cover _ _ _ _ _ _ _ _ _ _ _ _ _) as [s'|] eqn:E; intros [= <-]. do 5 eexists. split; [exact E|reflexivity].
Qed.

Lemma c_tr_inv2 crops p a r : c_tr crops p a = Some r ->
  exists o, Transpiration.transpiration p (trA_ztop a) (tr_crop (crops (c_id (trA_crop a))) (trA_crop a)) (trA_method a) (trA_smt a) (tr_state a)
                                         (trA_et0 a) (trA_co2c a) (trA_co2r a) (trA_gs a) (trA_gdd a) = Some o /\
            trR_trpot r = Transpiration.o_TrPot0 o /\
            trR_aer_comp r = Transpiration.s_aer_comp (Transpiration.o_state o) /\
            trR_day_sub r = Transpiration.s_day_sub (Transpiration.o_state o) /\
            trR_tr_ratio r = Transpiration.s_tr_ratio (Transpiration.o_state o) /\
            trR_cc r = Transpiration.s_cc (Transpiration.o_state o) /\
            trR_age_days r = Transpiration.s_age_days (Transpiration.o_state o) /\
            trR_age_days_ns r = Transpiration.s_age_days_ns (Transpiration.o_state o).
Proof.
  unfold c_tr. destruct (Transpiration.transpiration _ _ _ _ _ _ _ _ _ _ _) as [o|]; intros [= <-]. exists o. repeat split; reflexivity.
Qed.

(* ============================================================================================================ *)
(*  static conditions                                                                                             *)
(* ============================================================================================================ *)
(* the crop in force: [dc] is the record the orchestration hands over (sel_crop par k), [cf] = crops (c_id dc) the part
   only the processes read; co2c the season's CO2 concentration, co2r the reference concentration *)
Record CropOK (dc : DCrop R) (cf : CropFull R) (co2c co2r : R) : Prop := {
  co_can : CanopyR.crop_ok (cf_can cf);                     (* 0 < CC0 <= CCx <= 1, 0 < CGC, 0 <= CDC *)
  (* the catalogue obligation of CanopyR.step_ok for the LARGEST possible time step of a day: 1 day for calendar crops,
     Tupp - Tbase degree days for GDD crops (KernelsR.gdd_range) *)
  co_step : Canopy.k_CC0 (cf_can cf) *
            exp (Canopy.k_CGC (cf_can cf) * (if (Canopy.k_cal (cf_can cf) =? 1)%Z then 1 else c_Tupp dc - c_Tbase dc))
            <= Canopy.k_CCx (cf_can cf);
  co_temp : c_Tbase dc <= c_Tupp dc;
  co_root : RootsR.rc_ok (root_crop cf dc);                 (* 0 < Zmin <= Zmax, 0 < fshape_r, 0 <= p_up1 < 1, fshape_w1 <> 0 *)
  co_zmin_cm : RootsR.zmin_cm (c_Zmin dc);                  (* Zmin in whole centimetres *)
  co_rsxtop : 0 <= Roots.rc_SxTop (cf_root cf);
  co_rsxbot : 0 <= Roots.rc_SxBot (cf_root cf);
  co_sxtop : 0 <= Transpiration.k_SxTop (cf_tr cf);
  co_sxbot : 0 <= Transpiration.k_SxBot (cf_tr cf);
  co_lag : 1 < Transpiration.k_LagAer (cf_tr cf);
  co_lag_int : exists L : Z, Transpiration.k_LagAer (cf_tr cf) = IZR L;   (* LagAer is a number of days *)
  co_kcb : 0 <= Transpiration.k_Kcb (cf_tr cf);
  co_fage : 0 <= Transpiration.k_fage (cf_tr cf);
  co_co2 : co2c - co2r <= 20 * (550 - co2r) }.              (* the CO2 correction of Kcb stays a factor in [0,1] *)

Record ParOK (par : DPar R) (crops : Z -> CropFull R) : Prop := {
  po_wf : wf_prof (so_prof (p_soil par));
  po_geom : TranspirationR.geom 0 (so_prof (p_soil par));                 (* dzsum is the running sum of dz *)
  po_layers : TranspirationR.layers_ok (so_prof (p_soil par));            (* compartments of a layer share th_wp / th_fc *)
  po_pen : RootsR.pen_ok (so_prof (p_soil par));                          (* penetrabilities are percentages *)
  po_kex : 0 <= so_kex (p_soil par);
  po_fwcc : 0 <= so_fwcc (p_soil par) <= 100;
  po_mulch : 0 <= f_f_mulch (p_field par) <= 1 /\ 0 <= f_mulch_pct (p_field par) <= 100;
  po_mulch_f : 0 <= f_f_mulch (p_fallow_field par) <= 1 /\ 0 <= f_mulch_pct (p_fallow_field par) <= 100;
  po_wet : 0 <= i_WetSurf (p_irr par);
  po_wet_f : 0 <= i_WetSurf (p_fallow_irr par);
  po_co2r : p_co2r par < 550;
  (* every season k; a negative k selects the filler crop (Zmin = 0.3, Aer = 5 stored by the orchestration) *)
  po_crop : forall k, CropOK (sel_crop par k) (crops (c_id (sel_crop par k))) (p_co2c par k) (p_co2r par);
  (* the CC0 the season reset stores into cc0_adj is the CC0 the canopy process reads *)
  po_cc0 : forall k, (0 <= k)%Z -> 0 <= c_CC0 (p_crop par k) <= Canopy.k_CC0 (cf_can (crops (c_id (p_crop par k)))) }.

Record WOK (w : Day.W R) : Prop := { wo_et0 : 0 <= w_et0 w }.    (* prepare_weather clips ET0 at 0.1 *)

(* Per-day condition on the CLOCK value dap (days after planting of the day, already incremented): the age reduction of
   the crop coefficient, Kcb - (age - 5) * fage/100 * CCxW with age <= dap - MaxCanopyCD, stays non-negative.  It is a
   bound on the length of the season: dap <= MaxCanopyCD + 5 + 100 * Kcb / fage.  Without it TrPot < 0 is reachable. *)
Definition DapOK (par : DPar R) (crops : Z -> CropFull R) (season : Z) (gs : bool) (dap : Z) : Prop :=
  gs = true ->
  let k := cf_tr (crops (c_id (sel_crop par season))) in
  (IZR dap - Transpiration.k_MaxCanopyCD k - 5) * (Transpiration.k_fage k / 100) <= Transpiration.k_Kcb k.

Lemma DapOK_bound par crops season gs dap D : ParOK par crops -> (dap <= D)%Z ->
  (let k := cf_tr (crops (c_id (sel_crop par season))) in
   (IZR D - Transpiration.k_MaxCanopyCD k - 5) * (Transpiration.k_fage k / 100) <= Transpiration.k_Kcb k) ->
  DapOK par crops season gs dap.
Proof.
  intros P Hd H _. cbv zeta in *. pose proof (co_fage _ _ _ _ (po_crop _ _ P season)) as Hf.
  eapply Rle_trans; [|exact H]. apply Rmult_le_compat_r; [lra|]. apply IZR_le in Hd. lra.
Qed.

(* ============================================================================================================ *)
(*  the invariant                                                                                                 *)
(* ============================================================================================================ *)
(* the canopy clock tCCadj as the state and the clock determine it *)
Definition tnow (k : @Canopy.CropC R) (dap : Z) (s : DState R) : R :=
  CanopyR.tcc_of k dap (d_delayed_cds s) (d_gdd_cum s) (d_delayed_gdds s).

(* CanopyR.canopy_inv on the fields of the day state, plus the ranges of ccx_w / ccx_w_ns *)
Record CanInv (k : @Canopy.CropC R) (t0 : R) (s : DState R) : Prop := {
  cv_cc : 0 <= d_canopy_cover s <= Canopy.k_CCx k;
  cv_cc_ns : 0 <= d_canopy_cover_ns s <= Canopy.k_CCx k;
  cv_ccx_act_ns : 0 <= d_ccx_act_ns s <= Canopy.k_CCx k;
  cv_cc0_adj : 0 <= d_cc0_adj s <= Canopy.k_CC0 k;
  cv_ccx_act : CanopyR.ccx_inv k t0 (d_ccx_act s);
  cv_ccx_w : 0 <= d_ccx_w s <= Canopy.k_CCx k;
  cv_ccx_w_ns : 0 <= d_ccx_w_ns s <= Canopy.k_CCx k }.

(* [season], [dap]: the clock's season index and days-after-planting counter BEFORE the day (Clock.St) *)
Record StrongInv (par : DPar R) (crops : Z -> CropFull R) (season dap : Z) (s : DState R) : Prop := {
  si_day : DayInv par s;
  si_season : (-1 <= season)%Z;
  si_dap : (0 <= dap)%Z;
  si_can : CanInv (cf_can (crops (c_id (sel_crop par season)))) (tnow (cf_can (crops (c_id (sel_crop par season)))) dap s) s;
  si_age : (d_age_days s - 5) * (Transpiration.k_fage (cf_tr (crops (c_id (sel_crop par season)))) / 100)
           <= Transpiration.k_Kcb (cf_tr (crops (c_id (sel_crop par season))));
  si_age_ns : (d_age_days_ns s - 5) * (Transpiration.k_fage (cf_tr (crops (c_id (sel_crop par season)))) / 100)
              <= Transpiration.k_Kcb (cf_tr (crops (c_id (sel_crop par season))));
  si_dcd : (0 <= d_delayed_cds s)%Z;
  si_rcor : 0 <= d_r_cor s;
  si_zroot : dap <> 0%Z -> c_Zmin (sel_crop par season) <= d_z_root s;     (* after an in-season day the roots are below Zmin *)
  si_trratio : 0 <= d_tr_ratio s <= 1;
  si_aer : Forall (fun a => 0 <= a) (d_aer_days_comp s);
  si_daysub : nonneg_int (d_day_submerged s) }.

Theorem strong_dayinv par crops season dap s : StrongInv par crops season dap s -> DayInv par s.
Proof. apply si_day. Qed.

(* ============================================================================================================ *)
(*  one concrete day                                                                                              *)
(* ============================================================================================================ *)
Section StrongDay.
  Variables (par : DPar R) (crops : Z -> CropFull R) (season : Z) (gs : bool) (dap0 dap tsc : Z) (w : Day.W R) (s : DState R).
  Variable Rs : Results R.
  Let x := ctx par season gs dap tsc w s.
  Let PO := procs_concrete crops.
  Let prof := so_prof (p_soil par).
  Let dc := sel_crop par season.
  Let cf := crops (c_id dc).
  Let kc := cf_can cf.
  Let kt := tr_crop cf dc.
  Let tr := trace_of x Rs.
  Hypothesis HR : results_opt x PO = Some Rs.
  Hypothesis POK : ParOK par crops.
  Hypothesis WK : WOK w.
  Hypothesis DK : DapOK par crops season gs dap.
  Hypothesis SI : StrongInv par crops season dap0 s.
  (* the value Clock.day_step passes: incremented in the season, 0 outside *)
  Hypothesis Hdap : dap = if gs then (dap0 + 1)%Z else 0%Z.

  Let SO : SpecO x PO Rs := results_opt_spec _ _ _ HR.
  Let CK : CropOK dc cf (p_co2c par season) (p_co2r par) := po_crop _ _ POK season.

  (* ---- the day's degree days -------------------------------------------------------------------------------- *)
  Lemma sd_gdd : 0 <= rs_gdd Rs /\ (gs = true -> rs_gdd Rs <= c_Tupp dc - c_Tbase dc).
  Proof.
    pose proof (so_gdd _ _ _ SO) as H. cbn [x_gs x ctx] in H. destruct (Sumbool.sumbool_of_bool gs) as [G|G]; rewrite G in H.
    - destruct H as (g & Eg & ->). apply c_gd_inv in Eg.
      pose proof (KernelsR.gdd_range _ _ _ _ _ _ (co_temp _ _ _ _ CK) Eg) as Hr. split; [lra|]. intros _. apply Hr.
    - rewrite H. split; [lra|]. intros G'. rewrite G in G'. discriminate.
  Qed.

  (* ---- germination ------------------------------------------------------------------------------------------- *)
  Lemma sd_ge : (0 <= geR_dcd (rs_ge Rs))%Z /\
                (gs = true -> (geR_dcd (rs_ge Rs) <= d_delayed_cds s + 1)%Z /\ geR_dgdd (rs_ge Rs) <= d_delayed_gdds s + rs_gdd Rs) /\
                (gs = false -> geR_dcd (rs_ge Rs) = 0%Z /\ geR_dgdd (rs_ge Rs) = 0).
  Proof.
    pose proof (c_ge_facts _ _ _ (so_ge _ _ _ SO) (si_dcd _ _ _ _ _ SI)) as (H1 & H2 & H3).
    cbn [t_ge trace_of arg_ge geA_gs geA_dcd geA_dgdd geA_gdd x_gs x_s x ctx] in H2, H3.
    split; [exact H1|]. split; [|exact H3]. intros G. destruct (H2 G) as [A B]. split; [exact A|]. apply B. apply sd_gdd.
  Qed.

  (* ---- root development -------------------------------------------------------------------------------------- *)
  Lemma sd_rd : 0 <= rdR_rcor (rs_rd Rs) /\ (gs = true -> c_Zmin dc <= rdR_zroot (rs_rd Rs)).
  Proof.
    destruct (c_rd_inv _ _ _ _ (so_rd _ _ _ SO)) as (zgw & E).
    cbn [t_rd trace_of arg_rd rdA_crop rdA_dap rdA_zroot rdA_dcd rdA_gddcum rdA_dgdd rdA_trratio rdA_th rdA_cc rdA_ccns rdA_germ
         rdA_rcor rdA_tpot rdA_gdd rdA_gs rdA_wt x_crop x_par x_season x_dap x_gs x_s x ctx x_prof x_soil] in E.
    fold dc in E. fold cf in E.
    pose proof (co_root _ _ _ _ CK) as Hrc.
    apply (root_development_side _ _ _ _ _ _ _ _ _ _ _ _ _ _ _ _ _ _ _ _ Hrc) in E.
    - exact E.
    - exact (co_zmin_cm _ _ _ _ CK).
    - exact (po_wf _ _ POK).
    - exact (po_pen _ _ POK).
    - exact (co_rsxtop _ _ _ _ CK).
    - exact (co_rsxbot _ _ _ _ CK).
    - exact (si_trratio _ _ _ _ _ SI).
    - apply sd_gdd.
    - exact (si_rcor _ _ _ _ _ SI).
    - intros G Hd1. cbn [root_crop Roots.rc_Zmin]. apply (si_zroot _ _ _ _ _ SI). rewrite G in Hdap. lia.
  Qed.

  (* ---- rainfall partition: day_submerged stays a non-negative integer ----------------------------------------- *)
  Lemma sd_rp : nonneg_int (rpR_daysub (rs_rp Rs)).
  Proof.
    destruct (c_rp_daysub _ _ _ (so_rp _ _ _ SO)) as [-> | ->]; [apply nonneg_int_0|].
    cbn [t_rp trace_of arg_rp rpA_daysub x_s x ctx]. rewrite (Ztrunc_nonneg_int _ (si_daysub _ _ _ _ _ SI)).
    exact (si_daysub _ _ _ _ _ SI).
  Qed.

  (* ---- canopy cover ------------------------------------------------------------------------------------------ *)
  Let cst := canopy_state (t_cc tr).
  Lemma sd_cst_inv : CanopyR.canopy_inv kc (tnow kc dap0 s) cst.
  Proof.
    destruct (si_can _ _ _ _ _ SI) as [A B C D E _ _]. fold dc cf kc in A, B, C, D, E.
    constructor; cbn [cst canopy_state t_cc tr trace_of arg_cc Canopy.s_cc Canopy.s_cc_ns Canopy.s_ccx_act_ns Canopy.s_cc0_adj
                      Canopy.s_ccx_act ccA_cc ccA_cc_ns ccA_ccx_act_ns ccA_cc0_adj ccA_ccx_act x_s x ctx]; assumption.
  Qed.

  (* the day's canopy clock *)
  Let tday : R := CanopyR.tcc_of kc dap (geR_dcd (rs_ge Rs)) (gdd_cum_of x (rs_gdd Rs)) (geR_dgdd (rs_ge Rs)).

  Lemma sd_step : gs = true -> CanopyR.step_ok kc (CanopyR.dt_of kc (rs_gdd Rs)) /\ tnow kc dap0 s <= tday.
  Proof.
    intros G. destruct sd_gdd as [Hg0 Hg1]. specialize (Hg1 G). destruct sd_ge as (_ & Hge & _). destruct (Hge G) as [Hd1 Hd2].
    pose proof (co_can _ _ _ _ CK) as [H0 H0x Hx1 Hgc Hd]. pose proof (co_step _ _ _ _ CK) as Hst. fold kc in Hst, H0, H0x, Hx1, Hgc, Hd.
    split.
    - unfold CanopyR.step_ok, CanopyR.dt_of. destruct (Canopy.k_cal kc =? 1)%Z; [split; [lra|exact Hst]|].
      split; [exact Hg0|]. eapply Rle_trans; [|exact Hst]. apply Rmult_le_compat_l; [lra|]. apply exp_mono.
      apply Rmult_le_compat_l; lra.
    - unfold tday, tnow, CanopyR.tcc_of, gdd_cum_of. cbn [x_gs x_s x ctx]. rewrite G. rewrite G in Hdap.
      destruct (Canopy.k_cal kc =? 1)%Z; [apply IZR_le; lia|]. rnum. lra.
  Qed.

  Lemma sd_cc : exists s', rs_cc Rs = canopy_result s' /\
    (if gs then CanopyR.canopy_inv kc tday s' else forall t, CanopyR.canopy_inv kc t s') /\
    0 <= Canopy.s_ccx_w s' <= Canopy.k_CCx kc /\ 0 <= Canopy.s_ccx_w_ns s' <= Canopy.k_CCx kc /\
    0 <= Canopy.s_cc_adj s' /\ 0 <= Canopy.s_cc_adj_ns s' /\ Canopy.s_cc_prev s' = d_canopy_cover s.
  Proof.
    destruct (c_cc_inv _ _ _ _ (so_cc _ _ _ SO)) as (d1 & d2 & d3 & d4 & s' & E & Er).
    cbn [t_cc trace_of arg_cc ccA_crop ccA_dap ccA_dcd ccA_gddcum ccA_dgdd ccA_gdd ccA_et0 ccA_gs x_crop x_par x_season x_dap x_gs x_w x ctx] in E.
    fold x tr in E. fold dc in E. fold cf in E. fold kc in E. change (canopy_state (t_cc tr)) with cst in E || idtac.
    exists s'. split; [exact Er|].
    destruct (si_can _ _ _ _ _ SI) as [_ _ _ _ _ Hw Hwn]. fold dc cf kc in Hw, Hwn.
    pose proof (CanopyR.canopy_inv_step _ _ _ _ _ _ _ _ _ _ _ _ _ _ _ (co_can _ _ _ _ CK) sd_cst_inv sd_step E) as Hs.
    split; [exact Hs|].
    exact (canopy_cover_ext _ _ _ _ _ _ _ _ _ _ _ _ _ _ _ (co_can _ _ _ _ CK) sd_cst_inv Hw Hwn sd_step E).
  Qed.

  Lemma kcc_le1 : Canopy.k_CCx kc <= 1.
  Proof. exact (CanopyR.ck_CCx _ (co_can _ _ _ _ CK)). Qed.

  (* ---- side_espot -------------------------------------------------------------------------------------------- *)
  Lemma side_espot_from_inv : 0 <= evR_espot (rs_ev Rs).
  Proof.
    destruct (u_ev _ _ _ _ _ _ _ _ _ HR) as (o & E & _ & _ & _ & ->).
    refine (proj1 (EvaporationR.espot_nonneg _ _ _ _ _ _ _ _ _ _ _ E)).
    destruct sd_cc as (s' & Er & _ & Hw & _). pose proof kcc_le1 as H1.
    constructor; cbn [ev_par ev_state t_ev trace_of arg_ev Evaporation.ep_kex Evaporation.ep_fwcc Evaporation.es_ccxw Evaporation.ep_fmulch
                      Evaporation.ep_mulchpct Evaporation.ep_wetsurf evA_kex evA_fwcc evA_ccxw evA_fmulch evA_mulchpct evA_wetsurf
                      x_soil x_par x_irr x_field x_season x_gs x ctx].
    - exact (wo_et0 _ WK).
    - exact (po_kex _ _ POK).
    - exact (po_fwcc _ _ POK).
    - rewrite Er. cbn [canopy_result ccR_ccx_w]. lra.
    - unfold x_field, sel_field. cbn [x_par x_season x_gs ctx].
      destruct (0 <=? season)%Z; [case gs|]; first [apply (po_mulch _ _ POK) | apply (po_mulch_f _ _ POK)].
    - unfold x_field, sel_field. cbn [x_par x_season x_gs ctx].
      destruct (0 <=? season)%Z; [case gs|]; first [apply (po_mulch _ _ POK) | apply (po_mulch_f _ _ POK)].
    - unfold x_irr, sel_irr. cbn [x_par x_season ctx]. destruct (0 <=? season)%Z; [apply (po_wet _ _ POK) | apply (po_wet_f _ _ POK)].
  Qed.

  (* ---- side_layers ------------------------------------------------------------------------------------------- *)
  Lemma side_layers_from_par : i_method (sel_irr par season) = 4%Z -> TranspirationR.layers_ok prof.
  Proof. intros _. exact (po_layers _ _ POK). Qed.

  (* ---- side_trwf --------------------------------------------------------------------------------------------- *)
  Lemma side_trwf_from_inv : TranspirationR.tr_wf prof kt (tr_state (t_tr tr)).
  Proof.
    destruct (co_lag_int _ _ _ _ CK) as (L & HL). pose proof (co_root _ _ _ _ CK) as Hrc.
    constructor; cbn [kt tr_crop tr_state t_tr tr trace_of arg_tr Transpiration.k_SxTop Transpiration.k_SxBot Transpiration.s_r_cor
                      Transpiration.k_Zmin Transpiration.k_LagAer Transpiration.s_aer_comp Transpiration.s_day_sub
                      trA_rcor trA_aer_comp trA_day_sub x_s x ctx].
    - exact (po_wf _ _ POK).
    - exact (po_geom _ _ POK).
    - exact (co_sxtop _ _ _ _ CK).
    - exact (co_sxbot _ _ _ _ CK).
    - apply sd_rd.
    - pose proof (RootsR.ok_zmin _ Hrc) as H. cbn [root_crop Roots.rc_Zmin] in H. lra.
    - exact (co_lag _ _ _ _ CK).
    - exact (si_aer _ _ _ _ _ SI).
    - apply nonneg_int_ge0, sd_rp.
    - rewrite HL. apply nonneg_int_step, sd_rp.
  Qed.

  (* ---- side_trpot -------------------------------------------------------------------------------------------- *)
  Lemma sd_dcd_R : 0 <= IZR (geR_dcd (rs_ge Rs)).
  Proof. apply IZR_le. apply sd_ge. Qed.

  Lemma side_trpot_from_inv : 0 <= trR_trpot (rs_tr Rs).
  Proof.
    destruct (Sumbool.sumbool_of_bool gs) as [G|G].
    - destruct (u_tr _ _ _ _ _ _ _ _ _ HR) as (o & E & _ & _ & _ & _ & ->).
      destruct sd_cc as (s' & Er & _ & Hw & Hwn & Ha & Han & _). pose proof kcc_le1 as H1.
      refine (proj1 (TranspirationR.trpot_nonneg _ _ _ _ _ _ _ _ _ _ _ _ (wo_et0 _ WK) _ _ _ _ E));
        cbn [tr_state t_tr trace_of arg_tr Transpiration.s_cc_adj Transpiration.s_cc_adj_ns Transpiration.s_dap Transpiration.s_delayed_cds
             Transpiration.s_age_days Transpiration.s_age_days_ns Transpiration.s_ccx_w Transpiration.s_ccx_w_ns
             trA_cc_adj trA_cc_adj_ns trA_dap trA_dcd trA_age_days trA_age_days_ns trA_ccx_w trA_ccx_w_ns x_dap x_s x ctx];
        rewrite ?Er; cbn [canopy_result ccR_cc_adj ccR_cc_adj_ns ccR_ccx_w ccR_ccx_w_ns]; try assumption.
      + fold dc cf. cbn [tr_crop Transpiration.k_MaxCanopyCD].
        apply tr_kcb_nonneg_age; cbn [tr_crop Transpiration.k_Kcb Transpiration.k_fage];
          [exact (co_kcb _ _ _ _ CK) | exact (co_fage _ _ _ _ CK) | | lra | exact (po_co2r _ _ POK) | exact (co_co2 _ _ _ _ CK)].
        rnum. apply tr_age_bound; [exact (co_fage _ _ _ _ CK) | exact sd_dcd_R | exact (si_age _ _ _ _ _ SI) | exact (DK G)].
      + fold dc cf. cbn [tr_crop Transpiration.k_MaxCanopyCD].
        apply tr_kcb_nonneg_age; cbn [tr_crop Transpiration.k_Kcb Transpiration.k_fage];
          [exact (co_kcb _ _ _ _ CK) | exact (co_fage _ _ _ _ CK) | | lra | exact (po_co2r _ _ POK) | exact (co_co2 _ _ _ _ CK)].
        rnum. apply tr_age_bound; [exact (co_fage _ _ _ _ CK) | exact sd_dcd_R | exact (si_age_ns _ _ _ _ _ SI) | exact (DK G)].
    - pose proof (so_tr _ _ _ SO) as S13. cbn [PO procs_concrete po_tr] in S13.
      destruct (c_tr_off _ _ (t_tr (trace_of x Rs)) _ G S13) as (_ & -> & _). lra.
  Qed.

  (* ---- DaySide ------------------------------------------------------------------------------------------------ *)
  Hypothesis Cap : p_water_table par = 1%Z ->
    Forall2 (fun c a => c_th_fc c <= a /\ a + GroundwaterR.eps4 <= c_th_s c) prof (gwR_fcadj (rs_gw Rs)).

  Lemma sd_side : DaySide par crops season gs dap tsc w s Rs.
  Proof.
    constructor.
    - exact Cap.
    - exact side_espot_from_inv.
    - exact side_trpot_from_inv.
    - exact side_trwf_from_inv.
    - exact side_layers_from_par.
  Qed.

  (* ---- the invariant after the day ------------------------------------------------------------------------------ *)
  Lemma sd_dap_nonneg : (0 <= dap)%Z.
  Proof. pose proof (si_dap _ _ _ _ _ SI). rewrite Hdap. case gs; lia. Qed.

  Lemma sd_tr : Forall (fun a => 0 <= a) (trR_aer_comp (rs_tr Rs)) /\ nonneg_int (trR_day_sub (rs_tr Rs)) /\
                0 <= trR_tr_ratio (rs_tr Rs) <= 1 /\
                (trR_cc (rs_tr Rs) = ccR_cc (rs_cc Rs) \/ trR_cc (rs_tr Rs) = ccR_cc_prev (rs_cc Rs)) /\
                trR_age_days (rs_tr Rs) = (if gs then Transpiration.tr_age (IZR dap) (IZR (geR_dcd (rs_ge Rs)))
                                                       (Transpiration.k_MaxCanopyCD (cf_tr cf)) (d_age_days s) else d_age_days s) /\
                trR_age_days_ns (rs_tr Rs) = (if gs then Transpiration.tr_age (IZR dap) (IZR (geR_dcd (rs_ge Rs)))
                                                          (Transpiration.k_MaxCanopyCD (cf_tr cf)) (d_age_days_ns s) else d_age_days_ns s).
  Proof.
    pose proof (so_tr _ _ _ SO) as S13. cbn [PO procs_concrete po_tr] in S13.
    destruct (c_tr_inv2 _ _ _ _ S13) as (o & E & _ & -> & -> & -> & -> & -> & ->).
    cbn [t_tr trace_of arg_tr trA_crop trA_gs x_crop x_par x_season x_gs x ctx] in E. fold x tr in E. fold dc in E. fold cf in E.
    assert (H := fun A B C D => transpiration_counters _ _ _ _ _ _ _ _ _ _ _ _ A B C D E).
    cbn [tr_crop Transpiration.k_LagAer Transpiration.k_MaxCanopyCD tr_state t_tr tr trace_of arg_tr Transpiration.s_aer_comp
         Transpiration.s_day_sub Transpiration.s_tr_ratio Transpiration.s_cc Transpiration.s_cc_prev Transpiration.s_dap
         Transpiration.s_delayed_cds Transpiration.s_age_days Transpiration.s_age_days_ns
         trA_aer_comp trA_day_sub trA_tr_ratio trA_cc trA_cc_prev trA_dap trA_dcd trA_age_days trA_age_days_ns x_dap x_s x ctx] in H.
    rnum. apply H.
    - exact (co_lag _ _ _ _ CK).
    - exact (si_aer _ _ _ _ _ SI).
    - exact sd_rp.
    - exact (si_trratio _ _ _ _ _ SI).
  Qed.

  Lemma sd_inv_after : StrongInv par crops season dap (state_of x Rs).
  Proof.
    destruct sd_cc as (s' & Er & Hs & Hw & Hwn & _ & _ & Hprev).
    destruct sd_tr as (Ta & Td & Tr & Tc & Tg & Tgn).
    pose proof (co_can _ _ _ _ CK) as Hk. fold kc in Hk.
    constructor.
    - exact (inv_after _ _ _ _ _ _ _ _ _ HR (si_day _ _ _ _ _ SI) sd_side).
    - exact (si_season _ _ _ _ _ SI).
    - exact sd_dap_nonneg.
    - fold dc cf kc.
      assert (Hs' : CanopyR.canopy_inv kc (tnow kc dap (state_of x Rs)) s').
      { destruct (Sumbool.sumbool_of_bool gs) as [G|G]; rewrite G in Hs; [|apply Hs].
        replace (tnow kc dap (state_of x Rs)) with tday; [exact Hs|].
        unfold tnow, tday. cbn [state_of d_delayed_cds d_gdd_cum d_delayed_gdds]. reflexivity. }
      destruct Hs' as [A B C D E].
      constructor; cbn [state_of d_canopy_cover d_canopy_cover_ns d_ccx_act_ns d_cc0_adj d_ccx_act d_ccx_w d_ccx_w_ns];
        rewrite ?Er; cbn [canopy_result ccR_cc_ns ccR_ccx_act_ns ccR_cc0_adj ccR_ccx_act ccR_ccx_w ccR_ccx_w_ns]; try assumption.
      destruct Tc as [-> | ->]; rewrite Er; cbn [canopy_result ccR_cc ccR_cc_prev]; [exact A|].
      rewrite Hprev. exact (cv_cc _ _ _ (si_can _ _ _ _ _ SI)).
    - cbn [state_of d_age_days]. fold dc cf. rewrite Tg.
      destruct (Sumbool.sumbool_of_bool gs) as [G|G]; rewrite G; [|exact (si_age _ _ _ _ _ SI)].
      apply tr_age_bound; [exact (co_fage _ _ _ _ CK) | exact sd_dcd_R | exact (si_age _ _ _ _ _ SI) | exact (DK G)].
    - cbn [state_of d_age_days_ns]. fold dc cf. rewrite Tgn.
      destruct (Sumbool.sumbool_of_bool gs) as [G|G]; rewrite G; [|exact (si_age_ns _ _ _ _ _ SI)].
      apply tr_age_bound; [exact (co_fage _ _ _ _ CK) | exact sd_dcd_R | exact (si_age_ns _ _ _ _ _ SI) | exact (DK G)].
    - cbn [state_of d_delayed_cds]. apply sd_ge.
    - cbn [state_of d_r_cor]. apply sd_rd.
    - cbn [state_of d_z_root]. intros Hd. apply sd_rd. destruct (Sumbool.sumbool_of_bool gs) as [G|G]; [exact G|]. rewrite G in Hdap. contradiction.
    - cbn [state_of d_tr_ratio]. exact Tr.
    - cbn [state_of d_aer_days_comp]. exact Ta.
    - cbn [state_of d_day_submerged]. exact Td.
  Qed.
End StrongDay.

(* ============================================================================================================ *)
(*  the target statements                                                                                         *)
(* ============================================================================================================ *)
(* [dap0] is the clock's counter before the day; the day runs with [dap_of gs dap0] (Clock.day_step) *)
Definition dap_of (gs : bool) (dap0 : Z) : Z := if gs then (dap0 + 1)%Z else 0%Z.

Definition CapOK (par : DPar R) (Rs : Results R) : Prop :=
  p_water_table par = 1%Z ->
  Forall2 (fun c a => c_th_fc c <= a /\ a + GroundwaterR.eps4 <= c_th_s c) (so_prof (p_soil par)) (gwR_fcadj (rs_gw Rs)).

Theorem strong_side par crops season gs dap0 tsc w s Rs :
  ParOK par crops -> WOK w -> DapOK par crops season gs (dap_of gs dap0) -> StrongInv par crops season dap0 s ->
  results_opt (ctx par season gs (dap_of gs dap0) tsc w s) (procs_concrete crops) = Some Rs ->
  CapOK par Rs ->
  DaySide par crops season gs (dap_of gs dap0) tsc w s Rs.
Proof. intros P Wk D S H C. exact (sd_side par crops season gs dap0 _ tsc w s Rs H P Wk D S eq_refl C). Qed.

Theorem strong_step par crops season gs dap0 tsc w s Rs :
  ParOK par crops -> WOK w -> DapOK par crops season gs (dap_of gs dap0) -> StrongInv par crops season dap0 s ->
  results_opt (ctx par season gs (dap_of gs dap0) tsc w s) (procs_concrete crops) = Some Rs ->
  CapOK par Rs ->
  StrongInv par crops season (dap_of gs dap0) (state_of (ctx par season gs (dap_of gs dap0) tsc w s) Rs).
Proof. intros P Wk D S H C. exact (sd_inv_after par crops season gs dap0 _ tsc w s Rs H P Wk D S eq_refl C). Qed.

(* without a water table nothing about the day's intermediate values is assumed *)
Lemma CapOK_no_table par Rs : p_water_table par <> 1%Z -> CapOK par Rs.
Proof. intros H E. contradiction. Qed.

(* the season reset: Clock.start_season (season + 1) sets dap := 0 and resets the state for the next season *)
Theorem strong_reset par crops season dap ws s :
  ParOK par crops -> StrongInv par crops season dap s ->
  StrongInv par crops (season + 1) 0 (reset par (season + 1) ws s).
Proof.
  intros P S. pose proof (si_season _ _ _ _ _ S) as Hs.
  assert (Hsel : sel_crop par (season + 1) = p_crop par (season + 1)).
  { unfold sel_crop. destruct (Z.leb_spec 0 (season + 1)); [reflexivity|lia]. }
  pose proof (po_crop _ _ P (season + 1)) as CK. rewrite Hsel in *.
  pose proof (co_can _ _ _ _ CK) as Hk. pose proof Hk as [H0 H0x Hx1 Hg Hd].
  constructor.
  - apply reset_inv_preserved. exact (si_day _ _ _ _ _ S).
  - lia.
  - lia.
  - rewrite Hsel.
    constructor; cbn [reset d_canopy_cover d_canopy_cover_ns d_ccx_act_ns d_cc0_adj d_ccx_act d_ccx_w d_ccx_w_ns]; rnum; try lra.
    + apply (po_cc0 _ _ P). lia.
    + apply CanopyR.ccx_inv_le; [exact Hk | lra].
  - rewrite Hsel. cbn [reset d_age_days]. rnum. pose proof (co_kcb _ _ _ _ CK). pose proof (co_fage _ _ _ _ CK). nra.
  - rewrite Hsel. cbn [reset d_age_days_ns]. rnum. pose proof (co_kcb _ _ _ _ CK). pose proof (co_fage _ _ _ _ CK). nra.
  - cbn [reset d_delayed_cds]. lia.
  - cbn [reset d_r_cor]. rnum. lra.
  - intros H. contradiction H. reflexivity.
  - cbn [reset d_tr_ratio]. rnum. lra.
  - cbn [reset d_aer_days_comp]. rnum. induction (Z.to_nat (so_nComp (p_soil par))); cbn [repeat]; constructor; [lra|assumption].
  - cbn [reset d_day_submerged]. rnum. apply nonneg_int_0.
Qed.

(* C03 for one concrete day from the invariant alone: bounds, and the invariant again *)
Theorem strong_day par crops season gs dap0 tsc w s s' row :
  ParOK par crops -> WOK w -> DapOK par crops season gs (dap_of gs dap0) -> StrongInv par crops season dap0 s ->
  day_proc_opt par (procs_concrete crops) season gs (dap_of gs dap0) tsc w s = Some (s', row) ->
  (forall Rs, results_opt (ctx par season gs (dap_of gs dap0) tsc w s) (procs_concrete crops) = Some Rs -> CapOK par Rs) ->
  let prof := so_prof (p_soil par) in
  in_bounds prof (d_th s') /\ 0 <= d_surface_storage s' <= zb_of (sel_field par season gs) /\
  in_bounds prof (st_th (r_sto row)) /\ fl_surf (r_flux row) = d_surface_storage s' /\
  StrongInv par crops season (dap_of gs dap0) s'.
Proof.
  intros P Wk D S H C. cbv zeta.
  destruct (day_proc_opt_total _ _ _ _ _ _ _ _ _ _ H) as (_ & Rs & HR & _ & Es & Er).
  assert (B := day_bounds_concrete par crops season gs (dap_of gs dap0) tsc w s s' row (si_day _ _ _ _ _ S) H
                 (fun Rs' HR' => strong_side _ _ _ _ _ _ _ _ _ P Wk D S HR' (C Rs' HR'))).
  cbv zeta in B. destruct B as (B1 & B2 & B3 & B4 & _).
  split; [exact B1|]. split; [exact B2|]. split; [exact B3|]. split; [exact B4|].
  rewrite Es. exact (strong_step _ _ _ _ _ _ _ _ _ P Wk D S HR (C Rs HR)).
Qed.

(* ============================================================================================================ *)
(*  non-vacuity: a concrete parameter set and a concrete mid-season state                                          *)
(* ============================================================================================================ *)
(* two-layer soil of TranspirationR (four 0.1 m compartments), the canopy crop CanopyR.kw (calendar mode), the wheat
   roots of RootsR, the transpiration constants of TranspirationR.ex_k, maize yield constants; net irrigation
   (method 4, 80 % target), mulches, bunds; state: day 40 of season 0, canopy 30 %, two days of delayed germination,
   roots at 0.5 m, one day submerged *)
Module Ex.
  Definition scrop : Yield.SCrop (F:=R) :=
    {| Yield.s_Zmin := 3/10; Yield.s_Aer := 5; Yield.s_pu0 := 20/100; Yield.s_pu1 := 65/100; Yield.s_pu2 := 70/100; Yield.s_pu3 := 85/100;
       Yield.s_pl0 := 65/100; Yield.s_pl1 := 1; Yield.s_pl2 := 1; Yield.s_pl3 := 1; Yield.s_ETadj := 1; Yield.s_beta := 12;
       Yield.s_fs0 := 5; Yield.s_fs1 := 25/10; Yield.s_fs2 := 25/10; Yield.s_PolHeat := 1; Yield.s_PolCold := 1;
       Yield.s_Tmax_lo := 35; Yield.s_Tmax_up := 40; Yield.s_Tmin_lo := 5; Yield.s_Tmin_up := 10; Yield.s_fshape_b := 13 |}.
  Definition cfull : CropFull R :=
    {| cf_root := RootsR.ex_crop; cf_can := CanopyR.kw; cf_y := YieldR.maize; cf_s := scrop; cf_tr := TranspirationR.ex_k;
       cf_c10 := 20; cf_maxcan := 60 |}.
  Definition crops : Z -> CropFull R := fun _ => cfull.
  Definition dcrop : DCrop R :=
    {| c_id := 0; c_GDDmethod := 3; c_Tupp := 30; c_Tbase := 8; c_GermThr := 2/10; c_PlantMethod := 1; c_CalendarType := 1;
       c_Senescence := 20; c_YldWC := 90; c_Maturity := 100; c_Zmin := 3/10; c_Aer := 5; c_CC0 := 1/100; c_HI0 := 48/100 |}.
  Definition irr : DIrr R :=
    {| i_id := 0; i_method := 4; i_SMT := [100; 100; 100; 100]; i_AppEff := 100; i_MaxIrr := 25; i_IrrInterval := 3; i_Schedule := [];
       i_depth := 0; i_MaxIrrSeason := 10000; i_NetIrrSMT := 80; i_WetSurf := 100 |}.
  Definition field : DField R :=
    {| f_id := 0; f_sr_inhb := false; f_bunds := true; f_z_bund := 2/10; f_cn_adj := true; f_cn_adj_pct := 0;
       f_mulches := true; f_f_mulch := 1/2; f_mulch_pct := 50; f_bund_water := 1/100 |}.
  Definition soil : DSoil R :=
    {| so_cn := 61; so_adj_cn := 1; so_z_cn := 3/10; so_nComp := 4; so_z_top := 1/10; so_nLayer := 2; so_fshape_cr := 16;
       so_z_germ := 3/10; so_evap_z_min := 15/100; so_evap_z_max := 30/100; so_rew := 9; so_kex := 11/10; so_fwcc := 50;
       so_f_wrel_exp := 4/10; so_f_evap := 4; so_prof := TranspirationR.ex_p |}.
  Definition par : DPar R :=
    {| p_soil := soil; p_irr := irr; p_fallow_irr := irr; p_field := field; p_fallow_field := field; p_crop := fun _ => dcrop;
       p_fallow_crop := dcrop; p_water_table := 0; p_co2c := fun _ => 400; p_co2r := 36941/100; p_evap_steps := 20; p_sim_off := false |}.

  Definition st : DState R :=
    {| d_age_days := 0; d_age_days_ns := 0; d_aer_days := 0; d_aer_days_comp := [0; 1; 0; 2]; d_irr_cum := 0; d_delayed_gdds := 0;
       d_delayed_cds := 2%Z; d_pct_lag_phase := 0; d_t_early_sen := 0; d_gdd_cum := 400; d_day_submerged := 1; d_irr_net_cum := 12;
       d_e_pot := 2; d_t_pot := 3; d_pre_adj := false; d_crop_dead := false; d_germination := true; d_premat_senes := false;
       d_growing_season := true; d_yield_form := false; d_stage2 := false; d_wt_in_soil := None; d_stage := 1; d_f_pre := 1;
       d_f_post := 1; d_fpost_dwn := 1; d_fpost_upp := 1; d_h1_cor_asum := 0; d_h1_cor_bsum := 0; d_f_pol := 0; d_s_cor1 := 0;
       d_s_cor2 := 0; d_hi_ref := 0; d_HIfinal := 48/100; d_growth_stage := 2%Z; d_tr_ratio := 9/10; d_r_cor := 1;
       d_canopy_cover := 3/10; d_canopy_cover_adj := 45/100; d_canopy_cover_ns := 35/100; d_canopy_cover_adj_ns := 5/10;
       d_biomass := 100; d_biomass_ns := 120; d_YieldPot := 0; d_harvest_index := 0; d_harvest_index_adj := 0;
       d_ccx_act := 3/10; d_ccx_act_ns := 35/100; d_ccx_w := 3/10; d_ccx_w_ns := 35/100; d_ccx_early_sen := 0; d_cc_prev := 29/100;
       d_protected_seed := false; d_DryYield := 0; d_FreshYield := 0; d_z_root := 5/10; d_cc0_adj := 1/100;
       d_surface_storage := 4/100; d_z_gw := None; d_th_fc_Adj := [22/100; 22/100; 39/100; 39/100];
       d_th := [15/100; 22/100; 45/100; 39/100]; d_thini := [22/100; 22/100; 39/100; 39/100]; d_time_step_counter := 39%Z;
       d_precipitation := 0; d_temp_max := 25; d_temp_min := 12; d_et0 := 4; d_sumET0EarlySen := 0; d_gdd := 10; d_w_surf := 0;
       d_evap_z := 15/100; d_w_stage_2 := 0; d_depletion := 10; d_taw := 60 |}.

  Lemma ex_pen : RootsR.pen_ok TranspirationR.ex_p.
  Proof. repeat constructor; cbn; lra. Qed.

  Lemma crop_ok_all k : CropOK (sel_crop par k) (crops (c_id (sel_crop par k))) (p_co2c par k) (p_co2r par).
  Proof.
    assert (Hz : c_Zmin (sel_crop par k) = 3/10).
    { unfold sel_crop. destruct (0 <=? k)%Z; cbn; rnum; reflexivity. }
    assert (Ht : c_Tupp (sel_crop par k) = 30 /\ c_Tbase (sel_crop par k) = 8).
    { unfold sel_crop. destruct (0 <=? k)%Z; cbn; split; reflexivity. }
    constructor; cbn [crops cfull cf_can cf_root cf_tr par p_co2c p_co2r].
    - exact CanopyR.kw_ok.
    - exact (proj2 CanopyR.kw_step).
    - destruct Ht as [-> ->]. lra.
    - unfold root_crop. rewrite Hz. exact RootsR.ex_crop_ok.
    - rewrite Hz. exact RootsR.ex_crop_cm.
    - cbn; lra.
    - cbn; lra.
    - cbn; lra.
    - cbn; lra.
    - cbn; lra.
    - exists 3%Z. reflexivity.
    - cbn; lra.
    - cbn; lra.
    - lra.
  Qed.

  Lemma par_ok : ParOK par crops.
  Proof.
    constructor; cbn [par soil p_soil so_prof so_kex so_fwcc p_field p_fallow_field field f_f_mulch f_mulch_pct p_irr p_fallow_irr irr
                      i_WetSurf p_co2r p_crop dcrop c_CC0 c_id crops cfull cf_can].
    - exact (TranspirationR.tw_prof _ _ _ TranspirationR.ex_wf).
    - exact (TranspirationR.tw_geom _ _ _ TranspirationR.ex_wf).
    - exact TranspirationR.ex_layers.
    - exact ex_pen.
    - lra.
    - lra.
    - lra.
    - lra.
    - lra.
    - lra.
    - lra.
    - exact crop_ok_all.
    - intros k _. cbn. lra.
  Qed.

  Lemma day_inv : DayInv par st.
  Proof.
    constructor; cbn [par p_soil soil so_prof st d_th d_thini d_th_fc_Adj d_surface_storage p_irr p_fallow_irr irr i_NetIrrSMT p_field field
                      f_bund_water f_z_bund]; try lra.
    - exact (TranspirationR.tw_prof _ _ _ TranspirationR.ex_wf).
    - exact TranspirationR.ex_bounds.
    - repeat constructor; cbn; lra.
    - repeat constructor; cbn; lra.
  Qed.

  Lemma strong_inv : StrongInv par crops 0 40 st.
  Proof.
    constructor.
    - exact day_inv.
    - lia.
    - lia.
    - constructor; cbn; try lra. apply CanopyR.ccx_inv_le; [exact CanopyR.kw_ok | cbn; lra].
    - cbn. lra.
    - cbn. lra.
    - cbn. lia.
    - cbn. lra.
    - intros _. cbn. lra.
    - cbn. lra.
    - cbn. repeat constructor; lra.
    - exists 1%Z. split; [lia|reflexivity].
  Qed.
End Ex.

Example strong_init_example : ParOK Ex.par Ex.crops /\ StrongInv Ex.par Ex.crops 0 40 Ex.st /\ WOK DayP.Ex.w0 /\
                              DapOK Ex.par Ex.crops 0 true 41.
Proof.
  split; [exact Ex.par_ok|]. split; [exact Ex.strong_inv|]. split; [constructor; cbn; lra|].
  intros _. cbn. lra.
Qed.

(* ... and right after a season reset (what a run starts a season from) *)
Example strong_reset_example : StrongInv Ex.par Ex.crops 1 0 (reset Ex.par 1 [] Ex.st).
Proof. exact (strong_reset Ex.par Ex.crops 0 40 [] Ex.st Ex.par_ok Ex.strong_inv). Qed.

Print Assumptions strong_dayinv.
Print Assumptions strong_side.
Print Assumptions strong_step.
Print Assumptions strong_reset.
Print Assumptions strong_day.
Print Assumptions strong_init_example.
