(* DaySideRows.v — the per-row theorems of DayRowsP.v (C02 / C04 / C05 / C06 / C13 / C19: [DayRowsP.rows_day]) for every
   day of every concrete run, with the clock-indexed invariant of DaySideP.v / DaySideRun.v / DaySideRun2.v.

   DayRowsP.run_till_rows / run_steps_rows lift rows_day through a run with a STATE-ONLY invariant [Inv] (section
   WithInv), which cannot be instantiated (see the header of DaySideRun.v).  Here the same conclusion is obtained with

     SInv par crops st  :=  StrongInv par crops (season st) (dap st) (phys st)         (DaySideRun.v)
     DapInv c st        :=  dap st <= tsc st - planting step of the season in force    (DaySideRun2.v)
     RInv2 par s        :=  0 <= PctLagPhase s <= 100  /\  irr_cum s <= MaxIrrSeason   (the two extra facts of DayRowsP.RowsInv)

   carried through [perform]: the day theorems of DayRowsP.v are instantiated directly with the DaySide obtained from
   DaySideP.strong_side ([strong_rows_day]); the clock part is DaySideRun2.strong_perform_season; the season reset sets
   irr_cum := 0 and PctLagPhase := 0 (Day.reset).  All of rows_day is carried — nothing is partial.

   Hypotheses of the run theorems: ParOK, wf_clock, every weather record has ET0 >= 0 and rain >= 0 ([WOK2]; the C06
   monotonicity conjunct of rows_day keeps its own premise 0 < ET0 inside the row statement), the per-season age premise,
   cn_ok, MaxIrrSeason >= 0, CapOK for every day (vacuous without a water table: the _no_table variants). *)
From Coq Require Import Reals List Bool ZArith Lra Lia.
From AC Require Import Num RInst Params Kernels Clock Day DayConcrete RunConcrete.
From AC.Water Require Transpiration.
From AC.proofs Require Import ProfR DayP DayConcreteP ClockP RunP RunConcreteP DaySideU DaySideP DaySideRun DaySideRun2 DayRowsP.
Import ListNotations.
Local Open Scope R_scope.

#[local] Existing Instance YieldR.RTrig.

(* one weather record: reference evapotranspiration and rain are not negative *)
Record WOK2 (w : Day.W R) : Prop := { w2_et0 : 0 <= w_et0 w; w2_rain : 0 <= w_rain w }.
Lemma WOK2_WOK w : WOK2 w -> WOK w.
Proof. intros [H _]. constructor. exact H. Qed.
Lemma weather_ok_WOK2 ws : weather_ok (Day.W R) WOK2 ws -> weather_ok (Day.W R) WOK ws.
Proof. intros H t w E. apply WOK2_WOK. exact (H t w E). Qed.

(* the two state facts DayRowsP.RowsInv adds to the caller's invariant *)
Definition RInv2 (par : DPar R) (s : DState R) : Prop :=
  0 <= d_pct_lag_phase s <= 100 /\ d_irr_cum s <= i_MaxIrrSeason (p_irr par).

Lemma reset_rinv2 par k ws s : 0 <= i_MaxIrrSeason (p_irr par) -> RInv2 par (reset par k ws s).
Proof. intros H. unfold RInv2. cbn [reset d_pct_lag_phase d_irr_cum]. rnum. split; [lra|exact H]. Qed.

Section RowsStrong.
  Variables (par : DPar R) (crops : Z -> CropFull R).

  Notation PO := (procs_concrete crops).
  Notation procc := (proc_c par crops).
  Notation defc := (defined_c par crops).
  Notation EvC := (Ev (DState R) (Day.W R) (DRow R)).
  Notation is_day_c := (is_day (DState R) (Day.W R) (DRow R) procc defc).
  Notation ReachC := (Reach (DState R) (Day.W R) (DRow R) (DOut R) procc dead (matured par) (summary_of par) (reset par) defc).
  Notation performc := (perform (DState R) (Day.W R) (DRow R) (DOut R) procc dead (matured par) (summary_of par) (reset par)).
  Notation evof := (event_of (DState R) (Day.W R) (DRow R) procc dead).
  Notation minvc := (minv (DState R) (DRow R) (DOut R)).
  Notation CModelR := (Model (DState R) (DRow R) (DOut R)).
  Notation SInvc := (SInv par crops).
  Notation DapInvc := (DapInv (DState R)).

  Hypothesis Hcn : cn_ok par.
  Hypothesis Hmaxseason : 0 <= i_MaxIrrSeason (p_irr par).

  (* ---- one day: DayRowsP.inv_rows_day with the side conditions supplied by the caller ----------------------------- *)
  Lemma strong_rows_day (e : EvC) :
    is_day_c e -> (e_gs _ _ _ e = true -> (0 <= e_season _ _ _ e)%Z) -> 0 <= w_rain (e_w _ _ _ e) ->
    DayInv par (e_pre _ _ _ e) ->
    (forall Rs, results_opt (ctx par (e_season _ _ _ e) (e_gs _ _ _ e) (e_dap _ _ _ e) (e_tsc _ _ _ e) (e_w _ _ _ e) (e_pre _ _ _ e)) PO = Some Rs ->
                DaySide par crops (e_season _ _ _ e) (e_gs _ _ _ e) (e_dap _ _ _ e) (e_tsc _ _ _ e) (e_w _ _ _ e) (e_pre _ _ _ e) Rs) ->
    RInv2 par (e_pre _ _ _ e) -> RInv2 par (e_post _ _ _ e) /\ rows_day par crops e.
  Proof.
    intros Hd Hgs Hr DI Side (Hpct & Hcum). pose proof (is_day_opt par crops e Hd) as H.
    destruct e as [season gs dap tsc w s s' row]. cbn [e_season e_gs e_dap e_tsc e_w e_pre e_post e_row] in *.
    pose proof (cn_ok_sel par season gs Hcn) as Hc.
    pose proof (day_fluxes_concrete _ _ _ _ _ _ _ _ _ _ DI Hr Hc H Side) as T1.
    pose proof (day_surface_concrete _ _ _ _ _ _ _ _ _ _ DI Hr Hc H) as T2.
    pose proof (day_irrigation_concrete _ _ _ _ _ _ _ _ _ _ H) as T3.
    pose proof (day_irr_totals_concrete _ _ _ _ _ _ _ _ _ _ H) as T4.
    pose proof (day_gdd_concrete _ _ _ _ _ _ _ _ _ _ H) as T5.
    pose proof (day_yield_concrete _ _ _ _ _ _ _ _ _ _ H) as T6.
    pose proof (day_groundwater_concrete _ _ _ _ _ _ _ _ _ _ DI H) as T7.
    assert (Hcum' : d_irr_cum s' <= i_MaxIrrSeason (p_irr par)).
    { cbv zeta in T3. destruct T3 as (A1 & _ & _ & A4 & _).
      destruct gs.
      - specialize (Hgs eq_refl). unfold sel_irr in A4. apply Z.leb_le in Hgs. rewrite Hgs in A4. exact (A4 Hmaxseason Hcum).
      - destruct (A1 eq_refl) as [_ ->]. exact Hmaxseason. }
    assert (Hpct' : 0 <= d_pct_lag_phase s' <= 100).
    { cbv zeta in T6. destruct T6 as (_ & _ & _ & _ & _ & _ & _ & _ & A9 & _). exact (A9 Hpct). }
    split; [split; [exact Hpct'|exact Hcum']|].
    constructor; cbn [e_season e_gs e_dap e_tsc e_w e_pre e_post e_row];
      [exact Hgs | exact Hpct | exact Hcum | exact Hcum' | exact T1 | exact T2 | exact T3 | exact T4 | exact T5 | exact T6 | ].
    cbv zeta in T7. destruct T7 as (B1 & B2 & B3 & B4 & B5 & B6).
    unfold groundwater_row. cbv zeta. repeat (split; [assumption|]). intros W1. exact (B6 W1 Side).
  Qed.

  (* ---- the run -------------------------------------------------------------------------------------------------- *)
  Hypothesis POK : ParOK par crops.
  Variable c : ClockP.
  Variable ws : list (Day.W R).
  Hypothesis Hwf : wf_clock c.
  Hypothesis Hws : weather_ok (Day.W R) WOK2 ws.
  Hypothesis HSeason : forall k p h, nthZ (plant c) k = Some p -> nthZ (harv c) k = Some h ->
    let kk := cf_tr (crops (c_id (sel_crop par k))) in
    (IZR (h - p) - Transpiration.k_MaxCanopyCD kk - 5) * (Transpiration.k_fage kk / 100) <= Transpiration.k_Kcb kk.
  Hypothesis HCap : forall season gs dap tsc w s Rs,
    results_opt (ctx par season gs dap tsc w s) PO = Some Rs -> CapOK par Rs.

  (* what is established for every day of a run *)
  Definition strong_rows_ev (e : EvC) : Prop := strong_ev par crops e /\ rows_day par crops e.

  Lemma strong_perform_rows (m m' : CModelR) w :
    minvc c m -> SInvc (st m) -> DapInvc c (st m) -> RInv2 par (phys (st m)) ->
    nthW (Day.W R) ws (tsc (st m)) = Some w -> day_defined (DState R) (Day.W R) dead defc c w (st m) = true ->
    performc c ws m = Ok m' ->
    strong_rows_ev (evof c w (st m)) /\ SInvc (st m') /\ RInv2 par (phys (st m')) /\
    (fin (st m') = false -> minvc c m' /\ DapInvc c (st m')).
  Proof.
    intros Hm HS HJ HR2 Ew Ed Hp.
    destruct (strong_perform_season par crops POK c ws Hwf (weather_ok_WOK2 ws Hws) HSeason HCap m m' w Hm HS HJ Ew Ed Hp)
      as (He & HS' & Hnf).
    pose proof (Hws _ _ Ew) as W2.
    set (e := evof c w (st m)) in *.
    assert (Hday : is_day_c e) by exact (proj1 He).
    assert (Dk : DapOK par crops (season (st m)) (in_season (DState R) dead c (st m))
                       (dap_of (in_season (DState R) dead c (st m)) (dap (st m))))
      by exact (dapok_of_clock par crops POK c HSeason (st m) (proj1 Hm) HJ).
    assert (Side : forall Rs,
      results_opt (ctx par (e_season _ _ _ e) (e_gs _ _ _ e) (e_dap _ _ _ e) (e_tsc _ _ _ e) (e_w _ _ _ e) (e_pre _ _ _ e)) PO = Some Rs ->
      DaySide par crops (e_season _ _ _ e) (e_gs _ _ _ e) (e_dap _ _ _ e) (e_tsc _ _ _ e) (e_w _ _ _ e) (e_pre _ _ _ e) Rs).
    { intros Rs HRs.
      exact (strong_side par crops (season (st m)) (in_season (DState R) dead c (st m)) (dap (st m)) (tsc (st m)) w (phys (st m)) Rs
               POK (WOK2_WOK _ W2) Dk HS HRs (HCap _ _ _ _ _ _ Rs HRs)). }
    destruct (strong_rows_day e Hday (event_gs_season par crops c w (st m)) (w2_rain _ W2) (proj1 (proj2 He)) Side HR2) as [HR2' Hrows].
    split; [split; [exact He|exact Hrows]|]. split; [exact HS'|]. split; [|exact Hnf].
    pose proof (perform_cases _ _ _ _ procc dead (matured par) (summary_of par) (reset par) c ws m m' w Ew Hp) as Hc.
    cbv zeta in Hc. fold e in Hc.
    destruct Hc as [(_ & _ & ->) | (_ & _ & ->)]; [exact HR2' | apply reset_rinv2; exact Hmaxseason].
  Qed.

  Lemma run_steps_rows_acc k : forall (m0 : CModelR) evs m m',
    ReachC c ws m0 evs m -> Forall strong_rows_ev evs ->
    minvc c m -> SInvc (st m) -> DapInvc c (st m) -> RInv2 par (phys (st m)) ->
    run_steps_c par crops c ws k m = GOk m' ->
    exists evs', ReachC c ws m0 (evs' ++ evs) m' /\ Forall strong_rows_ev (evs' ++ evs) /\ SInvc (st m') /\ RInv2 par (phys (st m')).
  Proof.
    unfold run_steps_c. induction k as [|k IH]; intros m0 evs m m' HR HF Hm HS Hd H2; cbn [Clock.run_steps_g].
    - intros [= <-]. exists []. split; [exact HR|]. split; [exact HF|]. split; [exact HS|exact H2].
    - destruct (perform_g _ _ _ _ _ _ _ _ _ _ c ws m) as [m1|e|t] eqn:Ep; try discriminate.
      destruct (perform_g_ok _ _ _ _ _ _ _ _ _ _ _ _ _ _ Ep) as (Hp & w & Ew & Ed).
      pose proof (Reach_step _ _ _ _ _ _ _ _ _ _ c ws m0 evs m m1 w HR Ew Ed Hp) as HR1.
      destruct (strong_perform_rows m m1 w Hm HS Hd H2 Ew Ed Hp) as (He & HS1 & H21 & Hnf).
      assert (HF1 : Forall strong_rows_ev (evof c w (st m) :: evs)) by (constructor; assumption).
      destruct (fin (st m1)) eqn:Ef.
      + intros [= <-]. exists [evof c w (st m)]. split; [exact HR1|]. split; [exact HF1|]. split; [exact HS1|exact H21].
      + intros H. destruct (Hnf eq_refl) as [Hm1 Hd1].
        destruct (IH m0 _ m1 m' HR1 HF1 Hm1 HS1 Hd1 H21 H) as (evs' & A & B & C).
        exists (evs' ++ [evof c w (st m)]). rewrite <- app_assoc. split; [exact A|]. split; [exact B|exact C].
  Qed.

  Lemma run_till_rows_acc fuel : forall (m0 : CModelR) evs m m',
    ReachC c ws m0 evs m -> Forall strong_rows_ev evs -> SInvc (st m) -> RInv2 par (phys (st m)) ->
    (fin (st m) = false -> minvc c m /\ DapInvc c (st m)) ->
    run_till_c par crops c ws fuel m = Some (GOk m') ->
    exists evs', ReachC c ws m0 (evs' ++ evs) m' /\ Forall strong_rows_ev (evs' ++ evs) /\ SInvc (st m') /\ RInv2 par (phys (st m')).
  Proof.
    unfold run_till_c. induction fuel as [|fuel IH]; intros m0 evs m m' HR HF HS H2 Hnf; cbn [Clock.run_till_g];
      destruct (fin (st m)) eqn:Ef; try discriminate;
      try (intros [= <-]; exists []; split; [exact HR|]; split; [exact HF|]; split; [exact HS|exact H2]).
    destruct (perform_g _ _ _ _ _ _ _ _ _ _ c ws m) as [m1|e|t] eqn:Ep; try discriminate.
    destruct (perform_g_ok _ _ _ _ _ _ _ _ _ _ _ _ _ _ Ep) as (Hp & w & Ew & Ed).
    pose proof (Reach_step _ _ _ _ _ _ _ _ _ _ c ws m0 evs m m1 w HR Ew Ed Hp) as HR1.
    destruct (Hnf eq_refl) as [Hm Hd].
    destruct (strong_perform_rows m m1 w Hm HS Hd H2 Ew Ed Hp) as (He & HS1 & H21 & Hnf1).
    assert (HF1 : Forall strong_rows_ev (evof c w (st m) :: evs)) by (constructor; assumption).
    intros H. destruct (IH m0 _ m1 m' HR1 HF1 HS1 H21 Hnf1 H) as (evs' & A & B & C).
    exists (evs' ++ [evof c w (st m)]). rewrite <- app_assoc. split; [exact A|]. split; [exact B|exact C].
  Qed.

  (* run_model(num_steps = k) *)
  Theorem run_steps_rows_strong_season k (m0 m' : CModelR) :
    minvc c m0 -> SInvc (st m0) -> DapInvc c (st m0) -> RInv2 par (phys (st m0)) ->
    run_steps_c par crops c ws k m0 = GOk m' ->
    exists evs : list EvC,
      ReachC c ws m0 evs m' /\ SInvc (st m') /\ RInv2 par (phys (st m')) /\
      Forall (fun e => strong_ev par crops e /\ rows_day par crops e) evs /\
      chained _ _ _ (reset par) ws (phys (st m')) evs /\
      rows (tabs m') = map (fun e => (e_tsc _ _ _ e, e_row _ _ _ e)) evs ++ rows (tabs m0).
  Proof.
    intros Hm HS Hd H2 H.
    destruct (run_steps_rows_acc k m0 [] m0 m' (Reach_nil _ _ _ _ _ _ _ _ _ _ c ws m0) (Forall_nil _) Hm HS Hd H2 H)
      as (evs & HR & HF & HS' & H2').
    rewrite app_nil_r in HR, HF. exists evs. split; [exact HR|]. split; [exact HS'|]. split; [exact H2'|]. split; [exact HF|]. split.
    - exact (proj1 (reach_chained _ _ _ _ _ _ _ _ _ _ _ _ _ _ _ HR)).
    - exact (reach_rows _ _ _ _ _ _ _ _ _ _ _ _ _ _ _ HR).
  Qed.

  (* run_model(till_termination = True) *)
  Theorem run_till_rows_strong_season fuel (m0 m' : CModelR) :
    minvc c m0 -> SInvc (st m0) -> DapInvc c (st m0) -> RInv2 par (phys (st m0)) ->
    run_till_c par crops c ws fuel m0 = Some (GOk m') ->
    exists evs : list EvC,
      ReachC c ws m0 evs m' /\ SInvc (st m') /\ RInv2 par (phys (st m')) /\
      Forall (fun e => strong_ev par crops e /\ rows_day par crops e) evs /\
      chained _ _ _ (reset par) ws (phys (st m')) evs /\
      rows (tabs m') = map (fun e => (e_tsc _ _ _ e, e_row _ _ _ e)) evs ++ rows (tabs m0).
  Proof.
    intros Hm HS Hd H2 H.
    destruct (run_till_rows_acc fuel m0 [] m0 m' (Reach_nil _ _ _ _ _ _ _ _ _ _ c ws m0) (Forall_nil _) HS H2 (fun _ => conj Hm Hd) H)
      as (evs & HR & HF & HS' & H2').
    rewrite app_nil_r in HR, HF. exists evs. split; [exact HR|]. split; [exact HS'|]. split; [exact H2'|]. split; [exact HF|]. split.
    - exact (proj1 (reach_chained _ _ _ _ _ _ _ _ _ _ _ _ _ _ _ HR)).
    - exact (reach_rows _ _ _ _ _ _ _ _ _ _ _ _ _ _ _ HR).
  Qed.
End RowsStrong.

(* without a water table no hypothesis about intermediate values of any day is left *)
Theorem run_till_rows_strong_season_no_table par crops c ws fuel (m0 m' : Model (DState R) (DRow R) (DOut R)) :
  cn_ok par -> 0 <= i_MaxIrrSeason (p_irr par) ->
  ParOK par crops -> wf_clock c -> weather_ok (Day.W R) WOK2 ws ->
  (forall k p h, nthZ (plant c) k = Some p -> nthZ (harv c) k = Some h ->
     let kk := cf_tr (crops (c_id (sel_crop par k))) in
     (IZR (h - p) - Transpiration.k_MaxCanopyCD kk - 5) * (Transpiration.k_fage kk / 100) <= Transpiration.k_Kcb kk) ->
  p_water_table par <> 1%Z ->
  minv (DState R) (DRow R) (DOut R) c m0 -> SInv par crops (st m0) -> DapInv (DState R) c (st m0) -> RInv2 par (phys (st m0)) ->
  run_till_c par crops c ws fuel m0 = Some (GOk m') ->
  exists evs : list (Ev (DState R) (Day.W R) (DRow R)),
    Reach (DState R) (Day.W R) (DRow R) (DOut R) (proc_c par crops) dead (matured par) (summary_of par) (reset par) (defined_c par crops)
          c ws m0 evs m' /\
    SInv par crops (st m') /\ RInv2 par (phys (st m')) /\
    Forall (fun e => strong_ev par crops e /\ rows_day par crops e) evs /\
    chained _ _ _ (reset par) ws (phys (st m')) evs /\
    rows (tabs m') = map (fun e => (e_tsc _ _ _ e, e_row _ _ _ e)) evs ++ rows (tabs m0).
Proof.
  intros Hcn Hmx P Hwf Hws HD Hwt. apply (run_till_rows_strong_season par crops Hcn Hmx P c ws Hwf Hws HD).
  intros season gs dap tsc w s Rs _. apply CapOK_no_table. exact Hwt.
Qed.

Theorem run_steps_rows_strong_season_no_table par crops c ws k (m0 m' : Model (DState R) (DRow R) (DOut R)) :
  cn_ok par -> 0 <= i_MaxIrrSeason (p_irr par) ->
  ParOK par crops -> wf_clock c -> weather_ok (Day.W R) WOK2 ws ->
  (forall k p h, nthZ (plant c) k = Some p -> nthZ (harv c) k = Some h ->
     let kk := cf_tr (crops (c_id (sel_crop par k))) in
     (IZR (h - p) - Transpiration.k_MaxCanopyCD kk - 5) * (Transpiration.k_fage kk / 100) <= Transpiration.k_Kcb kk) ->
  p_water_table par <> 1%Z ->
  minv (DState R) (DRow R) (DOut R) c m0 -> SInv par crops (st m0) -> DapInv (DState R) c (st m0) -> RInv2 par (phys (st m0)) ->
  run_steps_c par crops c ws k m0 = GOk m' ->
  exists evs : list (Ev (DState R) (Day.W R) (DRow R)),
    Reach (DState R) (Day.W R) (DRow R) (DOut R) (proc_c par crops) dead (matured par) (summary_of par) (reset par) (defined_c par crops)
          c ws m0 evs m' /\
    SInv par crops (st m') /\ RInv2 par (phys (st m')) /\
    Forall (fun e => strong_ev par crops e /\ rows_day par crops e) evs /\
    chained _ _ _ (reset par) ws (phys (st m')) evs /\
    rows (tabs m') = map (fun e => (e_tsc _ _ _ e, e_row _ _ _ e)) evs ++ rows (tabs m0).
Proof.
  intros Hcn Hmx P Hwf Hws HD Hwt. apply (run_steps_rows_strong_season par crops Hcn Hmx P c ws Hwf Hws HD).
  intros season gs dap tsc w s Rs _. apply CapOK_no_table. exact Hwt.
Qed.

(* non-vacuity of the added hypotheses on the instance of DaySideP.Ex (curve number 61, no management adjustment;
   seasonal maximum 10000 mm; PctLagPhase 0, 0 mm applied so far) *)
Example rows_strong_hypotheses_satisfiable :
  cn_ok DaySideP.Ex.par /\ 0 <= i_MaxIrrSeason (p_irr DaySideP.Ex.par) /\ RInv2 DaySideP.Ex.par DaySideP.Ex.st /\ WOK2 DayP.Ex.w0.
Proof.
  split; [unfold cn_ok, cn_ok_field, RainIrrR.cn_mgmt; cbn; lra|]. split; [cbn; lra|]. split; [unfold RInv2; cbn; lra|].
  constructor; cbn; lra.
Qed.

Print Assumptions strong_rows_day.
Print Assumptions run_steps_rows_strong_season.
Print Assumptions run_till_rows_strong_season.
Print Assumptions run_till_rows_strong_season_no_table.
Print Assumptions run_steps_rows_strong_season_no_table.
