(* DaySideRun.v — the WHOLE CONCRETE RUN with the clock-indexed invariant of DaySideP.v.

   RunP.v / RunConcreteP.v carry an invariant of the physical state alone through a run ([Inv : DState R -> Prop], to be
   preserved by a day run with ANY season index / dap).  The invariant that discharges DaySide cannot have that shape:
   the canopy part (CanopyR.canopy_inv) is indexed by the canopy clock tCCadj = dap - delayed_cds of the previous call
   and by the crop of the season, and the step needs the clock not to run backwards — a day run with a smaller dap or
   another season's crop on the same state breaks it (CanopyR.ccx_act_le_refuted is the reason canopy_inv is
   time-indexed).  So the induction here is over the clock state [Clock.St] = (season, dap, physical state, ...):

     [SInv s] := StrongInv par crops (season s) (dap s) (phys s)

   is carried through [perform] with ClockP.clock_inv (which bounds dap by the step counter, hence by n_steps: the
   per-day condition DapOK follows from ONE static condition on the length of the simulation window, [HDap]).

   [run_steps_strong], [run_till_strong]: from an initial model with ClockP.minv and SInv, for every day of every run (by
   step counts / to termination, any length): DayInv before the day, StrongInv after it, RunConcreteP.water_day (C01
   balance on the row of the day, C03 bounds after the day and in the storage row); SInv of the final model; the rows of
   the tables are the rows of these days; consecutive days are chained.  The only hypothesis about intermediate
   values is CapOK (water table), vacuous without a water table ([run_till_strong_no_table]). *)
From Coq Require Import Reals List Bool ZArith Lra Lia.
From AC Require Import Num RInst Params Kernels Clock Day DayConcrete RunConcrete.
From AC.Water Require Transpiration.
From AC.proofs Require Import ProfR DayP DayConcreteP ClockP RunP RunConcreteP DaySideU DaySideP.
Import ListNotations.
Local Open Scope R_scope.

#[local] Existing Instance YieldR.RTrig.

(* ---- one performed step: season index, dap and physical state of the next clock state ----------------------------- *)
Section Generic.
  Variable Phys W Row Out : Type.
  Variable proc : Z -> bool -> Z -> Z -> W -> Phys -> Phys * Row.
  Variable dead : Phys -> bool.
  Variable matured : Z -> Z -> Phys -> bool.
  Variable summary_of : Z -> bool -> Phys -> Out.
  Variable reset : Z -> list W -> Phys -> Phys.

  Lemma perform_cases c ws (m m' : Model Phys Row Out) w : nthW W ws (tsc (st m)) = Some w ->
    perform Phys W Row Out proc dead matured summary_of reset c ws m = Ok m' ->
    let ev := event_of Phys W Row proc dead c w (st m) in
    (season (st m') = season (st m) /\ dap (st m') = e_dap Phys W Row ev /\ phys (st m') = e_post Phys W Row ev) \/
    (season (st m') = (season (st m) + 1)%Z /\ dap (st m') = 0%Z /\
     phys (st m') = reset (season (st m) + 1)%Z ws (e_post Phys W Row ev)).
  Proof.
    intros Ew. unfold Clock.perform. rewrite Ew. unfold Clock.day_step, event_of. cbv zeta.
    destruct (proc (season (st m)) (in_season Phys dead c (st m)) (if in_season Phys dead c (st m) then (dap (st m) + 1)%Z else 0%Z)
                   (tsc (st m)) w (phys (st m))) as [ph row] eqn:Epr. cbn [fst snd e_dap e_post].
    match goal with |- match ?u with Ok _ => _ | Raise _ => _ end = _ -> _ => destruct u as [s3|e] eqn:Eu end; [|discriminate].
    intros [= <-]. cbn [st].
    revert Eu. unfold Clock.update_time. cbn [fin hflag season tsc phys dap mature].
    repeat match goal with
           | |- context [if ?b then _ else _] => destruct b
           | |- context [match nthZ ?l ?k with _ => _ end] => destruct (nthZ l k)
           end; try discriminate; intros [= <-]; cbn [phys season dap Clock.start_season]; auto.
  Qed.
End Generic.

Section RunStrong.
  Variables (par : DPar R) (crops : Z -> CropFull R).
  Hypothesis POK : ParOK par crops.

  Notation PO := (procs_concrete crops).
  Notation procc := (proc_c par crops).
  Notation defc := (defined_c par crops).
  Notation EvC := (Ev (DState R) (Day.W R) (DRow R)).
  Notation is_day_c := (is_day (DState R) (Day.W R) (DRow R) procc defc).
  Notation ReachC := (Reach (DState R) (Day.W R) (DRow R) (DOut R) procc dead (matured par) (summary_of par) (reset par) defc).
  Notation performc := (perform (DState R) (Day.W R) (DRow R) (DOut R) procc dead (matured par) (summary_of par) (reset par)).
  Notation evof := (event_of (DState R) (Day.W R) (DRow R) procc dead).
  Notation minvc := (minv (DState R) (DRow R) (DOut R)).
  Notation CModelR := (Model (DState R) (DRow R) (DOut R)).

  (* the invariant of the clock state *)
  Definition SInv (s : St (DState R)) : Prop := StrongInv par crops (season s) (dap s) (phys s).

  Variable c : ClockP.
  Variable ws : list (Day.W R).
  Hypothesis Hwf : wf_clock c.
  Hypothesis Hws : weather_ok (Day.W R) WOK ws.
  (* the simulation window is short enough for the age reduction of Kcb of every crop (static: clock length and crop
     constants; with fage = 0.15 %/day and Kcb = 1.1 the bound is MaxCanopyCD + 738 days) *)
  Hypothesis HDap : forall k,
    let kk := cf_tr (crops (c_id (sel_crop par k))) in
    (IZR (n_steps c - 1) - Transpiration.k_MaxCanopyCD kk - 5) * (Transpiration.k_fage kk / 100) <= Transpiration.k_Kcb kk.
  (* with a water table: room for the capillary overshoot on every day (GroundwaterR.capillary_in_bounds_refuted) *)
  Hypothesis HCap : forall season gs dap tsc w s Rs,
    results_opt (ctx par season gs dap tsc w s) PO = Some Rs -> CapOK par Rs.

  (* what is established for every day of a run *)
  Definition strong_ev (e : EvC) : Prop :=
    is_day_c e /\ DayInv par (e_pre _ _ _ e) /\
    StrongInv par crops (e_season _ _ _ e) (e_dap _ _ _ e) (e_post _ _ _ e) /\ water_day par e.

  Lemma strong_perform (m m' : CModelR) w :
    minvc c m -> SInv (st m) -> (dap (st m) <= tsc (st m))%Z ->
    nthW (Day.W R) ws (tsc (st m)) = Some w -> day_defined (DState R) (Day.W R) dead defc c w (st m) = true ->
    performc c ws m = Ok m' ->
    strong_ev (evof c w (st m)) /\ SInv (st m') /\
    (fin (st m') = false -> minvc c m' /\ (dap (st m') <= tsc (st m'))%Z).
  Proof.
    intros Hm HS Hdt Ew Ed Hp. destruct Hm as [Hci Hfin].
    pose proof (event_is_day (DState R) (Day.W R) (DRow R) procc dead defc c w (st m) Ed) as Hday.
    pose proof (is_day_opt par crops _ Hday) as Hopt.
    set (e := evof c w (st m)) in *.
    assert (Hes : e_season _ _ _ e = season (st m)) by reflexivity.
    assert (Hed : e_dap _ _ _ e = dap_of (e_gs _ _ _ e) (dap (st m))) by reflexivity.
    assert (Hep : e_pre _ _ _ e = phys (st m)) by reflexivity.
    assert (Hew : e_w _ _ _ e = w) by reflexivity.
    rewrite Hes, Hed, Hep, Hew in Hopt.
    assert (Wk : WOK w) by exact (Hws _ _ Ew).
    assert (Dk : DapOK par crops (season (st m)) (e_gs _ _ _ e) (dap_of (e_gs _ _ _ e) (dap (st m)))).
    { apply (DapOK_bound par crops _ _ _ (n_steps c - 1)%Z POK); [|exact (HDap (season (st m)))].
      pose proof (ci_end _ _ _ Hci). pose proof (ci_tsc _ _ _ Hci). unfold dap_of. destruct (e_gs _ _ _ e); lia. }
    pose proof (strong_day par crops _ _ _ _ _ _ _ _ POK Wk Dk HS Hopt (fun Rs H => HCap _ _ _ _ _ _ Rs H)) as B.
    cbv zeta in B. destruct B as (B1 & B2 & B3 & B4 & B5).
    pose proof (day_balance_concrete _ _ _ _ _ _ _ _ _ _ (si_day _ _ _ _ _ HS) Hopt) as Bal. cbv zeta in Bal.
    assert (Hpost : StrongInv par crops (e_season _ _ _ e) (e_dap _ _ _ e) (e_post _ _ _ e)) by (rewrite Hes, Hed; exact B5).
    split.
    - split; [exact Hday|]. split; [rewrite Hep; exact (si_day _ _ _ _ _ HS)|]. split; [exact Hpost|].
      unfold water_day. cbv zeta. rewrite Hes, Hep. split; [exact Bal|]. split; [exact B1|]. split; [exact B2|]. split; [exact B3|exact B4].
    - pose proof (perform_cases _ _ _ _ procc dead (matured par) (summary_of par) (reset par) c ws m m' w Ew Hp) as Hc.
      cbv zeta in Hc. fold e in Hc.
      assert (HS' : SInv (st m')).
      { unfold SInv. destruct Hc as [(E1 & E2 & E3) | (E1 & E2 & E3)]; rewrite E1, E2, E3.
        - rewrite <- Hes. exact Hpost.
        - rewrite <- Hes. exact (strong_reset par crops _ _ ws _ POK Hpost). }
      split; [exact HS'|]. intros Hf.
      destruct (perform_inv _ _ _ _ procc dead (matured par) (summary_of par) (reset par) c ws m m' Hwf (conj Hci Hfin) Hp)
        as (w' & s1 & row & sr & _ & _ & _ & _ & _ & _ & Hnf).
      destruct (Hnf Hf) as (Hm' & Hlt & _). split; [exact Hm'|].
      pose proof (si_dap _ _ _ _ _ HS) as Hd0.
      destruct Hc as [(_ & E2 & _) | (_ & E2 & _)]; rewrite E2.
      + rewrite Hed. unfold dap_of. destruct (e_gs _ _ _ e); lia.
      + pose proof (ci_tsc _ _ _ (proj1 Hm')). lia.
  Qed.

  (* ---- the two run loops ------------------------------------------------------------------------------------- *)
  Lemma run_steps_strong_acc k : forall (m0 : CModelR) evs m m',
    ReachC c ws m0 evs m -> Forall strong_ev evs ->
    minvc c m -> SInv (st m) -> (dap (st m) <= tsc (st m))%Z ->
    run_steps_c par crops c ws k m = GOk m' ->
    exists evs', ReachC c ws m0 (evs' ++ evs) m' /\ Forall strong_ev (evs' ++ evs) /\ SInv (st m').
  Proof.
    unfold run_steps_c. induction k as [|k IH]; intros m0 evs m m' HR HF Hm HS Hd; cbn [Clock.run_steps_g].
    - intros [= <-]. exists []. split; [exact HR|]. split; [exact HF|exact HS].
    - destruct (perform_g _ _ _ _ _ _ _ _ _ _ c ws m) as [m1|e|t] eqn:Ep; try discriminate.
      destruct (perform_g_ok _ _ _ _ _ _ _ _ _ _ _ _ _ _ Ep) as (Hp & w & Ew & Ed).
      pose proof (Reach_step _ _ _ _ _ _ _ _ _ _ c ws m0 evs m m1 w HR Ew Ed Hp) as HR1.
      destruct (strong_perform m m1 w Hm HS Hd Ew Ed Hp) as (He & HS1 & Hnf).
      assert (HF1 : Forall strong_ev (evof c w (st m) :: evs)) by (constructor; assumption).
      destruct (fin (st m1)) eqn:Ef.
      + intros [= <-]. exists [evof c w (st m)]. split; [exact HR1|]. split; [exact HF1|exact HS1].
      + intros H. destruct (Hnf eq_refl) as [Hm1 Hd1].
        destruct (IH m0 _ m1 m' HR1 HF1 Hm1 HS1 Hd1 H) as (evs' & A & B & C).
        exists (evs' ++ [evof c w (st m)]). rewrite <- app_assoc. split; [exact A|]. split; [exact B|exact C].
  Qed.

  Lemma run_till_strong_acc fuel : forall (m0 : CModelR) evs m m',
    ReachC c ws m0 evs m -> Forall strong_ev evs -> SInv (st m) ->
    (fin (st m) = false -> minvc c m /\ (dap (st m) <= tsc (st m))%Z) ->
    run_till_c par crops c ws fuel m = Some (GOk m') ->
    exists evs', ReachC c ws m0 (evs' ++ evs) m' /\ Forall strong_ev (evs' ++ evs) /\ SInv (st m').
  Proof.
    unfold run_till_c. induction fuel as [|fuel IH]; intros m0 evs m m' HR HF HS Hnf; cbn [Clock.run_till_g];
      destruct (fin (st m)) eqn:Ef; try discriminate;
      try (intros [= <-]; exists []; split; [exact HR|]; split; [exact HF|exact HS]).
    destruct (perform_g _ _ _ _ _ _ _ _ _ _ c ws m) as [m1|e|t] eqn:Ep; try discriminate.
    destruct (perform_g_ok _ _ _ _ _ _ _ _ _ _ _ _ _ _ Ep) as (Hp & w & Ew & Ed).
    pose proof (Reach_step _ _ _ _ _ _ _ _ _ _ c ws m0 evs m m1 w HR Ew Ed Hp) as HR1.
    destruct (Hnf eq_refl) as [Hm Hd].
    destruct (strong_perform m m1 w Hm HS Hd Ew Ed Hp) as (He & HS1 & Hnf1).
    assert (HF1 : Forall strong_ev (evof c w (st m) :: evs)) by (constructor; assumption).
    intros H. destruct (IH m0 _ m1 m' HR1 HF1 HS1 Hnf1 H) as (evs' & A & B & C).
    exists (evs' ++ [evof c w (st m)]). rewrite <- app_assoc. split; [exact A|]. split; [exact B|exact C].
  Qed.

  (* run_model(num_steps = k): C01 + C03 for every day of the run, the invariant at the end *)
  Theorem run_steps_strong k (m0 m' : CModelR) :
    minvc c m0 -> SInv (st m0) -> (dap (st m0) <= tsc (st m0))%Z ->
    run_steps_c par crops c ws k m0 = GOk m' ->
    exists evs : list EvC,
      ReachC c ws m0 evs m' /\ SInv (st m') /\ Forall strong_ev evs /\
      chained _ _ _ (reset par) ws (phys (st m')) evs /\
      rows (tabs m') = map (fun e => (e_tsc _ _ _ e, e_row _ _ _ e)) evs ++ rows (tabs m0).
  Proof.
    intros Hm HS Hd H.
    destruct (run_steps_strong_acc k m0 [] m0 m' (Reach_nil _ _ _ _ _ _ _ _ _ _ c ws m0) (Forall_nil _) Hm HS Hd H) as (evs & HR & HF & HS').
    rewrite app_nil_r in HR, HF. exists evs. split; [exact HR|]. split; [exact HS'|]. split; [exact HF|]. split.
    - exact (proj1 (reach_chained _ _ _ _ _ _ _ _ _ _ _ _ _ _ _ HR)).
    - exact (reach_rows _ _ _ _ _ _ _ _ _ _ _ _ _ _ _ HR).
  Qed.

  (* run_model(till_termination = True) *)
  Theorem run_till_strong fuel (m0 m' : CModelR) :
    minvc c m0 -> SInv (st m0) -> (dap (st m0) <= tsc (st m0))%Z ->
    run_till_c par crops c ws fuel m0 = Some (GOk m') ->
    exists evs : list EvC,
      ReachC c ws m0 evs m' /\ SInv (st m') /\ Forall strong_ev evs /\
      chained _ _ _ (reset par) ws (phys (st m')) evs /\
      rows (tabs m') = map (fun e => (e_tsc _ _ _ e, e_row _ _ _ e)) evs ++ rows (tabs m0).
  Proof.
    intros Hm HS Hd H.
    destruct (run_till_strong_acc fuel m0 [] m0 m' (Reach_nil _ _ _ _ _ _ _ _ _ _ c ws m0) (Forall_nil _) HS (fun _ => conj Hm Hd) H)
      as (evs & HR & HF & HS').
    rewrite app_nil_r in HR, HF. exists evs. split; [exact HR|]. split; [exact HS'|]. split; [exact HF|]. split.
    - exact (proj1 (reach_chained _ _ _ _ _ _ _ _ _ _ _ _ _ _ _ HR)).
    - exact (reach_rows _ _ _ _ _ _ _ _ _ _ _ _ _ _ _ HR).
  Qed.

  (* the model right after initialisation satisfies the clock hypotheses; the physical hypothesis is StrongInv of the
     initial state for the season index the clock starts in (0 when the first planting date is the first step, else -1) *)
  Lemma init_strong (s0 : DState R) (m0 : CModelR) :
    (2 <= n_steps c)%Z -> plant c <> [] -> (forall p, nthZ (plant c) 0 = Some p -> (0 <= p)%Z) ->
    init_c c s0 = Ok m0 ->
    (forall k, (k = 0 \/ k = -1)%Z -> StrongInv par crops k 0 s0) ->
    minvc c m0 /\ SInv (st m0) /\ (dap (st m0) <= tsc (st m0))%Z.
  Proof.
    intros H2 Hp Hp0 Hi HS. unfold init_c in Hi.
    destruct (init_model_inv _ _ _ c s0 m0 Hwf H2 Hp Hp0 Hi) as (Hm & _ & _). split; [exact Hm|].
    revert Hi. unfold init_model. destruct (plant c) as [|p r]; [discriminate|]. intros [= <-]. cbn [st season dap phys tsc SInv].
    split; [|lia]. unfold SInv. cbn [season dap phys]. apply HS. destruct (p =? 0)%Z; [left|right]; reflexivity.
  Qed.
End RunStrong.

(* without a water table no hypothesis about intermediate values of any day is left *)
Theorem run_till_strong_no_table par crops c ws fuel (m0 m' : Model (DState R) (DRow R) (DOut R)) :
  ParOK par crops -> wf_clock c -> weather_ok (Day.W R) WOK ws ->
  (forall k, let kk := cf_tr (crops (c_id (sel_crop par k))) in
             (IZR (n_steps c - 1) - Transpiration.k_MaxCanopyCD kk - 5) * (Transpiration.k_fage kk / 100) <= Transpiration.k_Kcb kk) ->
  p_water_table par <> 1%Z ->
  minv (DState R) (DRow R) (DOut R) c m0 -> SInv par crops (st m0) -> (dap (st m0) <= tsc (st m0))%Z ->
  run_till_c par crops c ws fuel m0 = Some (GOk m') ->
  exists evs : list (Ev (DState R) (Day.W R) (DRow R)),
    Reach (DState R) (Day.W R) (DRow R) (DOut R) (proc_c par crops) dead (matured par) (summary_of par) (reset par) (defined_c par crops)
          c ws m0 evs m' /\
    SInv par crops (st m') /\ Forall (strong_ev par crops) evs /\
    chained _ _ _ (reset par) ws (phys (st m')) evs /\
    rows (tabs m') = map (fun e => (e_tsc _ _ _ e, e_row _ _ _ e)) evs ++ rows (tabs m0).
Proof.
  intros P Hwf Hws HD Hwt. apply (run_till_strong par crops P c ws Hwf Hws HD).
  intros season gs dap tsc w s Rs _. apply CapOK_no_table. exact Hwt.
Qed.

Theorem run_steps_strong_no_table par crops c ws k (m0 m' : Model (DState R) (DRow R) (DOut R)) :
  ParOK par crops -> wf_clock c -> weather_ok (Day.W R) WOK ws ->
  (forall k, let kk := cf_tr (crops (c_id (sel_crop par k))) in
             (IZR (n_steps c - 1) - Transpiration.k_MaxCanopyCD kk - 5) * (Transpiration.k_fage kk / 100) <= Transpiration.k_Kcb kk) ->
  p_water_table par <> 1%Z ->
  minv (DState R) (DRow R) (DOut R) c m0 -> SInv par crops (st m0) -> (dap (st m0) <= tsc (st m0))%Z ->
  run_steps_c par crops c ws k m0 = GOk m' ->
  exists evs : list (Ev (DState R) (Day.W R) (DRow R)),
    Reach (DState R) (Day.W R) (DRow R) (DOut R) (proc_c par crops) dead (matured par) (summary_of par) (reset par) (defined_c par crops)
          c ws m0 evs m' /\
    SInv par crops (st m') /\ Forall (strong_ev par crops) evs /\
    chained _ _ _ (reset par) ws (phys (st m')) evs /\
    rows (tabs m') = map (fun e => (e_tsc _ _ _ e, e_row _ _ _ e)) evs ++ rows (tabs m0).
Proof.
  intros P Hwf Hws HD Hwt. apply (run_steps_strong par crops P c ws Hwf Hws HD).
  intros season gs dap tsc w s Rs _. apply CapOK_no_table. exact Hwt.
Qed.

Print Assumptions run_steps_strong.
Print Assumptions run_till_strong.
Print Assumptions run_till_strong_no_table.
Print Assumptions init_strong.
