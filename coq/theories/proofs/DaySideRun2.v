(* DaySideRun2.v — the whole concrete run with the clock-indexed invariant (DaySideRun.v), with a PER-SEASON premise for
   the crop-age bound.

   DaySideRun.v derives the per-day condition DapOK from the length of the whole simulation window ([HDap]: dap <= n_steps),
   which fails for multi-year windows although dap never exceeds the length of one season.  Here the clock invariant

     [DapInv c s] := forall p, nthZ (plant c) (season s) = Some p -> dap s <= tsc s - p

   (at the start of a step the days-after-planting counter is at most the number of steps since the planting step of the
   season in force; start_season sets dap := 0 and tsc := p, a day outside the season sets dap := 0, an in-season day
   adds 1 to both sides) is carried through [perform].  On an in-season day of season k (Clock.in_season: p <= tsc <= h)
   with the harvest flag not yet raised, hence tsc < h by ClockP.clock_inv: the flag is raised by the step with tsc + 1 = h)
   the day runs with dap + 1 <= tsc - p + 1 <= h - p, so DapOK follows from

     [HSeason] : forall k p h, nthZ (plant c) k = Some p -> nthZ (harv c) k = Some h ->
                   (IZR (h - p) - MaxCanopyCD_k - 5) * (fage_k / 100) <= Kcb_k

   — a static condition on the planting / harvest steps of every season and its crop.  h - p is the exact maximum of
   the counter: the in-season steps of season k are p .. h - 1 and the step tsc runs with dap = tsc - p + 1.  The premise
   stated with h - p + 1 (or any larger bound) implies this one because fage >= 0 ([season_premise_weaken]).
   Everything else is as in DaySideRun.v. *)
From Coq Require Import Reals List Bool ZArith Lra Lia.
From AC Require Import Num RInst Params Kernels Clock Day DayConcrete RunConcrete.
From AC.Water Require Transpiration.
From AC.proofs Require Import ProfR DayP DayConcreteP ClockP RunP RunConcreteP DaySideU DaySideP DaySideRun.
Import ListNotations.
Local Open Scope R_scope.

#[local] Existing Instance YieldR.RTrig.

(* ---- clock facts ---------------------------------------------------------------------------------------------- *)
Section ClockFacts.
  Variable Phys : Type.
  Variable dead : Phys -> bool.

  (* an in-season step lies between the planting step and the harvest step of the season in force *)
  Lemma in_season_true c (s : St Phys) : in_season Phys dead c s = true ->
    exists p h, (0 <= season s)%Z /\ nthZ (plant c) (season s) = Some p /\ nthZ (harv c) (season s) = Some h /\ (p <= tsc s <= h)%Z /\
                hflag s = false.
  Proof.
    unfold Clock.in_season. destruct (Z.leb_spec 0 (season s)) as [H0|H0]; [|discriminate].
    destruct (nthZ (plant c) (season s)) as [p|]; [|discriminate]. destruct (nthZ (harv c) (season s)) as [h|]; [|discriminate].
    intros H. repeat (apply andb_true_iff in H; destruct H as [H ?]).
    apply Z.leb_le in H. exists p, h. repeat split; try assumption; try reflexivity; [apply Z.leb_le; assumption|].
    apply negb_true_iff. assumption.
  Qed.

  (* the counter of days after planting is bounded by the steps since the planting step of the season in force *)
  Definition DapInv (c : ClockP) (s : St Phys) : Prop :=
    forall p, nthZ (plant c) (season s) = Some p -> (dap s <= tsc s - p)%Z.
End ClockFacts.

Section RunSeason.
  Variables (par : DPar R) (crops : Z -> CropFull R).
  Hypothesis POK : ParOK par crops.

  Notation PO := (procs_concrete crops).
  Notation procc := (proc_c par crops).
  Notation defc := (defined_c par crops).
  Notation EvC := (Ev (DState R) (Day.W R) (DRow R)).
  Notation is_day_c := (is_day (DState R) (Day.W R) (DRow R) procc defc).
  Notation ReachC := (Reach (DState R) (Day.W R) (DRow R) (DOut R) procc dead (matured par) (summary_of par) (reset par) defc).
  Notation performc := (perform (DState R) (Day.W R) (DRow R) (DOut R) procc dead (matured par) (summary_of par) (reset par)).
  Notation evof := (event_of (DState R) (Day.W R) (DRow R) procc dead).
  Notation minvc := (minv (DState R) (DRow R) (DOut R)).
  Notation CModelR := (Model (DState R) (DRow R) (DOut R)).
  Notation SInvc := (SInv par crops).
  Notation strong_evc := (strong_ev par crops).
  Notation DapInvc := (DapInv (DState R)).

  Variable c : ClockP.
  Variable ws : list (Day.W R).
  Hypothesis Hwf : wf_clock c.
  Hypothesis Hws : weather_ok (Day.W R) WOK ws.
  (* every season is short enough for the age reduction of Kcb of its crop: at most h - p in-season steps between the planting step p and
     the harvest step h (with fage = 0.3 %/day, Kcb = 1.05, MaxCanopyCD = 60: h - p <= 415) *)
  Hypothesis HSeason : forall k p h, nthZ (plant c) k = Some p -> nthZ (harv c) k = Some h ->
    let kk := cf_tr (crops (c_id (sel_crop par k))) in
    (IZR (h - p) - Transpiration.k_MaxCanopyCD kk - 5) * (Transpiration.k_fage kk / 100) <= Transpiration.k_Kcb kk.
  Hypothesis HCap : forall season gs dap tsc w s Rs,
    results_opt (ctx par season gs dap tsc w s) PO = Some Rs -> CapOK par Rs.

  (* the per-day condition of an event of the run, from the clock invariant *)
  Lemma dapok_of_clock (s : St (DState R)) : clock_inv (DState R) c s -> DapInvc c s ->
    DapOK par crops (season s) (in_season (DState R) dead c s) (dap_of (in_season (DState R) dead c s) (dap s)).
  Proof.
    intros Hci HJ. destruct (in_season (DState R) dead c s) eqn:G; [|intros G'; discriminate].
    destruct (in_season_true _ _ _ _ G) as (p & h & H0 & Ep & Eh & Hp & Hf).
    apply (DapOK_bound par crops _ _ _ (h - p)%Z POK); [|exact (HSeason _ _ _ Ep Eh)].
    pose proof (HJ p Ep). pose proof (ci_harv _ _ _ Hci Hf h Eh). unfold dap_of. lia.
  Qed.

  Lemma strong_perform_season (m m' : CModelR) w :
    minvc c m -> SInvc (st m) -> DapInvc c (st m) ->
    nthW (Day.W R) ws (tsc (st m)) = Some w -> day_defined (DState R) (Day.W R) dead defc c w (st m) = true ->
    performc c ws m = Ok m' ->
    strong_evc (evof c w (st m)) /\ SInvc (st m') /\
    (fin (st m') = false -> minvc c m' /\ DapInvc c (st m')).
  Proof.
    intros Hm HS HJ Ew Ed Hp. destruct Hm as [Hci Hfin].
    pose proof (event_is_day (DState R) (Day.W R) (DRow R) procc dead defc c w (st m) Ed) as Hday.
    pose proof (is_day_opt par crops _ Hday) as Hopt.
    set (e := evof c w (st m)) in *.
    assert (Hes : e_season _ _ _ e = season (st m)) by reflexivity.
    assert (Hg : e_gs _ _ _ e = in_season (DState R) dead c (st m)) by reflexivity.
    assert (Hed : e_dap _ _ _ e = dap_of (e_gs _ _ _ e) (dap (st m))) by reflexivity.
    assert (Hep : e_pre _ _ _ e = phys (st m)) by reflexivity.
    assert (Hew : e_w _ _ _ e = w) by reflexivity.
    rewrite Hes, Hed, Hep, Hew in Hopt.
    assert (Wk : WOK w) by exact (Hws _ _ Ew).
    assert (Dk : DapOK par crops (season (st m)) (e_gs _ _ _ e) (dap_of (e_gs _ _ _ e) (dap (st m))))
      by (rewrite Hg; apply dapok_of_clock; [exact Hci | exact HJ]).
    pose proof (strong_day par crops _ _ _ _ _ _ _ _ POK Wk Dk HS Hopt (fun Rs H => HCap _ _ _ _ _ _ Rs H)) as B.
    cbv zeta in B. destruct B as (B1 & B2 & B3 & B4 & B5).
    pose proof (day_balance_concrete _ _ _ _ _ _ _ _ _ _ (si_day _ _ _ _ _ HS) Hopt) as Bal. cbv zeta in Bal.
    assert (Hpost : StrongInv par crops (e_season _ _ _ e) (e_dap _ _ _ e) (e_post _ _ _ e)) by (rewrite Hes, Hed; exact B5).
    split.
    - split; [exact Hday|]. split; [rewrite Hep; exact (si_day _ _ _ _ _ HS)|]. split; [exact Hpost|].
      unfold water_day. cbv zeta. rewrite Hes, Hep. split; [exact Bal|]. split; [exact B1|]. split; [exact B2|]. split; [exact B3|exact B4].
    - pose proof (perform_cases _ _ _ _ procc dead (matured par) (summary_of par) (reset par) c ws m m' w Ew Hp) as Hc.
      cbv zeta in Hc. fold e in Hc.
      assert (HS' : SInvc (st m')).
      { unfold SInv. destruct Hc as [(E1 & E2 & E3) | (E1 & E2 & E3)]; rewrite E1, E2, E3.
        - rewrite <- Hes. exact Hpost.
        - rewrite <- Hes. exact (strong_reset par crops _ _ ws _ POK Hpost). }
      split; [exact HS'|]. intros Hf.
      destruct (perform_inv _ _ _ _ procc dead (matured par) (summary_of par) (reset par) c ws m m' Hwf (conj Hci Hfin) Hp)
        as (w' & s1 & row & sr & _ & _ & _ & _ & _ & _ & Hnf).
      destruct (Hnf Hf) as (Hm' & Hlt & _). split; [exact Hm'|].
      (* the new clock state: p' <= tsc' by ClockP.clock_inv, so a counter reset to 0 is fine; an in-season day adds one
         to dap and at least one to tsc *)
      intros p' Ep'. pose proof (ci_planted _ _ _ (proj1 Hm') p' Ep') as Hpl.
      destruct Hc as [(E1 & E2 & _) | (_ & E2 & _)]; rewrite E2; [|lia].
      rewrite Hed. unfold dap_of. destruct (e_gs _ _ _ e); [|lia].
      rewrite E1 in Ep'. pose proof (HJ p' Ep'). lia.
  Qed.

  (* ---- the two run loops ------------------------------------------------------------------------------------- *)
  Lemma run_steps_season_acc k : forall (m0 : CModelR) evs m m',
    ReachC c ws m0 evs m -> Forall strong_evc evs ->
    minvc c m -> SInvc (st m) -> DapInvc c (st m) ->
    run_steps_c par crops c ws k m = GOk m' ->
    exists evs', ReachC c ws m0 (evs' ++ evs) m' /\ Forall strong_evc (evs' ++ evs) /\ SInvc (st m').
  Proof.
    unfold run_steps_c. induction k as [|k IH]; intros m0 evs m m' HR HF Hm HS Hd; cbn [Clock.run_steps_g].
    - intros [= <-]. exists []. split; [exact HR|]. split; [exact HF|exact HS].
    - destruct (perform_g _ _ _ _ _ _ _ _ _ _ c ws m) as [m1|e|t] eqn:Ep; try discriminate.
      destruct (perform_g_ok _ _ _ _ _ _ _ _ _ _ _ _ _ _ Ep) as (Hp & w & Ew & Ed).
      pose proof (Reach_step _ _ _ _ _ _ _ _ _ _ c ws m0 evs m m1 w HR Ew Ed Hp) as HR1.
      destruct (strong_perform_season m m1 w Hm HS Hd Ew Ed Hp) as (He & HS1 & Hnf).
      assert (HF1 : Forall strong_evc (evof c w (st m) :: evs)) by (constructor; assumption).
      destruct (fin (st m1)) eqn:Ef.
      + intros [= <-]. exists [evof c w (st m)]. split; [exact HR1|]. split; [exact HF1|exact HS1].
      + intros H. destruct (Hnf eq_refl) as [Hm1 Hd1].
        destruct (IH m0 _ m1 m' HR1 HF1 Hm1 HS1 Hd1 H) as (evs' & A & B & C).
        exists (evs' ++ [evof c w (st m)]). rewrite <- app_assoc. split; [exact A|]. split; [exact B|exact C].
  Qed.

  Lemma run_till_season_acc fuel : forall (m0 : CModelR) evs m m',
    ReachC c ws m0 evs m -> Forall strong_evc evs -> SInvc (st m) ->
    (fin (st m) = false -> minvc c m /\ DapInvc c (st m)) ->
    run_till_c par crops c ws fuel m = Some (GOk m') ->
    exists evs', ReachC c ws m0 (evs' ++ evs) m' /\ Forall strong_evc (evs' ++ evs) /\ SInvc (st m').
  Proof.
    unfold run_till_c. induction fuel as [|fuel IH]; intros m0 evs m m' HR HF HS Hnf; cbn [Clock.run_till_g];
      destruct (fin (st m)) eqn:Ef; try discriminate;
      try (intros [= <-]; exists []; split; [exact HR|]; split; [exact HF|exact HS]).
    destruct (perform_g _ _ _ _ _ _ _ _ _ _ c ws m) as [m1|e|t] eqn:Ep; try discriminate.
    destruct (perform_g_ok _ _ _ _ _ _ _ _ _ _ _ _ _ _ Ep) as (Hp & w & Ew & Ed).
    pose proof (Reach_step _ _ _ _ _ _ _ _ _ _ c ws m0 evs m m1 w HR Ew Ed Hp) as HR1.
    destruct (Hnf eq_refl) as [Hm Hd].
    destruct (strong_perform_season m m1 w Hm HS Hd Ew Ed Hp) as (He & HS1 & Hnf1).
    assert (HF1 : Forall strong_evc (evof c w (st m) :: evs)) by (constructor; assumption).
    intros H. destruct (IH m0 _ m1 m' HR1 HF1 HS1 Hnf1 H) as (evs' & A & B & C).
    exists (evs' ++ [evof c w (st m)]). rewrite <- app_assoc. split; [exact A|]. split; [exact B|exact C].
  Qed.

  (* run_model(num_steps = k) *)
  Theorem run_steps_strong_season k (m0 m' : CModelR) :
    minvc c m0 -> SInvc (st m0) -> DapInvc c (st m0) ->
    run_steps_c par crops c ws k m0 = GOk m' ->
    exists evs : list EvC,
      ReachC c ws m0 evs m' /\ SInvc (st m') /\ Forall strong_evc evs /\
      chained _ _ _ (reset par) ws (phys (st m')) evs /\
      rows (tabs m') = map (fun e => (e_tsc _ _ _ e, e_row _ _ _ e)) evs ++ rows (tabs m0).
  Proof.
    intros Hm HS Hd H.
    destruct (run_steps_season_acc k m0 [] m0 m' (Reach_nil _ _ _ _ _ _ _ _ _ _ c ws m0) (Forall_nil _) Hm HS Hd H) as (evs & HR & HF & HS').
    rewrite app_nil_r in HR, HF. exists evs. split; [exact HR|]. split; [exact HS'|]. split; [exact HF|]. split.
    - exact (proj1 (reach_chained _ _ _ _ _ _ _ _ _ _ _ _ _ _ _ HR)).
    - exact (reach_rows _ _ _ _ _ _ _ _ _ _ _ _ _ _ _ HR).
  Qed.

  (* run_model(till_termination = True) *)
  Theorem run_till_strong_season fuel (m0 m' : CModelR) :
    minvc c m0 -> SInvc (st m0) -> DapInvc c (st m0) ->
    run_till_c par crops c ws fuel m0 = Some (GOk m') ->
    exists evs : list EvC,
      ReachC c ws m0 evs m' /\ SInvc (st m') /\ Forall strong_evc evs /\
      chained _ _ _ (reset par) ws (phys (st m')) evs /\
      rows (tabs m') = map (fun e => (e_tsc _ _ _ e, e_row _ _ _ e)) evs ++ rows (tabs m0).
  Proof.
    intros Hm HS Hd H.
    destruct (run_till_season_acc fuel m0 [] m0 m' (Reach_nil _ _ _ _ _ _ _ _ _ _ c ws m0) (Forall_nil _) HS (fun _ => conj Hm Hd) H)
      as (evs & HR & HF & HS').
    rewrite app_nil_r in HR, HF. exists evs. split; [exact HR|]. split; [exact HS'|]. split; [exact HF|]. split.
    - exact (proj1 (reach_chained _ _ _ _ _ _ _ _ _ _ _ _ _ _ _ HR)).
    - exact (reach_rows _ _ _ _ _ _ _ _ _ _ _ _ _ _ _ HR).
  Qed.

  (* the model right after initialisation satisfies the clock hypotheses (season 0 starts at step 0 = its planting step
     with dap = 0; before the first season no planting step is in force) *)
  Lemma init_strong_season (s0 : DState R) (m0 : CModelR) :
    (2 <= n_steps c)%Z -> plant c <> [] -> (forall p, nthZ (plant c) 0 = Some p -> (0 <= p)%Z) ->
    init_c c s0 = Ok m0 ->
    (forall k, (k = 0 \/ k = -1)%Z -> StrongInv par crops k 0 s0) ->
    minvc c m0 /\ SInvc (st m0) /\ DapInvc c (st m0).
  Proof.
    intros H2 Hp Hp0 Hi HS.
    destruct (init_strong par crops c Hwf s0 m0 H2 Hp Hp0 Hi HS) as (Hm & HS0 & _). split; [exact Hm|]. split; [exact HS0|].
    revert Hi. unfold init_c, init_model. destruct (plant c) as [|p r] eqn:Epl; [discriminate|]. intros [= <-].
    unfold DapInv. cbn [st season dap tsc]. intros p'. destruct (Z.eqb_spec p 0) as [->|Hne].
    - unfold nthZ. rewrite Epl. cbn. intros [= <-]. lia.
    - unfold nthZ. cbn. discriminate.
  Qed.
End RunSeason.

(* the premise stated with a larger bound on the season length (e.g. h - p + 1) implies the one used above *)
Lemma season_premise_weaken par crops c (d : Z) : ParOK par crops -> (0 <= d)%Z ->
  (forall k p h, nthZ (plant c) k = Some p -> nthZ (harv c) k = Some h ->
     let kk := cf_tr (crops (c_id (sel_crop par k))) in
     (IZR (h - p + d) - Transpiration.k_MaxCanopyCD kk - 5) * (Transpiration.k_fage kk / 100) <= Transpiration.k_Kcb kk) ->
  (forall k p h, nthZ (plant c) k = Some p -> nthZ (harv c) k = Some h ->
     let kk := cf_tr (crops (c_id (sel_crop par k))) in
     (IZR (h - p) - Transpiration.k_MaxCanopyCD kk - 5) * (Transpiration.k_fage kk / 100) <= Transpiration.k_Kcb kk).
Proof.
  intros P Hd H k p h Ep Eh. cbv zeta. specialize (H k p h Ep Eh). cbv zeta in H.
  pose proof (co_fage _ _ _ _ (po_crop _ _ P k)) as Hf.
  eapply Rle_trans; [|exact H]. apply Rmult_le_compat_r; [lra|].
  assert (IZR (h - p) <= IZR (h - p + d)) by (apply IZR_le; lia). lra.
Qed.

(* without a water table no hypothesis about intermediate values of any day is left *)
Theorem run_till_strong_season_no_table par crops c ws fuel (m0 m' : Model (DState R) (DRow R) (DOut R)) :
  ParOK par crops -> wf_clock c -> weather_ok (Day.W R) WOK ws ->
  (forall k p h, nthZ (plant c) k = Some p -> nthZ (harv c) k = Some h ->
     let kk := cf_tr (crops (c_id (sel_crop par k))) in
     (IZR (h - p) - Transpiration.k_MaxCanopyCD kk - 5) * (Transpiration.k_fage kk / 100) <= Transpiration.k_Kcb kk) ->
  p_water_table par <> 1%Z ->
  minv (DState R) (DRow R) (DOut R) c m0 -> SInv par crops (st m0) -> DapInv (DState R) c (st m0) ->
  run_till_c par crops c ws fuel m0 = Some (GOk m') ->
  exists evs : list (Ev (DState R) (Day.W R) (DRow R)),
    Reach (DState R) (Day.W R) (DRow R) (DOut R) (proc_c par crops) dead (matured par) (summary_of par) (reset par) (defined_c par crops)
          c ws m0 evs m' /\
    SInv par crops (st m') /\ Forall (strong_ev par crops) evs /\
    chained _ _ _ (reset par) ws (phys (st m')) evs /\
    rows (tabs m') = map (fun e => (e_tsc _ _ _ e, e_row _ _ _ e)) evs ++ rows (tabs m0).
Proof.
  intros P Hwf Hws HD Hwt. apply (run_till_strong_season par crops P c ws Hwf Hws HD).
  intros season gs dap tsc w s Rs _. apply CapOK_no_table. exact Hwt.
Qed.

Theorem run_steps_strong_season_no_table par crops c ws k (m0 m' : Model (DState R) (DRow R) (DOut R)) :
  ParOK par crops -> wf_clock c -> weather_ok (Day.W R) WOK ws ->
  (forall k p h, nthZ (plant c) k = Some p -> nthZ (harv c) k = Some h ->
     let kk := cf_tr (crops (c_id (sel_crop par k))) in
     (IZR (h - p) - Transpiration.k_MaxCanopyCD kk - 5) * (Transpiration.k_fage kk / 100) <= Transpiration.k_Kcb kk) ->
  p_water_table par <> 1%Z ->
  minv (DState R) (DRow R) (DOut R) c m0 -> SInv par crops (st m0) -> DapInv (DState R) c (st m0) ->
  run_steps_c par crops c ws k m0 = GOk m' ->
  exists evs : list (Ev (DState R) (Day.W R) (DRow R)),
    Reach (DState R) (Day.W R) (DRow R) (DOut R) (proc_c par crops) dead (matured par) (summary_of par) (reset par) (defined_c par crops)
          c ws m0 evs m' /\
    SInv par crops (st m') /\ Forall (strong_ev par crops) evs /\
    chained _ _ _ (reset par) ws (phys (st m')) evs /\
    rows (tabs m') = map (fun e => (e_tsc _ _ _ e, e_row _ _ _ e)) evs ++ rows (tabs m0).
Proof.
  intros P Hwf Hws HD Hwt. apply (run_steps_strong_season par crops P c ws Hwf Hws HD).
  intros season gs dap tsc w s Rs _. apply CapOK_no_table. exact Hwt.
Qed.

Print Assumptions run_steps_strong_season.
Print Assumptions run_till_strong_season.
Print Assumptions run_till_strong_season_no_table.
Print Assumptions run_steps_strong_season_no_table.
Print Assumptions init_strong_season.
Print Assumptions season_premise_weaken.
