(* DaySideU.v — unit-level facts needed to discharge DayConcreteP.DaySide from a state invariant (see DaySideP.v).
   Nothing here mentions the day orchestration: every lemma is about one unit model at the real instance.

   Canopy:         the ranges of ccx_w / ccx_w_ns / cc_adj / cc_adj_ns of a canopy_cover result (CanopyR.canopy_inv covers
                   cc, cc_ns, ccx_act_ns, cc0_adj, ccx_act only);
   Roots:          sign of the root-density correction r_cor and lower bound of z_root after root_development;
   RainIrr:        day_submerged after rainfall_partition is 0 or the incoming counter;
   Transpiration:  the counters written by transpiration (aeration days per compartment >= 0, day_submerged a non-negative
                   integer, tr_ratio in [0,1], the canopy cover written back is today's or yesterday's, crop age). *)
From Coq Require Import List Bool ZArith.
From Flocq Require Import Core.
From AC Require Import Num RInst Params Kernels.
From AC.Water Require RootZone RainIrr Transpiration.
From AC.Crop Require Canopy Roots.
From AC.proofs Require Import ProfR KernelsR.
From AC.proofs Require CanopyR TranspirationR RootsR RainIrrR.
Import ListNotations.
Local Open Scope R_scope.

(* ============================================================================================================ *)
(*  Canopy                                                                                                       *)
(* ============================================================================================================ *)
Section CanopyFacts.
  Import Canopy CanopyR.

  (* the micro-advective adjustment 1.72 cc - cc^2 + 0.3 cc^3 is non-negative on [0,1] (it may exceed 1:
     EvaporationR.ccadj_le_one_refuted) *)
  Lemma cc_adj_of_nonneg cc : 0 <= cc <= 1 -> 0 <= cc_adj_of cc.
  Proof.
    intros [[H0|H0] H1]; unfold cc_adj_of; rnum.
    - rewrite RainIrrR.Rpow_2, RainIrrR.Rpow_3 by exact H0.
      assert (0 <= cc * (172 / 100 - cc + 3 / 10 * (cc * cc))) by (apply Rmult_le_pos; nra). nra.
    - subst cc. unfold Rpow. destruct (Req_EM_T 0 0) as [_|N]; [|contradiction N; reflexivity].
      destruct (Req_EM_T 2 0); [lra|]. destruct (Req_EM_T 3 0); lra.
  Qed.

  (* where the growing-season body takes ccx_w, ccx_w_ns, cc_adj, cc_adj_ns, cc_prev from *)
  Lemma canopy_gs_ext k s tcc dt Dr_Rz Dr_Zt TAW_Rz TAW_Zt et0 :
    let s' := canopy_gs k s tcc dt Dr_Rz Dr_Zt TAW_Rz TAW_Zt et0 in
    (s_ccx_w s' = s_ccx_w s \/ s_ccx_w s' = s_cc s') /\
    (s_ccx_w_ns s' = s_ccx_w_ns s \/ s_ccx_w_ns s' = s_ccx_act_ns s) /\
    s_cc_adj s' = cc_adj_of (s_cc s') /\ s_cc_adj_ns s' = cc_adj_of (s_cc_ns s') /\ s_cc_prev s' = s_cc s.
  Proof.
    cbv zeta. unfold canopy_gs.
    destruct (if nleb num_ops (Dr_Rz / TAW_Rz)%num (Dr_Zt / TAW_Zt)%num then (Dr_Rz, TAW_Rz) else (Dr_Zt, TAW_Zt)) as [Dr taw].
    assert (Hp : snd (cc_potential k tcc dt (s_cc_ns s) (s_ccx_act_ns s) (s_ccx_w_ns s)) = s_ccx_w_ns s \/
                 snd (cc_potential k tcc dt (s_cc_ns s) (s_ccx_act_ns s) (s_ccx_w_ns s)) = s_ccx_act_ns s).
    { unfold cc_potential. destruct (cc_outside k tcc); [left; reflexivity|].
      destruct (nltb num_ops tcc (k_canopy_dev_end k)); [left; reflexivity|].
      destruct (nltb num_ops (k_canopy_dev_end k) tcc); [|left; reflexivity].
      destruct (nltb num_ops tcc (k_senescence k)); right; reflexivity. }
    destruct (cc_potential k tcc dt (s_cc_ns s) (s_ccx_act_ns s) (s_ccx_w_ns s)) as [[cc_ns xans] xwns]. cbn [snd] in Hp.
    destruct (cc_actual _ _ _ _ _) as [[[[cc c0a] xa] prot] dead].
    match goal with |- context [cc_senescence ?k ?s ?t ?d ?ks ?Dr ?tw ?e ?c ?c0 ?x ?dd] =>
      assert (Hs : let '(cc', _, _, _, _, _, _, xw) := cc_senescence k s t d ks Dr tw e c c0 x dd in xw = s_ccx_w s \/ xw = cc') end.
    { unfold cc_senescence. cbv zeta. destruct (_ && _).
      - destruct (_ && _).
        + destruct (cc_stress_branch _ _ _ _ _ _ _ _ _ _ _) as [[[c1 a1] x1] d1].
          destruct (nltb num_ops (s_ccx_w s) c1); [right|left]; reflexivity.
        + destruct (cc_rewater_branch _ _ _ _ _ _ _ _) as [[c1 x1] d1].
          destruct (nltb num_ops (s_ccx_w s) c1); [right|left]; reflexivity.
      - left; reflexivity. }
    destruct (cc_senescence _ _ _ _ _ _ _ _ _ _ _ _) as [[[[[[[cc' c0a'] xa'] dead'] premat] ces] tes] xw].
    unfold cc_ns_raise. destruct (nltb num_ops cc_ns cc'); cbn; repeat split; try reflexivity; assumption.
  Qed.

  (* the ranges not covered by canopy_inv, for every call of canopy_cover *)
  Theorem canopy_cover_ext k t0 s dap dcds gdd_cum dgdds gdd Dr_Rz Dr_Zt TAW_Rz TAW_Zt et0 gs s' :
    crop_ok k -> canopy_inv k t0 s ->
    0 <= s_ccx_w s <= k_CCx k -> 0 <= s_ccx_w_ns s <= k_CCx k ->
    (gs = true -> step_ok k (dt_of k gdd) /\ t0 <= tcc_of k dap dcds gdd_cum dgdds) ->
    canopy_cover k s dap dcds gdd_cum dgdds gdd Dr_Rz Dr_Zt TAW_Rz TAW_Zt et0 gs = Some s' ->
    0 <= s_ccx_w s' <= k_CCx k /\ 0 <= s_ccx_w_ns s' <= k_CCx k /\ 0 <= s_cc_adj s' /\ 0 <= s_cc_adj_ns s' /\
    s_cc_prev s' = s_cc s.
  Proof.
    intros Hk Hi Hw Hwn Hg He.
    pose proof (canopy_inv_step _ _ _ _ _ _ _ _ _ _ _ _ _ _ _ Hk Hi Hg He) as Hs.
    pose proof Hk as [H0 H0x Hx1 Hgc Hd].
    destruct gs.
    - assert (Ex : exists tcc dt, s' = canopy_gs k s tcc dt Dr_Rz Dr_Zt TAW_Rz TAW_Zt et0).
      { revert He. unfold canopy_cover. destruct (k_cal k =? 1)%Z; [|destruct (k_cal k =? 2)%Z; [|discriminate]];
          intros [= <-]; eexists; eexists; reflexivity. }
      destruct Ex as (tcc & dt & ->).
      destruct (canopy_gs_ext k s tcc dt Dr_Rz Dr_Zt TAW_Rz TAW_Zt et0) as (E1 & E2 & E3 & E4 & E5).
      pose proof (ci_cc _ _ _ Hs) as C1. pose proof (ci_cc_ns _ _ _ Hs) as C2. pose proof (ci_ccx_act_ns _ _ _ Hi) as C3.
      split; [destruct E1 as [-> | ->]; lra|]. split; [destruct E2 as [-> | ->]; lra|].
      rewrite E3, E4. split; [apply cc_adj_of_nonneg; lra|]. split; [apply cc_adj_of_nonneg; lra|]. exact E5.
    - revert He. unfold canopy_cover. intros [= <-]. cbn. rnum. repeat split; lra.
  Qed.
End CanopyFacts.

(* ============================================================================================================ *)
(*  Roots                                                                                                        *)
(* ============================================================================================================ *)
Section RootFacts.
  Import Roots RootsR.

  Lemma Rinv_nonneg x : 0 <= x -> 0 <= / x.
  Proof. intros [H|H]; [left; apply Rinv_0_lt_compat; exact H | subst; rewrite Rinv_0; lra]. Qed.

  (* the root-density correction is non-negative as soon as today's root depth is positive *)
  Lemma rd_rcor_nonneg c zroot zrpot b tpot trr r :
    0 <= rc_SxTop c -> 0 <= rc_SxBot c -> 0 < zroot ->
    rd_rcor c zroot zrpot b tpot trr = Some r -> 0 <= r.
  Proof.
    intros HT HB Hz. unfold rd_rcor. rnum.
    destruct (Rltb_spec zroot zrpot) as [Hlt|Hge]; [|intros [= <-]; lra].
    destruct (negb b && _); [discriminate|].
    destruct (Rltb_spec 0 tpot).
    - intros [= <-]. match goal with |- context [Rltb ?a 1] => destruct (Rltb_spec a 1) end; lra.
    - intros [= <-].
      assert (Hq : 1 <= zrpot / zroot).
      { apply (Rmult_le_reg_r zroot); [exact Hz|]. unfold Rdiv. rewrite Rmult_assoc, Rinv_l by lra. lra. }
      set (q := zrpot / zroot) in *.
      assert (Hn : 0 <= 2 * q * ((rc_SxTop c + rc_SxBot c) / 2) - rc_SxTop c) by nra.
      apply Rmult_le_pos; [exact Hn | apply Rinv_nonneg; exact HB].
  Qed.

  (* inversion of an in-season call that also exposes the root-density correction *)
  Lemma root_development_inv2 c p dap zroot dcd gddcum dgdd trr th cc ccns germ rcor tpot zgw gdd wt z' r' :
    rc_fshape_r c <> 0 ->
    root_development c p dap zroot dcd gddcum dgdd trr th cc ccns germ rcor tpot zgw gdd true wt = Some (z', r') ->
    exists tadj told d b,
      rd_times c dap dcd gddcum dgdd gdd = Some (tadj, told) /\
      rd_dzr c p th (if (dap =? 1)%Z then rc_Zmin c else zroot) (pot c told) (pot c tadj) trr cc ccns germ = Some d /\
      z' = rd_table (rc_Zmin c) ((if (dap =? 1)%Z then rc_Zmin c else zroot) + d) zgw wt /\
      rd_rcor c ((if (dap =? 1)%Z then rc_Zmin c else zroot) + d) (pot c tadj) b tpot trr = Some r'.
  Proof.
    intros Hf. unfold root_development.
    destruct (rd_times c dap dcd gddcum dgdd gdd) as [[tadj told]|]; [|discriminate].
    destruct (rd_potential c told) as [[zrold b1]|] eqn:E1; [|discriminate].
    destruct (rd_potential c tadj) as [[zr b2]|] eqn:E2; [|discriminate].
    apply rd_potential_eq in E1; [|exact Hf]. apply rd_potential_eq in E2; [|exact Hf]. subst zrold zr.
    destruct (rd_dzr _ _ _ _ _ _ _ _ _ _) as [d|] eqn:E3; [|discriminate].
    destruct (rd_rcor _ _ _ _ _ _) as [r1|] eqn:E4; [|discriminate].
    intros H; inversion H; subst. exists tadj, told, d, b2. repeat split; try reflexivity; assumption.
  Qed.

  (* what the day-level invariant needs from root_development: r_cor >= 0 and, in the season, z_root >= Zmin.
     On days other than the first after planting the incoming z_root must be >= Zmin. *)
  Theorem root_development_side c p dap zroot dcd gddcum dgdd trr th cc ccns germ rcor tpot zgw gdd gs wt z' r' :
    rc_ok c -> zmin_cm (rc_Zmin c) -> wf_prof p -> pen_ok p -> 0 <= rc_SxTop c -> 0 <= rc_SxBot c ->
    0 <= trr <= 1 -> 0 <= gdd -> 0 <= rcor ->
    (gs = true -> dap <> 1%Z -> rc_Zmin c <= zroot) ->
    root_development c p dap zroot dcd gddcum dgdd trr th cc ccns germ rcor tpot zgw gdd gs wt = Some (z', r') ->
    0 <= r' /\ (gs = true -> rc_Zmin c <= z').
  Proof.
    intros Hc Hcm Hp Hpen HT HB Ht Hg Hr Hz. destruct gs.
    - intros H. assert (Hf : rc_fshape_r c <> 0) by (pose proof (ok_fr c Hc); lra).
      apply root_development_inv2 in H; [|exact Hf]. destruct H as (tadj & told & d & b & Et & Ed & -> & Er).
      pose proof (rd_times_le _ _ _ _ _ _ _ _ Hg Et) as Hle.
      pose proof (pot_mono c told tadj Hc Hle) as Hm. pose proof (pot_range c told Hc) as Hr1.
      apply rd_dzr_range in Ed; try assumption; [|lra]. destruct Ed as (zo & zn & _ & _ & Hd).
      set (zinit := if (dap =? 1)%Z then rc_Zmin c else zroot) in *.
      assert (Hzi : rc_Zmin c <= zinit).
      { unfold zinit. destruct (Z.eqb_spec dap 1); [lra|]. apply Hz; [reflexivity|assumption]. }
      pose proof (ok_zmin c Hc) as Hz0.
      split.
      + eapply rd_rcor_nonneg; [exact HT|exact HB| |exact Er]. lra.
      + intros _. pose proof (rd_table_range (rc_Zmin c) (zinit + d) zgw wt ltac:(lra)). lra.
    - unfold root_development. intros [= <- <-]. split; [exact Hr | discriminate].
  Qed.
End RootFacts.

(* ============================================================================================================ *)
(*  rainfall_partition                                                                                           *)
(* ============================================================================================================ *)
Lemma rainfall_partition_daysub P th ds srinhb bunds zbund pct cn0 adjcn zcn ncomp p ro infl ds' :
  RainIrr.rainfall_partition P th ds srinhb bunds zbund pct cn0 adjcn zcn ncomp p = Some (ro, infl, ds') ->
  ds' = 0%Z \/ ds' = ds.
Proof.
  unfold RainIrr.rainfall_partition. destruct (_ && _).
  - destruct (RainIrr.rp_cn _ _ _ _ _ _ _) as [cn|]; [|discriminate].
    destruct (RainIrr.rp_split _ _) as [[r i]|]; [|discriminate]. intros [= _ _ <-]. left; reflexivity.
  - intros [= _ _ <-]. right; reflexivity.
Qed.

(* ============================================================================================================ *)
(*  Transpiration                                                                                                *)
(* ============================================================================================================ *)
Section TrFacts.
  Import RootZone Transpiration TranspirationR.

  Definition nonneg_int (x : R) : Prop := exists n : Z, (0 <= n)%Z /\ x = IZR n.

  Lemma nonneg_int_0 : nonneg_int 0.
  Proof. exists 0%Z. split; [lia|reflexivity]. Qed.
  Lemma nonneg_int_IZR n : (0 <= n)%Z -> nonneg_int (IZR n).
  Proof. intros H. exists n. split; [exact H|reflexivity]. Qed.
  Lemma nonneg_int_succ x : nonneg_int x -> nonneg_int (x + 1).
  Proof. intros (n & Hn & ->). exists (n + 1)%Z. split; [lia|]. rewrite plus_IZR. reflexivity. Qed.
  Lemma nonneg_int_ge0 x : nonneg_int x -> 0 <= x.
  Proof. intros (n & Hn & ->). apply IZR_le. exact Hn. Qed.
  (* the integer step used by tr_wf: below an integer bound, one more still fits *)
  Lemma nonneg_int_step x L : nonneg_int x -> x < IZR L -> x + 1 <= IZR L.
  Proof. intros (n & Hn & ->) H. apply lt_IZR in H. rewrite <- plus_IZR. apply IZR_le. lia. Qed.
  Lemma Ztrunc_nonneg_int x : nonneg_int x -> IZR (Ztrunc x) = x.
  Proof. intros (n & _ & ->). rewrite Ztrunc_IZR. reflexivity. Qed.

  Lemma tr_ratio_range a b : 0 <= tr_ratio a b <= 1.
  Proof.
    unfold tr_ratio. rnum.
    set (r := if Rltb 0 b then if Rltb a b then a / b else 1 else 1).
    destruct (Rltb_spec r 0); [lra|]. destruct (Rltb_spec 1 r); lra.
  Qed.

  Lemma tr_surface_daysub lag p surf ds aer T u :
    tr_surface lag p surf ds aer T = Some u -> u_day_sub u = ds \/ u_day_sub u = ds + 1.
  Proof.
    unfold tr_surface. rnum. destruct (_ && _); [|intros [= <-]; left; reflexivity].
    destruct (tr_sub_aer lag p aer); [|discriminate]. intros [= <-]. right; reflexivity.
  Qed.

  (* the extraction loop keeps the aeration counters non-negative *)
  Lemma tr_loop_aer k m pus ds : 1 < k_LagAer k -> forall plan th aer te tr th' aer' tr',
    Forall (fun a => 0 <= a) aer ->
    tr_loop k m pus ds plan th aer te tr = Some (th', aer', tr') -> Forall (fun a => 0 <= a) aer'.
  Proof.
    intros Hl. induction plan as [|x plan IH]; intros th aer te tr th' aer' tr' Ha; cbn [tr_loop].
    - intros [= _ <- _]. exact Ha.
    - rnum. destruct (Rltb 0 te); [|intros [= _ <- _]; exact Ha].
      destruct pus as [pu|]; [|discriminate]. destruct th as [|t th]; [discriminate|]. destruct aer as [|a aer]; [discriminate|].
      inversion Ha as [|? ? Ha0 Ha']; subst.
      destruct (tr_loop _ _ _ _ _ _ _ _ _) as [[[ths aers] tr1]|] eqn:E; [|discriminate].
      intros [= _ <- _]. constructor.
      + exact (proj2 (tr_aercomp_nonneg k (pl_comp x) t ds a Hl Ha0)).
      + eapply IH; [exact Ha'|exact E].
  Qed.

  (* what transpiration writes into the counters of the state *)
  Theorem transpiration_counters p ztop k m smt s et0 co2c co2r gs gdd o :
    1 < k_LagAer k -> Forall (fun a => 0 <= a) (s_aer_comp s) -> nonneg_int (s_day_sub s) -> 0 <= s_tr_ratio s <= 1 ->
    transpiration p ztop k m smt s et0 co2c co2r gs gdd = Some o ->
    let s' := o_state o in
    Forall (fun a => 0 <= a) (s_aer_comp s') /\ nonneg_int (s_day_sub s') /\ 0 <= s_tr_ratio s' <= 1 /\
    (s_cc s' = s_cc s \/ s_cc s' = s_cc_prev s) /\
    s_age_days s' = (if gs then tr_age (s_dap s) (s_delayed_cds s) (k_MaxCanopyCD k) (s_age_days s) else s_age_days s) /\
    s_age_days_ns s' = (if gs then tr_age (s_dap s) (s_delayed_cds s) (k_MaxCanopyCD k) (s_age_days_ns s) else s_age_days_ns s).
  Proof.
    intros Hl Ha Hd Hr. destruct gs.
    - tr_inv. cbv zeta. cbn [o_state s_aer_comp s_day_sub s_tr_ratio s_cc s_age_days s_age_days_ns].
      assert (Hua : Forall (fun a => 0 <= a) (u_aer u)) by (eapply tr_surface_aer; [| |exact Eu]; [lra|exact Ha]).
      split; [eapply tr_loop_aer; [exact Hl|exact Hua|exact El]|].
      split; [destruct (tr_surface_daysub _ _ _ _ _ _ _ Eu) as [-> | ->]; [exact Hd | apply nonneg_int_succ; exact Hd]|].
      split; [apply tr_ratio_range|].
      split; [destruct (_ && _); [right|left]; reflexivity|]. split; reflexivity.
    - unfold transpiration. intros [= <-]. cbv zeta. cbn. repeat split; try assumption; try lra.
  Qed.

  (* the age written by transpiration stays below the bound that keeps the crop coefficient non-negative *)
  Lemma tr_age_bound dap dcd maxcd age fage kcb :
    0 <= fage -> 0 <= dcd ->
    (age - 5) * (fage / 100) <= kcb -> (dap - maxcd - 5) * (fage / 100) <= kcb ->
    (tr_age dap dcd maxcd age - 5) * (fage / 100) <= kcb.
  Proof.
    intros Hf Hd Ha Hb. unfold tr_age. rnum. destruct (Rltb_spec maxcd (dap - dcd)); [|exact Ha].
    apply Rle_trans with ((dap - maxcd - 5) * (fage / 100)); [|exact Hb].
    apply Rmult_le_compat_r; lra.
  Qed.

  (* tr_kcb >= 0 from the age bound, ccx_w in [0,1] and the CO2 range *)
  Lemma tr_kcb_nonneg_age k age ccxw co2c co2r :
    0 <= k_Kcb k -> 0 <= k_fage k -> (age - 5) * (k_fage k / 100) <= k_Kcb k -> 0 <= ccxw <= 1 ->
    co2r < 550 -> co2c - co2r <= 20 * (550 - co2r) ->
    0 <= tr_kcb k age ccxw co2c co2r.
  Proof.
    intros HK Hf Ha Hc Hr Hco. apply tr_kcb_nonneg; try assumption.
    intros H5. apply Rle_trans with ((age - 5) * (k_fage k / 100)); [|exact Ha].
    assert (0 <= (age - 5) * (k_fage k / 100)) by (apply Rmult_le_pos; lra). nra.
  Qed.

  (* Without a bound on the crop age (DaySideP.DapOK) the crop coefficient, and with it the potential transpiration, becomes
     negative although every parameter is in range: Kcb = 1.1, fage = 0.15 %/day, CCxW = 1, crop age 800 days
     (dap - MaxCanopyCD; the reduction (age - 5) * fage/100 * CCxW = 1.1925 exceeds Kcb) *)
  Theorem kcb_age_refuted : exists (k : TrCrop) (age ccxw co2c co2r ccadj et0 : R),
    0 <= k_Kcb k /\ 0 <= k_fage k /\ 0 <= ccxw <= 1 /\ co2r < 550 /\ co2c - co2r <= 20 * (550 - co2r) /\ 0 < ccadj /\ 0 < et0 /\
    tr_kcb k age ccxw co2c co2r < 0 /\ tr_pot k (tr_kcb k age ccxw co2c co2r) ccadj et0 ccxw ccxw < 0.
  Proof.
    exists ex_k, 800, 1, (36941/100), (36941/100), 1, 5.
    assert (Hk : tr_kcb ex_k 800 1 (36941/100) (36941/100) = 11/10 - (800 - 5) * (15/100/100) * 1).
    { unfold tr_kcb. cbn [ex_k k_Kcb k_fage]. rnum. rewrite (Rltb_true 5 800) by lra.
      rewrite (Rltb_false (36941/100) (36941/100)) by lra. reflexivity. }
    cbn [ex_k k_Kcb k_fage]. repeat (split; [lra|]). rewrite Hk.
    unfold tr_pot. rnum. rewrite (Rltb_false 1 1) by lra. lra.
  Qed.
End TrFacts.

Print Assumptions canopy_cover_ext.
Print Assumptions root_development_side.
Print Assumptions transpiration_counters.
Print Assumptions kcb_age_refuted.
