(* DrainageR.v — theorems about Water/Drainage.v at the real instance.

   Main results (profiles of any length; predicates of ProfR.v; hypotheses H := wf_prof p, in_bounds p th, fcadj_ok p fc,
   drainage p th fc = Some (th', DeepPerc, flux)):
     drainage_balance              H -> storage p th' + DeepPerc = storage p th                       (C01)
     drainage_balance_refuted      without in_bounds (th_0 > th_s) 9 mm are lost at the soil surface
     drainage_bounds               H -> in_bounds p th'                                               (C03)
     drainage_lower                H -> th'_i >= min(th_i, th_fc_i)  (Forall3)
     drainage_lower_fcadj_refuted  th'_i >= min(th_i, fcadj_i) does NOT hold (over-saturation arm)
     drainage_deep_perc_nonneg     H -> 0 <= DeepPerc                                                 (C04)
     drainage_flux_range           H -> Forall2 (fun c f => 0 <= f <= c_ksat c) p flux                (C04)
     drainage_flux_nonneg, drainage_flux_le_ksat   (corollaries in the shapes other units consume)
     drainage_deep_perc_last       DeepPerc = last flux 0                 (no hypotheses)
     drainage_length               length th' = length th /\ length flux = length th  (no hypotheses)
     drainage_defined_iff          Some _  <->  length th <= length p /\ length th <= length fc
     drainage_defined              the instance asked for (equal lengths)
     drainage_denominators         every evaluated denominator is non-zero / log argument positive
                                   (needs dz < dzsum below the first compartment: [dzsum_ok])
     drainage_example              concrete 2-compartment run: hypotheses satisfiable, result computed

   Proof idea.  The processed compartments (nearest first) satisfy the suffix-conservation invariant [FInv]:
   for every processed compartment j,  FluxOut[j] = (initial storage of 0..j) - (current storage of 0..j),
   0 <= FluxOut[j], and the initial contents are <= th_s.  The redistribution loop pushes an excess e upwards
   only if e <= FluxOut of the compartment it enters (shown from the invariant), hence FluxOut stays
   non-negative, and the excess is exhausted before the soil surface is reached (the top compartment cannot
   have lost more water than its free pore space can take back).  So the remainder the Python drops is 0. *)
From AC Require Import Num RInst Params.
From AC.proofs Require Import ProfR.
From AC.Water Require Import Drainage.
Local Open Scope R_scope.

(* ------------------------------------------------------------------------------------------------ *)
(** * Water held by a compartment *)

Lemma W_0 c : W c 0 = 0.
Proof. unfold W; ring. Qed.
Lemma W_nonneg c x : 0 < c_dz c -> 0 <= x -> 0 <= W c x.
Proof. intros Hd Hx. rewrite <- (W_0 c). apply W_mono; assumption. Qed.
Lemma W_alt' c d : d * c_dz c * 1000 = W c d.
Proof. reflexivity. Qed.

(* ------------------------------------------------------------------------------------------------ *)
(** * Denominators and logarithm arguments (definedness)

   The Python divides by
     (D1) exp(th_s - th_fc) - 1            (drainage ability, exp arm; thX)
     (D2) 1000 * (dzsum - dz)              (storage arm, line 119)
     (D3) tau * (th_s - th_fc)             (thX, line 127)
     (D4) 1000 * dz                        (lines 140, 219, 317)
   and takes the logarithm of
     (L1) A = 1 + dthdt*(exp(th_s-th_fc)-1)/(tau*(th_s-th_fc))   (line 129, only when dthdt > 0).
   In Coq's reals x/0 = 0 silently, so these facts are stated and proved separately. *)

Lemma den_exp_pos c : wf_comp c -> 0 < exp (c_th_s c - c_th_fc c) - 1.
Proof. intros H. pose proof (wf_fc_s c H). pose proof (exp_gt_1 (c_th_s c - c_th_fc c)). lra. Qed.
Lemma den_tau_pos c : wf_comp c -> 0 < c_tau c * (c_th_s c - c_th_fc c).
Proof. intros H. pose proof (wf_fc_s c H). pose proof (wf_tau c H). apply Rmult_lt_0_compat; lra. Qed.
Lemma den_dz_pos c : wf_comp c -> 0 < 1000 * c_dz c.
Proof. intros H. pose proof (wf_dz c H). lra. Qed.
Lemma den_prethick_pos c : c_dz c < c_dzsum c -> 0 < 1000 * (c_dzsum c - c_dz c).
Proof. intros H. lra. Qed.
Lemma log_arg_pos c q : wf_comp c -> 0 <= q ->
  1 <= 1 + q * (exp (c_th_s c - c_th_fc c) - 1) / (c_tau c * (c_th_s c - c_th_fc c)).
Proof.
  intros H Hq. pose proof (den_exp_pos c H). pose proof (den_tau_pos c H).
  assert (0 <= q * (exp (c_th_s c - c_th_fc c) - 1) / (c_tau c * (c_th_s c - c_th_fc c))).
  { apply Rmult_le_pos; [apply Rmult_le_pos; lra | left; apply Rinv_0_lt_compat; assumption]. }
  lra.
Qed.

(* ------------------------------------------------------------------------------------------------ *)
(** * Drainage ability *)

Lemma exp_ratio_range a b : 0 <= a <= b -> 0 < b -> 0 <= (exp a - 1) / (exp b - 1) <= 1.
Proof.
  intros [Ha Hab] Hb. pose proof (exp_ge_1 a Ha). pose proof (exp_gt_1 b Hb). pose proof (exp_mono a b Hab).
  assert (0 < / (exp b - 1)) by (apply Rinv_0_lt_compat; lra).
  split.
  - apply Rmult_le_pos; lra.
  - apply (Rmult_le_reg_r (exp b - 1)); [lra|]. unfold Rdiv. rewrite Rmult_assoc, Rinv_l; lra.
Qed.

Lemma drain_ability_spec c adj th :
  wf_comp c -> c_th_fc c <= adj ->
  let d := drain_ability c adj th in
  0 <= d /\ (th <= adj -> d = 0) /\ (adj <= th -> d <= th - adj) /\ d <= c_tau c * (c_th_s c - c_th_fc c).
Proof.
  intros Hwf Hadj. pose proof (wf_fc_s c Hwf) as Hfs. pose proof (wf_tau c Hwf) as Htau.
  pose proof (den_tau_pos c Hwf) as Hts.
  unfold drain_ability. rnum.
  destruct (Rleb_spec th adj) as [Hle|Hgt]; cbv zeta.
  { repeat split; intros; lra. }
  assert (Hgt' : adj < th) by lra. clear Hgt.
  set (d0 := if Rleb (c_th_s c) th then _ else _).
  assert (Hd0 : 0 <= d0 <= c_tau c * (c_th_s c - c_th_fc c)).
  { subst d0. destruct (Rleb_spec (c_th_s c) th) as [Hs|Hs]; [lra|].
    destruct (exp_ratio_range (th - c_th_fc c) (c_th_s c - c_th_fc c)) as [R0 R1]; [lra|lra|].
    set (q := (exp (th - c_th_fc c) - 1) / (exp (c_th_s c - c_th_fc c) - 1)) in *. clearbody q.
    split.
    - apply Rmult_le_pos; lra.
    - rewrite <- (Rmult_1_r (c_tau c * (c_th_s c - c_th_fc c))) at 2. apply Rmult_le_compat_l; lra. }
  clearbody d0.
  destruct (Rltb_spec (th - d0) adj); repeat split; intros; lra.
Qed.

Lemma drain_ability_le_pore c adj th :
  wf_comp c -> c_th_fc c <= adj -> drain_ability c adj th <= c_th_s c - c_th_fc c.
Proof.
  intros Hwf Hadj. destruct (drain_ability_spec c adj th Hwf Hadj) as (_ & _ & _ & H).
  pose proof (wf_fc_s c Hwf). pose proof (wf_tau c Hwf).
  assert (c_tau c * (c_th_s c - c_th_fc c) <= 1 * (c_th_s c - c_th_fc c)) by (apply Rmult_le_compat_r; lra).
  lra.
Qed.

(* ------------------------------------------------------------------------------------------------ *)
(** * Ksat cap *)

Lemma drain_cap_balance c ds ex : fst (drain_cap c ds ex) + snd (drain_cap c ds ex) = ds + ex.
Proof. unfold drain_cap; rnum. destruct (Rltb _ _); cbn; lra. Qed.

Lemma drain_cap_range c ds ex : 0 < c_ksat c -> 0 <= ds -> 0 <= ex ->
  0 <= fst (drain_cap c ds ex) <= c_ksat c /\ 0 <= snd (drain_cap c ds ex).
Proof. intros; unfold drain_cap; rnum. destruct (Rltb_spec (c_ksat c) ds); cbn; lra. Qed.

(* ------------------------------------------------------------------------------------------------ *)
(** * thX *)

Lemma drain_thX_ge c adj q : adj <= c_th_s c -> adj <= drain_thX c adj q.
Proof. intros; unfold drain_thX; rnum. rcases; lra. Qed.

Lemma drain_thX_gt c adj q : adj <= c_th_s c -> c_th_s c < drain_thX c adj q -> 0 < q.
Proof. intros H; unfold drain_thX; rnum. destruct (Rleb_spec q 0); intros; lra. Qed.

Lemma div_pos_den_pos a b : 0 <= a -> 0 < a / (1000 * b) -> 0 < b.
Proof.
  intros Ha H. destruct (Rlt_le_dec 0 b) as [|Hb]; [assumption|exfalso].
  destruct Hb as [Hb|Hb].
  - assert (/ (1000 * b) < 0) by (apply Rinv_lt_0_compat; lra).
    unfold Rdiv in H. assert (a * / (1000 * b) <= 0); [|lra].
    replace 0 with (a * 0) by ring. apply Rmult_le_compat_l; lra.
  - subst b. unfold Rdiv in H. rewrite Rmult_0_r, Rinv_0, Rmult_0_r in H. lra.
Qed.

(* ------------------------------------------------------------------------------------------------ *)
(** * One compartment *)

Record comp_post (c : Comp R) (t ds : R) (r : R * R * R) : Prop := {
  cp_balance : W c (fst (fst r)) + snd (fst r) + snd r = W c t + ds;
  cp_ds : 0 <= snd (fst r) <= c_ksat c;
  cp_ex : 0 <= snd r;
  cp_hi : fst (fst r) <= c_th_s c;
  cp_lo : Rmin t (c_th_fc c) <= fst (fst r) }.

Lemma drain_settle_post c adj thn t ds :
  wf_comp c -> c_th_fc c <= adj <= c_th_s c -> adj <= thn <= c_th_s c -> t <= thn ->
  W c thn = W c t + ds ->
  comp_post c t ds (drain_settle c adj thn).
Proof.
  intros Hwf Hadj Hthn Ht HW. pose proof (wf_dz c Hwf) as Hdz. pose proof (wf_ksat c Hwf) as Hk.
  unfold drain_settle. rnum.
  destruct (drain_ability_spec c adj thn Hwf (proj1 Hadj)) as (D0 & _ & D2 & _).
  set (d := drain_ability c adj thn) in *. clearbody d.
  rewrite W_alt.
  pose proof (drain_cap_balance c (W c d) 0) as Hb.
  destruct (drain_cap_range c (W c d) 0 Hk (W_nonneg c d Hdz D0) (Rle_refl 0)) as [Hr1 Hr2].
  destruct (drain_cap c (W c d) 0) as [a b]; cbn [fst snd] in *.
  constructor; cbn [fst snd]; try lra.
  - rewrite W_sub. lra.
  - specialize (D2 (proj1 Hthn)). unfold Rmin; destruct (Rle_dec _ _); lra.
Qed.

Lemma drain_comp_post c t adj ds :
  wf_comp c -> c_th_dry c <= t <= c_th_s c -> c_th_fc c <= adj <= c_th_s c -> 0 <= ds ->
  comp_post c t ds (drain_comp c t adj ds).
Proof.
  intros Hwf Ht Hadj Hds.
  pose proof (wf_dz c Hwf) as Hdz. pose proof (wf_ksat c Hwf) as Hk. pose proof (wf_fc_s c Hwf) as Hfs.
  assert (Hdz0 : c_dz c <> 0) by lra.
  unfold drain_comp. rnum.
  destruct (drain_ability_spec c adj t Hwf (proj1 Hadj)) as (D0 & D1 & D2 & _).
  set (d := drain_ability c adj t) in *. clearbody d.
  destruct (Rleb_spec ds (d * 1000 * (c_dzsum c - c_dz c))) as [Hdr|Hdr]; cbv zeta.
  - (* drainable *)
    rewrite W_alt'.
    assert (H0 : 0 <= ds + W c d) by (pose proof (W_nonneg c d Hdz D0); lra).
    pose proof (drain_cap_balance c (ds + W c d) 0) as Hb.
    destruct (drain_cap_range c (ds + W c d) 0 Hk H0 (Rle_refl 0)) as [Hr1 Hr2].
    destruct (drain_cap c (ds + W c d) 0) as [a b]; cbn [fst snd] in *.
    constructor; cbn [fst snd]; try lra.
    + rewrite W_sub. lra.
    + unfold Rmin; destruct (Rle_dec _ _); destruct (Rle_dec t adj); [rewrite D1 by lra; lra | lra | rewrite D1 by lra; lra | lra].
  - (* storage needed *)
    clear D0 D1 D2 d Hdr.
    set (q := ds / (1000 * (c_dzsum c - c_dz c))).
    pose proof (drain_thX_ge c adj q (proj2 Hadj)) as HX.
    pose proof (drain_thX_gt c adj q (proj2 Hadj)) as HXq.
    set (thX := drain_thX c adj q) in *. clearbody thX.
    set (thn := t + ds / (1000 * c_dz c)).
    assert (HW : W c thn = W c t + ds) by (apply W_add; assumption).
    assert (Htn : t <= thn).
    { subst thn. assert (0 <= ds / (1000 * c_dz c)); [|lra].
      apply Rmult_le_pos; [lra| left; apply Rinv_0_lt_compat; lra]. }
    clearbody thn.
    destruct (Rleb_spec thX (c_th_s c)) as [HXs|HXs].
    + destruct (Rltb_spec thX thn) as [H1|H1].
      * (* thnew > thX *)
        destruct (drain_ability_spec c adj thX Hwf (proj1 Hadj)) as (D0 & _ & D2 & _).
        set (d := drain_ability c adj thX) in *. clearbody d.
        rewrite !W_alt.
        assert (H0 : 0 <= W c (thn - thX) + W c d).
        { pose proof (W_nonneg c d Hdz D0). pose proof (W_nonneg c (thn - thX) Hdz). lra. }
        pose proof (drain_cap_balance c (W c (thn - thX) + W c d) 0) as Hb.
        destruct (drain_cap_range c _ 0 Hk H0 (Rle_refl 0)) as [Hr1 Hr2].
        destruct (drain_cap c (W c (thn - thX) + W c d) 0) as [a b]; cbn [fst snd] in *.
        constructor; cbn [fst snd]; try lra.
        -- rewrite !W_sub in *. lra.
        -- specialize (D2 HX). unfold Rmin; destruct (Rle_dec _ _); lra.
      * destruct (Rltb_spec adj thn) as [H2|H2].
        -- apply drain_settle_post; try assumption; lra.
        -- constructor; cbn [fst snd]; try lra. unfold Rmin; destruct (Rle_dec _ _); lra.
    + destruct (Rltb_spec (c_th_s c) thX) as [_|HXs']; [|exfalso; lra].
      destruct (Rleb_spec thn (c_th_s c)) as [H1|H1].
      * destruct (Rltb_spec adj thn) as [H2|H2].
        -- apply drain_settle_post; try assumption; lra.
        -- constructor; cbn [fst snd]; try lra. unfold Rmin; destruct (Rle_dec _ _); lra.
      * destruct (Rltb_spec (c_th_s c) thn) as [_|H1']; [|exfalso; lra].
        (* over saturation *)
        assert (Hq : 0 < q) by (apply HXq; lra).
        assert (Hpre : 0 < c_dzsum c - c_dz c) by (apply (div_pos_den_pos ds); assumption).
        destruct (drain_ability_spec c adj thn Hwf (proj1 Hadj)) as (D0 & _ & _ & _).
        pose proof (drain_ability_le_pore c adj thn Hwf (proj1 Hadj)) as Dp.
        set (d := drain_ability c adj thn) in *. clearbody d.
        rewrite !W_alt.
        assert (Hex0 : 0 < W c (thn - c_th_s c)).
        { unfold W. apply Rmult_lt_0_compat; [apply Rmult_lt_0_compat|]; lra. }
        assert (Hdm0 : 0 <= d * 1000 * (c_dzsum c - c_dz c)).
        { apply Rmult_le_pos; [apply Rmult_le_pos|]; lra. }
        set (dm := if Rltb _ _ then _ else _).
        assert (Hdm : 0 <= dm <= W c (thn - c_th_s c)).
        { subst dm. destruct (Rltb_spec (W c (thn - c_th_s c)) (d * 1000 * (c_dzsum c - c_dz c))); lra. }
        clearbody dm.
        assert (H0 : 0 <= W c d + dm) by (pose proof (W_nonneg c d Hdz D0); lra).
        assert (H0' : 0 <= W c (thn - c_th_s c) - dm) by lra.
        pose proof (drain_cap_balance c (W c d + dm) (W c (thn - c_th_s c) - dm)) as Hb.
        destruct (drain_cap_range c _ _ Hk H0 H0') as [Hr1 Hr2].
        destruct (drain_cap c (W c d + dm) (W c (thn - c_th_s c) - dm)) as [a b]; cbn [fst snd] in *.
        constructor; cbn [fst snd]; try lra.
        -- rewrite !W_sub in *. lra.
        -- unfold Rmin; destruct (Rle_dec _ _); lra.
Qed.

(* ------------------------------------------------------------------------------------------------ *)
(** * The processed prefix and its invariant *)

Notation DDoneR := (DDone (F:=R)).
Definition comps (D : list DDoneR) : list (Comp R) := map dd_comp D.
Definition ths (D : list DDoneR) : list R := map dd_th D.
Definition fls (D : list DDoneR) : list R := map dd_fl D.
(* current storage of the processed compartments, storage they held initially (contents [i], nearest first) *)
Definition sto (D : list DDoneR) : R := storage (comps D) (ths D).
Definition sto0 (D : list DDoneR) (i : list R) : R := storage (comps D) i.
(* FluxOut of the last processed compartment = the loop-carried drainsum *)
Definition headfl (D : list DDoneR) : R := match D with [] => 0 | d :: _ => dd_fl d end.

Lemma sto_cons d D : sto (d :: D) = W (dd_comp d) (dd_th d) + sto D.
Proof. unfold sto, comps, ths. cbn [map]. apply storage_cons. Qed.
Lemma sto0_cons d D t i : sto0 (d :: D) (t :: i) = W (dd_comp d) t + sto0 D i.
Proof. unfold sto0, comps. cbn [map]. apply storage_cons. Qed.

Lemma sto0_comps D D' i : comps D' = comps D -> sto0 D' i = sto0 D i.
Proof. unfold sto0; intros ->; reflexivity. Qed.

Inductive FInv : list DDoneR -> list R -> Prop :=
| FInv_nil : FInv [] []
| FInv_cons d D t0 i :
    FInv D i ->
    wf_comp (dd_comp d) ->
    c_th_dry (dd_comp d) <= t0 <= c_th_s (dd_comp d) ->
    Rmin t0 (c_th_fc (dd_comp d)) <= dd_th d <= c_th_s (dd_comp d) ->
    0 <= dd_fl d <= c_ksat (dd_comp d) ->
    dd_fl d = sto0 (d :: D) (t0 :: i) - sto (d :: D) ->
    FInv (d :: D) (t0 :: i).

Lemma FInv_head D i : FInv D i -> headfl D = sto0 D i - sto D.
Proof. destruct 1; cbn [headfl]; [unfold sto0, sto; cbn; lra | assumption]. Qed.
Lemma FInv_head_nonneg D i : FInv D i -> 0 <= headfl D.
Proof. destruct 1; cbn [headfl]; lra. Qed.

(* redistribution into the compartments above the current one *)
Lemma drain_push_false D : forall i e,
  FInv D i -> 0 < e -> e <= headfl D ->
  let r := drain_push false e D in
  FInv (fst r) i /\ snd r = 0 /\ sto (fst r) = sto D + e /\ comps (fst r) = comps D.
Proof.
  induction D as [|d D IH]; intros i e HI He Hfl.
  { cbn [headfl] in Hfl. lra. }
  inversion HI as [|d' D' t0 i' HI' Hwf Ht0 Hth Hf Heq]; subst.
  pose proof (wf_dz _ Hwf) as Hdz. assert (Hdz0 : c_dz (dd_comp d) <> 0) by lra.
  cbn [headfl] in Hfl.
  pose proof (FInv_head _ _ HI') as Hh.
  rewrite sto0_cons, sto_cons in Heq.
  cbn [drain_push]. rnum.
  destruct (Rltb_spec 0 e) as [_|]; [|exfalso; lra].
  cbv zeta.
  set (t' := dd_th d + e / (1000 * c_dz (dd_comp d))).
  assert (HW : W (dd_comp d) t' = W (dd_comp d) (dd_th d) + e) by (apply W_add; assumption).
  assert (Hge : dd_th d <= t').
  { subst t'. assert (0 <= e / (1000 * c_dz (dd_comp d))); [|lra].
    apply Rmult_le_pos; [lra| left; apply Rinv_0_lt_compat; lra]. }
  clearbody t'.
  destruct (Rltb_spec (c_th_s (dd_comp d)) t') as [Hov|Hov].
  - (* filled to saturation, remainder moves on *)
    rewrite W_alt, W_sub.
    set (e' := W (dd_comp d) t' - W (dd_comp d) (c_th_s (dd_comp d))).
    assert (He' : 0 < e').
    { subst e'. rewrite <- W_sub. unfold W. apply Rmult_lt_0_compat; [apply Rmult_lt_0_compat|]; lra. }
    assert (Hcap : W (dd_comp d) t0 <= W (dd_comp d) (c_th_s (dd_comp d))) by (apply W_mono; lra).
    assert (Hfl' : e' <= headfl D) by (subst e'; lra).
    destruct (IH i' e' HI' He' Hfl') as (J1 & J2 & J3 & J4).
    cbn [fst snd]. repeat split.
    + constructor; cbn [dd_comp dd_th dd_fl fst snd]; try assumption; try lra.
      rewrite sto0_cons, sto_cons. cbn [dd_comp dd_th dd_fl fst snd]. rewrite J3, (sto0_comps D _ i' J4). subst e'. lra.
    + exact J2.
    + rewrite !sto_cons. cbn [dd_comp dd_th dd_fl fst snd]. rewrite J3. subst e'. lra.
    + unfold comps in *. cbn [map dd_comp fst snd]. f_equal. exact J4.
  - cbn [fst snd]. repeat split.
    + constructor; cbn [dd_comp dd_th dd_fl fst snd]; try assumption; try lra.
      rewrite sto0_cons, sto_cons. cbn [dd_comp dd_th dd_fl fst snd]. lra.
    + rewrite !sto_cons. cbn [dd_comp dd_th dd_fl fst snd]. lra.
Qed.

(* the current compartment first *)
Lemma drain_push_true c t thn ds' ex D i :
  FInv D i -> wf_comp c -> c_th_dry c <= t <= c_th_s c ->
  comp_post c t (headfl D) (thn, ds', ex) ->
  let r := drain_push true ex ((c, thn, ds') :: D) in
  FInv (fst r) (t :: i) /\ snd r = 0 /\ headfl (fst r) = ds' /\ comps (fst r) = c :: comps D.
Proof.
  intros HI Hwf Ht [Hb Hds Hex Hhi Hlo]. cbn [fst snd] in *.
  pose proof (wf_dz _ Hwf) as Hdz. assert (Hdz0 : c_dz c <> 0) by lra.
  pose proof (FInv_head _ _ HI) as Hh.
  cbn [drain_push]. rnum. cbn [dd_comp dd_th dd_fl fst snd].
  destruct (Rltb_spec 0 ex) as [He|He].
  - cbv zeta.
    set (t' := thn + ex / (1000 * c_dz c)).
    assert (HW : W c t' = W c thn + ex) by (apply W_add; assumption).
    assert (Hge : thn <= t').
    { subst t'. assert (0 <= ex / (1000 * c_dz c)); [|lra].
      apply Rmult_le_pos; [lra| left; apply Rinv_0_lt_compat; lra]. }
    clearbody t'.
    destruct (Rltb_spec (c_th_s c) t') as [Hov|Hov].
    + rewrite W_alt, W_sub.
      set (e' := W c t' - W c (c_th_s c)).
      assert (He' : 0 < e').
      { subst e'. rewrite <- W_sub. unfold W. apply Rmult_lt_0_compat; [apply Rmult_lt_0_compat|]; lra. }
      assert (Hcap : W c t <= W c (c_th_s c)) by (apply W_mono; lra).
      assert (Hfl' : e' <= headfl D) by (subst e'; lra).
      destruct (drain_push_false D i e' HI He' Hfl') as (J1 & J2 & J3 & J4). rnum.
      cbn [fst snd]. repeat split.
      * constructor; cbn [dd_comp dd_th dd_fl fst snd]; try assumption; try lra.
      rewrite sto0_cons, sto_cons. cbn [dd_comp dd_th dd_fl fst snd]. rewrite J3, (sto0_comps D _ i J4). subst e'. lra.
      * exact J2.
      * unfold comps in *. cbn [map dd_comp fst snd]. f_equal. exact J4.
    + cbn [fst snd]. repeat split.
      constructor; cbn [dd_comp dd_th dd_fl fst snd]; try assumption; try lra.
      rewrite sto0_cons, sto_cons. cbn [dd_comp dd_th dd_fl fst snd]. lra.
  - assert (ex = 0) by lra. subst ex. cbn [fst snd]. repeat split.
    constructor; cbn [dd_comp dd_th dd_fl fst snd]; try assumption; try lra.
    rewrite sto0_cons, sto_cons. cbn [dd_comp dd_th dd_fl fst snd]. lra.
Qed.

(* ------------------------------------------------------------------------------------------------ *)
(** * The compartment loop *)

Lemma drain_loop_inv p th : in_bounds p th -> forall fc D i ds D' ds',
  wf_prof p -> fcadj_ok p fc -> FInv D i -> ds = headfl D ->
  drain_loop p fc th D ds = Some (D', ds') ->
  FInv D' (rev th ++ i) /\ ds' = headfl D' /\ comps D' = rev p ++ comps D.
Proof.
  induction 1 as [|c t p th Hct Hb IH]; intros fc D i ds D' ds' Hwf Hfc HI Hds Hrun.
  - cbn in Hrun. inversion Hrun; subst. cbn. auto.
  - inversion Hfc as [|c' a p' fc' Hca Hfc']; subst. inversion Hwf as [|c' p' Hwc Hwp]; subst.
    cbn [drain_loop] in Hrun.
    pose proof (drain_comp_post c t a (headfl D) Hwc Hct Hca (FInv_head_nonneg _ _ HI)) as Hpost.
    destruct (drain_comp c t a (headfl D)) as [[thn ds1] ex] eqn:E. cbn [fst snd] in Hrun.
    destruct (drain_push_true c t thn ds1 ex D i HI Hwc Hct Hpost) as (J1 & _ & J3 & J4).
    destruct (IH fc' _ _ _ _ _ Hwp Hfc' J1 (eq_sym J3) Hrun) as (K1 & K2 & K3).
    cbn [rev]. rewrite <- !app_assoc. cbn [app]. rewrite K3, J4. auto.
Qed.

(* ------------------------------------------------------------------------------------------------ *)
(** * List plumbing: the zipper is read back in reverse *)

Lemma storage_rev : forall (p : list (Comp R)) (th : list R), length p = length th ->
  storage (rev p) (rev th) = storage p th.
Proof.
  induction p as [|c p IH]; intros [|t th] H; try discriminate; [reflexivity|].
  cbn [rev]. rewrite storage_app by (rewrite !rev_length; simpl in H; congruence).
  rewrite IH by (simpl in H; congruence). rewrite !storage_cons, storage_nil_l. lra.
Qed.

Lemma Forall2_rev {A B} (P : A -> B -> Prop) l1 l2 : Forall2 P l1 l2 -> Forall2 P (rev l1) (rev l2).
Proof. induction 1; cbn [rev]; [constructor | apply Forall2_app; [assumption | repeat constructor; assumption]]. Qed.

Lemma FInv_length D i : FInv D i -> length D = length i.
Proof. induction 1; simpl; congruence. Qed.
Lemma FInv_bounds D i : FInv D i -> in_bounds (comps D) (ths D).
Proof.
  induction 1 as [|d D t0 i HI IH Hwf Ht0 Hth Hf Heq]; [constructor|].
  unfold comps, ths in *; cbn [map]. constructor; [|exact IH].
  pose proof (wf_dry_wp _ Hwf). pose proof (wf_wp_fc _ Hwf).
  split; [|lra]. eapply Rle_trans; [|apply (proj1 Hth)]. unfold Rmin; destruct (Rle_dec _ _); lra.
Qed.
Lemma FInv_flux D i : FInv D i -> Forall2 (fun c f => 0 <= f <= c_ksat c) (comps D) (fls D).
Proof. induction 1; unfold comps, fls in *; cbn [map]; constructor; assumption. Qed.

Lemma drain_push_length b : forall D e, length (fst (drain_push b e D)) = length D.
Proof.
  intros D; revert b; induction D as [|d D IH]; intros b e; [reflexivity|].
  cbn [drain_push]. destruct (_ >? _)%num; [|reflexivity].
  cbv zeta. destruct (_ >? _)%num; cbn [fst length]; [rewrite IH|]; reflexivity.
Qed.

Lemma drain_loop_length : forall th p fc D ds D' ds',
  drain_loop p fc th D ds = Some (D', ds') -> length D' = (length th + length D)%nat.
Proof.
  induction th as [|t th IH]; intros p fc D ds D' ds' H; cbn [drain_loop] in H.
  - inversion H; reflexivity.
  - destruct p as [|c p]; [discriminate|]. destruct fc as [|a fc]; [discriminate|].
    apply IH in H. rewrite H, drain_push_length. simpl. lia.
Qed.

Lemma drain_loop_defined : forall th p fc D ds,
  (length th <= length p)%nat -> (length th <= length fc)%nat -> exists r, drain_loop p fc th D ds = Some r.
Proof.
  induction th as [|t th IH]; intros p fc D ds Hp Hf; cbn [drain_loop].
  - eexists; reflexivity.
  - destruct p as [|c p]; [simpl in Hp; lia|]. destruct fc as [|a fc]; [simpl in Hf; lia|].
    apply IH; simpl in *; lia.
Qed.

Lemma drain_loop_none : forall th p fc D ds,
  ((length p < length th)%nat \/ (length fc < length th)%nat) -> drain_loop p fc th D ds = None.
Proof.
  induction th as [|t th IH]; intros p fc D ds H; [simpl in H; lia|].
  cbn [drain_loop]. destruct p as [|c p]; [reflexivity|]. destruct fc as [|a fc]; [reflexivity|].
  apply IH. simpl in H. lia.
Qed.

(* what a successful run looks like *)
Lemma drainage_run p th fc th' dp fl :
  wf_prof p -> in_bounds p th -> fcadj_ok p fc -> drainage p th fc = Some (th', dp, fl) ->
  exists D, FInv D (rev th) /\ dp = headfl D /\ comps D = rev p /\ th' = rev (ths D) /\ fl = rev (fls D).
Proof.
  intros Hwf Hb Hfc H. unfold drainage in H.
  destruct (drain_loop p fc th [] (#0)%num) as [[D ds]|] eqn:E; [|discriminate].
  inversion H; subst; clear H.
  destruct (drain_loop_inv p th Hb fc [] [] _ D _ Hwf Hfc FInv_nil eq_refl E) as (K1 & K2 & K3).
  exists D. rewrite app_nil_r in K1, K3. auto.
Qed.

(* ------------------------------------------------------------------------------------------------ *)
(** * Main theorems *)

(* C01: the water that leaves the profile is exactly DeepPerc; nothing is lost at the soil surface *)
Theorem drainage_balance p th fc th' DeepPerc flux :
  wf_prof p -> in_bounds p th -> fcadj_ok p fc ->
  drainage p th fc = Some (th', DeepPerc, flux) ->
  storage p th' + DeepPerc = storage p th.
Proof.
  intros Hwf Hb Hfc H. destruct (drainage_run _ _ _ _ _ _ Hwf Hb Hfc H) as (D & HI & Hdp & Hc & Hth & _).
  pose proof (FInv_head _ _ HI) as Hh. pose proof (in_bounds_length _ _ Hb) as Hlen.
  assert (Hp : p = rev (comps D)) by (rewrite Hc, rev_involutive; reflexivity).
  assert (E1 : storage p th' = sto D).
  { subst th'. rewrite Hp at 1. unfold sto. apply storage_rev. unfold comps, ths. rewrite !map_length. reflexivity. }
  assert (E2 : storage p th = sto0 D (rev th)).
  { unfold sto0. rewrite Hc. symmetry. apply storage_rev. exact Hlen. }
  lra.
Qed.

(* C03: water contents stay within [th_dry, th_s] *)
Theorem drainage_bounds p th fc th' DeepPerc flux :
  wf_prof p -> in_bounds p th -> fcadj_ok p fc ->
  drainage p th fc = Some (th', DeepPerc, flux) ->
  in_bounds p th'.
Proof.
  intros Hwf Hb Hfc H. destruct (drainage_run _ _ _ _ _ _ Hwf Hb Hfc H) as (D & HI & Hdp & Hc & Hth & _).
  assert (Hp : p = rev (comps D)) by (rewrite Hc, rev_involutive; reflexivity).
  subst th'. rewrite Hp. apply Forall2_rev. apply (FInv_bounds _ _ HI).
Qed.

(* C04: deep percolation and every compartment outflow are non-negative (and at most Ksat) *)
Theorem drainage_deep_perc_nonneg p th fc th' DeepPerc flux :
  wf_prof p -> in_bounds p th -> fcadj_ok p fc ->
  drainage p th fc = Some (th', DeepPerc, flux) ->
  0 <= DeepPerc.
Proof.
  intros Hwf Hb Hfc H. destruct (drainage_run _ _ _ _ _ _ Hwf Hb Hfc H) as (D & HI & Hdp & _).
  subst. apply (FInv_head_nonneg _ _ HI).
Qed.

Theorem drainage_flux_range p th fc th' DeepPerc flux :
  wf_prof p -> in_bounds p th -> fcadj_ok p fc ->
  drainage p th fc = Some (th', DeepPerc, flux) ->
  Forall2 (fun c f => 0 <= f <= c_ksat c) p flux.
Proof.
  intros Hwf Hb Hfc H. destruct (drainage_run _ _ _ _ _ _ Hwf Hb Hfc H) as (D & HI & Hdp & Hc & _ & Hfl).
  assert (Hp : p = rev (comps D)) by (rewrite Hc, rev_involutive; reflexivity).
  subst flux. rewrite Hp. apply Forall2_rev. apply (FInv_flux _ _ HI).
Qed.

(* the form the infiltration unit consumes: FluxOut[i] <= Ksat[i] *)
Corollary drainage_flux_le_ksat p th fc th' DeepPerc flux :
  wf_prof p -> in_bounds p th -> fcadj_ok p fc ->
  drainage p th fc = Some (th', DeepPerc, flux) ->
  Forall2 (fun c f => f <= c_ksat c) p flux.
Proof.
  intros Hwf Hb Hfc H. pose proof (drainage_flux_range _ _ _ _ _ _ Hwf Hb Hfc H) as HF.
  clear - HF. induction HF; constructor; [lra|assumption].
Qed.

Corollary drainage_flux_nonneg p th fc th' DeepPerc flux :
  wf_prof p -> in_bounds p th -> fcadj_ok p fc ->
  drainage p th fc = Some (th', DeepPerc, flux) ->
  Forall (fun f => 0 <= f) flux.
Proof.
  intros Hwf Hb Hfc H. pose proof (drainage_flux_range _ _ _ _ _ _ Hwf Hb Hfc H) as HF.
  clear - HF. induction HF; constructor; [lra|assumption].
Qed.

(* DeepPerc is the outflow of the last compartment (no hypotheses needed) *)
Lemma drain_push_true_head e c t f D : headfl (fst (drain_push true e ((c, t, f) :: D))) = f.
Proof. cbn [drain_push]. destruct (_ >? _)%num; [|reflexivity]. cbv zeta. destruct (_ >? _)%num; reflexivity. Qed.

Lemma drain_loop_head : forall th p fc D ds D' ds',
  drain_loop p fc th D ds = Some (D', ds') -> ds = headfl D -> ds' = headfl D'.
Proof.
  induction th as [|t th IH]; intros p fc D ds D' ds' H H0; cbn [drain_loop] in H.
  - inversion H; subst; reflexivity.
  - destruct p as [|c p]; [discriminate|]. destruct fc as [|a fc]; [discriminate|].
    eapply IH; [exact H|]. symmetry. apply drain_push_true_head.
Qed.

Theorem drainage_deep_perc_last p th fc th' DeepPerc flux :
  drainage p th fc = Some (th', DeepPerc, flux) -> DeepPerc = last flux 0.
Proof.
  unfold drainage. destruct (drain_loop p fc th [] (#0)%num) as [[D ds]|] eqn:E; [|discriminate].
  intros H; inversion H; subst; clear H.
  apply drain_loop_head in E; [|reflexivity]. subst DeepPerc.
  destruct D as [|d D]; [reflexivity|]. cbn [map rev headfl]. rewrite last_last. reflexivity.
Qed.

(* lengths: no hypotheses needed *)
Theorem drainage_length p th fc th' DeepPerc flux :
  drainage p th fc = Some (th', DeepPerc, flux) -> length th' = length th /\ length flux = length th.
Proof.
  unfold drainage. destruct (drain_loop p fc th [] (#0)%num) as [[D ds]|] eqn:E; [|discriminate].
  intros H; inversion H; subst. apply drain_loop_length in E.
  rewrite !rev_length, !map_length, E. simpl. lia.
Qed.

(* definedness: the only way to fail is an IndexError on arrays shorter than th *)
Theorem drainage_defined_iff p th fc :
  (exists r, drainage p th fc = Some r) <-> (length th <= length p)%nat /\ (length th <= length fc)%nat.
Proof.
  unfold drainage. split.
  - intros [r H].
    destruct (le_lt_dec (length th) (length p)) as [H1|H1]; [destruct (le_lt_dec (length th) (length fc)) as [H2|H2]|]; [auto| |].
    + rewrite drain_loop_none in H by auto. discriminate.
    + rewrite drain_loop_none in H by auto. discriminate.
  - intros [H1 H2]. destruct (drain_loop_defined th p fc [] (#0)%num H1 H2) as [[D ds] E]. rewrite E. eexists; reflexivity.
Qed.

Theorem drainage_defined p th fc :
  wf_prof p -> length p = length th -> length fc = length th -> exists r, drainage p th fc = Some r.
Proof. intros _ H1 H2. apply drainage_defined_iff. lia. Qed.

(* ------------------------------------------------------------------------------------------------ *)
(** * Element-wise lower bound: th'_i >= min(th_i, th_fc_i) *)

Inductive Forall3 {A B C} (P : A -> B -> C -> Prop) : list A -> list B -> list C -> Prop :=
| Forall3_nil : Forall3 P [] [] []
| Forall3_cons a b c la lb lc : P a b c -> Forall3 P la lb lc -> Forall3 P (a :: la) (b :: lb) (c :: lc).

Lemma Forall3_app {A B C} (P : A -> B -> C -> Prop) la lb lc la' lb' lc' :
  Forall3 P la lb lc -> Forall3 P la' lb' lc' -> Forall3 P (la ++ la') (lb ++ lb') (lc ++ lc').
Proof. induction 1; cbn [app]; [auto | intros; constructor; auto]. Qed.
Lemma Forall3_rev {A B C} (P : A -> B -> C -> Prop) la lb lc :
  Forall3 P la lb lc -> Forall3 P (rev la) (rev lb) (rev lc).
Proof. induction 1; cbn [rev]; [constructor | apply Forall3_app; [assumption | repeat constructor; assumption]]. Qed.

Lemma FInv_lower D i : FInv D i -> Forall3 (fun c t0 t' => Rmin t0 (c_th_fc c) <= t') (comps D) i (ths D).
Proof. induction 1 as [|d D t0 i HI IH Hwf Ht0 Hth Hf Heq]; unfold comps, ths in *; cbn [map]; constructor; [apply Hth | exact IH]. Qed.

Theorem drainage_lower p th fc th' DeepPerc flux :
  wf_prof p -> in_bounds p th -> fcadj_ok p fc ->
  drainage p th fc = Some (th', DeepPerc, flux) ->
  Forall3 (fun c t t' => Rmin t (c_th_fc c) <= t') p th th'.
Proof.
  intros Hwf Hb Hfc H. destruct (drainage_run _ _ _ _ _ _ Hwf Hb Hfc H) as (D & HI & Hdp & Hc & Hth & _).
  assert (Hp : p = rev (comps D)) by (rewrite Hc, rev_involutive; reflexivity).
  subst th'. rewrite Hp, <- (rev_involutive th). apply Forall3_rev. apply (FInv_lower _ _ HI).
Qed.

(* ------------------------------------------------------------------------------------------------ *)
(** * Definedness of every division and logarithm that is evaluated

   [drain_comp_safe c t adj ds] lists the denominators / log arguments evaluated by one compartment step
   (see (D1)-(D4), (L1) above): D1, D3, D4 unconditionally, D2 and L1 only in the storage arm.
   wf_comp gives D1, D3, D4, L1; D2 needs the geometry fact  dz < dzsum  for every compartment but the first
   ([dzsum_ok]); in the first compartment drainsum = 0 <= drainmax and the storage arm is not entered. *)

Definition prethick (c : Comp R) : R := c_dzsum c - c_dz c.

Definition drain_comp_safe (c : Comp R) (t adj ds : R) : Prop :=
  exp (c_th_s c - c_th_fc c) - 1 <> 0 /\
  c_tau c * (c_th_s c - c_th_fc c) <> 0 /\
  1000 * c_dz c <> 0 /\
  (drain_ability c adj t * 1000 * prethick c < ds ->
     1000 * prethick c <> 0 /\
     (0 < ds / (1000 * prethick c) ->
        0 < 1 + ds / (1000 * prethick c) * (exp (c_th_s c - c_th_fc c) - 1) / (c_tau c * (c_th_s c - c_th_fc c)))).

Lemma drain_comp_safe_ok c t adj ds :
  wf_comp c -> c_th_fc c <= adj -> (ds = 0 \/ (0 <= ds /\ c_dz c < c_dzsum c)) -> drain_comp_safe c t adj ds.
Proof.
  intros Hwf Hadj Hds. pose proof (den_exp_pos c Hwf). pose proof (den_tau_pos c Hwf). pose proof (den_dz_pos c Hwf).
  unfold drain_comp_safe. split; [lra|]. split; [lra|]. split; [lra|]. intros Harm. split.
  - destruct Hds as [->|[_ Hz]]; [|unfold prethick; lra].
    intros Hz. assert (Hz' : prethick c = 0) by lra. rewrite Hz' in Harm. lra.
  - intros Hq. pose proof (log_arg_pos c _ Hwf (Rlt_le _ _ Hq)). lra.
Qed.

Fixpoint drain_loop_safe (p : list (Comp R)) (fc th : list R) (D : list DDoneR) (ds : R) : Prop :=
  match th, p, fc with
  | t :: th', c :: p', a :: fc' =>
    let r := drain_comp c t a ds in
    drain_comp_safe c t a ds /\
    drain_loop_safe p' fc' th' (fst (drain_push true (snd r) ((c, fst (fst r), snd (fst r)) :: D))) (snd (fst r))
  | _, _, _ => True
  end.

Definition below_first (p : list (Comp R)) : Prop := Forall (fun c => c_dz c < c_dzsum c) p.
Definition dzsum_ok (p : list (Comp R)) : Prop := match p with [] => True | _ :: p' => below_first p' end.

Lemma drain_loop_safe_ok p th : in_bounds p th -> forall fc D i ds,
  wf_prof p -> fcadj_ok p fc -> FInv D i -> ds = headfl D ->
  (match D with [] => dzsum_ok p | _ => below_first p end) ->
  drain_loop_safe p fc th D ds.
Proof.
  induction 1 as [|c t p th Hct Hb IH]; intros fc D i ds Hwf Hfc HI Hds Hgeo; [exact I|].
  inversion Hfc as [|c' a p' fc' Hca Hfc']; subst. inversion Hwf as [|c' p' Hwc Hwp]; subst.
  cbn [drain_loop_safe]. split.
  - apply drain_comp_safe_ok; [assumption|apply Hca|].
    destruct D as [|d D]; [left; reflexivity|right].
    split; [apply (FInv_head_nonneg _ _ HI)|]. inversion Hgeo; assumption.
  - pose proof (drain_comp_post c t a (headfl D) Hwc Hct Hca (FInv_head_nonneg _ _ HI)) as Hpost.
    destruct (drain_comp c t a (headfl D)) as [[thn ds1] ex] eqn:E. cbn [fst snd].
    destruct (drain_push_true c t thn ds1 ex D i HI Hwc Hct Hpost) as (J1 & _ & J3 & J4).
    apply (IH fc' _ _ _ Hwp Hfc' J1 (eq_sym J3)).
    assert (Hbf : below_first p) by (destruct D; [exact Hgeo | inversion Hgeo; assumption]).
    destruct (fst (drain_push true ex ((c, thn, ds1) :: D))) as [|d' D']; [|exact Hbf].
    discriminate J4.
Qed.

Theorem drainage_denominators p th fc :
  wf_prof p -> in_bounds p th -> fcadj_ok p fc -> dzsum_ok p ->
  drain_loop_safe p fc th [] 0.
Proof. intros Hwf Hb Hfc Hgeo. apply (drain_loop_safe_ok p th Hb fc [] [] 0 Hwf Hfc FInv_nil eq_refl Hgeo). Qed.

(* ------------------------------------------------------------------------------------------------ *)
(** * thX above saturation (used by the concrete instances below) *)

Lemma drain_thX_over c adj q :
  wf_comp c -> adj <= c_th_s c -> c_tau c * (c_th_s c - c_th_fc c) < q -> c_th_s c < drain_thX c adj q.
Proof.
  intros Hwf Hadj Hq. pose proof (den_exp_pos c Hwf) as HE. pose proof (den_tau_pos c Hwf) as HT.
  pose proof (wf_tau c Hwf) as Htau.
  unfold drain_thX. rnum.
  destruct (Rleb_spec q 0); [lra|]. destruct (Rltb_spec 0 (c_tau c)); [|lra]. cbv zeta.
  set (E := exp (c_th_s c - c_th_fc c)) in *. set (T := c_tau c * (c_th_s c - c_th_fc c)) in *.
  assert (HA : E < 1 + q * (E - 1) / T).
  { assert (1 < q / T).
    { apply (Rmult_lt_reg_r T); [exact HT|]. unfold Rdiv. rewrite Rmult_assoc, Rinv_l; lra. }
    assert ((E - 1) * 1 < (E - 1) * (q / T)) by (apply Rmult_lt_compat_l; lra).
    replace (q * (E - 1) / T) with ((E - 1) * (q / T)) by (unfold Rdiv; ring). lra. }
  assert (HL : c_th_s c - c_th_fc c < ln (1 + q * (E - 1) / T)).
  { rewrite <- (ln_exp (c_th_s c - c_th_fc c)). fold E. apply ln_increasing; [subst E; apply exp_pos | exact HA]. }
  destruct (Rltb_spec (c_th_fc c + ln (1 + q * (E - 1) / T)) adj); lra.
Qed.

(* ------------------------------------------------------------------------------------------------ *)
(** * Concrete instances *)

(* branch equations used to evaluate the model on concrete reals without unfolding everything at once *)
Lemma drain_ability_zero c adj th : th <= adj -> drain_ability c adj th = 0.
Proof. intros H. unfold drain_ability. rnum. rewrite Rleb_true by exact H. reflexivity. Qed.

Lemma drain_ability_sat c adj th :
  adj < th -> c_th_s c <= th -> adj <= th - c_tau c * (c_th_s c - c_th_fc c) ->
  drain_ability c adj th = c_tau c * (c_th_s c - c_th_fc c).
Proof.
  intros H1 H2 H3. unfold drain_ability. rnum. rewrite Rleb_false by exact H1. cbv zeta.
  rewrite (Rleb_true (c_th_s c) th) by exact H2. rewrite Rltb_false by exact H3. reflexivity.
Qed.

Lemma drain_cap_id c ds ex : ds <= c_ksat c -> drain_cap c ds ex = (ds, ex).
Proof. intros H. unfold drain_cap. rnum. rewrite Rltb_false by exact H. reflexivity. Qed.
Lemma drain_cap_over c ds ex : c_ksat c < ds -> drain_cap c ds ex = (c_ksat c, ex + ds - c_ksat c).
Proof. intros H. unfold drain_cap. rnum. rewrite Rltb_true by exact H. reflexivity. Qed.

Lemma drain_comp_drainable c t adj ds :
  ds <= drain_ability c adj t * 1000 * (c_dzsum c - c_dz c) ->
  drain_comp c t adj ds =
  (t - drain_ability c adj t,
   fst (drain_cap c (ds + drain_ability c adj t * c_dz c * 1000) 0),
   snd (drain_cap c (ds + drain_ability c adj t * c_dz c * 1000) 0)).
Proof. intros H. unfold drain_comp. rnum. rewrite Rleb_true by exact H. reflexivity. Qed.

Lemma drain_comp_oversat c t adj ds :
  drain_ability c adj t * 1000 * (c_dzsum c - c_dz c) < ds ->
  c_th_s c < drain_thX c adj (ds / (1000 * (c_dzsum c - c_dz c))) ->
  c_th_s c < t + ds / (1000 * c_dz c) ->
  drain_comp c t adj ds =
  let thn := t + ds / (1000 * c_dz c) in
  let ex0 := (thn - c_th_s c) * 1000 * c_dz c in
  let d := drain_ability c adj thn in
  let dm0 := d * 1000 * (c_dzsum c - c_dz c) in
  let dm := if Rltb ex0 dm0 then ex0 else dm0 in
  (c_th_s c - d, fst (drain_cap c (d * 1000 * c_dz c + dm) (ex0 - dm)), snd (drain_cap c (d * 1000 * c_dz c + dm) (ex0 - dm))).
Proof.
  intros H1 H2 H3. unfold drain_comp. rnum. rewrite Rleb_false by exact H1. cbv zeta.
  rewrite (Rleb_false (drain_thX _ _ _)) by exact H2. rewrite (Rltb_true (c_th_s c) (drain_thX _ _ _)) by exact H2.
  rewrite (Rleb_false (t + _)) by exact H3. rewrite (Rltb_true (c_th_s c) (t + _)) by exact H3. reflexivity.
Qed.

Lemma drain_push_stop b c t f D : drain_push b 0 ((c, t, f) :: D) = ((c, t, f) :: D, 0).
Proof. cbn [drain_push]. rnum. rewrite Rltb_false by lra. reflexivity. Qed.
Lemma drain_push_fit c t f D e : 0 < e -> t + e / (1000 * c_dz c) <= c_th_s c ->
  drain_push true e ((c, t, f) :: D) = ((c, t + e / (1000 * c_dz c), f) :: D, 0).
Proof.
  intros H1 H2. cbn [drain_push]. rnum. cbn [dd_comp dd_th dd_fl fst snd]. rewrite Rltb_true by exact H1. cbv zeta.
  rewrite Rltb_false by exact H2. reflexivity.
Qed.
Lemma drain_push_surface c t f e : 0 < e -> c_th_s c < t + e / (1000 * c_dz c) ->
  drain_push true e [(c, t, f)] = ([(c, c_th_s c, f)], (t + e / (1000 * c_dz c) - c_th_s c) * 1000 * c_dz c).
Proof.
  intros H1 H2. cbn [drain_push]. rnum. cbn [dd_comp dd_th dd_fl fst snd]. rewrite Rltb_true by exact H1. cbv zeta.
  rewrite Rltb_true by exact H2. reflexivity.
Qed.

Definition mkc (dz dzsum fc s tau ks : R) : Comp R :=
  {| c_dz := dz; c_dzsum := dzsum; c_zmid := dzsum - dz / 2; c_layer := 1; c_th_dry := 5/100; c_th_wp := 1/10;
     c_th_fc := fc; c_th_s := s; c_ksat := ks; c_tau := tau; c_pen := 100; c_acr := 0; c_bcr := 0 |}.

Ltac cfields := cbn [mkc c_dz c_dzsum c_th_dry c_th_wp c_th_fc c_th_s c_ksat c_tau] in *.

Lemma mkc_wf dz dzsum fc s tau ks :
  0 < dz -> 1/10 < fc -> fc < s -> 0 < tau <= 1 -> 0 < ks -> wf_comp (mkc dz dzsum fc s tau ks).
Proof. intros; constructor; cfields; lra. Qed.

Lemma triple_eq (a b c a' b' c' : R) : a = a' -> b = b' -> c = c' -> (a, b, c) = (a', b', c').
Proof. intros; subst; reflexivity. Qed.

(* two 0.1 m compartments, th_fc 0.30, th_s 0.50, tau 0.30 / 0.25, Ksat 1000 mm/day; both saturated;
   the lower one has its field capacity adjusted up to saturation (water table) *)
Definition ex_c1 : Comp R := mkc (1/10) (1/10) (3/10) (1/2) (3/10) 1000.
Definition ex_c2 : Comp R := mkc (1/10) (2/10) (3/10) (1/2) (1/4) 1000.
Definition ex_p : list (Comp R) := [ex_c1; ex_c2].
Definition ex_th : list R := [1/2; 1/2].
Definition ex_fc : list R := [3/10; 1/2].

Lemma ex_wf : wf_prof ex_p /\ in_bounds ex_p ex_th /\ fcadj_ok ex_p ex_fc /\ dzsum_ok ex_p.
Proof.
  repeat split; unfold ex_p, ex_th, ex_fc, ex_c1, ex_c2.
  - repeat constructor; cfields; lra.
  - repeat constructor; cfields; lra.
  - repeat constructor; cfields; lra.
  - repeat constructor; cfields; lra.
Qed.

Ltac exc := unfold ex_c1, ex_c2; cfields; lra.

Lemma ex_comp1 : drain_comp ex_c1 (1/2) (3/10) 0 = (44/100, 6, 0).
Proof.
  assert (Ha : drain_ability ex_c1 (3/10) (1/2) = 3/10 * (1/2 - 3/10)) by (rewrite drain_ability_sat by exc; reflexivity).
  rewrite drain_comp_drainable by (rewrite Ha; exc). rewrite Ha.
  rewrite drain_cap_id by exc. cbn [fst snd]. apply triple_eq; exc.
Qed.

Lemma ex_comp2 : drain_comp ex_c2 (1/2) (1/2) 6 = (45/100, 10, 1).
Proof.
  assert (Ha : drain_ability ex_c2 (1/2) (1/2) = 0) by (apply drain_ability_zero; lra).
  assert (Hn : 1/2 + 6 / (1000 * c_dz ex_c2) = 56/100) by exc.
  rewrite drain_comp_oversat.
  - cbv zeta. rewrite Hn.
    assert (Hb : drain_ability ex_c2 (1/2) (56/100) = 1/4 * (1/2 - 3/10)) by (rewrite drain_ability_sat by exc; reflexivity).
    rewrite Hb.
    replace ((56/100 - c_th_s ex_c2) * 1000 * c_dz ex_c2) with 6 by exc.
    replace (1/4 * (1/2 - 3/10) * 1000 * (c_dzsum ex_c2 - c_dz ex_c2)) with 5 by exc.
    rewrite (Rltb_false 6 5) by lra.
    rewrite drain_cap_id by exc. cbn [fst snd]. apply triple_eq; exc.
  - rewrite Ha. exc.
  - apply drain_thX_over; [apply mkc_wf; lra | exc | exc].
  - rewrite Hn. exc.
Qed.

(* the hypotheses of drainage_balance / _bounds / _deep_perc_nonneg / _flux_range / _lower are satisfiable, and the
   run is not trivial: 6 mm leave compartment 1, compartment 2 passes 10 mm on, 1 mm of excess is put back *)
Example drainage_example :
  wf_prof ex_p /\ in_bounds ex_p ex_th /\ fcadj_ok ex_p ex_fc /\
  drainage ex_p ex_th ex_fc = Some ([44/100; 46/100], 10, [6; 10]).
Proof.
  destruct ex_wf as (H1 & H2 & H3 & _). repeat split; try assumption.
  unfold drainage, ex_p, ex_th, ex_fc. cbn [drain_loop]. change (#0)%num with 0.
  rewrite ex_comp1. cbn [fst snd]. rewrite drain_push_stop. cbn [fst snd].
  rewrite ex_comp2. cbn [fst snd]. rewrite drain_push_fit by exc.
  cbn [fst snd map rev app dd_th dd_fl].
  replace (45/100 + 1 / (1000 * c_dz ex_c2)) with (46/100) by exc. reflexivity.
Qed.

Example drainage_balance_example : storage ex_p [44/100; 46/100] + 10 = storage ex_p ex_th.
Proof. destruct drainage_example as (H1 & H2 & H3 & H4). exact (drainage_balance _ _ _ _ _ _ H1 H2 H3 H4). Qed.
Example drainage_bounds_example : in_bounds ex_p [44/100; 46/100].
Proof. destruct drainage_example as (H1 & H2 & H3 & H4). exact (drainage_bounds _ _ _ _ _ _ H1 H2 H3 H4). Qed.
Example drainage_flux_example : Forall2 (fun c f => 0 <= f <= c_ksat c) ex_p [6; 10].
Proof. destruct drainage_example as (H1 & H2 & H3 & H4). exact (drainage_flux_range _ _ _ _ _ _ H1 H2 H3 H4). Qed.
Example drainage_denominators_example : drain_loop_safe ex_p ex_fc ex_th [] 0.
Proof. destruct ex_wf as (H1 & H2 & H3 & H4). exact (drainage_denominators _ _ _ H1 H2 H3 H4). Qed.

(* The bound th' >= min(th, fcadj) suggested by the comments of the code ("water content does not fall below the
   adjusted field capacity") is FALSE: in the over-saturation arm (lines 257-298) thnew = th_s - dthdt with dthdt
   the ability at the transient content th + inflow, which can leave the compartment below fcadj.  In the instance
   above compartment 2 starts at th = fcadj = th_s = 0.50, receives 6 mm, and ends at 0.46 having passed on 10 mm. *)
Theorem drainage_lower_fcadj_refuted :
  exists p th fc th' dp fl,
    wf_prof p /\ in_bounds p th /\ fcadj_ok p fc /\ drainage p th fc = Some (th', dp, fl) /\
    ~ Forall3 (fun a t t' => Rmin t a <= t') fc th th'.
Proof.
  exists ex_p, ex_th, ex_fc, [44/100; 46/100], 10, [6; 10].
  destruct drainage_example as (H1 & H2 & H3 & H4). repeat split; try assumption.
  unfold ex_fc, ex_th. intros H. inversion H as [|? ? ? ? ? ? _ H']; subst. inversion H' as [|? ? ? ? ? ? Hc _]; subst.
  unfold Rmin in Hc. destruct (Rle_dec _ _); lra.
Qed.

(* Without in_bounds the balance fails: one compartment above saturation (th = 0.60 > th_s = 0.50), Ksat = 1 mm/day.
   10 mm drain, 9 mm exceed Ksat and are pushed back, the compartment is capped at th_s and the remaining 9 mm
   reach the soil surface, where the code drops them. *)
Definition bad_c : Comp R := mkc (1/10) (1/10) (3/10) (1/2) (1/2) 1.
Ltac badc := unfold bad_c; cfields; lra.

Lemma bad_comp : drain_comp bad_c (6/10) (3/10) 0 = (1/2, 1, 9).
Proof.
  assert (Ha : drain_ability bad_c (3/10) (6/10) = 1/2 * (1/2 - 3/10)) by (rewrite drain_ability_sat by badc; reflexivity).
  rewrite drain_comp_drainable by (rewrite Ha; badc). rewrite Ha.
  rewrite drain_cap_over by badc. cbn [fst snd]. apply triple_eq; badc.
Qed.

Theorem drainage_balance_refuted :
  exists p th fc th' dp fl,
    wf_prof p /\ fcadj_ok p fc /\ length th = length p /\ drainage p th fc = Some (th', dp, fl) /\
    storage p th' + dp = storage p th - 9.
Proof.
  exists [bad_c], [6/10], [3/10], [1/2], 1, [1].
  repeat split.
  - repeat constructor; badc.
  - repeat constructor; badc.
  - unfold drainage. cbn [drain_loop]. change (#0)%num with 0. rewrite bad_comp. cbn [fst snd].
    rewrite drain_push_surface by badc. cbn [fst snd map rev app dd_th dd_fl]. reflexivity.
  - rewrite !storage_cons, !storage_nil_l. unfold W. badc.
Qed.
