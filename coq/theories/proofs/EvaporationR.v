(* EvaporationR.v — theorems about Water/Evaporation.v at the real instance (exact arithmetic).
   C04 (0 <= Es <= EsPot, 0 <= EsPot), C20 (mulch settings), C01 (balance), C03 (bounds), definedness. *)
From Flocq Require Import Core.
From AC Require Import Num RInst Params.
From AC.Water Require Import Evaporation.
From AC.proofs Require Import ProfR.
Local Open Scope R_scope.

Ltac eunfold := unfold pmin, pmax in *; rnum.

(* ------------------------------------------------------------------------------------------------ *)
(** * The compartment factor *)

Lemma ev_factor_le1 c z : 0 < c_dz c -> ev_factor c z <= 1.
Proof.
  intros Hd. unfold ev_factor. rnum. rcases; [|lra].
  assert (0 <= (c_dzsum c - z) / c_dz c) by (apply Rmult_le_pos; [lra | left; apply Rinv_0_lt_compat; lra]).
  lra.
Qed.

(* ------------------------------------------------------------------------------------------------ *)
(** * The extraction loops *)

(* bookkeeping: what leaves [ex] enters [es] and leaves [te]; [ex] stays non-negative *)
Lemma ev_extract_acc n z : forall p th ex es te th' ex' es' te',
  ev_extract n z p th ex es te = Some (th', ex', es', te') ->
  es' + ex' = es + ex /\ te' - ex' = te - ex /\ (0 <= ex -> 0 <= ex') /\ (ex <= 0 -> th' = th /\ ex' = ex) /\ ex' <= ex.
Proof.
  induction n as [|n IH]; intros p th ex es te th' ex' es' te' H.
  - cbn in H. destruct (Rltb 0 ex) in H; inversion H; subst; repeat split; try lra; auto.
  - cbn [ev_extract] in H. revert H. rnum. destruct (Rltb_spec 0 ex) as [Hex|Hex].
    2:{ intros H; inversion H; subst; repeat split; try lra; auto. }
    destruct p as [|c p]; [discriminate|]. destruct th as [|t th]; [discriminate|].
    match goal with |- context [Rleb ex ?a] => set (avw := a) end.
    assert (Hc : 0 <= avw) by (unfold avw; rcases; lra).
    clearbody avw.
    destruct (Rleb_spec ex avw) as [Hle|Hle].
    + intros H; inversion H; subst. repeat split; intros; try lra.
    + destruct (ev_extract n z p th (ex - avw) (es + avw) (te - avw)) as [[[[thr exr] esr] ter]|] eqn:E; [|discriminate].
      intros H; inversion H; subst. apply IH in E. destruct E as (E1 & E2 & E3 & E4 & E5).
      repeat split; intros; try lra; try (apply E3; lra); exfalso; lra.
Qed.

Lemma Rdiv_le_r a b d : 0 < d -> a <= b * d -> a / d <= b.
Proof. intros. apply Rmult_le_reg_r with d; auto. unfold Rdiv; rewrite Rmult_assoc, Rinv_l by lra. lra. Qed.
Lemma Rdiv_ge_r a b d : 0 < d -> b * d <= a -> b <= a / d.
Proof. intros. apply Rmult_le_reg_r with d; auto. unfold Rdiv; rewrite Rmult_assoc, Rinv_l by lra. lra. Qed.

Definition dz_ok (p : list (Comp R)) : Prop := Forall (fun c => c_dz c <> 0) p.
Lemma wf_prof_dz_ok p : wf_prof p -> dz_ok p.
Proof. unfold wf_prof, dz_ok. apply Forall_impl. intros c [H _ _ _ _ _ _]. lra. Qed.

(* water balance of an extraction loop: what enters EsAct leaves the profile *)
Lemma ev_extract_storage n z : forall p th ex es te th' ex' es' te',
  dz_ok p ->
  ev_extract n z p th ex es te = Some (th', ex', es', te') ->
  storage p th' + es' = storage p th + es.
Proof.
  induction n as [|n IH]; intros p th ex es te th' ex' es' te' Hp H.
  - cbn in H. destruct (Rltb 0 ex) in H; inversion H; subst; lra.
  - cbn [ev_extract] in H. revert H. rnum. destruct (Rltb_spec 0 ex) as [Hex|Hex].
    2:{ intros H; inversion H; subst; lra. }
    destruct p as [|c p]; [discriminate|]. destruct th as [|t th]; [discriminate|].
    inversion Hp as [|? ? Hc Hp']; subst.
    match goal with |- context [Rleb ex ?a] => set (avw := a) end.
    destruct (Rleb_spec ex avw) as [Hle|Hle].
    + intros H; inversion H; subst. rewrite !storage_cons.
      assert (W c ((1000 * t * c_dz c - ex) / (1000 * c_dz c)) = W c t - ex) by (unfold W; field; auto).
      lra.
    + destruct (ev_extract n z p th (ex - avw) (es + avw) (te - avw)) as [[[[thr exr] esr] ter]|] eqn:E; [|discriminate].
      intros H; inversion H; subst. apply IH in E; auto. rewrite !storage_cons.
      assert (W c ((1000 * t * c_dz c - avw) / (1000 * c_dz c)) = W c t - avw) by (unfold W; field; auto).
      rnum. lra.
Qed.

Lemma Forall2_Rle_refl (l : list R) : Forall2 Rle l l.
Proof. induction l; constructor; auto; lra. Qed.

(* an extraction loop keeps the water contents within bounds and only lowers them: the amount taken from a
   compartment is between 0 and max(0, (W - Wdry) * factor) <= W - Wdry  (factor <= 1) *)
Lemma ev_extract_bounds n z : forall p th ex es te th' ex' es' te',
  wf_prof p -> in_bounds p th ->
  ev_extract n z p th ex es te = Some (th', ex', es', te') ->
  in_bounds p th' /\ Forall2 Rle th' th.
Proof.
  induction n as [|n IH]; intros p th ex es te th' ex' es' te' Hp Hb H.
  - cbn in H. destruct (Rltb 0 ex) in H; inversion H; subst; split; auto using Forall2_Rle_refl.
  - cbn [ev_extract] in H. revert H. rnum. destruct (Rltb_spec 0 ex) as [Hex|Hex].
    2:{ intros H; inversion H; subst; split; auto using Forall2_Rle_refl. }
    destruct p as [|c p]; [discriminate|]. destruct th as [|t th]; [discriminate|].
    inversion Hp as [|? ? Hc Hp']; subst. inversion Hb as [|? ? ? ? Ht Hb']; subst.
    destruct Hc as [Hdz _ _ _ _ _ _].
    pose proof (ev_factor_le1 c z Hdz) as Hf. rnum.
    set (avw0 := (1000 * t * c_dz c - 1000 * c_th_dry c * c_dz c) * ev_factor c z).
    assert (Hw : 0 <= 1000 * t * c_dz c - 1000 * c_th_dry c * c_dz c).
    { replace (1000 * t * c_dz c - 1000 * c_th_dry c * c_dz c) with (1000 * c_dz c * (t - c_th_dry c)) by ring.
      apply Rmult_le_pos; lra. }
    assert (Hub0 : avw0 <= 1000 * t * c_dz c - 1000 * c_th_dry c * c_dz c).
    { unfold avw0. apply Rle_trans with ((1000 * t * c_dz c - 1000 * c_th_dry c * c_dz c) * 1); [|lra].
      apply Rmult_le_compat_l; lra. }
    match goal with |- context [Rleb ex ?a] => set (avw := a) end.
    assert (Havw : 0 <= avw <= 1000 * t * c_dz c - 1000 * c_th_dry c * c_dz c).
    { unfold avw. fold avw0. destruct (Rltb_spec avw0 0); lra. }
    clearbody avw. destruct Havw as [Ha0 Ha1].
    assert (Hd : 0 < 1000 * c_dz c) by lra.
    assert (Hstep : forall a, 0 <= a <= avw ->
              c_th_dry c <= (1000 * t * c_dz c - a) / (1000 * c_dz c) <= c_th_s c /\
              (1000 * t * c_dz c - a) / (1000 * c_dz c) <= t).
    { intros a [Ha Ha']. repeat split.
      - apply Rdiv_ge_r; auto. lra.
      - apply Rle_trans with t; [|lra]. apply Rdiv_le_r; auto. lra.
      - apply Rdiv_le_r; auto. lra. }
    destruct (Rleb_spec ex avw) as [Hle|Hle].
    + intros H; inversion H; subst. destruct (Hstep ex) as [H1 H2]; [lra|].
      split; [constructor; auto | constructor; auto using Forall2_Rle_refl].
    + destruct (ev_extract n z p th (ex - avw) (es + avw) (te - avw)) as [[[[thr exr] esr] ter]|] eqn:E; [|discriminate].
      intros H; inversion H; subst. destruct (Hstep avw) as [H1 H2]; [lra|].
      apply IH in E; auto. destruct E as (E1 & E2). split; constructor; auto.
Qed.

(* ------------------------------------------------------------------------------------------------ *)
(** * Stage 2: sub-daily steps *)

Lemma ev_kr_le1 f w : ev_kr f w <= 1.
Proof. unfold ev_kr. rnum. rcases; lra. Qed.

Lemma ev_step_demand_le p ws rew fw fe zmin zmax edt th z z' ex :
  0 <= edt -> ev_step_demand p ws rew fw fe zmin zmax edt th z = Some (z', ex) -> ex <= edt.
Proof.
  intros He. unfold ev_step_demand.
  destruct (evap_layer_water_content th z p) as [e|]; [|discriminate].
  match goal with |- match ?X with _ => _ end = _ -> _ => destruct X as [[z1 w1]|]; [|discriminate] end.
  intros H; inversion H; subst. pose proof (ev_kr_le1 fe w1) as Hk. rnum.
  apply Rle_trans with (1 * edt); [|lra]. apply Rmult_le_compat_r; lra.
Qed.

Lemma Forall2_Rle_trans (a b c : list R) : Forall2 Rle a b -> Forall2 Rle b c -> Forall2 Rle a c.
Proof.
  intros H; revert c; induction H; intros c' H'; inversion H'; subst; constructor; eauto; lra.
Qed.

Section Stage2.
  Variables (p : list (Comp R)) (ws rew fw fe zmin zmax edt : R).
  Hypothesis Hedt : 0 <= edt.

  Lemma ev_step_acc th z es te th' z' es' te' :
    ev_stage2_step p ws rew fw fe zmin zmax edt (th, z, es, te) = Some (th', z', es', te') ->
    es' + te' = es + te /\ es <= es' /\ es' - es <= edt /\ (dz_ok p -> storage p th' + es' = storage p th + es).
  Proof.
    unfold ev_stage2_step.
    destruct (ev_step_demand p ws rew fw fe zmin zmax edt th z) as [[z1 ex]|] eqn:D; [|discriminate].
    destruct (ev_extract (Z.to_nat (ev_count p z1 + 2)) z1 p th ex es te) as [[[[th1 ex1] es1] te1]|] eqn:E; [|discriminate].
    intros H; inversion H; subst. pose proof (ev_step_demand_le _ _ _ _ _ _ _ _ _ _ _ _ Hedt D) as Hle.
    pose proof (ev_extract_acc _ _ _ _ _ _ _ _ _ _ _ E) as (A1 & A2 & A3 & A4 & A5).
    repeat split; [lra|lra| |intros Hp; eapply ev_extract_storage; eauto].
    destruct (Rle_dec 0 ex) as [H0|H0]; [specialize (A3 H0); lra|].
    destruct A4 as [_ A4]; lra.
  Qed.

  Lemma ev_step_bounds th z es te th' z' es' te' :
    wf_prof p -> in_bounds p th ->
    ev_stage2_step p ws rew fw fe zmin zmax edt (th, z, es, te) = Some (th', z', es', te') ->
    in_bounds p th' /\ Forall2 Rle th' th.
  Proof.
    intros Hp Hb. unfold ev_stage2_step.
    destruct (ev_step_demand p ws rew fw fe zmin zmax edt th z) as [[z1 ex]|] eqn:D; [|discriminate].
    destruct (ev_extract (Z.to_nat (ev_count p z1 + 2)) z1 p th ex es te) as [[[[th1 ex1] es1] te1]|] eqn:E; [|discriminate].
    intros H; inversion H; subst. eapply ev_extract_bounds; eauto.
  Qed.

  Lemma ev_loop_acc k : forall th z es te th' z' es' te',
    ev_stage2_loop k p ws rew fw fe zmin zmax edt (th, z, es, te) = Some (th', z', es', te') ->
    es' + te' = es + te /\ es <= es' /\ es' - es <= INR k * edt /\ (dz_ok p -> storage p th' + es' = storage p th + es).
  Proof.
    induction k as [|k IH]; intros th z es te th' z' es' te' H.
    - cbn in H. inversion H; subst. cbn [INR]. repeat split; lra.
    - cbn [ev_stage2_loop] in H.
      destruct (ev_stage2_step p ws rew fw fe zmin zmax edt (th, z, es, te)) as [[[[th1 z1] es1] te1]|] eqn:S1; [|discriminate].
      apply ev_step_acc in S1. apply IH in H. destruct S1 as (S1 & S1' & S2 & S3). destruct H as (H1 & H1' & H2 & H3).
      rewrite S_INR. repeat split; [lra|lra|lra|]. intros Hp. specialize (S3 Hp). specialize (H3 Hp). lra.
  Qed.

  Lemma ev_loop_bounds k : forall th z es te th' z' es' te',
    wf_prof p -> in_bounds p th ->
    ev_stage2_loop k p ws rew fw fe zmin zmax edt (th, z, es, te) = Some (th', z', es', te') ->
    in_bounds p th' /\ Forall2 Rle th' th.
  Proof.
    induction k as [|k IH]; intros th z es te th' z' es' te' Hp Hb H.
    - cbn in H. inversion H; subst. split; auto using Forall2_Rle_refl.
    - cbn [ev_stage2_loop] in H.
      destruct (ev_stage2_step p ws rew fw fe zmin zmax edt (th, z, es, te)) as [[[[th1 z1] es1] te1]|] eqn:S1; [|discriminate].
      apply ev_step_bounds in S1; auto. destruct S1 as (S1 & S2).
      apply IH in H; auto. destruct H as (H1 & H2).
      split; [auto | eapply Forall2_Rle_trans; eauto].
  Qed.
End Stage2.

(* ------------------------------------------------------------------------------------------------ *)
(** * Ponded water and stage 1 *)

Lemma ev_pond_sum surf espot : ev_pond_es surf espot + ev_pond_surf surf espot = surf.
Proof. unfold ev_pond_surf, ev_pond_es, ev_pond_all, ev_pond_part. rnum. rcases; cbn [andb negb]; lra. Qed.

Lemma ev_pond_es_range surf espot : 0 <= espot -> 0 <= ev_pond_es surf espot <= espot.
Proof. unfold ev_pond_es, ev_pond_all, ev_pond_part. rnum. rcases; cbn [andb negb]; lra. Qed.

Lemma ev_pond_surf_range surf espot : 0 <= espot -> 0 <= surf -> 0 <= ev_pond_surf surf espot <= surf.
Proof. unfold ev_pond_surf, ev_pond_es, ev_pond_all, ev_pond_part. rnum. rcases; cbn [andb negb]; lra. Qed.

(* without the sign condition on EsPot the ponding is still never increased beyond |EsPot| *)
Lemma ev_pond_surf_nonneg surf espot : 0 <= surf -> 0 <= ev_pond_surf surf espot.
Proof. unfold ev_pond_surf, ev_pond_es, ev_pond_all, ev_pond_part. rnum. rcases; cbn [andb negb]; lra. Qed.

Lemma pmin_le_l (a b : R) : pmin a b <= a.
Proof. unfold pmin. rnum. rcases; lra. Qed.
Lemma pmin_le_r (a b : R) : pmin a b <= b.
Proof. unfold pmin. rnum. rcases; lra. Qed.

(* what [ev_stage1] establishes *)
Record stage1_spec (par : EvPar) (p : list (Comp R)) (st : EvState) (th : list R) (et0 rain irr : R) (gs : bool)
       (m : EvMid) : Prop := {
  s1_base : exists b, ev_espot_base par st et0 gs = Some b /\ em_espot m = ev_espot_adj par (es_surf st) rain irr b;
  s1_surf : em_surf m = ev_pond_surf (es_surf st) (em_espot m);
  s1_sum : em_es m + em_te m = em_espot m;
  s1_te : 0 <= em_espot m -> 0 <= em_te m;
  s1_es : ev_pond_es (es_surf st) (em_espot m) <= em_es m;
  s1_storage : dz_ok p -> storage p (em_th m) + em_es m = storage p th + ev_pond_es (es_surf st) (em_espot m);
  s1_bounds : wf_prof p -> in_bounds p th -> in_bounds p (em_th m) /\ Forall2 Rle (em_th m) th }.

Lemma ev_stage1_spec par p st th et0 infl rain irr gs m :
  ev_stage1 par p st th et0 infl rain irr gs = Some m -> stage1_spec par p st th et0 rain irr gs m.
Proof.
  unfold ev_stage1. cbv zeta.
  match goal with |- match ?X with _ => _ end = _ -> _ => destruct X as [[[[wsurf0 evapz0] stage20] wstage20]|]; [|discriminate] end.
  destruct (ev_espot_base par st et0 gs) as [b|] eqn:B; [|discriminate].
  set (surf := es_surf st). set (espot := ev_espot_adj par surf rain irr b). rnum.
  match goal with |- context [pmin (espot - ev_pond_es surf espot) ?w] => set (wsurf2 := w) end.
  set (ex1 := pmin (espot - ev_pond_es surf espot) wsurf2).
  assert (Hex1 : ex1 <= espot - ev_pond_es surf espot) by apply pmin_le_l.
  rnum. destruct (Rltb_spec 0 ex1) as [Hpos|Hpos].
  - destruct (ev_extract (Z.to_nat (ev_count p (ep_zmin par) + 2)) (ep_zmin par) p th ex1
                (ev_pond_es surf espot) (espot - ev_pond_es surf espot)) as [[[[th1 ex1'] es1] te1]|] eqn:E; [|discriminate].
    pose proof (ev_extract_acc _ _ _ _ _ _ _ _ _ _ _ E) as (A1 & A2 & A3 & _ & A5).
    assert (A3' : 0 <= ex1') by (apply A3; lra).
    assert (Hspec : forall ws wst,
       stage1_spec par p st th et0 rain irr gs
         {| em_espot := espot; em_surf := ev_pond_surf surf espot; em_wsurf := ws; em_wstage2 := wst;
            em_stage2 := (if ev_pond_part surf espot then false else if (((rain >? 0) || ((irr >? 0) && negb (ep_irrmethod par =? 4)%Z)) && (infl >? 0))%num then false else stage20);
            em_evapz := (if ev_pond_part surf espot then ep_zmin par else if (((rain >? 0) || ((irr >? 0) && negb (ep_irrmethod par =? 4)%Z)) && (infl >? 0))%num then ep_zmin par else evapz0);
            em_th := th1; em_es := es1; em_te := te1 |}).
    { intros ws wst. constructor; cbn [em_espot em_surf em_es em_te em_th]; fold surf.
      - exists b; split; auto.
      - reflexivity.
      - rnum. lra.
      - intros. rnum. lra.
      - rnum. lra.
      - intros Hp. eapply ev_extract_storage; eauto.
      - intros Hp Hb. pose proof (ev_extract_bounds _ _ _ _ _ _ _ _ _ _ _ Hp Hb E) as (H1 & H2). auto. }
    match goal with |- (if ?c then _ else _) = _ -> _ => destruct c end.
    + match goal with |- match ?X with _ => _ end = _ -> _ => destruct X as [e|]; [|discriminate] end.
      intros H; inversion H; subst m. rnum. apply Hspec.
    + intros H; inversion H; subst m. rnum. apply Hspec.
  - intros H; inversion H; subst m. constructor; cbn [em_espot em_surf em_es em_te em_th]; fold surf.
    + exists b; split; auto.
    + reflexivity.
    + rnum. lra.
    + intros He. pose proof (ev_pond_es_range surf espot He). rnum. lra.
    + apply Rle_refl.
    + intros; rnum; lra.
    + intros; split; auto using Forall2_Rle_refl.
Qed.

(* ------------------------------------------------------------------------------------------------ *)
(** * The whole function *)

Definition stage2_run (par : EvPar) (p : list (Comp R)) (m : EvMid) :=
  ev_stage2_loop (Z.to_nat (ep_steps par)) p (em_wstage2 m) (ep_rew par) (ep_fwrelexp par) (ep_fevap par)
                 (ep_zmin par) (ep_zmax par) (em_te m / IZR (ep_steps par)) (em_th m, em_evapz m, em_es m, em_te m).

Lemma soil_evaporation_spec par p st th et0 infl rain irr gs o :
  soil_evaporation par p st th et0 infl rain irr gs = Some o ->
  exists m, ev_stage1 par p st th et0 infl rain irr gs = Some m /\ (0 < ep_steps par)%Z /\
    eo_espot o = em_espot m /\ eo_epot o = em_espot m /\ eo_surf o = em_surf m /\
    ((em_te m <= 0 /\ eo_th o = em_th m /\ eo_es o = em_es m) \/
     (0 < em_te m /\ exists z2 te2, stage2_run par p m = Some (eo_th o, z2, eo_es o, te2))).
Proof.
  unfold soil_evaporation, stage2_run. destruct (ep_steps par <=? 0)%Z eqn:Hs; [discriminate|].
  apply Z.leb_gt in Hs.
  destruct (ev_stage1 par p st th et0 infl rain irr gs) as [m|]; [|discriminate].
  rnum. destruct (Rltb_spec 0 (em_te m)) as [Hte|Hte].
  - match goal with |- match ?X with _ => _ end = _ -> _ => destruct X as [[[[th2 z2] es2] te2]|] eqn:L; [|discriminate] end.
    intros H; inversion H; subst o; cbn. exists m. repeat split; auto. right. split; auto. exists z2, te2. exact L.
  - intros H; inversion H; subst o; cbn. exists m. repeat split; auto. left. repeat split; auto; lra.
Qed.

Lemma steps_cancel (n : Z) (x : R) : (0 < n)%Z -> INR (Z.to_nat n) * (x / IZR n) = x.
Proof.
  intros H. rewrite INR_IZR_INZ, Z2Nat.id by lia. field. apply IZR_neq. lia.
Qed.

(** ** C04: 0 <= Es <= EsPot.  Since repo commit 4d991b1 (stage 2 clamps AvW at 0 like stage 1) no hypothesis on the
    profile or on the water contents is needed: the only premise is 0 <= EsPot (see [espot_nonneg]). *)
Theorem es_le_pot par p st th et0 infl rain irr gs o :
  soil_evaporation par p st th et0 infl rain irr gs = Some o ->
  0 <= eo_espot o -> 0 <= eo_es o <= eo_espot o.
Proof.
  intros H He. apply soil_evaporation_spec in H. destruct H as (m & S1 & Hs & E1 & _ & _ & H).
  apply ev_stage1_spec in S1. destruct S1. rewrite E1 in *. specialize (s1_te0 He).
  pose proof (ev_pond_es_range (es_surf st) (em_espot m) He) as Hpe. rnum.
  destruct H as [(Hte & _ & ->)|(Hte & z2 & te2 & L)]; [lra|].
  unfold stage2_run in L. apply ev_loop_acc in L.
  - destruct L as (_ & L0 & L & _). rewrite steps_cancel in L by auto. lra.
  - apply Rmult_le_pos; [lra|]. left. apply Rinv_0_lt_compat. apply IZR_lt. auto.
Qed.

Corollary es_le_pot_upper par p st th et0 infl rain irr gs o :
  soil_evaporation par p st th et0 infl rain irr gs = Some o ->
  0 <= eo_espot o -> eo_es o <= eo_espot o.
Proof. intros H He. eapply es_le_pot; eauto. Qed.

(* the invariant behind both: EsAct + ToExtract = EsPot, ToExtract >= 0 *)
Theorem es_invariant par p st th et0 infl rain irr gs o :
  soil_evaporation par p st th et0 infl rain irr gs = Some o -> 0 <= eo_espot o ->
  exists toextract, eo_es o + toextract = eo_espot o /\ 0 <= toextract.
Proof.
  intros H He. exists (eo_espot o - eo_es o). split; [lra|]. pose proof (es_le_pot_upper _ _ _ _ _ _ _ _ _ _ H He). lra.
Qed.

(** ** C01: water balance of the evaporation process *)
Theorem evaporation_balance par p st th et0 infl rain irr gs o :
  dz_ok p ->
  soil_evaporation par p st th et0 infl rain irr gs = Some o ->
  storage p (eo_th o) + eo_surf o + eo_es o = storage p th + es_surf st.
Proof.
  intros Hp H. apply soil_evaporation_spec in H. destruct H as (m & S1 & Hs & E1 & _ & E3 & H).
  apply ev_stage1_spec in S1. destruct S1. specialize (s1_storage0 Hp).
  pose proof (ev_pond_sum (es_surf st) (em_espot m)) as Hps. rewrite E3, s1_surf0. rnum.
  destruct H as [(Hte & -> & ->)|(Hte & z2 & te2 & L)]; [lra|].
  unfold stage2_run in L. destruct (Rle_dec 0 (em_te m / IZR (ep_steps par))) as [Hedt|Hedt].
  - apply ev_loop_acc in L; auto. destruct L as (_ & _ & _ & L). specialize (L Hp). rnum. lra.
  - exfalso. apply Hedt. apply Rmult_le_pos; [lra|]. left. apply Rinv_0_lt_compat. apply IZR_lt. auto.
Qed.

Corollary evaporation_balance_wf par p st th et0 infl rain irr gs o :
  wf_prof p -> soil_evaporation par p st th et0 infl rain irr gs = Some o ->
  storage p (eo_th o) + eo_surf o + eo_es o = storage p th + es_surf st.
Proof. intros Hp. apply evaporation_balance. apply wf_prof_dz_ok; auto. Qed.

(** ** C03: water contents stay within [th_dry, th_s] and only decrease; ponding only decreases *)
Theorem evaporation_bounds par p st th et0 infl rain irr gs o :
  wf_prof p -> in_bounds p th ->
  soil_evaporation par p st th et0 infl rain irr gs = Some o ->
  in_bounds p (eo_th o) /\ Forall2 Rle (eo_th o) th.
Proof.
  intros Hp Hb H.
  apply soil_evaporation_spec in H. destruct H as (m & S1 & Hs & E1 & _ & _ & H).
  apply ev_stage1_spec in S1. destruct S1. destruct (s1_bounds0 Hp Hb) as [Hb1 Hle1].
  destruct H as [(Hte & -> & _)|(Hte & z2 & te2 & L)]; [auto|].
  unfold stage2_run in L. eapply ev_loop_bounds in L; eauto. destruct L as (L1 & L2).
  split; auto. eapply Forall2_Rle_trans; eauto.
Qed.

Theorem evaporation_surface_bounds par p st th et0 infl rain irr gs o :
  soil_evaporation par p st th et0 infl rain irr gs = Some o ->
  0 <= eo_espot o -> 0 <= es_surf st -> 0 <= eo_surf o <= es_surf st.
Proof.
  intros H He Hs. apply soil_evaporation_spec in H. destruct H as (m & S1 & _ & E1 & _ & E3 & _).
  apply ev_stage1_spec in S1. destruct S1. rewrite E3, s1_surf0. rewrite E1 in He.
  apply ev_pond_surf_range; auto.
Qed.

(* ------------------------------------------------------------------------------------------------ *)
(** * C04: potential evaporation is non-negative (with the clamp of `1 - CC*` at 0) *)

Record espot_ranges (par : EvPar) (st : EvState) (et0 : R) : Prop := {
  er_et0 : 0 <= et0;
  er_kex : 0 <= ep_kex par;
  er_fwcc : 0 <= ep_fwcc par <= 100;
  er_ccxw : 0 <= es_ccxw st <= 1;
  er_fmulch : 0 <= ep_fmulch par <= 1;
  er_mulchpct : 0 <= ep_mulchpct par <= 100;
  er_wetsurf : 0 <= ep_wetsurf par }.

Lemma frac_le1 a b : 0 <= a <= 1 -> 0 <= b <= 100 -> 0 <= a * (b / 100) <= 1.
Proof.
  intros Ha Hb. assert (0 <= b / 100 <= 1) by lra. split; [apply Rmult_le_pos; lra|].
  apply Rle_trans with (1 * 1); [|lra]. apply Rmult_le_compat; lra.
Qed.

Lemma ev_espot_gs_nonneg par st et0 tadj : espot_ranges par st et0 -> 0 <= ev_espot_gs par st et0 tadj.
Proof.
  intros [H0 Hk Hf Hc _ _ _]. unfold ev_espot_gs. cbv zeta. rnum.
  assert (Hmax : 0 <= ep_kex par * et0 * (1 - es_ccxw st * (ep_fwcc par / 100))).
  { pose proof (frac_le1 _ _ Hc Hf). apply Rmult_le_pos; [apply Rmult_le_pos|]; lra. }
  set (emax := ep_kex par * et0 * (1 - es_ccxw st * (ep_fwcc par / 100))) in *.
  set (e0 := ep_kex par * (1 - es_ccadj st) * et0).
  match goal with |- context [ep_kex par * (1 - ?a) * et0] => set (cadj := a) end.
  set (emin0 := ep_kex par * (1 - cadj) * et0).
  match goal with |- context [Rltb ?e (if Rltb emin0 0 then 0 else emin0)] => set (ee := e) end.
  clearbody emax e0 emin0 ee.
  destruct (es_prematsenes st); rcases; cbn [andb]; rcases; lra.
Qed.

Lemma ev_espot_base_nonneg par st et0 gs b :
  espot_ranges par st et0 -> ev_espot_base par st et0 gs = Some b -> 0 <= b.
Proof.
  intros Hr. unfold ev_espot_base. destruct gs.
  - destruct (ep_caltype par =? 1)%Z; [|destruct (ep_caltype par =? 2)%Z; [|discriminate]];
      intros H; inversion H; apply ev_espot_gs_nonneg; auto.
  - intros H; inversion H. destruct Hr. rnum. apply Rmult_le_pos; auto.
Qed.

Lemma ev_espot_adj_nonneg par st et0 surf rain irr b :
  espot_ranges par st et0 -> 0 <= b -> 0 <= ev_espot_adj par surf rain irr b.
Proof.
  intros [_ _ _ _ Hf Hq Hw] Hb. unfold ev_espot_adj. cbv zeta.
  pose proof (frac_le1 _ _ Hf Hq) as Hm.
  assert (0 <= b * (1 - ep_fmulch par * (ep_mulchpct par / 100))) by (apply Rmult_le_pos; lra).
  assert (0 <= b * (ep_wetsurf par / 100)) by (apply Rmult_le_pos; lra).
  unfold pmin. rnum.
  destruct (ep_mulches par), (ep_irrmethod par =? 4)%Z; rcases; cbn [andb orb negb]; rcases; lra.
Qed.

Theorem espot_nonneg par p st th et0 infl rain irr gs o :
  espot_ranges par st et0 ->
  soil_evaporation par p st th et0 infl rain irr gs = Some o -> 0 <= eo_espot o /\ eo_epot o = eo_espot o.
Proof.
  intros Hr H. apply soil_evaporation_spec in H. destruct H as (m & S1 & _ & E1 & E2 & _).
  apply ev_stage1_spec in S1. destruct S1. destruct s1_base0 as (b & B & Eb).
  rewrite E1, E2, Eb. split; auto. eapply ev_espot_adj_nonneg; eauto. eapply ev_espot_base_nonneg; eauto.
Qed.

(* before the fix the statement needed CC* <= 1, which fails for dense canopies *)
Lemma ccadj_le_one_refuted : exists cc, 0 <= cc <= 1 /\ 172/100 * cc - cc * cc + 3/10 * (cc * cc * cc) > 1.
Proof. exists (97/100). lra. Qed.

(* ------------------------------------------------------------------------------------------------ *)
(** * C20: mulch settings *)

Definition ep_with_mulch (par : EvPar) (b : bool) (f q : R) : EvPar :=
  {| ep_steps := ep_steps par; ep_simoff := ep_simoff par; ep_zmin := ep_zmin par; ep_zmax := ep_zmax par;
     ep_rew := ep_rew par; ep_kex := ep_kex par; ep_fwcc := ep_fwcc par; ep_fwrelexp := ep_fwrelexp par;
     ep_fevap := ep_fevap par; ep_caltype := ep_caltype par; ep_senescence := ep_senescence par;
     ep_irrmethod := ep_irrmethod par; ep_wetsurf := ep_wetsurf par;
     ep_mulches := b; ep_fmulch := f; ep_mulchpct := q |}.

Lemma ep_with_mulch_id par : ep_with_mulch par (ep_mulches par) (ep_fmulch par) (ep_mulchpct par) = par.
Proof. destruct par; reflexivity. Qed.

Lemma soil_evaporation_mulch_congr par b f q b' f' q' p st th et0 infl rain irr gs :
  (forall surf x, ev_espot_adj (ep_with_mulch par b f q) surf rain irr x = ev_espot_adj (ep_with_mulch par b' f' q') surf rain irr x) ->
  soil_evaporation (ep_with_mulch par b f q) p st th et0 infl rain irr gs =
  soil_evaporation (ep_with_mulch par b' f' q') p st th et0 infl rain irr gs.
Proof.
  intros H. unfold soil_evaporation.
  assert (E : ev_stage1 (ep_with_mulch par b f q) p st th et0 infl rain irr gs =
              ev_stage1 (ep_with_mulch par b' f' q') p st th et0 infl rain irr gs).
  { unfold ev_stage1. cbv zeta.
    change (ev_espot_base (ep_with_mulch par b f q) st et0 gs) with (ev_espot_base par st et0 gs).
    change (ev_espot_base (ep_with_mulch par b' f' q') st et0 gs) with (ev_espot_base par st et0 gs).
    cbn [ep_with_mulch ep_zmin ep_rew ep_simoff ep_irrmethod].
    match goal with |- match ?X with _ => _ end = _ => destruct X as [[[[wsurf0 evapz0] stage20] wstage20]|]; [|reflexivity] end.
    destruct (ev_espot_base par st et0 gs) as [x|]; [|reflexivity].
    fold (ep_with_mulch par b f q). fold (ep_with_mulch par b' f' q'). rewrite !H. reflexivity. }
  rewrite E. reflexivity.
Qed.

(* a mulch cover or mulch factor of 0 behaves as "no mulches": x * (1 - 0) = x *)
Theorem mulch_neutral par p st th et0 infl rain irr gs :
  ep_mulches par = false \/ ep_mulchpct par = 0 \/ ep_fmulch par = 0 ->
  soil_evaporation par p st th et0 infl rain irr gs =
  soil_evaporation (ep_with_mulch par false (ep_fmulch par) (ep_mulchpct par)) p st th et0 infl rain irr gs.
Proof.
  intros H. rewrite <- (ep_with_mulch_id par) at 1. apply soil_evaporation_mulch_congr.
  intros surf x. unfold ev_espot_adj. cbn [ep_with_mulch ep_mulches ep_fmulch ep_mulchpct ep_irrmethod ep_wetsurf].
  destruct (ep_mulches par); [|reflexivity].
  assert (E : (x * (#1 - ep_fmulch par * (ep_mulchpct par / #100)))%num = x).
  { rnum. destruct H as [H|[H|H]]; [discriminate| |]; rewrite H; field. }
  rewrite E. reflexivity.
Qed.

(* without mulches the mulch parameters are never read *)
Theorem mulch_off_inert par p st th et0 infl rain irr gs f q f' q' :
  soil_evaporation (ep_with_mulch par false f q) p st th et0 infl rain irr gs =
  soil_evaporation (ep_with_mulch par false f' q') p st th et0 infl rain irr gs.
Proof. apply soil_evaporation_mulch_congr. intros; reflexivity. Qed.

Corollary mulch_off_inert' par p st th et0 infl rain irr gs f' q' :
  ep_mulches par = false ->
  soil_evaporation par p st th et0 infl rain irr gs =
  soil_evaporation (ep_with_mulch par false f' q') p st th et0 infl rain irr gs.
Proof.
  intros H. rewrite <- (ep_with_mulch_id par) at 1. rewrite H. apply mulch_off_inert.
Qed.

(* ------------------------------------------------------------------------------------------------ *)
(** * A concrete run in which stage 2 over-runs the evaporation layer (used for the [Example]s)

   Three 0.1 m compartments (th_dry 0.1, th_wp 0.2, th_fc 0.3, th_s 0.5), EvapZmin = EvapZmax = 0.15 m, REW = 29 mm
   (more than the 0.15 m layer holds between air-dry and field capacity: 30 mm), one sub-daily step, ET0 = 10 mm,
   th = [0.12; 0.10; 0.50].  The layer offers 2 mm; the loop goes on to the third compartment (index comp_sto),
   whose factor is 1 - (0.3 - 0.15)/0.1 = -0.5.  Before repo commit 4d991b1 AvW = -20 mm was "extracted" there
   (th 0.5 -> 0.7 > th_s, EsAct = 2 - 20 = -18 mm: the former [es_nonneg_refuted] / [evaporation_bounds_refuted]);
   with the clamp the compartment is left alone: Es = 2 mm, th = [0.1; 0.1; 0.5]. *)
Ltac rdec1 := match goal with
  | |- context [Rltb ?a ?b] => no_if a; no_if b; first [rewrite (Rltb_true a b) by lra | rewrite (Rltb_false a b) by lra]
  | |- context [Rleb ?a ?b] => no_if a; no_if b; first [rewrite (Rleb_true a b) by lra | rewrite (Rleb_false a b) by lra]
  end.
Ltac rdec := repeat rdec1.

Definition wc (dzsum : R) : Comp R :=
  {| c_dz := 1/10; c_dzsum := dzsum; c_zmid := dzsum - 1/20; c_layer := 1; c_th_dry := 1/10; c_th_wp := 2/10; c_th_fc := 3/10;
     c_th_s := 5/10; c_ksat := 100; c_tau := 1/2; c_pen := 100; c_acr := 0; c_bcr := 0 |}.
Definition wp3 : list (Comp R) := [wc (1/10); wc (2/10); wc (3/10)].
Definition wpar : EvPar :=
  {| ep_steps := 1; ep_simoff := true; ep_zmin := 15/100; ep_zmax := 15/100; ep_rew := 29; ep_kex := 1; ep_fwcc := 50;
     ep_fwrelexp := 4/10; ep_fevap := 4; ep_caltype := 1; ep_senescence := 100; ep_irrmethod := 0; ep_wetsurf := 100;
     ep_mulches := false; ep_fmulch := 0; ep_mulchpct := 0 |}.
Definition wst : EvState :=
  {| es_tsc := 5; es_dap := 0; es_wsurf := 0; es_evapz := 15/100; es_stage2 := true; es_delayedcds := 0; es_gddcum := 0;
     es_delayedgdds := 0; es_ccxw := 0; es_ccadj := 0; es_ccxact := 0; es_cc := 0; es_prematsenes := false; es_surf := 0;
     es_wstage2 := 0 |}.
Definition wth : list R := [12/100; 1/10; 5/10].

Lemma wit_stage1 th : exists m, ev_stage1 wpar wp3 wst th 10 0 0 0 false = Some m /\
  em_espot m = 10 /\ em_surf m = 0 /\ em_wstage2 m = 0 /\ em_evapz m = 15/100 /\ em_th m = th /\ em_es m = 0 /\ em_te m = 10.
Proof.
  unfold ev_stage1, ev_espot_base, ev_espot_adj, ev_pond_es, ev_pond_surf, ev_pond_all, ev_pond_part, pmin. cbn. rnum.
  rdec. cbn. rdec. cbn. rdec. cbn.
  eexists; split; [reflexivity|]. cbn. repeat split; lra.
Qed.

Lemma ev_kr_clamp f w : 0 < f -> 1 < w -> ev_kr f w = 1.
Proof.
  intros Hf Hw. unfold ev_kr. rnum.
  assert (H1 : 1 < exp f) by (apply exp_gt_1; auto).
  assert (H2 : exp f < exp (f * w)).
  { apply exp_increasing. replace f with (f * 1) at 1 by ring. apply Rmult_lt_compat_l; auto. }
  rewrite Rltb_true; auto.
  apply Rmult_lt_reg_r with (exp f - 1); [lra|]. unfold Rdiv. rewrite Rmult_assoc, Rinv_l by lra. lra.
Qed.

Lemma fac1 : ev_factor (N:=RN) (wc (1/10)) (15/100) = 1.
Proof. unfold ev_factor. cbn. rnum. rdec. reflexivity. Qed.
Lemma fac2 : ev_factor (N:=RN) (wc (2/10)) (15/100) = 1/2.
Proof. unfold ev_factor. cbn. rnum. rdec. lra. Qed.
Lemma fac3 : ev_factor (N:=RN) (wc (3/10)) (15/100) = -1/2.
Proof. unfold ev_factor. cbn. rnum. rdec. lra. Qed.

Lemma wit_layer : exists e, evap_layer_water_content (N:=RN) wth (15/100) wp3 = Some e /\
  el_sat e = 75 /\ el_fc e = 45 /\ el_dry e = 15 /\ el_act e = 17.
Proof.
  unfold evap_layer_water_content, ev_count. cbn. rnum. rdec. cbn. rnum.
  eexists; split; [reflexivity|]. cbn. rnum. rewrite fac1, fac2. rdec. repeat split; lra.
Qed.

Lemma wit_demand : ev_step_demand (N:=RN) wp3 0 29 (4/10) 4 (15/100) (15/100) (10 / 1) wth (15/100) = Some (15/100, 1 * (10 / 1)).
Proof.
  unfold ev_step_demand. destruct wit_layer as (e & -> & Hs & Hf & Hd & Ha).
  rnum. rewrite (Rltb_false (15/100) (15/100)) by lra.
  rewrite ev_kr_clamp; [reflexivity|lra|].
  unfold ev_wrel. rnum. rewrite Hs, Hf, Hd, Ha. lra.
Qed.

Lemma wit_extract : exists th' ex' es' te',
  ev_extract (N:=RN) 3 (15/100) wp3 wth (1 * (10 / 1)) 0 10 = Some (th', ex', es', te') /\ es' = 2 /\ th' = [1/10; 1/10; 5/10].
Proof.
  cbn. rnum. rewrite fac1, fac2, fac3. rdec. cbn. rdec. cbn. rdec.
  do 4 eexists. split; [reflexivity|]. split; [lra|].
  f_equal; [lra|f_equal; [lra|f_equal; lra]].
Qed.

Lemma wit_count : Z.to_nat (ev_count (N:=RN) wp3 (15/100) + 2) = 3%nat.
Proof. unfold ev_count. cbn. rnum. rdec. reflexivity. Qed.

Lemma wit_run : exists o, soil_evaporation wpar wp3 wst wth 10 0 0 0 false = Some o /\
  eo_espot o = 10 /\ eo_es o = 2 /\ eo_th o = [1/10; 1/10; 5/10].
Proof.
  unfold soil_evaporation. destruct (wit_stage1 wth) as (m & -> & Hp & Hs & Hw & Hz & Ht & He & Hte).
  cbn [ep_steps wpar Z.leb Z.compare Pos.compare]. rnum. rewrite Hte, Hw, Hz, Ht, He.
  rewrite (Rltb_true 0 10) by lra.
  cbn [ep_rew ep_fwrelexp ep_fevap ep_zmin ep_zmax wpar Z.to_nat Pos.to_nat Pos.iter_op ev_stage2_loop ev_stage2_step].
  change (Pos.to_nat 1) with 1%nat. cbn [ev_stage2_loop]. unfold ev_stage2_step. rewrite wit_demand. rewrite wit_count.
  destruct wit_extract as (th' & ex' & es' & te' & -> & E1 & E2).
  eexists. split; [reflexivity|]. cbn. repeat split; auto.
Qed.

Lemma wit_wf : wf_prof wp3.
Proof. repeat constructor; cbn; lra. Qed.
Lemma wit_in_bounds : in_bounds wp3 wth.
Proof. repeat constructor; cbn; lra. Qed.
Lemma wit_ranges : espot_ranges wpar wst 10.
Proof. constructor; cbn; lra. Qed.

(* the run that refuted 0 <= Es and th <= th_s before the repair now satisfies both *)
Example overrun_now_harmless : exists o, soil_evaporation wpar wp3 wst wth 10 0 0 0 false = Some o /\
  eo_es o = 2 /\ eo_th o = [1/10; 1/10; 5/10].
Proof. destruct wit_run as (o & H & H1 & H2 & H3). exists o. auto. Qed.

(* the hypotheses of the theorems are satisfiable on this run *)
Example es_le_pot_ex : exists o, soil_evaporation wpar wp3 wst wth 10 0 0 0 false = Some o /\ 0 <= eo_es o <= eo_espot o.
Proof.
  destruct wit_run as (o & H & H1 & _). exists o. split; auto. eapply es_le_pot; eauto. lra.
Qed.
Example evaporation_bounds_ex : exists o, soil_evaporation wpar wp3 wst wth 10 0 0 0 false = Some o /\
  in_bounds wp3 (eo_th o) /\ Forall2 Rle (eo_th o) wth.
Proof.
  destruct wit_run as (o & H & _). exists o. split; auto. eapply evaporation_bounds; eauto using wit_wf, wit_in_bounds.
Qed.
Example evaporation_balance_ex : exists o, soil_evaporation wpar wp3 wst wth 10 0 0 0 false = Some o /\
  storage wp3 (eo_th o) + eo_surf o + eo_es o = storage wp3 wth + es_surf wst.
Proof.
  destruct wit_run as (o & H & _). exists o. split; auto. eapply evaporation_balance_wf; eauto using wit_wf.
Qed.
Example espot_nonneg_ex : exists o, soil_evaporation wpar wp3 wst wth 10 0 0 0 false = Some o /\ 0 <= eo_espot o.
Proof.
  destruct wit_run as (o & H & _). exists o. split; auto. eapply espot_nonneg; eauto using wit_ranges.
Qed.

(* ------------------------------------------------------------------------------------------------ *)
(** * Definedness / termination: with the derived fuel the function returns a result *)

Lemma ev_count_nonneg (p : list (Comp R)) z : (0 <= ev_count p z)%Z.
Proof. unfold ev_count. induction p as [|c p IH]; cbn [count_if]; [lia|]. destruct (_ <? _)%num; lia. Qed.

Lemma ev_count_mono (p : list (Comp R)) z z' : z <= z' -> (ev_count p z <= ev_count p z')%Z.
Proof.
  intros Hz. unfold ev_count. induction p as [|c p IH]; cbn [count_if]; [lia|]. rnum.
  destruct (Rltb_spec (c_dzsum c) z), (Rltb_spec (c_dzsum c) z'); try lia. exfalso; lra.
Qed.

(* the profile has two compartments more than lie strictly above depth [zlim] *)
Definition deep_enough (p : list (Comp R)) (zlim : R) : Prop := (ev_count p zlim + 2 <= Z.of_nat (length p))%Z.

Lemma elwc_loop_defined n z : forall (p : list (Comp R)) th a,
  (n <= length p)%nat -> (n <= length th)%nat -> exists e, elwc_loop n z p th a = Some e.
Proof.
  induction n as [|n IH]; intros p th a Hp Ht; cbn [elwc_loop]; [eauto|].
  destruct p as [|c p]; [cbn in Hp; lia|]. destruct th as [|t th]; [cbn in Ht; lia|].
  apply IH; cbn in *; lia.
Qed.

Lemma elwc_defined th z p zlim :
  z <= zlim -> deep_enough p zlim -> length th = length p -> exists e, evap_layer_water_content th z p = Some e.
Proof.
  intros Hz Hd Hl. unfold evap_layer_water_content.
  pose proof (ev_count_mono p z zlim Hz). pose proof (ev_count_nonneg p z). unfold deep_enough in Hd.
  destruct (elwc_loop_defined (Z.to_nat (ev_count p z + 1)) z p th el0) as [e ->]; [lia|lia|]. eauto.
Qed.

Lemma ev_extract_defined n z : forall (p : list (Comp R)) th ex es te,
  (n <= length p)%nat -> (n <= length th)%nat ->
  exists th' ex' es' te', ev_extract n z p th ex es te = Some (th', ex', es', te') /\ length th' = length th.
Proof.
  induction n as [|n IH]; intros p th ex es te Hp Ht; cbn [ev_extract].
  - destruct (_ >? _)%num; do 4 eexists; split; reflexivity.
  - destruct (_ >? _)%num; [|do 4 eexists; split; reflexivity].
    destruct p as [|c p]; [cbn in Hp; lia|]. destruct th as [|t th]; [cbn in Ht; lia|].
    match goal with |- context [if ?c then Some _ else _] => destruct c end; [do 4 eexists; split; reflexivity|].
    match goal with |- context [ev_extract n z p th ?a ?b ?c] =>
      destruct (IH p th a b c) as (th' & ex' & es' & te' & -> & Hl); [cbn in *; lia|cbn in *; lia|] end.
    do 4 eexists; split; [reflexivity|]. cbn. lia.
Qed.

Lemma ev_fuel_ok zmax z : (zmax - z) * 1000 <= INR (ev_fuel zmax z).
Proof.
  unfold ev_fuel. rnum. set (x := (zmax - z) * 1000).
  destruct (Rlt_dec x 0) as [Hx|Hx].
  - apply Rle_trans with 0; [lra|apply pos_INR].
  - assert (Hx' : 0 <= x) by lra. rewrite Ztrunc_floor by auto.
    pose proof (Zfloor_ub x). assert (0 <= Zfloor x)%Z by (apply Zfloor_lub; simpl; lra).
    rewrite INR_IZR_INZ, Z2Nat.id by lia. rewrite plus_IZR. lra.
Qed.

Section Defined.
  Variables (p : list (Comp R)) (ws rew fw fe zmin zmax edt : R).
  Let zlim := zmax + 1/1000.
  Hypothesis Hdeep : deep_enough p zlim.

  Lemma ev_expand_defined fuel : forall th z wrel wcheck,
    length th = length p -> (zmax - z) * 1000 <= INR fuel -> z <= zlim ->
    exists z' w', ev_expand fuel p th ws rew fw zmin zmax z wrel wcheck = Some (z', w') /\ z' <= zlim.
  Proof.
    induction fuel as [|fuel IH]; intros th z wrel wcheck Hl Hf Hz; cbn [ev_expand]; rnum.
    - destruct (Rltb_spec z zmax) as [Hlt|Hge]; [cbn [INR] in Hf; exfalso; lra|].
      rewrite andb_false_r. eauto.
    - destruct (Rltb wrel wcheck); cbn [andb]; [|eauto].
      destruct (Rltb_spec z zmax) as [Hlt|Hge]; [|eauto].
      assert (Hz' : z + 1 / 1000 <= zlim) by (unfold zlim; lra).
      destruct (elwc_defined th (z + 1/1000) p zlim Hz' Hdeep Hl) as [e He]. rnum. rewrite He.
      apply IH; auto. rewrite S_INR in Hf. lra.
  Qed.

  Lemma ev_step_defined th z es te :
    length th = length p -> z <= zlim ->
    exists th' z' es' te', ev_stage2_step p ws rew fw fe zmin zmax edt (th, z, es, te) = Some (th', z', es', te') /\
                           length th' = length p /\ z' <= zlim.
  Proof.
    intros Hl Hz. unfold ev_stage2_step, ev_step_demand.
    destruct (elwc_defined th z p zlim Hz Hdeep Hl) as [e ->].
    assert (Hex : exists z' w', (if (zmax >? zmin)%num
                    then ev_expand (ev_fuel zmax z) p th ws rew fw zmin zmax z (ev_wrel e ws rew) (ev_wcheck fw zmin zmax z)
                    else Some (z, ev_wrel e ws rew)) = Some (z', w') /\ z' <= zlim).
    { destruct (_ >? _)%num; [|eauto]. apply ev_expand_defined; auto. apply ev_fuel_ok. }
    destruct Hex as (z' & w' & -> & Hz').
    pose proof (ev_count_mono p z' zlim Hz'). pose proof (ev_count_nonneg p z'). unfold deep_enough in Hdeep.
    match goal with |- context [ev_extract ?n z' p th ?a es te] =>
      destruct (ev_extract_defined n z' p th a es te) as (th' & ex' & es' & te' & -> & Hl'); [lia|lia|] end.
    do 4 eexists. split; [reflexivity|]. split; [congruence|auto].
  Qed.

  Lemma ev_loop_defined k : forall th z es te,
    length th = length p -> z <= zlim ->
    exists s', ev_stage2_loop k p ws rew fw fe zmin zmax edt (th, z, es, te) = Some s'.
  Proof.
    induction k as [|k IH]; intros th z es te Hl Hz; cbn [ev_stage2_loop]; [eauto|].
    destruct (ev_step_defined th z es te Hl Hz) as (th' & z' & es' & te' & -> & Hl' & Hz'). apply IH; auto.
  Qed.
End Defined.

Theorem soil_evaporation_defined par p st th et0 infl rain irr gs :
  (0 < ep_steps par)%Z ->
  (gs = false \/ ep_caltype par = 1 \/ ep_caltype par = 2)%Z ->
  ep_zmin par <= ep_zmax par -> es_evapz st <= ep_zmax par ->
  deep_enough p (ep_zmax par + 1/1000) -> length th = length p ->
  exists o, soil_evaporation par p st th et0 infl rain irr gs = Some o.
Proof.
  intros Hs Hc Hz Hez Hd Hl. unfold soil_evaporation.
  assert ((ep_steps par <=? 0)%Z = false) as -> by (apply Z.leb_gt; auto).
  set (zlim := ep_zmax par + 1/1000) in *.
  assert (Hzmin : ep_zmin par <= zlim) by (unfold zlim; lra).
  assert (Hm : exists m, ev_stage1 par p st th et0 infl rain irr gs = Some m /\ length (em_th m) = length p /\ em_evapz m <= zlim).
  { unfold ev_stage1. cbv zeta.
    assert (Hi : exists w z s2 w2,
       (if ((es_tsc st =? 0)%Z || (es_dap st =? 1)%Z && negb (ep_simoff par))%bool
        then match evap_layer_water_content th (ep_zmin par) p with
             | Some e => Some (#0, ep_zmin par, true, ev_wstage2 e (ep_rew par))
             | None => None end
        else Some (es_wsurf st, es_evapz st, es_stage2 st, es_wstage2 st))%num = Some (w, z, s2, w2) /\ z <= zlim).
    { destruct (_ || _)%bool.
      - destruct (elwc_defined th (ep_zmin par) p zlim Hzmin Hd Hl) as [e ->]. do 4 eexists; split; [reflexivity|auto].
      - do 4 eexists; split; [reflexivity|]. unfold zlim; lra. }
    destruct Hi as (w & z & s2 & w2 & -> & Hz0).
    assert (Hb : exists b, ev_espot_base par st et0 gs = Some b).
    { unfold ev_espot_base. destruct gs; [|eauto]. destruct Hc as [Hc|[-> | ->]]; [discriminate| |]; cbn; eauto. }
    destruct Hb as [b ->].
    match goal with |- context [ev_extract ?n ?z p th ?a ?b ?c] =>
      pose proof (ev_count_mono p z zlim Hzmin); pose proof (ev_count_nonneg p z); unfold deep_enough in Hd;
      destruct (ev_extract_defined n z p th a b c) as (th' & ex' & es' & te' & E & Hl'); [lia|lia|] end.
    assert (Hzz : forall b1 b2 : bool, (if b1 then ep_zmin par else if b2 then ep_zmin par else z) <= zlim)
      by (intros [|] [|]; auto).
    match goal with |- exists m, (if ?c then _ else _) = _ /\ _ => destruct c end.
    - rewrite E. match goal with |- exists m, (if ?c then _ else _) = _ /\ _ => destruct c end.
      + match goal with |- context [evap_layer_water_content th' ?zz p] =>
          destruct (elwc_defined th' zz p zlim) as [e ->]; [apply Hzz|auto|congruence|] end.
        eexists; split; [reflexivity|]. cbn. split; [congruence|apply Hzz].
      + eexists; split; [reflexivity|]. cbn. split; [congruence|apply Hzz].
    - eexists; split; [reflexivity|]. cbn. split; [auto|apply Hzz]. }
  destruct Hm as (m & -> & Hlm & Hzm).
  destruct (_ >? _)%num; [|eauto].
  match goal with |- context [ev_stage2_loop ?k p ?a ?b ?c ?d ?e ?f ?g (?t, ?z, ?es, ?te)] =>
    destruct (ev_loop_defined p a b c d e f g Hd k t z es te Hlm Hzm) as [[[[th2 z2] es2] te2] ->] end.
  eauto.
Qed.

Example soil_evaporation_defined_ex : exists o, soil_evaporation wpar wp3 wst wth 10 0 0 0 false = Some o.
Proof.
  apply soil_evaporation_defined; cbn; try lia; try lra; auto.
  unfold deep_enough, ev_count. cbn. rnum. rdec. cbn. lia.
Qed.

(* Print Assumptions: only the axioms of Coq's Reals (checked when this file was written):
   es_le_pot espot_nonneg evaporation_balance evaporation_bounds evaporation_surface_bounds
   mulch_neutral mulch_off_inert soil_evaporation_defined *)
