(* GenFactsOK.v — obligations over the tables regenerated from /repo's source text on every run
   (gen/StateFields.v, gen/StoreSites.v; translator harness/gen_facts.py, ast only, fail-closed).

   Everything here is a finite check: a boolean checker is evaluated on the whole table by
   vm_compute and lifted to a statement about every row with forallb_forall.  The hand-written
   parts are the WHITELISTS (what is allowed and why); the tables are never edited by hand.
   Soundness of the tables rests on the translator's alias rules (documented at the head of the
   `Store sites` section of gen_facts.py; trusted base).

   Sites / fields that the current /repo gets wrong are NOT whitelisted: they are listed in
   [reported_sites] / [carried_live] with the reason, the theorems exclude exactly those, and the
   lemmas [reported_sites_present] / [carried_live_is_carried] fail as soon as one of them disappears
   from the code (delete the entry then).  *)
From Coq Require Import String Ascii List Bool ZArith.
From AC.gen Require Import StateFields StoreSites OrderSources.
Import ListNotations.
Local Open Scope string_scope.

(* ------------------------------------------------------------------------------------------ *)
(*  small boolean toolkit over strings                                                        *)
(* ------------------------------------------------------------------------------------------ *)
Definition mem (s : string) (l : list string) : bool := existsb (String.eqb s) l.

Lemma mem_In s l : mem s l = true <-> In s l.
Proof.
  unfold mem. rewrite existsb_exists. split.
  - intros [x [Hx E]]. apply String.eqb_eq in E. subst. exact Hx.
  - intros H. exists s. split; [exact H | apply String.eqb_refl].
Qed.

Lemma mem_not_In s l : mem s l = false <-> ~ In s l.
Proof.
  split.
  - intros H C. apply mem_In in C. congruence.
  - intros H. destruct (mem s l) eqn:E; [exfalso; apply H, mem_In, E | reflexivity].
Qed.

Fixpoint nodupb (l : list string) : bool :=
  match l with [] => true | x :: t => negb (mem x t) && nodupb t end.

Lemma nodupb_NoDup l : nodupb l = true -> NoDup l.
Proof.
  induction l as [|x t IH]; simpl; intros H; constructor.
  - apply andb_true_iff in H. destruct H as [H _]. apply negb_true_iff in H. apply mem_not_In, H.
  - apply IH. apply andb_true_iff in H. tauto.
Qed.

Definition subsetb (a b : list string) : bool := forallb (fun x => mem x b) a.

Lemma subsetb_incl a b : subsetb a b = true -> forall x, In x a -> In x b.
Proof. unfold subsetb. intros H x Hx. apply mem_In. exact (proj1 (forallb_forall _ _) H x Hx). Qed.

Fixpoint has_dot (s : string) : bool :=
  match s with EmptyString => false | String c t => Ascii.eqb c "."%char || has_dot t end.

Definition eqb2 (a b : string * string) : bool := String.eqb (fst a) (fst b) && String.eqb (snd a) (snd b).
Definition eqb3 (a b : string * string * string) : bool :=
  eqb2 (fst a) (fst b) && String.eqb (snd a) (snd b).
Definition eqb4 (a b : string * string * string * string) : bool :=
  eqb3 (fst a) (fst b) && String.eqb (snd a) (snd b).

Lemma eqb2_eq a b : eqb2 a b = true <-> a = b.
Proof.
  destruct a, b. unfold eqb2. simpl. rewrite andb_true_iff, !String.eqb_eq.
  split; [intros [-> ->]; reflexivity | intros E; inversion E; auto].
Qed.
Lemma eqb3_eq a b : eqb3 a b = true <-> a = b.
Proof.
  destruct a as [a1 a2], b as [b1 b2]. unfold eqb3. simpl. rewrite andb_true_iff, eqb2_eq, String.eqb_eq.
  split; [intros [-> ->]; reflexivity | intros E; inversion E; auto].
Qed.
Lemma eqb4_eq a b : eqb4 a b = true <-> a = b.
Proof.
  destruct a as [a1 a2], b as [b1 b2]. unfold eqb4. simpl. rewrite andb_true_iff, eqb3_eq, String.eqb_eq.
  split; [intros [-> ->]; reflexivity | intros E; inversion E; auto].
Qed.

Definition mem2 x l := existsb (eqb2 x) l.
Definition mem3 x l := existsb (eqb3 x) l.
Definition mem4 x l := existsb (eqb4 x) l.

Lemma mem2_In x l : mem2 x l = true <-> In x l.
Proof.
  unfold mem2. rewrite existsb_exists. split.
  - intros [y [Hy E]]. apply eqb2_eq in E. subst. exact Hy.
  - intros H. exists x. split; [exact H | apply eqb2_eq; reflexivity].
Qed.
Lemma mem3_In x l : mem3 x l = true <-> In x l.
Proof.
  unfold mem3. rewrite existsb_exists. split.
  - intros [y [Hy E]]. apply eqb3_eq in E. subst. exact Hy.
  - intros H. exists x. split; [exact H | apply eqb3_eq; reflexivity].
Qed.
Lemma mem4_In x l : mem4 x l = true <-> In x l.
Proof.
  unfold mem4. rewrite existsb_exists. split.
  - intros [y [Hy E]]. apply eqb4_eq in E. subst. exact Hy.
  - intros H. exists x. split; [exact H | apply eqb4_eq; reflexivity].
Qed.

Definition kind_eqb (a b : store_kind) : bool :=
  match a, b with
  | Attr, Attr | Index, Index | AttrIndex, AttrIndex | AugAttr, AugAttr | AugIndex, AugIndex
  | LocIndex, LocIndex | SetAttr, SetAttr | MutCall, MutCall => true
  | _, _ => false
  end.
Lemma kind_eqb_eq a b : kind_eqb a b = true <-> a = b.
Proof. destruct a, b; simpl; split; intros H; try reflexivity; try discriminate. Qed.

(* a row of store_sites *)
Definition site := (string * string * string * string * store_kind)%type.
Definition s_mod (s : site) : string := fst (fst (fst (fst s))).
Definition s_fun (s : site) : string := snd (fst (fst (fst s))).
Definition s_root (s : site) : string := snd (fst (fst s)).
Definition s_attr (s : site) : string := snd (fst s).
Definition s_kind (s : site) : store_kind := snd s.
Definition s_key (s : site) : string * string * string * string := fst s.
Definition s_mfr (s : site) : string * string * string := fst (fst s).

Definition site_eqb (a b : site) : bool := eqb4 (s_key a) (s_key b) && kind_eqb (s_kind a) (s_kind b).
Lemma site_eqb_eq a b : site_eqb a b = true <-> a = b.
Proof.
  destruct a as [ka kka], b as [kb kkb]. unfold site_eqb, s_key, s_kind. simpl.
  rewrite andb_true_iff, eqb4_eq, kind_eqb_eq.
  split; [intros [-> ->]; reflexivity | intros E; inversion E; auto].
Qed.
Definition site_mem (s : site) (l : list site) : bool := existsb (site_eqb s) l.
Lemma site_mem_In s l : site_mem s l = true <-> In s l.
Proof.
  unfold site_mem. rewrite existsb_exists. split.
  - intros [y [Hy E]]. apply site_eqb_eq in E. subst. exact Hy.
  - intros H. exists s. split; [exact H | apply site_eqb_eq; reflexivity].
Qed.

Definition in_solution (m : string) : bool := String.prefix "aquacrop.solution." m.
Definition in_timestep (m : string) : bool := String.prefix "aquacrop.timestep." m.
Definition in_entities (m : string) : bool := String.prefix "aquacrop.entities." m.
Definition stepping_module (m : string) : bool := in_solution m || in_timestep m.

(* ========================================================================================== *)
(*  Part 1 — the state object and the season reset (C08, C06)                                 *)
(* ========================================================================================== *)

Theorem state_fields_nodup : NoDup state_fields.
Proof. apply nodupb_NoDup. vm_compute. reflexivity. Qed.

Theorem reset_fields_subset : forall f, In f reset_fields -> In f state_fields.
Proof. apply subsetb_incl. vm_compute. reflexivity. Qed.

Theorem init_fields_subset : forall f, In f init_fields_set_by_read_model_initial_conditions -> In f state_fields.
Proof. apply subsetb_incl. vm_compute. reflexivity. Qed.

(* Structure of the reset: a field is either assigned on every path, or on every path through the
   body of `if ClockStruct.sim_off_season is False:` — nothing is assigned only in some deeper branch. *)
Definition off_season_skipped_guard : string := "ClockStruct.sim_off_season is False".

Theorem reset_fields_maybe_empty : reset_fields_maybe = [].
Proof. vm_compute. reflexivity. Qed.

Theorem reset_guards_are_off_season :
  forall f g, In (f, g) reset_fields_guarded -> g = off_season_skipped_guard.
Proof.
  assert (H : forallb (fun p => String.eqb (snd p) off_season_skipped_guard) reset_fields_guarded = true)
    by (vm_compute; reflexivity).
  intros f g Hin. apply String.eqb_eq. exact (proj1 (forallb_forall _ _) H (f, g) Hin).
Qed.

Theorem reset_fields_covered :
  forall f, In f reset_fields -> In f reset_fields_unconditional \/ In f (map fst reset_fields_guarded).
Proof.
  assert (H : subsetb reset_fields (reset_fields_unconditional ++ map fst reset_fields_guarded) = true)
    by (vm_compute; reflexivity).
  intros f Hf. apply in_app_or. exact (subsetb_incl _ _ H f Hf).
Qed.

(* the weather argument is read only for thermal-time crops *)
Theorem reset_weather_guard_ok :
  reset_reads_weather = true -> reset_weather_guard = "crop.CalendarType == 2".
Proof. intros _. vm_compute. reflexivity. Qed.

(* crop attributes assigned by the reset: thermal calendar (calendar-day equivalents of the GDD
   stages, harvest-index build-up coefficients) and the CO2 factor — nothing else *)
Definition reset_crop_ok : list string :=
  [ "fCO2";                                                   (* CO2 adjustment of water productivity *)
    "MaturityCD"; "MaxCanopyCD"; "CanopyDevEndCD"; "HIstartCD"; "HIendCD"; "YldFormCD"; "FloweringCD";
    "HIGC"; "tLinSwitch"; "dHILinear" ].

Theorem reset_crop_fields_whitelisted : forall f, In f reset_crop_fields -> In f reset_crop_ok.
Proof. apply subsetb_incl. vm_compute. reflexivity. Qed.

(* ---- fields that survive the reset ------------------------------------------------------ *)
Definition carried_fields : list string := filter (fun f => negb (mem f reset_fields)) state_fields.

Lemma carried_fields_spec f : In f carried_fields <-> In f state_fields /\ ~ In f reset_fields.
Proof.
  unfold carried_fields. rewrite filter_In, negb_true_iff, mem_not_In. tauto.
Qed.

(* Legitimately NOT reset.  Setting: first day of season k >= 1, off-season not simulated, i.e.
   update_time has jumped to the planting date and called reset_initial_conditions; in
   solution_single_time_step the local growing_season is True (planting date <= today <= harvest
   date, crop_mature / crop_dead just reset) and dap becomes 1, delayed_cds = delayed_gdds = 0.
   Line numbers refer to aquacrop/timestep/run_single_timestep.py unless a file is named. *)
Definition carried_ok : list string :=
  [ "growing_season";     (* write-only: assigned at l.144/146, never read from the state object *)
    "yield_form";         (* passed to HIref_current_day (l.381), which assigns it from tAdj > HIstartCD on every
                             growing-season path before returning it; first consumer harvest_index (l.407) *)
    "stage2";             (* soil_evaporation re-initialises Wsurf, EvapZ, Stage2, Wstage2 when
                             DAP == 1 and SimOffSeason == False (soil_evaporation.py, first statement) *)
    "w_surf";             (* same *)
    "evap_z";             (* same *)
    "w_stage_2";          (* same *)
    "wt_in_soil";         (* assigned from check_groundwater_table (l.165) before its only reader
                             groundwater_inflow; recomputed from the groundwater series or None *)
    "z_gw";               (* passed to check_groundwater_table but not used by it: the result is
                             the day's groundwater depth (water table) or None (no table) *)
    "th_fc_Adj";          (* water table: recomputed by check_groundwater_table from the profile and
                             the day's depth, argument unused; no table: returned unchanged, and it is a
                             run constant (profile th_fc, assigned once in read_model_initial_conditions;
                             see th_fc_Adj_only_reassigned below) *)
    "hi_ref";             (* HIref_current_day: HIt = dap - delayed_cds - HIstartCD - 1 = -HIstartCD <= 0 on
                             day 1, so hi_ref := 0 before biomass_accumulation / harvest_index read it *)
    "YieldPot";           (* assigned at l.411 from biomass_ns and harvest_index before it is reported *)
    "z_root";             (* root_development: NewCond_Zroot := Crop.Zmin (and Zroot_init) when DAP == 1 in the
                             growing season, before any use; all other readers come later in the step *)
    "thini";              (* the stored initial water content itself: source of the reset of th; assigned
                             once at initialisation as a copy (fix 72d5965), see thini_never_written *)
    "time_step_counter";  (* assigned from the clock at l.155 before irrigation reads it (l.243) *)
    "precipitation";      (* write-only copy of the day's weather (l.156) *)
    "temp_max";           (* write-only (l.157) *)
    "temp_min";           (* write-only (l.158) *)
    "et0";                (* write-only (l.159) *)
    "gdd";                (* write-only (l.141); the processes receive the local gdd *)
    "depletion";          (* assigned from irrigation() (l.227) / at the end of the step; never read from the state *)
    "taw"                 (* same *)
  ].

(* NOT whitelisted — genuinely live, reported (possible C08 defect):
   cc0_adj is read by canopy_cover (solution/canopy_cover.py l.185:
   `if InitCond_CC <= NewCond.cc0_adj or ...`, and l.196-215) before being assigned whenever
   tCCadj >= Crop.Emergence already on day 1, i.e. calendar crops with Emergence <= 1 day and
   thermal-time crops whose first-day GDD reaches Emergence (AlfalfaGDD: Emergence = 1 GDD).
   Its value at the end of the previous season is Crop.CC0 or — after an early-senescence
   recovery (canopy_cover.py l.268, l.393) — the canopy cover of that day, whereas a fresh run
   starts from Crop.CC0 (read_model_initial_conditions).  When tCCadj < Emergence on day 1 the
   first branch (l.182) assigns cc0_adj := CC0 and the field is dead. *)
(* repaired in /repo by commit cb3b480 (the reset now assigns cc0_adj := crop.CC0): no live carried field is left *)
Definition carried_live : list string := [ ].

Theorem carried_fields_whitelisted :
  forall f, In f carried_fields -> In f carried_ok \/ In f carried_live.
Proof.
  assert (H : subsetb carried_fields (carried_ok ++ carried_live) = true) by (vm_compute; reflexivity).
  intros f Hf. apply in_app_or. exact (subsetb_incl _ _ H f Hf).
Qed.

(* the strict form, for every carried field other than the reported one *)
Theorem carried_fields_whitelisted_strict :
  forall f, In f carried_fields -> f <> "cc0_adj" -> In f carried_ok.
Proof.
  intros f Hf Hn. destruct (carried_fields_whitelisted f Hf) as [H | H]; [exact H |].
  simpl in H. destruct H.
Qed.

(* the reported entry is exact: fails (delete the entry) once the reset assigns cc0_adj *)
Lemma carried_live_is_carried : forall f, In f carried_live -> In f carried_fields.
Proof. apply subsetb_incl. vm_compute. reflexivity. Qed.

Lemma carried_ok_disjoint_live : forall f, In f carried_ok -> ~ In f carried_live.
Proof.
  assert (H : forallb (fun f => negb (mem f carried_live)) carried_ok = true) by (vm_compute; reflexivity).
  intros f Hf. apply mem_not_In, negb_true_iff. exact (proj1 (forallb_forall _ _) H f Hf).
Qed.

(* ========================================================================================== *)
(*  Part 2 — store sites (C10, C11, C12)                                                      *)
(* ========================================================================================== *)

(* ---- sites of the current /repo that are NOT accepted: reported, excluded by name --------- *)
Definition reported_sites : list site :=
  [ (* aquacrop/utils/lars.py l.4: `_ = [sys.path.append(i) for i in [".", ".."]]` at import time —
       a write to process-global interpreter state (module search path) from library code; grows by two
       entries per (re)import, changes what later imports resolve to.  Not simulation state, but it is
       exactly a "store on a module-level name" (C10). *)
    ("aquacrop.utils.lars", "<module>", "sys", "path", MutCall);
    (* aquacrop/timestep/run_single_timestep.py l.125-126: `Crop_ = param_struct.Fallow_Crop;
       Crop_.Aer = 5; Crop_.Zmin = 0.3` on every step before the first season — a parameter store while
       stepping (C12).  The object is the deep copy made by compute_variables, not a season's crop and not
       the user's crop, and the stored values are constants, so the store is idempotent; it is still a
       write into ParamStruct from the time loop and is not one of the enumerated exceptions. *)
    ("aquacrop.timestep.run_single_timestep", "solution_single_time_step", "param_struct", "Aer", Attr);
    ("aquacrop.timestep.run_single_timestep", "solution_single_time_step", "param_struct", "Zmin", Attr) ].

Definition reported (s : site) : bool := site_mem s reported_sites.

Lemma reported_sites_present : forall s, In s reported_sites -> In s store_sites.
Proof.
  assert (H : forallb (fun s => site_mem s store_sites) reported_sites = true) by (vm_compute; reflexivity).
  intros s Hs. apply site_mem_In. exact (proj1 (forallb_forall _ _) H s Hs).
Qed.

(* ---- whitelists ------------------------------------------------------------------------- *)
(* names under which the state object (InitialCondition) is known in solution/ and timestep/ *)
Definition state_roots : list string := [ "InitCond"; "NewCond"; "init_cond" ].

(* parameters of solution functions that ARE a state array or a per-step scratch array *)
Definition state_array_params : list (string * string * string) :=
  [ (* NewCond.th passed by run_single_timestep (l.338); soil_evaporation extracts water from it in place
       and returns it *)
    ("aquacrop.solution.soil_evaporation", "soil_evaporation", "NewCond_th");
    (* the per-step flux array created by drainage() (fresh np.zeros) and handed to infiltration, which
       adds the infiltration fluxes in place; it never belongs to the parameters *)
    ("aquacrop.solution.infiltration", "infiltration", "FluxOut") ].

Definition output_tables : list string := [ "water_storage"; "water_flux"; "crop_growth"; "final_stats" ].

(* initialisation write-backs (all run from AquaCropModel._initialize, before the first step):
   (module, function, root) *)
Definition init_writebacks : list (string * string * string) :=
  [ (* crop calendar: calendar-day / GDD stage attributes, CGC/CDC conversion, CalendarType switch *)
    ("aquacrop.initialize.compute_crop_calendar", "compute_crop_calendar", "crop");
    (* `weather_df = weather_df.copy(); weather_df.index = weather_df.Date` (l.126-127, l.229-230) and the
       call prepare_gdd(weather_df, ...) on that copy: the analysis is flow-insensitive, so the rebound
       parameter name still counts as the parameter; the stores hit the copy *)
    ("aquacrop.initialize.compute_crop_calendar", "compute_crop_calendar", "weather_df");
    (* Soil.rew/cn/capillary-rise columns, per-season crop list (deep copies), HIGC/tLinSwitch/dHILinear,
       CO2.co2_data_processed / current_concentration, fCO2, Fallow_Crop *)
    ("aquacrop.initialize.compute_variables", "compute_variables", "param_struct");
    (* only the call compute_crop_calendar(crop, ..., weather_df) (see above) *)
    ("aquacrop.initialize.compute_variables", "compute_variables", "weather_df");
    ("aquacrop.initialize.create_soil_profile", "create_soil_profile", "param_struct");  (* Soil.Profile := arrays *)
    ("aquacrop.initialize.read_field_managment", "read_field_management", "ParamStruct");  (* FieldMngt structs *)
    ("aquacrop.initialize.read_groundwater_table", "read_groundwater_table", "ParamStruct"); (* z_gw series *)
    ("aquacrop.initialize.read_irrigation_management", "read_irrigation_management", "ParamStruct"); (* IrrMngt structs *)
    (* Soil.profile gets the th_fc_Adj column, Soil.Hydrology *)
    ("aquacrop.initialize.read_model_initial_conditions", "read_model_initial_conditions", "ParamStruct");
    (* the USER's soil object: profile deepened for deep-rooted crops (soil.profile.loc[i,'dz'] += 0.1; fill_nan) *)
    ("aquacrop.initialize.read_model_parameters", "read_model_parameters", "soil");
    (* the USER's crop object: crop calendar (via compute_crop_calendar) and harvest_date *)
    ("aquacrop.initialize.read_model_parameters", "read_model_parameters", "crop");
    (* only the call compute_crop_calendar(crop, ..., weather_df) *)
    ("aquacrop.initialize.read_model_parameters", "read_model_parameters", "weather_df");
    (* planting_dates, harvest_dates, n_seasons, season_counter *)
    ("aquacrop.initialize.read_model_parameters", "read_model_parameters", "clock_struct");
    (* SwitchGDD: gdd / season columns on the (copied) weather table, GDD stage attributes on the crop *)
    ("aquacrop.utils.prepare_gdd", "prepare_gdd", "weather_df");
    ("aquacrop.utils.prepare_gdd", "prepare_gdd", "crop") ].

(* what reset_initial_conditions may store below ParamStruct / the season's crop *)
Definition reset_param_attrs : list string :=
  reset_crop_ok ++ [ "current_concentration";   (* ParamStruct.CO2.current_concentration := this season's CO2 *)
                     "Seasonal_Crop_List" ].    (* ParamStruct.Seasonal_Crop_List[k] = crop (same object) *)

Definition clock_counters : list string :=
  [ "season_counter"; "time_step_counter"; "step_start_time"; "step_end_time" ].

Definition attr_kind (k : store_kind) : bool :=
  match k with Attr | AugAttr | AttrIndex | AugIndex => true | _ => false end.

Definition store_allowed (s : site) : bool :=
  let m := s_mod s in let f := s_fun s in let r := s_root s in let a := s_attr s in let k := s_kind s in
  (* (A) self inside methods of the core / entity classes *)
  (String.eqb r "self" && (String.eqb m "aquacrop.core" || in_entities m) && has_dot f)
  (* (B) the state object in solution/ and timestep/: declared fields only *)
  || (stepping_module m && mem r state_roots && (if attr_kind k then mem a state_fields else String.eqb a ""))
  (* (C) state / scratch arrays passed as parameters *)
  || (mem3 (m, f, r) state_array_params && kind_eqb k Index)
  (* (D) output tables *)
  || (String.eqb m "aquacrop.timestep.run_single_timestep" && String.eqb r "outputs" && mem a output_tables)
  (* (E) initialisation write-backs *)
  || mem3 (m, f, r) init_writebacks
  (* (F) season start: thermal calendar + CO2 *)
  || (String.eqb m "aquacrop.timestep.reset_initial_conditions" && String.eqb f "reset_initial_conditions"
      && (String.eqb r "ParamStruct" || String.eqb r "crop") && mem a reset_param_attrs
      && (kind_eqb k Attr || (kind_eqb k AttrIndex && String.eqb a "Seasonal_Crop_List")))
  (* (G) the clock, and update_time's call of the reset *)
  || (String.eqb m "aquacrop.timestep.update_time" && String.eqb f "update_time"
      && ((String.eqb r "clock_struct" && mem a clock_counters && kind_eqb k Attr)
          || ((String.eqb r "param_struct" || String.eqb r "crop") && String.eqb a "" && kind_eqb k MutCall))).

Definition store_sites_checked : list site := filter (fun s => negb (reported s)) store_sites.

Theorem stores_allowed : forallb store_allowed store_sites_checked = true.
Proof. vm_compute. reflexivity. Qed.

Theorem stores_allowed_In : forall s, In s store_sites -> ~ In s reported_sites -> store_allowed s = true.
Proof.
  intros s Hs Hr. apply (proj1 (forallb_forall _ _) stores_allowed).
  unfold store_sites_checked. apply filter_In. split; [exact Hs |].
  apply negb_true_iff. unfold reported. destruct (site_mem s reported_sites) eqn:E; [|reflexivity].
  exfalso. apply Hr, site_mem_In, E.
Qed.

(* the reported sites are indeed not acceptable under the whitelist (no accidental double cover) *)
Lemma reported_sites_rejected : forallb (fun s => negb (store_allowed s)) reported_sites = true.
Proof. vm_compute. reflexivity. Qed.

(* ---- C10: nothing process-global is written ---------------------------------------------- *)
Definition mutable_global_names : list string := map snd module_level_mutables.

Definition no_global_b (s : site) : bool :=
  negb (mem (s_root s) mutable_global_names) && negb (site_mem s global_store_sites).

Theorem no_store_on_module_globals :
  forall s, In s store_sites -> ~ In s reported_sites ->
    ~ In (s_root s) (map snd module_level_mutables) /\ ~ In s global_store_sites.
Proof.
  assert (H : forallb no_global_b store_sites_checked = true) by (vm_compute; reflexivity).
  intros s Hs Hr.
  assert (Hc : In s store_sites_checked).
  { unfold store_sites_checked. apply filter_In. split; [exact Hs |].
    apply negb_true_iff. unfold reported. destruct (site_mem s reported_sites) eqn:E; [|reflexivity].
    exfalso. apply Hr, site_mem_In, E. }
  pose proof (proj1 (forallb_forall _ _) H s Hc) as B. unfold no_global_b in B.
  apply andb_true_iff in B. destruct B as [B1 B2]. apply negb_true_iff in B1, B2. split.
  - apply mem_not_In. exact B1.
  - intros C. apply site_mem_In in C. congruence.
Qed.

(* the only store rooted at a module-level name in the whole package is the reported one *)
Theorem global_store_sites_exact :
  global_store_sites = [ ("aquacrop.utils.lars", "<module>", "sys", "path", MutCall) ].
Proof. vm_compute. reflexivity. Qed.

Theorem global_store_sites_incl : forall s, In s global_store_sites -> In s store_sites.
Proof.
  assert (H : forallb (fun s => site_mem s store_sites) global_store_sites = true) by (vm_compute; reflexivity).
  intros s Hs. apply site_mem_In. exact (proj1 (forallb_forall _ _) H s Hs).
Qed.

(* no parameter with a possibly-mutable default is ever the root of a store (no exclusion needed) *)
Theorem no_store_on_default_args :
  forall s, In s store_sites -> ~ In (s_mfr s) mutable_defaults.
Proof.
  assert (H : forallb (fun s => negb (mem3 (s_mfr s) mutable_defaults)) store_sites = true) by (vm_compute; reflexivity).
  intros s Hs C. apply mem3_In in C.
  pose proof (proj1 (forallb_forall _ _) H s Hs) as B. apply negb_true_iff in B. congruence.
Qed.

(* ... and the attributes a default object escapes into (self.dates = dates, ...) are never written in
   place anywhere in the package (x.dates[i] = .., x.dates.append(..), x.dates.loc[..] = ..): the only
   stores naming such an attribute re-assign it (kind Attr).  This closes the heap-mediated path
   `self.a = default_object; ...; obj.a.append(v)` that root-based aliasing cannot see. *)
Definition escape_attrs : list string := map (fun e => snd e) default_escapes.

Definition inplace_kind (k : store_kind) : bool :=
  match k with AttrIndex | AugIndex | LocIndex | MutCall | AugAttr => true | _ => false end.

Theorem escaped_defaults_never_written_in_place :
  forall s, In s store_sites -> In (s_attr s) escape_attrs -> inplace_kind (s_kind s) = false.
Proof.
  assert (H : forallb (fun s => negb (mem (s_attr s) escape_attrs && inplace_kind (s_kind s))) store_sites = true)
    by (vm_compute; reflexivity).
  intros s Hs Ha. pose proof (proj1 (forallb_forall _ _) H s Hs) as B.
  apply negb_true_iff, andb_false_iff in B. destruct B as [B | B]; [| exact B].
  apply mem_In in Ha. congruence.
Qed.

(* ---- C12: parameters and weather are not written while stepping --------------------------- *)
(* names under which soil profile / soil / management / groundwater / parameter struct / weather / crop /
   clock are known in solution/ and timestep/ (parameters and their local aliases all resolve to the
   parameter name, so this is a list of PARAMETER names) *)
Definition param_roots : list string :=
  [ "prof"; "Soil"; "soil"; "IrrMngt"; "FieldMngt"; "Groundwater"; "GroundWater";
    "param_struct"; "ParamStruct"; "weather"; "weather_step"; "_weather";
    "Crop"; "crop"; "Crop_"; "CO2"; "clock_struct"; "ClockStruct" ].

(* the enumerated exceptions *)
Definition stepping_exception (s : site) : bool :=
  let m := s_mod s in let f := s_fun s in let r := s_root s in let a := s_attr s in let k := s_kind s in
  (* reset_initial_conditions: the new season's crop (reached as ParamStruct.Seasonal_Crop_List[k] and as the
     rebound parameter `crop`): thermal calendar + fCO2; ParamStruct.CO2.current_concentration *)
  (String.eqb m "aquacrop.timestep.reset_initial_conditions" && String.eqb f "reset_initial_conditions"
   && (String.eqb r "ParamStruct" || String.eqb r "crop") && mem a reset_param_attrs)
  (* update_time: clock counters *)
  || (String.eqb m "aquacrop.timestep.update_time" && String.eqb f "update_time"
      && String.eqb r "clock_struct" && mem a clock_counters && kind_eqb k Attr)
  (* update_time: the call reset_initial_conditions(clock_struct, init_cond, param_struct, weather, crop),
     whose effects are the rows above *)
  || (String.eqb m "aquacrop.timestep.update_time" && String.eqb f "update_time"
      && (String.eqb r "param_struct" || String.eqb r "crop") && String.eqb a "" && kind_eqb k MutCall).

Theorem no_param_store_while_stepping :
  forall s, In s store_sites -> ~ In s reported_sites -> stepping_module (s_mod s) = true ->
    In (s_root s) param_roots -> stepping_exception s = true.
Proof.
  assert (H : forallb (fun s => negb (stepping_module (s_mod s) && mem (s_root s) param_roots) || stepping_exception s)
                store_sites_checked = true) by (vm_compute; reflexivity).
  intros s Hs Hr Hm Hp.
  assert (Hc : In s store_sites_checked).
  { unfold store_sites_checked. apply filter_In. split; [exact Hs |].
    apply negb_true_iff. unfold reported. destruct (site_mem s reported_sites) eqn:E; [|reflexivity].
    exfalso. apply Hr, site_mem_In, E. }
  pose proof (proj1 (forallb_forall _ _) H s Hc) as B.
  apply orb_true_iff in B. destruct B as [B | B]; [| exact B].
  apply negb_true_iff, andb_false_iff in B. destruct B as [B | B]; [congruence |].
  apply mem_In in Hp. congruence.
Qed.

(* The same fact in closed form (independent of how a parameter is called): every accepted store in
   solution/ and timestep/ is rooted at the state object, a state/scratch array, the output tables, or
   is one of the exceptions above. *)
Definition stepping_root_ok (s : site) : bool :=
  mem (s_root s) state_roots
  || (mem3 (s_mfr s) state_array_params)
  || (String.eqb (s_root s) "outputs")
  || stepping_exception s.

Theorem stepping_roots_closed :
  forall s, In s store_sites -> ~ In s reported_sites -> stepping_module (s_mod s) = true -> stepping_root_ok s = true.
Proof.
  assert (H : forallb (fun s => negb (stepping_module (s_mod s)) || stepping_root_ok s) store_sites_checked = true)
    by (vm_compute; reflexivity).
  intros s Hs Hr Hm.
  assert (Hc : In s store_sites_checked).
  { unfold store_sites_checked. apply filter_In. split; [exact Hs |].
    apply negb_true_iff. unfold reported. destruct (site_mem s reported_sites) eqn:E; [|reflexivity].
    exfalso. apply Hr, site_mem_In, E. }
  pose proof (proj1 (forallb_forall _ _) H s Hc) as B.
  apply orb_true_iff in B. destruct B as [B | B]; [| exact B].
  apply negb_true_iff in B. congruence.
Qed.

(* solution/ alone (the processes): the state object and the two arrays, nothing else, no exception *)
Theorem solution_stores_state_only :
  forall s, In s store_sites -> in_solution (s_mod s) = true ->
    In (s_root s) state_roots \/ In (s_mfr s) state_array_params.
Proof.
  assert (H : forallb (fun s => negb (in_solution (s_mod s)) || mem (s_root s) state_roots
                                || mem3 (s_mfr s) state_array_params) store_sites = true)
    by (vm_compute; reflexivity).
  intros s Hs Hm. pose proof (proj1 (forallb_forall _ _) H s Hs) as B.
  apply orb_true_iff in B. destruct B as [B | B]; [| right; apply mem3_In, B].
  apply orb_true_iff in B. destruct B as [B | B]; [| left; apply mem_In, B].
  apply negb_true_iff in B. congruence.
Qed.

(* every attribute stored on the state object while stepping is a declared field of InitialCondition
   (no ad-hoc attribute can carry state past the reset unnoticed) *)
Theorem state_stores_declared :
  forall s, In s store_sites -> stepping_module (s_mod s) = true -> In (s_root s) state_roots ->
    attr_kind (s_kind s) = true -> In (s_attr s) state_fields.
Proof.
  assert (H : forallb (fun s => negb (stepping_module (s_mod s) && mem (s_root s) state_roots && attr_kind (s_kind s))
                                || mem (s_attr s) state_fields) store_sites = true) by (vm_compute; reflexivity).
  intros s Hs Hm Hr Hk. pose proof (proj1 (forallb_forall _ _) H s Hs) as B.
  apply orb_true_iff in B. destruct B as [B | B]; [| apply mem_In, B].
  apply mem_In in Hr. rewrite Hm, Hr, Hk in B. discriminate.
Qed.

(* thini: never stored to while stepping (neither re-assigned nor written in place); th_fc_Adj: only
   re-assigned as a whole (run_single_timestep, from check_groundwater_table), never written in place *)
Theorem thini_never_written :
  forall s, In s store_sites -> stepping_module (s_mod s) = true -> s_attr s <> "thini".
Proof.
  assert (H : forallb (fun s => negb (stepping_module (s_mod s) && String.eqb (s_attr s) "thini")) store_sites = true)
    by (vm_compute; reflexivity).
  intros s Hs Hm C. pose proof (proj1 (forallb_forall _ _) H s Hs) as B. cbv beta in B.
  rewrite Hm, C in B. discriminate.
Qed.

Theorem th_fc_Adj_only_reassigned :
  forall s, In s store_sites -> stepping_module (s_mod s) = true -> s_attr s = "th_fc_Adj" ->
    s_kind s = Attr /\ s_mod s = "aquacrop.timestep.run_single_timestep".
Proof.
  assert (H : forallb (fun s => negb (stepping_module (s_mod s) && String.eqb (s_attr s) "th_fc_Adj")
                                || (kind_eqb (s_kind s) Attr && String.eqb (s_mod s) "aquacrop.timestep.run_single_timestep"))
                store_sites = true) by (vm_compute; reflexivity).
  intros s Hs Hm Ha. pose proof (proj1 (forallb_forall _ _) H s Hs) as B. cbv beta in B.
  rewrite Hm, Ha in B. simpl in B. apply andb_true_iff in B. destruct B as [B1 B2].
  split; [apply kind_eqb_eq, B1 | apply String.eqb_eq, B2].
Qed.

(* table sizes (lower bounds only), so that an empty / truncated table cannot pass vacuously *)
Lemma table_sizes :
  (60 <=? length state_fields)%nat = true /\ (40 <=? length reset_fields)%nat = true /\
  length store_sites = store_site_count /\ (500 <=? length store_sites)%nat = true.
Proof. vm_compute. repeat split; reflexivity. Qed.

(* ------------------------------------------------------------------------------------------------------------ *)
(* C10 (hash seed / process / environment): the ONLY constructs in the whole package whose value or iteration order can
   depend on the hash seed, the process, the clock or the environment are the five listed ones — the wall-clock timers of
   run_model (reported as execution time only), two set displays used for membership tests only (`k in allowed_keys`,
   never iterated), the import-time `os.getenv("DEVELOPMENT")` that selects between two imports of the same module, and
   the data-file listing helper.  A new set()/hash()/id()/random/... anywhere in /repo changes the regenerated table and
   breaks this theorem. *)
Theorem order_sources_exact :
  order_sources = [ ("aquacrop.core", "AquaCropModel.run_model", "time");
                    ("aquacrop.entities.crop", "Crop.__init__", "set-display");
                    ("aquacrop.entities.irrigationManagement", "IrrigationManagement.__init__", "set-display");
                    ("aquacrop.solution.irrigation", "<module>", "os.getenv");
                    ("aquacrop.utils.data", "list_data", "os.listdir") ]%string.
Proof. vm_compute. reflexivity. Qed.
