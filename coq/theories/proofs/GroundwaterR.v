(* GroundwaterR.v — theorems over R about Water/Groundwater.v (property C19, shares of C01/C03/C04).
   Profiles of any length; vocabulary of ProfR.v. *)
From AC Require Import Num RInst Params.
From AC.Water Require Import Groundwater.
From AC.proofs Require Import ProfR.
From Coq Require Import Sorted.
From Flocq Require Import Raux Generic_fmt Round_NE.
Local Open Scope R_scope.

(* decide comparisons between concrete numbers (used by the Examples / witnesses) *)
Ltac rdecide :=
  repeat match goal with
  | |- context [Rleb ?a ?b] => first [rewrite (Rleb_true a b) by lra | rewrite (Rleb_false a b) by lra]
  | |- context [Rltb ?a ?b] => first [rewrite (Rltb_true a b) by lra | rewrite (Rltb_false a b) by lra]
  end; cbn [andb orb negb].

Lemma frac01 a b : 0 <= a <= b -> 0 < b -> 0 <= a / b <= 1.
Proof.
  intros [Ha Hab] Hb. split.
  - apply Rmult_le_pos; [exact Ha | left; apply Rinv_0_lt_compat; exact Hb].
  - apply (Rmult_le_reg_r b); [exact Hb|]. unfold Rdiv. rewrite Rmult_assoc, Rinv_l; lra.
Qed.

(* ================================================================== 1. check_groundwater_table *)

(* Python's `x ** 2` (libm pow) on a positive real is the square *)
Lemma Rpow_sq x : 0 < x -> Rpow x 2 = x * x.
Proof.
  intros Hx. unfold Rpow. destruct (Req_EM_T x 0) as [e|_]; [lra|].
  replace 2 with (INR 2) by (simpl; lra). rewrite Rpower_pow by exact Hx. simpl. ring.
Qed.

Lemma gw_xmax_pos c : 0 < gw_xmax c.
Proof.
  unfold gw_xmax. rnum. rcases; try lra.
  apply Rdiv_lt_0_compat; [apply exp_pos | lra].
Qed.

(* the value of a compartment that is not "far" from the table lies between field capacity and saturation *)
Lemma gw_fcadj_comp_range zgw c :
  c_th_fc c < c_th_s c -> gw_far zgw c = false -> c_th_fc c <= gw_fcadj_comp zgw c <= c_th_s c.
Proof.
  intros Hfs Hfar. unfold gw_far in Hfar. apply orb_false_elim in Hfar. destruct Hfar as [H0 H1].
  pose proof (gw_xmax_pos c) as HX. unfold gw_fcadj_comp. revert H0 H1. generalize (gw_xmax c) HX. intros X HX0.
  rnum. intros H0 H1.
  destruct (Rleb_spec X (zgw - c_zmid c)) as [|Hn]; [discriminate|]. clear H0 H1.
  rcases; try lra.
  rewrite Rpow_sq by lra.
  set (d := c_zmid c - (zgw - X)). set (dV := c_th_s c - c_th_fc c).
  assert (Hd : 0 <= d <= X) by (unfold d; lra).
  assert (Hdd : 0 <= d * d <= X * X) by (split; [apply Rmult_le_pos; lra | apply Rmult_le_compat; lra]).
  assert (HXX : 0 < X * X) by (apply Rmult_lt_0_compat; lra).
  pose proof (frac01 (d * d) (X * X) Hdd HXX) as Hq.
  replace (dV / (X * X) * (d * d)) with (dV * (d * d / (X * X))) by (field; lra).
  assert (HdV : 0 < dV) by (unfold dV; lra).
  assert (0 <= dV * (d * d / (X * X)) <= dV * 1)
    by (split; [apply Rmult_le_pos; lra | apply Rmult_le_compat_l; lra]).
  unfold dV in *. lra.
Qed.

Lemma gw_loop_range zgw p : wf_prof p -> fcadj_ok p (fst (gw_fcadj_loop zgw p)).
Proof.
  induction 1 as [|c r Hc Hr IH]; cbn [gw_fcadj_loop]; [constructor|].
  pose proof (wf_fc_s c Hc) as Hfs.
  destruct (snd (gw_fcadj_loop zgw r)); [|destruct (gw_far zgw c) eqn:E]; cbn [fst]; constructor; try exact IH; try lra.
  apply gw_fcadj_comp_range; assumption.
Qed.

(* C19 fcadj_range: whatever the depth of the table, the adjusted field capacity returned by the check stays
   between field capacity and saturation in every compartment (without a table the incoming array is returned) *)
Theorem fcadj_range p fc0 wt zgw fc o :
  wf_prof p -> fcadj_ok p fc0 ->
  check_groundwater_table p fc0 wt zgw = Some (fc, o) -> fcadj_ok p fc.
Proof.
  intros Hp H0. unfold check_groundwater_table.
  destruct (Z.eqb wt 1); [destruct (nleb num_ops _ _)|]; intros H; inversion H; subst; clear H.
  - apply gw_loop_range; exact Hp.
  - exact H0.
Qed.

(* with a table the result does not depend on the incoming array at all *)
Theorem fcadj_range_table p fc0 zgw fc o :
  wf_prof p -> check_groundwater_table p fc0 1 zgw = Some (fc, o) -> fcadj_ok p fc.
Proof.
  intros Hp. unfold check_groundwater_table. cbn [Z.eqb Pos.eqb].
  destruct (nleb num_ops _ _); intros H; inversion H; subst. apply gw_loop_range; exact Hp.
Qed.

(* ---- 2. far table, early exit vs per-compartment definition, no table *)

(* the exit flag of the loop is "some compartment is far" *)
Lemma gw_loop_snd zgw p : snd (gw_fcadj_loop zgw p) = existsb (gw_far zgw) p.
Proof.
  induction p as [|c r IH]; cbn [gw_fcadj_loop existsb]; [reflexivity|].
  rewrite <- IH. destruct (snd (gw_fcadj_loop zgw r)); [rewrite orb_true_r; reflexivity|].
  rewrite orb_false_r. destruct (gw_far zgw c); reflexivity.
Qed.

(* C19 fcadj_far: a table that is at least Xmax below every compartment centre leaves field capacity unadjusted *)
Theorem fcadj_far zgw p :
  Forall (fun c => zgw - c_zmid c >= gw_xmax c) p -> fst (gw_fcadj_loop zgw p) = map (fun c => c_th_fc c) p.
Proof.
  induction 1 as [|c r Hc Hr IH]; cbn [gw_fcadj_loop map]; [reflexivity|].
  assert (E : gw_far zgw c = true).
  { unfold gw_far. rnum. rewrite (Rleb_true (gw_xmax c) (zgw - c_zmid c)) by lra. apply orb_true_r. }
  rewrite E. destruct (snd (gw_fcadj_loop zgw r)); cbn [fst]; rewrite IH; reflexivity.
Qed.

Corollary fcadj_far_check p fc0 zgw :
  0 <= zgw -> Forall (fun c => zgw - c_zmid c >= gw_xmax c) p ->
  exists o, check_groundwater_table p fc0 1 zgw = Some (map (fun c => c_th_fc c) p, o).
Proof.
  intros Hz Hf. unfold check_groundwater_table. cbn [Z.eqb Pos.eqb]. rewrite (fcadj_far zgw p Hf).
  rnum. rewrite (Rleb_true 0 zgw Hz). eexists; reflexivity.
Qed.

(* the per-compartment definition of the adjustment (reference manual) *)
Definition gw_fcadj_pt (zgw : R) (c : Comp R) : R :=
  if gw_far zgw c then c_th_fc c else gw_fcadj_comp zgw c.

(* "far" is upward closed along the profile: a far compartment has only far compartments above it *)
Fixpoint far_closed (zgw : R) (p : list (Comp R)) : Prop :=
  match p with
  | [] => True
  | c :: r => (existsb (gw_far zgw) r = true -> gw_far zgw c = true) /\ far_closed zgw r
  end.

(* the bottom-up loop with early exit computes the per-compartment definition exactly when "far" is upward closed *)
Theorem fcadj_loop_pointwise zgw p :
  far_closed zgw p -> fst (gw_fcadj_loop zgw p) = map (gw_fcadj_pt zgw) p.
Proof.
  induction p as [|c r IH]; cbn [gw_fcadj_loop map far_closed]; [reflexivity|].
  intros [Hc Hr]. rewrite gw_loop_snd. unfold gw_fcadj_pt at 1.
  destruct (existsb (gw_far zgw) r) eqn:E.
  - rewrite (Hc eq_refl). cbn [fst]. rewrite IH by exact Hr. reflexivity.
  - destruct (gw_far zgw c); cbn [fst]; rewrite IH by exact Hr; reflexivity.
Qed.

(* sufficient: centres increase with depth and Xmax does not decrease with depth (e.g. a uniform soil) *)
Lemma far_closed_sorted zgw p :
  StronglySorted (fun c1 c2 => c_zmid c1 <= c_zmid c2 /\ gw_xmax c1 <= gw_xmax c2) p -> far_closed zgw p.
Proof.
  induction 1 as [|c r Hs IH Hall]; cbn [far_closed]; [exact I|]. split; [|exact IH].
  intros E. apply existsb_exists in E. destruct E as [x [Hin Hx]].
  rewrite Forall_forall in Hall. destruct (Hall x Hin) as [Hz HX].
  unfold gw_far in *. rnum. apply orb_true_iff in Hx. apply orb_true_iff.
  destruct Hx as [Hx|Hx]; [left; exact Hx|right].
  match type of Hx with Rleb ?a ?b = true => destruct (Rleb_spec a b); [|discriminate] end. apply Rleb_true. lra.
Qed.

(* ... and in general it does NOT: below a layer with small Xmax (coarse, th_fc <= 0.1) that is far from the table, the
   loop stops and leaves the finer layer above (Xmax = 2 m) unadjusted although that layer is within its own Xmax. *)
Definition ex_top : Comp R := {| c_dz := 1/10; c_dzsum := 1/10; c_zmid := 5/100; c_layer := 1;
  c_th_dry := 5/100; c_th_wp := 1/10; c_th_fc := 3/10; c_th_s := 5/10; c_ksat := 500; c_tau := 1/2; c_pen := 100;
  c_acr := -1; c_bcr := 0 |}.
Definition ex_bot : Comp R := {| c_dz := 1/10; c_dzsum := 2/10; c_zmid := 15/100; c_layer := 2;
  c_th_dry := 2/100; c_th_wp := 5/100; c_th_fc := 1/10; c_th_s := 3/10; c_ksat := 3000; c_tau := 1; c_pen := 100;
  c_acr := -1; c_bcr := 0 |}.

Lemma ex_top_wf : wf_comp ex_top. Proof. constructor; cbn; lra. Qed.
Lemma ex_bot_wf : wf_comp ex_bot. Proof. constructor; cbn; lra. Qed.

Lemma ex_prof_wf : wf_prof [ex_top; ex_bot].
Proof. constructor; [apply ex_top_wf | constructor; [apply ex_bot_wf | constructor]]. Qed.

Lemma ex_top_xmax : gw_xmax ex_top = 2.
Proof. unfold gw_xmax. cbn [ex_top c_th_fc]. rnum. rdecide. reflexivity. Qed.
Lemma ex_bot_xmax : gw_xmax ex_bot = 1.
Proof. unfold gw_xmax. cbn [ex_bot c_th_fc]. rnum. rdecide. reflexivity. Qed.

Theorem fcadj_early_exit_not_pointwise :
  exists p zgw, wf_prof p /\ StronglySorted (fun c1 c2 => c_zmid c1 <= c_zmid c2) p /\ 0 <= zgw /\
                fst (gw_fcadj_loop zgw p) <> map (gw_fcadj_pt zgw) p.
Proof.
  exists [ex_top; ex_bot], (15/10). split; [|split; [|split]].
  - apply ex_prof_wf.
  - constructor; [constructor; [constructor|constructor]|]. constructor; [cbn; lra|constructor].
  - lra.
  - assert (Fb : gw_far (15/10) ex_bot = true).
    { unfold gw_far. rewrite ex_bot_xmax. cbn [ex_bot c_zmid]. rnum. rdecide. reflexivity. }
    assert (Ft : gw_far (15/10) ex_top = false).
    { unfold gw_far. rewrite ex_top_xmax. cbn [ex_top c_zmid]. rnum. rdecide. reflexivity. }
    cbn [gw_fcadj_loop map snd fst]. rewrite Fb. cbn [snd fst].
    unfold gw_fcadj_pt. rewrite Fb, Ft. unfold gw_fcadj_comp. rewrite ex_top_xmax.
    cbn [ex_top ex_bot c_zmid c_th_fc c_th_s]. rnum. rdecide. rewrite Rpow_sq by lra.
    intros H. inversion H. lra.
Qed.

(* C19 no_table: without a table the check returns its input and no table state *)
Theorem no_table p fc0 wt zgw : wt <> 1%Z -> check_groundwater_table p fc0 wt zgw = Some (fc0, None).
Proof. intros H. unfold check_groundwater_table. apply Z.eqb_neq in H. rewrite H. reflexivity. Qed.

(* below the table (centre at or below z_gw >= 0) the per-compartment value is saturation *)
Lemma gw_fcadj_pt_below zgw c : c_th_fc c < c_th_s c -> 0 <= zgw <= c_zmid c -> gw_fcadj_pt zgw c = c_th_s c.
Proof.
  intros Hfs Hz. pose proof (gw_xmax_pos c) as HX. unfold gw_fcadj_pt, gw_far, gw_fcadj_comp. rnum.
  rewrite (Rltb_false zgw 0) by lra. rewrite (Rleb_false (gw_xmax c) (zgw - c_zmid c)) by lra. cbn [orb].
  rewrite (Rleb_false (c_th_s c) (c_th_fc c)) by lra. rewrite (Rleb_true zgw (c_zmid c)) by lra. reflexivity.
Qed.

(* ---- definedness of the check *)
Theorem check_defined p fc0 wt zgw :
  (wt = 1%Z -> 0 <= zgw) -> exists r, check_groundwater_table p fc0 wt zgw = Some r.
Proof.
  intros H. unfold check_groundwater_table. destruct (Z.eqb_spec wt 1) as [E|E]; [|eexists; reflexivity].
  rnum. rewrite (Rleb_true 0 zgw (H E)). eexists; reflexivity.
Qed.
(* (the only failure is the code's UnboundLocalError for a negative / NaN depth with a table present) *)
Theorem check_undefined p fc0 zgw : zgw < 0 -> check_groundwater_table p fc0 1 zgw = None.
Proof. intros H. unfold check_groundwater_table. cbn [Z.eqb Pos.eqb]. rnum. rewrite (Rleb_false 0 zgw H). reflexivity. Qed.

(* wt_in_soil as returned is exactly "some compartment centre is at or below the table" *)
Lemma gw_wt_in_soil_spec zgw p : gw_wt_in_soil zgw p = true <-> Exists (fun c => zgw <= c_zmid c) p.
Proof.
  unfold gw_wt_in_soil. rewrite existsb_exists, Exists_exists. rnum.
  split; intros [c [Hin Hc]]; exists c; (split; [exact Hin|]).
  - destruct (Rleb_spec zgw (c_zmid c)); [assumption|discriminate].
  - apply Rleb_true; exact Hc.
Qed.

Example fcadj_range_ex :
  exists fc o, check_groundwater_table [ex_top; ex_bot] [3/10; 1/10] 1 (12/100) = Some (fc, o) /\ fcadj_ok [ex_top; ex_bot] fc.
Proof.
  destruct (check_defined [ex_top; ex_bot] [3/10; 1/10] 1 (12/100)) as [[fc o] H]; [lra|].
  exists fc, o. split; [exact H|]. eapply fcadj_range_table; [|exact H]. apply ex_prof_wf.
Qed.
Example fcadj_far_ex : Forall (fun c => 5 - c_zmid c >= gw_xmax c) [ex_top; ex_bot].
Proof. constructor; [rewrite ex_top_xmax; cbn; lra | constructor; [rewrite ex_bot_xmax; cbn; lra | constructor]]. Qed.

(* ================================================================== 3. groundwater_inflow *)

Ltac inv_some H := inversion H; subst; clear H.

(* relation between the state before and after, compartment by compartment *)
Inductive Forall3 {A B C : Type} (R : A -> B -> C -> Prop) : list A -> list B -> list C -> Prop :=
| Forall3_nil : Forall3 R [] [] []
| Forall3_cons a b c la lb lc : R a b c -> Forall3 R la lb lc -> Forall3 R (a :: la) (b :: lb) (c :: lc).

Lemma Forall3_refl_23 {A B} (R : A -> B -> B -> Prop) la lb :
  length la = length lb -> (forall a b, R a b b) -> Forall3 R la lb lb.
Proof.
  revert lb; induction la as [|a la IH]; intros [|b lb] H HR; try discriminate; constructor; auto.
Qed.

Lemma gwi_sat_balance p : forall th g th' g',
  gwi_sat p th g = Some (th', g') -> storage p th' = storage p th + (g' - g).
Proof.
  induction p as [|c p IH]; intros th g th' g' H; cbn [gwi_sat] in H.
  - inv_some H. lra.
  - destruct th as [|t th]; [discriminate|].
    destruct (nltb num_ops t (c_th_s c)).
    + destruct (gwi_sat p th _) as [[l g1]|] eqn:E; [|discriminate]. inv_some H.
      apply IH in E. rewrite !storage_cons, E. unfold W. rnum. lra.
    + destruct (gwi_sat p th g) as [[l g1]|] eqn:E; [|discriminate]. inv_some H.
      apply IH in E. rewrite !storage_cons, E. lra.
Qed.

Lemma gwi_sat_mono p : Forall (fun c => 0 <= c_dz c) p -> forall th g th' g',
  gwi_sat p th g = Some (th', g') -> g <= g'.
Proof.
  induction 1 as [|c p Hc Hp IH]; intros th g th' g' H; cbn [gwi_sat] in H.
  - inv_some H. lra.
  - destruct th as [|t th]; [discriminate|]. rnum.
    destruct (Rltb_spec t (c_th_s c)) as [Hlt|Hge].
    + destruct (gwi_sat p th _) as [[l g1]|] eqn:E; [|discriminate]. inv_some H.
      apply IH in E. assert (0 <= (c_th_s c - t) * 1000 * c_dz c) by (apply Rmult_le_pos; [apply Rmult_le_pos|]; lra). lra.
    + destruct (gwi_sat p th g) as [[l g1]|] eqn:E; [|discriminate]. inv_some H. eapply IH; exact E.
Qed.

(* every compartment handed to the saturation loop ends at max(th, th_s) *)
Lemma gwi_sat_post p : forall th g th' g', length th = length p ->
  gwi_sat p th g = Some (th', g') ->
  Forall3 (fun c t t' => (t <= c_th_s c -> t' = c_th_s c) /\ (c_th_s c <= t -> t' = t)) p th th'.
Proof.
  induction p as [|c p IH]; intros th g th' g' Hl H; cbn [gwi_sat] in H.
  - destruct th; [|discriminate]. inv_some H. constructor.
  - destruct th as [|t th]; [discriminate|]. injection Hl as Hl. rnum.
    destruct (Rltb_spec t (c_th_s c)) as [Hlt|Hge].
    + destruct (gwi_sat p th _) as [[l g1]|] eqn:E; [|discriminate]. inv_some H.
      constructor; [split; intros; lra | eapply IH; eauto].
    + destruct (gwi_sat p th g) as [[l g1]|] eqn:E; [|discriminate]. inv_some H.
      constructor; [split; intros; lra | eapply IH; eauto].
Qed.

Lemma gwi_find_balance zgw p : forall th th' g,
  gwi_find zgw p th = Some (th', g) -> storage p th' = storage p th + g.
Proof.
  induction p as [|c p IH]; intros th th' g H; cbn [gwi_find] in H; [discriminate|].
  destruct (nleb num_ops zgw (c_zmid c)).
  - apply gwi_sat_balance in H. rnum. lra.
  - destruct th as [|t th]; [discriminate|].
    destruct (gwi_find zgw p th) as [[l g1]|] eqn:E; [|discriminate]. inv_some H.
    rewrite !storage_cons, (IH _ _ _ E). lra.
Qed.

Lemma gwi_find_nonneg zgw p : Forall (fun c => 0 <= c_dz c) p -> forall th th' g,
  gwi_find zgw p th = Some (th', g) -> 0 <= g.
Proof.
  induction 1 as [|c p Hc Hp IH]; intros th th' g H; cbn [gwi_find] in H; [discriminate|].
  destruct (nleb num_ops zgw (c_zmid c)).
  - apply gwi_sat_mono in H; [rnum; lra | constructor; assumption].
  - destruct th as [|t th]; [discriminate|].
    destruct (gwi_find zgw p th) as [[l g1]|] eqn:E; [|discriminate]. inv_some H. eapply IH; exact E.
Qed.

(* post-condition of the search + loop: a compartment whose centre is at or below the table ends saturated
   (if it was not above saturation); every compartment either keeps its content or is set to saturation from below *)
Lemma gwi_find_post zgw p : forall th th' g, length th = length p ->
  gwi_find zgw p th = Some (th', g) ->
  Forall3 (fun c t t' => (zgw <= c_zmid c -> t <= c_th_s c -> t' = c_th_s c) /\
                         (t' = t \/ (t < c_th_s c /\ t' = c_th_s c))) p th th'.
Proof.
  induction p as [|c p IH]; intros th th' g Hl H; cbn [gwi_find] in H; [discriminate|].
  rnum. destruct (Rleb_spec zgw (c_zmid c)) as [Hz|Hz].
  - apply gwi_sat_post in H; [|exact Hl]. clear Hz IH Hl. induction H as [|a t t' la lb lc [H1 H2] Hr IHr]; constructor; auto.
    split; [intros _; exact H1|]. destruct (Rle_dec (c_th_s a) t) as [Hc|Hc]; [left; auto|right; split; [lra|apply H1; lra]].
  - destruct th as [|t th]; [discriminate|]. injection Hl as Hl.
    destruct (gwi_find zgw p th) as [[l g1]|] eqn:E; [|discriminate]. inv_some H.
    constructor; [split; [intros; lra | left; reflexivity] | eapply IH; eauto].
Qed.

(* with centres increasing with depth, everything above the table is untouched *)
Lemma gwi_find_above zgw p : StronglySorted (fun c1 c2 => c_zmid c1 <= c_zmid c2) p ->
  forall th th' g, length th = length p -> gwi_find zgw p th = Some (th', g) ->
  Forall3 (fun c t t' => c_zmid c < zgw -> t' = t) p th th'.
Proof.
  induction 1 as [|c p Hs IH Hall]; intros th th' g Hl H; cbn [gwi_find] in H; [discriminate|].
  rnum. destruct (Rleb_spec zgw (c_zmid c)) as [Hz|Hz].
  - assert (Hall' : Forall (fun c2 => zgw <= c_zmid c2) (c :: p)).
    { constructor; [exact Hz|]. eapply Forall_impl; [|exact Hall]. cbn. intros; lra. }
    apply gwi_sat_post in H; [|exact Hl]. clear - H Hall'.
    induction H as [|a t t' la lb lc _ Hr IHr]; constructor.
    + inversion Hall'; subst. intros; lra.
    + apply IHr. inversion Hall'; assumption.
  - destruct th as [|t th]; [discriminate|]. injection Hl as Hl.
    destruct (gwi_find zgw p th) as [[l g1]|] eqn:E; [|discriminate]. inv_some H.
    constructor; [reflexivity | eapply IH; eauto].
Qed.

Lemma Forall3_in_bounds_sat p th th' :
  in_bounds p th -> Forall3 (fun c t t' => t' = t \/ (t < c_th_s c /\ t' = c_th_s c)) p th th' -> in_bounds p th'.
Proof.
  intros Hb H. induction H as [|c t t' la lb lc Hh Hr IH]; [constructor|].
  inversion Hb; subst. constructor; [|apply IH; assumption]. destruct Hh as [->|[_ ->]]; lra.
Qed.

(* C19 gw_inflow_post *)
Theorem gw_inflow_post p th zgw th' g :
  in_bounds p th -> groundwater_inflow p th true zgw = Some (th', g) ->
  Forall3 (fun c t t' => (zgw <= c_zmid c -> t' = c_th_s c) /\ (t' = t \/ t' = c_th_s c) /\ t <= t') p th th'.
Proof.
  intros Hb H. cbn [groundwater_inflow] in H. pose proof (in_bounds_length _ _ Hb) as Hl.
  apply gwi_find_post in H; [|symmetry; exact Hl].
  revert Hb. clear Hl. induction H as [|c t t' la lb lc [H1 H2] Hr IH]; intros Hb; [constructor|].
  inversion Hb; subst. constructor; [|apply IH; assumption].
  split; [intros Hz; apply H1; lra|]. destruct H2 as [->|[Hlt ->]]; split; auto; lra.
Qed.

(* ... "others unchanged": with centres increasing with depth nothing above the table changes;
   without a table in the soil nothing changes at all *)
Theorem gw_inflow_above p th zgw th' g :
  StronglySorted (fun c1 c2 => c_zmid c1 <= c_zmid c2) p -> length th = length p ->
  groundwater_inflow p th true zgw = Some (th', g) ->
  Forall3 (fun c t t' => c_zmid c < zgw -> t' = t) p th th'.
Proof. intros Hs Hl H. cbn [groundwater_inflow] in H. eapply gwi_find_above; eauto. Qed.

Theorem gw_inflow_off p th zgw : groundwater_inflow p th false zgw = Some (th, 0).
Proof. reflexivity. Qed.

(* C01 share: the inflow reported is exactly the water added to the profile *)
Theorem gw_inflow_balance p th wts zgw th' g :
  groundwater_inflow p th wts zgw = Some (th', g) -> storage p th' = storage p th + g.
Proof.
  destruct wts; cbn [groundwater_inflow]; intros H.
  - eapply gwi_find_balance; exact H.
  - inv_some H. rnum. lra.
Qed.

(* C04 share *)
Theorem gwin_nonneg p th wts zgw th' g :
  wf_prof p -> groundwater_inflow p th wts zgw = Some (th', g) -> 0 <= g.
Proof.
  intros Hp. destruct wts; cbn [groundwater_inflow]; intros H.
  - eapply gwi_find_nonneg; [|exact H]. eapply Forall_impl; [|exact Hp]. intros c Hc. left. apply (wf_dz c Hc).
  - inv_some H. rnum. lra.
Qed.

(* C03 share *)
Theorem gw_inflow_in_bounds p th wts zgw th' g :
  in_bounds p th -> groundwater_inflow p th wts zgw = Some (th', g) -> in_bounds p th'.
Proof.
  intros Hb. destruct wts; cbn [groundwater_inflow]; intros H; [|inv_some H; exact Hb].
  pose proof (in_bounds_length _ _ Hb) as Hl. apply gwi_find_post in H; [|symmetry; exact Hl].
  apply (Forall3_in_bounds_sat p th th' Hb).
  clear - H. induction H as [|c t t' la lb lc [_ H2] Hr IH]; constructor; auto.
Qed.

(* definedness: the arrays have the profile's length and, when the flag says the table is in the soil, some centre is
   at or below it (this is how check_groundwater_table computes the flag: [gw_wt_in_soil_spec]) *)
Lemma gwi_sat_defined p : forall th g, length th = length p -> exists r, gwi_sat p th g = Some r.
Proof.
  induction p as [|c p IH]; intros th g Hl; cbn [gwi_sat]; [eexists; reflexivity|].
  destruct th as [|t th]; [discriminate|]. injection Hl as Hl.
  destruct (nltb num_ops t (c_th_s c)).
  - destruct (IH th (nadd num_ops g (nmul num_ops (nmul num_ops (nsub num_ops (c_th_s c) t) (nofZ num_ops 1000)) (c_dz c))) Hl)
      as [[l g1] E]. rewrite E. eexists; reflexivity.
  - destruct (IH th g Hl) as [[l g1] E]. rewrite E. eexists; reflexivity.
Qed.

Theorem gw_inflow_defined p th wts zgw :
  length th = length p -> (wts = true -> Exists (fun c => zgw <= c_zmid c) p) ->
  exists r, groundwater_inflow p th wts zgw = Some r.
Proof.
  intros Hl Hw. destruct wts; cbn [groundwater_inflow]; [|eexists; reflexivity].
  specialize (Hw eq_refl). revert th Hl. induction Hw as [c p Hc|c p Hex IH]; intros th Hl; cbn [gwi_find]; rnum.
  - rewrite (Rleb_true _ _ Hc). apply gwi_sat_defined; exact Hl.
  - destruct (Rleb zgw (c_zmid c)); [apply gwi_sat_defined; exact Hl|].
    destruct th as [|t th]; [discriminate|]. injection Hl as Hl.
    destruct (IH th Hl) as [[l g1] E]. rewrite E. eexists; reflexivity.
Qed.
(* the only failure: flag set although no centre is at or below the table -> IndexError *)
Theorem gw_inflow_undefined p th zgw :
  Forall (fun c => c_zmid c < zgw) p -> groundwater_inflow p th true zgw = None.
Proof.
  intros H. cbn [groundwater_inflow]. revert th. induction H as [|c p Hc Hp IH]; intros th; cbn [gwi_find]; [reflexivity|].
  rnum. rewrite (Rleb_false _ _ Hc). destruct th; [reflexivity|]. rewrite IH. reflexivity.
Qed.

Example gw_inflow_ex :
  let p := [ex_top; ex_bot] in let th := [2/10; 2/10] in
  in_bounds p th /\ groundwater_inflow p th true (1/10) = Some ([2/10; 3/10], 0 + (3/10 - 2/10) * 1000 * (1/10)).
Proof.
  cbn zeta. split.
  - constructor; [cbn; lra|constructor; [cbn; lra|constructor]].
  - cbn [groundwater_inflow gwi_find gwi_sat ex_top ex_bot c_zmid c_th_s c_dz]. rnum. rdecide. reflexivity.
Qed.

(* ================================================================== 4. capillary_rise *)

(* half a unit of the fourth decimal: the error of `round(th_fc_Adj - th, 4)` *)
Definition eps4 : R := / 2 / pow10 4.
Lemma eps4_val : eps4 = 5 / 100000.
Proof. unfold eps4, pow10. simpl. lra. Qed.
Lemma eps4_pos : 0 < eps4.
Proof. rewrite eps4_val. lra. Qed.

Lemma Rround_0 d : Rround d 0 = 0.
Proof. pose proof (Rround_IZR d 0) as E. unfold Rdiv in E. rewrite Rmult_0_l in E. exact E. Qed.
Lemma Rround_pos_inv d x : 0 < Rround d x -> 0 < x.
Proof.
  intros H. destruct (Rlt_dec 0 x) as [|Hn]; [assumption|]. exfalso.
  assert (Hx : x <= 0) by lra. apply (Rround_mono d) in Hx. rewrite Rround_0 in Hx. lra.
Qed.

Lemma cr_lim_range zgw c z : 0 <= cr_lim zgw c z <= 99.
Proof.
  unfold cr_lim. rnum. repeat (rcase_goal; cbn [andb]); try lra.
  match goal with H : ~ (99 < exp ?x) |- _ => pose proof (exp_pos x) end. lra.
Qed.

Lemma cr_krel_range c t : 0 <= cr_krel c t <= 1.
Proof.
  unfold cr_krel. rnum. repeat (rcase_goal; cbn [orb]); try lra.
  apply frac01; lra.
Qed.

Lemma cr_df_range fshape c t a : 0 <= cr_df fshape c t a <= 1.
Proof.
  unfold cr_df. rnum. generalize (Rpow ((t - c_th_wp c) / (a - c_th_wp c)) fshape). intros y.
  repeat (rcase_goal; cbn [andb]); lra.
Qed.

(* one compartment of the loop: the content never decreases and ends at most eps4 above adjusted field capacity when it
   changes; MaxCR stays non-negative; WCr + MaxCR does not grow; the amount booked differs from the water actually
   added by at most eps4 (as a depth of water over the compartment) *)
Lemma cr_comp_spec zgw fshape c t a maxcr zbot wcr :
  0 < c_dz c -> 0 <= maxcr ->
  forall s, s = cr_comp zgw fshape c t a maxcr zbot wcr ->
  t <= fst (fst s) /\ (fst (fst s) = t \/ fst (fst s) <= a + eps4) /\ 0 <= snd (fst s) /\ wcr <= snd s /\
  snd s + snd (fst s) <= wcr + maxcr /\
  Rabs ((snd s - wcr) - W c (fst (fst s) - t)) <= W c eps4.
Proof.
  intros Hdz Hm s ->. unfold cr_comp.
  pose proof (cr_krel_range c t) as Hk. pose proof (cr_df_range fshape c t a) as Hd.
  revert Hk Hd. generalize (cr_krel c t) (cr_df fshape c t a). intros k df Hk Hd.
  pose proof (Rround_err 4 (a - t)) as He. fold eps4 in He. apply Rabs_le_inv in He.
  pose proof (Rround_pos_inv 4 (a - t)) as Hp.
  pose proof eps4_pos as He0.
  assert (HWe : 0 <= W c eps4) by (unfold W; apply Rmult_le_pos; [apply Rmult_le_pos|]; lra).
  rnum. revert He Hp. generalize (Rround 4 (a - t)). intros dth He Hp.
  unfold W in *. set (D := c_dz c) in *.
  assert (HK : k * df * maxcr / (1000 * D) * 1000 * D = k * df * maxcr) by (field; lra).
  assert (Hkm : 0 <= k * maxcr <= maxcr).
  { split; [apply Rmult_le_pos; lra|]. replace maxcr with (1 * maxcr) at 2 by ring. apply Rmult_le_compat_r; lra. }
  assert (HK2 : 0 <= k * df * maxcr <= k * maxcr).
  { replace (k * df * maxcr) with (k * maxcr * df) by ring. split; [apply Rmult_le_pos; lra|].
    replace (k * maxcr) with (k * maxcr * 1) at 2 by ring. apply Rmult_le_compat_l; lra. }
  assert (Hq : 0 <= k * df * maxcr / (1000 * D)).
  { apply Rmult_le_pos; [lra|]. left. apply Rinv_0_lt_compat. lra. }
  repeat (rcase_goal; cbn [andb fst snd]);
    try (replace (wcr - wcr - (t - t) * D * 1000) with 0 by ring; rewrite Rabs_R0; repeat split; lra).
  - (* room for everything the table can deliver *)
    replace (t + k * df * maxcr / (1000 * D) - t) with (k * df * maxcr / (1000 * D)) by ring.
    replace (wcr + k * df * maxcr / (1000 * D) * 1000 * D - wcr - k * df * maxcr / (1000 * D) * D * 1000) with 0 by ring.
    rewrite Rabs_R0, HK. repeat split; lra.
  - (* filled up to adjusted field capacity *)
    assert (Hlt : dth * 1000 * D < k * df * maxcr).
    { rewrite <- HK. apply Rmult_lt_compat_r; [lra|]. apply Rmult_lt_compat_r; lra. }
    assert (Hd0 : 0 <= dth * 1000 * D) by (apply Rmult_le_pos; [apply Rmult_le_pos|]; lra).
    specialize (Hp ltac:(lra)).
    repeat split; try lra.
    apply Rabs_le.
    assert (H1 : (dth - (a - t) - eps4) * (1000 * D) <= 0).
    { replace 0 with (0 * (1000 * D)) by ring. apply Rmult_le_compat_r; lra. }
    assert (H2 : 0 <= (dth - (a - t) + eps4) * (1000 * D)).
    { apply Rmult_le_pos; lra. }
    lra.
Qed.

(* ---- list plumbing *)
Lemma Forall2_rev' {A B} (P : A -> B -> Prop) l1 l2 : Forall2 P l1 l2 -> Forall2 P (rev l1) (rev l2).
Proof.
  induction 1 as [|a b l1 l2 H Hr IH]; cbn [rev]; [constructor|].
  apply Forall2_app; [exact IH | constructor; [exact H | constructor]].
Qed.

Lemma Forall2_len {A B} (P : A -> B -> Prop) l1 l2 : Forall2 P l1 l2 -> length l1 = length l2.
Proof. induction 1; cbn [length]; congruence. Qed.

Lemma storage_rev p : forall th, length p = length th -> storage (rev p) (rev th) = storage p th.
Proof.
  induction p as [|c p IH]; intros [|t th] H; try discriminate; [reflexivity|].
  cbn [rev]. injection H as H. rewrite storage_app by (rewrite !rev_length; exact H).
  rewrite IH by exact H. rewrite !storage_cons, storage_nil_l. lra.
Qed.

Lemma map_const_len {A B C} (e : C) (l1 : list A) (l2 : list B) :
  length l1 = length l2 -> map (fun _ => e) l1 = map (fun _ => e) l2.
Proof. revert l2; induction l1 as [|a l1 IH]; intros [|b l2] H; try discriminate; cbn [map]; [reflexivity|]. f_equal. apply IH. injection H as H. exact H. Qed.

Lemma eps_storage_nonneg p : Forall (fun c => 0 < c_dz c) p -> 0 <= storage p (map (fun _ => eps4) p).
Proof.
  induction 1 as [|c p Hc Hp IH]; cbn [map]; [rewrite storage_nil_l; lra|].
  rewrite storage_cons. pose proof eps4_pos. assert (0 <= W c eps4) by (unfold W; apply Rmult_le_pos; [apply Rmult_le_pos|]; lra). lra.
Qed.

(* the allowance as a depth of water: eps4 over the whole profile thickness *)
Lemma eps_storage_total p : storage p (map (fun _ => eps4) p) = eps4 * 1000 * fold_right (fun c s => c_dz c + s) 0 p.
Proof. induction p as [|c p IH]; cbn [map fold_right]; [rewrite storage_nil_l; lra|]. rewrite storage_cons, IH. unfold W. lra. Qed.

(* ---- the loop *)
Definition cr_item_ok (x : Item (F:=R)) (t' : R) : Prop := i_th x <= t' /\ (t' = i_th x \/ t' <= i_fc x + eps4).

Lemma cr_item_ok_refl rp : Forall2 cr_item_ok rp (map i_th rp).
Proof. induction rp as [|x r IH]; cbn [map]; constructor; [split; [lra|left; reflexivity]|exact IH]. Qed.

Lemma cr_loop_spec zgw fshape : forall rp maxcr zbot wcr,
  Forall (fun x => 0 < c_dz (i_comp x)) rp -> 0 <= maxcr ->
  forall res, res = cr_loop zgw fshape rp maxcr zbot wcr ->
  Forall2 cr_item_ok rp (fst res) /\ wcr <= snd res /\ snd res <= wcr + maxcr /\
  Rabs ((snd res - wcr) - (storage (map i_comp rp) (fst res) - storage (map i_comp rp) (map i_th rp)))
    <= storage (map i_comp rp) (map (fun _ => eps4) (map i_comp rp)).
Proof.
  induction rp as [|x r IH]; intros maxcr zbot wcr Hdz Hm res ->; cbn [cr_loop].
  - cbn [fst snd map]. rewrite !storage_nil_l. split; [constructor|].
    replace (wcr - wcr - (0 - 0)) with 0 by ring. rewrite Rabs_R0. lra.
  - assert (He : 0 <= storage (map i_comp (x :: r)) (map (fun _ => eps4) (map i_comp (x :: r)))).
    { apply eps_storage_nonneg. clear - Hdz. induction Hdz; cbn [map]; constructor; auto. }
    inversion Hdz as [|? ? Hx Hr]; subst.
    destruct (Z.ltb _ _ && Z.eqb _ _).
    + match goal with |- context [cr_comp ?a1 ?a2 ?a3 ?a4 ?a5 ?a6 ?a7 ?a8] =>
        generalize (cr_comp_spec a1 a2 a3 a4 a5 a6 a7 a8 Hx Hm _ eq_refl); generalize (cr_comp a1 a2 a3 a4 a5 a6 a7 a8) end.
      intros [[t1 m1] w1]. cbn [fst snd]. intros (H1 & H2 & H3 & H4 & H5 & H6).
      match goal with |- context [cr_loop zgw fshape r ?m ?z ?w] =>
        assert (Hm2 : 0 <= m <= m1);
        [| generalize (IH m z w Hr (proj1 Hm2) _ eq_refl); generalize (cr_loop zgw fshape r m z w); revert Hm2; generalize m] end.
      { clear IH Hr Hdz He. destruct r as [|y r']; [lra|].
        match goal with |- context [cr_lim ?a ?b ?c] => generalize (cr_lim_range a b c); generalize (cr_lim a b c) end.
        intros l Hl. rnum. rcases; lra. }
      intros m2 Hm2 [ths w2]. cbn [fst snd]. intros (I1 & I2 & I3 & I4).
      cbn [map] in *. rewrite !storage_cons. repeat split.
      * constructor; [split; [exact H1 | exact H2] | exact I1].
      * lra.
      * lra.
      * apply Rabs_le_inv in H6. apply Rabs_le_inv in I4. apply Rabs_le. rewrite W_sub in H6. lra.
    + cbn [fst snd]. split; [apply cr_item_ok_refl|]. split; [lra|]. split; [lra|].
      match goal with |- Rabs ?e <= _ => replace e with 0 by ring end. rewrite Rabs_R0. exact He.
Qed.

Lemma cr_zip_spec (p : list (Comp R)) : forall th fc fl items rest, length th = length p -> length fc = length p ->
  cr_zip p th fc fl = Some (items, rest) ->
  rest = [] /\ map i_comp items = p /\ map i_th items = th /\ map i_fc items = fc.
Proof.
  induction p as [|c p IH]; intros th fc fl items rest Ht Hf H; cbn [cr_zip] in H.
  - injection H as <- <-. destruct th; [|discriminate]. destruct fc; [|discriminate]. repeat split; reflexivity.
  - destruct th as [|t th]; [discriminate|]. destruct fc as [|a fc]; [discriminate|]. destruct fl as [|f fl]; [discriminate|].
    injection Ht as Ht. injection Hf as Hf.
    destruct (cr_zip p th fc fl) as [[l rest']|] eqn:E; [|discriminate]. inv_some H.
    destruct (IH _ _ _ _ _ Ht Hf E) as (-> & H1 & H2 & H3). cbn [map]. rewrite H1, H2, H3. repeat split; reflexivity.
Qed.

Lemma items_Forall3 (P : R -> R -> R -> Prop) items th' :
  Forall2 (fun x t' => P (i_th x) (i_fc x) t') items th' -> Forall3 P (map i_th items) (map i_fc items) th'.
Proof. induction 1; cbn [map]; constructor; auto. Qed.

Lemma Forall3_refl_13 {A B} (P : A -> B -> A -> Prop) la lb :
  length la = length lb -> (forall a b, P a b a) -> Forall3 P la lb la.
Proof.
  revert lb; induction la as [|a la IH]; intros [|b lb] H HR; try discriminate; constructor; auto.
Qed.

Definition cr_cap (t a t' : R) : Prop := t <= t' /\ (t' = t \/ t' <= a + eps4).

(* everything about one call, in one statement *)
Lemma capillary_master p nl fshape th fc zgw fl wt th' cr :
  wf_prof p -> length th = length p -> length fc = length p ->
  capillary_rise p nl fshape th fc zgw fl wt = Some (th', cr) ->
  Forall3 cr_cap th fc th' /\ 0 <= cr <= 99 /\
  Rabs (storage p th' - (storage p th + cr)) <= storage p (map (fun _ => eps4) p).
Proof.
  intros Hp Ht Hf. unfold capillary_rise.
  assert (Hdz : Forall (fun c => 0 < c_dz c) p) by (eapply Forall_impl; [|exact Hp]; intros c Hc; apply (wf_dz c Hc)).
  pose proof (eps_storage_nonneg p Hdz) as He.
  destruct (Z.eqb wt 0).
  { intros H; inv_some H. rnum. split; [|split; [lra|]].
    - apply Forall3_refl_13; [congruence|]. intros a b; split; [lra|left; reflexivity].
    - replace (storage p th' - (storage p th' + 0)) with 0 by ring. rewrite Rabs_R0. exact He. }
  destruct (Z.eqb wt 1); [|discriminate].
  destruct (cr_zip p th fc fl) as [[items rest]|] eqn:Ez; [|discriminate].
  destruct (cr_zip_spec p th fc fl items rest Ht Hf Ez) as (-> & Hc & Hth & Hfc).
  destruct (rev items) as [|x rp'] eqn:Er; [discriminate|].
  destruct (negb _); [discriminate|]. rewrite <- Er.
  intros H; inv_some H.
  assert (Hdz' : Forall (fun x => 0 < c_dz (i_comp x)) (rev items)).
  { apply Forall_rev. clear - Hdz. induction items as [|y l IH]; [constructor|]. cbn [map] in Hdz. inversion Hdz; subst.
    constructor; auto. }
  match goal with |- context [cr_loop zgw fshape (rev items) ?m ?z ?w] =>
    generalize (cr_lim_range zgw (i_comp x) (c_zmid (i_comp x)));
    intros Hl; generalize (cr_loop_spec zgw fshape (rev items) m z w Hdz' (proj1 Hl) _ eq_refl);
    generalize (cr_loop zgw fshape (rev items) m z w); revert Hl; generalize m end.
  intros m0 Hm0 [ths w]. cbn [fst snd]. intros (L1 & L2 & L3 & L4). rewrite app_nil_r.
  pose proof (Forall2_len _ _ _ L1) as Hlen. rewrite rev_length in Hlen.
  assert (Hlp : length (map i_comp items) = length (rev ths)) by (rewrite map_length, rev_length; exact Hlen).
  split; [|split].
  - apply items_Forall3. apply Forall2_rev' in L1. rewrite rev_involutive in L1. exact L1.
  - rnum. lra.
  - rewrite !map_rev in L4.
    rewrite <- (rev_involutive ths) in L4 at 1.
    rewrite (storage_rev (map i_comp items) (rev ths) Hlp) in L4.
    rewrite (storage_rev (map i_comp items) (map i_th items)) in L4 by (rewrite !map_length; reflexivity).
    rewrite (storage_rev (map i_comp items)) in L4 by (rewrite !map_length; reflexivity).
    rnum. apply Rabs_le_inv in L4. apply Rabs_le. lra.
Qed.

(* ---- the theorems *)

(* C01 share, capillary_balance: the water added to the profile and the capillary rise reported differ by at most
   eps4 = 0.5e-4 of water content per compartment, i.e. 0.05 mm per metre of profile (the code books
   `round(th_fc_Adj - th, 4)` but stores `th_fc_Adj - th`) *)
Theorem capillary_balance p nl fshape th fc zgw fl wt th' cr :
  wf_prof p -> length th = length p -> length fc = length p ->
  capillary_rise p nl fshape th fc zgw fl wt = Some (th', cr) ->
  exists cr_actual, storage p th' = storage p th + cr_actual /\
                    Rabs (cr - cr_actual) <= eps4 * 1000 * fold_right (fun c s => c_dz c + s) 0 p.
Proof.
  intros Hp Ht Hf H. destruct (capillary_master _ _ _ _ _ _ _ _ _ _ Hp Ht Hf H) as (_ & _ & Hb).
  exists (storage p th' - storage p th). split; [lra|]. rewrite <- eps_storage_total.
  apply Rabs_le_inv in Hb. apply Rabs_le. lra.
Qed.

(* C04 share *)
Theorem cr_nonneg p nl fshape th fc zgw fl wt th' cr :
  wf_prof p -> length th = length p -> length fc = length p ->
  capillary_rise p nl fshape th fc zgw fl wt = Some (th', cr) -> 0 <= cr.
Proof. intros Hp Ht Hf H. destruct (capillary_master _ _ _ _ _ _ _ _ _ _ Hp Ht Hf H) as (_ & Hc & _). lra. Qed.

(* C19: CR <= MaxCR <= 99 mm/day *)
Theorem cr_le_99 p nl fshape th fc zgw fl wt th' cr :
  wf_prof p -> length th = length p -> length fc = length p ->
  capillary_rise p nl fshape th fc zgw fl wt = Some (th', cr) -> cr <= 99.
Proof. intros Hp Ht Hf H. destruct (capillary_master _ _ _ _ _ _ _ _ _ _ Hp Ht Hf H) as (_ & Hc & _). lra. Qed.

(* C19 capillary_cap: capillary rise never lowers a water content, and a content it changes ends at most eps4 above
   the adjusted field capacity *)
Theorem capillary_cap p nl fshape th fc zgw fl wt th' cr :
  wf_prof p -> length th = length p -> length fc = length p ->
  capillary_rise p nl fshape th fc zgw fl wt = Some (th', cr) ->
  Forall3 (fun t a t' => t <= t' /\ (t' = t \/ t' <= a + eps4)) th fc th'.
Proof. intros Hp Ht Hf H. destruct (capillary_master _ _ _ _ _ _ _ _ _ _ Hp Ht Hf H) as (Hc & _ & _). exact Hc. Qed.

Lemma Forall3_to_Forall2_13 {A B C} (P : A -> B -> C -> Prop) (Q : A -> C -> Prop) la lb lc :
  (forall a b c, P a b c -> Q a c) -> Forall3 P la lb lc -> Forall2 Q la lc.
Proof. intros HPQ. induction 1; constructor; eauto. Qed.

Corollary capillary_never_lowers p nl fshape th fc zgw fl wt th' cr :
  wf_prof p -> length th = length p -> length fc = length p ->
  capillary_rise p nl fshape th fc zgw fl wt = Some (th', cr) -> Forall2 Rle th th'.
Proof.
  intros Hp Ht Hf H. eapply Forall3_to_Forall2_13; [|eapply capillary_cap; eauto]. cbn. intros a b c [H1 _]. exact H1.
Qed.

(* C03 share: what holds of the bounds.  th_dry <= th' always; th' <= th_s + eps4; and th' <= th_s proper wherever the
   adjusted field capacity leaves eps4 of room below saturation. *)
Theorem capillary_in_bounds_eps p nl fshape th fc zgw fl wt th' cr :
  wf_prof p -> in_bounds p th -> fcadj_ok p fc ->
  capillary_rise p nl fshape th fc zgw fl wt = Some (th', cr) ->
  Forall2 (fun c t' => c_th_dry c <= t' <= c_th_s c + eps4) p th'.
Proof.
  intros Hp Hb Hfc H.
  pose proof (capillary_cap _ _ _ _ _ _ _ _ _ _ Hp (eq_sym (in_bounds_length _ _ Hb)) (eq_sym (fcadj_ok_length _ _ Hfc)) H) as Hc.
  clear H Hp. revert fc Hfc th' Hc. induction Hb as [|c t p th Hct Hb IH]; intros fc Hfc th' Hc.
  - inversion Hc; subst. constructor.
  - inversion Hfc; subst. inversion Hc; subst. constructor; [|eapply IH; eauto].
    pose proof eps4_pos. match goal with H : _ <= _ /\ (_ \/ _) |- _ => destruct H as [Hle [->|Hcap]] end; lra.
Qed.

Theorem capillary_in_bounds p nl fshape th fc zgw fl wt th' cr :
  wf_prof p -> in_bounds p th -> Forall2 (fun c a => c_th_fc c <= a /\ a + eps4 <= c_th_s c) p fc ->
  capillary_rise p nl fshape th fc zgw fl wt = Some (th', cr) -> in_bounds p th'.
Proof.
  intros Hp Hb Hfc H.
  assert (Hlf : length fc = length p) by (clear - Hfc; induction Hfc; cbn [length]; congruence).
  pose proof (capillary_cap _ _ _ _ _ _ _ _ _ _ Hp (eq_sym (in_bounds_length _ _ Hb)) Hlf H) as Hc.
  clear H Hp Hlf. revert fc Hfc th' Hc. induction Hb as [|c t p th Hct Hb IH]; intros fc Hfc th' Hc.
  - inversion Hc; subst. constructor.
  - inversion Hfc; subst. inversion Hc; subst. constructor; [|eapply IH; eauto].
    match goal with H : _ <= _ /\ (_ \/ _) |- _ => destruct H as [Hle [->|Hcap]] end; lra.
Qed.

(* C19 no_table_zero *)
Theorem no_table_zero p nl fshape th fc zgw fl :
  capillary_rise p nl fshape th fc zgw fl 0 = Some (th, 0) /\ groundwater_inflow p th false zgw = Some (th, 0).
Proof. split; reflexivity. Qed.
(* (with water_table = 0 check_groundwater_table returns None for wt_in_soil — theorem [no_table] — which
   groundwater_inflow's `== True` reads as false) *)

(* ---- definedness of capillary_rise.
   Exceptions of the code: water_table not in {0,1} (CrTot unbound), empty profile (dzsum[-1]), bottom compartment's
   layer <> Soil_nLayer (assert), arrays shorter than the profile (IndexError).  Nothing else raises: the divisions are
   floating-point (numpy) divisions.  Their denominators / log arguments are
     - 1000 * dz                    > 0 under wf_prof,
     - th_fc_Adj - th_wp            > 0 under wf_prof and fcadj_ok      ([cr_df_den_pos]),
     - thThr - th_wp                > 0 in the only branch that divides ([cr_krel] tests `thThr <= th_wp` first),
     - z_gw - zBotMid (log argument) > 0 in the only branch that takes the log (`zBotMid >= z_gw` is tested first),
     - aCR                          <> 0 NOT guaranteed by wf_comp: it is 0 whenever the soil was built without
       a water table (create_soil_profile sets aCR = bCR = 0), and then capillary_rise is only called with wt = 0;
   in check_groundwater_table: 0.2 and Xmax*Xmax > 0 ([gw_xmax_pos]), log argument 10. *)
Lemma cr_df_den_pos c a : wf_comp c -> c_th_fc c <= a -> 0 < a - c_th_wp c.
Proof. intros Hc Ha. pose proof (wf_wp_fc c Hc). lra. Qed.

Lemma cr_zip_defined (p : list (Comp R)) : forall th fc fl,
  length th = length p -> length fc = length p -> length fl = length p ->
  exists items, cr_zip p th fc fl = Some (items, []) /\ map i_comp items = p.
Proof.
  induction p as [|c p IH]; intros th fc fl Ht Hf Hl; cbn [cr_zip].
  - destruct th; [|discriminate]. exists []. split; reflexivity.
  - destruct th as [|t th]; [discriminate|]. destruct fc as [|a fc]; [discriminate|]. destruct fl as [|f fl]; [discriminate|].
    injection Ht as Ht. injection Hf as Hf. injection Hl as Hl.
    destruct (IH th fc fl Ht Hf Hl) as [items [E Hm]]. rewrite E. eexists. split; [reflexivity|]. cbn [map]. rewrite Hm. reflexivity.
Qed.

Theorem capillary_defined q c nl fshape th fc zgw fl wt :
  (wt = 0 \/ wt = 1)%Z -> c_layer c = nl ->
  length th = length (q ++ [c]) -> length fc = length (q ++ [c]) -> length fl = length (q ++ [c]) ->
  exists r, capillary_rise (q ++ [c]) nl fshape th fc zgw fl wt = Some r.
Proof.
  intros Hwt Hl Ht Hf Hfl. unfold capillary_rise. destruct Hwt as [->| ->]; cbn [Z.eqb Pos.eqb]; [eexists; reflexivity|].
  destruct (cr_zip_defined (q ++ [c]) th fc fl Ht Hf Hfl) as [items [E Hm]]. rewrite E.
  apply map_eq_app in Hm. destruct Hm as (i1 & i2 & -> & H1 & H2).
  destruct i2 as [|x [|y i2]]; try discriminate. cbn [map] in H2. injection H2 as H2.
  rewrite rev_unit. rewrite H2, Hl, Z.eqb_refl. cbn [negb]. eexists; reflexivity.
Qed.

(* ---- in_bounds is NOT preserved in general: a compartment whose adjusted field capacity is within eps4 of saturation
   can be pushed above saturation (by less than eps4).  Witness: one 0.1 m compartment (th_s = 0.5), table 2 cm below
   its centre, th_fc_Adj = 0.5, th = 0.49994, shape factor 1: room = round(0.00006, 4) = 0.0001, dthMax = 0.000075,
   th' = 0.500015 > th_s. *)
Definition wit_t : R := 49994/100000.

Lemma wit_lim : cr_lim (N:=RN) (7/100) ex_top (5/100) = 50.
Proof.
  unfold cr_lim. cbn [ex_top c_ksat c_bcr c_acr]. rnum.
  assert (E : exp ((ln (7/100 - 5/100) - 0) / -1) = 50).
  { replace ((ln (7/100 - 5/100) - 0) / -1) with (- ln (2/100)) by (replace (7/100 - 5/100) with (2/100) by lra; lra).
    rewrite exp_Ropp, exp_ln by lra. lra. }
  rewrite E. rdecide. reflexivity.
Qed.

Lemma wit_round : Rround 4 (5/10 - wit_t) = 1/10000.
Proof.
  unfold Rround, wit_t. change (pow10 4) with (IZR 10000).
  assert (E : ZnearestE ((5/10 - 49994/100000) * 10000) = 1%Z).
  { apply Znearest_imp. replace ((5/10 - 49994/100000) * 10000 - 1) with (- (4/10)) by lra.
    rewrite Rabs_Ropp, Rabs_pos_eq; lra. }
  rewrite E. reflexivity.
Qed.

Lemma wit_df : cr_df (N:=RN) 1 ex_top wit_t (5/10) = 15/100000.
Proof.
  unfold cr_df, wit_t. cbn [ex_top c_th_wp]. rnum. rdecide.
  unfold Rpow. destruct (Req_EM_T _ 0) as [e|_]; [exfalso; lra|].
  rewrite Rpower_1 by lra. cbv zeta. rdecide. lra.
Qed.

Lemma wit_krel : cr_krel (N:=RN) ex_top wit_t = 1.
Proof. unfold cr_krel, wit_t. cbn [ex_top c_th_wp c_th_fc]. rnum. rdecide. reflexivity. Qed.

Lemma wit_comp :
  cr_comp (N:=RN) (7/100) 1 ex_top wit_t (5/10) 50 (1/10) 0 = (wit_t + 75/1000000, 0, 0 + 75/1000000 * 1000 * (1/10)).
Proof.
  unfold cr_comp. rewrite wit_df, wit_krel. cbn [ex_top c_dz]. rnum. rewrite wit_round. rdecide.
  replace (1 * (15/100000) * 50 / (1000 * (1/10))) with (75/1000000) by lra. rdecide. reflexivity.
Qed.

Lemma wit_run :
  capillary_rise [ex_top] 1 1 [wit_t] [5/10] (7/100) [0] 1 = Some ([wit_t + 75/1000000], 0 + 75/1000000 * 1000 * (1/10)).
Proof.
  unfold capillary_rise. cbn [Z.eqb Pos.eqb cr_zip rev app]. unfold i_comp at 1 2 3. cbn [fst snd].
  cbn [ex_top c_layer c_zmid c_dzsum Z.eqb Pos.eqb negb]. cbn [cr_loop]. unfold i_comp, i_th, i_fc, i_fl. cbn [fst snd].
  rnum. change (c_zmid ex_top) with (5/100). change (c_dzsum ex_top) with (1/10). rewrite !wit_lim.
  replace (50 * 1000) with (IZR 50000) by lra. replace (0 * 1000) with (IZR 0) by lra.
  rewrite !(@Zrnd_IZR ZnearestE (valid_rnd_N _)). cbn [Z.ltb Z.eqb Z.compare Pos.compare Pos.compare_cont andb].
  rewrite wit_comp. cbn [fst snd rev app]. reflexivity.
Qed.

Theorem capillary_in_bounds_refuted :
  exists p nl fshape th fc zgw fl th' cr,
    wf_prof p /\ in_bounds p th /\ fcadj_ok p fc /\
    capillary_rise p nl fshape th fc zgw fl 1 = Some (th', cr) /\ ~ in_bounds p th'.
Proof.
  exists [ex_top], 1%Z, 1, [wit_t], [5/10], (7/100), [0], [wit_t + 75/1000000], (0 + 75/1000000 * 1000 * (1/10)).
  split; [constructor; [apply ex_top_wf|constructor]|].
  split; [constructor; [unfold wit_t; cbn; lra|constructor]|].
  split; [constructor; [cbn; lra|constructor]|].
  split.
  - exact wit_run.
  - intros H. inversion H; subst. unfold wit_t in *. cbn [ex_top c_th_s c_th_dry] in *. lra.
Qed.

(* ---- the hypotheses of the capillary theorems are satisfiable, on the same non-trivial call *)
Example capillary_ex :
  exists th' cr, capillary_rise [ex_top] 1 1 [wit_t] [5/10] (7/100) [0] 1 = Some (th', cr) /\
                 wf_prof [ex_top] /\ in_bounds [ex_top] [wit_t] /\ fcadj_ok [ex_top] [5/10] /\ 0 < cr /\ th' <> [wit_t].
Proof.
  exists [wit_t + 75/1000000], (0 + 75/1000000 * 1000 * (1/10)).
  split.
  - exact wit_run.
  - split; [constructor; [apply ex_top_wf|constructor]|].
    split; [constructor; [unfold wit_t; cbn; lra|constructor]|].
    split; [constructor; [cbn; lra|constructor]|].
    split; [lra|]. intros H. injection H as H. lra.
Qed.

(* ---- wiring: the table state produced by the morning check makes the evening inflow defined *)
Theorem check_then_inflow_defined p fc0 zgw fc wts z th :
  check_groundwater_table p fc0 1 zgw = Some (fc, Some (wts, z)) -> length th = length p ->
  exists r, groundwater_inflow p th wts z = Some r.
Proof.
  unfold check_groundwater_table. cbn [Z.eqb Pos.eqb]. destruct (nleb num_ops _ _); [|discriminate].
  intros H Hl. inv_some H. apply gw_inflow_defined; [exact Hl|]. intros E. apply gw_wt_in_soil_spec. exact E.
Qed.
