(* InertR.v — C20: parameters of a feature that is switched off have no effect, and neutral settings behave as off.
   Equalities between two configurations of the same model function.  The first group holds for EVERY number type
   (no arithmetic involved); the second group (neutral values) is over the reals. *)
From AC Require Import Num RInst Params.
From AC.Water Require Import RootZone RainIrr Infiltration.
From AC.proofs Require Import ProfR.
Local Open Scope R_scope.

Section Generic.
  Context {F : Type} {N : NumOps F}.

  (* parameters of the irrigation strategies other than the selected one *)
  Lemma irr_method_inert_0 smt eff maxirr interval sched depth smt' eff' maxirr' interval' sched' depth' stage dap tsc depl taw :
    irr_method (F:=F) 0 smt eff maxirr interval sched depth stage dap tsc depl taw =
    irr_method 0 smt' eff' maxirr' interval' sched' depth' stage dap tsc depl taw.
  Proof. reflexivity. Qed.
  Lemma irr_method_inert_1 smt eff maxirr interval sched depth interval' sched' depth' stage dap tsc depl taw :
    irr_method (F:=F) 1 smt eff maxirr interval sched depth stage dap tsc depl taw =
    irr_method 1 smt eff maxirr interval' sched' depth' stage dap tsc depl taw.
  Proof. reflexivity. Qed.
  Lemma irr_method_inert_2 smt eff maxirr interval sched depth smt' sched' depth' stage dap tsc depl taw :
    irr_method (F:=F) 2 smt eff maxirr interval sched depth stage dap tsc depl taw =
    irr_method 2 smt' eff maxirr interval sched' depth' stage dap tsc depl taw.
  Proof. reflexivity. Qed.
  Lemma irr_method_inert_3 smt eff maxirr interval sched depth smt' eff' interval' depth' stage dap tsc depl taw :
    irr_method (F:=F) 3 smt eff maxirr interval sched depth stage dap tsc depl taw =
    irr_method 3 smt' eff' maxirr interval' sched depth' stage dap tsc depl taw.
  Proof. reflexivity. Qed.
  Lemma irr_method_inert_4 smt eff maxirr interval sched depth smt' eff' maxirr' interval' sched' depth' stage dap tsc depl taw :
    irr_method (F:=F) 4 smt eff maxirr interval sched depth stage dap tsc depl taw =
    irr_method 4 smt' eff' maxirr' interval' sched' depth' stage dap tsc depl taw.
  Proof. reflexivity. Qed.
  Lemma irr_method_inert_5 smt eff maxirr interval sched depth smt' eff' interval' sched' stage dap tsc depl taw :
    irr_method (F:=F) 5 smt eff maxirr interval sched depth stage dap tsc depl taw =
    irr_method 5 smt' eff' maxirr interval' sched' depth stage dap tsc depl taw.
  Proof. reflexivity. Qed.

  (* bund height without bunds: rainfall partition and infiltration *)
  Lemma rainfall_partition_bunds_off_inert P th daysub srinhb zb zb' pct cn0 adjcn zcn ncomp p :
    rainfall_partition (F:=F) P th daysub srinhb false zb pct cn0 adjcn zcn ncomp p =
    rainfall_partition P th daysub srinhb false zb' pct cn0 adjcn zcn ncomp p.
  Proof. unfold rainfall_partition. cbn [negb orb]. reflexivity. Qed.

  Lemma infiltration_bunds_off_inert p surf fc th infl irr eff zb zb' fl dp0 ro0 gs :
    infiltration (F:=F) p surf fc th infl irr eff false zb fl dp0 ro0 gs =
    infiltration p surf fc th infl irr eff false zb' fl dp0 ro0 gs.
  Proof.
    unfold infiltration. cbn [negb orb andb].
    destruct (negb _); [reflexivity|].
    destruct (inf_surface_nobunds _ _ _) as [[[ts ri] s1]|]; [|reflexivity].
    match goal with |- context [if nltb _ _ ?a then ?b else ?c] => destruct (if nltb num_ops (nofZ num_ops 0) a then b else c) as [[[thfl dp] ro]|] end; [|reflexivity].
    rewrite !andb_false_r. reflexivity.
  Qed.
End Generic.

(* ---- neutral values (real instance) ------------------------------------------------------- *)
Lemma pmin_0_nonneg (x : R) : 0 <= x -> pmin (F:=R) 0 x = 0.
Proof. intros H. unfold pmin. rnum. destruct (Rltb_spec x 0); lra. Qed.
Lemma pmin_nonneg_0 (m : R) : 0 <= m -> pmin (F:=R) m 0 = 0.
Proof. intros H. unfold pmin. rnum. destruct (Rltb_spec 0 m); lra. Qed.
Lemma pmax_0_ge (x : R) : 0 <= pmax (F:=R) 0 x.
Proof. unfold pmax. rnum. destruct (Rltb_spec 0 x); lra. Qed.

Lemma irr_effadj_nonneg eff : eff <= 200 -> 0 <= irr_effadj (F:=R) eff.
Proof. intros H. unfold irr_effadj. rnum. lra. Qed.

(* daily maximum 0: the request of the threshold / interval strategies is 0 *)
Lemma irr_request_maxirr0 depl eff : eff <= 200 -> irr_request (F:=R) depl eff 0 = 0.
Proof.
  intros H. unfold irr_request. apply pmin_0_nonneg.
  pose proof (pmax_0_ge depl). pose proof (irr_effadj_nonneg eff H). rnum. apply Rmult_le_pos; assumption.
Qed.

(* a strategy whose raw request is 0 gives exactly the rainfed result (same depletion, TAW, counter and Irr = 0) *)
Lemma irr_season_zero maxseason cum : 0 <= maxseason - cum \/ True -> snd (irr_season (F:=R) maxseason cum 0) = 0 \/ maxseason < cum.
Proof.
  intros _. unfold irr_season. rnum. cbn [snd]. destruct (Rltb_spec maxseason (cum + 0)); [right; lra|left; reflexivity].
Qed.

Theorem irr_method_neutral (method : Z) smt eff maxirr interval sched depth stage dap tsc depl taw v :
  irr_method (F:=R) method smt eff maxirr interval sched depth stage dap tsc depl taw = Some v ->
  (method = 5%Z /\ depth = 0 /\ 0 <= maxirr) \/                              (* constant depth 0 *)
  (maxirr = 0 /\ eff <= 200 /\ (method = 5%Z -> 0 <= depth)) \/              (* daily maximum 0 *)
  (method = 3%Z /\ py_index sched tsc = Some 0 /\ 0 <= maxirr) ->            (* nothing scheduled (empty schedule) *)
  pmax (F:=R) 0 v = 0.
Proof.
  intros Hm Hc. unfold irr_method in Hm.
  assert (Z0 : pmax (F:=R) 0 0 = 0) by (unfold pmax; rnum; destruct (Rltb_spec 0 0); lra).
  destruct Hc as [(-> & -> & Hx) | [(-> & He & Hd) | (-> & Hs & Hx)]].
  - cbn in Hm. injection Hm as <-. rewrite pmin_nonneg_0 by assumption. exact Z0.
  - destruct (Z.eqb_spec method 0); [injection Hm as <-; exact Z0|].
    destruct (Z.eqb_spec method 1).
    { destruct (py_index smt (stage - 1)) as [s|]; [|discriminate].
      destruct (nltb _ _ _); injection Hm as <-; [rewrite irr_request_maxirr0 by assumption|]; exact Z0. }
    destruct (Z.eqb_spec method 2).
    { destruct (Z.eqb_spec interval 0); [discriminate|].
      destruct (Z.eqb_spec ((dap - 1) mod interval) 0); injection Hm as <-; [rewrite irr_request_maxirr0 by assumption|]; exact Z0. }
    destruct (Z.eqb_spec method 3).
    { destruct (py_index sched tsc) as [w|]; [|discriminate]. rnum. destruct (Rleb_spec 0 w); [|discriminate].
      injection Hm as <-. change (pmax (F:=R) 0 (pmin (F:=R) 0 w) = 0). rewrite pmin_0_nonneg by assumption. exact Z0. }
    destruct (Z.eqb_spec method 4); [injection Hm as <-; exact Z0|].
    destruct (Z.eqb_spec method 5); [|discriminate].
    injection Hm as <-. rewrite pmin_0_nonneg by (apply Hd; assumption). exact Z0.
  - cbn in Hm. rewrite Hs in Hm. rnum. destruct (Rleb_spec 0 0); [|lra]. injection Hm as <-.
    change (pmax (F:=R) 0 (pmin (F:=R) maxirr 0) = 0). rewrite pmin_nonneg_0 by assumption. exact Z0.
Qed.

(* seasonal maximum 0 (nothing applied yet): whatever the request, nothing is applied and the counter stays 0 *)
Theorem irr_season_max0 irr : 0 <= irr -> irr_season (F:=R) 0 0 irr = (0, 0).
Proof.
  intros H. unfold irr_season. rnum. destruct (Rltb_spec 0 (0 + irr)).
  - replace (0 - 0) with 0 by lra. unfold pmax. rnum. destruct (Rltb_spec 0 0); [lra|]. f_equal; lra.
  - assert (irr = 0) by lra. subst. f_equal. lra.
Qed.

(* application efficiency without irrigation: infiltration does not depend on it when nothing is applied *)
Theorem infiltration_eff_inert p surf fc th infl eff eff' bunds zb fl dp0 ro0 gs :
  infiltration (F:=R) p surf fc th infl 0 eff bunds zb fl dp0 ro0 gs =
  infiltration p surf fc th infl 0 eff' bunds zb fl dp0 ro0 gs.
Proof.
  unfold infiltration. rnum.
  assert (E : forall x e e' : R, x + 0 * (e / 100) = x + 0 * (e' / 100)) by (intros; lra).
  rewrite (E _ eff eff'). reflexivity.
Qed.
