(* InertRunN.v — C20, neutral values, for the concrete day and the concrete whole run.

   Mulches: [par_mulch_off par] switches the mulches of both field managements off.  If mulches are on with cover 0 or
   factor 0 (or already off) the concrete day and the whole run are the same ([day_mulch_neutral_concrete],
   [run_mulch_neutral], [run_steps_mulch_neutral]).

   Irrigation: [par_rainfed par] replaces the method of the irrigation management by 0 (rainfed) and leaves every other
   field alone.  If the method is not 4 (net irrigation) and the management is at a neutral setting — constant depth 0
   under method 5, nothing scheduled under method 3, daily maximum 0, seasonal maximum 0 with a seasonal counter >= 0 —
   then a DEFINED concrete day writes IrrDay = 0 and is, state and rows, the day of the rainfed configuration
   ([day_irrigation_neutral_concrete]); a whole run that does not stop at a raising process is the rainfed run
   ([run_neutral_concrete], [run_steps_neutral_concrete]).  One direction only: methods 1, 2, 3 can raise where method 0
   does not (threshold list too short, interval 0, schedule too short or negative) — see [neutral_may_raise]. *)
From Coq Require Import List Bool ZArith Lia.
From AC Require Import Num RInst Params Kernels Clock Day DayConcrete RunConcrete.
From AC.Water Require RootZone RainIrr Infiltration Drainage Groundwater Evaporation Transpiration.
From AC.Crop Require Canopy Roots Yield.
From AC.proofs Require Import ProfR DayP DayConcreteP InertR InertRunU InertRunS InertRunP.
From AC.proofs Require EvaporationR RootsR RainIrrR YieldR InfiltrationR.
Import ListNotations.
Local Open Scope R_scope.

#[local] Existing Instance YieldR.RTrig.

(* ================================================================================================================ *)
(*  mulches at a neutral value                                                                                        *)
(* ================================================================================================================ *)
Definition field_mulch_off (f : DField R) : DField R :=
  {| f_id := f_id f; f_sr_inhb := f_sr_inhb f; f_bunds := f_bunds f; f_z_bund := f_z_bund f; f_cn_adj := f_cn_adj f;
     f_cn_adj_pct := f_cn_adj_pct f; f_mulches := false; f_f_mulch := f_f_mulch f; f_mulch_pct := f_mulch_pct f;
     f_bund_water := f_bund_water f |}.
Definition par_mulch_off (par : DPar R) : DPar R :=
  {| p_soil := p_soil par; p_irr := p_irr par; p_fallow_irr := p_fallow_irr par; p_field := field_mulch_off (p_field par);
     p_fallow_field := field_mulch_off (p_fallow_field par); p_crop := p_crop par; p_fallow_crop := p_fallow_crop par;
     p_water_table := p_water_table par; p_co2c := p_co2c par; p_co2r := p_co2r par; p_evap_steps := p_evap_steps par;
     p_sim_off := p_sim_off par |}.
Definition mulch_neutral (f : DField R) : Prop := f_mulches f = false \/ f_mulch_pct f = 0 \/ f_f_mulch f = 0.

Lemma sel_field_mulch_off par season gs : sel_field (par_mulch_off par) season gs = field_mulch_off (sel_field par season gs).
Proof. unfold sel_field. destruct (0 <=? season)%Z; [destruct gs|]; reflexivity. Qed.

Section MulchDay.
  Variables (par : DPar R) (crops : Z -> CropFull R) (season : Z) (gs : bool) (dap tsc : Z) (w : Day.W R) (s : DState R).
  Hypothesis HN : mulch_neutral (sel_field par season gs).
  Notation par' := (par_mulch_off par).
  Notation x := (mk_ctx par season gs dap tsc w s).
  Notation x' := (mk_ctx par' season gs dap tsc w s).
  Notation prof := (so_prof (p_soil par)).

  Lemma m_ev gdd r_ir r_inf r_cr r_ge r_cc :
    c_ev prof (arg_ev x gdd r_ir r_inf r_cr r_ge r_cc) = c_ev prof (arg_ev x' gdd r_ir r_inf r_cr r_ge r_cc).
  Proof.
    unfold c_ev.
    change (ev_state (arg_ev x' gdd r_ir r_inf r_cr r_ge r_cc)) with (ev_state (arg_ev x gdd r_ir r_inf r_cr r_ge r_cc)).
    change (evA_th (arg_ev x' gdd r_ir r_inf r_cr r_ge r_cc)) with (evA_th (arg_ev x gdd r_ir r_inf r_cr r_ge r_cc)).
    change (evA_et0 (arg_ev x' gdd r_ir r_inf r_cr r_ge r_cc)) with (evA_et0 (arg_ev x gdd r_ir r_inf r_cr r_ge r_cc)).
    change (evA_infl (arg_ev x' gdd r_ir r_inf r_cr r_ge r_cc)) with (evA_infl (arg_ev x gdd r_ir r_inf r_cr r_ge r_cc)).
    change (evA_rain (arg_ev x' gdd r_ir r_inf r_cr r_ge r_cc)) with (evA_rain (arg_ev x gdd r_ir r_inf r_cr r_ge r_cc)).
    change (evA_irr (arg_ev x' gdd r_ir r_inf r_cr r_ge r_cc)) with (evA_irr (arg_ev x gdd r_ir r_inf r_cr r_ge r_cc)).
    change (evA_gs (arg_ev x' gdd r_ir r_inf r_cr r_ge r_cc)) with (evA_gs (arg_ev x gdd r_ir r_inf r_cr r_ge r_cc)).
    match goal with |- match ?A with _ => _ end = match ?B with _ => _ end => assert (E' : A = B); [|rewrite E'; reflexivity] end.
    apply soil_evaporation_congr; try reflexivity.
    intros surf e. apply ev_espot_adj_mulch_neutral; try reflexivity.
    - unfold ev_par, arg_ev. cbv zeta. cbn [Evaporation.ep_mulches evA_mulches]. xs. rewrite sel_field_mulch_off. reflexivity.
    - unfold ev_par, arg_ev. cbv zeta. cbn [Evaporation.ep_mulches Evaporation.ep_mulchpct Evaporation.ep_fmulch evA_mulches evA_fmulch evA_mulchpct]. xs.
      exact HN.
  Qed.

  Theorem day_mulch_neutral_sel :
    day_proc_opt par (procs_concrete crops) season gs dap tsc w s = day_proc_opt par' (procs_concrete crops) season gs dap tsc w s.
  Proof.
    apply day_proc_opt_eq; try reflexivity.
    - intros r_dr. unfold arg_rp. xs. rewrite sel_field_mulch_off. reflexivity.
    - intros r_gw r_rd r_dr r_rp r_ir _. unfold arg_inf. xs. rewrite sel_field_mulch_off. reflexivity.
    - intros gdd r_rd r_dr r_rp r_ir r_inf r_cr r_ge r_cc _. apply m_ev.
  Qed.
End MulchDay.

Lemma mulch_neutral_sel par season gs : mulch_neutral (p_field par) -> mulch_neutral (p_fallow_field par) -> mulch_neutral (sel_field par season gs).
Proof. intros H1 H2. unfold sel_field. destruct (0 <=? season)%Z; [destruct gs|]; assumption. Qed.

Theorem day_mulch_neutral_concrete par crops season gs dap tsc w s :
  mulch_neutral (p_field par) -> mulch_neutral (p_fallow_field par) ->
  day_proc_opt par (procs_concrete crops) season gs dap tsc w s =
  day_proc_opt (par_mulch_off par) (procs_concrete crops) season gs dap tsc w s.
Proof. intros H1 H2. apply day_mulch_neutral_sel. apply mulch_neutral_sel; assumption. Qed.

Section RunMulch.
  Variables (par : DPar R) (crops : Z -> CropFull R).
  Hypothesis H1 : mulch_neutral (p_field par).
  Hypothesis H2 : mulch_neutral (p_fallow_field par).

  Theorem run_mulch_neutral c ws fuel m0 : run_till_c par crops c ws fuel m0 = run_till_c (par_mulch_off par) crops c ws fuel m0.
  Proof.
    unfold run_till_c. symmetry. apply run_till_g_ext.
    - intros. unfold defined_c. rewrite (day_mulch_neutral_concrete par) by assumption. reflexivity.
    - intros. apply proc_c_of_opt; [apply day_mulch_neutral_concrete; assumption | assumption].
    - intros. reflexivity.
    - intros. reflexivity.
    - intros. reflexivity.
  Qed.

  Theorem run_steps_mulch_neutral c ws k m0 : run_steps_c par crops c ws k m0 = run_steps_c (par_mulch_off par) crops c ws k m0.
  Proof.
    unfold run_steps_c. symmetry. apply run_steps_g_ext.
    - intros. unfold defined_c. rewrite (day_mulch_neutral_concrete par) by assumption. reflexivity.
    - intros. apply proc_c_of_opt; [apply day_mulch_neutral_concrete; assumption | assumption].
    - intros. reflexivity.
    - intros. reflexivity.
    - intros. reflexivity.
  Qed.
End RunMulch.

(* ================================================================================================================ *)
(*  irrigation at a neutral value                                                                                     *)
(* ================================================================================================================ *)
Definition irr_rainfed (i : DIrr R) : DIrr R :=
  {| i_id := i_id i; i_method := 0%Z; i_SMT := i_SMT i; i_AppEff := i_AppEff i; i_MaxIrr := i_MaxIrr i; i_IrrInterval := i_IrrInterval i;
     i_Schedule := i_Schedule i; i_depth := i_depth i; i_MaxIrrSeason := i_MaxIrrSeason i; i_NetIrrSMT := i_NetIrrSMT i;
     i_WetSurf := i_WetSurf i |}.
Definition par_rainfed (par : DPar R) : DPar R :=
  {| p_soil := p_soil par; p_irr := irr_rainfed (p_irr par); p_fallow_irr := p_fallow_irr par; p_field := p_field par;
     p_fallow_field := p_fallow_field par; p_crop := p_crop par; p_fallow_crop := p_fallow_crop par;
     p_water_table := p_water_table par; p_co2c := p_co2c par; p_co2r := p_co2r par; p_evap_steps := p_evap_steps par;
     p_sim_off := p_sim_off par |}.

(* the neutral settings of an irrigation management on one day: outside the season every setting is neutral *)
Definition irr_neutral_day (i : DIrr R) (gs : bool) (tsc : Z) (cum : R) : Prop :=
  i_method i <> 4%Z /\
  (gs = false \/ (i_method i = 5%Z /\ i_depth i = 0) \/ i_MaxIrr i = 0 \/
   (i_method i = 3%Z /\ RainIrr.py_index (i_Schedule i) tsc = Some 0) \/ (i_MaxIrrSeason i = 0 /\ 0 <= cum)).

(* the seasonal counter of the state stays non-negative through any defined concrete day *)
Lemma c_ir_cum_nonneg p a r : c_ir p a = Some r -> 0 <= irA_irrcum a -> 0 <= irR_irrcum r.
Proof.
  unfold c_ir. destruct (RainIrr.irrigation _ _ _ _ _ _ _ _ _ _ _ _ _ _ _ _ _ _ _ _ _ _ _) as [[[[depl taw] cum] irr]|] eqn:E; [|discriminate].
  intros [= <-] H. cbn [irR_irrcum]. exact (irrigation_cum_nonneg _ _ _ _ _ _ _ _ _ _ _ _ _ _ _ _ _ _ _ _ _ _ _ _ E H).
Qed.

Theorem day_irr_cum_nonneg par crops season gs dap tsc w s s' row :
  day_proc_opt par (procs_concrete crops) season gs dap tsc w s = Some (s', row) -> 0 <= d_irr_cum s -> 0 <= d_irr_cum s'.
Proof.
  intros H Hc. destruct (day_proc_opt_total _ _ _ _ _ _ _ _ _ _ H) as (_ & Rs & HR & _ & -> & _).
  pose proof (so_ir _ _ _ (results_opt_spec _ _ _ HR)) as E. cbn [procs_concrete po_ir t_ir trace_of] in E.
  cbn [state_of d_irr_cum]. apply (c_ir_cum_nonneg _ _ _ E). exact Hc.
Qed.

Section NeutralDay.
  Variables (par : DPar R) (crops : Z -> CropFull R) (season : Z) (gs : bool) (dap tsc : Z) (w : Day.W R) (s : DState R).
  Hypothesis Hs : (0 <=? season)%Z = true.
  Hypothesis HN : irr_neutral_day (p_irr par) gs tsc (d_irr_cum s).
  Notation par' := (par_rainfed par).
  Notation x := (mk_ctx par season gs dap tsc w s).
  Notation x' := (mk_ctx par' season gs dap tsc w s).
  Notation prof := (so_prof (p_soil par)).

  Lemma n_sel : sel_irr par season = p_irr par. Proof. unfold sel_irr. rewrite Hs. reflexivity. Qed.
  Lemma n_sel' : sel_irr par' season = irr_rainfed (p_irr par). Proof. unfold sel_irr. rewrite Hs. reflexivity. Qed.
  Lemma n_m4 : (i_method (p_irr par) =? 4)%Z = false. Proof. apply Z.eqb_neq. apply HN. Qed.

  Lemma n_pi r_rd : c_pi prof (arg_pi x r_rd) = c_pi prof (arg_pi x' r_rd).
  Proof.
    unfold c_pi, arg_pi. cbn [piA_crop piA_dap piA_zroot piA_th piA_gs piA_irr]. xs. rewrite n_sel, n_sel'.
    cbn [irr_rainfed i_method i_NetIrrSMT].
    rewrite !RootsR.pre_irrigation_inert; [reflexivity | left; discriminate | left; apply HN].
  Qed.

  (* the irrigation process: same result, nothing applied *)
  Lemma n_ir r_rd r_dr r_rp r : c_ir prof (arg_ir x r_rd r_dr r_rp) = Some r ->
    c_ir prof (arg_ir x' r_rd r_dr r_rp) = Some r /\ irR_irr r = 0.
  Proof.
    destruct HN as [_ Hc].
    unfold c_ir, arg_ir. cbv zeta.
    cbn [irA_method irA_smt irA_eff irA_maxirr irA_interval irA_sched irA_depth irA_maxseason irA_stage irA_irrcum irA_epot irA_tpot
         irA_zroot irA_th irA_dap irA_tsc irA_crop irA_ztop irA_gs irA_rain irA_runoff]. xs. rewrite n_sel, n_sel'.
    cbn [irr_rainfed i_method i_SMT i_AppEff i_MaxIrr i_IrrInterval i_Schedule i_depth i_MaxIrrSeason].
    destruct (RainIrr.irrigation (i_method (p_irr par)) _ _ _ _ _ _ _ _ _ _ _ _ _ _ _ _ _ _ _ _ _ _) as [[[[depl taw] cum] irr]|] eqn:E; [|discriminate].
    intros [= <-].
    destruct (irrigation_neutral _ _ _ _ _ _ _ _ (i_SMT (p_irr par)) (i_AppEff (p_irr par)) (i_MaxIrr (p_irr par)) (i_IrrInterval (p_irr par))
                (i_Schedule (p_irr par)) (i_depth (p_irr par)) (i_MaxIrrSeason (p_irr par)) _ _ _ _ _ _ _ _ _ _ _ _ _ _ _ _ E Hc) as (E0 & Hz & _).
    change (sel_crop par' season) with (sel_crop par season). change (p_soil par') with (p_soil par). rewrite E0. split; [reflexivity | exact Hz].
  Qed.

  Lemma n_inf r_gw r_rd r_dr r_rp r_ir : c_ir prof (arg_ir x r_rd r_dr r_rp) = Some r_ir ->
    c_inf prof (arg_inf x r_gw r_dr r_rp r_ir) = c_inf prof (arg_inf x' r_gw r_dr r_rp r_ir).
  Proof.
    intros _.
    unfold c_inf, arg_inf. cbv zeta.
    cbn [infA_surf infA_fcadj infA_th infA_infl infA_irr infA_eff infA_bunds infA_zbund infA_flux infA_deepperc infA_runoff infA_gs]. xs.
    rewrite n_sel, n_sel'. reflexivity.
  Qed.

  Lemma n_ev gdd r_rd r_dr r_rp r_ir r_inf r_cr r_ge r_cc : c_ir prof (arg_ir x r_rd r_dr r_rp) = Some r_ir ->
    c_ev prof (arg_ev x gdd r_ir r_inf r_cr r_ge r_cc) = c_ev prof (arg_ev x' gdd r_ir r_inf r_cr r_ge r_cc).
  Proof.
    intros E. destruct (n_ir _ _ _ _ E) as [_ Hz].
    unfold c_ev.
    change (ev_state (arg_ev x' gdd r_ir r_inf r_cr r_ge r_cc)) with (ev_state (arg_ev x gdd r_ir r_inf r_cr r_ge r_cc)).
    change (evA_th (arg_ev x' gdd r_ir r_inf r_cr r_ge r_cc)) with (evA_th (arg_ev x gdd r_ir r_inf r_cr r_ge r_cc)).
    change (evA_et0 (arg_ev x' gdd r_ir r_inf r_cr r_ge r_cc)) with (evA_et0 (arg_ev x gdd r_ir r_inf r_cr r_ge r_cc)).
    change (evA_infl (arg_ev x' gdd r_ir r_inf r_cr r_ge r_cc)) with (evA_infl (arg_ev x gdd r_ir r_inf r_cr r_ge r_cc)).
    change (evA_rain (arg_ev x' gdd r_ir r_inf r_cr r_ge r_cc)) with (evA_rain (arg_ev x gdd r_ir r_inf r_cr r_ge r_cc)).
    change (evA_irr (arg_ev x' gdd r_ir r_inf r_cr r_ge r_cc)) with (irR_irr r_ir).
    change (evA_irr (arg_ev x gdd r_ir r_inf r_cr r_ge r_cc)) with (irR_irr r_ir).
    change (evA_gs (arg_ev x' gdd r_ir r_inf r_cr r_ge r_cc)) with (evA_gs (arg_ev x gdd r_ir r_inf r_cr r_ge r_cc)).
    match goal with |- match ?A with _ => _ end = match ?B with _ => _ end => assert (E' : A = B); [|rewrite E'; reflexivity] end.
    apply soil_evaporation_congr; try reflexivity.
    - apply ev_rewet_irr_inert. left. exact Hz.
    - intros surf e. apply ev_espot_adj_inert; [reflexivity | intros _; split; reflexivity | left; exact Hz].
  Qed.

  Lemma n_tr gdd r_rd r_rp r_ir r_ge r_cc r_ev :
    c_tr crops prof (arg_tr x gdd r_rd r_rp r_ir r_ge r_cc r_ev) = c_tr crops prof (arg_tr x' gdd r_rd r_rp r_ir r_ge r_cc r_ev).
  Proof.
    unfold c_tr. cbv zeta.
    change (tr_state (arg_tr x' gdd r_rd r_rp r_ir r_ge r_cc r_ev)) with (tr_state (arg_tr x gdd r_rd r_rp r_ir r_ge r_cc r_ev)).
    unfold arg_tr at 1 2 3 4 5 6 7 8 9 10. unfold arg_tr at 2 3 4 5 6 7 8 9 10 11. cbv zeta.
    cbn [trA_ncomp trA_ztop trA_crop trA_method trA_smt trA_et0 trA_co2c trA_co2r trA_gs trA_gdd]. xs. rewrite n_sel, n_sel'.
    cbn [irr_rainfed i_method i_NetIrrSMT].
    change (sel_crop par' season) with (sel_crop par season). change (p_soil par') with (p_soil par).
    change (p_co2c par' season) with (p_co2c par season). change (p_co2r par') with (p_co2r par).
    rewrite (transpiration_method_inert _ _ _ (i_method (p_irr par)) 0%Z (i_NetIrrSMT (p_irr par)) (i_NetIrrSMT (p_irr par)));
      [reflexivity | apply HN | discriminate].
  Qed.

  Lemma day_neutral_sel r : day_proc_opt par (procs_concrete crops) season gs dap tsc w s = Some r ->
    day_proc_opt par' (procs_concrete crops) season gs dap tsc w s = Some r.
  Proof.
    apply day_proc_opt_sim; try reflexivity.
    - rewrite n_sel, n_sel'. cbn [irr_rainfed i_method]. rewrite n_m4. reflexivity.
    - intros r_rd r0. rewrite n_pi. auto.
    - intros r_dr r0 H. exact H.
    - intros r_rd r_dr r_rp r0 H. apply (n_ir _ _ _ _ H).
    - intros r_gw r_rd r_dr r_rp r_ir r0 E. rewrite (n_inf r_gw r_rd r_dr r_rp r_ir E). auto.
    - intros gdd r_rd r_dr r_rp r_ir r_inf r_cr r_ge r_cc r0 E. rewrite (n_ev gdd r_rd r_dr r_rp r_ir r_inf r_cr r_ge r_cc E). auto.
    - intros gdd r_rd r_rp r_ir r_ge r_cc r_ev r0. rewrite n_tr. auto.
  Qed.

  Lemma day_neutral_irrday s' row : day_proc_opt par (procs_concrete crops) season gs dap tsc w s = Some (s', row) ->
    fl_IrrDay (r_flux row) = 0.
  Proof.
    intros H. destruct (day_proc_opt_total _ _ _ _ _ _ _ _ _ _ H) as (_ & Rs & HR & _ & _ & ->).
    pose proof (so_ir _ _ _ (results_opt_spec _ _ _ HR)) as E. cbn [procs_concrete po_ir t_ir trace_of] in E.
    destruct (n_ir _ _ _ _ E) as [_ Hz].
    cbn [row_of r_flux fl_IrrDay]. unfold irrday_of. unfold x_irr. cbn [ctx x_par x_season x_gs]. rewrite n_sel, n_m4.
    destruct gs; [exact Hz | reflexivity].
  Qed.
End NeutralDay.

(* before the first season (season index -1) the fallow irrigation management is in force, which [par_rainfed] leaves alone *)
Lemma sel_rainfed_off par season gs : (0 <=? season)%Z = false -> sel_inert_eq par (par_rainfed par) season gs.
Proof.
  intros Hs. constructor; try reflexivity.
  - unfold sel_irr. rewrite Hs. apply irr_inert_eq_refl.
  - apply field_inert_eq_refl.
Qed.

Theorem day_irrigation_neutral_concrete par crops season gs dap tsc w s s' row :
  irr_neutral_day (p_irr par) gs tsc (d_irr_cum s) ->
  day_proc_opt par (procs_concrete crops) season gs dap tsc w s = Some (s', row) ->
  day_proc_opt (par_rainfed par) (procs_concrete crops) season gs dap tsc w s = Some (s', row) /\
  ((0 <= season)%Z -> fl_IrrDay (r_flux row) = 0).
Proof.
  intros HN H. destruct (0 <=? season)%Z eqn:Hs.
  - split; [exact (day_neutral_sel par crops season gs dap tsc w s Hs HN _ H) |
            intros _; exact (day_neutral_irrday par crops season gs dap tsc w s Hs HN _ _ H)].
  - split; [|intros Hp; apply Z.leb_gt in Hs; lia].
    rewrite <- (day_inert_sel par (par_rainfed par) crops season gs dap tsc w s (sel_rainfed_off par season gs Hs)). exact H.
Qed.

(* the other direction fails: a strategy at a neutral setting can raise where the rainfed configuration does not *)
Lemma neutral_may_raise :
  RainIrr.irr_method (F:=R) 1 [] 100 0 1 [] 0 1 1 0 10 50 = None /\
  RainIrr.irr_method (F:=R) 0 [] 100 0 1 [] 0 1 1 0 10 50 = Some 0.
Proof. split; reflexivity. Qed.

(* ---- the whole run ---------------------------------------------------------------------------------------------- *)
Definition irr_neutral_run (i : DIrr R) (ws : list (Day.W R)) : Prop :=
  i_method i <> 4%Z /\
  ((i_method i = 5%Z /\ i_depth i = 0) \/ i_MaxIrr i = 0 \/
   (i_method i = 3%Z /\ forall t w, nthW (Day.W R) ws t = Some w -> RainIrr.py_index (i_Schedule i) t = Some 0) \/
   i_MaxIrrSeason i = 0).

Section RunNeutral.
  Variables (par : DPar R) (crops : Z -> CropFull R) (c : ClockP) (ws : list (Day.W R)).
  Hypothesis HN : irr_neutral_run (p_irr par) ws.

  Let I (s : DState R) : Prop := 0 <= d_irr_cum s.

  Lemma neutral_day_of_run gs tsc w s : I s -> nthW (Day.W R) ws tsc = Some w -> irr_neutral_day (p_irr par) gs tsc (d_irr_cum s).
  Proof.
    intros Hi Ew. destruct HN as [H4 Hc]. split; [exact H4|]. right.
    destruct Hc as [Hc | [Hc | [[Hm Hc] | Hc]]]; [tauto | tauto | right; right; left; split; [exact Hm | exact (Hc _ _ Ew)] | ].
    right; right; right. split; [exact Hc | exact Hi].
  Qed.

  Lemma run_neutral_step season gs dap tsc w s : I s -> nthW (Day.W R) ws tsc = Some w -> defined_c par crops season gs dap tsc w s = true ->
    defined_c (par_rainfed par) crops season gs dap tsc w s = true /\
    proc_c (par_rainfed par) crops season gs dap tsc w s = proc_c par crops season gs dap tsc w s /\
    I (fst (proc_c par crops season gs dap tsc w s)).
  Proof.
    intros Hi Ew Hd. pose proof Hd as Hd0. unfold defined_c in Hd.
    destruct (day_proc_opt par _ _ _ _ _ _ _) as [[s1 row]|] eqn:E; [|discriminate].
    destruct (day_irrigation_neutral_concrete _ _ _ _ _ _ _ _ _ _ (neutral_day_of_run gs tsc w s Hi Ew) E) as [E' _].
    split; [unfold defined_c; rewrite E'; reflexivity|]. split.
    - apply proc_c_of_opt; [rewrite E, E'; reflexivity | exact Hd0].
    - unfold proc_c. destruct (day_proc_opt_total _ _ _ _ _ _ _ _ _ _ E) as [-> _]. cbn [fst].
      exact (day_irr_cum_nonneg _ _ _ _ _ _ _ _ _ _ E Hi).
  Qed.

  Lemma summary_rainfed k g s : summary_of (par_rainfed par) k g s = summary_of par k g s.
  Proof.
    unfold summary_of, sel_irr. destruct (0 <=? k)%Z; [|reflexivity].
    cbn [par_rainfed p_irr irr_rainfed i_method]. destruct HN as [H4 _]. apply Z.eqb_neq in H4. rewrite H4. reflexivity.
  Qed.

  Lemma reset_rainfed k s : I s -> reset (par_rainfed par) k ws s = reset par k ws s /\ I (reset par k ws s).
  Proof. intros _. split; [reflexivity|]. unfold I. cbn [reset d_irr_cum]. rnum. lra. Qed.

  Theorem run_neutral_concrete fuel m0 r : 0 <= d_irr_cum (phys (st m0)) ->
    run_till_c par crops c ws fuel m0 = Some r -> not_stopped r -> run_till_c (par_rainfed par) crops c ws fuel m0 = Some r.
  Proof.
    intros H0. unfold run_till_c.
    apply (run_till_g_sim (DState R) (Day.W R) (DRow R) (DOut R) (proc_c par crops) (proc_c (par_rainfed par) crops) dead
             (matured par) (matured (par_rainfed par)) (summary_of par) (summary_of (par_rainfed par)) (reset par) (reset (par_rainfed par))
             (defined_c par crops) (defined_c (par_rainfed par) crops) I c ws).
    - exact run_neutral_step.
    - intros. reflexivity.
    - exact summary_rainfed.
    - exact reset_rainfed.
    - exact H0.
  Qed.

  Theorem run_steps_neutral_concrete k m0 r : 0 <= d_irr_cum (phys (st m0)) ->
    run_steps_c par crops c ws k m0 = r -> not_stopped r -> run_steps_c (par_rainfed par) crops c ws k m0 = r.
  Proof.
    intros H0. unfold run_steps_c.
    apply (run_steps_g_sim (DState R) (Day.W R) (DRow R) (DOut R) (proc_c par crops) (proc_c (par_rainfed par) crops) dead
             (matured par) (matured (par_rainfed par)) (summary_of par) (summary_of (par_rainfed par)) (reset par) (reset (par_rainfed par))
             (defined_c par crops) (defined_c (par_rainfed par) crops) I c ws).
    - exact run_neutral_step.
    - intros. reflexivity.
    - exact summary_rainfed.
    - exact reset_rainfed.
    - exact H0.
  Qed.
End RunNeutral.

(* the transformations in combination: inert differences, then mulches at a neutral value switched off, then the
   irrigation management at a neutral setting replaced by the rainfed one *)
Theorem run_neutral_combined par par' crops c ws fuel m0 r :
  par_inert_eq par par' -> mulch_neutral (p_field par') -> mulch_neutral (p_fallow_field par') -> irr_neutral_run (p_irr par') ws ->
  0 <= d_irr_cum (phys (st m0)) ->
  run_till_c par crops c ws fuel m0 = Some r -> not_stopped r ->
  run_till_c (par_rainfed (par_mulch_off par')) crops c ws fuel m0 = Some r.
Proof.
  intros HE M1 M2 HN H0 H Hns.
  rewrite (run_inert_concrete par par' crops HE), (run_mulch_neutral par' crops M1 M2) in H.
  exact (run_neutral_concrete (par_mulch_off par') crops c ws HN fuel m0 r H0 H Hns).
Qed.

(* the side condition of the seasonal maximum 0 is needed: with a negative seasonal counter water is applied *)
Example irr_season_max0_refuted : RainIrr.irr_season (F:=R) 0 (-5) 3 = (-2, 3).
Proof. unfold RainIrr.irr_season. rnum. destruct (Rltb_spec 0 (-5 + 3)); [lra|]. f_equal; lra. Qed.

(* AppEff is NOT inert under methods 3 and 5 at the day level, although [InertR.irr_method_inert_3/5] list it among the
   parameters the request of these strategies does not read: infiltration multiplies whatever was applied by AppEff / 100.
   Witness (InfiltrationR's example field): 20 mm applied, efficiency 75 % against 50 %. *)
Example infiltration_eff_inert_refuted :
  Infiltration.infiltration InfiltrationR.ex_p 5 InfiltrationR.ex_fc InfiltrationR.ex_th 30 20 75 true 100 InfiltrationR.ex_fl 10 4 true <>
  Infiltration.infiltration InfiltrationR.ex_p 5 InfiltrationR.ex_fc InfiltrationR.ex_th 30 20 50 true 100 InfiltrationR.ex_fl 10 4 true.
Proof.
  destruct InfiltrationR.infiltration_defined_ex as [[[[[[th1 s1] dp1] ro1] in1] fl1] E]. unfold InfiltrationR.ex_run in E.
  rewrite E. intros H. symmetry in H.
  pose proof (InfiltrationR.surface_identity _ _ _ _ _ _ _ _ _ _ _ _ _ _ _ _ _ _ _ E) as A.
  pose proof (InfiltrationR.surface_identity _ _ _ _ _ _ _ _ _ _ _ _ _ _ _ _ _ _ _ H) as B.
  unfold InfiltrationR.offered in A, B. rewrite Rmax_left in A, B by lra. lra.
Qed.

(* ================================================================================================================ *)
(*  the transformations change the records                                                                            *)
(* ================================================================================================================ *)
Module ExNeutral.
  Import DayP.Ex.
  (* mulches switched on with a cover of 0 % *)
  Definition fieldM : DField R :=
    {| f_id := 0; f_sr_inhb := false; f_bunds := true; f_z_bund := 10; f_cn_adj := false; f_cn_adj_pct := 0; f_mulches := true;
       f_f_mulch := 1 / 2; f_mulch_pct := 0; f_bund_water := 0 |}.
  Definition parM : DPar R :=
    {| p_soil := soil0; p_irr := irr0; p_fallow_irr := irr0; p_field := fieldM; p_fallow_field := fieldM; p_crop := fun _ => crop0;
       p_fallow_crop := crop0; p_water_table := 0; p_co2c := fun _ => 400; p_co2r := 36941 / 100; p_evap_steps := 20; p_sim_off := false |}.
  Example mulch_pair_differs : par_mulch_off parM <> parM.
  Proof. intros H. apply (f_equal (fun p => f_mulches (p_field p))) in H. cbn in H. discriminate. Qed.
  Example mulch_pair_run crops c ws fuel m0 : run_till_c parM crops c ws fuel m0 = run_till_c (par_mulch_off parM) crops c ws fuel m0.
  Proof. apply run_mulch_neutral; right; left; reflexivity. Qed.

  (* a constant depth of 0 mm under method 5 *)
  Definition irr5 : DIrr R :=
    {| i_id := 0; i_method := 5; i_SMT := [70; 70; 70; 70]; i_AppEff := 100; i_MaxIrr := 25; i_IrrInterval := 3; i_Schedule := [];
       i_depth := 0; i_MaxIrrSeason := 10000; i_NetIrrSMT := 80; i_WetSurf := 100 |}.
  Definition parN : DPar R :=
    {| p_soil := soil0; p_irr := irr5; p_fallow_irr := irr0; p_field := field0; p_fallow_field := field0; p_crop := fun _ => crop0;
       p_fallow_crop := crop0; p_water_table := 0; p_co2c := fun _ => 400; p_co2r := 36941 / 100; p_evap_steps := 20; p_sim_off := false |}.
  Example rainfed_pair_differs : par_rainfed parN <> parN.
  Proof. intros H. apply (f_equal (fun p => i_method (p_irr p))) in H. cbn in H. discriminate. Qed.
  Example rainfed_pair_run crops c ws fuel m0 r : 0 <= d_irr_cum (phys (st m0)) ->
    run_till_c parN crops c ws fuel m0 = Some r -> not_stopped r -> run_till_c (par_rainfed parN) crops c ws fuel m0 = Some r.
  Proof. apply run_neutral_concrete. split; [discriminate | left; split; reflexivity]. Qed.
End ExNeutral.

Print Assumptions day_mulch_neutral_concrete.
Print Assumptions run_mulch_neutral.
Print Assumptions run_steps_mulch_neutral.
Print Assumptions day_irrigation_neutral_concrete.
Print Assumptions run_neutral_concrete.
Print Assumptions run_steps_neutral_concrete.
Print Assumptions run_neutral_combined.
