(* InertRunP.v — C20 for the CONCRETE DAY and the CONCRETE WHOLE RUN: disabled features and neutral settings are inert.

   [par_inert_eq par par'] : the two parameter records differ only in places the configuration does not read.
   [day_inert_concrete]    : then the concrete day is the same (both raise, or the same new state and rows).
   [run_inert_concrete], [run_steps_inert_concrete] : then the whole run is the same (tables, summary rows, final state,
                             the step at which it stops if a process raises, fuel exhaustion).
   [init_state_inert], [run_from_init_inert] : the initial state object and the run right after initialisation as well.
   Neutral values (mulch cover / factor 0, constant depth 0, all-zero schedule, daily / seasonal maximum 0): InertRunN.v.
   Unit-level ingredients: InertR.v, InertRunU.v, EvaporationR.v, RootsR.v; schemes: InertRunS.v. *)
From Coq Require Import List Bool ZArith Lia.
From AC Require Import Num RInst Params Kernels Clock Day DayConcrete RunConcrete.
From AC.Water Require RootZone RainIrr Infiltration Drainage Groundwater Evaporation Transpiration.
From AC.Crop Require Canopy Roots Yield.
From AC.Init Require InitState.
From AC.proofs Require Import ProfR DayP DayConcreteP InertR InertRunU InertRunS.
From AC.proofs Require EvaporationR RootsR RainIrrR YieldR.
Import ListNotations.
Local Open Scope R_scope.

#[local] Existing Instance YieldR.RTrig.

(* ================================================================================================================ *)
(*  1. the relation                                                                                                   *)
(* ================================================================================================================ *)
(* irrigation management: the tag and the method are the same; every other parameter only where the method reads it.
   [surface m] (InertRunU.v) : m is 1, 2, 3 or 5.
     SMT           — method 1 (soil-moisture thresholds per growth stage)
     AppEff        — methods 1, 2 (size of the request) and every surface method (share that infiltrates)
     MaxIrr        — every surface method (cap of the day)
     IrrInterval   — method 2;   Schedule — method 3;   depth — method 5
     MaxIrrSeason  — every surface method (seasonal cap)
     NetIrrSMT     — method 4 (pre-irrigation and the net-irrigation tail of transpiration)
     WetSurf       — every surface method (soil evaporation on a day with irrigation)
   With method 0 (rainfed), and with a method that is none of 0..5, nothing but the method itself is read. *)
Record irr_inert_eq (i i' : DIrr R) : Prop := {
  ie_id : i_id i = i_id i';
  ie_method : i_method i = i_method i';
  ie_SMT : i_method i = 1%Z -> i_SMT i = i_SMT i';
  ie_AppEff : surface (i_method i) -> i_AppEff i = i_AppEff i';
  ie_MaxIrr : surface (i_method i) -> i_MaxIrr i = i_MaxIrr i';
  ie_IrrInterval : i_method i = 2%Z -> i_IrrInterval i = i_IrrInterval i';
  ie_Schedule : i_method i = 3%Z -> i_Schedule i = i_Schedule i';
  ie_depth : i_method i = 5%Z -> i_depth i = i_depth i';
  ie_MaxIrrSeason : surface (i_method i) -> i_MaxIrrSeason i = i_MaxIrrSeason i';
  ie_NetIrrSMT : i_method i = 4%Z -> i_NetIrrSMT i = i_NetIrrSMT i';
  ie_WetSurf : surface (i_method i) -> i_WetSurf i = i_WetSurf i' }.

(* field management: tag and switches are the same; the parameters of a feature only when its switch is on; the initial
   water between the bunds only when the bunds are higher than 1 mm (Day.reset, InitState.init_surface) *)
Record field_inert_eq (f f' : DField R) : Prop := {
  fe_id : f_id f = f_id f';
  fe_sr_inhb : f_sr_inhb f = f_sr_inhb f';
  fe_bunds : f_bunds f = f_bunds f';
  fe_cn_adj : f_cn_adj f = f_cn_adj f';
  fe_mulches : f_mulches f = f_mulches f';
  fe_z_bund : f_bunds f = true -> f_z_bund f = f_z_bund f';
  fe_bund_water : f_bunds f = true -> 1 / 1000 < f_z_bund f -> f_bund_water f = f_bund_water f';
  fe_cn_adj_pct : f_cn_adj f = true -> f_cn_adj_pct f = f_cn_adj_pct f';
  fe_f_mulch : f_mulches f = true -> f_f_mulch f = f_f_mulch f';
  fe_mulch_pct : f_mulches f = true -> f_mulch_pct f = f_mulch_pct f' }.

Record par_inert_eq (par par' : DPar R) : Prop := {
  pe_soil : p_soil par = p_soil par';
  pe_irr : irr_inert_eq (p_irr par) (p_irr par');
  pe_fallow_irr : irr_inert_eq (p_fallow_irr par) (p_fallow_irr par');
  pe_field : field_inert_eq (p_field par) (p_field par');
  pe_fallow_field : field_inert_eq (p_fallow_field par) (p_fallow_field par');
  pe_crop : forall k, p_crop par k = p_crop par' k;
  pe_fallow_crop : p_fallow_crop par = p_fallow_crop par';
  pe_water_table : p_water_table par = p_water_table par';
  pe_co2c : forall k, p_co2c par k = p_co2c par' k;
  pe_co2r : p_co2r par = p_co2r par';
  pe_evap_steps : p_evap_steps par = p_evap_steps par';
  pe_sim_off : p_sim_off par = p_sim_off par' }.

Lemma irr_inert_eq_sym i i' : irr_inert_eq i i' -> irr_inert_eq i' i.
Proof. intros [H0 Hm H1 H2 H3 H4 H5 H6 H7 H8 H9]. constructor; rewrite <- ?Hm; intros; symmetry; auto. Qed.
Lemma field_inert_eq_sym f f' : field_inert_eq f f' -> field_inert_eq f' f.
Proof.
  intros [H0 H1 Hb Hc Hm H5 H6 H7 H8 H9]. constructor; rewrite <- ?Hb, <- ?Hc, <- ?Hm; intros; symmetry; auto.
  apply H6; [assumption|]. rewrite H5 by assumption. assumption.
Qed.
Lemma par_inert_eq_sym par par' : par_inert_eq par par' -> par_inert_eq par' par.
Proof.
  intros [H1 H2 H3 H4 H5 H6 H7 H8 H9 H10 H11 H12].
  constructor; auto using irr_inert_eq_sym, field_inert_eq_sym; intros; symmetry; auto.
Qed.
Lemma irr_inert_eq_refl i : irr_inert_eq i i. Proof. constructor; reflexivity. Qed.
Lemma field_inert_eq_refl f : field_inert_eq f f. Proof. constructor; reflexivity. Qed.
Lemma par_inert_eq_refl par : par_inert_eq par par.
Proof. constructor; auto using irr_inert_eq_refl, field_inert_eq_refl. Qed.

(* what one day reads of the parameter records: the selected crop, irrigation and field managements *)
Record sel_inert_eq (par par' : DPar R) (season : Z) (gs : bool) : Prop := {
  se_soil : p_soil par = p_soil par';
  se_crop : sel_crop par season = sel_crop par' season;
  se_irr : irr_inert_eq (sel_irr par season) (sel_irr par' season);
  se_field : field_inert_eq (sel_field par season gs) (sel_field par' season gs);
  se_water_table : p_water_table par = p_water_table par';
  se_co2c : p_co2c par season = p_co2c par' season;
  se_co2r : p_co2r par = p_co2r par';
  se_evap_steps : p_evap_steps par = p_evap_steps par';
  se_sim_off : p_sim_off par = p_sim_off par' }.

Lemma sel_of_par par par' season gs : par_inert_eq par par' -> sel_inert_eq par par' season gs.
Proof.
  intros HE. constructor; try apply HE.
  - unfold sel_crop. rewrite (pe_crop _ _ HE), (pe_fallow_crop _ _ HE). reflexivity.
  - unfold sel_irr. destruct (0 <=? season)%Z; apply HE.
  - unfold sel_field. destruct (0 <=? season)%Z; [destruct gs|]; apply HE.
Qed.

(* ================================================================================================================ *)
(*  process-level facts on the argument records                                                                       *)
(* ================================================================================================================ *)
Lemma c_ir_not_surface p a r : c_ir p a = Some r -> ~ surface (irA_method a) -> irR_irr r = 0.
Proof.
  unfold c_ir. destruct (RainIrr.irrigation _ _ _ _ _ _ _ _ _ _ _ _ _ _ _ _ _ _ _ _ _ _ _) as [[[[depl taw] cum] irr]|] eqn:E; [|discriminate].
  intros [= <-] S. cbn [irR_irr]. exact (irrigation_not_surface _ _ _ _ _ _ _ _ _ _ _ _ _ _ _ _ _ _ _ _ _ _ _ _ _ _ _ E S).
Qed.

Section Inert.
  Variables (par par' : DPar R) (crops : Z -> CropFull R) (season : Z) (gs : bool) (dap tsc : Z) (w : Day.W R) (s : DState R).
  Hypothesis HS : sel_inert_eq par par' season gs.
  Notation x := (mk_ctx par season gs dap tsc w s).
  Notation x' := (mk_ctx par' season gs dap tsc w s).
  Notation prof := (so_prof (p_soil par)).

  Lemma i_crop : sel_crop par season = sel_crop par' season. Proof. apply HS. Qed.
  Lemma i_irr : irr_inert_eq (sel_irr par season) (sel_irr par' season). Proof. apply HS. Qed.
  Lemma i_field : field_inert_eq (sel_field par season gs) (sel_field par' season gs). Proof. apply HS. Qed.
  Lemma i_m4 : (i_method (sel_irr par season) =? 4)%Z = (i_method (sel_irr par' season) =? 4)%Z.
  Proof. rewrite (ie_method _ _ i_irr). reflexivity. Qed.

  (* 3. pre-irrigation: method, and the net-irrigation threshold under method 4 only *)
  Lemma i_pi r_rd : c_pi prof (arg_pi x r_rd) = c_pi prof (arg_pi x' r_rd).
  Proof.
    unfold c_pi, arg_pi. cbn [piA_crop piA_dap piA_zroot piA_th piA_gs piA_irr]. xs.
    rewrite <- i_crop, <- (ie_method _ _ i_irr).
    destruct (Z.eq_dec (i_method (sel_irr par season)) 4) as [M|M].
    - rewrite <- (ie_NetIrrSMT _ _ i_irr M). reflexivity.
    - rewrite !RootsR.pre_irrigation_inert by (left; exact M). reflexivity.
  Qed.

  (* 5. rainfall partition: bund height without bunds; the percentage is already guarded by the orchestration *)
  Lemma i_rp r_dr : c_rp prof (arg_rp x r_dr) = c_rp prof (arg_rp x' r_dr).
  Proof.
    pose proof i_field as Hf.
    unfold c_rp, arg_rp. cbv zeta.
    cbn [rpA_rain rpA_th rpA_daysub rpA_srinhb rpA_bunds rpA_zbund rpA_pct rpA_cn rpA_adjcn rpA_zcn rpA_ncomp]. xs.
    rewrite <- (se_soil _ _ _ _ HS), <- (fe_sr_inhb _ _ Hf), <- (fe_bunds _ _ Hf), <- (fe_cn_adj _ _ Hf).
    assert (Ep : (if f_cn_adj (sel_field par season gs) then f_cn_adj_pct (sel_field par' season gs) else #0%num) =
                 (if f_cn_adj (sel_field par season gs) then f_cn_adj_pct (sel_field par season gs) else #0%num)).
    { destruct (f_cn_adj (sel_field par season gs)) eqn:Ec; [|reflexivity]. symmetry. apply (fe_cn_adj_pct _ _ Hf Ec). }
    rewrite Ep.
    destruct (f_bunds (sel_field par season gs)) eqn:Eb.
    - rewrite <- (fe_z_bund _ _ Hf Eb). reflexivity.
    - rewrite (rainfall_partition_bunds_off_inert _ _ _ _ (f_z_bund (sel_field par season gs)) (f_z_bund (sel_field par' season gs))).
      reflexivity.
  Qed.

  (* 6. irrigation *)
  Lemma i_ir r_rd r_dr r_rp : c_ir prof (arg_ir x r_rd r_dr r_rp) = c_ir prof (arg_ir x' r_rd r_dr r_rp).
  Proof.
    pose proof i_irr as Hi.
    unfold c_ir, arg_ir. cbv zeta.
    cbn [irA_method irA_smt irA_eff irA_maxirr irA_interval irA_sched irA_depth irA_maxseason irA_stage irA_irrcum irA_epot irA_tpot
         irA_zroot irA_th irA_dap irA_tsc irA_crop irA_ztop irA_gs irA_rain irA_runoff]. xs.
    rewrite <- i_crop, <- (se_soil _ _ _ _ HS), <- (ie_method _ _ Hi).
    rewrite (irrigation_inert (i_method (sel_irr par season)) (i_SMT (sel_irr par season)) (i_AppEff (sel_irr par season))
               (i_MaxIrr (sel_irr par season)) (i_IrrInterval (sel_irr par season)) (i_Schedule (sel_irr par season))
               (i_depth (sel_irr par season)) (i_MaxIrrSeason (sel_irr par season))
               (i_SMT (sel_irr par' season)) (i_AppEff (sel_irr par' season))
               (i_MaxIrr (sel_irr par' season)) (i_IrrInterval (sel_irr par' season)) (i_Schedule (sel_irr par' season))
               (i_depth (sel_irr par' season)) (i_MaxIrrSeason (sel_irr par' season))).
    - reflexivity.
    - apply Hi.
    - intros M. apply (ie_AppEff _ _ Hi). unfold surface. tauto.
    - apply Hi.
    - apply Hi.
    - apply Hi.
    - apply Hi.
    - apply Hi.
  Qed.

  (* 7. infiltration: application efficiency when nothing is applied, bund height without bunds *)
  Lemma i_inf r_gw r_rd r_dr r_rp r_ir : c_ir prof (arg_ir x r_rd r_dr r_rp) = Some r_ir ->
    c_inf prof (arg_inf x r_gw r_dr r_rp r_ir) = c_inf prof (arg_inf x' r_gw r_dr r_rp r_ir).
  Proof.
    intros E. pose proof i_irr as Hi. pose proof i_field as Hf.
    unfold c_inf, arg_inf. cbv zeta.
    cbn [infA_surf infA_fcadj infA_th infA_infl infA_irr infA_eff infA_bunds infA_zbund infA_flux infA_deepperc infA_runoff infA_gs]. xs.
    rewrite <- (fe_bunds _ _ Hf).
    assert (Ee : forall zb, Infiltration.infiltration prof (d_surface_storage s) (gwR_fcadj r_gw) (drR_th r_dr) (rpR_infl r_rp) (irR_irr r_ir)
                     (i_AppEff (sel_irr par' season)) (f_bunds (sel_field par season gs)) zb (drR_flux r_dr) (drR_deepperc r_dr) (rpR_runoff r_rp) gs =
                   Infiltration.infiltration prof (d_surface_storage s) (gwR_fcadj r_gw) (drR_th r_dr) (rpR_infl r_rp) (irR_irr r_ir)
                     (i_AppEff (sel_irr par season)) (f_bunds (sel_field par season gs)) zb (drR_flux r_dr) (drR_deepperc r_dr) (rpR_runoff r_rp) gs).
    { intros zb. destruct (surface_dec (i_method (sel_irr par season))) as [S|S].
      - rewrite <- (ie_AppEff _ _ Hi S). reflexivity.
      - apply infiltration_eff_inert'. right. apply (c_ir_not_surface _ _ _ E).
        unfold arg_ir. cbn [irA_method]. xs. exact S. }
    rewrite Ee.
    destruct (f_bunds (sel_field par season gs)) eqn:Eb.
    - rewrite <- (fe_z_bund _ _ Hf Eb). reflexivity.
    - rewrite (infiltration_bunds_off_inert _ _ _ _ _ _ _ (f_z_bund (sel_field par season gs)) (f_z_bund (sel_field par' season gs))).
      reflexivity.
  Qed.

  (* 12. soil evaporation: mulch settings without mulches, the wetted fraction when nothing is applied *)
  Lemma i_ev gdd r_rd r_dr r_rp r_ir r_inf r_cr r_ge r_cc : c_ir prof (arg_ir x r_rd r_dr r_rp) = Some r_ir ->
    c_ev prof (arg_ev x gdd r_ir r_inf r_cr r_ge r_cc) = c_ev prof (arg_ev x' gdd r_ir r_inf r_cr r_ge r_cc).
  Proof.
    intros E. pose proof i_irr as Hi. pose proof i_field as Hf.
    unfold c_ev.
    change (ev_state (arg_ev x' gdd r_ir r_inf r_cr r_ge r_cc)) with (ev_state (arg_ev x gdd r_ir r_inf r_cr r_ge r_cc)).
    change (evA_th (arg_ev x' gdd r_ir r_inf r_cr r_ge r_cc)) with (evA_th (arg_ev x gdd r_ir r_inf r_cr r_ge r_cc)).
    change (evA_et0 (arg_ev x' gdd r_ir r_inf r_cr r_ge r_cc)) with (evA_et0 (arg_ev x gdd r_ir r_inf r_cr r_ge r_cc)).
    change (evA_infl (arg_ev x' gdd r_ir r_inf r_cr r_ge r_cc)) with (evA_infl (arg_ev x gdd r_ir r_inf r_cr r_ge r_cc)).
    change (evA_rain (arg_ev x' gdd r_ir r_inf r_cr r_ge r_cc)) with (evA_rain (arg_ev x gdd r_ir r_inf r_cr r_ge r_cc)).
    change (evA_irr (arg_ev x' gdd r_ir r_inf r_cr r_ge r_cc)) with (irR_irr r_ir).
    change (evA_irr (arg_ev x gdd r_ir r_inf r_cr r_ge r_cc)) with (irR_irr r_ir).
    change (evA_gs (arg_ev x' gdd r_ir r_inf r_cr r_ge r_cc)) with (evA_gs (arg_ev x gdd r_ir r_inf r_cr r_ge r_cc)).
    match goal with |- match ?A with _ => _ end = match ?B with _ => _ end => assert (E' : A = B); [|rewrite E'; reflexivity] end.
    assert (Hirr : ~ surface (i_method (sel_irr par season)) -> irR_irr r_ir = 0).
    { intros S. apply (c_ir_not_surface _ _ _ E). unfold arg_ir. cbn [irA_method]. xs. exact S. }
    apply soil_evaporation_congr;
      unfold ev_par, arg_ev; cbv zeta;
      cbn [Evaporation.ep_steps Evaporation.ep_simoff Evaporation.ep_zmin Evaporation.ep_zmax Evaporation.ep_rew Evaporation.ep_kex
           Evaporation.ep_fwcc Evaporation.ep_fwrelexp Evaporation.ep_fevap Evaporation.ep_caltype Evaporation.ep_senescence
           evA_steps evA_simoff evA_zmin evA_zmax evA_rew evA_kex evA_fwcc evA_fwrelexp evA_fevap evA_caltype evA_senescence]; xs;
      rewrite <- ?i_crop, <- ?(se_soil _ _ _ _ HS); try reflexivity.
    - apply HS.
    - apply HS.
    - apply ev_rewet_irr_inert. cbn [Evaporation.ep_irrmethod evA_method].
      right. rewrite (ie_method _ _ Hi). reflexivity.
    - intros surf e. apply ev_espot_adj_inert;
        cbn [Evaporation.ep_mulches Evaporation.ep_fmulch Evaporation.ep_mulchpct Evaporation.ep_irrmethod Evaporation.ep_wetsurf
             evA_mulches evA_fmulch evA_mulchpct evA_method evA_wetsurf].
      + apply Hf.
      + intros M. split; [apply (fe_f_mulch _ _ Hf M) | apply (fe_mulch_pct _ _ Hf M)].
      + destruct (surface_dec (i_method (sel_irr par season))) as [S|S].
        * right. split; [rewrite (ie_method _ _ Hi); reflexivity | intros _; apply (ie_WetSurf _ _ Hi S)].
        * left. exact (Hirr S).
  Qed.

  (* 13. transpiration: method, and the net-irrigation threshold under method 4 only *)
  Lemma i_tr gdd r_rd r_rp r_ir r_ge r_cc r_ev :
    c_tr crops prof (arg_tr x gdd r_rd r_rp r_ir r_ge r_cc r_ev) = c_tr crops prof (arg_tr x' gdd r_rd r_rp r_ir r_ge r_cc r_ev).
  Proof.
    pose proof i_irr as Hi.
    unfold c_tr. cbv zeta.
    change (tr_state (arg_tr x' gdd r_rd r_rp r_ir r_ge r_cc r_ev)) with (tr_state (arg_tr x gdd r_rd r_rp r_ir r_ge r_cc r_ev)).
    unfold arg_tr at 1 2 3 4 5 6 7 8 9 10. unfold arg_tr at 2 3 4 5 6 7 8 9 10 11. cbv zeta.
    cbn [trA_ncomp trA_ztop trA_crop trA_method trA_smt trA_et0 trA_co2c trA_co2r trA_gs trA_gdd]. xs.
    rewrite <- i_crop, <- (se_soil _ _ _ _ HS), <- (ie_method _ _ Hi), <- (se_co2c _ _ _ _ HS), <- (se_co2r _ _ _ _ HS).
    destruct (Z.eq_dec (i_method (sel_irr par season)) 4) as [M|M].
    - rewrite <- (ie_NetIrrSMT _ _ Hi M). reflexivity.
    - rewrite (transpiration_smt_inert _ _ _ _ (i_NetIrrSMT (sel_irr par season)) (i_NetIrrSMT (sel_irr par' season)) _ _ _ _ _ _ M).
      reflexivity.
  Qed.

  Theorem day_inert_sel :
    day_proc_opt par (procs_concrete crops) season gs dap tsc w s = day_proc_opt par' (procs_concrete crops) season gs dap tsc w s.
  Proof.
    apply day_proc_opt_eq.
    - exact i_crop.
    - apply HS.
    - apply HS.
    - exact i_m4.
    - exact i_pi.
    - exact i_rp.
    - exact i_ir.
    - exact i_inf.
    - exact i_ev.
    - exact i_tr.
  Qed.
End Inert.

(* ================================================================================================================ *)
(*  2. the concrete day                                                                                                *)
(* ================================================================================================================ *)
Theorem day_inert_concrete par par' crops season gs dap tsc w s : par_inert_eq par par' ->
  day_proc_opt par (procs_concrete crops) season gs dap tsc w s = day_proc_opt par' (procs_concrete crops) season gs dap tsc w s.
Proof. intros HE. apply day_inert_sel. apply sel_of_par. exact HE. Qed.

(* ================================================================================================================ *)
(*  4. the concrete whole run                                                                                          *)
(* ================================================================================================================ *)
(* a defined concrete day is the day of Day.v with the totalised processes: equal option-days give equal total days *)
Lemma proc_c_of_opt par par' crops season gs dap tsc w s :
  day_proc_opt par (procs_concrete crops) season gs dap tsc w s = day_proc_opt par' (procs_concrete crops) season gs dap tsc w s ->
  defined_c par crops season gs dap tsc w s = true ->
  proc_c par' crops season gs dap tsc w s = proc_c par crops season gs dap tsc w s.
Proof.
  intros E. unfold defined_c, proc_c.
  destruct (day_proc_opt par _ _ _ _ _ _ _) as [[s1 row]|] eqn:E1; [|discriminate]. intros _.
  destruct (day_proc_opt_total _ _ _ _ _ _ _ _ _ _ E1) as [-> _].
  symmetry in E. destruct (day_proc_opt_total _ _ _ _ _ _ _ _ _ _ E) as [-> _]. reflexivity.
Qed.

Lemma matured_inert par par' season d s : sel_crop par season = sel_crop par' season -> matured par' season d s = matured par season d s.
Proof. intros H. unfold matured. rewrite H. reflexivity. Qed.

Lemma summary_inert par par' season g s : (i_method (sel_irr par season) =? 4)%Z = (i_method (sel_irr par' season) =? 4)%Z ->
  summary_of par' season g s = summary_of par season g s.
Proof. intros H. unfold summary_of. rewrite H. reflexivity. Qed.

Lemma nltb_true_lt (a b : R) : nltb num_ops a b = true -> a < b.
Proof. rnum. destruct (Rltb_spec a b); [auto|discriminate]. Qed.

(* the season reset reads the crop of the new season, sim_off_season, the number of compartments, and the bund
   parameters of the field management under its switch *)
Lemma reset_inert par par' k ws s : par_inert_eq par par' -> reset par' k ws s = reset par k ws s.
Proof.
  intros HE. pose proof (pe_field _ _ HE) as Hf.
  unfold reset. cbv zeta. rewrite <- (pe_crop _ _ HE), <- (pe_soil _ _ HE), <- (pe_sim_off _ _ HE), <- (fe_bunds _ _ Hf).
  destruct (f_bunds (p_field par)) eqn:Eb; [|cbn [andb]; reflexivity].
  rewrite <- (fe_z_bund _ _ Hf Eb). cbn [andb].
  destruct (nltb num_ops (1#/1000)%num (f_z_bund (p_field par))) eqn:Ez; [|reflexivity].
  rewrite <- (fe_bund_water _ _ Hf Eb (nltb_true_lt _ _ Ez)). reflexivity.
Qed.

Section RunInert.
  Variables (par par' : DPar R) (crops : Z -> CropFull R).
  Hypothesis HE : par_inert_eq par par'.

  Theorem run_inert_concrete c ws fuel m0 : run_till_c par crops c ws fuel m0 = run_till_c par' crops c ws fuel m0.
  Proof.
    unfold run_till_c. symmetry. apply run_till_g_ext.
    - intros. unfold defined_c. rewrite (day_inert_concrete par par') by exact HE. reflexivity.
    - intros. apply proc_c_of_opt; [apply day_inert_concrete; exact HE | assumption].
    - intros. apply matured_inert. apply (se_crop _ _ _ true (sel_of_par _ _ k true HE)).
    - intros. apply summary_inert. apply (i_m4 par par' k true (sel_of_par _ _ k true HE)).
    - intros. apply reset_inert. exact HE.
  Qed.

  Theorem run_steps_inert_concrete c ws k m0 : run_steps_c par crops c ws k m0 = run_steps_c par' crops c ws k m0.
  Proof.
    unfold run_steps_c. symmetry. apply run_steps_g_ext.
    - intros. unfold defined_c. rewrite (day_inert_concrete par par') by exact HE. reflexivity.
    - intros. apply proc_c_of_opt; [apply day_inert_concrete; exact HE | assumption].
    - intros. apply matured_inert. apply (se_crop _ _ _ true (sel_of_par _ _ k0 true HE)).
    - intros. apply summary_inert. apply (i_m4 par par' k0 true (sel_of_par _ _ k0 true HE)).
    - intros. apply reset_inert. exact HE.
  Qed.
End RunInert.

(* ---- initialisation: the initial state object does not read the differing places either ------------------------- *)
Lemma init_surface_inert f f' : field_inert_eq f f' -> InitState.init_surface f' = InitState.init_surface f.
Proof.
  intros Hf. unfold InitState.init_surface. rewrite <- (fe_bunds _ _ Hf).
  destruct (f_bunds f) eqn:Eb; [|reflexivity].
  rewrite <- (fe_z_bund _ _ Hf Eb). cbn [andb].
  destruct (nltb num_ops (1#/1000)%num (f_z_bund f)) eqn:Ez; [|reflexivity].
  rewrite <- (fe_bund_water _ _ Hf Eb (nltb_true_lt _ _ Ez)). reflexivity.
Qed.

Theorem init_state_inert par par' k zgw0 fcr th0 : par_inert_eq par par' ->
  InitState.init_state par k zgw0 fcr th0 = InitState.init_state par' k zgw0 fcr th0.
Proof.
  intros HE. unfold InitState.init_state. cbv zeta.
  rewrite <- (pe_soil _ _ HE), <- (pe_crop _ _ HE), <- (pe_water_table _ _ HE),
          (init_surface_inert _ _ (pe_field _ _ HE)), (init_surface_inert _ _ (pe_fallow_field _ _ HE)).
  reflexivity.
Qed.

(* run_model right after _initialize(): same initial state, same model, same run *)
Theorem run_from_init_inert par par' crops c ws k zgw0 fcr th0 fuel : par_inert_eq par par' ->
  match InitState.init_state par k zgw0 fcr th0 with
  | Some s0 => match init_c c s0 with Ok m0 => Some (run_till_c par crops c ws fuel m0) | Raise _ => None end
  | None => None
  end =
  match InitState.init_state par' k zgw0 fcr th0 with
  | Some s0 => match init_c c s0 with Ok m0 => Some (run_till_c par' crops c ws fuel m0) | Raise _ => None end
  | None => None
  end.
Proof.
  intros HE. rewrite <- (init_state_inert par par') by exact HE.
  destruct (InitState.init_state par k zgw0 fcr th0) as [s0|]; [|reflexivity].
  destruct (init_c c s0) as [m0|e]; [|reflexivity].
  rewrite (run_inert_concrete par par' crops HE). reflexivity.
Qed.

(* ================================================================================================================ *)
(*  5. the relation is not the identity: two different records it relates                                             *)
(* ================================================================================================================ *)
Module ExInert.
  Import DayP.Ex.
  (* rainfed, no bunds, no curve-number adjustment, no mulches: every parameter of those features at 0 ... *)
  Definition irrA : DIrr R :=
    {| i_id := 0; i_method := 0; i_SMT := [0; 0; 0; 0]; i_AppEff := 100; i_MaxIrr := 25; i_IrrInterval := 3; i_Schedule := [];
       i_depth := 0; i_MaxIrrSeason := 10000; i_NetIrrSMT := 80; i_WetSurf := 100 |}.
  Definition fieldA : DField R :=
    {| f_id := 0; f_sr_inhb := false; f_bunds := false; f_z_bund := 0; f_cn_adj := false; f_cn_adj_pct := 0; f_mulches := false;
       f_f_mulch := 0; f_mulch_pct := 0; f_bund_water := 0 |}.
  Definition parA : DPar R :=
    {| p_soil := soil0; p_irr := irrA; p_fallow_irr := irr0; p_field := fieldA; p_fallow_field := field0; p_crop := fun _ => crop0;
       p_fallow_crop := crop0; p_water_table := 0; p_co2c := fun _ => 400; p_co2r := 36941 / 100; p_evap_steps := 20; p_sim_off := false |}.
  (* ... and the same switches with every one of those parameters set to something else; the fallow irrigation management
     (method 4) with everything but its net-irrigation threshold changed *)
  Definition irrB : DIrr R :=
    {| i_id := 0; i_method := 0; i_SMT := [1]; i_AppEff := 3; i_MaxIrr := 7; i_IrrInterval := 0; i_Schedule := [5];
       i_depth := 9; i_MaxIrrSeason := 1; i_NetIrrSMT := 2; i_WetSurf := 11 |}.
  Definition irr4B : DIrr R :=
    {| i_id := 0; i_method := 4; i_SMT := []; i_AppEff := 3; i_MaxIrr := 7; i_IrrInterval := 0; i_Schedule := [5];
       i_depth := 9; i_MaxIrrSeason := 1; i_NetIrrSMT := 80; i_WetSurf := 11 |}.
  Definition fieldB : DField R :=
    {| f_id := 0; f_sr_inhb := false; f_bunds := false; f_z_bund := 3 / 10; f_cn_adj := false; f_cn_adj_pct := 30; f_mulches := false;
       f_f_mulch := 1 / 2; f_mulch_pct := 80; f_bund_water := 5 |}.
  Definition parB : DPar R :=
    {| p_soil := soil0; p_irr := irrB; p_fallow_irr := irr4B; p_field := fieldB; p_fallow_field := field0; p_crop := fun _ => crop0;
       p_fallow_crop := crop0; p_water_table := 0; p_co2c := fun _ => 400; p_co2r := 36941 / 100; p_evap_steps := 20; p_sim_off := false |}.

  Example inert_pair : par_inert_eq parA parB.
  Proof.
    constructor; try reflexivity.
    - constructor; cbn; try reflexivity; unfold surface; intros H; repeat (destruct H as [H|H]; try discriminate); discriminate.
    - constructor; cbn; try reflexivity; unfold surface; intros H; repeat (destruct H as [H|H]; try discriminate); discriminate.
    - constructor; cbn; try reflexivity; intros H; discriminate.
    - apply field_inert_eq_refl.
  Qed.
  Example inert_pair_differs : parA <> parB.
  Proof. intros H. apply (f_equal (fun p => f_z_bund (p_field p))) in H. cbn in H. lra. Qed.
  (* so the whole runs of the two configurations coincide, from any model state, for any clock and weather *)
  Example inert_pair_run crops c ws fuel m0 : run_till_c parA crops c ws fuel m0 = run_till_c parB crops c ws fuel m0.
  Proof. apply run_inert_concrete. exact inert_pair. Qed.
End ExInert.

Print Assumptions day_inert_concrete.
Print Assumptions run_inert_concrete.
Print Assumptions run_steps_inert_concrete.
Print Assumptions run_from_init_inert.
