(* InertRunS.v — the two simulation schemes behind C20 for the concrete day and the concrete whole run.

   Section DaySim: two parameter records [par], [par'] that agree on everything the orchestration hands to the 13 processes
     that see neither the irrigation nor the field management, and for which the six remaining processes (pre_irrigation,
     rainfall_partition, irrigation, infiltration, soil_evaporation, transpiration) return under [par'] what they returned
     under [par] (one direction, so that a configuration that may raise can be compared with one that does not).  Then a
     defined concrete day under [par] is defined under [par'] with the same new state and the same rows
     ([day_proc_opt_sim]).
   Section RunSim / RunExt: the run loop of Clock.v for two sets of components (day, maturity test, summary, reset,
     definedness): if they agree pointwise the guarded runs are equal ([run_till_g_ext], [run_steps_g_ext]); if the primed
     day simulates the unprimed one on the states of an invariant, every result of the unprimed run that is not [Stopped]
     is the result of the primed run ([run_till_g_sim], [run_steps_g_sim]). *)
From Coq Require Import List Bool ZArith Lia.
From AC Require Import Num RInst Params Kernels Clock Day DayConcrete.
From AC.proofs Require Import ProfR DayP DayConcreteP ClockP RunP.
From AC.proofs Require YieldR.
Import ListNotations.
Local Open Scope R_scope.

#[local] Existing Instance YieldR.RTrig.

Lemma opt_eq_of_imp {A} (o o' : option A) : (forall a, o = Some a -> o' = Some a) -> (forall a, o' = Some a -> o = Some a) -> o = o'.
Proof.
  intros H1 H2. destruct o as [a|].
  - symmetry. apply H1. reflexivity.
  - destruct o' as [a'|]; [|reflexivity]. apply H2. reflexivity.
Qed.

Ltac xs := unfold x_prof, gdd_cum_of; unfold x_crop, x_irr, x_field, x_soil, x_wt;
           cbn [mk_ctx x_par x_season x_gs x_dap x_tsc x_w x_s].

Section DaySim.
  Variables (par par' : DPar R) (crops : Z -> CropFull R) (season : Z) (gs : bool) (dap tsc : Z) (w : Day.W R) (s : DState R).
  Notation x := (mk_ctx par season gs dap tsc w s).
  Notation x' := (mk_ctx par' season gs dap tsc w s).
  Notation prof := (so_prof (p_soil par)).
  Notation PO := (procs_concrete crops).

  Hypothesis Hcrop : sel_crop par season = sel_crop par' season.
  Hypothesis Hsoil : p_soil par = p_soil par'.
  Hypothesis Hwt : p_water_table par = p_water_table par'.
  Hypothesis Hm4 : (i_method (sel_irr par season) =? 4)%Z = (i_method (sel_irr par' season) =? 4)%Z.
  Hypothesis Hpi : forall r_rd r, c_pi prof (arg_pi x r_rd) = Some r -> c_pi prof (arg_pi x' r_rd) = Some r.
  Hypothesis Hrp : forall r_dr r, c_rp prof (arg_rp x r_dr) = Some r -> c_rp prof (arg_rp x' r_dr) = Some r.
  Hypothesis Hir : forall r_rd r_dr r_rp r, c_ir prof (arg_ir x r_rd r_dr r_rp) = Some r -> c_ir prof (arg_ir x' r_rd r_dr r_rp) = Some r.
  Hypothesis Hinf : forall r_gw r_rd r_dr r_rp r_ir r, c_ir prof (arg_ir x r_rd r_dr r_rp) = Some r_ir ->
    c_inf prof (arg_inf x r_gw r_dr r_rp r_ir) = Some r -> c_inf prof (arg_inf x' r_gw r_dr r_rp r_ir) = Some r.
  Hypothesis Hev : forall gdd r_rd r_dr r_rp r_ir r_inf r_cr r_ge r_cc r, c_ir prof (arg_ir x r_rd r_dr r_rp) = Some r_ir ->
    c_ev prof (arg_ev x gdd r_ir r_inf r_cr r_ge r_cc) = Some r -> c_ev prof (arg_ev x' gdd r_ir r_inf r_cr r_ge r_cc) = Some r.
  Hypothesis Htr : forall gdd r_rd r_rp r_ir r_ge r_cc r_ev r,
    c_tr crops prof (arg_tr x gdd r_rd r_rp r_ir r_ge r_cc r_ev) = Some r -> c_tr crops prof (arg_tr x' gdd r_rd r_rp r_ir r_ge r_cc r_ev) = Some r.

  (* the arguments of the other processes are the same *)
  Lemma e_prof : x_prof x' = prof. Proof. xs. rewrite <- Hsoil. reflexivity. Qed.
  Lemma e_gd : arg_gd x' = arg_gd x. Proof. unfold arg_gd. xs. rewrite <- Hcrop. reflexivity. Qed.
  Lemma e_gw : arg_gw x' = arg_gw x. Proof. unfold arg_gw. xs. rewrite <- Hwt. reflexivity. Qed.
  Lemma e_rd gdd r : arg_rd x' gdd r = arg_rd x gdd r. Proof. unfold arg_rd. xs. rewrite <- Hcrop, <- Hwt. reflexivity. Qed.
  Lemma e_cr r1 r2 : arg_cr x' r1 r2 = arg_cr x r1 r2. Proof. unfold arg_cr. xs. rewrite <- Hsoil, <- Hwt. reflexivity. Qed.
  Lemma e_ge gdd r : arg_ge x' gdd r = arg_ge x gdd r. Proof. unfold arg_ge. xs. rewrite <- Hsoil, <- Hcrop. reflexivity. Qed.
  Lemma e_gst gdd r : arg_gst x' gdd r = arg_gst x gdd r. Proof. unfold arg_gst. xs. rewrite <- Hcrop. reflexivity. Qed.
  Lemma e_cc gdd r1 r2 r3 : arg_cc x' gdd r1 r2 r3 = arg_cc x gdd r1 r2 r3. Proof. unfold arg_cc. xs. rewrite <- Hsoil, <- Hcrop. reflexivity. Qed.
  Lemma e_hr r1 r2 r3 : arg_hr x' r1 r2 r3 = arg_hr x r1 r2 r3. Proof. unfold arg_hr. xs. rewrite <- Hcrop. reflexivity. Qed.
  Lemma e_bm r1 r2 r3 : arg_bm x' r1 r2 r3 = arg_bm x r1 r2 r3. Proof. unfold arg_bm. xs. rewrite <- Hcrop. reflexivity. Qed.
  Lemma e_hi r1 r2 r3 r4 r5 r6 r7 : arg_hi x' r1 r2 r3 r4 r5 r6 r7 = arg_hi x r1 r2 r3 r4 r5 r6 r7.
  Proof. unfold arg_hi. xs. rewrite <- Hsoil, <- Hcrop. reflexivity. Qed.
  Lemma e_rz r1 r2 : arg_rz x' r1 r2 = arg_rz x r1 r2. Proof. unfold arg_rz. xs. rewrite <- Hsoil, <- Hcrop. reflexivity. Qed.

  Lemma results_opt_sim Rs : results_opt x PO = Some Rs -> results_opt x' PO = Some Rs.
  Proof.
    unfold results_opt. cbv zeta. unfold obind.
    cbn [procs_concrete po_gd po_gw po_rd po_pi po_dr po_rp po_ir po_inf po_cr po_ge po_gst po_cc po_ev po_tr po_gi po_hr po_bm po_hi po_rz].
    rewrite e_prof. change (x_prof x) with prof. change (x_gs x') with gs. change (x_gs x) with gs. rewrite e_gd.
    destruct (if gs then _ else _) as [gdd|]; [|discriminate].
    rewrite e_gw. destruct (c_gw prof (arg_gw x)) as [r_gw|]; [|discriminate].
    rewrite e_rd. destruct (c_rd crops prof (arg_rd x gdd r_gw)) as [r_rd|]; [|discriminate].
    destruct (c_pi prof (arg_pi x r_rd)) as [r_pi|] eqn:E3; [|discriminate]. rewrite (Hpi _ _ E3).
    change (arg_dr x' r_gw r_pi) with (arg_dr x r_gw r_pi).
    destruct (c_dr prof (arg_dr x r_gw r_pi)) as [r_dr|]; [|discriminate].
    destruct (c_rp prof (arg_rp x r_dr)) as [r_rp|] eqn:E5; [|discriminate]. rewrite (Hrp _ _ E5).
    destruct (c_ir prof (arg_ir x r_rd r_dr r_rp)) as [r_ir|] eqn:E6; [|discriminate]. rewrite (Hir _ _ _ _ E6).
    destruct (c_inf prof (arg_inf x r_gw r_dr r_rp r_ir)) as [r_inf|] eqn:E7; [|discriminate]. rewrite (Hinf _ _ _ _ _ _ E6 E7).
    rewrite e_cr. destruct (c_cr prof (arg_cr x r_gw r_inf)) as [r_cr|]; [|discriminate].
    rewrite e_ge. destruct (c_ge prof (arg_ge x gdd r_cr)) as [r_ge|]; [|discriminate].
    rewrite e_gst. destruct (c_gst crops (arg_gst x gdd r_ge)) as [r_gst|]; [|discriminate].
    rewrite e_cc. destruct (c_cc crops prof (arg_cc x gdd r_rd r_cr r_ge)) as [r_cc|]; [|discriminate].
    destruct (c_ev prof (arg_ev x gdd r_ir r_inf r_cr r_ge r_cc)) as [r_ev|] eqn:E12; [|discriminate].
    rewrite (Hev _ _ _ _ _ _ _ _ _ _ E6 E12).
    destruct (c_tr crops prof (arg_tr x gdd r_rd r_rp r_ir r_ge r_cc r_ev)) as [r_tr|] eqn:E13; [|discriminate].
    rewrite (Htr _ _ _ _ _ _ _ _ E13).
    change (arg_gi x' r_gw r_tr) with (arg_gi x r_gw r_tr).
    destruct (c_gi prof (arg_gi x r_gw r_tr)) as [r_gi|]; [|discriminate].
    rewrite e_hr. destruct (c_hr crops (arg_hr x r_ge r_cc r_tr)) as [r_hr|]; [|discriminate].
    rewrite e_bm. destruct (c_bm crops (arg_bm x r_ge r_tr r_hr)) as [r_bm|]; [|discriminate].
    rewrite e_hi. destruct (c_hi crops prof (arg_hi x r_rd r_ge r_cc r_tr r_gi r_hr r_bm)) as [r_hi|]; [|discriminate].
    rewrite e_rz. destruct (c_rz prof (arg_rz x r_rd r_gi)) as [r_rz|]; [|discriminate].
    intros H. exact H.
  Qed.

  (* state and rows do not read what differs *)
  Lemma state_of_sim Rs : state_of x' Rs = state_of x Rs.
  Proof. unfold state_of, dry_of, fresh_of, ypot_of. xs. rewrite <- Hcrop. reflexivity. Qed.
  Lemma row_of_sim Rs : row_of x' Rs = row_of x Rs.
  Proof. unfold row_of, irrday_of, dry_of, fresh_of, ypot_of, irrnet_of. xs. rewrite <- Hcrop, <- Hm4. reflexivity. Qed.

  Theorem day_proc_opt_sim r : day_proc_opt par PO season gs dap tsc w s = Some r -> day_proc_opt par' PO season gs dap tsc w s = Some r.
  Proof.
    unfold day_proc_opt, day_core_opt. cbv zeta.
    destruct (results_opt x PO) as [Rs|] eqn:E; [|discriminate].
    rewrite (results_opt_sim _ E). cbn [day_out o_state o_row]. rewrite state_of_sim, row_of_sim. intros H. exact H.
  Qed.
End DaySim.

(* the symmetric form: the six processes return the same under both records, hence the days are equal *)
Section DayEq.
  Variables (par par' : DPar R) (crops : Z -> CropFull R) (season : Z) (gs : bool) (dap tsc : Z) (w : Day.W R) (s : DState R).
  Notation x := (mk_ctx par season gs dap tsc w s).
  Notation x' := (mk_ctx par' season gs dap tsc w s).
  Notation prof := (so_prof (p_soil par)).
  Notation PO := (procs_concrete crops).

  Hypothesis Hcrop : sel_crop par season = sel_crop par' season.
  Hypothesis Hsoil : p_soil par = p_soil par'.
  Hypothesis Hwt : p_water_table par = p_water_table par'.
  Hypothesis Hm4 : (i_method (sel_irr par season) =? 4)%Z = (i_method (sel_irr par' season) =? 4)%Z.
  Hypothesis Hpi : forall r_rd, c_pi prof (arg_pi x r_rd) = c_pi prof (arg_pi x' r_rd).
  Hypothesis Hrp : forall r_dr, c_rp prof (arg_rp x r_dr) = c_rp prof (arg_rp x' r_dr).
  Hypothesis Hir : forall r_rd r_dr r_rp, c_ir prof (arg_ir x r_rd r_dr r_rp) = c_ir prof (arg_ir x' r_rd r_dr r_rp).
  Hypothesis Hinf : forall r_gw r_rd r_dr r_rp r_ir, c_ir prof (arg_ir x r_rd r_dr r_rp) = Some r_ir ->
    c_inf prof (arg_inf x r_gw r_dr r_rp r_ir) = c_inf prof (arg_inf x' r_gw r_dr r_rp r_ir).
  Hypothesis Hev : forall gdd r_rd r_dr r_rp r_ir r_inf r_cr r_ge r_cc, c_ir prof (arg_ir x r_rd r_dr r_rp) = Some r_ir ->
    c_ev prof (arg_ev x gdd r_ir r_inf r_cr r_ge r_cc) = c_ev prof (arg_ev x' gdd r_ir r_inf r_cr r_ge r_cc).
  Hypothesis Htr : forall gdd r_rd r_rp r_ir r_ge r_cc r_ev,
    c_tr crops prof (arg_tr x gdd r_rd r_rp r_ir r_ge r_cc r_ev) = c_tr crops prof (arg_tr x' gdd r_rd r_rp r_ir r_ge r_cc r_ev).

  Theorem day_proc_opt_eq : day_proc_opt par PO season gs dap tsc w s = day_proc_opt par' PO season gs dap tsc w s.
  Proof.
    apply opt_eq_of_imp; intros r.
    - apply day_proc_opt_sim; auto.
      + intros r_rd r0. rewrite Hpi. auto.
      + intros r_dr r0. rewrite Hrp. auto.
      + intros r_rd r_dr r_rp r0. rewrite Hir. auto.
      + intros r_gw r_rd r_dr r_rp r_ir r0 E. rewrite (Hinf r_gw r_rd r_dr r_rp r_ir E). auto.
      + intros gdd r_rd r_dr r_rp r_ir r_inf r_cr r_ge r_cc r0 E. rewrite (Hev gdd r_rd r_dr r_rp r_ir r_inf r_cr r_ge r_cc E). auto.
      + intros gdd r_rd r_rp r_ir r_ge r_cc r_ev r0. rewrite Htr. auto.
    - apply day_proc_opt_sim; auto; rewrite <- ?Hsoil.
      + intros r_rd r0. rewrite <- Hpi. auto.
      + intros r_dr r0. rewrite <- Hrp. auto.
      + intros r_rd r_dr r_rp r0. rewrite <- Hir. auto.
      + intros r_gw r_rd r_dr r_rp r_ir r0 E. rewrite <- Hir in E. rewrite <- (Hinf r_gw r_rd r_dr r_rp r_ir E). auto.
      + intros gdd r_rd r_dr r_rp r_ir r_inf r_cr r_ge r_cc r0 E. rewrite <- Hir in E.
        rewrite <- (Hev gdd r_rd r_dr r_rp r_ir r_inf r_cr r_ge r_cc E). auto.
      + intros gdd r_rd r_rp r_ir r_ge r_cc r_ev r0. rewrite <- Htr. auto.
  Qed.
End DayEq.

(* ================================================================================================================ *)
(*  the run loop                                                                                                      *)
(* ================================================================================================================ *)
Section RunSim.
  Variables Phys W Row Out : Type.
  Variables (proc proc' : Z -> bool -> Z -> Z -> W -> Phys -> Phys * Row) (dead : Phys -> bool).
  Variables (matured matured' : Z -> Z -> Phys -> bool) (summary_of summary_of' : Z -> bool -> Phys -> Out).
  Variables (reset reset' : Z -> list W -> Phys -> Phys) (defined defined' : Z -> bool -> Z -> Z -> W -> Phys -> bool).
  Variable I : Phys -> Prop.
  Variables (c : ClockP) (ws : list W).

  Notation perform := (Clock.perform Phys W Row Out proc dead matured summary_of reset).
  Notation perform' := (Clock.perform Phys W Row Out proc' dead matured' summary_of' reset').
  Notation perform_g := (Clock.perform_g Phys W Row Out proc dead matured summary_of reset defined).
  Notation perform_g' := (Clock.perform_g Phys W Row Out proc' dead matured' summary_of' reset' defined').
  Notation run_steps_g := (Clock.run_steps_g Phys W Row Out proc dead matured summary_of reset defined).
  Notation run_steps_g' := (Clock.run_steps_g Phys W Row Out proc' dead matured' summary_of' reset' defined').
  Notation run_till_g := (Clock.run_till_g Phys W Row Out proc dead matured summary_of reset defined).
  Notation run_till_g' := (Clock.run_till_g Phys W Row Out proc' dead matured' summary_of' reset' defined').
  Notation in_season := (Clock.in_season Phys dead).

  (* the primed day simulates the unprimed one on the states of the invariant, on the steps that have weather *)
  Hypothesis Hstep : forall season gs dap tsc w s, I s -> nthW W ws tsc = Some w -> defined season gs dap tsc w s = true ->
    defined' season gs dap tsc w s = true /\ proc' season gs dap tsc w s = proc season gs dap tsc w s /\
    I (fst (proc season gs dap tsc w s)).
  Hypothesis Hmat : forall k d s, matured' k d s = matured k d s.
  Hypothesis Hsum : forall k g s, summary_of' k g s = summary_of k g s.
  Hypothesis Hreset : forall k s, I s -> reset' k ws s = reset k ws s /\ I (reset k ws s).

  Lemma update_time_sim (s : St Phys) : I (phys s) -> update_time Phys W reset' c ws s = update_time Phys W reset c ws s.
  Proof.
    intros Hi. unfold update_time.
    repeat match goal with
           | |- context [if ?b then _ else _] => destruct b
           | |- context [match nthZ ?l ?k with _ => _ end] => destruct (nthZ l k)
           end; try reflexivity; unfold start_season; cbn [phys]; rewrite (proj1 (Hreset _ _ Hi)); reflexivity.
  Qed.

  Lemma perform_sim m w : I (phys (st m)) -> nthW W ws (tsc (st m)) = Some w -> day_defined Phys W dead defined c w (st m) = true ->
    day_defined Phys W dead defined' c w (st m) = true /\ perform' c ws m = perform c ws m /\
    (forall m', perform c ws m = Ok m' -> I (phys (st m'))).
  Proof.
    intros Hi Ew Hd. unfold day_defined in *.
    destruct (Hstep _ _ _ _ _ _ Hi Ew Hd) as (Hd' & Hp & Hpost).
    split; [exact Hd'|]. split.
    - unfold Clock.perform. rewrite Ew. unfold day_step. cbv zeta. rewrite Hp.
      destruct (proc _ _ _ _ _ _) as [ph row]. cbn [fst] in Hpost. rewrite Hmat, Hsum.
      cbn [phys tsc season Clock.dap mature hflag fin].
      match goal with |- match update_time _ _ _ _ _ ?s2 with _ => _ end = _ => rewrite (update_time_sim s2) by exact Hpost end.
      reflexivity.
    - intros m' Hm'. destruct (perform_event Phys W Row Out proc dead matured summary_of reset c ws m m' w Ew Hm') as [_ Hc].
      cbv zeta in Hc. unfold event_of in Hc. cbn [e_post] in Hc.
      destruct Hc as [-> | ->]; [exact Hpost | apply (Hreset _ _ Hpost)].
  Qed.

  Lemma perform_g_sim m : I (phys (st m)) ->
    (forall m', perform_g c ws m = GOk m' -> perform_g' c ws m = GOk m' /\ I (phys (st m'))) /\
    (forall e, perform_g c ws m = GRaise e -> perform_g' c ws m = GRaise e).
  Proof.
    intros Hi. unfold Clock.perform_g. destruct (nthW W ws (tsc (st m))) as [w|] eqn:Ew.
    2:{ split; [discriminate | intros e H; exact H]. }
    destruct (day_defined Phys W dead defined c w (st m)) eqn:Ed.
    2:{ split; discriminate. }
    destruct (perform_sim m w Hi Ew Ed) as (-> & -> & Hpost).
    destruct (perform c ws m) as [m1|e1]; split; try discriminate.
    - intros m' [= <-]. split; [reflexivity | apply Hpost; reflexivity].
    - intros e H. exact H.
  Qed.

  Definition not_stopped {A} (r : gres A) : Prop := match r with Stopped _ => False | _ => True end.

  Theorem run_till_g_sim fuel : forall m r, I (phys (st m)) -> run_till_g c ws fuel m = Some r -> not_stopped r ->
    run_till_g' c ws fuel m = Some r.
  Proof.
    induction fuel as [|fuel IH]; intros m r Hi; cbn [Clock.run_till_g]; destruct (fin (st m)); try discriminate;
      try (intros H _; exact H).
    destruct (perform_g_sim m Hi) as [H1 H2].
    destruct (perform_g c ws m) as [m1|e|t].
    - destruct (H1 m1 eq_refl) as [-> Hi1]. apply IH. exact Hi1.
    - rewrite (H2 e eq_refl). intros H _. exact H.
    - intros [= <-] [].
  Qed.

  Theorem run_steps_g_sim k : forall m r, I (phys (st m)) -> run_steps_g c ws k m = r -> not_stopped r ->
    run_steps_g' c ws k m = r.
  Proof.
    induction k as [|k IH]; intros m r Hi; cbn [Clock.run_steps_g]; [intros H _; exact H|].
    destruct (perform_g_sim m Hi) as [H1 H2].
    destruct (perform_g c ws m) as [m1|e|t].
    - destruct (H1 m1 eq_refl) as [-> Hi1]. destruct (fin (st m1)); [intros H _; exact H|]. apply IH. exact Hi1.
    - rewrite (H2 e eq_refl). intros H _. exact H.
    - intros <- [].
  Qed.
End RunSim.

Section RunExt.
  Variables Phys W Row Out : Type.
  Variables (proc proc' : Z -> bool -> Z -> Z -> W -> Phys -> Phys * Row) (dead : Phys -> bool).
  Variables (matured matured' : Z -> Z -> Phys -> bool) (summary_of summary_of' : Z -> bool -> Phys -> Out).
  Variables (reset reset' : Z -> list W -> Phys -> Phys) (defined defined' : Z -> bool -> Z -> Z -> W -> Phys -> bool).

  Hypothesis Hdef : forall season gs dap tsc w s, defined' season gs dap tsc w s = defined season gs dap tsc w s.
  Hypothesis Hproc : forall season gs dap tsc w s, defined season gs dap tsc w s = true ->
    proc' season gs dap tsc w s = proc season gs dap tsc w s.
  Hypothesis Hmat : forall k d s, matured' k d s = matured k d s.
  Hypothesis Hsum : forall k g s, summary_of' k g s = summary_of k g s.
  Hypothesis Hreset : forall k ws s, reset' k ws s = reset k ws s.

  Lemma perform_g_ext c ws m :
    perform_g Phys W Row Out proc' dead matured' summary_of' reset' defined' c ws m =
    perform_g Phys W Row Out proc dead matured summary_of reset defined c ws m.
  Proof.
    unfold perform_g. destruct (nthW W ws (tsc (st m))) as [w|] eqn:Ew; [|reflexivity].
    unfold day_defined. rewrite Hdef. destruct (defined _ _ _ _ _ _) eqn:Ed; [|reflexivity].
    assert (E : perform Phys W Row Out proc' dead matured' summary_of' reset' c ws m =
                perform Phys W Row Out proc dead matured summary_of reset c ws m).
    { unfold perform. rewrite Ew. unfold day_step. cbv zeta. rewrite (Hproc _ _ _ _ _ _ Ed).
      destruct (proc _ _ _ _ _ _) as [ph row]. rewrite Hmat, Hsum.
      match goal with |- match ?u' with _ => _ end = match ?u with _ => _ end => assert (Eu : u' = u) end.
      { unfold update_time.
        repeat match goal with
               | |- context [if ?b then _ else _] => destruct b
               | |- context [match nthZ ?l ?k with _ => _ end] => destruct (nthZ l k)
               end; try reflexivity; unfold start_season; rewrite Hreset; reflexivity. }
      rewrite Eu. reflexivity. }
    rewrite E. reflexivity.
  Qed.

  Theorem run_till_g_ext c ws fuel : forall m,
    run_till_g Phys W Row Out proc' dead matured' summary_of' reset' defined' c ws fuel m =
    run_till_g Phys W Row Out proc dead matured summary_of reset defined c ws fuel m.
  Proof.
    induction fuel as [|fuel IH]; intros m; cbn [run_till_g]; [reflexivity|].
    rewrite perform_g_ext. destruct (fin (st m)); [reflexivity|].
    destruct (perform_g _ _ _ _ _ _ _ _ _ _ _ _ _) as [m1|e|t]; [apply IH|reflexivity|reflexivity].
  Qed.

  Theorem run_steps_g_ext c ws k : forall m,
    run_steps_g Phys W Row Out proc' dead matured' summary_of' reset' defined' c ws k m =
    run_steps_g Phys W Row Out proc dead matured summary_of reset defined c ws k m.
  Proof.
    induction k as [|k IH]; intros m; cbn [run_steps_g]; [reflexivity|].
    rewrite perform_g_ext.
    destruct (perform_g _ _ _ _ _ _ _ _ _ _ _ _ _) as [m1|e|t]; [|reflexivity|reflexivity].
    destruct (fin (st m1)); [reflexivity|apply IH].
  Qed.
End RunExt.
