(* InertRunU.v — C20, unit level, the extra two-configuration equalities the concrete day needs beyond InertR.v /
   EvaporationR.v / RootsR.v: the WHOLE irrigation process (not only irr_method), soil evaporation with respect to the
   wetted fraction and the irrigation method when nothing is applied, transpiration with respect to the net-irrigation
   threshold and to the method among the methods other than 4.  Real instance. *)
From Coq Require Import List Bool ZArith.
From AC Require Import Num RInst Params Kernels.
From AC.Water Require Import RootZone RainIrr Infiltration Evaporation Transpiration.
From AC.Crop Require Import Roots.
From AC.proofs Require Import ProfR InertR.
Import ListNotations.
Local Open Scope R_scope.

(* ---- small facts on Python min / max -------------------------------------------------------------------------- *)
(* literals are written as the model writes them ([#0]) so that the lemmas rewrite model terms *)
Lemma pmax00 : pmax (F:=R) (#0)%num (#0)%num = (#0)%num.
Proof. unfold pmax. rnum. destruct (Rltb_spec 0 0); lra. Qed.
Lemma pmax0_nonpos v : v <= 0 -> pmax (F:=R) (#0)%num v = (#0)%num.
Proof. intros H. unfold pmax. rnum. destruct (Rltb_spec 0 v); lra. Qed.
Lemma pmax0_nonneg v : 0 <= pmax (F:=R) (#0)%num v.
Proof. unfold pmax. rnum. destruct (Rltb_spec 0 v); lra. Qed.
Lemma pmin_le_l a b : pmin (F:=R) a b <= a.
Proof. unfold pmin. rnum. destruct (Rltb_spec b a); lra. Qed.
Lemma pmin_le_r a b : pmin (F:=R) a b <= b.
Proof. unfold pmin. rnum. destruct (Rltb_spec b a); lra. Qed.

(* the surface strategies: the ones that can apply water through `Irr` *)
Definition surface (m : Z) : Prop := m = 1%Z \/ m = 2%Z \/ m = 3%Z \/ m = 5%Z.
Lemma surface_dec m : {surface m} + {~ surface m}.
Proof.
  unfold surface.
  destruct (Z.eq_dec m 1); [left; tauto|]. destruct (Z.eq_dec m 2); [left; tauto|].
  destruct (Z.eq_dec m 3); [left; tauto|]. destruct (Z.eq_dec m 5); [left; tauto|]. right; tauto.
Qed.

(* ---- irrigation ------------------------------------------------------------------------------------------------- *)
(* nothing requested: nothing applied, the seasonal counter is unchanged — whatever the seasonal maximum *)
Lemma irr_season_0 ms cum : irr_season (F:=R) ms cum (#0)%num = (cum, (#0)%num).
Proof.
  unfold irr_season. cbv zeta.
  assert (E : (cum + #0)%num = cum) by (rnum; lra). rewrite E.
  destruct (ms <? cum)%num eqn:Hlt.
  - rewrite pmax0_nonpos; [rewrite E; reflexivity|]. rnum. destruct (Rltb_spec ms cum); [lra|discriminate].
  - rewrite E. reflexivity.
Qed.

(* a method that is none of 0..5 raises in the season *)
Lemma irr_method_invalid m smt eff maxirr interval sched depth stage dap tsc depl taw :
  m <> 0%Z -> ~ surface m -> m <> 4%Z ->
  irr_method (F:=R) m smt eff maxirr interval sched depth stage dap tsc depl taw = None.
Proof.
  unfold surface. intros H0 Hs H4. unfold irr_method.
  destruct (Z.eqb_spec m 0); [contradiction|]. destruct (Z.eqb_spec m 1); [tauto|]. destruct (Z.eqb_spec m 2); [tauto|].
  destruct (Z.eqb_spec m 3); [tauto|]. destruct (Z.eqb_spec m 4); [contradiction|]. destruct (Z.eqb_spec m 5); [tauto|]. reflexivity.
Qed.

(* the parameters the selected strategy does not read — for the whole process, including the seasonal cap *)
Theorem irrigation_inert m smt eff maxirr interval sched depth ms smt' eff' maxirr' interval' sched' depth' ms'
        stage cum epot tpot zroot th dap tsc zmin aer p ztop gs rain runoff :
  (m = 1%Z -> smt = smt') -> (m = 1%Z \/ m = 2%Z -> eff = eff') -> (surface m -> maxirr = maxirr') ->
  (m = 2%Z -> interval = interval') -> (m = 3%Z -> sched = sched') -> (m = 5%Z -> depth = depth') ->
  (surface m -> ms = ms') ->
  irrigation (F:=R) m smt eff maxirr interval sched depth ms stage cum epot tpot zroot th dap tsc zmin aer p ztop gs rain runoff =
  irrigation m smt' eff' maxirr' interval' sched' depth' ms' stage cum epot tpot zroot th dap tsc zmin aer p ztop gs rain runoff.
Proof.
  intros Hsmt Heff Hmax Hint Hsch Hdep Hms. unfold irrigation. destruct gs.
  2:{ rewrite !irr_season_0. reflexivity. }
  destruct (irr_depletion _ _ _ _ _ _ _ _ _ _) as [[depl taw]|]; [|reflexivity].
  set (stage' := if (dap =? 1)%Z then 1%Z else stage).
  destruct (surface_dec m) as [S|S].
  - rewrite <- (Hms S), <- (Hmax S).
    destruct S as [-> | [-> | [-> | ->]]].
    + rewrite <- Hsmt, <- Heff by tauto. reflexivity.
    + rewrite <- Hint, <- Heff by tauto. reflexivity.
    + rewrite <- Hsch by tauto. reflexivity.
    + rewrite <- Hdep by tauto. reflexivity.
  - destruct (Z.eq_dec m 0) as [->|N0].
    { cbn [irr_method Z.eqb]. rewrite pmax00, !irr_season_0. reflexivity. }
    destruct (Z.eq_dec m 4) as [->|N4].
    { cbn [irr_method Z.eqb Pos.eqb]. rewrite pmax00, !irr_season_0. reflexivity. }
    rewrite !irr_method_invalid by assumption. reflexivity.
Qed.

(* a strategy that is not a surface strategy applies nothing and leaves the counter alone *)
Lemma irrigation_not_surface m smt eff maxirr interval sched depth ms stage cum epot tpot zroot th dap tsc zmin aer p ztop gs rain runoff
      depl taw cum' irr :
  irrigation (F:=R) m smt eff maxirr interval sched depth ms stage cum epot tpot zroot th dap tsc zmin aer p ztop gs rain runoff
  = Some (depl, taw, cum', irr) ->
  ~ surface m -> irr = 0.
Proof.
  unfold irrigation. destruct gs.
  2:{ rewrite irr_season_0. cbn [fst snd]. intros [= _ _ _ <-] _. reflexivity. }
  destruct (irr_depletion _ _ _ _ _ _ _ _ _ _) as [[d t]|]; [|discriminate].
  intros H S. destruct (Z.eq_dec m 0) as [->|N0].
  { cbn [irr_method Z.eqb] in H. rewrite pmax00, irr_season_0 in H. cbn [fst snd] in H. inversion H. reflexivity. }
  destruct (Z.eq_dec m 4) as [->|N4].
  { cbn [irr_method Z.eqb Pos.eqb] in H. rewrite pmax00, irr_season_0 in H. cbn [fst snd] in H. inversion H. reflexivity. }
  rewrite irr_method_invalid in H by assumption. discriminate.
Qed.

(* the request of a strategy at a neutral setting is 0 after `Irr = max(0, Irr)` — no side condition on the other
   parameters (stronger than InertR.irr_method_neutral: min(0, x) <= 0 and min(x, 0) <= 0 whatever x) *)
Theorem irr_method_neutral' m smt eff maxirr interval sched depth stage dap tsc depl taw v :
  irr_method (F:=R) m smt eff maxirr interval sched depth stage dap tsc depl taw = Some v ->
  (m = 5%Z /\ depth = 0) \/ maxirr = 0 \/ (m = 3%Z /\ py_index sched tsc = Some 0) ->
  pmax (F:=R) (#0)%num v = (#0)%num.
Proof.
  intros Hm Hc. unfold irr_method in Hm.
  destruct Hc as [(-> & Hd) | [Hx | (-> & Hs)]].
  - cbn in Hm. injection Hm as <-. apply pmax0_nonpos. pose proof (pmin_le_r maxirr depth). lra.
  - destruct (Z.eqb_spec m 0); [injection Hm as <-; exact pmax00|].
    destruct (Z.eqb_spec m 1).
    { destruct (py_index smt (stage - 1)) as [s|]; [|discriminate].
      destruct (nltb _ _ _); injection Hm as <-; [|exact pmax00]. apply pmax0_nonpos. unfold irr_request. match goal with |- pmin ?a ?b <= _ => pose proof (pmin_le_l a b); lra end. }
    destruct (Z.eqb_spec m 2).
    { destruct (Z.eqb_spec interval 0); [discriminate|].
      destruct (Z.eqb_spec ((dap - 1) mod interval) 0); injection Hm as <-; [|exact pmax00].
      apply pmax0_nonpos. unfold irr_request. match goal with |- pmin ?a ?b <= _ => pose proof (pmin_le_l a b); lra end. }
    destruct (Z.eqb_spec m 3).
    { destruct (py_index sched tsc) as [w|]; [|discriminate]. destruct (nleb _ _ _); [|discriminate].
      injection Hm as <-. apply pmax0_nonpos. match goal with |- pmin ?a ?b <= _ => pose proof (pmin_le_l a b); lra end. }
    destruct (Z.eqb_spec m 4); [injection Hm as <-; exact pmax00|].
    destruct (Z.eqb_spec m 5); [|discriminate].
    injection Hm as <-. apply pmax0_nonpos. match goal with |- pmin ?a ?b <= _ => pose proof (pmin_le_l a b); lra end.
  - cbn in Hm. rewrite Hs in Hm. destruct (Rleb 0 0); [|discriminate]. injection Hm as <-.
    apply pmax0_nonpos. match goal with |- pmin ?a ?b <= _ => pose proof (pmin_le_r a b); lra end.
Qed.

(* seasonal maximum 0 with a counter that is not negative: nothing is applied, the counter is unchanged *)
Lemma irr_season_max0' ms cum irr : ms = 0 -> 0 <= cum -> 0 <= irr -> irr_season (F:=R) ms cum irr = (cum, (#0)%num).
Proof.
  intros -> Hc Hi. unfold irr_season. cbv zeta.
  assert (E : (cum + #0)%num = cum) by (rnum; lra).
  destruct (0 <? cum + irr)%num eqn:Hlt.
  - rewrite pmax0_nonpos; [rewrite E; reflexivity|]. rnum. lra.
  - assert (irr = 0) by (rnum; destruct (Rltb_spec 0 (cum + irr)); [discriminate|lra]). subst irr.
    change (IZR 0) with (#0)%num. rewrite E. reflexivity.
Qed.

(* a defined day of a strategy at a neutral setting is the rainfed day (method 0), whatever the rainfed configuration's
   other irrigation parameters; outside the season every configuration is the rainfed one *)
Theorem irrigation_neutral m smt eff maxirr interval sched depth ms smt' eff' maxirr' interval' sched' depth' ms'
        stage cum epot tpot zroot th dap tsc zmin aer p ztop gs rain runoff r :
  irrigation (F:=R) m smt eff maxirr interval sched depth ms stage cum epot tpot zroot th dap tsc zmin aer p ztop gs rain runoff = Some r ->
  gs = false \/ (m = 5%Z /\ depth = 0) \/ maxirr = 0 \/ (m = 3%Z /\ py_index sched tsc = Some 0) \/ (ms = 0 /\ 0 <= cum) ->
  irrigation 0 smt' eff' maxirr' interval' sched' depth' ms' stage cum epot tpot zroot th dap tsc zmin aer p ztop gs rain runoff = Some r
  /\ snd r = 0 /\ (0 <= cum -> 0 <= snd (fst r)).
Proof.
  unfold irrigation. destruct gs.
  2:{ rewrite !irr_season_0. intros [= <-] _. cbn [fst snd]. repeat split; try reflexivity. intros _. rnum. lra. }
  destruct (irr_depletion _ _ _ _ _ _ _ _ _ _) as [[depl taw]|]; [|discriminate].
  cbn [irr_method Z.eqb]. rewrite pmax00, irr_season_0. cbn [fst snd].
  destruct (irr_method m _ _ _ _ _ _ _ _ _ _ _) as [v|] eqn:Em; [|discriminate].
  intros H Hc. destruct Hc as [Hc|Hc]; [discriminate|].
  assert (E : irr_season ms cum (pmax (F:=R) (#0)%num v) = (cum, (#0)%num)).
  { destruct Hc as [Hc | [Hc | [Hc | (-> & Hcum)]]].
    - rewrite (irr_method_neutral' _ _ _ _ _ _ _ _ _ _ _ _ _ Em) by tauto. apply irr_season_0.
    - rewrite (irr_method_neutral' _ _ _ _ _ _ _ _ _ _ _ _ _ Em) by tauto. apply irr_season_0.
    - rewrite (irr_method_neutral' _ _ _ _ _ _ _ _ _ _ _ _ _ Em) by tauto. apply irr_season_0.
    - apply irr_season_max0'; [reflexivity | exact Hcum | apply pmax0_nonneg]. }
  rewrite E in H. cbn [fst snd] in H. injection H as <-. cbn [fst snd]. repeat split; try reflexivity. intros H; exact H.
Qed.

(* the seasonal counter never becomes negative *)
Lemma irrigation_cum_nonneg m smt eff maxirr interval sched depth ms stage cum epot tpot zroot th dap tsc zmin aer p ztop gs rain runoff r :
  irrigation (F:=R) m smt eff maxirr interval sched depth ms stage cum epot tpot zroot th dap tsc zmin aer p ztop gs rain runoff = Some r ->
  0 <= cum -> 0 <= snd (fst r).
Proof.
  unfold irrigation. destruct gs.
  2:{ rewrite irr_season_0. intros [= <-] _. cbn [fst snd]. rnum. lra. }
  destruct (irr_depletion _ _ _ _ _ _ _ _ _ _) as [[depl taw]|]; [|discriminate].
  destruct (irr_method m _ _ _ _ _ _ _ _ _ _ _) as [v|]; [|discriminate].
  intros [= <-] Hc. cbn [fst snd]. unfold irr_season. cbv zeta. cbn [fst].
  pose proof (pmax0_nonneg v). pose proof (pmax0_nonneg (ms - cum)%num).
  match goal with |- context [if ?b then _ else _] => destruct b end; rnum; lra.
Qed.

(* ---- infiltration: application efficiency and bund height ----------------------------------------------------- *)
Lemma infiltration_eff_inert' p surf fc th infl irr eff eff' bunds zb fl dp0 ro0 gs :
  gs = false \/ irr = 0 ->
  infiltration (F:=R) p surf fc th infl irr eff bunds zb fl dp0 ro0 gs =
  infiltration p surf fc th infl irr eff' bunds zb fl dp0 ro0 gs.
Proof.
  intros [-> | ->]; [reflexivity | apply infiltration_eff_inert].
Qed.

(* ---- soil evaporation ------------------------------------------------------------------------------------------- *)
(* two parameter records that agree except in the irrigation method, the wetted fraction and the mulch settings give
   the same evaporation when they agree on the two places these are read: the adjustment of potential evaporation
   and the re-wetting test *)
Definition ev_rewet_irr (par : EvPar (F:=R)) (irr : R) : bool := (irr >? #0)%num && negb (ep_irrmethod par =? 4)%Z.

Lemma soil_evaporation_congr (par par' : EvPar (F:=R)) p st th et0 infl rain irr gs :
  ep_steps par = ep_steps par' -> ep_simoff par = ep_simoff par' -> ep_zmin par = ep_zmin par' -> ep_zmax par = ep_zmax par' ->
  ep_rew par = ep_rew par' -> ep_kex par = ep_kex par' -> ep_fwcc par = ep_fwcc par' -> ep_fwrelexp par = ep_fwrelexp par' ->
  ep_fevap par = ep_fevap par' -> ep_caltype par = ep_caltype par' -> ep_senescence par = ep_senescence par' ->
  ev_rewet_irr par irr = ev_rewet_irr par' irr ->
  (forall surf x, ev_espot_adj par surf rain irr x = ev_espot_adj par' surf rain irr x) ->
  soil_evaporation par p st th et0 infl rain irr gs = soil_evaporation par' p st th et0 infl rain irr gs.
Proof.
  intros H1 H2 H3 H4 H5 H6 H7 H8 H9 H10 H11 Hrw Hadj.
  assert (Eb : ev_espot_base par st et0 gs = ev_espot_base par' st et0 gs).
  { unfold ev_espot_base, ev_espot_gs. rewrite H6, H7, H10, H11. reflexivity. }
  assert (E : ev_stage1 par p st th et0 infl rain irr gs = ev_stage1 par' p st th et0 infl rain irr gs).
  { unfold ev_stage1. cbv zeta. unfold ev_rewet_irr in Hrw. rewrite Eb, H2, H3, H5, Hrw.
    match goal with |- match ?X with _ => _ end = _ => destruct X as [[[[wsurf0 evapz0] stage20] wstage20]|]; [|reflexivity] end.
    destruct (ev_espot_base par' st et0 gs) as [x|]; [|reflexivity].
    rewrite !Hadj. reflexivity. }
  unfold soil_evaporation. rewrite E, H1, H3, H4, H5, H8, H9. reflexivity.
Qed.

(* where the wetted fraction, the method and the mulch settings are read *)
Lemma ev_espot_adj_inert (par par' : EvPar (F:=R)) surf rain irr x :
  ep_mulches par = ep_mulches par' ->
  (ep_mulches par = true -> ep_fmulch par = ep_fmulch par' /\ ep_mulchpct par = ep_mulchpct par') ->
  irr = 0 \/ ((ep_irrmethod par =? 4)%Z = (ep_irrmethod par' =? 4)%Z /\ ((ep_irrmethod par =? 4)%Z = false -> ep_wetsurf par = ep_wetsurf par')) ->
  ev_espot_adj par surf rain irr x = ev_espot_adj par' surf rain irr x.
Proof.
  intros Hm Hf Hi. unfold ev_espot_adj. rewrite <- Hm.
  assert (E1 : (if ep_mulches par then (x * (#1 - ep_fmulch par * (ep_mulchpct par / #100)))%num else x) =
               (if ep_mulches par then (x * (#1 - ep_fmulch par' * (ep_mulchpct par' / #100)))%num else x)).
  { destruct (ep_mulches par); [|reflexivity]. destruct (Hf eq_refl) as [-> ->]. reflexivity. }
  rewrite E1. f_equal.
  destruct Hi as [-> | [H4 Hw]].
  - rnum. rewrite (Rltb_false 0 0) by lra. reflexivity.
  - rewrite <- H4. destruct (ep_irrmethod par =? 4)%Z; [rewrite !andb_false_r; reflexivity|].
    rewrite (Hw eq_refl). reflexivity.
Qed.

Lemma ev_rewet_irr_inert (par par' : EvPar (F:=R)) irr :
  irr = 0 \/ (ep_irrmethod par =? 4)%Z = (ep_irrmethod par' =? 4)%Z -> ev_rewet_irr par irr = ev_rewet_irr par' irr.
Proof.
  unfold ev_rewet_irr. intros [-> | ->]; [|reflexivity]. rnum. rewrite (Rltb_false 0 0) by lra. reflexivity.
Qed.

(* mulches at a neutral value: the adjustment is the one without mulches *)
Lemma ev_espot_adj_mulch_neutral (par par' : EvPar (F:=R)) surf rain irr x :
  ep_mulches par' = false ->
  ep_mulches par = false \/ ep_mulchpct par = 0 \/ ep_fmulch par = 0 ->
  ep_irrmethod par = ep_irrmethod par' -> ep_wetsurf par = ep_wetsurf par' ->
  ev_espot_adj par surf rain irr x = ev_espot_adj par' surf rain irr x.
Proof.
  intros Hm' Hn Hi Hw. unfold ev_espot_adj. rewrite Hm', <- Hi, <- Hw.
  assert (E1 : (if ep_mulches par then (x * (#1 - ep_fmulch par * (ep_mulchpct par / #100)))%num else x) = x).
  { destruct (ep_mulches par); [|reflexivity]. rnum. destruct Hn as [Hn|[Hn|Hn]]; [discriminate| |]; rewrite Hn; field. }
  rewrite E1. reflexivity.
Qed.

(* ---- transpiration ------------------------------------------------------------------------------------------------ *)
(* the net-irrigation threshold is read by strategy 4 only *)
Theorem transpiration_smt_inert p ztop k m smt smt' s et0 co2c co2r gs gdd : m <> 4%Z ->
  transpiration (F:=R) p ztop k m smt s et0 co2c co2r gs gdd = transpiration p ztop k m smt' s et0 co2c co2r gs gdd.
Proof.
  intros H. apply Z.eqb_neq in H. unfold transpiration, tr_tail. rewrite H. cbn [andb]. reflexivity.
Qed.

(* the strategies other than 4 are indistinguishable to transpiration *)
Lemma tr_plan_method k m m' rcor rootdepth n : m <> 4%Z -> m' <> 4%Z -> forall p sxbot,
  tr_plan (F:=R) k m rcor rootdepth n p sxbot = tr_plan k m' rcor rootdepth n p sxbot.
Proof.
  intros H H'. apply Z.eqb_neq in H, H'. induction n as [|n IH]; intros p sxbot; [reflexivity|].
  cbn [tr_plan]. destruct p as [|c p']; [reflexivity|]. rewrite H, H'. cbv zeta. rewrite IH. reflexivity.
Qed.

Lemma tr_sink_method m m' c t toextract kscomp aercomp sx rf : m <> 4%Z -> m' <> 4%Z ->
  tr_sink (F:=R) m c t toextract kscomp aercomp sx rf = tr_sink m' c t toextract kscomp aercomp sx rf.
Proof. intros H H'. apply Z.eqb_neq in H, H'. unfold tr_sink. rewrite H, H'. reflexivity. Qed.

Lemma tr_loop_method k m m' pus daysub : m <> 4%Z -> m' <> 4%Z -> forall plan th aer toextract tract,
  tr_loop (F:=R) k m pus daysub plan th aer toextract tract = tr_loop k m' pus daysub plan th aer toextract tract.
Proof.
  intros H H'. induction plan as [|x plan IH]; intros th aer toextract tract; [reflexivity|].
  cbn [tr_loop]. destruct (nltb _ _ _); [|reflexivity].
  destruct pus as [pu|]; [|reflexivity]. destruct th as [|t th']; [reflexivity|]. destruct aer as [|a aer']; [reflexivity|].
  cbv zeta. rewrite (tr_sink_method m m' _ _ _ _ _ _ _ H H'), IH. reflexivity.
Qed.

Theorem transpiration_method_inert p ztop k m m' smt smt' s et0 co2c co2r gs gdd : m <> 4%Z -> m' <> 4%Z ->
  transpiration (F:=R) p ztop k m smt s et0 co2c co2r gs gdd = transpiration p ztop k m' smt' s et0 co2c co2r gs gdd.
Proof.
  intros H H'. unfold transpiration, tr_tail. cbv zeta.
  rewrite (tr_plan_method k m m' _ _ _ H H').
  destruct gs; [|reflexivity].
  destruct (tr_kscold _ _); [|reflexivity]. destruct (tr_surface _ _ _ _ _ _); [|reflexivity].
  destruct (root_zone_water _ _ _ _ _ _); [|reflexivity]. destruct (aeration_stress _ _ _ _ _) as [[ksa ad]|]; [|reflexivity].
  apply Z.eqb_neq in H, H'. rewrite H, H'. cbn [andb].
  apply Z.eqb_neq in H, H'. rewrite (tr_loop_method k m m' _ _ H H'). reflexivity.
Qed.
