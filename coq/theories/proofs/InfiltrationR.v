(* InfiltrationR.v — theorems about Water/Infiltration.v at the real instance.

   Units: `zbund` is FieldMngt.z_bund as the code holds it, i.e. in mm (fieldManagement.py multiplies the
   user's metres by 1000 on construction); it is compared with SurfaceStorage (mm) directly and the
   "too small to be considered" threshold is the literal 0.001 (mm).

   Main results (profiles of any length; P = offered infl irr appeff gs = max(Infl,0) + [gs] Irr*AppEff/100):
     infiltration_balance   (C01)  storage + ponding + deep percolation + runoff is conserved (back-up loop included)
     surface_identity       (C02)  Infl_reported + (Runoff - Runoff0) = P          (no hypothesis at all)
     runoff_lower, dry_day  (C02)
     runoff_bounds, infl_lower, infl_negative_only_without_bunds, infl_negative_bund_removal   (C02, need flux_ok)
     infiltration_bounds    (C03)  in_bounds preserved, 0 <= ponding <= zbund, no (or too small) bunds -> no ponding
     deep_perc_nonneg       (C04, needs flux_ok)
     infiltration_defined
   `flux_ok p fl` : FluxOut[i] <= Ksat[i] on entry (drainage's post-condition, DrainageR.drainage_flux_le_ksat).
   Without it the compartment's `drainmax = Ksat - FluxOut` is negative, more water is sent back up than arrived and the
   upper bounds fail: deep_perc_nonneg_refuted (one witness refutes deep_perc_nonneg, runoff_bounds and infl_lower).
   Lemma chain: inf_backup_spec, inf_store_spec, inf_theta0_spec, inf_drainmax_spec, inf_comp_spec, inf_loop_spec (zipper
   invariant), infiltration_eq (decomposition into inf_surface / inf_loopres / inf_final), infiltration_master. *)
From AC Require Import Num RInst Params.
From AC.proofs Require Import ProfR.
From AC.Water Require Import Infiltration.
Local Open Scope R_scope.

#[local] Arguments W : simpl never.

(* ------------------------------------------------------------------ vocabulary *)
Definition DoneR := @Done R.
Definition Wdone (done : list DoneR) : R := fold_right (fun d acc => W (d_comp d) (d_th d) + acc) 0 done.
Definition done_wf (done : list DoneR) : Prop := Forall (fun d => wf_comp (d_comp d)) done.
Definition done_ok (done : list DoneR) : Prop := Forall (fun d => c_th_dry (d_comp d) <= d_th d <= c_th_s (d_comp d)) done.
(* outflow of every compartment at most its saturated conductivity (drainage's post-condition) *)
Definition flux_ok (p : list (Comp R)) (fl : list R) : Prop := Forall2 (fun c f => f <= c_ksat c) p fl.

Lemma Wdone_cons d r : Wdone (d :: r) = W (d_comp d) (d_th d) + Wdone r.
Proof. reflexivity. Qed.

Lemma storage_rev_append done : forall p th,
  storage (rev_append (map d_comp done) p) (rev_append (map d_th done) th) = Wdone done + storage p th.
Proof.
  induction done as [|d r IH]; intros p th; cbn [map rev_append].
  - unfold Wdone; cbn. lra.
  - rewrite IH, storage_cons, Wdone_cons. lra.
Qed.

Lemma in_bounds_rev_append done : done_ok done -> forall p th, in_bounds p th ->
  in_bounds (rev_append (map d_comp done) p) (rev_append (map d_th done) th).
Proof.
  induction 1 as [|d r Hd Hr IH]; intros p th H; cbn [map rev_append]; [exact H|].
  apply IH. constructor; assumption.
Qed.

Lemma div_pos a b : 0 < a -> 0 < b -> 0 < a / b.
Proof. intros; apply Rdiv_lt_0_compat; assumption. Qed.

(* ------------------------------------------------------------------ back-up loop *)
Lemma inf_backup_spec done : done_wf done -> forall ex, 0 <= ex ->
  Wdone (fst (inf_backup ex done)) + snd (inf_backup ex done) = Wdone done + ex
  /\ 0 <= snd (inf_backup ex done)
  /\ map d_comp (fst (inf_backup ex done)) = map d_comp done
  /\ done_wf (fst (inf_backup ex done))
  /\ (done_ok done -> done_ok (fst (inf_backup ex done)) /\ snd (inf_backup ex done) <= ex).
Proof.
  induction 1 as [|[[c t] f] r Hc Hr IH]; intros ex Hex.
  - cbn. repeat split; try lra; try constructor.
  - cbn [d_comp fst] in Hc. cbn [inf_backup d_comp d_th d_fl fst snd]. rnum.
    destruct (Rltb_spec 0 ex) as [Hp|Hn].
    + pose proof (wf_dz _ Hc) as Hdz.
      assert (HW : W c (t + ex / (c_dz c * 1000)) = W c t + ex) by (apply W_add'; intro; lra).
      destruct (Rltb_spec (c_th_s c) (t + ex / (c_dz c * 1000))) as [Hs|Hs].
      * set (ex2 := (t + ex / (c_dz c * 1000) - c_th_s c) * 1000 * c_dz c).
        assert (E2 : ex2 = W c t + ex - W c (c_th_s c)) by (unfold ex2; rewrite W_alt, W_sub, HW; reflexivity).
        assert (Hm : W c (c_th_s c) <= W c (t + ex / (c_dz c * 1000))) by (apply W_mono; lra).
        assert (H2 : 0 <= ex2) by lra.
        destruct (IH ex2 H2) as (I1 & I2 & I3 & I4 & I5).
        cbn [fst snd map d_comp]. rewrite !Wdone_cons. cbn [d_comp d_th fst snd].
        repeat split.
        -- lra.
        -- exact I2.
        -- f_equal. exact I3.
        -- constructor; assumption.
        -- inversion H; subst. cbn [d_comp d_th fst snd] in *. destruct (I5 H4) as [J1 J2].
           constructor; [cbn [d_comp d_th fst snd]; pose proof (wf_dry _ Hc); pose proof (wf_dry_wp _ Hc);
                         pose proof (wf_wp_fc _ Hc); pose proof (wf_fc_s _ Hc); lra | exact J1].
        -- inversion H; subst. cbn [d_comp d_th fst snd] in *. destruct (I5 H4) as [J1 J2].
           assert (W c t <= W c (c_th_s c)) by (apply W_mono; lra). lra.
      * cbn [fst snd map d_comp]. rewrite !Wdone_cons. cbn [d_comp d_th fst snd].
        repeat split; try lra.
        -- constructor; assumption.
        -- inversion H; subst. cbn [d_comp d_th fst snd] in *. constructor; [|assumption].
           cbn [d_comp d_th fst snd]. assert (0 < ex / (c_dz c * 1000)) by (apply div_pos; lra). lra.
    + cbn [fst snd]. repeat split; try lra; try assumption. constructor; assumption.
Qed.

(* ------------------------------------------------------------------ one compartment *)
Lemma inf_store_spec c t theta0 ts : 0 < c_dz c -> 0 < ts ->
  W c (fst (inf_store c t theta0 ts)) + snd (inf_store c t theta0 ts) = W c t + ts
  /\ t <= fst (inf_store c t theta0 ts)
  /\ 0 <= snd (inf_store c t theta0 ts) <= ts
  /\ (forall u, t <= u -> theta0 <= u -> fst (inf_store c t theta0 ts) <= u).
Proof.
  intros Hdz Hts. unfold inf_store. rnum.
  destruct (Rltb_spec 0 (theta0 - t)) as [Hd|Hd]; [|cbn [fst snd]; repeat split; try lra; intros; lra].
  assert (HW : W c (t + ts / (1000 * c_dz c)) = W c t + ts) by (apply W_add; intro; lra).
  assert (Hq : 0 < ts / (1000 * c_dz c)) by (apply div_pos; lra).
  destruct (Rltb_spec theta0 (t + ts / (1000 * c_dz c))) as [Ho|Ho]; cbn [fst snd].
  - rewrite W_alt, W_sub, HW.
    assert (W c t <= W c theta0) by (apply W_mono; lra).
    assert (W c theta0 <= W c (t + ts / (1000 * c_dz c))) by (apply W_mono; lra).
    repeat split; try lra. intros; lra.
  - repeat split; try lra. intros; lra.
Qed.

Lemma inf_dthdtS_pos c : wf_comp c -> 0 < inf_dthdtS c.
Proof.
  intros Hc. unfold inf_dthdtS. rnum. pose proof (wf_tau _ Hc). pose proof (wf_fc_s _ Hc).
  apply Rmult_lt_0_compat; lra.
Qed.

Lemma inf_theta0_spec c a ts : wf_comp c -> a <= c_th_s c -> 0 < ts ->
  fst (inf_theta0 c a ts) <= c_th_s c /\ 0 <= snd (inf_theta0 c a ts).
Proof.
  intros Hc Ha Hts. pose proof (inf_dthdtS_pos c Hc) as HS. pose proof (wf_dz _ Hc) as Hdz.
  unfold inf_theta0. set (S := inf_dthdtS c) in *. rnum.
  assert (Hq : 0 < ts / (1000 * c_dz c)) by (apply div_pos; lra).
  set (q := ts / (1000 * c_dz c)) in *. set (L := inf_theta_log c q). clearbody L.
  destruct (Rltb_spec q S); [|cbn [fst snd]; lra].
  destruct (Rleb_spec q 0); [lra|].
  destruct (Rltb_spec (c_th_s c) L); [cbn [fst snd]; lra|].
  destruct (Rleb_spec L a); cbn [fst snd]; lra.
Qed.

Lemma inf_drainmax_spec c f d : wf_comp c -> f <= c_ksat c -> 0 <= d -> 0 <= inf_drainmax c f d.
Proof.
  intros Hc Hf Hd. pose proof (inf_dthdtS_pos c Hc) as HS. pose proof (wf_dz _ Hc) as Hdz. pose proof (wf_ksat _ Hc) as Hk.
  unfold inf_drainmax. set (S := inf_dthdtS c) in *. rnum.
  assert (Hden : 0 < S * 1000 * c_dz c) by (apply Rmult_lt_0_compat; [apply Rmult_lt_0_compat|]; lra).
  assert (Hfac : 0 < c_ksat c / (S * 1000 * c_dz c)) by (apply div_pos; assumption).
  set (fac := c_ksat c / (S * 1000 * c_dz c)) in *.
  assert (0 <= fac * d * 1000 * c_dz c).
  { apply Rmult_le_pos; [apply Rmult_le_pos; [apply Rmult_le_pos|]|]; lra. }
  destruct (Rltb_spec (c_ksat c) (fac * d * 1000 * c_dz c + f)); lra.
Qed.

Lemma inf_comp_spec c a t f ts : wf_comp c -> c_th_dry c <= t <= c_th_s c -> a <= c_th_s c -> 0 < ts ->
  let r := inf_comp_td c (inf_theta0 c a ts) t f ts in
  W c (fst (fst (fst r))) + snd (fst r) + snd r = W c t + ts
  /\ t <= fst (fst (fst r)) <= c_th_s c
  /\ 0 <= snd r
  /\ snd (fst r) <= ts
  /\ (f <= c_ksat c -> 0 <= snd (fst r)).
Proof.
  intros Hc Ht Ha Hts r. pose proof (wf_dz _ Hc) as Hdz.
  destruct (inf_theta0_spec c a ts Hc Ha Hts) as [T1 T2].
  subst r. unfold inf_comp_td. cbn [fst snd]. set (td := inf_theta0 c a ts) in *.
  destruct (inf_store_spec c t (fst td) ts Hdz Hts) as (S1 & S2 & S3 & S4).
  set (st := inf_store c t (fst td) ts) in *.
  pose proof (S4 (c_th_s c) (proj2 Ht) T1) as S5.
  rnum. set (dm := inf_drainmax c f (snd td)).
  assert (Hdm : f <= c_ksat c -> 0 <= dm) by (intros; apply inf_drainmax_spec; assumption).
  destruct (Rltb_spec (snd st - dm) 0); repeat split; try lra; intros Hf; specialize (Hdm Hf); lra.
Qed.

(* ------------------------------------------------------------------ the compartment loop *)
Lemma inf_finish_spec done p th fl thout flout : done_ok done -> in_bounds p th ->
  inf_finish done th fl = (thout, flout) ->
  storage (rev_append (map d_comp done) p) thout = Wdone done + storage p th
  /\ in_bounds (rev_append (map d_comp done) p) thout.
Proof.
  intros Hd Hb E. unfold inf_finish in E. inversion E; subst; clear E. split.
  - apply storage_rev_append.
  - apply in_bounds_rev_append; assumption.
Qed.

(* invariant of `while ToStore > 0 and ii < nComp - 1`: [done] is the processed prefix (nearest first),
   [p]/[th]/[fl] the untouched suffix *)
Ltac split5 := split; [|split; [|split; [|split]]].

Lemma inf_loop_spec : forall th p fc fl done ts ro thout flout ts' ro',
  wf_prof p -> in_bounds p th -> fcadj_ok p fc -> done_wf done -> done_ok done -> 0 <= ro ->
  inf_loop p fc th fl done ts ro = Some (thout, flout, ts', ro') ->
  storage (rev_append (map d_comp done) p) thout + ts' + ro' = Wdone done + storage p th + ts + ro
  /\ in_bounds (rev_append (map d_comp done) p) thout
  /\ ro <= ro'
  /\ Wdone done + storage p th <= storage (rev_append (map d_comp done) p) thout
  /\ (flux_ok p fl -> 0 <= ts -> 0 <= ts').
Proof.
  induction th as [|t th IH]; intros p fc fl done ts ro thout flout ts' ro' Hp Hb Hfc Hdw Hdo Hro E.
  - cbn [inf_loop] in E. inversion E; subst; clear E.
    destruct (inf_finish_spec done p [] fl _ _ Hdo Hb eq_refl) as [F1 F2].
    split5; try lra; try assumption.
  - cbn [inf_loop] in E. rnum.
    destruct (Rltb_spec 0 ts) as [Hts|Hts].
    + inversion Hb as [|c t0 p' th0 Hct Hb']; subst.
      inversion Hfc as [|c0 a p0 fc' Hca Hfc']; subst.
      inversion Hp as [|c0 p0 Hc Hp']; subst.
      destruct fl as [|f fl']; [discriminate|].
      cbn [hd_error tl inf_comp inf_theta0_opt] in E.
      destruct (inf_comp_spec c a t f ts Hc Hct (proj2 Hca) Hts) as (C1 & C2 & C3 & C4 & C5).
      set (r := inf_comp_td c (inf_theta0 c a ts) t f ts) in *.
      assert (Hdw1 : done_wf ((c, fst (fst (fst r)), snd (fst (fst r))) :: done)) by (constructor; assumption).
      assert (Hdo1 : done_ok ((c, fst (fst (fst r)), snd (fst (fst r))) :: done)).
      { constructor; [|assumption]. cbn [d_comp d_th fst snd]. lra. }
      destruct (Rltb_spec 0 (snd r)) as [Hex|Hex].
      * destruct (inf_backup_spec _ Hdw1 (snd r) C3) as (B1 & B2 & B3 & B4 & B5).
        destruct (B5 Hdo1) as [B6 B7].
        set (b := inf_backup (snd r) ((c, fst (fst (fst r)), snd (fst (fst r))) :: done)) in *.
        assert (Hro1 : 0 <= (if Rltb 0 (snd b) then ro + snd b else ro)) by (destruct (Rltb_spec 0 (snd b)); lra).
        assert (Ero : (if Rltb 0 (snd b) then ro + snd b else ro) = ro + snd b) by (destruct (Rltb_spec 0 (snd b)); lra).
        destruct (IH _ _ _ _ _ _ _ _ _ _ Hp' Hb' Hfc' B4 B6 Hro1 E) as (I1 & I2 & I3 & I4 & I5).
        rewrite B3 in I1, I2, I4. cbn [map rev_append d_comp fst] in I1, I2, I4. rewrite Ero in I1, I3.
        assert (Wm : W c t <= W c (fst (fst (fst r)))) by (apply W_mono; [apply (wf_dz _ Hc)|lra]).
        rewrite Wdone_cons in B1. cbn [d_comp d_th fst snd] in B1.
        cbn [map rev_append]. rewrite storage_cons. rnum.
        split5; try lra; try assumption.
        intros HF H0. inversion HF; subst. apply I5; [assumption|]. apply C5; assumption.
      * assert (E0 : snd r = 0) by lra.
        destruct (IH _ _ _ _ _ _ _ _ _ _ Hp' Hb' Hfc' Hdw1 Hdo1 Hro E) as (I1 & I2 & I3 & I4 & I5).
        cbn [map rev_append d_comp fst] in I1, I2, I4.
        assert (Wm : W c t <= W c (fst (fst (fst r)))) by (apply W_mono; [apply (wf_dz _ Hc)|lra]).
        rewrite Wdone_cons in I1, I4. cbn [d_comp d_th fst snd] in I1, I4.
        cbn [map rev_append]. rewrite storage_cons. rnum.
        split5; try lra; try assumption.
        intros HF H0. inversion HF; subst. apply I5; [assumption|]. apply C5; assumption.
    + inversion E; subst; clear E.
      destruct (inf_finish_spec done p (t :: th) fl _ _ Hdo Hb eq_refl) as [F1 F2]. rnum.
      split5; try lra; try assumption.
Qed.

Lemma inf_loop_defined : forall th p fc fl done ts ro,
  length p = length th -> length fc = length th -> length fl = length th ->
  exists r, inf_loop p fc th fl done ts ro = Some r.
Proof.
  induction th as [|t th IH]; intros p fc fl done ts ro Lp Lfc Lfl.
  - eexists; reflexivity.
  - destruct p as [|c p]; [discriminate|]. destruct fc as [|a fc]; [discriminate|]. destruct fl as [|f fl]; [discriminate|].
    cbn [inf_loop hd_error tl inf_comp inf_theta0_opt].
    rnum. destruct (Rltb 0 ts); [|eexists; reflexivity].
    match goal with |- context [if ?b then _ else _] => destruct b end;
      apply IH; simpl in *; congruence.
Qed.

(* ------------------------------------------------------------------ the whole function, decomposed *)
(* water offered to the surface: max(Infl, 0) + Irr * AppEff / 100 in the growing season *)
Definition offered (infl irr appeff : R) (gs : bool) : R := Rmax infl 0 + (if gs then irr * appeff / 100 else 0).

Definition infP (infl irr appeff : R) (gs : bool) : R :=
  let i := pmax infl 0 in if gs then i + irr * (appeff / 100) else i.

Lemma infP_alt infl irr appeff gs : infP infl irr appeff gs = offered infl irr appeff gs.
Proof.
  unfold infP, offered, pmax, Rmax. rnum.
  destruct (Rltb_spec infl 0); destruct (Rle_dec infl 0); destruct gs; try lra; field.
Qed.

(* bunds present and high enough to be considered (zbund in mm, threshold 0.001 as in the code) *)
Definition bund_on (bunds : bool) (zb : R) : bool := bunds && Rltb (1 / 1000) zb.

Definition inf_surface (p : list (Comp R)) (P surf : R) (bunds : bool) (zb : R) : option (R * R * R) :=
  let k0 := match p with [] => None | c :: _ => Some (c_ksat c) end in
  if bund_on bunds zb then inf_surface_bunds k0 P surf zb else inf_surface_nobunds k0 P surf.

Definition inf_loopres (p : list (Comp R)) (fc th fl : list R) (tostore : R) : option (list R * list R * R * R) :=
  if Rltb 0 tostore then inf_loop p fc th fl [] tostore 0 else Some ((th, fl), 0, 0).

(* the "update surface storage (if bunds are present)" block: (SurfaceStorage, Runoff) *)
Definition inf_final (on : bool) (zb runoffini surf1 ro : R) : R * R :=
  let runoff := ro + runoffini in
  let upd := Rltb runoffini runoff && on in
  let s := surf1 + (runoff - runoffini) in
  (if upd then (if Rltb zb s then zb else s) else surf1,
   if upd then (if Rltb zb s then runoffini + (s - zb) else runoffini) else runoff).

Lemma infiltration_eq p surf fc th infl irr appeff bunds zb fl dp0 ro0 gs :
  infiltration p surf fc th infl irr appeff bunds zb fl dp0 ro0 gs =
  let P := infP infl irr appeff gs in
  if negb (Rleb 0 P) then None else
  match inf_surface p P surf bunds zb with
  | None => None
  | Some (tostore, runoffini, surf1) =>
    match inf_loopres p fc th fl tostore with
    | None => None
    | Some (thfl, ts, ro) =>
      let f := inf_final (bund_on bunds zb) zb runoffini surf1 ro in
      Some (fst thfl, fst f, ts + dp0, snd f + ro0, P - snd f, snd thfl)
    end
  end.
Proof.
  unfold infiltration, infP, inf_surface, inf_loopres, inf_final, bund_on. rnum. cbv zeta.
  destruct (negb _); [reflexivity|].
  destruct bunds; cbn [negb andb orb];
    destruct (Rltb_spec (1 / 1000) zb); destruct (Rleb_spec zb (1 / 1000)); try (exfalso; lra); reflexivity.
Qed.

Lemma inf_loopres_spec p fc th fl tostore thout flout ts ro :
  wf_prof p -> in_bounds p th -> fcadj_ok p fc -> 0 <= tostore ->
  inf_loopres p fc th fl tostore = Some (thout, flout, ts, ro) ->
  storage p thout + ts + ro = storage p th + tostore /\ in_bounds p thout /\ 0 <= ro /\ storage p th <= storage p thout
  /\ (flux_ok p fl -> 0 <= ts) /\ (tostore = 0 -> thout = th /\ ts = 0 /\ ro = 0).
Proof.
  intros Hp Hb Hfc Hts. unfold inf_loopres. destruct (Rltb_spec 0 tostore) as [H|H]; intros E.
  - destruct (inf_loop_spec th p fc fl [] tostore 0 thout flout ts ro Hp Hb Hfc (Forall_nil _) (Forall_nil _) (Rle_refl 0) E)
      as (I1 & I2 & I3 & I4 & I5).
    cbn [map rev_append] in *. unfold Wdone in *. cbn [fold_right] in *. rnum.
    split5; try lra; try assumption. split; [intros; apply I5; [assumption|lra] | intros; exfalso; lra].
  - inversion E; subst; clear E. rnum.
    split5; try lra; try assumption. split; [intros; lra | intros; repeat split; reflexivity].
Qed.

Lemma inf_loopres_defined p fc th fl tostore :
  length p = length th -> length fc = length th -> length fl = length th ->
  exists r, inf_loopres p fc th fl tostore = Some r.
Proof.
  intros. unfold inf_loopres. destruct (Rltb 0 tostore); [apply inf_loop_defined; assumption | eexists; reflexivity].
Qed.

(* the surface bookkeeping: conservation *)
Lemma inf_surface_algebra p P surf bunds zb tostore runoffini surf1 ro :
  wf_prof p -> 0 <= P -> 0 <= surf ->
  inf_surface p P surf bunds zb = Some (tostore, runoffini, surf1) ->
  0 <= tostore
  /\ fst (inf_final (bund_on bunds zb) zb runoffini surf1 ro) + snd (inf_final (bund_on bunds zb) zb runoffini surf1 ro)
     = P + surf - tostore + ro.
Proof.
  intros Hp HP Hs. unfold inf_surface, inf_surface_bunds, inf_surface_nobunds, inf_final. rnum. cbv zeta.
  destruct (bund_on bunds zb); destruct p as [|c p0];
    try (inversion Hp as [|c0 p1 Hc Hp0]; subst; pose proof (wf_ksat _ Hc) as Hk);
    rcases; cbn [andb fst snd]; intros E; inversion E; subst; clear E; rcases; cbn [fst snd]; split; lra.
Qed.

(* ... and the bounds, for non-negative ponding *)
Lemma inf_surface_bounds p P surf bunds zb tostore runoffini surf1 ro :
  wf_prof p -> 0 <= P -> 0 <= surf -> 0 <= ro ->
  inf_surface p P surf bunds zb = Some (tostore, runoffini, surf1) ->
  let f := inf_final (bund_on bunds zb) zb runoffini surf1 ro in
  0 <= fst f /\ 0 <= snd f
  /\ (bund_on bunds zb = true -> fst f <= zb)
  /\ (bund_on bunds zb = false -> fst f = 0)
  /\ (ro <= tostore -> snd f <= P + surf)
  /\ (ro <= tostore -> bund_on bunds zb = true -> surf <= zb -> snd f <= P)
  /\ (P = 0 -> surf = 0 -> tostore = 0 /\ (ro = 0 -> snd f = 0)).
Proof.
  intros Hp HP Hs Hro. unfold inf_surface, inf_surface_bunds, inf_surface_nobunds, inf_final. rnum. cbv zeta.
  unfold bund_on at 1 2 3. destruct bunds; cbn [andb].
  - destruct (Rltb_spec (1 / 1000) zb) as [Hz|Hz]; destruct p as [|c p0];
      try (inversion Hp as [|c0 p1 Hc Hp0]; subst; pose proof (wf_ksat _ Hc) as Hk);
      rcases; cbn [andb fst snd]; intros E; inversion E; subst; clear E; unfold bund_on; cbn [andb];
      rcases; cbn [fst snd andb]; repeat split; intros; try discriminate; try lra.
  - destruct p as [|c p0];
      try (inversion Hp as [|c0 p1 Hc Hp0]; subst; pose proof (wf_ksat _ Hc) as Hk);
      rcases; cbn [andb fst snd]; intros E; inversion E; subst; clear E; unfold bund_on; cbn [andb];
      rcases; cbn [fst snd andb]; repeat split; intros; try discriminate; try lra.
Qed.

(* everything the theorems below need, in one inversion *)
Lemma infiltration_master p surf fc th infl irr appeff bunds zb fl dp0 ro0 gs th' surf' dp' ro' infl_rep fl' :
  wf_prof p -> in_bounds p th -> fcadj_ok p fc -> 0 <= surf ->
  infiltration p surf fc th infl irr appeff bunds zb fl dp0 ro0 gs = Some (th', surf', dp', ro', infl_rep, fl') ->
  let P := offered infl irr appeff gs in
  exists tostore ts ro,
    0 <= P /\ 0 <= tostore
    /\ storage p th' + ts + ro = storage p th + tostore /\ in_bounds p th' /\ 0 <= ro /\ storage p th <= storage p th'
    /\ (flux_ok p fl -> 0 <= ts) /\ (tostore = 0 -> th' = th /\ ts = 0 /\ ro = 0)
    /\ surf' + (ro' - ro0) = P + surf - tostore + ro
    /\ 0 <= surf' /\ 0 <= ro' - ro0
    /\ (bund_on bunds zb = true -> surf' <= zb)
    /\ (bund_on bunds zb = false -> surf' = 0)
    /\ (ro <= tostore -> ro' - ro0 <= P + surf)
    /\ (ro <= tostore -> bund_on bunds zb = true -> surf <= zb -> ro' - ro0 <= P)
    /\ (P = 0 -> surf = 0 -> tostore = 0 /\ (ro = 0 -> ro' - ro0 = 0))
    /\ dp' = ts + dp0 /\ infl_rep = P - (ro' - ro0).
Proof.
  intros Hp Hb Hfc Hs E P. rewrite infiltration_eq in E. cbv zeta in E. rewrite infP_alt in E. fold P in E.
  destruct (Rleb_spec 0 P) as [HP|HP]; [|discriminate]. cbn [negb] in E.
  destruct (inf_surface p P surf bunds zb) as [[[tostore runoffini] surf1]|] eqn:Es; [|discriminate].
  destruct (inf_loopres p fc th fl tostore) as [[[[thout flout] ts] ro]|] eqn:El; [|discriminate].
  remember (inf_final (bund_on bunds zb) zb runoffini surf1 ro) as f eqn:Hf.
  change (fst (thout, flout)) with thout in E. change (snd (thout, flout)) with flout in E.
  injection E as E1 E2 E3 E4 E5 E6. subst th' fl' surf' dp' ro' infl_rep.
  destruct (inf_surface_algebra p P surf bunds zb tostore runoffini surf1 ro Hp HP Hs Es) as [A1 A2].
  destruct (inf_loopres_spec p fc th fl tostore thout flout ts ro Hp Hb Hfc A1 El) as (L1 & L2 & L3 & L4 & L5 & L6).
  destruct (inf_surface_bounds p P surf bunds zb tostore runoffini surf1 ro Hp HP Hs L3 Es) as (B1 & B2 & B3 & B4 & B5 & B6 & B7).
  cbv zeta in B1, B2, B3, B4, B5, B6, B7. rewrite <- Hf in A2, B1, B2, B3, B4, B5, B6, B7.
  exists tostore, ts, ro.
  replace (snd f + ro0 - ro0) with (snd f) by ring.
  repeat (split; [first [assumption | lra | reflexivity]|]). reflexivity.
Qed.

(* ------------------------------------------------------------------ C01: the balance closes *)
Theorem infiltration_balance p surf fc th infl irr appeff bunds zbund fl dp0 ro0 gs th' surf' dp' ro' infl_rep fl' :
  wf_prof p -> in_bounds p th -> fcadj_ok p fc -> 0 <= surf ->
  infiltration p surf fc th infl irr appeff bunds zbund fl dp0 ro0 gs = Some (th', surf', dp', ro', infl_rep, fl') ->
  storage p th' + surf' + dp' + ro' = storage p th + surf + offered infl irr appeff gs + dp0 + ro0.
Proof.
  intros Hp Hb Hfc Hs E.
  destruct (infiltration_master _ _ _ _ _ _ _ _ _ _ _ _ _ _ _ _ _ _ _ Hp Hb Hfc Hs E)
    as (tostore & ts & ro & HP & Ht & L1 & L2 & L3 & L4 & L5 & L6 & S1 & S2 & S3 & S4 & S5 & S6 & S7 & S8 & Edp & Einf).
  rnum. lra.
Qed.

(* ------------------------------------------------------------------ C02: partition at the surface *)
Theorem surface_identity p surf fc th infl irr appeff bunds zbund fl dp0 ro0 gs th' surf' dp' ro' infl_rep fl' :
  infiltration p surf fc th infl irr appeff bunds zbund fl dp0 ro0 gs = Some (th', surf', dp', ro', infl_rep, fl') ->
  infl_rep + (ro' - ro0) = offered infl irr appeff gs.
Proof.
  intros E. rewrite infiltration_eq in E. cbv zeta in E. rewrite infP_alt in E.
  destruct (negb _); [discriminate|].
  destruct (inf_surface _ _ _ _ _) as [[[tostore runoffini] surf1]|]; [|discriminate].
  destruct (inf_loopres _ _ _ _ _) as [[[[thout flout] ts] ro]|]; [|discriminate].
  inversion E; subst; clear E. lra.
Qed.

Theorem runoff_lower p surf fc th infl irr appeff bunds zbund fl dp0 ro0 gs th' surf' dp' ro' infl_rep fl' :
  wf_prof p -> in_bounds p th -> fcadj_ok p fc -> 0 <= surf ->
  infiltration p surf fc th infl irr appeff bunds zbund fl dp0 ro0 gs = Some (th', surf', dp', ro', infl_rep, fl') ->
  0 <= ro' - ro0.
Proof.
  intros Hp Hb Hfc Hs E.
  destruct (infiltration_master _ _ _ _ _ _ _ _ _ _ _ _ _ _ _ _ _ _ _ Hp Hb Hfc Hs E)
    as (tostore & ts & ro & HP & Ht & L1 & L2 & L3 & L4 & L5 & L6 & S1 & S2 & S3 & S4 & S5 & S6 & S7 & S8 & Edp & Einf).
  exact S3.
Qed.

Theorem dry_day p surf fc th infl irr appeff bunds zbund fl dp0 ro0 gs th' surf' dp' ro' infl_rep fl' :
  wf_prof p -> in_bounds p th -> fcadj_ok p fc ->
  offered infl irr appeff gs = 0 -> surf = 0 ->
  infiltration p surf fc th infl irr appeff bunds zbund fl dp0 ro0 gs = Some (th', surf', dp', ro', infl_rep, fl') ->
  infl_rep = 0 /\ ro' - ro0 = 0 /\ th' = th /\ surf' = 0 /\ dp' = dp0.
Proof.
  intros Hp Hb Hfc HP0 Hs0 E. assert (Hs : 0 <= surf) by lra.
  destruct (infiltration_master _ _ _ _ _ _ _ _ _ _ _ _ _ _ _ _ _ _ _ Hp Hb Hfc Hs E)
    as (tostore & ts & ro & HP & Ht & L1 & L2 & L3 & L4 & L5 & L6 & S1 & S2 & S3 & S4 & S5 & S6 & S7 & S8 & Edp & Einf).
  destruct (S8 HP0 Hs0) as [T0 R0]. destruct (L6 T0) as (Eth & Ets & Ero). specialize (R0 Ero).
  repeat split; try assumption; lra.
Qed.

(* upper bounds: what comes back to the surface is at most what went in — needs FluxOut <= Ksat on entry *)
Theorem runoff_bounds p surf fc th infl irr appeff bunds zbund fl dp0 ro0 gs th' surf' dp' ro' infl_rep fl' :
  wf_prof p -> in_bounds p th -> fcadj_ok p fc -> flux_ok p fl -> 0 <= surf ->
  infiltration p surf fc th infl irr appeff bunds zbund fl dp0 ro0 gs = Some (th', surf', dp', ro', infl_rep, fl') ->
  0 <= ro' - ro0 <= offered infl irr appeff gs + surf.
Proof.
  intros Hp Hb Hfc Hfl Hs E.
  destruct (infiltration_master _ _ _ _ _ _ _ _ _ _ _ _ _ _ _ _ _ _ _ Hp Hb Hfc Hs E)
    as (tostore & ts & ro & HP & Ht & L1 & L2 & L3 & L4 & L5 & L6 & S1 & S2 & S3 & S4 & S5 & S6 & S7 & S8 & Edp & Einf).
  specialize (L5 Hfl). split; [exact S3|]. apply S6. rnum. lra.
Qed.

Theorem infl_lower p surf fc th infl irr appeff bunds zbund fl dp0 ro0 gs th' surf' dp' ro' infl_rep fl' :
  wf_prof p -> in_bounds p th -> fcadj_ok p fc -> flux_ok p fl -> 0 <= surf ->
  infiltration p surf fc th infl irr appeff bunds zbund fl dp0 ro0 gs = Some (th', surf', dp', ro', infl_rep, fl') ->
  - surf <= infl_rep <= offered infl irr appeff gs.
Proof.
  intros Hp Hb Hfc Hfl Hs E.
  destruct (infiltration_master _ _ _ _ _ _ _ _ _ _ _ _ _ _ _ _ _ _ _ Hp Hb Hfc Hs E)
    as (tostore & ts & ro & HP & Ht & L1 & L2 & L3 & L4 & L5 & L6 & S1 & S2 & S3 & S4 & S5 & S6 & S7 & S8 & Edp & Einf).
  specialize (L5 Hfl). assert (ro <= tostore) by (rnum; lra). specialize (S6 H). lra.
Qed.

(* reported infiltration is negative only when ponded water is released: bunds absent / too small / lowered *)
Theorem infl_negative_only_without_bunds p surf fc th infl irr appeff bunds zbund fl dp0 ro0 gs th' surf' dp' ro' infl_rep fl' :
  wf_prof p -> in_bounds p th -> fcadj_ok p fc -> flux_ok p fl -> 0 <= surf ->
  infiltration p surf fc th infl irr appeff bunds zbund fl dp0 ro0 gs = Some (th', surf', dp', ro', infl_rep, fl') ->
  infl_rep < 0 -> (bunds = false \/ zbund <= 1 / 1000 \/ zbund < surf) /\ 0 < surf.
Proof.
  intros Hp Hb Hfc Hfl Hs E Hneg.
  destruct (infiltration_master _ _ _ _ _ _ _ _ _ _ _ _ _ _ _ _ _ _ _ Hp Hb Hfc Hs E)
    as (tostore & ts & ro & HP & Ht & L1 & L2 & L3 & L4 & L5 & L6 & S1 & S2 & S3 & S4 & S5 & S6 & S7 & S8 & Edp & Einf).
  specialize (L5 Hfl). assert (Hr : ro <= tostore) by (rnum; lra). specialize (S6 Hr). specialize (S7 Hr).
  split; [|lra].
  destruct bunds; [|left; reflexivity]. right.
  destruct (Rle_dec zbund (1 / 1000)) as [Hz|Hz]; [left; exact Hz|right].
  destruct (Rlt_dec zbund surf) as [Hzs|Hzs]; [exact Hzs|exfalso].
  assert (Hon : bund_on true zbund = true) by (unfold bund_on; cbn [andb]; apply Rltb_true; lra).
  specialize (S7 Hon). lra.
Qed.

(* with the ponding invariant of C03 (surf <= zbund while bunds are on) only the bund-removal day is left *)
Corollary infl_negative_bund_removal p surf fc th infl irr appeff bunds zbund fl dp0 ro0 gs th' surf' dp' ro' infl_rep fl' :
  wf_prof p -> in_bounds p th -> fcadj_ok p fc -> flux_ok p fl -> 0 <= surf ->
  (bunds = true -> 1 / 1000 < zbund -> surf <= zbund) ->
  infiltration p surf fc th infl irr appeff bunds zbund fl dp0 ro0 gs = Some (th', surf', dp', ro', infl_rep, fl') ->
  infl_rep < 0 -> (bunds = false \/ zbund <= 1 / 1000) /\ 0 < surf.
Proof.
  intros Hp Hb Hfc Hfl Hs Hinv E Hneg.
  destruct (infl_negative_only_without_bunds _ _ _ _ _ _ _ _ _ _ _ _ _ _ _ _ _ _ _ Hp Hb Hfc Hfl Hs E Hneg) as [[H|[H|H]] H0];
    split; try assumption; [left; exact H | right; exact H |].
  destruct bunds; [|left; reflexivity]. right.
  destruct (Rle_dec zbund (1 / 1000)) as [Hz|Hz]; [exact Hz|]. exfalso. assert (surf <= zbund) by (apply Hinv; [reflexivity|lra]). lra.
Qed.

(* ------------------------------------------------------------------ C03: physical limits *)
Theorem infiltration_bounds p surf fc th infl irr appeff bunds zbund fl dp0 ro0 gs th' surf' dp' ro' infl_rep fl' :
  wf_prof p -> in_bounds p th -> fcadj_ok p fc -> 0 <= surf ->
  infiltration p surf fc th infl irr appeff bunds zbund fl dp0 ro0 gs = Some (th', surf', dp', ro', infl_rep, fl') ->
  in_bounds p th' /\ 0 <= surf'
  /\ (bunds = true -> 1 / 1000 < zbund -> surf' <= zbund)
  /\ (bunds = false \/ zbund <= 1 / 1000 -> surf' = 0)
  /\ storage p th <= storage p th'.
Proof.
  intros Hp Hb Hfc Hs E.
  destruct (infiltration_master _ _ _ _ _ _ _ _ _ _ _ _ _ _ _ _ _ _ _ Hp Hb Hfc Hs E)
    as (tostore & ts & ro & HP & Ht & L1 & L2 & L3 & L4 & L5 & L6 & S1 & S2 & S3 & S4 & S5 & S6 & S7 & S8 & Edp & Einf).
  split; [exact L2|]. split; [exact S2|]. split; [|split; [|exact L4]].
  - intros Hbu Hz. apply S4. unfold bund_on. rewrite Hbu. cbn [andb]. apply Rltb_true. exact Hz.
  - intros H. apply S5. unfold bund_on. destruct H as [H|H]; [rewrite H; reflexivity|].
    rewrite Rltb_false by exact H. apply andb_false_r.
Qed.

(* ------------------------------------------------------------------ C04: deep percolation only grows *)
Theorem deep_perc_nonneg p surf fc th infl irr appeff bunds zbund fl dp0 ro0 gs th' surf' dp' ro' infl_rep fl' :
  wf_prof p -> in_bounds p th -> fcadj_ok p fc -> flux_ok p fl -> 0 <= surf ->
  infiltration p surf fc th infl irr appeff bunds zbund fl dp0 ro0 gs = Some (th', surf', dp', ro', infl_rep, fl') ->
  dp0 <= dp' <= dp0 + offered infl irr appeff gs + surf.
Proof.
  intros Hp Hb Hfc Hfl Hs E.
  destruct (infiltration_master _ _ _ _ _ _ _ _ _ _ _ _ _ _ _ _ _ _ _ Hp Hb Hfc Hs E)
    as (tostore & ts & ro & HP & Ht & L1 & L2 & L3 & L4 & L5 & L6 & S1 & S2 & S3 & S4 & S5 & S6 & S7 & S8 & Edp & Einf).
  specialize (L5 Hfl). rnum. lra.
Qed.

(* ------------------------------------------------------------------ definedness *)
Lemma offered_nonneg infl irr appeff gs : 0 <= irr -> 0 <= appeff -> 0 <= offered infl irr appeff gs.
Proof.
  intros Hi Ha. unfold offered. pose proof (Rmax_r infl 0).
  assert (0 <= irr * appeff) by (apply Rmult_le_pos; assumption).
  destruct gs; lra.
Qed.

Theorem infiltration_defined p surf fc th infl irr appeff bunds zbund fl dp0 ro0 gs :
  p <> [] -> in_bounds p th -> fcadj_ok p fc -> length fl = length th -> 0 <= irr -> 0 <= appeff ->
  exists r, infiltration p surf fc th infl irr appeff bunds zbund fl dp0 ro0 gs = Some r.
Proof.
  intros Hne Hb Hfc Hfl Hi Ha. rewrite infiltration_eq. cbv zeta. rewrite infP_alt.
  pose proof (offered_nonneg infl irr appeff gs Hi Ha) as HP. set (P := offered infl irr appeff gs) in *.
  rewrite (Rleb_true 0 P HP). cbn [negb].
  assert (Hs : exists s, inf_surface p P surf bunds zbund = Some s).
  { unfold inf_surface, inf_surface_bunds, inf_surface_nobunds. destruct p as [|c p0]; [contradiction|].
    destruct (bund_on bunds zbund); rnum; cbv zeta; rcases; eexists; reflexivity. }
  destruct Hs as [[[tostore runoffini] surf1] Es]. rewrite Es.
  destruct (inf_loopres_defined p fc th fl tostore) as [[[[thout flout] ts] ro] El].
  - apply in_bounds_length; assumption.
  - rewrite <- (in_bounds_length _ _ Hb). symmetry. apply fcadj_ok_length; assumption.
  - assumption.
  - rewrite El. eexists; reflexivity.
Qed.

(* ------------------------------------------------------------------ why flux_ok is needed *)
Definition mk_comp (dz dry wp fc s ksat tau : R) : Comp R :=
  {| c_dz := dz; c_dzsum := dz; c_zmid := dz / 2; c_layer := 1%Z; c_th_dry := dry; c_th_wp := wp; c_th_fc := fc; c_th_s := s;
     c_ksat := ksat; c_tau := tau; c_pen := 100; c_acr := 0; c_bcr := 0 |}.

Lemma wf_mk_comp dz dry wp fc s ksat tau :
  0 < dz -> 0 < dry -> dry < wp -> wp < fc -> fc < s -> 0 < tau <= 1 -> 0 < ksat -> wf_comp (mk_comp dz dry wp fc s ksat tau).
Proof. intros; constructor; cbn; assumption. Qed.

(* evaluation of the model on concrete reals: decide the comparisons with lra, close equalities of tuples of reals *)
Ltac rdecide := repeat (rcase_goal; try (exfalso; lra)).
Ltac req := repeat (first [lra | reflexivity | progress f_equal]).

(* one saturated compartment (Ksat 20 mm/day) whose incoming FluxOut is 50 mm *)
Definition rc : Comp R := mk_comp (1/10) (1/10) (2/10) (3/10) (5/10) 20 (1/2).

Lemma rc_theta0 : inf_theta0 rc (3/10) 10 = (5/10, 1/10).
Proof. unfold inf_theta0, inf_dthdtS, rc. rnum. cbn [mk_comp c_dz c_tau c_th_s c_th_fc]. rdecide. all: req. Qed.
Lemma rc_drainmax : inf_drainmax rc 50 (1/10) = -30.
Proof. unfold inf_drainmax, inf_dthdtS, rc. rnum. cbn [mk_comp c_dz c_tau c_th_s c_th_fc c_ksat]. rdecide. all: req. Qed.
Lemma rc_store : inf_store rc (5/10) (5/10) 10 = (5/10, 10).
Proof. unfold inf_store, rc. rnum. cbn [mk_comp c_dz]. rdecide. all: req. Qed.
Lemma rc_comp : inf_comp_td rc (5/10, 1/10) (5/10) 50 10 = (5/10, 60, -30, 40).
Proof. unfold inf_comp_td. cbn [fst snd]. rewrite rc_drainmax, rc_store. cbn [fst snd]. rnum. rdecide. all: req. Qed.
Lemma rc_backup : inf_backup 40 [(rc, 5/10, 60)] = ([(rc, 5/10, 20)], 40).
Proof.
  cbn [inf_backup d_comp d_th d_fl fst snd]. rnum. unfold rc. cbn [mk_comp c_dz c_th_s]. rdecide. cbn [fst snd]. all: req.
Qed.
Lemma rc_loop : inf_loop [rc] [3/10] [5/10] [50] [] 10 0 = Some ([5/10], [20], -30, 40).
Proof.
  cbn [inf_loop hd_error tl inf_comp inf_theta0_opt]. rewrite rc_theta0, rc_comp. cbn [fst snd].
  repeat match goal with |- context [inf_backup ?e ?d] =>
    replace (inf_backup e d) with ([(rc, 5/10, 20)] : list DoneR, 40) by (symmetry; exact rc_backup) end.
  cbn [fst snd inf_finish map rev_append d_th d_fl]. rnum. rdecide. all: req.
Qed.

(* 10 mm of rain then produce 40 mm of runoff, -30 mm of deep percolation and -30 mm of reported infiltration (replayed on the
   Python: infiltration(prof, 0., [0.3], [0.5], 10., 0., 100., False, 0., [50.], 0., 0., True) = ([0.5], 0, -30.0, 40.0, -30.0, [20.])) *)
Lemma deep_perc_nonneg_refuted :
  exists p surf fc th infl irr appeff bunds zbund fl dp0 ro0 gs th' surf' dp' ro' infl_rep fl',
    wf_prof p /\ in_bounds p th /\ fcadj_ok p fc /\ 0 <= surf /\ 0 <= zbund /\ 0 <= irr /\ 0 <= appeff /\ 0 <= dp0 /\ 0 <= ro0
    /\ infiltration p surf fc th infl irr appeff bunds zbund fl dp0 ro0 gs = Some (th', surf', dp', ro', infl_rep, fl')
    /\ ~ flux_ok p fl
    /\ dp' < dp0 /\ offered infl irr appeff gs + surf < ro' - ro0 /\ infl_rep < - surf.
Proof.
  exists [rc], 0, [3/10], [5/10], 10, 0, 100, false, 0, [50], 0, 0, true.
  exists [5/10], 0, (-30), 40, (-30), [20].
  split. { constructor; [apply wf_mk_comp; lra | constructor]. }
  split. { constructor; [cbn; lra | constructor]. }
  split. { constructor; [cbn; lra | constructor]. }
  do 6 (split; [lra|]).
  split.
  { rewrite infiltration_eq. cbv zeta.
    assert (EP : infP 10 0 100 true = 10) by (unfold infP, pmax; rnum; rdecide; lra). rewrite EP.
    rewrite (Rleb_true 0 10) by lra. cbn [negb].
    assert (Es : inf_surface [rc] 10 0 false 0 = Some (10, 0, 0)).
    { unfold inf_surface, inf_surface_nobunds, bund_on, rc. cbn [andb mk_comp c_ksat]. rnum. rdecide. all: req. }
    rewrite Es. unfold inf_loopres. rewrite (Rltb_true 0 10) by lra. rewrite rc_loop.
    unfold inf_final, bund_on. cbn [andb fst snd]. rewrite andb_false_r. req. }
  split.
  { intros H. inversion H; subst. cbn in *. lra. }
  unfold offered, Rmax. destruct (Rle_dec 10 0); lra.
Qed.

(* ------------------------------------------------------------------ the hypotheses are satisfiable *)
(* a bunded field, 5 mm ponded behind 100 mm bunds, clay loam (2 x 0.1 m) over sandy loam (0.2 m) whose field capacity is
   raised by a water table; 30 mm of rain and 20 mm of irrigation at 75 % efficiency; outflows left by drainage *)
Definition ex_p : list (Comp R) :=
  [mk_comp (1/10) (115/1000) (23/100) (39/100) (50/100) 125 (47/100);
   mk_comp (1/10) (115/1000) (23/100) (39/100) (50/100) 125 (47/100);
   mk_comp (2/10) (5/100) (10/100) (22/100) (41/100) 1200 1].
Definition ex_th : list R := [45/100; 30/100; 15/100].
Definition ex_fc : list R := [39/100; 39/100; 30/100].
Definition ex_fl : list R := [3; 0; 10].
Definition ex_run := infiltration ex_p 5 ex_fc ex_th 30 20 75 true 100 ex_fl 10 4 true.

Example ex_wf : wf_prof ex_p.
Proof. repeat constructor; cbn; lra. Qed.
Example ex_in_bounds : in_bounds ex_p ex_th.
Proof. repeat constructor; cbn; lra. Qed.
Example ex_fcadj : fcadj_ok ex_p ex_fc.
Proof. repeat constructor; cbn; lra. Qed.
Example ex_flux : flux_ok ex_p ex_fl.
Proof. repeat constructor; cbn; lra. Qed.

Example infiltration_defined_ex : exists r, ex_run = Some r.
Proof.
  apply infiltration_defined; [discriminate | exact ex_in_bounds | exact ex_fcadj | reflexivity | lra | lra].
Qed.

Example infiltration_balance_ex : exists th' surf' dp' ro' infl_rep fl',
  ex_run = Some (th', surf', dp', ro', infl_rep, fl')
  /\ storage ex_p th' + surf' + dp' + ro' = storage ex_p ex_th + 5 + offered 30 20 75 true + 10 + 4.
Proof.
  destruct infiltration_defined_ex as [[[[[[th' surf'] dp'] ro'] ir] fl'] E]. exists th', surf', dp', ro', ir, fl'.
  split; [exact E|]. refine (infiltration_balance _ _ _ _ _ _ _ _ _ _ _ _ _ _ _ _ _ _ _ ex_wf ex_in_bounds ex_fcadj _ E). lra.
Qed.

Example surface_identity_ex : exists th' surf' dp' ro' infl_rep fl',
  ex_run = Some (th', surf', dp', ro', infl_rep, fl') /\ infl_rep + (ro' - 4) = offered 30 20 75 true.
Proof.
  destruct infiltration_defined_ex as [[[[[[th' surf'] dp'] ro'] ir] fl'] E]. exists th', surf', dp', ro', ir, fl'.
  split; [exact E|]. apply (surface_identity _ _ _ _ _ _ _ _ _ _ _ _ _ _ _ _ _ _ _ E).
Qed.

Example runoff_bounds_ex : exists th' surf' dp' ro' infl_rep fl',
  ex_run = Some (th', surf', dp', ro', infl_rep, fl')
  /\ 0 <= ro' - 4 <= offered 30 20 75 true + 5 /\ - 5 <= infl_rep <= offered 30 20 75 true /\ ~ infl_rep < 0.
Proof.
  destruct infiltration_defined_ex as [[[[[[th' surf'] dp'] ro'] ir] fl'] E]. exists th', surf', dp', ro', ir, fl'.
  split; [exact E|]. split; [|split].
  - refine (runoff_bounds _ _ _ _ _ _ _ _ _ _ _ _ _ _ _ _ _ _ _ ex_wf ex_in_bounds ex_fcadj ex_flux _ E). lra.
  - refine (infl_lower _ _ _ _ _ _ _ _ _ _ _ _ _ _ _ _ _ _ _ ex_wf ex_in_bounds ex_fcadj ex_flux _ E). lra.
  - intros Hneg.
    assert (H5 : 0 <= 5) by lra.
    destruct (infl_negative_only_without_bunds _ _ _ _ _ _ _ _ _ _ _ _ _ _ _ _ _ _ _ ex_wf ex_in_bounds ex_fcadj ex_flux H5 E Hneg)
      as [[H|[H|H]] _]; [discriminate | lra | lra].
Qed.

Example dry_day_ex : forall th' surf' dp' ro' infl_rep fl',
  infiltration ex_p 0 ex_fc ex_th 0 20 75 true 100 ex_fl 10 4 false = Some (th', surf', dp', ro', infl_rep, fl') ->
  infl_rep = 0 /\ ro' - 4 = 0 /\ th' = ex_th /\ surf' = 0 /\ dp' = 10.
Proof.
  intros th' surf' dp' ro' ir fl' E.
  apply (dry_day _ _ _ _ _ _ _ _ _ _ _ _ _ _ _ _ _ _ _ ex_wf ex_in_bounds ex_fcadj) in E; [exact E | | reflexivity].
  unfold offered, Rmax. destruct (Rle_dec 0 0); lra.
Qed.

Example infiltration_bounds_ex : exists th' surf' dp' ro' infl_rep fl',
  ex_run = Some (th', surf', dp', ro', infl_rep, fl')
  /\ in_bounds ex_p th' /\ 0 <= surf' <= 100 /\ 10 <= dp'.
Proof.
  destruct infiltration_defined_ex as [[[[[[th' surf'] dp'] ro'] ir] fl'] E]. exists th', surf', dp', ro', ir, fl'.
  split; [exact E|].
  assert (H5 : 0 <= 5) by lra. assert (Hz : 1 / 1000 < 100) by lra.
  destruct (infiltration_bounds _ _ _ _ _ _ _ _ _ _ _ _ _ _ _ _ _ _ _ ex_wf ex_in_bounds ex_fcadj H5 E) as (B1 & B2 & B3 & B4 & B5).
  pose proof (deep_perc_nonneg _ _ _ _ _ _ _ _ _ _ _ _ _ _ _ _ _ _ _ ex_wf ex_in_bounds ex_fcadj ex_flux H5 E) as D.
  specialize (B3 eq_refl Hz). repeat split; try assumption; lra.
Qed.
