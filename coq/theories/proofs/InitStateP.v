(* InitStateP.v — the state built by Init/InitState.v [init_state] satisfies the premises of the whole-run theorems.

   Part A  the pieces: surface storage between bunds, adjusted field capacity with a water table (range BEFORE rounding for
           every profile; after `np.round(., 3)` only when th_fc / th_s lie on the 3-decimal grid — [init_fcadj_below_fc_refuted]),
           layer means (Kahan summation is a plain sum over R), saturation below the table.
   Part B  [init_state_dayinv]   DayConcreteP.DayInv,
           [init_state_strong]   DaySideP.StrongInv par crops k 0 for the season counter k the state was built for,
           [init_state_rinv2]    DaySideRows.RInv2,
           [init_state_defined_no_table]  without a water table initialisation never raises.
   Part C  [run_from_init]: from `init_state ... = Some s0`, `init_c c s0 = Ok m0` and a terminated run to the conclusion of
           DaySideRows.run_till_rows_strong_season_no_table (every per-row theorem for every day) — static premises +
           [in_bounds prof th0] only; [run_steps_from_init] likewise for run_model(num_steps = k).
   Part D  non-vacuity [Example]s on DaySideP.Ex, refutations.

   The premise of DaySideRun2.init_strong_season is `forall k, k = 0 \/ k = -1 -> StrongInv par crops k 0 s0` for ONE state s0.
   The state depends on the season counter (z_root, cc0_adj, surface_storage), and the state built for k = 0 carries the CC0 of
   the first crop, which need not be below the CC0 of the filler crop that indexes StrongInv at k = -1; so the clock part is
   re-derived here for the season counter the clock really starts with ([init_season], [init_clock_strong]). *)
From Coq Require Import Reals List Bool ZArith Lra Lia.
From Flocq Require Import Core.
From AC Require Import Num RInst Params Kernels Clock Day DayConcrete RunConcrete.
From AC.Water Require Import Groundwater.
From AC.Water Require Transpiration.
From AC.Init Require Import SoilBuild InitState.
From AC.proofs Require Import ProfR DayP DayConcreteP ClockP RunP RunConcreteP DaySideU DaySideP DaySideRun DaySideRun2 DayRowsP DaySideRows.
From AC.proofs Require GroundwaterR CanopyR.
Import ListNotations.
Local Open Scope R_scope.

#[local] Existing Instance YieldR.RTrig.

(* ============================================================================================================ *)
(*  Part A.1  surface storage                                                                                     *)
(* ============================================================================================================ *)
(* the initial ponding depth lies between 0 and the bund height of the management (0 without bunds) *)
Lemma init_surface_range (f : DField R) : 0 <= f_bund_water f -> 0 <= init_surface f <= zb_of f.
Proof.
  intros Hw. unfold init_surface, zb_of, pmin. rnum.
  destruct (f_bunds f); cbn [andb]; [|lra].
  destruct (Rltb_spec (1 / 1000) (f_z_bund f)) as [Hz|Hz]; [|lra].
  destruct (Rltb_spec (f_z_bund f) (f_bund_water f)); lra.
Qed.

(* ============================================================================================================ *)
(*  Part A.2  adjusted field capacity with a water table                                                          *)
(* ============================================================================================================ *)
Lemma init_fcadj_comp_range zgw c :
  c_th_fc c < c_th_s c -> gw_far zgw c = false -> c_th_fc c <= init_fcadj_comp zgw c <= c_th_s c.
Proof.
  intros Hfs Hfar. unfold gw_far in Hfar. apply orb_false_elim in Hfar. destruct Hfar as [H0 H1].
  pose proof (GroundwaterR.gw_xmax_pos c) as HX. unfold init_fcadj_comp. revert H0 H1. generalize (gw_xmax c) HX. intros X HX0.
  rnum. intros H0 H1.
  destruct (Rleb_spec X (zgw - c_zmid c)) as [|Hn]; [discriminate|]. clear H0 H1.
  rcases; try lra.
  rewrite (GroundwaterR.Rpow_sq X) by lra. rewrite GroundwaterR.Rpow_sq by lra.
  set (d := c_zmid c - (zgw - X)). set (dV := c_th_s c - c_th_fc c).
  assert (Hd : 0 <= d <= X) by (unfold d; lra).
  assert (Hdd : 0 <= d * d <= X * X) by (split; [apply Rmult_le_pos; lra | apply Rmult_le_compat; lra]).
  assert (HXX : 0 < X * X) by (apply Rmult_lt_0_compat; lra).
  pose proof (GroundwaterR.frac01 (d * d) (X * X) Hdd HXX) as Hq.
  replace (dV / (X * X) * (d * d)) with (dV * (d * d / (X * X))) by (field; lra).
  assert (HdV : 0 < dV) by (unfold dV; lra).
  assert (0 <= dV * (d * d / (X * X)) <= dV * 1)
    by (split; [apply Rmult_le_pos; lra | apply Rmult_le_compat_l; lra]).
  unfold dV in *. lra.
Qed.

(* before rounding: between field capacity and saturation, whatever the depth of the table (also negative) *)
Lemma init_loop_range zgw p : wf_prof p -> fcadj_ok p (fst (init_fcadj_loop zgw p)).
Proof.
  induction 1 as [|c r Hc Hr IH]; cbn [init_fcadj_loop]; [constructor|].
  pose proof (wf_fc_s c Hc) as Hfs.
  destruct (snd (init_fcadj_loop zgw r)); [|destruct (gw_far zgw c) eqn:E]; cbn [fst]; constructor; try exact IH; try lra.
  apply init_fcadj_comp_range; assumption.
Qed.

(* a number with at most three decimals *)
Definition grid3 (x : R) : Prop := exists n : Z, x = IZR n / pow10 3.
(* field capacity and saturation of every compartment have at most three decimals (every built-in soil, every soil
   derived from texture: Soil.calculate_soil_hydraulic_properties rounds to 3 decimals) *)
Definition grid3_prof (p : list (Comp R)) : Prop := Forall (fun c => grid3 (c_th_fc c) /\ grid3 (c_th_s c)) p.

Lemma Rround3_between a b x : grid3 a -> grid3 b -> a <= x <= b -> a <= Rround 3 x <= b.
Proof.
  intros [na ->] [nb ->] [H1 H2]. split.
  - rewrite <- (Rround_IZR 3 na). apply Rround_mono. exact H1.
  - rewrite <- (Rround_IZR 3 nb). apply Rround_mono. exact H2.
Qed.

(* after `np.round(thfcAdj, 3)` *)
Lemma init_fcadj_ok zgw p : wf_prof p -> grid3_prof p -> fcadj_ok p (init_fcadj zgw p).
Proof.
  intros Hw Hg. unfold init_fcadj. pose proof (init_loop_range zgw p Hw) as H. clear Hw. revert Hg.
  induction H as [|c a p l Hca H IH]; intros Hg; cbn [map]; [constructor|].
  inversion Hg as [|? ? [G1 G2] Hg']; subst. constructor; [|apply IH; exact Hg'].
  rnum. apply Rround3_between; assumption.
Qed.

Lemma init_fcadj_length zgw p : length (init_fcadj zgw p) = length p.
Proof.
  unfold init_fcadj. rewrite map_length. induction p as [|c r IH]; cbn [init_fcadj_loop]; [reflexivity|].
  destruct (snd (init_fcadj_loop zgw r)); [|destruct (gw_far zgw c)]; cbn [fst length]; rewrite IH; reflexivity.
Qed.

(* ============================================================================================================ *)
(*  Part A.3  the layer mean of th_s                                                                              *)
(* ============================================================================================================ *)
(* over the reals the compensation term of Kahan's summation stays 0 *)
Lemma kahan_sum (xs : list R) : forall s, kahan s 0 xs = s + fold_right Rplus 0 xs.
Proof.
  induction xs as [|v r IH]; intros s; cbn [kahan fold_right]; [lra|]. rnum.
  replace (s + (v - 0) - s - (v - 0)) with 0 by ring. rewrite IH. lra.
Qed.

Lemma len_F_length (xs : list R) : len_F xs = Z.of_nat (length xs).
Proof. induction xs as [|v r IH]; cbn [len_F length]; [reflexivity|]. rewrite IH. lia. Qed.

Lemma kahan_mean_const (xs : list R) x : xs <> [] -> Forall (fun v => v = x) xs -> kahan_mean xs = x.
Proof.
  intros Hne Hall. unfold kahan_mean. rnum. rewrite kahan_sum, len_F_length.
  assert (Hs : fold_right Rplus 0 xs = IZR (Z.of_nat (length xs)) * x).
  { clear Hne. induction Hall as [|v r -> Hr IH]; [cbn; lra|]. cbn [fold_right length]. rewrite IH.
    rewrite Nat2Z.inj_succ, succ_IZR. ring. }
  rewrite Hs. assert (Hn : IZR (Z.of_nat (length xs)) <> 0).
  { destruct xs; [contradiction|]. cbn [length]. rewrite Nat2Z.inj_succ, succ_IZR. pose proof (IZR_le 0 _ (Nat2Z.is_nonneg (length xs))). lra. }
  field. exact Hn.
Qed.

(* compartments of one layer share their saturated water content (they do: Soil.add_layer assigns layer by layer) *)
Definition uniform_s (p : list (Comp R)) : Prop :=
  forall c c', In c p -> In c' p -> c_layer c = c_layer c' -> c_th_s c = c_th_s c'.

Lemma hyd_th_s_uniform p c : uniform_s p -> In c p -> hyd_th_s p (c_layer c) = c_th_s c.
Proof.
  intros U Hin. unfold hyd_th_s. apply kahan_mean_const.
  - intros E.
    assert (H : In (c_th_s c) (flat_map (fun c0 : Comp R => if (c_layer c0 =? c_layer c)%Z then [c_th_s c0] else []) p)).
    { apply in_flat_map. exists c. split; [exact Hin|]. rewrite Z.eqb_refl. left. reflexivity. }
    rewrite E in H. destruct H.
  - apply Forall_forall. intros v Hv. apply in_flat_map in Hv. destruct Hv as (c' & Hc' & Hv).
    destruct (Z.eqb_spec (c_layer c') (c_layer c)) as [El|]; [|destruct Hv]. destruct Hv as [<-|[]]. apply U; assumption.
Qed.

(* ============================================================================================================ *)
(*  Part A.4  saturation below the table keeps every per-compartment range that th_s satisfies                    *)
(* ============================================================================================================ *)
Section Sat.
  Variable Q : Comp R -> R -> Prop.
  Variable pall : list (Comp R).

  Lemma sat_from_Q p : (forall c, In c p -> Q c (hyd_th_s pall (c_layer c))) ->
    forall th th', Forall2 Q p th -> sat_from pall p th = Some th' -> Forall2 Q p th'.
  Proof.
    induction p as [|c r IH]; intros HQ th th' H E.
    - inversion H; subst. cbn in E. inversion E. constructor.
    - inversion H as [|? t ? th1 Hct H1]; subst. cbn [sat_from] in E.
      destruct (sat_from pall r th1) as [l|] eqn:E1; [|discriminate]. inversion E; subst.
      constructor; [apply HQ; left; reflexivity|]. apply (IH (fun c0 Hc0 => HQ c0 (or_intror Hc0)) th1 l H1 E1).
  Qed.

  Lemma sat_find_Q zgw p : (forall c, In c p -> Q c (hyd_th_s pall (c_layer c))) ->
    forall top th th', Forall2 Q p th -> sat_find pall zgw top p th = Some th' -> Forall2 Q p th'.
  Proof.
    induction p as [|c r IH]; intros HQ top th th' H E; [discriminate|].
    cbn [sat_find] in E. destruct (nleb num_ops zgw _).
    - exact (sat_from_Q (c :: r) HQ th th' H E).
    - inversion H as [|? t ? th1 Hct H1]; subst.
      destruct (sat_find pall zgw (c_dzsum c) r th1) as [l|] eqn:E1; [|discriminate]. inversion E; subst.
      constructor; [exact Hct|]. apply (IH (fun c0 Hc0 => HQ c0 (or_intror Hc0)) _ th1 l H1 E1).
  Qed.
End Sat.

Lemma fcadj_in_bounds p a : wf_prof p -> fcadj_ok p a -> in_bounds p a.
Proof.
  intros Hw H. induction H as [|c x p l Hc H IH]; [constructor|]. inversion Hw as [|? ? Hwc Hw']; subst.
  constructor; [|apply IH; exact Hw']. pose proof (wf_dry_wp c Hwc). pose proof (wf_wp_fc c Hwc). lra.
Qed.

Lemma fc_fcadj_ok p : wf_prof p -> fcadj_ok p (map (fun c => c_th_fc c) p).
Proof. induction 1 as [|c r Hc Hr IH]; cbn [map]; constructor; [|exact IH]. pose proof (wf_fc_s c Hc). lra. Qed.

(* ============================================================================================================ *)
(*  Part A.5  the water-table part of initialisation                                                              *)
(* ============================================================================================================ *)
(* what the water-table branch needs: soil values on the 3-decimal grid (th_fc_Adj is rounded to 3 decimals) and one
   saturated content per layer (the compartments below the table receive the LAYER MEAN of th_s) *)
Definition table_ok (p : list (Comp R)) (wt : Z) : Prop :=
  wt = 0%Z \/ (wt = 1%Z /\ grid3_prof p /\ uniform_s p).

Lemma init_water_inv p wt zgw0 fcr th0 z b fc th :
  wf_prof p -> in_bounds p th0 -> table_ok p wt ->
  init_water p wt zgw0 fcr th0 = Some (z, b, fc, th) -> fcadj_ok p fc /\ in_bounds p th.
Proof.
  intros Hw Hb [->|(-> & Hg & Hu)]; unfold init_water; cbn [Z.eqb Pos.eqb]; rnum.
  - intros [= <- <- <- <-]. split; [apply fc_fcadj_ok; exact Hw | exact Hb].
  - destruct zgw0 as [zgw|]; [|discriminate].
    pose proof (init_fcadj_ok zgw p Hw Hg) as Hfc.
    assert (Hs_fc : forall c, In c p -> c_th_fc c <= hyd_th_s p (c_layer c) <= c_th_s c).
    { intros c Hc. rewrite (hyd_th_s_uniform p c Hu Hc). pose proof (wf_fc_s c (proj1 (Forall_forall _ _) Hw c Hc)). lra. }
    assert (Hs_b : forall c, In c p -> c_th_dry c <= hyd_th_s p (c_layer c) <= c_th_s c).
    { intros c Hc. rewrite (hyd_th_s_uniform p c Hu Hc). pose proof (proj1 (Forall_forall _ _) Hw c Hc) as Hwc.
      pose proof (wf_fc_s c Hwc). pose proof (wf_dry_wp c Hwc). pose proof (wf_wp_fc c Hwc). lra. }
    destruct (init_wt_in_soil zgw p).
    + destruct fcr.
      * destruct (sat_find p zgw 0 p (init_fcadj zgw p)) as [th2|] eqn:E; [|discriminate].
        intros [= <- <- <- <-].
        pose proof (sat_find_Q (fun c a => c_th_fc c <= a <= c_th_s c) p zgw p Hs_fc 0 _ _ Hfc E) as H2.
        split; [exact H2 | apply fcadj_in_bounds; assumption].
      * destruct (sat_find p zgw 0 p th0) as [th2|] eqn:E; [|discriminate].
        intros [= <- <- <- <-]. split; [exact Hfc|].
        exact (sat_find_Q (fun c t => c_th_dry c <= t <= c_th_s c) p zgw p Hs_b 0 _ _ Hb E).
    + intros [= <- <- <- <-]. split; [exact Hfc|]. destruct fcr; [apply fcadj_in_bounds; assumption | exact Hb].
Qed.

(* ============================================================================================================ *)
(*  Part B  the initial state                                                                                      *)
(* ============================================================================================================ *)
(* inversion of init_state: the fields that are not constants *)
Lemma init_state_inv par k zgw0 fcr th0 s : init_state par k zgw0 fcr th0 = Some s ->
  exists z b fc th, init_water (so_prof (p_soil par)) (p_water_table par) zgw0 fcr th0 = Some (z, b, fc, th) /\
    s = {| d_age_days := 0; d_age_days_ns := 0; d_aer_days := 0; d_aer_days_comp := map (fun _ => 0) (so_prof (p_soil par)); d_irr_cum := 0;
           d_delayed_gdds := 0; d_delayed_cds := 0%Z; d_pct_lag_phase := 0; d_t_early_sen := 0; d_gdd_cum := 0;
           d_day_submerged := 0; d_irr_net_cum := 0; d_e_pot := 0; d_t_pot := 0;
           d_pre_adj := false; d_crop_dead := false; d_germination := false; d_premat_senes := false; d_growing_season := false;
           d_yield_form := false; d_stage2 := false; d_wt_in_soil := Some b;
           d_stage := 1; d_f_pre := 1; d_f_post := 1; d_fpost_dwn := 1; d_fpost_upp := 1; d_h1_cor_asum := 0;
           d_h1_cor_bsum := 0; d_f_pol := 0; d_s_cor1 := 0; d_s_cor2 := 0; d_hi_ref := 0;
           d_HIfinal := c_HI0 (p_crop par 0%Z);
           d_growth_stage := 0%Z; d_tr_ratio := 1; d_r_cor := 1;
           d_canopy_cover := 0; d_canopy_cover_adj := 0; d_canopy_cover_ns := 0; d_canopy_cover_adj_ns := 0; d_biomass := 0;
           d_biomass_ns := 0; d_YieldPot := 0; d_harvest_index := 0; d_harvest_index_adj := 0; d_ccx_act := 0;
           d_ccx_act_ns := 0; d_ccx_w := 0; d_ccx_w_ns := 0; d_ccx_early_sen := 0; d_cc_prev := 0; d_protected_seed := false;
           d_DryYield := 0; d_FreshYield := 0;
           d_z_root := if (k =? -1)%Z then 0 else if (k =? 0)%Z then c_Zmin (p_crop par 0%Z) else 0;
           d_cc0_adj := if (k =? -1)%Z then 0 else if (k =? 0)%Z then c_CC0 (p_crop par 0%Z) else 0;
           d_surface_storage := if (k =? -1)%Z then init_surface (p_fallow_field par)
                                else if (k =? 0)%Z then init_surface (p_field par) else 0;
           d_z_gw := Some z; d_th_fc_Adj := fc; d_th := th; d_thini := th;
           d_time_step_counter := 0%Z; d_precipitation := 0; d_temp_max := 0; d_temp_min := 0; d_et0 := 0;
           d_sumET0EarlySen := 0; d_gdd := 0; d_w_surf := 0; d_evap_z := 0; d_w_stage_2 := 0; d_depletion := 0; d_taw := 0 |}.
Proof.
  unfold init_state. cbv zeta.
  destruct (init_water _ _ _ _ _) as [[[[z b] fc] th]|]; [|discriminate]. intros [= <-].
  exists z, b, fc, th. split; [reflexivity|]. rnum. reflexivity.
Qed.

(* the static premises about the two field managements and the two irrigation managements *)
Record MgmtOK (par : DPar R) : Prop := {
  mo_bw : 0 <= f_bund_water (p_field par);
  mo_zb : 0 <= f_z_bund (p_field par);
  mo_bw_f : 0 <= f_bund_water (p_fallow_field par);
  mo_smt : 0 <= i_NetIrrSMT (p_irr par) <= 100;
  mo_smt_f : 0 <= i_NetIrrSMT (p_fallow_irr par) <= 100 }.

Lemma init_surf_nonneg par k : MgmtOK par ->
  0 <= (if (k =? -1)%Z then init_surface (p_fallow_field par) else if (k =? 0)%Z then init_surface (p_field par) else 0).
Proof.
  intros M. destruct (k =? -1)%Z; [apply init_surface_range, (mo_bw_f _ M)|].
  destruct (k =? 0)%Z; [apply init_surface_range, (mo_bw _ M) | lra].
Qed.

(* C03 at step 0 and the premise of the day theorems: the day-level invariant holds in the initial state *)
Theorem init_state_dayinv par k zgw0 fcr th0 s :
  wf_prof (so_prof (p_soil par)) -> in_bounds (so_prof (p_soil par)) th0 ->
  table_ok (so_prof (p_soil par)) (p_water_table par) -> MgmtOK par ->
  init_state par k zgw0 fcr th0 = Some s -> DayInv par s.
Proof.
  intros Hw Hb Ht M E. destruct (init_state_inv _ _ _ _ _ _ E) as (z & b & fc & th & Ew & ->).
  destruct (init_water_inv _ _ _ _ _ _ _ _ _ Hw Hb Ht Ew) as [Hfc Hth].
  constructor; cbn [d_th d_thini d_th_fc_Adj d_surface_storage]; try assumption.
  - apply init_surf_nonneg. exact M.
  - exact (mo_smt _ M).
  - exact (mo_smt_f _ M).
  - split; [exact (mo_bw _ M) | exact (mo_zb _ M)].
Qed.

(* the clock-indexed invariant, for the season counter the state was built for and dap = 0 *)
Theorem init_state_strong par crops zgw0 fcr th0 :
  ParOK par crops -> in_bounds (so_prof (p_soil par)) th0 ->
  table_ok (so_prof (p_soil par)) (p_water_table par) -> MgmtOK par ->
  forall k, (k = 0 \/ k = -1)%Z -> forall s, init_state par k zgw0 fcr th0 = Some s -> StrongInv par crops k 0 s.
Proof.
  intros P Hb Ht M k Hk s E.
  pose proof (init_state_dayinv par k zgw0 fcr th0 s (po_wf _ _ P) Hb Ht M E) as DI.
  destruct (init_state_inv _ _ _ _ _ _ E) as (z & b & fc & th & Ew & Es).
  pose proof (po_crop _ _ P k) as CK.
  pose proof (co_can _ _ _ _ CK) as Hc. pose proof Hc as [H0 H0x Hx1 Hg Hd].
  pose proof (co_kcb _ _ _ _ CK) as Hkcb. pose proof (co_fage _ _ _ _ CK) as Hfage.
  constructor.
  - exact DI.
  - destruct Hk as [->| ->]; lia.
  - lia.
  - rewrite Es.
    constructor; cbn [d_canopy_cover d_canopy_cover_ns d_ccx_act_ns d_cc0_adj d_ccx_act d_ccx_w d_ccx_w_ns]; try lra.
    + destruct Hk as [->| ->].
      * change (0 =? -1)%Z with false. change (0 =? 0)%Z with true. cbv iota.
        change (sel_crop par 0) with (p_crop par 0). apply (po_cc0 _ _ P). lia.
      * change (-1 =? -1)%Z with true. cbv iota. lra.
    + apply CanopyR.ccx_inv_le; [exact Hc | lra].
  - rewrite Es. cbn [d_age_days]. nra.
  - rewrite Es. cbn [d_age_days_ns]. nra.
  - rewrite Es. cbn [d_delayed_cds]. lia.
  - rewrite Es. cbn [d_r_cor]. lra.
  - intros H. contradiction H. reflexivity.
  - rewrite Es. cbn [d_tr_ratio]. lra.
  - rewrite Es. cbn [d_aer_days_comp]. clear. induction (so_prof (p_soil par)) as [|c r IH]; cbn [map]; constructor; [lra|exact IH].
  - rewrite Es. cbn [d_day_submerged]. apply nonneg_int_0.
Qed.

(* the two extra facts of the per-row theorems: PctLagPhase in [0,100], nothing irrigated so far *)
Theorem init_state_rinv2 par k zgw0 fcr th0 s :
  0 <= i_MaxIrrSeason (p_irr par) -> init_state par k zgw0 fcr th0 = Some s -> RInv2 par s.
Proof.
  intros Hm E. destruct (init_state_inv _ _ _ _ _ _ E) as (z & b & fc & th & _ & ->).
  unfold RInv2. cbn [d_pct_lag_phase d_irr_cum]. split; [lra|exact Hm].
Qed.

(* without a water table initialisation never raises, whatever the season counter and the water contents handed in;
   th, thini are the contents handed in and th_fc_Adj is th_fc *)
Theorem init_state_defined_no_table par k zgw0 fcr th0 : p_water_table par = 0%Z ->
  exists s, init_state par k zgw0 fcr th0 = Some s /\ d_th s = th0 /\ d_thini s = th0 /\
            d_th_fc_Adj s = map (fun c => c_th_fc c) (so_prof (p_soil par)) /\ d_wt_in_soil s = Some false /\ d_z_gw s = Some (-999).
Proof.
  intros Hwt. unfold init_state, init_water. cbv zeta. rewrite Hwt. cbn [Z.eqb]. eexists. split; [reflexivity|].
  cbn [d_th d_thini d_th_fc_Adj d_wt_in_soil d_z_gw]. rnum. repeat split; reflexivity.
Qed.

(* with a water table it raises exactly when no depth is available for step 0, or when zMid places the table inside the
   profile although no recomputed mid-point (top + bottom) / 2 lies below it, or th0 is too short *)
Theorem init_state_defined_table par k zgw fcr th0 : p_water_table par = 1%Z ->
  init_wt_in_soil zgw (so_prof (p_soil par)) = false ->
  exists s, init_state par k (Some zgw) fcr th0 = Some s /\ d_wt_in_soil s = Some false /\
            d_th_fc_Adj s = init_fcadj zgw (so_prof (p_soil par)) /\
            d_th s = (if fcr then init_fcadj zgw (so_prof (p_soil par)) else th0).
Proof.
  intros Hwt Hs. unfold init_state, init_water. cbv zeta. rewrite Hwt. cbn [Z.eqb Pos.eqb]. rewrite Hs. eexists. split; [reflexivity|].
  cbn [d_th d_th_fc_Adj d_wt_in_soil]. repeat split; reflexivity.
Qed.

(* ============================================================================================================ *)
(*  Part C  from the initial state to every day of the run                                                        *)
(* ============================================================================================================ *)
(* the season counter the clock starts with (Clock.init_model): 0 when the first planting step is step 0, else -1 *)
Definition init_season (c : ClockP) : Z :=
  match plant c with p :: _ => if (p =? 0)%Z then 0%Z else (-1)%Z | [] => (-1)%Z end.

Lemma init_season_cases c : (init_season c = 0 \/ init_season c = -1)%Z.
Proof. unfold init_season. destruct (plant c) as [|p r]; [right; reflexivity|]. destruct (p =? 0)%Z; [left|right]; reflexivity. Qed.

(* DaySideRun.init_strong + DaySideRun2.init_strong_season with the invariant asked only for the season counter the clock
   starts with; `2 <= n_steps`, `plant c <> []` and `0 <= first planting step` follow from wf_clock and init_c = Ok *)
Lemma init_clock_strong par crops c (s0 : DState R) (m0 : Model (DState R) (DRow R) (DOut R)) :
  wf_clock c -> init_c c s0 = Ok m0 -> StrongInv par crops (init_season c) 0 s0 ->
  minv (DState R) (DRow R) (DOut R) c m0 /\ SInv par crops (st m0) /\ DapInv (DState R) c (st m0) /\ phys (st m0) = s0.
Proof.
  intros Hwf Hi HS. unfold init_c in Hi.
  assert (Hp : plant c <> []) by (intros E; unfold init_model in Hi; rewrite E in Hi; discriminate).
  assert (Hp0 : forall p, nthZ (plant c) 0 = Some p -> (0 <= p)%Z) by (intros p Ep; apply (wf_window c Hwf 0%Z p Ep)).
  assert (H2 : (2 <= n_steps c)%Z).
  { destruct (plant c) as [|p r] eqn:Epl; [contradiction|].
    assert (E0 : nthZ (plant c) 0 = Some p) by (rewrite Epl; reflexivity).
    destruct (wf_window c Hwf 0%Z p E0). lia. }
  destruct (init_model_inv _ _ _ c s0 m0 Hwf H2 Hp Hp0 Hi) as (Hm & _ & _). split; [exact Hm|].
  revert Hi HS. unfold init_model, init_season. destruct (plant c) as [|p r] eqn:Epl; [discriminate|]. intros [= <-] HS.
  cbn [st season dap phys tsc]. split; [|split; [|reflexivity]].
  - unfold SInv. cbn [season dap phys]. exact HS.
  - unfold DapInv. cbn [st season dap tsc]. intros p'. destruct (Z.eqb_spec p 0) as [->|Hne].
    + unfold nthZ. rewrite Epl. cbn. intros [= <-]. lia.
    + unfold nthZ. cbn. discriminate.
Qed.

Section FromInit.
  Variables (par : DPar R) (crops : Z -> CropFull R) (c : ClockP) (ws : list (Day.W R)).
  Variables (zgw0 : option R) (fcr : bool) (th0 : list R) (s0 : DState R).
  Variables (m0 : Model (DState R) (DRow R) (DOut R)).
  (* static premises: parameters, clock, weather table *)
  Hypothesis Hcn : cn_ok par.
  Hypothesis Hmax : 0 <= i_MaxIrrSeason (p_irr par).
  Hypothesis POK : ParOK par crops.
  Hypothesis MOK : MgmtOK par.
  Hypothesis Hwf : wf_clock c.
  Hypothesis Hws : weather_ok (Day.W R) WOK2 ws.
  Hypothesis HSeason : forall k p h, nthZ (plant c) k = Some p -> nthZ (harv c) k = Some h ->
    let kk := cf_tr (crops (c_id (sel_crop par k))) in
    (IZR (h - p) - Transpiration.k_MaxCanopyCD kk - 5) * (Transpiration.k_fage kk / 100) <= Transpiration.k_Kcb kk.
  Hypothesis Htab : table_ok (so_prof (p_soil par)) (p_water_table par).
  (* with a water table: room for the capillary overshoot on every day (the one hypothesis about intermediate values the
     whole-run theorems keep; vacuous without a water table) *)
  Hypothesis HCap : forall season gs dap tsc w s Rs,
    results_opt (ctx par season gs dap tsc w s) (procs_concrete crops) = Some Rs -> CapOK par Rs.
  (* the one premise about the initial water contents *)
  Hypothesis Hth0 : in_bounds (so_prof (p_soil par)) th0.
  (* initialisation *)
  Hypothesis Hinit : init_state par (init_season c) zgw0 fcr th0 = Some s0.
  Hypothesis Hclock : init_c c s0 = Ok m0.

  Lemma from_init_premises :
    minv (DState R) (DRow R) (DOut R) c m0 /\ SInv par crops (st m0) /\ DapInv (DState R) c (st m0) /\ RInv2 par (phys (st m0)).
  Proof.
    pose proof (init_state_strong par crops zgw0 fcr th0 POK Hth0 Htab MOK _ (init_season_cases c) s0 Hinit) as HS.
    destruct (init_clock_strong par crops c s0 m0 Hwf Hclock HS) as (A & B & C & D).
    split; [exact A|]. split; [exact B|]. split; [exact C|]. rewrite D.
    exact (init_state_rinv2 par _ zgw0 fcr th0 s0 Hmax Hinit).
  Qed.

  Theorem run_from_init_cap fuel (m' : Model (DState R) (DRow R) (DOut R)) :
    run_till_c par crops c ws fuel m0 = Some (GOk m') ->
    exists evs : list (Ev (DState R) (Day.W R) (DRow R)),
      Reach (DState R) (Day.W R) (DRow R) (DOut R) (proc_c par crops) dead (matured par) (summary_of par) (reset par) (defined_c par crops)
            c ws m0 evs m' /\
      SInv par crops (st m') /\ RInv2 par (phys (st m')) /\
      Forall (fun e => strong_ev par crops e /\ rows_day par crops e) evs /\
      chained _ _ _ (reset par) ws (phys (st m')) evs /\
      rows (tabs m') = map (fun e => (e_tsc _ _ _ e, e_row _ _ _ e)) evs ++ rows (tabs m0).
  Proof.
    destruct from_init_premises as (A & B & C & D).
    exact (run_till_rows_strong_season par crops Hcn Hmax POK c ws Hwf Hws HSeason HCap fuel m0 m' A B C D).
  Qed.

  Theorem run_steps_from_init_cap k (m' : Model (DState R) (DRow R) (DOut R)) :
    run_steps_c par crops c ws k m0 = GOk m' ->
    exists evs : list (Ev (DState R) (Day.W R) (DRow R)),
      Reach (DState R) (Day.W R) (DRow R) (DOut R) (proc_c par crops) dead (matured par) (summary_of par) (reset par) (defined_c par crops)
            c ws m0 evs m' /\
      SInv par crops (st m') /\ RInv2 par (phys (st m')) /\
      Forall (fun e => strong_ev par crops e /\ rows_day par crops e) evs /\
      chained _ _ _ (reset par) ws (phys (st m')) evs /\
      rows (tabs m') = map (fun e => (e_tsc _ _ _ e, e_row _ _ _ e)) evs ++ rows (tabs m0).
  Proof.
    destruct from_init_premises as (A & B & C & D).
    exact (run_steps_rows_strong_season par crops Hcn Hmax POK c ws Hwf Hws HSeason HCap k m0 m' A B C D).
  Qed.
End FromInit.

(* THE CLOSED STATEMENT (no water table): run_model(till_termination = True) right after _initialize().  Premises: static
   conditions on the parameter structures, the clock and the weather table, and [in_bounds prof th0] for the interpolated
   initial water contents.  Conclusion: every per-row theorem (C01 / C02 / C03 / C04 / C05 / C06 / C13 / C19) for every day. *)
Theorem run_from_init par crops c ws zgw0 fcr th0 s0 (m0 m' : Model (DState R) (DRow R) (DOut R)) fuel :
  cn_ok par -> 0 <= i_MaxIrrSeason (p_irr par) -> ParOK par crops -> MgmtOK par ->
  wf_clock c -> weather_ok (Day.W R) WOK2 ws ->
  (forall k p h, nthZ (plant c) k = Some p -> nthZ (harv c) k = Some h ->
     let kk := cf_tr (crops (c_id (sel_crop par k))) in
     (IZR (h - p) - Transpiration.k_MaxCanopyCD kk - 5) * (Transpiration.k_fage kk / 100) <= Transpiration.k_Kcb kk) ->
  p_water_table par = 0%Z ->
  in_bounds (so_prof (p_soil par)) th0 ->
  init_state par (init_season c) zgw0 fcr th0 = Some s0 ->
  init_c c s0 = Ok m0 ->
  run_till_c par crops c ws fuel m0 = Some (GOk m') ->
  exists evs : list (Ev (DState R) (Day.W R) (DRow R)),
    Reach (DState R) (Day.W R) (DRow R) (DOut R) (proc_c par crops) dead (matured par) (summary_of par) (reset par) (defined_c par crops)
          c ws m0 evs m' /\
    SInv par crops (st m') /\ RInv2 par (phys (st m')) /\
    Forall (fun e => strong_ev par crops e /\ rows_day par crops e) evs /\
    chained _ _ _ (reset par) ws (phys (st m')) evs /\
    rows (tabs m') = map (fun e => (e_tsc _ _ _ e, e_row _ _ _ e)) evs ++ rows (tabs m0).
Proof.
  intros Hcn Hmax P M Hwf Hws HS Hwt Hth Hi Hc.
  apply (run_from_init_cap par crops c ws zgw0 fcr th0 s0 m0 Hcn Hmax P M Hwf Hws HS (or_introl Hwt)); try assumption.
  intros season gs dap tsc w s Rs _. apply CapOK_no_table. rewrite Hwt. discriminate.
Qed.

(* run_model(num_steps = k, initialize_model = False) right after _initialize() *)
Theorem run_steps_from_init par crops c ws zgw0 fcr th0 s0 (m0 m' : Model (DState R) (DRow R) (DOut R)) k :
  cn_ok par -> 0 <= i_MaxIrrSeason (p_irr par) -> ParOK par crops -> MgmtOK par ->
  wf_clock c -> weather_ok (Day.W R) WOK2 ws ->
  (forall k p h, nthZ (plant c) k = Some p -> nthZ (harv c) k = Some h ->
     let kk := cf_tr (crops (c_id (sel_crop par k))) in
     (IZR (h - p) - Transpiration.k_MaxCanopyCD kk - 5) * (Transpiration.k_fage kk / 100) <= Transpiration.k_Kcb kk) ->
  p_water_table par = 0%Z ->
  in_bounds (so_prof (p_soil par)) th0 ->
  init_state par (init_season c) zgw0 fcr th0 = Some s0 ->
  init_c c s0 = Ok m0 ->
  run_steps_c par crops c ws k m0 = GOk m' ->
  exists evs : list (Ev (DState R) (Day.W R) (DRow R)),
    Reach (DState R) (Day.W R) (DRow R) (DOut R) (proc_c par crops) dead (matured par) (summary_of par) (reset par) (defined_c par crops)
          c ws m0 evs m' /\
    SInv par crops (st m') /\ RInv2 par (phys (st m')) /\
    Forall (fun e => strong_ev par crops e /\ rows_day par crops e) evs /\
    chained _ _ _ (reset par) ws (phys (st m')) evs /\
    rows (tabs m') = map (fun e => (e_tsc _ _ _ e, e_row _ _ _ e)) evs ++ rows (tabs m0).
Proof.
  intros Hcn Hmax P M Hwf Hws HS Hwt Hth Hi Hc.
  apply (run_steps_from_init_cap par crops c ws zgw0 fcr th0 s0 m0 Hcn Hmax P M Hwf Hws HS (or_introl Hwt)); try assumption.
  intros season gs dap tsc w s Rs _. apply CapOK_no_table. rewrite Hwt. discriminate.
Qed.

(* ============================================================================================================ *)
(*  Part D  non-vacuity and refutations                                                                           *)
(* ============================================================================================================ *)
(* ---- the instance of DaySideP.Ex (two layers / four compartments, bunds 0.2 with 0.01 of water, net irrigation, no
        water table), initial contents at field capacity ------------------------------------------------------------- *)
Definition ex_th0 : list R := [22/100; 22/100; 39/100; 39/100].

Lemma ex_mgmt : MgmtOK DaySideP.Ex.par.
Proof. constructor; cbn; lra. Qed.

Lemma ex_th0_bounds : in_bounds (so_prof (p_soil DaySideP.Ex.par)) ex_th0.
Proof. exact (inv_thini _ _ DaySideP.Ex.day_inv). Qed.

Example init_state_example :
  ParOK DaySideP.Ex.par DaySideP.Ex.crops /\ MgmtOK DaySideP.Ex.par /\
  table_ok (so_prof (p_soil DaySideP.Ex.par)) (p_water_table DaySideP.Ex.par) /\
  in_bounds (so_prof (p_soil DaySideP.Ex.par)) ex_th0 /\
  exists s, init_state DaySideP.Ex.par 0 None false ex_th0 = Some s /\
            d_surface_storage s = 1/100 /\ d_z_root s = 3/10 /\ d_cc0_adj s = 1/100 /\ d_th s = ex_th0 /\
            DayInv DaySideP.Ex.par s /\ StrongInv DaySideP.Ex.par DaySideP.Ex.crops 0 0 s /\ RInv2 DaySideP.Ex.par s.
Proof.
  assert (Ht : table_ok (so_prof (p_soil DaySideP.Ex.par)) (p_water_table DaySideP.Ex.par)) by (left; reflexivity).
  split; [exact DaySideP.Ex.par_ok|]. split; [exact ex_mgmt|]. split; [exact Ht|]. split; [exact ex_th0_bounds|].
  destruct (init_state_defined_no_table DaySideP.Ex.par 0 None false ex_th0 eq_refl) as (s & E & Eth & _).
  exists s. split; [exact E|].
  pose proof (init_state_dayinv _ _ _ _ _ _ (po_wf _ _ DaySideP.Ex.par_ok) ex_th0_bounds Ht ex_mgmt E) as DI.
  pose proof (init_state_strong _ _ None false ex_th0 DaySideP.Ex.par_ok ex_th0_bounds Ht ex_mgmt 0%Z (or_introl eq_refl) s E) as SI.
  assert (R2 : RInv2 DaySideP.Ex.par s) by (apply (init_state_rinv2 _ 0%Z None false ex_th0 s); [cbn; lra | exact E]).
  destruct (init_state_inv _ _ _ _ _ _ E) as (z & b & fc & th & _ & Es).
  split; [|split; [|split; [|split; [exact Eth|split; [exact DI|split; [exact SI|exact R2]]]]]]; rewrite Es;
    cbn [d_surface_storage d_z_root d_cc0_adj]; change (0 =? -1)%Z with false; change (0 =? 0)%Z with true; cbv iota.
  - unfold init_surface, pmin. cbn [DaySideP.Ex.par DaySideP.Ex.field p_field f_bunds f_z_bund f_bund_water andb]. rnum.
    rewrite (Rltb_true (1 / 1000) (2 / 10)) by lra. rewrite (Rltb_false (2 / 10) (1 / 100)) by lra. reflexivity.
  - reflexivity.
  - reflexivity.
Qed.

(* ---- a water table inside the profile: the two-layer profile of GroundwaterR, table at 0.12 m (below the centre of
        the second compartment only) ------------------------------------------------------------------------------------ *)
Lemma grid3_intro (n : Z) x : x = IZR n / 1000 -> grid3 x.
Proof. intros ->. exists n. unfold pow10. change (10 ^ Z.max 3 0)%Z with 1000%Z. reflexivity. Qed.

Example init_water_table_example :
  let p := [GroundwaterR.ex_top; GroundwaterR.ex_bot] in
  wf_prof p /\ table_ok p 1 /\ in_bounds p [3/10; 1/10] /\
  exists fc th, init_water p 1 (Some (12/100)) false [3/10; 1/10] = Some (12/100, true, fc, th) /\
                fc = init_fcadj (12/100) p /\ th = [3/10; 3/10] /\ fcadj_ok p fc /\ in_bounds p th.
Proof.
  cbv zeta. set (p := [GroundwaterR.ex_top; GroundwaterR.ex_bot]).
  assert (Hw : wf_prof p) by exact GroundwaterR.ex_prof_wf.
  assert (Hu : uniform_s p).
  { intros c c' [<-|[<-|[]]] [<-|[<-|[]]]; cbn; intros H; try reflexivity; discriminate. }
  assert (Ht : table_ok p 1).
  { right. split; [reflexivity|]. split; [|exact Hu].
    repeat constructor; cbn; [apply (grid3_intro 300) | apply (grid3_intro 500) | apply (grid3_intro 100) | apply (grid3_intro 300)]; lra. }
  assert (Hb : in_bounds p [3/10; 1/10]) by (repeat constructor; cbn; lra).
  split; [exact Hw|]. split; [exact Ht|]. split; [exact Hb|].
  assert (Hh : hyd_th_s p 2 = 3/10) by (apply (hyd_th_s_uniform p GroundwaterR.ex_bot Hu); right; left; reflexivity).
  assert (E : init_water p 1 (Some (12/100)) false [3/10; 1/10] = Some (12/100, true, init_fcadj (12/100) p, [3/10; 3/10])).
  { unfold init_water. cbn [Z.eqb Pos.eqb].
    assert (Hs : init_wt_in_soil (12/100) p = true).
    { unfold init_wt_in_soil, gw_wt_in_soil. cbn [p existsb GroundwaterR.ex_top GroundwaterR.ex_bot c_zmid]. rnum. GroundwaterR.rdecide. reflexivity. }
    rewrite Hs. cbn [p sat_find sat_from GroundwaterR.ex_top GroundwaterR.ex_bot c_dzsum c_layer]. fold p. rnum.
    rewrite (Rleb_false (12/100) ((0 + 1/10) / 2)) by lra. rewrite (Rleb_true (12/100) ((1/10 + 2/10) / 2)) by lra.
    fold GroundwaterR.ex_top GroundwaterR.ex_bot. fold p. rewrite Hh. reflexivity. }
  eexists _, _. split; [exact E|]. split; [reflexivity|]. split; [reflexivity|].
  exact (init_water_inv _ _ _ _ _ _ _ _ _ Hw Hb Ht E).
Qed.

(* ---- the whole chain: a 120-step window, one season planted at step 0 and harvested at step 100, the weather record
        of DayP.Ex every day ---------------------------------------------------------------------------------------------- *)
Definition ex_clock : ClockP := {| n_steps := 120; plant := [0%Z]; harv := [100%Z]; off_season := false |}.
Definition ex_ws : list (Day.W R) := repeat DayP.Ex.w0 120.

Lemma nthZ_single x k y : nthZ [x] k = Some y -> k = 0%Z /\ y = x.
Proof.
  unfold nthZ. destruct (Z.ltb_spec k 0); [discriminate|].
  destruct (Z.to_nat k) as [|n] eqn:En; cbn; [intros [= <-]; split; [lia|reflexivity] | destruct n; discriminate].
Qed.

Lemma ex_clock_wf : wf_clock ex_clock.
Proof.
  constructor; cbn [ex_clock plant harv n_steps].
  - reflexivity.
  - intros k p h Hp Hh. destruct (nthZ_single _ _ _ Hp) as [_ ->]. destruct (nthZ_single _ _ _ Hh) as [_ ->]. lia.
  - intros k h p' Hh Hp. destruct (nthZ_single _ _ _ Hh) as [-> _]. destruct (nthZ_single _ _ _ Hp) as [H _]. lia.
  - intros k p Hp. destruct (nthZ_single _ _ _ Hp) as [_ ->]. lia.
Qed.

Lemma ex_ws_ok : weather_ok (Day.W R) WOK2 ex_ws.
Proof.
  intros t w. unfold nthW. destruct (t <? 0)%Z; [discriminate|]. intros E. apply nth_error_In in E.
  apply repeat_spec in E. subst w. constructor; cbn; lra.
Qed.

(* every premise of [run_from_init] holds on this instance, so its conclusion holds for every terminated run of it *)
Example run_from_init_example :
  exists s0 m0, init_state DaySideP.Ex.par (init_season ex_clock) None false ex_th0 = Some s0 /\ init_c ex_clock s0 = Ok m0 /\
    forall fuel m', run_till_c DaySideP.Ex.par DaySideP.Ex.crops ex_clock ex_ws fuel m0 = Some (GOk m') ->
    exists evs : list (Ev (DState R) (Day.W R) (DRow R)),
      Reach (DState R) (Day.W R) (DRow R) (DOut R) (proc_c DaySideP.Ex.par DaySideP.Ex.crops) dead (matured DaySideP.Ex.par)
            (summary_of DaySideP.Ex.par) (reset DaySideP.Ex.par) (defined_c DaySideP.Ex.par DaySideP.Ex.crops) ex_clock ex_ws m0 evs m' /\
      SInv DaySideP.Ex.par DaySideP.Ex.crops (st m') /\ RInv2 DaySideP.Ex.par (phys (st m')) /\
      Forall (fun e => strong_ev DaySideP.Ex.par DaySideP.Ex.crops e /\ rows_day DaySideP.Ex.par DaySideP.Ex.crops e) evs /\
      chained _ _ _ (reset DaySideP.Ex.par) ex_ws (phys (st m')) evs /\
      rows (tabs m') = map (fun e => (e_tsc _ _ _ e, e_row _ _ _ e)) evs ++ rows (tabs m0).
Proof.
  destruct (init_state_defined_no_table DaySideP.Ex.par (init_season ex_clock) None false ex_th0 eq_refl) as (s0 & E & _).
  exists s0. eexists. split; [exact E|]. split; [reflexivity|]. intros fuel m'.
  destruct rows_strong_hypotheses_satisfiable as (Hcn & Hmax & _ & _).
  apply (run_from_init DaySideP.Ex.par DaySideP.Ex.crops ex_clock ex_ws None false ex_th0 s0 _ m' fuel Hcn Hmax DaySideP.Ex.par_ok ex_mgmt
           ex_clock_wf ex_ws_ok); [| reflexivity | exact ex_th0_bounds | exact E | reflexivity].
  intros k p h Hp Hh. cbn [ex_clock plant harv] in Hp, Hh.
  destruct (nthZ_single _ _ _ Hp) as [_ ->]. destruct (nthZ_single _ _ _ Hh) as [_ ->]. cbn. lra.
Qed.

(* ---- refutations: with a water table the premise "th_fc, th_s on the 3-decimal grid" cannot be dropped ------------------ *)
(* one compartment 0.1 m thick with th_fc [fc] and th_s [s], the parameter structures of DaySideP.Ex with a water table *)
Definition comp_r (fc s : R) : Comp R :=
  {| c_dz := 1/10; c_dzsum := 1/10; c_zmid := 5/100; c_layer := 1; c_th_dry := 5/100; c_th_wp := 1/10; c_th_fc := fc; c_th_s := s;
     c_ksat := 500; c_tau := 1/2; c_pen := 100; c_acr := -1; c_bcr := 0 |}.
Definition soil_r (c : Comp R) : DSoil R :=
  {| so_cn := 61; so_adj_cn := 1; so_z_cn := 3/10; so_nComp := 1; so_z_top := 1/10; so_nLayer := 1; so_fshape_cr := 16;
     so_z_germ := 3/10; so_evap_z_min := 15/100; so_evap_z_max := 30/100; so_rew := 9; so_kex := 11/10; so_fwcc := 50;
     so_f_wrel_exp := 4/10; so_f_evap := 4; so_prof := [c] |}.
Definition par_r (c : Comp R) : DPar R :=
  {| p_soil := soil_r c; p_irr := DaySideP.Ex.irr; p_fallow_irr := DaySideP.Ex.irr; p_field := DaySideP.Ex.field;
     p_fallow_field := DaySideP.Ex.field; p_crop := fun _ => DaySideP.Ex.dcrop; p_fallow_crop := DaySideP.Ex.dcrop; p_water_table := 1;
     p_co2c := fun _ => 400; p_co2r := 36941/100; p_evap_steps := 20; p_sim_off := false |}.

Lemma comp_r_wf fc s : 1/10 < fc -> fc < s -> wf_prof [comp_r fc s].
Proof. intros H1 H2. repeat constructor; cbn; lra. Qed.
Lemma comp_r_uniform c : uniform_s [c].
Proof. intros c1 c2 [<-|[]] [<-|[]] _. reflexivity. Qed.
Lemma par_r_mgmt c : MgmtOK (par_r c).
Proof. constructor; cbn; lra. Qed.

Lemma Rround3_val x (n : Z) : Rabs (x * 1000 - IZR n) < / 2 -> Rround 3 x = IZR n / 1000.
Proof.
  intros H. unfold Rround, pow10. change (10 ^ Z.max 3 0)%Z with 1000%Z. rewrite (Znearest_imp _ _ n H). reflexivity.
Qed.

(* (1) th_fc = 0.3004, table 5 m deep (far from every compartment): th_fc_Adj = round(0.3004, 3) = 0.3 < th_fc *)
Lemma init_fcadj_r1 : init_fcadj 5 [comp_r (3004/10000) (45/100)] = [300/1000].
Proof.
  unfold init_fcadj, init_fcadj_loop, gw_far, gw_xmax. cbn [snd fst comp_r c_th_fc c_zmid]. rnum. GroundwaterR.rdecide.
  cbn [fst map c_th_fc]. rnum. f_equal. apply (Rround3_val _ 300). replace (3004 / 10000 * 1000 - 300) with (4/10) by field.
  rewrite Rabs_pos_eq; lra.
Qed.

Theorem init_fcadj_below_fc_refuted :
  exists p zgw, wf_prof p /\ uniform_s p /\ 0 <= zgw /\ ~ fcadj_ok p (init_fcadj zgw p).
Proof.
  exists [comp_r (3004/10000) (45/100)], 5. split; [apply comp_r_wf; lra|]. split; [apply comp_r_uniform|]. split; [lra|].
  rewrite init_fcadj_r1. intros H. inversion H as [|? ? ? ? [H1 _] _]; subst. cbn in H1. lra.
Qed.

(* (2) th_s = 0.4006, th_fc = 0.3, table 0.5 mm below the centre of the compartment, initial content given as "FC":
       th_fc_Adj = round(0.40054970..., 3) = 0.401 > th_s, and th is this array *)
Lemma init_fcadj_r2 : init_fcadj (505/10000) [comp_r (3/10) (4006/10000)] = [401/1000].
Proof.
  unfold init_fcadj, init_fcadj_loop, gw_far, gw_xmax. cbn [snd fst comp_r c_th_fc c_zmid]. rnum. GroundwaterR.rdecide.
  unfold init_fcadj_comp, gw_xmax. cbn [fst map comp_r c_th_fc c_th_s c_zmid]. rnum. GroundwaterR.rdecide.
  rewrite (GroundwaterR.Rpow_sq 2) by lra. rewrite GroundwaterR.Rpow_sq by lra.
  f_equal. apply (Rround3_val _ 401).
  apply Rabs_def1; lra.
Qed.

Lemma init_water_r2 :
  init_water [comp_r (3/10) (4006/10000)] 1 (Some (505/10000)) true [3/10] = Some (505/10000, false, [401/1000], [401/1000]).
Proof.
  unfold init_water. cbn [Z.eqb Pos.eqb]. rewrite init_fcadj_r2.
  unfold init_wt_in_soil, gw_wt_in_soil. cbn [existsb comp_r c_zmid]. rnum. GroundwaterR.rdecide. reflexivity.
Qed.

(* [init_state_dayinv] without the grid premise is false: every other premise holds, initialisation succeeds, and the water
   content of the compartment exceeds saturation (replayed on /repo: custom soil add_layer(1.2, 0.1, 0.3, 0.4006, 500, 100),
   GroundWater constant 0.0505 m, default initial water content: th[0] = 0.401 > 0.4006) *)
Theorem init_state_dayinv_no_grid_refuted :
  exists par k zgw0 fcr th0 s,
    wf_prof (so_prof (p_soil par)) /\ in_bounds (so_prof (p_soil par)) th0 /\ p_water_table par = 1%Z /\
    uniform_s (so_prof (p_soil par)) /\ MgmtOK par /\ init_state par k zgw0 fcr th0 = Some s /\
    ~ in_bounds (so_prof (p_soil par)) (d_th s) /\ ~ DayInv par s.
Proof.
  set (c := comp_r (3/10) (4006/10000)).
  assert (Hw : wf_prof [c]) by (apply comp_r_wf; lra).
  assert (E : exists s, init_state (par_r c) 0 (Some (505/10000)) true [3/10] = Some s /\ d_th s = [401/1000]).
  { unfold init_state. cbv zeta. cbn [par_r p_soil soil_r so_prof p_water_table]. unfold c. rewrite init_water_r2.
    eexists. split; [reflexivity|reflexivity]. }
  destruct E as (s & E & Eth).
  assert (Hnb : ~ in_bounds (so_prof (p_soil (par_r c))) (d_th s)).
  { rewrite Eth. cbn [par_r p_soil soil_r so_prof]. intros H. inversion H as [|? ? ? ? [_ H2] _]; subst. cbn in H2. lra. }
  exists (par_r c), 0%Z, (Some (505/10000)), true, [3/10], s.
  split; [exact Hw|]. split; [repeat constructor; cbn; lra|]. split; [reflexivity|]. split; [apply comp_r_uniform|].
  split; [apply par_r_mgmt|]. split; [exact E|]. split; [exact Hnb|]. intros DI. exact (Hnb (inv_th _ _ DI)).
Qed.

Print Assumptions init_state_dayinv.
Print Assumptions init_state_strong.
Print Assumptions init_state_rinv2.
Print Assumptions init_state_defined_no_table.
Print Assumptions run_from_init_cap.
Print Assumptions run_from_init.
Print Assumptions run_steps_from_init.
Print Assumptions init_state_example.
Print Assumptions init_water_table_example.
Print Assumptions run_from_init_example.
Print Assumptions init_fcadj_below_fc_refuted.
Print Assumptions init_state_dayinv_no_grid_refuted.
