(* InitStateP.v — the state built by Init/InitState.v [init_state] satisfies the premises of the whole-run theorems.

   Part A  the pieces: surface storage between bunds, adjusted field capacity with a water table (range BEFORE rounding for
           every profile; after `np.round(., 3)` only when th_fc / th_s lie on the 3-decimal grid — [init_fcadj_below_fc_refuted]),
           layer means (Kahan summation is a plain sum over R), saturation below the table.
   Part B  [init_state_dayinv]   DayConcreteP.DayInv,
           [init_state_strong]   DaySideP.StrongInv par crops k 0 for the season counter k the state was built for,
           [init_state_rinv2]    DaySideRows.RInv2,
           [init_state_defined_no_table]  without a water table initialisation never raises.
   Part C  [run_from_init]: from `init_state ... = Some s0`, `init_c c s0 = Ok m0` and a terminated run to the conclusion of
           DaySideRows.run_till_rows_strong_season_no_table (every per-row theorem for every day) — static premises +
           [in_bounds prof th0] only; [run_steps_from_init] likewise for run_model(num_steps = k).
   Part D  non-vacuity [Example]s on DaySideP.Ex, refutations.

   The premise of DaySideRun2.init_strong_season is `forall k, k = 0 \/ k = -1 -> StrongInv par crops k 0 s0` for ONE state s0.
   The state depends on the season counter (z_root, cc0_adj, surface_storage), and the state built for k = 0 carries the CC0 of
   the first crop, which need not be below the CC0 of the filler crop that indexes StrongInv at k = -1; so the clock part is
   re-derived here for the season counter the clock really starts with ([init_season], [init_clock_strong]). *)
From Coq Require Import Reals List Bool ZArith Lra Lia.
From Flocq Require Import Core.
From AC Require Import Num RInst Params Kernels Clock Day DayConcrete RunConcrete.
From AC.Water Require Import Groundwater.
From AC.Water Require Transpiration.
From AC.Init Require Import SoilBuild InitState.
From AC.proofs Require Import ProfR DayP DayConcreteP ClockP RunP RunConcreteP DaySideU DaySideP DaySideRun DaySideRun2 DayRowsP DaySideRows.
From AC.proofs Require GroundwaterR CanopyR.
Import ListNotations.
Local Open Scope R_scope.

#[local] Existing Instance YieldR.RTrig.

(* ============================================================================================================ *)
(*  Part A.1  surface storage                                                                                     *)
(* ============================================================================================================ *)
(* the initial ponding depth lies between 0 and the bund height of the management (0 without bunds) *)
Lemma init_surface_range (f : DField R) : 0 <= f_bund_water f -> 0 <= init_surface f <= zb_of f.
Proof.
  intros Hw. unfold init_surface, zb_of, pmin. rnum.
  destruct (f_bunds f); cbn [andb]; [|lra].
  destruct (Rltb_spec (1 / 1000) (f_z_bund f)) as [Hz|Hz]; [|lra].
  destruct (Rltb_spec (f_z_bund f) (f_bund_water f)); lra.
Qed.

(* ============================================================================================================ *)
(*  Part A.2  adjusted field capacity with a water table                                                          *)
(* ============================================================================================================ *)
Lemma init_fcadj_comp_range zgw c :
  c_th_fc c < c_th_s c -> gw_far zgw c = false -> c_th_fc c <= init_fcadj_comp zgw c <= c_th_s c.
Proof.
  intros Hfs Hfar. unfold gw_far in Hfar. apply orb_false_elim in Hfar. destruct Hfar as [H0 H1].
  pose proof (GroundwaterR.gw_xmax_pos c) as HX. unfold init_fcadj_comp. revert H0 H1. generalize (gw_xmax c) HX. intros X HX0.
  rnum. intros H0 H1.
  destruct (Rleb_spec X (zgw - c_zmid c)) as [|Hn]; [discriminate|]. clear H0 H1.
  rcases; try lra.
  rewrite (GroundwaterR.Rpow_sq X) by lra. rewrite GroundwaterR.Rpow_sq by lra.
  set (d := c_zmid c - (zgw - X)). set (dV := c_th_s c - c_th_fc c).
  assert (Hd : 0 <= d <= X) by (unfold d; lra).
  assert (Hdd : 0 <= d * d <= X * X) by (split; [apply Rmult_le_pos; lra | apply Rmult_le_compat; lra]).
  assert (HXX : 0 < X * X) by (apply Rmult_lt_0_compat; lra).
  pose proof (GroundwaterR.frac01 (d * d) (X * X) Hdd HXX) as Hq.
  replace (dV / (X * X) * (d * d)) with (dV * (d * d / (X * X))) by (field; lra).
  assert (HdV : 0 < dV) by (unfold dV; lra).
  assert (0 <= dV * (d * d / (X * X)) <= dV * 1)
    by (split; [apply Rmult_le_pos; lra | apply Rmult_le_compat_l; lra]).
  unfold dV in *. lra.
Qed.

(* before rounding: between field capacity and saturation, whatever the depth of the table (also negative) *)
Lemma init_loop_range zgw p : wf_prof p -> fcadj_ok p (fst (init_fcadj_loop zgw p)).
Proof.
  induction 1 as [|c r Hc Hr IH]; cbn [init_fcadj_loop]; [constructor|].
  pose proof (wf_fc_s c Hc) as Hfs.
  destruct (snd (init_fcadj_loop zgw r)); [|destruct (gw_far zgw c) eqn:E]; cbn [fst]; constructor; try exact IH; try lra.
  apply init_fcadj_comp_range; assumption.
Qed.

(* a number with at most three decimals *)
Definition grid3 (x : R) : Prop := exists n : Z, x = IZR n / pow10 3.
(* field capacity and saturation of every compartment have at most three decimals (every built-in soil, every soil
   derived from texture: Soil.calculate_soil_hydraulic_properties rounds to 3 decimals) *)
Definition grid3_prof (p : list (Comp R)) : Prop := Forall (fun c => grid3 (c_th_fc c) /\ grid3 (c_th_s c)) p.

Lemma Rround3_between a b x : grid3 a -> grid3 b -> a <= x <= b -> a <= Rround 3 x <= b.
Proof.
  intros [na ->] [nb ->] [H1 H2]. split.
  - rewrite <- (Rround_IZR 3 na). apply Rround_mono. exact H1.
  - rewrite <- (Rround_IZR 3 nb). apply Rround_mono. exact H2.
Qed.

(* after `np.round(thfcAdj, 3)` *)
Lemma init_fcadj_ok zgw p : wf_prof p -> grid3_prof p -> fcadj_ok p (init_fcadj zgw p).
Proof.
  intros Hw Hg. unfold init_fcadj. pose proof (init_loop_range zgw p Hw) as H. clear Hw. revert Hg.
  induction H as [|c a p l Hca H IH]; intros Hg; cbn [map]; [constructor|].
  inversion Hg as [|? ? [G1 G2] Hg']; subst. constructor; [|apply IH; exact Hg'].
  rnum. apply Rround3_between; assumption.
Qed.

Lemma init_fcadj_length zgw p : length (init_fcadj zgw p) = length p.
Proof.
  unfold init_fcadj. rewrite map_length. induction p as [|c r IH]; cbn [init_fcadj_loop]; [reflexivity|].
  destruct (snd (init_fcadj_loop zgw r)); [|destruct (gw_far zgw c)]; cbn [fst length]; rewrite IH; reflexivity.
Qed.

(* ============================================================================================================ *)
(*  Part A.3  the layer mean of th_s                                                                              *)
(* ============================================================================================================ *)
(* over the reals the compensation term of Kahan's summation stays 0 *)
Lemma kahan_sum (xs : list R) : forall s, kahan s 0 xs = s + fold_right Rplus 0 xs.
Proof.
  induction xs as [|v r IH]; intros s; cbn [kahan fold_right]; [lra|]. rnum.
  replace (s + (v - 0) - s - (v - 0)) with 0 by ring. rewrite IH. lra.
Qed.

Lemma len_F_length (xs : list R) : len_F xs = Z.of_nat (length xs).
Proof. induction xs as [|v r IH]; cbn [len_F length]; [reflexivity|]. rewrite IH. lia. Qed.

Lemma kahan_mean_const (xs : list R) x : xs <> [] -> Forall (fun v => v = x) xs -> kahan_mean xs = x.
Proof.
  intros Hne Hall. unfold kahan_mean. rnum. rewrite kahan_sum, len_F_length.
  assert (Hs : fold_right Rplus 0 xs = IZR (Z.of_nat (length xs)) * x).
  { clear Hne. induction Hall as [|v r -> Hr IH]; [cbn; lra|]. cbn [fold_right length]. rewrite IH.
    rewrite Nat2Z.inj_succ, succ_IZR. ring. }
  rewrite Hs. assert (Hn : IZR (Z.of_nat (length xs)) <> 0).
  { destruct xs; [contradiction|]. cbn [length]. rewrite Nat2Z.inj_succ, succ_IZR. pose proof (IZR_le 0 _ (Nat2Z.is_nonneg (length xs))). lra. }
  field. exact Hn.
Qed.
