(* InitialiseP.v — theorems about Init/Initialise.v (real instance): the initialisation computed from the user's configuration
   delivers the premises of the whole-run theorems, and the whole run started from the configuration satisfies them every day.

   Part A  [initialise_inv]: what `initialise cfg = IOk i` means — the chain of unit calls that succeeded ([IsInit]).
   Part B  [initialise_clock_wf]   the clock is well formed (CalendarP.season_list_wf);
           [initialise_state]      the state IS InitState.init_state applied to the model's own parameters, the season counter the
                                   clock starts with, z_gw[0], the FC flag and the interpolated water contents (by construction);
           [initialise_strong], [initialise_rinv2]   hence StrongInv / RInv2 (InitStateP);
   Part C  what is discharged from the CONFIGURATION: the clock, the weather records (ET0 >= 0, rain >= 0 in the table), MgmtOK, cn_ok,
           MaxIrrSeason, the scalar fields of ParOK, "no water table" ([CfgOK]); what stays a premise on the DERIVED parameters
           ([DerivedOK]: the profile predicates, CropOK of every season, the season-length bound, the initial water contents in bounds);
   Part D  [run_config_theorem]: from `run_config cfg fuel = RRun (Some (GOk m'))` to the conclusion of InitStateP.run_from_init;
   Part E  the profile part of [DerivedOK] from the soil specification (whole-centimetre thicknesses, strict layers): [derived_soil];
           CropOK of every season from the user's crop: [derived_crop]; the closed statement with both discharged: [run_config_theorem_cfg];
   Part F  Examples. *)
From Coq Require Import Reals List Bool ZArith Lra Lia.
From AC Require Import Num RInst Params Kernels Clock Day DayConcrete RunConcrete.
From AC.Init Require Calendar Inputs SoilBuild CropInit InitState.
From AC.Init Require Import Initialise.
From AC.Water Require Transpiration.
From AC.Crop Require Canopy Roots Yield.
From AC.proofs Require Import ProfR DayP DayConcreteP ClockP RunP RunConcreteP DaySideU DaySideP DaySideRun DaySideRun2 DayRowsP DaySideRows.
From AC.proofs Require Import CalendarP InputsP SoilBuildR InitStateP YieldR.
From AC.proofs Require RainIrrR TranspirationR RootsR CanopyR.
Local Open Scope R_scope.
Import ListNotations.
#[local] Existing Instance YieldR.RTrig.

Lemma ibind_ok {A B} (r : ires A) (f : A -> ires B) b : ibind r f = IOk b -> exists a, r = IOk a /\ f a = IOk b.
Proof. destruct r; [eauto|discriminate]. Qed.
Lemma of_cal_ok {A} (r : Calendar.result A) a : of_cal r = IOk a -> r = Calendar.Ok a.
Proof. destruct r; cbn; congruence. Qed.
Lemma of_in_ok {A} (r : Inputs.res A) a : of_in r = IOk a -> r = Inputs.Ok a.
Proof. destruct r; cbn; congruence. Qed.
Lemma of_crop_ok {A} (r : CropInit.ires A) a : of_crop r = IOk a -> r = CropInit.IOk a.
Proof. destruct r; cbn; congruence. Qed.
Lemma of_opt_ok {A} e (o : option A) a : of_opt e o = IOk a -> o = Some a.
Proof. destruct o; cbn; congruence. Qed.

(* ============================================================================================================ *)
(*  Part A  inversion                                                                                             *)
(* ============================================================================================================ *)
Section Inv.
  Variable cfg : Config R.
  Let u := cf_crop cfg.
  Let st := cf_start cfg.
  Let en := cf_end cfg.
  Let s := Initialise.day_of st.
  Let e := Initialise.day_of en.
  Let so := cf_soil cfg.
  Let iw := cf_iwc cfg.
  Let gw := cf_gw cfg.
  Definition conc0_of : R :=
    match Inputs.co2_init (year_of_day s) (year_of_day e) (cf_co2 cfg) with
    | Inputs.Ok c => Inputs.co2_current c | Inputs.Err _ => Inputs.co2_ref (cf_co2 cfg) end.
  Definition second_of : bool := match u_harvest u with None => true | Some _ => false end.

  Record Parts := {
    x_n : Z; x_tab : Inputs.Table R; x_Ls : list (SoilBuild.LayerSpec (F:=R)); x_rows : list (SoilBuild.Row (F:=R)); x_zsoil : R;
    x_wsel : list (Inputs.WRow R); x_mat : Z; x_l : list (Z * Z); x_irr : DIrr R; x_zser : list (option R); x_zgw : list R;
    x_prof : list (Comp R); x_soil : DSoil R; x_gdd0 : list R; x_o0 : CropInit.CropOut (F:=R); x_co2 : Inputs.CO2 R;
    x_th0 : list R; x_s0 : DState R }.

  Definition x_k0 (x : Parts) : Z := Calendar.initial_season_counter (x_l x).
  Definition x_seasons (x : Parts) := seasons_of u s (x_k0 x) (x_l x) (x_wsel x) (x_co2 x) conc0_of (x_o0 x).
  Definition x_par (x : Parts) : DPar R := par_of cfg s e (x_soil x) (x_irr x) (x_seasons x) conc0_of (x_o0 x).
  Definition x_crops (x : Parts) : Z -> CropFull R := crops_of u (x_seasons x) conc0_of (x_o0 x).
  Definition x_clock (x : Parts) : ClockP :=
    {| n_steps := x_n x; plant := map fst (x_l x); harv := map snd (x_l x); off_season := cf_off_season cfg |}.
  Definition x_zgw0 (x : Parts) : option R := if gw_present gw then hd_error (x_zgw x) else None.

  Record IsInit (x : Parts) (i : Init R) : Prop := {
    ii_clock : Calendar.read_clock st en = Calendar.Ok (x_n x);
    ii_tab : Inputs.clip_table s e (cf_weather cfg) = Inputs.Ok (x_tab x);
    ii_layers : SoilBuild.resolve_layers (so_layers so) = Some (x_Ls x);
    ii_rows : SoilBuild.build_deepened deepen_fuel (u_Zmax u) (so_dz so) (x_Ls x) = Some (x_rows x, x_zsoil x);
    ii_wsel : Inputs.select_weather (x_tab x) = Inputs.Ok (x_wsel x);
    ii_seasons : Calendar.season_list st en (u_planting u) (u_harvest u) (x_mat x) = Calendar.Ok (x_l x);
    ii_irr : irr_of (cf_irr cfg) s e = IOk (x_irr x);
    ii_zser : Inputs.gw_series (gw_present gw) (gw_method gw) (s - epoch) (e - epoch) (to_epoch (gw_obs gw)) = Inputs.Ok (x_zser x);
    ii_zgw : Inputs.all_some (x_zser x) = Some (x_zgw x);
    ii_prof : profile_of (gw_present gw) (x_rows x) = IOk (x_prof x);
    ii_soil : soil_of so (x_prof x) = IOk (x_soil x);
    ii_o0 : CropInit.crop_init (crop_in u second_of) (x_gdd0 x) conc0_of (Inputs.co2_ref (cf_co2 cfg)) = CropInit.IOk (x_o0 x);
    ii_co2 : Inputs.co2_init (year_of_day s) (year_of_day e) (cf_co2 cfg) = Inputs.Ok (x_co2 x);
    ii_th0 : SoilBuild.initial_wc (w_type iw) (w_method iw) (x_rows x) (x_zsoil x) (w_depth_layer iw) (w_value iw) = Some (x_th0 x);
    ii_s0 : InitState.init_state (x_par x) (x_k0 x) (x_zgw0 x) (fc_reset_of iw) (x_th0 x) = Some (x_s0 x);
    ii_eq : i = {| i_par := x_par x; i_crops := x_crops x; i_clock := x_clock x;
                   i_weather := weather_of (gw_present gw) (x_wsel x) (x_zgw x); i_state := x_s0 x;
                   i_reset_ok := fun k => snd (look3 (x_seasons x) conc0_of (x_o0 x) k) |} }.

  Lemma initialise_inv i : initialise cfg = IOk i -> exists x, IsInit x i.
  Proof.
    intros H. unfold initialise in H.
    apply ibind_ok in H as (n & Hn & H). apply of_cal_ok in Hn.
    apply ibind_ok in H as (tab & Htab & H). apply of_in_ok in Htab.
    apply ibind_ok in H as (Ls & HLs & H). apply of_opt_ok in HLs.
    apply ibind_ok in H as (u1 & Hu1 & H).
    apply ibind_ok in H as (rz & Hrz & H). apply of_opt_ok in Hrz.
    destruct rz as [rows zsoil].
    apply ibind_ok in H as (u2 & Hu2 & H).
    apply ibind_ok in H as (wsel & Hwsel & H). apply of_in_ok in Hwsel.
    apply ibind_ok in H as (mat & Hmat & H).
    apply ibind_ok in H as (l & Hl & H). apply of_cal_ok in Hl.
    apply ibind_ok in H as (irr & Hirr & H).
    apply ibind_ok in H as (zser & Hzser & H). apply of_in_ok in Hzser.
    apply ibind_ok in H as (zgw & Hzgw & H). apply of_opt_ok in Hzgw.
    apply ibind_ok in H as (prof & Hprof & H).
    apply ibind_ok in H as (soil & Hsoil & H).
    apply ibind_ok in H as (gdd0 & Hgdd0 & H).
    apply ibind_ok in H as (o0 & Ho0 & H). apply of_crop_ok in Ho0.
    apply ibind_ok in H as (co2 & Hco2 & H). apply of_in_ok in Hco2.
    apply ibind_ok in H as (th0 & Hth0 & H). apply of_opt_ok in Hth0.
    apply ibind_ok in H as (s0 & Hs0 & H). apply of_opt_ok in Hs0.
    injection H as <-.
    exists {| x_n := n; x_tab := tab; x_Ls := Ls; x_rows := rows; x_zsoil := zsoil; x_wsel := wsel; x_mat := mat; x_l := l; x_irr := irr;
              x_zser := zser; x_zgw := zgw; x_prof := prof; x_soil := soil; x_gdd0 := gdd0; x_o0 := o0; x_co2 := co2; x_th0 := th0; x_s0 := s0 |}.
    constructor; cbn [x_n x_tab x_Ls x_rows x_zsoil x_wsel x_mat x_l x_irr x_zser x_zgw x_prof x_soil x_gdd0 x_o0 x_co2 x_th0 x_s0];
      try assumption; try reflexivity.
  Qed.
End Inv.


(* ============================================================================================================ *)
(*  Part B  clock and state                                                                                       *)
(* ============================================================================================================ *)
Theorem initialise_clock_wf (cfg : Config R) i : initialise cfg = IOk i -> wf_clock (i_clock i).
Proof.
  intros H. destruct (initialise_inv _ _ H) as [x X]. rewrite (ii_eq _ _ _ X). cbn [i_clock]. unfold x_clock.
  destruct (n_steps_pos _ _ _ (ii_clock _ _ _ X)) as (-> & _ & S1 & S2 & _).
  exact (season_list_wf _ _ _ _ _ _ _ (sim_date_ok_valid _ S1) (sim_date_ok_valid _ S2) (ii_seasons _ _ _ X)).
Qed.

Lemma init_season_clock cfg (x : Parts) : init_season (x_clock cfg x) = x_k0 x.
Proof.
  unfold init_season, x_clock, x_k0, Calendar.initial_season_counter. cbn [plant]. destruct (x_l x) as [|[p h] r]; reflexivity.
Qed.

(* the initial state IS init_state applied to the model's own parameters, the season counter its clock starts with, the first
   groundwater depth, the FC flag and the interpolated initial water contents *)
Theorem initialise_state (cfg : Config R) i : initialise cfg = IOk i ->
  exists zgw0 th0 rows zsoil,
    SoilBuild.initial_wc (w_type (cf_iwc cfg)) (w_method (cf_iwc cfg)) rows zsoil (w_depth_layer (cf_iwc cfg)) (w_value (cf_iwc cfg)) = Some th0 /\
    SoilBuild.to_comps rows <> None /\
    InitState.init_state (i_par i) (init_season (i_clock i)) zgw0 (fc_reset_of (cf_iwc cfg)) th0 = Some (i_state i).
Proof.
  intros H. destruct (initialise_inv _ _ H) as [x X]. rewrite (ii_eq _ _ _ X). cbn [i_clock i_par i_state].
  exists (x_zgw0 cfg x), (x_th0 x), (x_rows x), (x_zsoil x). split; [exact (ii_th0 _ _ _ X)|]. split.
  - pose proof (ii_prof _ _ _ X) as P. unfold profile_of in P. destruct (SoilBuild.to_comps (x_rows x)); [discriminate|discriminate P].
  - rewrite init_season_clock. exact (ii_s0 _ _ _ X).
Qed.

Theorem initialise_strong (cfg : Config R) i : initialise cfg = IOk i ->
  ParOK (i_par i) (i_crops i) -> MgmtOK (i_par i) ->
  table_ok (so_prof (p_soil (i_par i))) (p_water_table (i_par i)) ->
  (forall th0 rows zsoil,
     SoilBuild.initial_wc (w_type (cf_iwc cfg)) (w_method (cf_iwc cfg)) rows zsoil (w_depth_layer (cf_iwc cfg)) (w_value (cf_iwc cfg)) = Some th0 ->
     SoilBuild.to_comps rows <> None -> in_bounds (so_prof (p_soil (i_par i))) th0) ->
  StrongInv (i_par i) (i_crops i) (init_season (i_clock i)) 0 (i_state i).
Proof.
  intros H P M Ht Hb. destruct (initialise_state _ _ H) as (zgw0 & th0 & rows & zs & E1 & E2 & E3).
  exact (init_state_strong _ _ zgw0 _ th0 P (Hb _ _ _ E1 E2) Ht M _ (init_season_cases _) _ E3).
Qed.

Theorem initialise_rinv2 (cfg : Config R) i : initialise cfg = IOk i ->
  0 <= i_MaxIrrSeason (p_irr (i_par i)) -> RInv2 (i_par i) (i_state i).
Proof.
  intros H Hm. destruct (initialise_state _ _ H) as (zgw0 & th0 & rows & zs & _ & _ & E3).
  exact (init_state_rinv2 _ _ _ _ _ _ Hm E3).
Qed.


(* ============================================================================================================ *)
(*  Part C  what the configuration discharges, what remains                                                       *)
(* ============================================================================================================ *)
Lemma irr_of_fields (iu : IrrU R) s e irr : irr_of iu s e = IOk irr ->
  i_NetIrrSMT irr = ir_NetIrrSMT iu /\ i_MaxIrrSeason irr = ir_MaxIrrSeason iu /\ i_WetSurf irr = ir_WetSurf iu /\ i_method irr = ir_method iu.
Proof.
  unfold irr_of. intros H. apply ibind_ok in H as (sch & _ & H). injection H as <-. cbn. auto.
Qed.

(* the curve number the run uses: the user's, or one of the four values compute_variables derives from Ksat *)
Definition cn_candidate (so : SoilU R) (cn : R) : Prop :=
  if (so_u_calc_cn so =? 1)%Z then cn = 46 \/ cn = 61 \/ cn = 72 \/ cn = 77 else cn = so_u_cn so.

Lemma soil_of_fields (so : SoilU R) prof soil : soil_of so prof = IOk soil ->
  so_prof soil = prof /\ so_kex soil = so_u_kex so /\ so_fwcc soil = so_u_fwcc so /\ cn_candidate so (so_cn soil).
Proof.
  unfold soil_of. destruct prof as [|c0 r]; [discriminate|]. intros H. apply ibind_ok in H as (cn & Hcn & H). injection H as <-.
  cbn [so_prof so_kex so_fwcc so_cn]. repeat split. unfold cn_candidate. unfold cn_of in Hcn. revert Hcn. rnum.
  destruct (so_u_calc_cn so =? 1)%Z; [|intros E; injection E as <-; reflexivity].
  repeat match goal with |- context [if ?b then _ else _] => destruct b end; intros E; try discriminate; injection E as <-; auto.
Qed.

Definition field_u_ok (f : Inputs.FieldM R) : Prop :=
  0 <= Inputs.fm_bund_water f /\ 0 <= Inputs.fm_z_bund f /\ 0 <= Inputs.fm_f_mulch f <= 1 /\ 0 <= Inputs.fm_mulch_pct f <= 100.

Definition cn_field_ok (cn : R) (f : Inputs.FieldM R) : Prop :=
  0 < RainIrrR.cn_mgmt cn (if Inputs.fm_cn_adj f then Inputs.fm_cn_adj_pct f else 0) <= 100.

(* ET0 >= 0 and rain >= 0 in every row of the user's weather table (cells read by column NAME) *)
Definition weather_nonneg (t : Inputs.Table R) : Prop :=
  forall r x, In r (Inputs.t_rows t) ->
    (named Inputs.CRefET t r = Inputs.Ok x -> 0 <= x) /\ (named Inputs.CPrecip t r = Inputs.Ok x -> 0 <= x).

(* the premises on the CONFIGURATION *)
Record CfgOK (cfg : Config R) : Prop := {
  ck_no_table : gw_present (cf_gw cfg) = false;
  ck_weather : weather_nonneg (cf_weather cfg);
  ck_maxirr : 0 <= ir_MaxIrrSeason (cf_irr cfg);
  ck_netsmt : 0 <= ir_NetIrrSMT (cf_irr cfg) <= 100;
  ck_wet : 0 <= ir_WetSurf (cf_irr cfg);
  ck_field : field_u_ok (cf_field cfg);
  ck_fallow : field_u_ok (cf_fallow_field cfg);
  ck_cn : forall cn, cn_candidate (cf_soil cfg) cn -> cn_field_ok cn (cf_field cfg) /\ cn_field_ok cn (cf_fallow_field cfg);
  ck_kex : 0 <= so_u_kex (cf_soil cfg);
  ck_fwcc : 0 <= so_u_fwcc (cf_soil cfg) <= 100;
  ck_co2r : Inputs.co2_ref (cf_co2 cfg) < 550 }.

(* what remains a premise on the DERIVED parameters *)
Record DerivedOK (i : Init R) : Prop := {
  dk_wf : wf_prof (so_prof (p_soil (i_par i)));
  dk_geom : TranspirationR.geom 0 (so_prof (p_soil (i_par i)));
  dk_layers : TranspirationR.layers_ok (so_prof (p_soil (i_par i)));
  dk_pen : RootsR.pen_ok (so_prof (p_soil (i_par i)));
  dk_crop : forall k, CropOK (sel_crop (i_par i) k) (i_crops i (c_id (sel_crop (i_par i) k))) (p_co2c (i_par i) k) (p_co2r (i_par i));
  dk_season : forall k p h, nthZ (plant (i_clock i)) k = Some p -> nthZ (harv (i_clock i)) k = Some h ->
     let kk := cf_tr (i_crops i (c_id (sel_crop (i_par i) k))) in
     (IZR (h - p) - Transpiration.k_MaxCanopyCD kk - 5) * (Transpiration.k_fage kk / 100) <= Transpiration.k_Kcb kk;
  dk_th0 : in_bounds (so_prof (p_soil (i_par i))) (d_th (i_state i)) }.

Lemma mapr_In {A B} (f : A -> Inputs.res B) l bs : Inputs.mapr f l = Inputs.Ok bs -> forall b, In b bs -> exists a, In a l /\ f a = Inputs.Ok b.
Proof.
  revert bs. induction l as [|a l IH]; cbn [Inputs.mapr]; intros bs H b Hb.
  - injection H as <-. contradiction.
  - apply bindr_ok in H as (b0 & E0 & H). apply bindr_ok in H as (bs0 & E1 & H). injection H as <-.
    destruct Hb as [<-|Hb]; [exists a; split; [left; reflexivity|exact E0]|].
    destruct (IH _ E1 _ Hb) as (a' & Ia & Ea). exists a'. split; [right; exact Ia|exact Ea].
Qed.

Lemma weather_rows_nonneg s e (t tab : Inputs.Table R) wsel :
  weather_nonneg t -> Inputs.clip_table s e t = Inputs.Ok tab -> Inputs.select_weather tab = Inputs.Ok wsel ->
  Forall (fun r => 0 <= Inputs.w_et0 r /\ 0 <= Inputs.w_prec r) wsel.
Proof.
  intros Hn E1 E2.
  assert (Hb : Inputs.bind_weather s e t = Inputs.Ok wsel) by (unfold Inputs.bind_weather; rewrite E1; exact E2).
  destruct (bind_ok_spec _ _ _ _ Hb) as [Hm _].
  apply Forall_forall. intros b Ib. destruct (mapr_In _ _ _ Hm b Ib) as (r & Ir & Er).
  unfold window_rows in Ir. apply filter_In in Ir as [Ir _].
  destruct (wrow_of_named _ _ _ Er) as (_ & _ & Hp & He).
  destruct (Hn r (Inputs.w_et0 b) Ir) as [A _]. destruct (Hn r (Inputs.w_prec b) Ir) as [_ B]. auto.
Qed.

Lemma weather_of_ok wt (wsel : list (Inputs.WRow R)) : forall zgw,
  Forall (fun r => 0 <= Inputs.w_et0 r /\ 0 <= Inputs.w_prec r) wsel -> Forall WOK2 (weather_of wt wsel zgw).
Proof.
  induction wsel as [|r rest IH]; intros zgw H; cbn [weather_of]; [constructor|].
  inversion H as [|? ? [A B] H']; subst. constructor; [|apply IH; exact H'].
  constructor; cbn [Day.w_et0 Day.w_rain]; assumption.
Qed.

Lemma Forall_weather_ok (ws : list (Day.W R)) : Forall WOK2 ws -> weather_ok (Day.W R) WOK2 ws.
Proof.
  intros H t w. unfold nthW. destruct (t <? 0)%Z; [discriminate|]. intros E. apply nth_error_In in E.
  rewrite Forall_forall in H. exact (H _ E).
Qed.

Section FromCfg.
  Variables (cfg : Config R) (x : Parts) (i : Init R).
  Hypothesis CK : CfgOK cfg.
  Hypothesis X : IsInit cfg x i.

  Lemma cfg_weather_ok : weather_ok (Day.W R) WOK2 (i_weather i).
  Proof.
    rewrite (ii_eq _ _ _ X). cbn [i_weather]. apply Forall_weather_ok, weather_of_ok.
    exact (weather_rows_nonneg _ _ _ _ _ (ck_weather _ CK) (ii_tab _ _ _ X) (ii_wsel _ _ _ X)).
  Qed.

  Lemma cfg_no_table : p_water_table (i_par i) = 0%Z.
  Proof. rewrite (ii_eq _ _ _ X). cbn [i_par]. unfold x_par, par_of. cbn [p_water_table]. rewrite (ck_no_table _ CK). reflexivity. Qed.

  Lemma cfg_maxirr : 0 <= i_MaxIrrSeason (p_irr (i_par i)).
  Proof.
    rewrite (ii_eq _ _ _ X). cbn [i_par]. unfold x_par, par_of. cbn [p_irr].
    destruct (irr_of_fields _ _ _ _ (ii_irr _ _ _ X)) as (_ & -> & _). exact (ck_maxirr _ CK).
  Qed.

  Lemma cfg_mgmt : MgmtOK (i_par i).
  Proof.
    rewrite (ii_eq _ _ _ X). cbn [i_par]. unfold x_par, par_of.
    destruct (irr_of_fields _ _ _ _ (ii_irr _ _ _ X)) as (E1 & _ & _ & _).
    destruct (ck_field _ CK) as (A1 & A2 & _). destruct (ck_fallow _ CK) as (B1 & _).
    constructor; cbn [p_field p_fallow_field p_irr p_fallow_irr field_of f_bund_water f_z_bund fallow_irr i_NetIrrSMT]; try assumption.
    - rewrite E1. exact (ck_netsmt _ CK).
    - rnum. lra.
  Qed.

  Lemma cfg_cn : cn_ok (i_par i).
  Proof.
    rewrite (ii_eq _ _ _ X). cbn [i_par]. unfold x_par, par_of, cn_ok, cn_ok_field. cbn [p_soil p_field p_fallow_field field_of f_cn_adj f_cn_adj_pct].
    destruct (soil_of_fields _ _ _ (ii_soil _ _ _ X)) as (_ & _ & _ & Hc).
    exact (ck_cn _ CK _ Hc).
  Qed.

  (* ParOK from the scalar premises on the configuration and the residual premises on the derived parameters *)
  Lemma cfg_parok : DerivedOK i -> ParOK (i_par i) (i_crops i).
  Proof.
    intros D.
    pose proof (dk_wf _ D) as D1. pose proof (dk_geom _ D) as D2. pose proof (dk_layers _ D) as D3. pose proof (dk_pen _ D) as D4.
    pose proof (dk_crop _ D) as D5. clear D.
    rewrite (ii_eq _ _ _ X) in *. cbn [i_par i_crops] in *.
    destruct (soil_of_fields _ _ _ (ii_soil _ _ _ X)) as (_ & Ek & Ef & _).
    destruct (irr_of_fields _ _ _ _ (ii_irr _ _ _ X)) as (_ & _ & Ew & _).
    destruct (ck_field _ CK) as (_ & _ & A3 & A4). destruct (ck_fallow _ CK) as (_ & _ & B3 & B4).
    constructor; try assumption.
    - unfold x_par, par_of. cbn [p_soil]. rewrite Ek. exact (ck_kex _ CK).
    - unfold x_par, par_of. cbn [p_soil]. rewrite Ef. exact (ck_fwcc _ CK).
    - unfold x_par, par_of. cbn [p_field field_of f_f_mulch f_mulch_pct]. split; assumption.
    - unfold x_par, par_of. cbn [p_fallow_field field_of f_f_mulch f_mulch_pct]. split; assumption.
    - unfold x_par, par_of. cbn [p_irr]. rewrite Ew. exact (ck_wet _ CK).
    - unfold x_par, par_of. cbn [p_fallow_irr fallow_irr i_WetSurf]. rnum. lra.
    - unfold x_par, par_of. cbn [p_co2r]. exact (ck_co2r _ CK).
    - (* the CC0 the reset stores is the CC0 the canopy process reads: the same number *)
      intros k Hk. specialize (D5 k). pose proof (co_can _ _ _ _ D5) as Hc. destruct Hc as [H0 _ _ _ _].
      revert H0. unfold sel_crop. replace (0 <=? k)%Z with true by (symmetry; apply Z.leb_le; exact Hk).
      unfold x_par, par_of, x_crops, crops_of. cbn [p_crop dcrop_of c_id c_CC0 cropfull_of cf_can Canopy.k_CC0]. lra.
  Qed.
End FromCfg.


(* ============================================================================================================ *)
(*  Part D  the whole run from the configuration                                                                  *)
(* ============================================================================================================ *)
Lemma run_config_run (cfg : Config R) fuel m' : run_config cfg fuel = RRun (Some (GOk m')) ->
  exists i m0, initialise cfg = IOk i /\ init_c (i_clock i) (i_state i) = Ok m0 /\
               run_till_c (i_par i) (i_crops i) (i_clock i) (i_weather i) fuel m0 = Some (GOk m').
Proof.
  unfold run_config. destruct (initialise cfg) as [i|] eqn:Hi; [|discriminate].
  destruct (init_c (i_clock i) (i_state i)) as [m0|] eqn:Hc; [|discriminate].
  intros H. exists i, m0. split; [reflexivity|]. split; [exact Hc|].
  destruct (first_bad_season i) as [kb|].
  - destruct (run_till_c _ _ _ _ _ _) as [[m| |t]|]; try (injection H as <-; reflexivity).
    + destruct (kb <=? season (st m))%Z; [discriminate|]. injection H as <-. reflexivity.
    + destruct (match nthZ (plant (i_clock i)) kb with Some p => (p <=? t)%Z | None => false end); [discriminate|].
      injection H as H. discriminate H.
  - injection H as <-. reflexivity.
Qed.

(* THE CLOSED STATEMENT: AquaCropModel(<the user's objects>).run_model(till_termination=True), no water table.
   Premises: [CfgOK] on the configuration alone, [DerivedOK] on the parameters the initialisation derives from it.
   Conclusion: that of InitStateP.run_from_init — the run is a chain of days ([Reach]) from the initialised model, every day
   satisfies [strong_ev] and every per-row theorem ([rows_day]: C01 / C02 / C03 / C04 / C05 / C06 / C13 / C19). *)
Theorem run_config_theorem (cfg : Config R) fuel m' :
  CfgOK cfg ->
  (forall i, initialise cfg = IOk i -> DerivedOK i) ->
  run_config cfg fuel = RRun (Some (GOk m')) ->
  exists i m0 (evs : list (Ev (DState R) (Day.W R) (DRow R))),
    initialise cfg = IOk i /\ init_c (i_clock i) (i_state i) = Ok m0 /\
    Reach (DState R) (Day.W R) (DRow R) (DOut R) (proc_c (i_par i) (i_crops i)) dead (matured (i_par i)) (summary_of (i_par i))
          (reset (i_par i)) (defined_c (i_par i) (i_crops i)) (i_clock i) (i_weather i) m0 evs m' /\
    SInv (i_par i) (i_crops i) (st m') /\ RInv2 (i_par i) (phys (st m')) /\
    Forall (fun e => strong_ev (i_par i) (i_crops i) e /\ rows_day (i_par i) (i_crops i) e) evs /\
    chained _ _ _ (reset (i_par i)) (i_weather i) (phys (st m')) evs /\
    rows (tabs m') = map (fun e => (e_tsc _ _ _ e, e_row _ _ _ e)) evs ++ rows (tabs m0).
Proof.
  intros CK DK HR. destruct (run_config_run _ _ _ HR) as (i & m0 & Hi & Hc & Hrun).
  exists i, m0. destruct (initialise_inv _ _ Hi) as [x X]. specialize (DK i Hi).
  destruct (initialise_state _ _ Hi) as (zgw0 & th0 & rows & zs & _ & _ & E3).
  pose proof (cfg_no_table _ _ _ CK X) as Hwt.
  (* without a water table th = th0 *)
  assert (Hth : in_bounds (so_prof (p_soil (i_par i))) th0).
  { destruct (init_state_defined_no_table (i_par i) (init_season (i_clock i)) zgw0 (fc_reset_of (cf_iwc cfg)) th0 Hwt) as (s & Es & Et & _).
    rewrite E3 in Es. injection Es as <-. rewrite <- Et. exact (dk_th0 _ DK). }
  destruct (run_from_init (i_par i) (i_crops i) (i_clock i) (i_weather i) zgw0 (fc_reset_of (cf_iwc cfg)) th0 (i_state i) m0 m' fuel
              (cfg_cn _ _ _ CK X) (cfg_maxirr _ _ _ CK X) (cfg_parok _ _ _ CK X DK) (cfg_mgmt _ _ _ CK X)
              (initialise_clock_wf _ _ Hi) (cfg_weather_ok _ _ _ CK X) (dk_season _ DK) Hwt Hth E3 Hc Hrun) as (evs & H).
  exists evs. split; [exact Hi|]. split; [exact Hc|]. exact H.
Qed.


(* ============================================================================================================ *)
(*  Part E  the profile part of DerivedOK from the soil specification                                             *)
(* ============================================================================================================ *)
(* valid soil layers: whole-centimetre compartment thicknesses; every layer (after the pedotransfer, for texture layers) has
   0 < wp < fc < s, Ksat >= 1 and a penetrability that is a percentage *)
Definition soil_u_ok (so : SoilU R) : Prop :=
  Forall cm (so_dz so) /\
  forall Ls, SoilBuild.resolve_layers (so_layers so) = Some Ls ->
    Forall (fun L => strict_layer L /\ 0 <= SoilBuild.ls_pen L <= 100) Ls.

Definition asg_strict (a : SoilBuild.Asg (F:=R)) : Prop :=
  SoilBuild.a_dry a = SoilBuild.a_wp a / 2 /\ 0 < SoilBuild.a_wp a /\ SoilBuild.a_wp a < SoilBuild.a_fc a /\
  SoilBuild.a_fc a < SoilBuild.a_s a /\ 8 / 100 <= SoilBuild.a_tau a <= 1 /\ 1 <= SoilBuild.a_ksat a /\ 0 <= SoilBuild.a_pen a <= 100.

Lemma mk_asg_strict k L : strict_layer L -> 0 <= SoilBuild.ls_pen L <= 100 -> asg_strict (SoilBuild.mk_asg k L).
Proof.
  intros (H1 & H2 & H3 & H4) Hp. unfold asg_strict, SoilBuild.mk_asg. cbn. rnum.
  pose proof (tau_of_range (SoilBuild.ls_ksat L)). pose proof (tau_of_pos _ H4). repeat split; try lra; try exact H0; try apply H.
Qed.

Lemma rows_sat_same (P : SoilBuild.Asg (F:=R) -> Prop) rows rows' :
  Forall2 same_but_dz rows rows' -> rows_sat P rows -> rows_sat P rows'.
Proof.
  unfold rows_sat. induction 1 as [|r r' l l' (Ea & _) _ IH]; intros H; [constructor|].
  inversion H; subst. constructor; [rewrite Ea; assumption|apply IH; assumption].
Qed.

Lemma to_comps_geom rows : forall p top, SoilBuild.to_comps rows = Some p -> sums_ok top rows -> TranspirationR.geom top p.
Proof.
  induction rows as [|r rows IH]; intros p top; cbn [SoilBuild.to_comps].
  - intros E _. injection E as <-. exact I.
  - destruct (SoilBuild.to_comp r) as [c|] eqn:Ec; [|discriminate]. destruct (SoilBuild.to_comps rows) as [cs|]; [|discriminate].
    intros E [S1 S2]. injection E as <-. unfold SoilBuild.to_comp in Ec. destruct (SoilBuild.r_asg r); [|discriminate]. injection Ec as <-.
    cbn [TranspirationR.geom c_dzsum c_dz]. split; [exact S1|]. apply IH; [reflexivity|exact S2].
Qed.

Theorem derived_soil (cfg : Config R) i :
  initialise cfg = IOk i -> gw_present (cf_gw cfg) = false -> soil_u_ok (cf_soil cfg) ->
  wf_prof (so_prof (p_soil (i_par i))) /\ TranspirationR.geom 0 (so_prof (p_soil (i_par i))) /\ RootsR.pen_ok (so_prof (p_soil (i_par i))).
Proof.
  intros Hi Hgw [Hcm Hls]. destruct (initialise_inv _ _ Hi) as [x X]. rewrite (ii_eq _ _ _ X). cbn [i_par]. unfold x_par, par_of. cbn [p_soil].
  destruct (soil_of_fields _ _ _ (ii_soil _ _ _ X)) as (-> & _).
  pose proof (ii_prof _ _ _ X) as Hp. rewrite Hgw in Hp. unfold profile_of in Hp.
  destruct (SoilBuild.to_comps (x_rows x)) as [cs|] eqn:Ec; [|discriminate]. cbn [of_opt ibind] in Hp. injection Hp as Hp. rewrite <- Hp.
  specialize (Hls _ (ii_layers _ _ _ X)).
  pose proof (ii_rows _ _ _ X) as Hd. unfold SoilBuild.build_deepened in Hd.
  destruct (SoilBuild.build_rows (so_dz (cf_soil cfg)) (x_Ls x)) as [[rows0 zs0]|] eqn:Eb; [|discriminate].
  (* the undeepened profile *)
  destruct (build_wf_geometry _ _ _ _ Hcm Eb) as (M & G & Z).
  assert (S0 : rows_sat asg_strict rows0).
  { eapply build_rows_sat; [|exact Eb]. intros L k HL. rewrite Forall_forall in Hls. destruct (Hls L HL). apply mk_asg_strict; assumption. }
  assert (A0 : Forall assigned rows0).
  { unfold SoilBuild.build_rows in Eb. destruct (SoilBuild.add_layers _ _); [|discriminate]. exact (fill_nan_assigned _ _ _ Eb). }
  pose proof (deepen_preserves _ _ _ _ _ _ A0 Hd) as Sm.
  assert (N0 : rows0 <> []).
  { intros ->. inversion Sm as [E1 E2|]. rewrite <- E2 in Ec. cbn in Ec. injection Ec as <-.
    pose proof (ii_soil _ _ _ X) as Hs. rewrite <- Hp in Hs. discriminate Hs. }
  assert (C0 : Forall cm (map SoilBuild.r_dz rows0)) by (rewrite M; exact Hcm).
  destruct (deepen_sums _ _ _ _ _ _ N0 A0 C0 (geom_sums _ _ G) ltac:(rewrite M; exact Z) Hd) as (C1 & S1 & _ & _).
  pose proof (rows_sat_same _ _ _ Sm S0) as P1.
  split; [|split].
  - assert (Hdz : Forall (fun c => 0 < c_dz c) cs).
    { apply to_comps_dz in Ec. rewrite <- Ec in C1. rewrite Forall_map in C1. eapply Forall_impl; [|exact C1]. intros c Hc. apply cm_pos; exact Hc. }
    assert (Hs : Forall (fun c => 0 < c_th_dry c /\ c_th_dry c < c_th_wp c /\ c_th_wp c < c_th_fc c /\ c_th_fc c < c_th_s c /\
                                  0 < c_tau c <= 1 /\ 0 < c_ksat c) cs).
    { apply (to_comps_forall _ asg_strict (x_rows x) cs); [|exact P1|exact Ec].
      intros r a c Ea (H1 & H2 & H3 & H4 & H5 & H6 & _) Et. unfold SoilBuild.to_comp in Et. rewrite Ea in Et. injection Et as <-. cbn. lra. }
    unfold wf_prof. rewrite Forall_forall in *. intros c Hc. destruct (Hs c Hc) as (H1 & H2 & H3 & H4 & H5 & H6).
    constructor; auto.
  - exact (to_comps_geom _ _ _ Ec S1).
  - unfold RootsR.pen_ok. apply (to_comps_forall _ asg_strict (x_rows x) cs); [|exact P1|exact Ec].
    intros r a c Ea (_ & _ & _ & _ & _ & _ & H7) Et. unfold SoilBuild.to_comp in Et. rewrite Ea in Et. injection Et as <-. cbn. exact H7.
Qed.


(* ============================================================================================================ *)
(*  Part E.2  CropOK of every season from the user's crop                                                         *)
(* ============================================================================================================ *)
(* what every season's crop record shares with the crop at initialisation: CC0, SxTop, SxBot (reset_initial_conditions rewrites fCO2,
   and for thermal-time crops the calendar-day lengths, HIGC and the linear switch — nothing CropOK reads) *)
Definition same_core (o o' : CropInit.CropOut (F:=R)) : Prop :=
  CropInit.o_CC0 o' = CropInit.o_CC0 o /\ CropInit.o_SxTop o' = CropInit.o_SxTop o /\ CropInit.o_SxBot o' = CropInit.o_SxBot o.

Lemma crop_init_core (c : CropInit.CropIn (F:=R)) gdd conc ref o : CropInit.crop_init c gdd conc ref = CropInit.IOk o ->
  CropInit.o_CC0 o = CropInit.cc0_of (CropInit.i_PlantPop c) (CropInit.i_SeedSize c) /\
  CropInit.o_SxTop o = fst (CropInit.sx_terms (CropInit.i_SxTopQ c) (CropInit.i_SxBotQ c)) /\
  CropInit.o_SxBot o = snd (CropInit.sx_terms (CropInit.i_SxTopQ c) (CropInit.i_SxBotQ c)).
Proof.
  unfold CropInit.crop_init. destruct (CropInit.sx_terms _ _) as [sxt sxb]. cbn [fst snd].
  repeat match goal with
         | |- context [match ?x with _ => _ end] => destruct x
         | |- context [if ?b then _ else _] => destruct b
         end; intros E; try discriminate E; injection E as <-; cbn; auto.
Qed.

Lemma reseason_core u o gdd o2 : reseason_gdd (F:=R) u o gdd = Some o2 -> same_core o o2.
Proof.
  unfold reseason_gdd. destruct (CropInit.crop_init _ _ _ _); [|discriminate]. intros E. injection E as <-. repeat split.
Qed.

Lemma season_of_core (u : CropU R) s k0 wsel co2 conc0 o0 k p : same_core o0 (snd (fst (season_of u s k0 wsel co2 conc0 o0 k p))).
Proof.
  unfold season_of. destruct ((k =? 0)%Z && (k0 =? 0)%Z); [repeat split|].
  destruct (Inputs.co2_season _ _); [|repeat split].
  destruct (u_CalendarType u =? 2)%Z; [|repeat split].
  destruct (gdd_from _ _ _); [|repeat split].
  destruct (reseason_gdd _ _ _) eqn:E; [|repeat split].
  cbn [fst snd]. destruct (reseason_core _ _ _ _ E) as (A & B & C). cbn in A, B, C. repeat split; assumption.
Qed.

Lemma look3_core (u : CropU R) s k0 l wsel co2 conc0 o0 k :
  same_core o0 (snd (fst (look3 (seasons_of u s k0 l wsel co2 conc0 o0) conc0 o0 k))).
Proof.
  unfold look3. destruct (k <? 0)%Z; [repeat split|].
  unfold seasons_of. set (f := fun kp : Z * Z => season_of u s k0 wsel co2 conc0 o0 (fst kp) (snd kp)).
  destruct (nth_in_or_default (Z.to_nat k) (map f (combine (Calendar.zrange 0 (Z.of_nat (length l))) (map fst l))) (conc0, o0, true)) as [Hin | ->].
  - apply in_map_iff in Hin as (kp & <- & _). apply season_of_core.
  - repeat split.
Qed.

Definition cgc_u (u : CropU R) : R := if (u_CalendarType u =? 1)%Z then u_CGC_CD u else u_CGC u.
Definition cdc_u (u : CropU R) : R := if (u_CalendarType u =? 1)%Z then u_CDC_CD u else u_CDC u.
Definition zmin_ok (u : CropU R) (zmin : R) : Prop :=
  0 < zmin /\ zmin <= u_Zmax u /\ zmin * (u_PctZmin u / 100) <= u_Zmax u /\ RootsR.zmin_cm zmin.

(* the premises on the user's crop (catalogue row after the overrides) *)
Record CropUOK (u : CropU R) : Prop := {
  cu_cc0 : 0 < CropInit.cc0_of (u_PlantPop u) (u_SeedSize u);
  cu_cc0x : CropInit.cc0_of (u_PlantPop u) (u_SeedSize u) <= u_CCx u;
  cu_ccx : u_CCx u <= 1;
  cu_cgc : 0 < cgc_u u;
  cu_cdc : 0 <= cdc_u u;
  cu_step : CropInit.cc0_of (u_PlantPop u) (u_SeedSize u) *
            exp (cgc_u u * (if (u_CalendarType u =? 1)%Z then 1 else u_Tupp u - u_Tbase u)) <= u_CCx u;
  cu_temp : u_Tbase u <= u_Tupp u;
  cu_zmin : zmin_ok u (u_Zmin u);
  cu_zmin_f : zmin_ok u (3 / 10);                 (* the filler crop before the first season: Zmin = 0.3 *)
  cu_fr : 0 < u_fshape_r u;
  cu_pup : 0 <= u_pu2 u < 1;
  cu_fw : u_fw2 u <> 0;
  cu_sxt : 0 <= fst (CropInit.sx_terms (u_SxTopQ u) (u_SxBotQ u));
  cu_sxb : 0 <= snd (CropInit.sx_terms (u_SxTopQ u) (u_SxBotQ u));
  cu_lag : 1 < u_LagAer u;
  cu_lag_int : exists L : Z, u_LagAer u = IZR L;
  cu_kcb : 0 <= u_Kcb u;
  cu_fage : 0 <= u_fage u }.

Lemma crop_ok_of (u : CropU R) (o : CropInit.CropOut (F:=R)) (dc : DCrop R) co2c co2r :
  CropUOK u ->
  CropInit.o_CC0 o = CropInit.cc0_of (u_PlantPop u) (u_SeedSize u) ->
  CropInit.o_SxTop o = fst (CropInit.sx_terms (u_SxTopQ u) (u_SxBotQ u)) ->
  CropInit.o_SxBot o = snd (CropInit.sx_terms (u_SxTopQ u) (u_SxBotQ u)) ->
  c_Tupp dc = u_Tupp u -> c_Tbase dc = u_Tbase u -> zmin_ok u (c_Zmin dc) ->
  co2c - co2r <= 20 * (550 - co2r) ->
  CropOK dc (cropfull_of u o) co2c co2r.
Proof.
  intros U E0 E1 E2 Eu Eb (Z1 & Z2 & Z3 & Z4) Hco2.
  constructor; unfold cropfull_of;
    cbn [cf_can cf_root cf_tr Canopy.k_CC0 Canopy.k_CCx Canopy.k_CGC Canopy.k_CDC Canopy.k_cal Roots.rc_SxTop Roots.rc_SxBot
         Transpiration.k_SxTop Transpiration.k_SxBot Transpiration.k_LagAer Transpiration.k_Kcb Transpiration.k_fage].
  - constructor; cbn [Canopy.k_CC0 Canopy.k_CCx Canopy.k_CGC Canopy.k_CDC]; rewrite ?E0.
    + exact (cu_cc0 _ U). + exact (cu_cc0x _ U). + exact (cu_ccx _ U). + exact (cu_cgc _ U). + exact (cu_cdc _ U).
  - rewrite E0, Eu, Eb. exact (cu_step _ U).
  - rewrite Eu, Eb. exact (cu_temp _ U).
  - unfold root_crop. cbn [cf_root]. constructor; unfold Roots.rd_zini;
      cbn [Roots.rc_Zmin Roots.rc_Zmax Roots.rc_PctZmin Roots.rc_fshape_r Roots.rc_pup1 Roots.rc_fshape_w1]; rnum; try assumption.
    + exact (cu_fr _ U). + exact (cu_pup _ U). + exact (cu_fw _ U).
  - exact Z4.
  - rewrite E1. exact (cu_sxt _ U).
  - rewrite E2. exact (cu_sxb _ U).
  - rewrite E1. exact (cu_sxt _ U).
  - rewrite E2. exact (cu_sxb _ U).
  - exact (cu_lag _ U).
  - exact (cu_lag_int _ U).
  - exact (cu_kcb _ U).
  - exact (cu_fage _ U).
  - exact Hco2.
Qed.

(* CropOK of every season (and of the filler crop) from the user's crop; the CO2 concentrations of the seasons stay a premise on the
   derived parameters (they come out of the interpolated CO2 table) *)
Theorem derived_crop (cfg : Config R) i :
  initialise cfg = IOk i -> CropUOK (cf_crop cfg) ->
  (forall k, p_co2c (i_par i) k - p_co2r (i_par i) <= 20 * (550 - p_co2r (i_par i))) ->
  forall k, CropOK (sel_crop (i_par i) k) (i_crops i (c_id (sel_crop (i_par i) k))) (p_co2c (i_par i) k) (p_co2r (i_par i)).
Proof.
  intros Hi U Hco2 k. destruct (initialise_inv _ _ Hi) as [x X]. specialize (Hco2 k). revert Hco2.
  rewrite (ii_eq _ _ _ X). cbn [i_par i_crops]. intros Hco2.
  destruct (crop_init_core _ _ _ _ _ (ii_o0 _ _ _ X)) as (C0 & C1 & C2). cbn [crop_in CropInit.i_PlantPop CropInit.i_SeedSize CropInit.i_SxTopQ CropInit.i_SxBotQ] in C0, C1, C2.
  unfold sel_crop. destruct (0 <=? k)%Z eqn:Ek.
  - unfold x_par at 1 2. unfold par_of. cbn [p_crop dcrop_of c_id]. unfold x_crops, crops_of.
    destruct (look3_core (cf_crop cfg) (Initialise.day_of (cf_start cfg)) (x_k0 x) (x_l x) (x_wsel x) (x_co2 x) (conc0_of cfg) (x_o0 x) k) as (A & B & C).
    apply crop_ok_of; try assumption; try reflexivity.
    + unfold x_seasons. rewrite A. exact C0.
    + unfold x_seasons. rewrite B. exact C1.
    + unfold x_seasons. rewrite C. exact C2.
    + exact (cu_zmin _ U).
  - unfold x_par at 1 2. unfold par_of. cbn [p_fallow_crop fallow_crop dcrop_of c_id]. unfold x_crops, crops_of.
    assert (Hk : (-1 <? 0)%Z = true) by reflexivity. unfold look3 at 1. rewrite Hk. cbn [fst snd].
    apply crop_ok_of; try assumption; try reflexivity.
    cbn [c_Zmin]. rnum. exact (cu_zmin_f _ U).
Qed.

(* THE CLOSED STATEMENT with the soil and crop parts discharged from the configuration.  What remains as premises on the DERIVED
   parameters: (1) the compartments of a layer share th_wp / th_fc ([layers_ok]); (2) the CO2 concentration of every season is at most
   20 * (550 - ref) above the reference; (3) the bound on the length of a season (Kcb ageing stays non-negative); (4) the initial
   water contents lie within [th_dry, th_s]. *)
Theorem run_config_theorem_cfg (cfg : Config R) fuel m' :
  CfgOK cfg -> soil_u_ok (cf_soil cfg) -> CropUOK (cf_crop cfg) ->
  (forall i, initialise cfg = IOk i ->
     TranspirationR.layers_ok (so_prof (p_soil (i_par i))) /\
     (forall k, p_co2c (i_par i) k - p_co2r (i_par i) <= 20 * (550 - p_co2r (i_par i))) /\
     (forall k p h, nthZ (plant (i_clock i)) k = Some p -> nthZ (harv (i_clock i)) k = Some h ->
        let kk := cf_tr (i_crops i (c_id (sel_crop (i_par i) k))) in
        (IZR (h - p) - Transpiration.k_MaxCanopyCD kk - 5) * (Transpiration.k_fage kk / 100) <= Transpiration.k_Kcb kk) /\
     in_bounds (so_prof (p_soil (i_par i))) (d_th (i_state i))) ->
  run_config cfg fuel = RRun (Some (GOk m')) ->
  exists i m0 (evs : list (Ev (DState R) (Day.W R) (DRow R))),
    initialise cfg = IOk i /\ init_c (i_clock i) (i_state i) = Ok m0 /\
    Reach (DState R) (Day.W R) (DRow R) (DOut R) (proc_c (i_par i) (i_crops i)) dead (matured (i_par i)) (summary_of (i_par i))
          (reset (i_par i)) (defined_c (i_par i) (i_crops i)) (i_clock i) (i_weather i) m0 evs m' /\
    SInv (i_par i) (i_crops i) (st m') /\ RInv2 (i_par i) (phys (st m')) /\
    Forall (fun e => strong_ev (i_par i) (i_crops i) e /\ rows_day (i_par i) (i_crops i) e) evs /\
    chained _ _ _ (reset (i_par i)) (i_weather i) (phys (st m')) evs /\
    rows (tabs m') = map (fun e => (e_tsc _ _ _ e, e_row _ _ _ e)) evs ++ rows (tabs m0).
Proof.
  intros CK SK UK DK. apply run_config_theorem; [exact CK|].
  intros i Hi. destruct (DK i Hi) as (D1 & D2 & D3 & D4).
  destruct (derived_soil cfg i Hi (ck_no_table _ CK) SK) as (S1 & S2 & S3).
  constructor; try assumption. exact (derived_crop cfg i Hi UK D2).
Qed.

(* ============================================================================================================ *)
(*  Part F  examples                                                                                              *)
(* ============================================================================================================ *)
(* ---- a concrete configuration: three days of weather, a one-layer soil of two compartments, rainfed, no water table ------ *)
Definition ex_crop : CropU R := {| u_planting := (5, 1)%Z; u_harvest := Some (9, 1)%Z; u_CropType := 3%Z; u_CalendarType := 1%Z; u_SwitchGDD := 0%Z; u_GDDmethod := 3%Z; u_ETadj := 1%Z; u_PolHeatStress := 1%Z; u_PolColdStress := 1%Z; u_TrColdStress := 1%Z; u_PlantMethod := 1; u_Determinant := 1; u_Tupp := 1; u_Tbase := 1; u_GermThr := 1; u_YldWC := 1; u_Zmin := 1; u_Zmax := 1; u_Aer := 1; u_LagAer := 1; u_PctZmin := 1; u_fshape_r := 1; u_fshape_ex := 1; u_fshape_b := 1; u_SxTopQ := 1; u_SxBotQ := 1; u_SeedSize := 1; u_PlantPop := 1; u_CCx := 1; u_CDC := 1; u_CGC := 1; u_CDC_CD := 1; u_CGC_CD := 1; u_Kcb := 1; u_fage := 1; u_a_Tr := 1; u_WP := 1; u_WPy := 1; u_fsink := 1; u_bsted := 1; u_bface := 1; u_HI0 := 1; u_HIini := 1; u_dHI_pre := 1; u_a_HI := 1; u_b_HI := 1; u_dHI0 := 1; u_exc := 1; u_CCmin := 1; u_beta := 1; u_pu1 := 1; u_pu2 := 1; u_pu3 := 1; u_pu4 := 1; u_pl1 := 1; u_pl2 := 1; u_pl3 := 1; u_pl4 := 1; u_fw1 := 1; u_fw2 := 1; u_fw3 := 1; u_Tmax_up := 1; u_Tmax_lo := 1; u_Tmin_up := 1; u_Tmin_lo := 1; u_GDD_up := 1; u_GDD_lo := 1; u_EmergenceCD := 1; u_MaxRootingCD := 1; u_SenescenceCD := 1; u_MaturityCD := 1; u_HIstartCD := 1; u_FloweringCD := 1; u_YldFormCD := 1; u_Emergence := 1; u_MaxRooting := 1; u_Senescence := 1; u_Maturity := 1; u_HIstart := 1; u_Flowering := 1; u_YldForm := 1 |}.
Definition ex_field : Inputs.FieldM R :=
  {| Inputs.fm_mulches := false; Inputs.fm_bunds := true; Inputs.fm_cn_adj := true; Inputs.fm_sr_inhb := false; Inputs.fm_mulch_pct := 50;
     Inputs.fm_f_mulch := 1 / 2; Inputs.fm_z_bund := 200; Inputs.fm_bund_water := 10; Inputs.fm_cn_adj_pct := 10 |}.
Definition ex_layer_u : SoilBuild.LayerSpec (F:=R) :=
  {| SoilBuild.ls_thick := 2 / 10; SoilBuild.ls_wp := 1 / 10; SoilBuild.ls_fc := 3 / 10; SoilBuild.ls_s := 5 / 10;
     SoilBuild.ls_ksat := 500; SoilBuild.ls_pen := 100 |}.
Definition ex_soil : SoilU R :=
  {| so_dz := [1 / 10; 1 / 10]; so_layers := [SoilBuild.LHyd ex_layer_u]; so_u_cn := 61; so_u_calc_cn := 0%Z; so_u_adj_rew := 1%Z;
     so_u_rew := 9; so_u_evap_z_surf := 4 / 100; so_u_evap_z_min := 15 / 100; so_u_evap_z_max := 30 / 100; so_u_kex := 11 / 10;
     so_u_f_evap := 4; so_u_f_wrel_exp := 4 / 10; so_u_fwcc := 50; so_u_z_cn := 3 / 10; so_u_z_germ := 3 / 10; so_u_adj_cn := 1%Z;
     so_u_fshape_cr := 16; so_u_z_top := 1 / 10 |}.
Definition ex_row (d : Z) (rain et0 : R) : Z * list (Inputs.Cell R) :=
  (d, [Inputs.VDate d; Inputs.VNum 10; Inputs.VNum 22; Inputs.VNum rain; Inputs.VNum et0]).
Definition ex_weather : Inputs.Table R :=
  {| Inputs.t_cols := [Inputs.CDate; Inputs.CMinTemp; Inputs.CMaxTemp; Inputs.CPrecip; Inputs.CRefET];
     Inputs.t_rows := [ex_row 730241 0 (35 / 10); ex_row 730242 12 3; ex_row 730243 0 (1 / 10)] |}.
Definition ex_cfg (en : Z * Z * Z) : Config R :=
  {| cf_start := (2000, 5, 1)%Z; cf_end := en; cf_weather := ex_weather; cf_soil := ex_soil; cf_crop := ex_crop;
     cf_iwc := {| w_type := SoilBuild.TProp; w_method := SoilBuild.MLayer; w_depth_layer := [1]; w_value := [SoilBuild.VTok SoilBuild.PFC] |};
     cf_irr := {| ir_method := 0%Z; ir_SMT := [0; 0; 0; 0]; ir_AppEff := 100; ir_MaxIrr := 25; ir_IrrInterval := 0%Z; ir_sched := [];
                  ir_depth := 0; ir_MaxIrrSeason := 10000; ir_NetIrrSMT := 80; ir_WetSurf := 100 |};
     cf_field := ex_field; cf_fallow_field := ex_field;
     cf_gw := {| gw_present := false; gw_method := Inputs.GwConstant; gw_obs := [] |};
     cf_co2 := {| Inputs.co2_ref := 36941 / 100; Inputs.co2_current := 0; Inputs.co2_constant := false; Inputs.co2_data := [(2000%Z, 36941 / 100)];
                  Inputs.co2_processed := [] |};
     cf_off_season := false |}.

(* the premises on the configuration are satisfiable (non-trivially: bunds, a curve-number adjustment of +10 %, rain and ET0 in the table) *)
Example cfg_ok_example : CfgOK (ex_cfg (2000, 5, 3)%Z) /\ soil_u_ok (cf_soil (ex_cfg (2000, 5, 3)%Z)).
Proof.
  split.
  - constructor; cbn [ex_cfg cf_gw gw_present cf_irr ir_MaxIrrSeason ir_NetIrrSMT ir_WetSurf cf_soil ex_soil so_u_kex so_u_fwcc cf_co2
                      Inputs.co2_ref cf_field cf_fallow_field cf_weather]; try lra; try reflexivity.
    + intros r x Hr. cbn [ex_weather Inputs.t_rows] in Hr.
      destruct Hr as [<-|[<-|[<-|[]]]]; (split; intros E; vm_compute in E; injection E as <-; lra).
    + unfold field_u_ok, ex_field. cbn. lra.
    + unfold field_u_ok, ex_field. cbn. lra.
    + intros cn Hc. unfold cn_candidate in Hc. cbn in Hc. subst cn. unfold cn_field_ok, RainIrrR.cn_mgmt, ex_field. cbn. lra.
  - split.
    + cbn. repeat constructor; exists 10%Z; (split; [lia|lra]).
    + cbn. intros Ls E. injection E as <-. repeat constructor; cbn; lra.
Qed.

(* the model computes on a concrete configuration: a window of one day is rejected where read_clock_parameters raises *)
Example initialise_rejects_example : initialise (ex_cfg (2000, 5, 1)%Z) = IErr_ (ECal Calendar.IndexError_TimeSpan).
Proof. reflexivity. Qed.

(* [DerivedOK] is satisfiable: the parameter structures of DaySideP.Ex (two layers / four compartments, bunds, net irrigation), the
   one-season clock and the weather of InitStateP's example, the state init_state builds for them *)
Example derived_ok_example : exists s0,
  InitState.init_state DaySideP.Ex.par (init_season ex_clock) None false ex_th0 = Some s0 /\
  DerivedOK {| i_par := DaySideP.Ex.par; i_crops := DaySideP.Ex.crops; i_clock := ex_clock; i_weather := ex_ws; i_state := s0;
               i_reset_ok := fun _ => true |}.
Proof.
  destruct (init_state_defined_no_table DaySideP.Ex.par (init_season ex_clock) None false ex_th0 eq_refl) as (s0 & E & Eth & _).
  exists s0. split; [exact E|].
  pose proof DaySideP.Ex.par_ok as P.
  constructor; cbn [i_par i_crops i_clock i_state].
  - exact (po_wf _ _ P).
  - exact (po_geom _ _ P).
  - exact (po_layers _ _ P).
  - exact (po_pen _ _ P).
  - exact (po_crop _ _ P).
  - intros k p h Hp Hh. cbn [ex_clock plant harv] in Hp, Hh.
    destruct (nthZ_single _ _ _ Hp) as [_ ->]. destruct (nthZ_single _ _ _ Hh) as [_ ->]. cbn. lra.
  - rewrite Eth. exact ex_th0_bounds.
Qed.

Print Assumptions initialise_clock_wf.
Print Assumptions initialise_state.
Print Assumptions initialise_strong.
Print Assumptions initialise_rinv2.
Print Assumptions run_config_theorem.
Print Assumptions derived_soil.
Print Assumptions derived_crop.
Print Assumptions run_config_theorem_cfg.
Print Assumptions cfg_ok_example.
Print Assumptions derived_ok_example.
