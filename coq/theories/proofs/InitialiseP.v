(* InitialiseP.v — theorems about Init/Initialise.v (real instance): the initialisation computed from the user's configuration
   delivers the premises of the whole-run theorems, and the whole run started from the configuration satisfies them every day.

   Part A  [initialise_inv]: what `initialise cfg = IOk i` means — the chain of unit calls that succeeded ([IsInit]).
   Part B  [initialise_clock_wf]   the clock is well formed (CalendarP.season_list_wf);
           [initialise_state]      the state IS InitState.init_state applied to the model's own parameters, the season counter the
                                   clock starts with, z_gw[0], the FC flag and the interpolated water contents (by construction);
           [initialise_strong], [initialise_rinv2]   hence StrongInv / RInv2 (InitStateP);
   Part C  what is discharged from the CONFIGURATION: the clock, the weather records (ET0 >= 0, rain >= 0 in the table), MgmtOK, cn_ok,
           MaxIrrSeason, the scalar fields of ParOK, "no water table" ([CfgOK]); what stays a premise on the DERIVED parameters
           ([DerivedOK]: the profile predicates, CropOK of every season, the season-length bound, the initial water contents in bounds);
   Part D  [run_config_theorem]: from `run_config cfg fuel = RRun (Some (GOk m'))` to the conclusion of InitStateP.run_from_init;
   Part E  the profile part of [DerivedOK] from the soil specification (whole-centimetre thicknesses, strict layers): [derived_soil];
   Part F  Examples. *)
From Coq Require Import Reals List Bool ZArith Lra Lia.
From AC Require Import Num RInst Params Kernels Clock Day DayConcrete RunConcrete.
From AC.Init Require Calendar Inputs SoilBuild CropInit InitState.
From AC.Init Require Import Initialise.
From AC.Water Require Transpiration.
From AC.Crop Require Canopy Roots Yield.
From AC.proofs Require Import ProfR DayP DayConcreteP ClockP RunP RunConcreteP DaySideU DaySideP DaySideRun DaySideRun2 DayRowsP DaySideRows.
From AC.proofs Require Import CalendarP InputsP SoilBuildR InitStateP YieldR.
From AC.proofs Require RainIrrR TranspirationR RootsR.
Local Open Scope R_scope.
Import ListNotations.
#[local] Existing Instance YieldR.RTrig.

Lemma ibind_ok {A B} (r : ires A) (f : A -> ires B) b : ibind r f = IOk b -> exists a, r = IOk a /\ f a = IOk b.
Proof. destruct r; [eauto|discriminate]. Qed.
Lemma of_cal_ok {A} (r : Calendar.result A) a : of_cal r = IOk a -> r = Calendar.Ok a.
Proof. destruct r; cbn; congruence. Qed.
Lemma of_in_ok {A} (r : Inputs.res A) a : of_in r = IOk a -> r = Inputs.Ok a.
Proof. destruct r; cbn; congruence. Qed.
Lemma of_crop_ok {A} (r : CropInit.ires A) a : of_crop r = IOk a -> r = CropInit.IOk a.
Proof. destruct r; cbn; congruence. Qed.
Lemma of_opt_ok {A} e (o : option A) a : of_opt e o = IOk a -> o = Some a.
Proof. destruct o; cbn; congruence. Qed.

Section Inv.
  Variable cfg : Config R.
  Let u := cf_crop cfg.
  Let st := cf_start cfg.
  Let en := cf_end cfg.
  Let s := Initialise.day_of st.
  Let e := Initialise.day_of en.
  Let so := cf_soil cfg.
  Let iw := cf_iwc cfg.
  Let gw := cf_gw cfg.
  Definition conc0_of : R :=
    match Inputs.co2_init (year_of_day s) (year_of_day e) (cf_co2 cfg) with
    | Inputs.Ok c => Inputs.co2_current c | Inputs.Err _ => Inputs.co2_ref (cf_co2 cfg) end.
  Definition second_of : bool := match u_harvest u with None => true | Some _ => false end.

  Record Parts := {
    x_n : Z; x_tab : Inputs.Table R; x_Ls : list (SoilBuild.LayerSpec (F:=R)); x_rows : list (SoilBuild.Row (F:=R)); x_zsoil : R;
    x_wsel : list (Inputs.WRow R); x_mat : Z; x_l : list (Z * Z); x_irr : DIrr R; x_zser : list (option R); x_zgw : list R;
    x_prof : list (Comp R); x_soil : DSoil R; x_gdd0 : list R; x_o0 : CropInit.CropOut (F:=R); x_co2 : Inputs.CO2 R;
    x_th0 : list R; x_s0 : DState R }.

  Definition x_k0 (x : Parts) : Z := Calendar.initial_season_counter (x_l x).
  Definition x_seasons (x : Parts) := seasons_of u s (x_k0 x) (x_l x) (x_wsel x) (x_co2 x) conc0_of (x_o0 x).
  Definition x_par (x : Parts) : DPar R := par_of cfg s e (x_soil x) (x_irr x) (x_seasons x) conc0_of (x_o0 x).
  Definition x_crops (x : Parts) : Z -> CropFull R := crops_of u (x_seasons x) conc0_of (x_o0 x).
  Definition x_clock (x : Parts) : ClockP :=
    {| n_steps := x_n x; plant := map fst (x_l x); harv := map snd (x_l x); off_season := cf_off_season cfg |}.
  Definition x_zgw0 (x : Parts) : option R := if gw_present gw then hd_error (x_zgw x) else None.

  Record IsInit (x : Parts) (i : Init R) : Prop := {
    ii_clock : Calendar.read_clock st en = Calendar.Ok (x_n x);
    ii_tab : Inputs.clip_table s e (cf_weather cfg) = Inputs.Ok (x_tab x);
    ii_layers : SoilBuild.resolve_layers (so_layers so) = Some (x_Ls x);
    ii_rows : SoilBuild.build_deepened deepen_fuel (u_Zmax u) (so_dz so) (x_Ls x) = Some (x_rows x, x_zsoil x);
    ii_wsel : Inputs.select_weather (x_tab x) = Inputs.Ok (x_wsel x);
    ii_seasons : Calendar.season_list st en (u_planting u) (u_harvest u) (x_mat x) = Calendar.Ok (x_l x);
    ii_irr : irr_of (cf_irr cfg) s e = IOk (x_irr x);
    ii_zser : Inputs.gw_series (gw_present gw) (gw_method gw) (s - epoch) (e - epoch) (to_epoch (gw_obs gw)) = Inputs.Ok (x_zser x);
    ii_zgw : Inputs.all_some (x_zser x) = Some (x_zgw x);
    ii_prof : profile_of (gw_present gw) (x_rows x) = IOk (x_prof x);
    ii_soil : soil_of so (x_prof x) = IOk (x_soil x);
    ii_o0 : CropInit.crop_init (crop_in u second_of) (x_gdd0 x) conc0_of (Inputs.co2_ref (cf_co2 cfg)) = CropInit.IOk (x_o0 x);
    ii_co2 : Inputs.co2_init (year_of_day s) (year_of_day e) (cf_co2 cfg) = Inputs.Ok (x_co2 x);
    ii_th0 : SoilBuild.initial_wc (w_type iw) (w_method iw) (x_rows x) (x_zsoil x) (w_depth_layer iw) (w_value iw) = Some (x_th0 x);
    ii_s0 : InitState.init_state (x_par x) (x_k0 x) (x_zgw0 x) (fc_reset_of iw) (x_th0 x) = Some (x_s0 x);
    ii_eq : i = {| i_par := x_par x; i_crops := x_crops x; i_clock := x_clock x;
                   i_weather := weather_of (gw_present gw) (x_wsel x) (x_zgw x); i_state := x_s0 x;
                   i_reset_ok := fun k => snd (look3 (x_seasons x) conc0_of (x_o0 x) k) |} }.

  Lemma initialise_inv i : initialise cfg = IOk i -> exists x, IsInit x i.
  Proof.
    intros H. unfold initialise in H.
    apply ibind_ok in H as (n & Hn & H). apply of_cal_ok in Hn.
    apply ibind_ok in H as (tab & Htab & H). apply of_in_ok in Htab.
    apply ibind_ok in H as (Ls & HLs & H). apply of_opt_ok in HLs.
    apply ibind_ok in H as (u1 & Hu1 & H).
    apply ibind_ok in H as (rz & Hrz & H). apply of_opt_ok in Hrz.
    destruct rz as [rows zsoil].
    apply ibind_ok in H as (u2 & Hu2 & H).
    apply ibind_ok in H as (wsel & Hwsel & H). apply of_in_ok in Hwsel.
    apply ibind_ok in H as (mat & Hmat & H).
    apply ibind_ok in H as (l & Hl & H). apply of_cal_ok in Hl.
    apply ibind_ok in H as (irr & Hirr & H).
    apply ibind_ok in H as (zser & Hzser & H). apply of_in_ok in Hzser.
    apply ibind_ok in H as (zgw & Hzgw & H). apply of_opt_ok in Hzgw.
    apply ibind_ok in H as (prof & Hprof & H).
    apply ibind_ok in H as (soil & Hsoil & H).
    apply ibind_ok in H as (gdd0 & Hgdd0 & H).
    apply ibind_ok in H as (o0 & Ho0 & H). apply of_crop_ok in Ho0.
    apply ibind_ok in H as (co2 & Hco2 & H). apply of_in_ok in Hco2.
    apply ibind_ok in H as (th0 & Hth0 & H). apply of_opt_ok in Hth0.
    apply ibind_ok in H as (s0 & Hs0 & H). apply of_opt_ok in Hs0.
    injection H as <-.
    exists {| x_n := n; x_tab := tab; x_Ls := Ls; x_rows := rows; x_zsoil := zsoil; x_wsel := wsel; x_mat := mat; x_l := l; x_irr := irr;
              x_zser := zser; x_zgw := zgw; x_prof := prof; x_soil := soil; x_gdd0 := gdd0; x_o0 := o0; x_co2 := co2; x_th0 := th0; x_s0 := s0 |}.
    constructor; cbn [x_n x_tab x_Ls x_rows x_zsoil x_wsel x_mat x_l x_irr x_zser x_zgw x_prof x_soil x_gdd0 x_o0 x_co2 x_th0 x_s0];
      try assumption; try reflexivity.
  Qed.
End Inv.
