(* InitialiseP2.v — the input-level properties lifted to the CONFIGURATION level: each is a composition of a unit theorem with the
   chain of unit calls `initialise` makes (Init/Initialise.v, proofs/InitialiseP.v).  Nothing of InitialiseP.v is changed.

   Part 1  C15: the weather TABLE is read by date and by column name — [initialise_weather_dep] (what initialise reads from the table:
           whether the clipping raises, and the bound matrix), [initialise_perm], [initialise_extra_col], [initialise_reindex],
           [initialise_extra_rows] and the same for [run_config] (any number type).
   Part 2  C14, calendar-day crops: [initialise_calendar_weather] (the bound matrix only becomes the weather list of the run),
           [run_config_prefix_causal] (rows / summary rows before step t do not depend on the weather from t on).
   Part 3  C20: inert settings and the explicit default harvest date.
   Part 4  the remaining premises of run_config_theorem_cfg discharged: [run_config_theorem_cfg2].
   Part 5  C18 / C19 at configuration level.
   Examples and Print Assumptions at the end. *)
From Coq Require Import Reals List Bool ZArith Lra Lia Permutation.
From AC Require Import Num RInst Params Kernels Clock Day DayConcrete RunConcrete.
From AC.Init Require Calendar Inputs SoilBuild CropInit InitState.
From AC.Init Require Import Initialise.
From AC.Water Require Transpiration.
From AC.Crop Require Canopy Roots Yield.
From AC.proofs Require Import ProfR DayP DayConcreteP ClockP RunP RunConcreteP DaySideU DaySideP DaySideRun DaySideRun2 DayRowsP DaySideRows.
From AC.proofs Require Import CalendarP InputsP SoilBuildR InitStateP YieldR.
From AC.proofs Require RainIrrR TranspirationR RootsR CanopyR.
From Flocq Require Import Core.
From AC.proofs Require Import InertRunU InertRunP.
From AC.proofs Require Import InitialiseP.
Import ListNotations.

(* ============================================================================================================ *)
(*  Part 1  C15 at configuration level: the weather TABLE is read by date and by column name                       *)
(* ============================================================================================================ *)
Section AnyNumber.
  Context {F : Type} {N : NumOps F} {T : Yield.TrigOps F}.
  Notation Table := (Inputs.Table F).

  (* the configuration with another weather table *)
  Definition with_weather (cfg : Config F) (t : Table) : Config F :=
    {| cf_start := cf_start cfg; cf_end := cf_end cfg; cf_weather := t; cf_soil := cf_soil cfg; cf_crop := cf_crop cfg;
       cf_iwc := cf_iwc cfg; cf_irr := cf_irr cfg; cf_field := cf_field cfg; cf_fallow_field := cf_fallow_field cfg;
       cf_gw := cf_gw cfg; cf_co2 := cf_co2 cfg; cf_off_season := cf_off_season cfg |}.

  (* whether read_weather_inputs raises, and with what *)
  Definition clip_status (s e : Z) (t : Table) : Inputs.res unit :=
    match Inputs.clip_table s e t with Inputs.Ok _ => Inputs.Ok tt | Inputs.Err x => Inputs.Err x end.

  (* WHAT initialise READS FROM THE WEATHER TABLE: whether the clipping raises, and the bound matrix *)
  Theorem initialise_weather_dep (cfg : Config F) (t t' : Table) :
    let s := Initialise.day_of (cf_start cfg) in let e := Initialise.day_of (cf_end cfg) in
    clip_status s e t' = clip_status s e t -> Inputs.bind_weather s e t' = Inputs.bind_weather s e t ->
    initialise (with_weather cfg t') = initialise (with_weather cfg t).
  Proof.
    cbv zeta. unfold clip_status, Inputs.bind_weather. intros H1 H2. unfold initialise.
    cbn [with_weather cf_start cf_end cf_weather cf_soil cf_crop cf_iwc cf_irr cf_field cf_fallow_field cf_gw cf_co2 cf_off_season].
    destruct (Calendar.read_clock (cf_start cfg) (cf_end cfg)) as [n|]; [|reflexivity]. cbn [of_cal ibind].
    destruct (Inputs.clip_table _ _ t) as [tab|x] eqn:E; destruct (Inputs.clip_table _ _ t') as [tab'|x'] eqn:E'; try discriminate.
    - cbn [Inputs.bindr] in H2. cbn [of_in ibind]. rewrite H2. reflexivity.
    - injection H1 as ->. reflexivity.
  Qed.

  (* ---- the clipping status depends on the table only through the views of its rows (as bind_weather does) ---- *)
  Definition status_views (s e : Z) (vs : list (Inputs.res Z * Inputs.res (Inputs.WRow F))) : Inputs.res unit :=
    match vs with
    | [] => Inputs.Err Inputs.EEmpty
    | v0 :: _ =>
      Inputs.bindr (fst v0) (fun d0 => if (s <? d0)%Z then Inputs.Err Inputs.EStart else
      Inputs.bindr (fst (last vs v0)) (fun dl => if (dl <? e)%Z then Inputs.Err Inputs.EEnd else
      Inputs.bindr (clip_views s e vs) (fun _ => Inputs.Ok tt)))
    end.

  Lemma status_views_cons {A} s e (f : A -> Inputs.res Z * Inputs.res (Inputs.WRow F)) (r0 : A) (rows : list A) :
    status_views s e (map f (r0 :: rows)) =
    Inputs.bindr (fst (f r0)) (fun d0 => if (s <? d0)%Z then Inputs.Err Inputs.EStart else
    Inputs.bindr (fst (f (last (r0 :: rows) r0))) (fun dl => if (dl <? e)%Z then Inputs.Err Inputs.EEnd else
    Inputs.bindr (clip_views s e (map f (r0 :: rows))) (fun _ => Inputs.Ok tt))).
  Proof. unfold status_views. rewrite <- (last_map f). reflexivity. Qed.

  Lemma clip_status_views s e (t : Table) :
    clip_status s e t = Inputs.bindr (positions (Inputs.t_cols t)) (fun js => status_views s e (map (view js) (Inputs.t_rows t))).
  Proof.
    unfold clip_status, Inputs.clip_table, positions.
    destruct (Inputs.col_pos Inputs.CMinTemp (Inputs.t_cols t)) as [jn|] eqn:E1; cbn [Inputs.bindr]; auto.
    destruct (Inputs.col_pos Inputs.CMaxTemp (Inputs.t_cols t)) as [jx|] eqn:E2; cbn [Inputs.bindr]; auto.
    destruct (Inputs.col_pos Inputs.CPrecip (Inputs.t_cols t)) as [jp|] eqn:E3; cbn [Inputs.bindr]; auto.
    destruct (Inputs.col_pos Inputs.CRefET (Inputs.t_cols t)) as [je|] eqn:E4; cbn [Inputs.bindr]; auto.
    destruct (Inputs.col_pos Inputs.CDate (Inputs.t_cols t)) as [jd|] eqn:E5; cbn [Inputs.bindr]; auto.
    destruct (Inputs.t_rows t) as [|r0 rows] eqn:Er; [reflexivity|].
    rewrite status_views_cons. cbn [view fst].
    destruct (Inputs.row_date jd r0) as [d0|] eqn:Ed0; cbn [Inputs.bindr]; auto.
    destruct (s <? d0)%Z; cbn [Inputs.bindr]; auto.
    destruct (Inputs.row_date jd (last (r0 :: rows) r0)) as [dl|]; cbn [Inputs.bindr]; auto.
    destruct (dl <? e)%Z; cbn [Inputs.bindr]; auto.
    rewrite clip_views_rows.
    destruct (Inputs.clip_rows s e jd (r0 :: rows)) as [rs|]; cbn [Inputs.bindr]; auto.
  Qed.

  (* two tables whose rows look the same through the five named columns: same matrix AND same clipping status *)
  Definition same_views (t t' : Table) : Prop :=
    (forall e0, positions (Inputs.t_cols t) = Inputs.Err e0 -> positions (Inputs.t_cols t') = Inputs.Err e0) /\
    (forall js, positions (Inputs.t_cols t) = Inputs.Ok js ->
        exists js', positions (Inputs.t_cols t') = Inputs.Ok js' /\ map (view js') (Inputs.t_rows t') = map (view js) (Inputs.t_rows t)).

  Lemma same_views_both s e (t t' : Table) : same_views t t' ->
    Inputs.bind_weather s e t' = Inputs.bind_weather s e t /\ clip_status s e t' = clip_status s e t.
  Proof.
    intros [He Ho]. split; [apply bind_same_views; assumption|].
    rewrite !clip_status_views. destruct (positions (Inputs.t_cols t)) as [js|e0].
    - destruct (Ho js eq_refl) as (js' & -> & Hv). cbn [Inputs.bindr]. now rewrite Hv.
    - now rewrite (He e0 eq_refl).
  Qed.

  Lemma perm_same_views p (t : Table) : Permutation p (seq 0 (length (Inputs.t_cols t))) -> well_shaped t -> same_views t (permute p t).
  Proof.
    intros Hp Hw. split; unfold positions; cbn [permute Inputs.t_cols Inputs.t_rows].
    - intros e0.
      pose proof (col_pos_pick Inputs.CMinTemp _ _ Hp) as H1. pose proof (col_pos_pick Inputs.CMaxTemp _ _ Hp) as H2.
      pose proof (col_pos_pick Inputs.CPrecip _ _ Hp) as H3. pose proof (col_pos_pick Inputs.CRefET _ _ Hp) as H4.
      pose proof (col_pos_pick Inputs.CDate _ _ Hp) as H5.
      destruct (Inputs.col_pos Inputs.CMinTemp (Inputs.t_cols t)); [destruct H1 as (? & -> & _)|rewrite H1; auto]; cbn [Inputs.bindr].
      destruct (Inputs.col_pos Inputs.CMaxTemp (Inputs.t_cols t)); [destruct H2 as (? & -> & _)|rewrite H2; auto]; cbn [Inputs.bindr].
      destruct (Inputs.col_pos Inputs.CPrecip (Inputs.t_cols t)); [destruct H3 as (? & -> & _)|rewrite H3; auto]; cbn [Inputs.bindr].
      destruct (Inputs.col_pos Inputs.CRefET (Inputs.t_cols t)); [destruct H4 as (? & -> & _)|rewrite H4; auto]; cbn [Inputs.bindr].
      destruct (Inputs.col_pos Inputs.CDate (Inputs.t_cols t)); [destruct H5 as (? & -> & _)|rewrite H5; auto]; cbn [Inputs.bindr].
      discriminate.
    - intros js Hjs.
      pose proof (col_pos_pick Inputs.CMinTemp _ _ Hp) as H1. pose proof (col_pos_pick Inputs.CMaxTemp _ _ Hp) as H2.
      pose proof (col_pos_pick Inputs.CPrecip _ _ Hp) as H3. pose proof (col_pos_pick Inputs.CRefET _ _ Hp) as H4.
      pose proof (col_pos_pick Inputs.CDate _ _ Hp) as H5.
      destruct (Inputs.col_pos Inputs.CMinTemp (Inputs.t_cols t)) as [jn|]; [|discriminate]. destruct H1 as (jn' & -> & Hn).
      destruct (Inputs.col_pos Inputs.CMaxTemp (Inputs.t_cols t)) as [jx|]; [|discriminate]. destruct H2 as (jx' & -> & Hx).
      destruct (Inputs.col_pos Inputs.CPrecip (Inputs.t_cols t)) as [jp|]; [|discriminate]. destruct H3 as (jp' & -> & Hpp).
      destruct (Inputs.col_pos Inputs.CRefET (Inputs.t_cols t)) as [je|]; [|discriminate]. destruct H4 as (je' & -> & He).
      destruct (Inputs.col_pos Inputs.CDate (Inputs.t_cols t)) as [jd|]; [|discriminate]. destruct H5 as (jd' & -> & Hd).
      cbn [Inputs.bindr] in *. injection Hjs as <-. eexists. split; [reflexivity|].
      rewrite map_map. apply map_ext_in. intros r Hr.
      assert (Forall (fun i => (i < length (snd r))%nat) p) as Hrange.
      { unfold well_shaped in Hw. rewrite Forall_forall in Hw. rewrite (Hw r Hr). apply perm_range, Hp. }
      unfold view, Inputs.row_date, Inputs.select_row. cbn [snd].
      rewrite !pick_nth by exact Hrange. now rewrite Hn, Hx, Hpp, He, Hd.
  Qed.

  Lemma extra_col_same_views c cells d (t : Table) : required c = false -> same_views t (add_col c cells d t).
  Proof.
    intros Hc. assert (forall x, required x = true -> Inputs.col_eqb x c = false) as Hx.
    { destruct c; try discriminate Hc. intros x. destruct x; simpl; congruence. }
    split; unfold positions; cbn [add_col Inputs.t_cols Inputs.t_rows];
      rewrite !col_pos_cons by (apply Hx; reflexivity).
    - intros e0. destruct (Inputs.col_pos Inputs.CMinTemp (Inputs.t_cols t)); cbn [Inputs.bindr]; auto.
      destruct (Inputs.col_pos Inputs.CMaxTemp (Inputs.t_cols t)); cbn [Inputs.bindr]; auto.
      destruct (Inputs.col_pos Inputs.CPrecip (Inputs.t_cols t)); cbn [Inputs.bindr]; auto.
      destruct (Inputs.col_pos Inputs.CRefET (Inputs.t_cols t)); cbn [Inputs.bindr]; auto.
      destruct (Inputs.col_pos Inputs.CDate (Inputs.t_cols t)); cbn [Inputs.bindr]; auto. discriminate.
    - intros js. destruct (Inputs.col_pos Inputs.CMinTemp (Inputs.t_cols t)) as [jn|]; cbn [Inputs.bindr]; [|discriminate].
      destruct (Inputs.col_pos Inputs.CMaxTemp (Inputs.t_cols t)) as [jx|]; cbn [Inputs.bindr]; [|discriminate].
      destruct (Inputs.col_pos Inputs.CPrecip (Inputs.t_cols t)) as [jp|]; cbn [Inputs.bindr]; [|discriminate].
      destruct (Inputs.col_pos Inputs.CRefET (Inputs.t_cols t)) as [je|]; cbn [Inputs.bindr]; [|discriminate].
      destruct (Inputs.col_pos Inputs.CDate (Inputs.t_cols t)) as [jd|]; cbn [Inputs.bindr]; [|discriminate].
      intros H. injection H as <-. eexists. split; [reflexivity|].
      rewrite map_map.
      assert (forall (rows : list (Z * list (Inputs.Cell F))) k,
                 map (fun x : nat * (Z * list (Inputs.Cell F)) => view (S jn, S jx, S jp, S je, S jd) (fst (snd x), nth (fst x) cells d :: snd (snd x)))
                     (combine (seq k (length rows)) rows) = map (view (jn, jx, jp, je, jd)) rows) as Hm.
      { induction rows as [|r rows IH]; intros k; simpl; auto. f_equal. apply IH. }
      apply Hm.
  Qed.

  Lemma reindex_same_views (t t' : Table) :
    Inputs.t_cols t' = Inputs.t_cols t -> map snd (Inputs.t_rows t') = map snd (Inputs.t_rows t) -> same_views t t'.
  Proof.
    intros Hc Hr. split; rewrite Hc; auto.
    intros js Hjs. exists js. split; [exact Hjs|].
    assert (forall rows : list (Z * list (Inputs.Cell F)), map (view js) rows = map (fun c => view js (0%Z, c)) (map snd rows)) as Hm.
    { intros rows. rewrite map_map. apply map_ext. intros [i c]. destruct js as [[[[? ?] ?] ?] ?]. reflexivity. }
    now rewrite (Hm (Inputs.t_rows t')), (Hm (Inputs.t_rows t)), Hr.
  Qed.

  Lemma initialise_same_views (cfg : Config F) (t t' : Table) : same_views t t' ->
    initialise (with_weather cfg t') = initialise (with_weather cfg t).
  Proof. intros H. apply initialise_weather_dep; apply (same_views_both _ _ _ _ H). Qed.

  (* C15 for the whole initialisation (same Init, or the same error) and hence for the whole run *)
  Theorem initialise_perm (cfg : Config F) p (t : Table) :
    Permutation p (seq 0 (length (Inputs.t_cols t))) -> well_shaped t ->
    initialise (with_weather cfg (permute p t)) = initialise (with_weather cfg t).
  Proof. intros Hp Hw. apply initialise_same_views, perm_same_views; assumption. Qed.

  Theorem initialise_extra_col (cfg : Config F) c cells d (t : Table) : required c = false ->
    initialise (with_weather cfg (add_col c cells d t)) = initialise (with_weather cfg t).
  Proof. intros Hc. apply initialise_same_views, extra_col_same_views; assumption. Qed.

  Theorem initialise_reindex (cfg : Config F) (t t' : Table) :
    Inputs.t_cols t' = Inputs.t_cols t -> map snd (Inputs.t_rows t') = map snd (Inputs.t_rows t) ->
    initialise (with_weather cfg t') = initialise (with_weather cfg t).
  Proof. intros Hc Hr. apply initialise_same_views, reindex_same_views; assumption. Qed.

  (* rows dated outside the window may be added or removed as long as both tables still cover the window *)
  Theorem initialise_extra_rows (cfg : Config F) (t t' : Table) w w' :
    let s := Initialise.day_of (cf_start cfg) in let e := Initialise.day_of (cf_end cfg) in
    Inputs.t_cols t' = Inputs.t_cols t -> window_rows s e t' = window_rows s e t ->
    Inputs.bind_weather s e t = Inputs.Ok w -> Inputs.bind_weather s e t' = Inputs.Ok w' ->
    initialise (with_weather cfg t') = initialise (with_weather cfg t).
  Proof.
    cbv zeta. intros Hc Hw H H'. pose proof (bind_extra_rows _ _ _ _ _ _ Hc Hw H H') as ->.
    apply initialise_weather_dep; cbv zeta; [|congruence].
    unfold clip_status. unfold Inputs.bind_weather in H, H'.
    destruct (Inputs.clip_table _ _ t); [|discriminate]. destruct (Inputs.clip_table _ _ t'); [|discriminate]. reflexivity.
  Qed.

  Lemma run_config_of_initialise (cfg cfg' : Config F) fuel : initialise cfg' = initialise cfg -> run_config cfg' fuel = run_config cfg fuel.
  Proof. unfold run_config. intros ->. reflexivity. Qed.

  Theorem run_config_perm (cfg : Config F) p (t : Table) fuel :
    Permutation p (seq 0 (length (Inputs.t_cols t))) -> well_shaped t ->
    run_config (with_weather cfg (permute p t)) fuel = run_config (with_weather cfg t) fuel.
  Proof. intros. apply run_config_of_initialise, initialise_perm; assumption. Qed.
  Theorem run_config_extra_col (cfg : Config F) c cells d (t : Table) fuel : required c = false ->
    run_config (with_weather cfg (add_col c cells d t)) fuel = run_config (with_weather cfg t) fuel.
  Proof. intros. apply run_config_of_initialise, initialise_extra_col; assumption. Qed.
  Theorem run_config_reindex (cfg : Config F) (t t' : Table) fuel :
    Inputs.t_cols t' = Inputs.t_cols t -> map snd (Inputs.t_rows t') = map snd (Inputs.t_rows t) ->
    run_config (with_weather cfg t') fuel = run_config (with_weather cfg t) fuel.
  Proof. intros. apply run_config_of_initialise, initialise_reindex; assumption. Qed.
  Theorem run_config_extra_rows (cfg : Config F) (t t' : Table) w w' fuel :
    let s := Initialise.day_of (cf_start cfg) in let e := Initialise.day_of (cf_end cfg) in
    Inputs.t_cols t' = Inputs.t_cols t -> window_rows s e t' = window_rows s e t ->
    Inputs.bind_weather s e t = Inputs.Ok w -> Inputs.bind_weather s e t' = Inputs.Ok w' ->
    run_config (with_weather cfg t') fuel = run_config (with_weather cfg t) fuel.
  Proof. cbv zeta. intros. eapply run_config_of_initialise, initialise_extra_rows; eassumption. Qed.
  (* ---- Part 2 (any number type): calendar-day crops ---------------------------------------------------------------- *)
  Lemma seasons_of_cal (u : CropU F) s k0 l wsel co2 c o : u_CalendarType u = 1%Z ->
    seasons_of u s k0 l wsel co2 c o = seasons_of u s k0 l [] co2 c o.
  Proof.
    intros Hc. unfold seasons_of. apply map_ext. intros kp. unfold season_of. rewrite Hc. cbn [Z.eqb Pos.eqb]. reflexivity.
  Qed.

  (* WHAT A CALENDAR-DAY CROP'S INITIALISATION READS FROM THE WEATHER: the bound matrix only becomes the weather list of the run *)
  Theorem initialise_calendar_weather (cfg : Config F) (t t' : Table) w w' i :
    let s := Initialise.day_of (cf_start cfg) in let e := Initialise.day_of (cf_end cfg) in
    u_CalendarType (cf_crop cfg) = 1%Z ->
    Inputs.bind_weather s e t = Inputs.Ok w -> Inputs.bind_weather s e t' = Inputs.Ok w' ->
    initialise (with_weather cfg t) = IOk i ->
    exists i' zgw, initialise (with_weather cfg t') = IOk i' /\
      i_par i' = i_par i /\ i_crops i' = i_crops i /\ i_clock i' = i_clock i /\ i_state i' = i_state i /\ i_reset_ok i' = i_reset_ok i /\
      i_weather i = weather_of (gw_present (cf_gw cfg)) w zgw /\ i_weather i' = weather_of (gw_present (cf_gw cfg)) w' zgw.
  Proof.
    cbv zeta. intros Hc Hw Hw' H. unfold initialise, par_of in *. unfold Inputs.bind_weather in Hw, Hw'.
    cbn [with_weather cf_start cf_end cf_weather cf_soil cf_crop cf_iwc cf_irr cf_field cf_fallow_field cf_gw cf_co2 cf_off_season] in *.
    destruct (Calendar.read_clock (cf_start cfg) (cf_end cfg)) as [n|]; [|discriminate H]. cbn [of_cal ibind] in H |- *.
    destruct (Inputs.clip_table _ _ t) as [tab|]; [|discriminate]. destruct (Inputs.clip_table _ _ t') as [tab'|]; [|discriminate].
    cbn [Inputs.bindr] in Hw, Hw'. cbn [of_in ibind] in H |- *. rewrite Hw in H. rewrite Hw'. clear Hw Hw' tab tab'.
    pose proof Hc as Hc1. rewrite Hc in H |- *. cbn [Z.eqb Pos.eqb orb of_in of_cal] in H |- *.
    repeat (rewrite ?(seasons_of_cal _ _ _ _ w) in H by exact Hc1; rewrite ?(seasons_of_cal _ _ _ _ w') by exact Hc1;
            match type of H with
            | ibind ?r _ = IOk _ => destruct r eqn:?; [cbn [ibind] in H |- *|discriminate H]
            | (let '(_, _) := ?p in _) = _ => destruct p
            end).
    rewrite ?(seasons_of_cal _ _ _ _ w) in H by exact Hc1. rewrite ?(seasons_of_cal _ _ _ _ w') by exact Hc1.
    injection H as <-. eexists. eexists. split; [reflexivity|]. cbn [i_par i_crops i_clock i_state i_reset_ok i_weather].
    repeat split; reflexivity.
  Qed.
End AnyNumber.

Local Open Scope R_scope.
#[local] Existing Instance YieldR.RTrig.

(* ============================================================================================================ *)
(*  Part 2 (reals)  C14 at configuration level                                                                    *)
(* ============================================================================================================ *)
(* the bound matrices agree on the steps before t (step k reads row k of the matrix) *)
Definition matrix_agree_before (t : Z) (w w' : list (Inputs.WRow R)) : Prop :=
  forall k : nat, (Z.of_nat k < t)%Z -> nth_error w k = nth_error w' k.

Lemma weather_of_nth wt (w : list (Inputs.WRow R)) : forall (z : list R) k,
  nth_error (weather_of wt w z) k =
  match nth_error w k with
  | Some r => Some {| w_rain := Inputs.w_prec r; w_tmax := Inputs.w_tmax r; w_tmin := Inputs.w_tmin r; w_et0 := Inputs.w_et0 r;
                      w_gw := if wt then hd (nofZ num_ops 0) (skipn k z) else nofZ num_ops 0 |}
  | None => None
  end.
Proof.
  induction w as [|r w IH]; intros z k; [destruct k; reflexivity|].
  destruct k as [|k]; cbn [weather_of nth_error skipn]; [reflexivity|].
  rewrite IH. destruct z; cbn [tl skipn]; [|reflexivity]. destruct (nth_error w k); [|reflexivity]. destruct k; reflexivity.
Qed.

Lemma weather_of_agree wt t w w' z : matrix_agree_before t w w' -> agree_before (Day.W R) t (weather_of wt w z) (weather_of wt w' z).
Proof.
  intros H i Hi. unfold nthW. destruct (i <? 0)%Z eqn:E; [reflexivity|]. apply Z.ltb_ge in E.
  rewrite !weather_of_nth. rewrite (H (Z.to_nat i)) by lia. reflexivity.
Qed.

Lemma init_minv c (s0 : DState R) m0 : wf_clock c -> init_c c s0 = Ok m0 -> minv (DState R) (DRow R) (DOut R) c m0.
Proof.
  intros Hwf Hi. unfold init_c in Hi.
  assert (Hp : plant c <> []) by (intros E; unfold init_model in Hi; rewrite E in Hi; discriminate).
  assert (Hp0 : forall p, nthZ (plant c) 0 = Some p -> (0 <= p)%Z) by (intros p Ep; apply (wf_window c Hwf 0%Z p Ep)).
  assert (H2 : (2 <= n_steps c)%Z).
  { destruct (plant c) as [|p r] eqn:Epl; [contradiction|].
    assert (E0 : nthZ (plant c) 0 = Some p) by (rewrite Epl; reflexivity).
    destruct (wf_window c Hwf 0%Z p E0). lia. }
  exact (proj1 (init_model_inv _ _ _ c s0 m0 Hwf H2 Hp Hp0 Hi)).
Qed.

(* C14 for the whole chain configuration -> initialisation -> run by step counts, calendar-day crops: two weather tables that both
   cover the window and whose bound matrices agree on the steps before t give the same rows and summary rows before step t.
   (The two runs start from the SAME initial model: parameters, crops, clock and initial state do not depend on the weather.) *)
Theorem run_config_prefix_causal (cfg : Config R) (tb tb' : Inputs.Table R) w w' t i i' n m0 a b :
  let s := Initialise.day_of (cf_start cfg) in let e := Initialise.day_of (cf_end cfg) in
  u_CalendarType (cf_crop cfg) = 1%Z ->
  Inputs.bind_weather s e tb = Inputs.Ok w -> Inputs.bind_weather s e tb' = Inputs.Ok w' -> matrix_agree_before t w w' ->
  initialise (with_weather cfg tb) = IOk i -> initialise (with_weather cfg tb') = IOk i' ->
  i_par i' = i_par i /\ i_crops i' = i_crops i /\ i_clock i' = i_clock i /\ i_state i' = i_state i /\
  (init_c (i_clock i) (i_state i) = Ok m0 ->
   run_steps_c (i_par i) (i_crops i) (i_clock i) (i_weather i) n m0 = GOk a ->
   run_steps_c (i_par i') (i_crops i') (i_clock i') (i_weather i') n m0 = GOk b ->
   rows_before (DState R) (DRow R) (DOut R) t a = rows_before (DState R) (DRow R) (DOut R) t b /\
   sums_before (DState R) (DRow R) (DOut R) t a = sums_before (DState R) (DRow R) (DOut R) t b).
Proof.
  cbv zeta. intros Hc Hw Hw' Ha Hi Hi'.
  destruct (initialise_calendar_weather cfg tb tb' w w' i Hc Hw Hw' Hi) as (i2 & zgw & E2 & Ep & Ecr & Ecl & Est & _ & Ew & Ew2).
  rewrite Hi' in E2. injection E2 as <-.
  split; [exact Ep|]. split; [exact Ecr|]. split; [exact Ecl|]. split; [exact Est|].
  rewrite Ep, Ecr, Ecl, Ew, Ew2. intros Hm0 Hr Hr'.
  pose proof (initialise_clock_wf _ _ Hi) as Hwf.
  exact (run_steps_c_prefix_causal (i_par i) (i_crops i) (i_clock i) _ _ t n m0 a b Hwf
           (weather_of_agree _ t w w' zgw Ha) (init_minv _ _ _ Hwf Hm0) Hr Hr').
Qed.

(* ============================================================================================================ *)
(*  Part 3  C20 at configuration level: inert settings                                                            *)
(* ============================================================================================================ *)
(* the user's irrigation management: every parameter only where the selected method reads it *)
Record irr_u_inert_eq (i i' : IrrU R) : Prop := {
  ue_method : ir_method i = ir_method i';
  ue_SMT : ir_method i = 1%Z -> ir_SMT i = ir_SMT i';
  ue_AppEff : surface (ir_method i) -> ir_AppEff i = ir_AppEff i';
  ue_MaxIrr : surface (ir_method i) -> ir_MaxIrr i = ir_MaxIrr i';
  ue_IrrInterval : ir_method i = 2%Z -> ir_IrrInterval i = ir_IrrInterval i';
  ue_sched : ir_method i = 3%Z -> ir_sched i = ir_sched i';
  ue_depth : ir_method i = 5%Z -> ir_depth i = ir_depth i';
  ue_MaxIrrSeason : surface (ir_method i) -> ir_MaxIrrSeason i = ir_MaxIrrSeason i';
  ue_NetIrrSMT : ir_method i = 4%Z -> ir_NetIrrSMT i = ir_NetIrrSMT i';
  ue_WetSurf : surface (ir_method i) -> ir_WetSurf i = ir_WetSurf i' }.

(* the user's field management: the parameters of a feature only when its switch is on; the water between the bunds only when the
   bunds are higher than 1 mm *)
Record field_u_inert_eq (f f' : Inputs.FieldM R) : Prop := {
  ve_sr_inhb : Inputs.fm_sr_inhb f = Inputs.fm_sr_inhb f';
  ve_bunds : Inputs.fm_bunds f = Inputs.fm_bunds f';
  ve_cn_adj : Inputs.fm_cn_adj f = Inputs.fm_cn_adj f';
  ve_mulches : Inputs.fm_mulches f = Inputs.fm_mulches f';
  ve_z_bund : Inputs.fm_bunds f = true -> Inputs.fm_z_bund f = Inputs.fm_z_bund f';
  ve_bund_water : Inputs.fm_bunds f = true -> 1 / 1000 < Inputs.fm_z_bund f -> Inputs.fm_bund_water f = Inputs.fm_bund_water f';
  ve_cn_adj_pct : Inputs.fm_cn_adj f = true -> Inputs.fm_cn_adj_pct f = Inputs.fm_cn_adj_pct f';
  ve_f_mulch : Inputs.fm_mulches f = true -> Inputs.fm_f_mulch f = Inputs.fm_f_mulch f';
  ve_mulch_pct : Inputs.fm_mulches f = true -> Inputs.fm_mulch_pct f = Inputs.fm_mulch_pct f' }.

Definition with_mgmt (cfg : Config R) (iu : IrrU R) (f ff : Inputs.FieldM R) : Config R :=
  {| cf_start := cf_start cfg; cf_end := cf_end cfg; cf_weather := cf_weather cfg; cf_soil := cf_soil cfg; cf_crop := cf_crop cfg;
     cf_iwc := cf_iwc cfg; cf_irr := iu; cf_field := f; cf_fallow_field := ff;
     cf_gw := cf_gw cfg; cf_co2 := cf_co2 cfg; cf_off_season := cf_off_season cfg |}.

(* relation between two results: both raise the same error, or both succeed with related values *)
Definition ires_rel {A} (P : A -> A -> Prop) (r r' : ires A) : Prop :=
  match r, r' with IOk a, IOk b => P a b | IErr_ e, IErr_ e' => e = e' | _, _ => False end.

Lemma ibind_same {A B} (Q : B -> B -> Prop) (r : ires A) f f' :
  (forall a, ires_rel Q (f a) (f' a)) -> ires_rel Q (ibind r f) (ibind r f').
Proof. intros H. destruct r; cbn [ibind]; [apply H|reflexivity]. Qed.

Lemma ibind_rel {A B} (P : A -> A -> Prop) (Q : B -> B -> Prop) (r r' : ires A) f f' :
  ires_rel P r r' -> (forall a a', P a a' -> ires_rel Q (f a) (f' a')) -> ires_rel Q (ibind r f) (ibind r' f').
Proof. intros H0 H. destruct r, r'; cbn [ibind ires_rel] in *; try contradiction; [apply H; exact H0|exact H0]. Qed.

Lemma irr_of_inert (iu iu' : IrrU R) s e : irr_u_inert_eq iu iu' -> ires_rel irr_inert_eq (irr_of iu s e) (irr_of iu' s e).
Proof.
  intros H. unfold irr_of.
  assert (Es : Inputs.irr_schedule (ir_method iu) s e (ir_sched iu) = Inputs.irr_schedule (ir_method iu') s e (ir_sched iu')).
  { rewrite <- (ue_method _ _ H). unfold Inputs.irr_schedule. destruct (ir_method iu =? 3)%Z eqn:E; [|reflexivity].
    apply Z.eqb_eq in E. rewrite (ue_sched _ _ H E). reflexivity. }
  rewrite <- Es. destruct (Inputs.irr_schedule _ _ _ _) as [sch|x]; cbn [of_in ibind ires_rel]; [|reflexivity].
  constructor; cbn [i_id i_method i_SMT i_AppEff i_MaxIrr i_IrrInterval i_Schedule i_depth i_MaxIrrSeason i_NetIrrSMT i_WetSurf]; try reflexivity.
  - exact (ue_method _ _ H).
  - intros E. unfold Inputs.irr_smt. exact (ue_SMT _ _ H E).
  - exact (ue_AppEff _ _ H). - exact (ue_MaxIrr _ _ H). - exact (ue_IrrInterval _ _ H). - exact (ue_depth _ _ H).
  - exact (ue_MaxIrrSeason _ _ H). - exact (ue_NetIrrSMT _ _ H). - exact (ue_WetSurf _ _ H).
Qed.

Lemma field_of_inert id (f f' : Inputs.FieldM R) : field_u_inert_eq f f' -> field_inert_eq (field_of id f) (field_of id f').
Proof.
  intros H. constructor; cbn [field_of f_id f_sr_inhb f_bunds f_z_bund f_cn_adj f_cn_adj_pct f_mulches f_f_mulch f_mulch_pct f_bund_water]; try reflexivity.
  - exact (ve_sr_inhb _ _ H). - exact (ve_bunds _ _ H). - exact (ve_cn_adj _ _ H). - exact (ve_mulches _ _ H). - exact (ve_z_bund _ _ H).
  - exact (ve_bund_water _ _ H). - exact (ve_cn_adj_pct _ _ H). - exact (ve_f_mulch _ _ H). - exact (ve_mulch_pct _ _ H).
Qed.

(* two initialisation results related by inertness *)
Definition init_inert_eq (i i' : Init R) : Prop :=
  par_inert_eq (i_par i) (i_par i') /\ i_crops i = i_crops i' /\ i_clock i = i_clock i' /\ i_weather i = i_weather i' /\
  i_state i = i_state i' /\ i_reset_ok i = i_reset_ok i'.

Theorem initialise_inert (cfg : Config R) iu iu' f f' ff ff' :
  irr_u_inert_eq iu iu' -> field_u_inert_eq f f' -> field_u_inert_eq ff ff' ->
  ires_rel init_inert_eq (initialise (with_mgmt cfg iu f ff)) (initialise (with_mgmt cfg iu' f' ff')).
Proof.
  intros Hi Hf Hff. unfold initialise, par_of.
  cbn [with_mgmt cf_start cf_end cf_weather cf_soil cf_crop cf_iwc cf_irr cf_field cf_fallow_field cf_gw cf_co2 cf_off_season].
  repeat (first [apply ibind_same; intros ? | match goal with |- ires_rel _ (let '(_, _) := ?p in _) _ => destruct p end]).
  apply (ibind_rel irr_inert_eq); [apply irr_of_inert; exact Hi|]. intros xa xa' Ha.
  repeat (apply ibind_same; intros ?).
  match goal with |- ires_rel _ (ibind (of_opt _ (InitState.init_state ?p _ _ _ _)) _) (ibind (of_opt _ (InitState.init_state ?p' _ _ _ _)) _) =>
    assert (HP : par_inert_eq p p') end.
  { constructor; cbn [p_soil p_irr p_fallow_irr p_field p_fallow_field p_crop p_fallow_crop p_water_table p_co2c p_co2r p_evap_steps p_sim_off];
      try reflexivity; try assumption.
    - apply irr_inert_eq_refl. - apply field_of_inert; exact Hf. - apply field_of_inert; exact Hff. }
  rewrite <- (init_state_inert _ _ _ _ _ _ HP).
  apply ibind_same. intros s0. cbn [ires_rel]. unfold init_inert_eq. cbn [i_par i_crops i_clock i_weather i_state i_reset_ok].
  split; [exact HP|]. repeat split; reflexivity.
Qed.

(* hence the whole run from the configuration is the same *)
Theorem run_config_inert (cfg : Config R) iu iu' f f' ff ff' fuel :
  irr_u_inert_eq iu iu' -> field_u_inert_eq f f' -> field_u_inert_eq ff ff' ->
  run_config (with_mgmt cfg iu f ff) fuel = run_config (with_mgmt cfg iu' f' ff') fuel.
Proof.
  intros Hi Hf Hff. pose proof (initialise_inert cfg iu iu' f f' ff ff' Hi Hf Hff) as H. unfold run_config.
  destruct (initialise (with_mgmt cfg iu f ff)) as [i|x], (initialise (with_mgmt cfg iu' f' ff')) as [i'|x']; cbn [ires_rel] in H;
    try contradiction; [|rewrite H; reflexivity].
  destruct H as (HP & Ec & Ek & Ew & Es & Er). unfold first_bad_season. rewrite <- Ec, <- Ek, <- Ew, <- Es, <- Er.
  destruct (init_c (i_clock i) (i_state i)) as [m0|]; [|reflexivity].
  rewrite <- (run_inert_concrete _ _ (i_crops i) HP). reflexivity.
Qed.

(* ---- Part 3b: an explicitly stated default harvest date ------------------------------------------------------------- *)
Definition set_harvest (u : CropU R) (h : option (Z * Z)) : CropU R := {| u_planting := u_planting u; u_harvest := h; u_CropType := u_CropType u; u_CalendarType := u_CalendarType u; u_SwitchGDD := u_SwitchGDD u; u_GDDmethod := u_GDDmethod u; u_ETadj := u_ETadj u; u_PolHeatStress := u_PolHeatStress u; u_PolColdStress := u_PolColdStress u; u_TrColdStress := u_TrColdStress u; u_PlantMethod := u_PlantMethod u; u_Determinant := u_Determinant u; u_Tupp := u_Tupp u; u_Tbase := u_Tbase u; u_GermThr := u_GermThr u; u_YldWC := u_YldWC u; u_Zmin := u_Zmin u; u_Zmax := u_Zmax u; u_Aer := u_Aer u; u_LagAer := u_LagAer u; u_PctZmin := u_PctZmin u; u_fshape_r := u_fshape_r u; u_fshape_ex := u_fshape_ex u; u_fshape_b := u_fshape_b u; u_SxTopQ := u_SxTopQ u; u_SxBotQ := u_SxBotQ u; u_SeedSize := u_SeedSize u; u_PlantPop := u_PlantPop u; u_CCx := u_CCx u; u_CDC := u_CDC u; u_CGC := u_CGC u; u_CDC_CD := u_CDC_CD u; u_CGC_CD := u_CGC_CD u; u_Kcb := u_Kcb u; u_fage := u_fage u; u_a_Tr := u_a_Tr u; u_WP := u_WP u; u_WPy := u_WPy u; u_fsink := u_fsink u; u_bsted := u_bsted u; u_bface := u_bface u; u_HI0 := u_HI0 u; u_HIini := u_HIini u; u_dHI_pre := u_dHI_pre u; u_a_HI := u_a_HI u; u_b_HI := u_b_HI u; u_dHI0 := u_dHI0 u; u_exc := u_exc u; u_CCmin := u_CCmin u; u_beta := u_beta u; u_pu1 := u_pu1 u; u_pu2 := u_pu2 u; u_pu3 := u_pu3 u; u_pu4 := u_pu4 u; u_pl1 := u_pl1 u; u_pl2 := u_pl2 u; u_pl3 := u_pl3 u; u_pl4 := u_pl4 u; u_fw1 := u_fw1 u; u_fw2 := u_fw2 u; u_fw3 := u_fw3 u; u_Tmax_up := u_Tmax_up u; u_Tmax_lo := u_Tmax_lo u; u_Tmin_up := u_Tmin_up u; u_Tmin_lo := u_Tmin_lo u; u_GDD_up := u_GDD_up u; u_GDD_lo := u_GDD_lo u; u_EmergenceCD := u_EmergenceCD u; u_MaxRootingCD := u_MaxRootingCD u; u_SenescenceCD := u_SenescenceCD u; u_MaturityCD := u_MaturityCD u; u_HIstartCD := u_HIstartCD u; u_FloweringCD := u_FloweringCD u; u_YldFormCD := u_YldFormCD u; u_Emergence := u_Emergence u; u_MaxRooting := u_MaxRooting u; u_Senescence := u_Senescence u; u_Maturity := u_Maturity u; u_HIstart := u_HIstart u; u_Flowering := u_Flowering u; u_YldForm := u_YldForm u |}.
Definition with_crop (cfg : Config R) (u : CropU R) : Config R :=
  {| cf_start := cf_start cfg; cf_end := cf_end cfg; cf_weather := cf_weather cfg; cf_soil := cf_soil cfg; cf_crop := u;
     cf_iwc := cf_iwc cfg; cf_irr := cf_irr cfg; cf_field := cf_field cfg; cf_fallow_field := cf_fallow_field cfg;
     cf_gw := cf_gw cfg; cf_co2 := cf_co2 cfg; cf_off_season := cf_off_season cfg |}.

Lemma set_harvest_id (u : CropU R) : set_harvest u (u_harvest u) = u.
Proof. destruct u; reflexivity. Qed.

(* the second call of compute_crop_calendar reads the FloweringCD = -999 the first call stored only when the crop is determinate and
   not a fruit / grain crop *)
Lemma crop_init_second (u : CropU R) h h' gdd conc ref : u_CalendarType u = 1%Z -> (u_CropType u = 3%Z \/ u_Determinant u <> 1) ->
  CropInit.crop_init (crop_in (set_harvest u h) true) gdd conc ref = CropInit.crop_init (crop_in (set_harvest u h') false) gdd conc ref.
Proof.
  intros Hc Hd. unfold CropInit.crop_init, crop_in, cal_of, det_of.
  cbn [set_harvest u_planting u_harvest u_CropType u_CalendarType u_SwitchGDD u_GDDmethod u_ETadj u_PolHeatStress u_PolColdStress u_TrColdStress u_PlantMethod u_Determinant u_Tupp u_Tbase u_GermThr u_YldWC u_Zmin u_Zmax u_Aer u_LagAer u_PctZmin u_fshape_r u_fshape_ex u_fshape_b u_SxTopQ u_SxBotQ u_SeedSize u_PlantPop u_CCx u_CDC u_CGC u_CDC_CD u_CGC_CD u_Kcb u_fage u_a_Tr u_WP u_WPy u_fsink u_bsted u_bface u_HI0 u_HIini u_dHI_pre u_a_HI u_b_HI u_dHI0 u_exc u_CCmin u_beta u_pu1 u_pu2 u_pu3 u_pu4 u_pl1 u_pl2 u_pl3 u_pl4 u_fw1 u_fw2 u_fw3 u_Tmax_up u_Tmax_lo u_Tmin_up u_Tmin_lo u_GDD_up u_GDD_lo u_EmergenceCD u_MaxRootingCD u_SenescenceCD u_MaturityCD u_HIstartCD u_FloweringCD u_YldFormCD u_Emergence u_MaxRooting u_Senescence u_Maturity u_HIstart u_Flowering u_YldForm CropInit.i_mode CropInit.i_cal CropInit.i_PlantPop CropInit.i_SeedSize CropInit.i_SxTopQ CropInit.i_SxBotQ
       CropInit.i_HI0 CropInit.i_HIini CropInit.i_bsted CropInit.i_bface CropInit.i_fsink CropInit.i_WP].
  rewrite Hc. cbn [Z.eqb Pos.eqb andb negb]. destruct Hd as [Hd|Hd].
  - rewrite Hd. cbn [Z.eqb Pos.eqb negb]. reflexivity.
  - destruct (u_CropType u =? 3)%Z eqn:E3; cbn [negb]; [reflexivity|].
    unfold CropInit.with_cc0, Calendar.cal_derived.
    cbn [Calendar.k_determinant Calendar.k_croptype Calendar.k_emergence Calendar.k_senescence Calendar.k_maturity Calendar.k_histart
         Calendar.k_flowering Calendar.k_yldform Calendar.k_cc0 Calendar.k_ccx Calendar.k_cgc].
    rewrite E3. assert (E1 : neqb num_ops (u_Determinant u) (nofZ num_ops 1) = false).
    { rnum. destruct (Reqb_spec (u_Determinant u) 1) as [e|n]; [contradiction|reflexivity]. }
    rewrite E1. cbn [Z.eqb]. reflexivity.
Qed.


Lemma ibind_ext {A B} (r r' : ires A) (f f' : A -> ires B) : r = r' -> (forall a, f a = f' a) -> ibind r f = ibind r' f'.
Proof. intros -> H. destruct r'; cbn [ibind]; [apply H|reflexivity]. Qed.

Lemma seasons_of_harvest (u : CropU R) h h' s k0 l wsel co2 c o : u_CalendarType u = 1%Z ->
  seasons_of (set_harvest u h) s k0 l wsel co2 c o = seasons_of (set_harvest u h') s k0 l wsel co2 c o.
Proof.
  intros Hc. unfold seasons_of. apply map_ext. intros kp. unfold season_of. cbn [set_harvest u_CalendarType u_bsted u_bface u_fsink u_WP].
  rewrite Hc. cbn [Z.eqb Pos.eqb]. reflexivity.
Qed.

Theorem initialise_default_harvest_explicit (cfg : Config R) (u : CropU R) :
  u_CalendarType u = 1%Z -> (u_CropType u = 3%Z \/ u_Determinant u <> 1) ->
  initialise (with_crop cfg (set_harvest u (Some (Calendar.default_harvest (u_planting u) (maturity_arg (u_MaturityCD u)))))) =
  initialise (with_crop cfg (set_harvest u None)).
Proof.
  intros Hc Hd. unfold initialise, par_of, crops_of.
  cbn [with_crop cf_start cf_end cf_weather cf_soil cf_crop cf_iwc cf_irr cf_field cf_fallow_field cf_gw cf_co2 cf_off_season].
  cbn [set_harvest u_CalendarType u_SwitchGDD u_harvest u_planting u_MaturityCD u_Zmax].
  rewrite Hc. cbn [Z.eqb Pos.eqb orb].
  do 5 (apply ibind_ext; [reflexivity|intros ?]).
  match goal with |- (let '(_, _) := ?p in _) = _ => destruct p end.
  do 2 (apply ibind_ext; [reflexivity|intros ?]).
  cbn [ibind].
  apply ibind_ext; [rewrite default_harvest_explicit; reflexivity|intros sl].
  do 5 (apply ibind_ext; [reflexivity|intros ?]).
  cbn [of_opt ibind].
  apply ibind_ext; [f_equal; symmetry; apply crop_init_second; assumption|intros o0].
  apply ibind_ext; [reflexivity|intros co2].
  rewrite (seasons_of_harvest u (Some (Calendar.default_harvest (u_planting u) (maturity_arg (u_MaturityCD u)))) None) by exact Hc.
  do 2 (apply ibind_ext; [reflexivity|intros ?]).
  reflexivity.
Qed.

Corollary initialise_default_harvest_explicit' (cfg : Config R) :
  let u := cf_crop cfg in
  u_CalendarType u = 1%Z -> (u_CropType u = 3%Z \/ u_Determinant u <> 1) -> u_harvest u = None ->
  initialise (with_crop cfg (set_harvest u (Some (Calendar.default_harvest (u_planting u) (maturity_arg (u_MaturityCD u)))))) = initialise cfg.
Proof.
  cbv zeta. intros Hc Hd Hn. rewrite (initialise_default_harvest_explicit cfg _ Hc Hd). rewrite <- Hn, set_harvest_id.
  destruct cfg; reflexivity.
Qed.

(* REFUTATION of the unrestricted statement (ingredient level): for a determinate calendar-day crop that is not a fruit / grain crop
   the call of compute_crop_calendar made when NO harvest date is given reads FloweringCD = -999 stored by the earlier call, so the
   end of canopy development differs from the one computed when the same harvest date is given explicitly:
   HIstartCD = 999.5, FloweringCD = 21 give CanopyDevEndCD = 500 (unset) against 1010 (explicit) *)
Theorem default_harvest_explicit_refuted_ingredient :
  exists (k k' : Calendar.CalCrop (F:=R)),
    (* the calendar inputs of a crop u with CalendarType 1, CropType 2, Determinant 1, HIstartCD 999.5, FloweringCD 21, as [cal_of u true]
       (harvest date unset: second call) and [cal_of u false] (harvest date given) build them *)
    Calendar.k_determinant k = 1%Z /\ Calendar.k_croptype k = 2%Z /\ Calendar.k_histart k = 1999 / 2 /\ Calendar.k_flowering k = -999 /\
    Calendar.k_determinant k' = 1%Z /\ Calendar.k_croptype k' = 2%Z /\ Calendar.k_histart k' = 1999 / 2 /\ Calendar.k_flowering k' = 21 /\
    Calendar.r_canopydevend (Calendar.cal_derived k) = 500 /\ Calendar.r_canopydevend (Calendar.cal_derived k') = 1010.
Proof.
  exists {| Calendar.k_determinant := 1; Calendar.k_croptype := 2; Calendar.k_emergence := 1; Calendar.k_senescence := 1; Calendar.k_maturity := 1;
            Calendar.k_histart := 1999 / 2; Calendar.k_flowering := -999; Calendar.k_yldform := 1; Calendar.k_cc0 := 1; Calendar.k_ccx := 1;
            Calendar.k_cgc := 1 |},
         {| Calendar.k_determinant := 1; Calendar.k_croptype := 2; Calendar.k_emergence := 1; Calendar.k_senescence := 1; Calendar.k_maturity := 1;
            Calendar.k_histart := 1999 / 2; Calendar.k_flowering := 21; Calendar.k_yldform := 1; Calendar.k_cc0 := 1; Calendar.k_ccx := 1;
            Calendar.k_cgc := 1 |}.
  repeat split; unfold Calendar.cal_derived;
    cbn [Calendar.k_determinant Calendar.k_histart Calendar.k_flowering Calendar.r_canopydevend Z.eqb Pos.eqb]; rnum.
  - replace (1999 / 2 + -999 / 2) with (IZR 500) by lra. rewrite (@Zrnd_IZR ZnearestE (valid_rnd_N _)). reflexivity.
  - replace (1999 / 2 + 21 / 2) with (IZR 1010) by lra. rewrite (@Zrnd_IZR ZnearestE (valid_rnd_N _)). reflexivity.
Qed.

(* ============================================================================================================ *)
(*  Part 4  the remaining premises of run_config_theorem_cfg                                                      *)
(* ============================================================================================================ *)
(* ---- (a) layers_ok of the deepened profile ---------------------------------------------------------------------------- *)
Lemma add_layers_shape_bound P Ls : forall hi rows rows',
  sorted rows -> shape P hi rows -> (forall L k, In L Ls -> P (SoilBuild.mk_asg k L)) -> SoilBuild.add_layers rows Ls = Some rows' ->
  exists hi', shape P hi' rows' /\ (hi' <= hi + Z.of_nat (length Ls))%Z.
Proof.
  induction Ls as [|L Ls IH]; intros hi rows rows' HS Hsh HP; cbn [SoilBuild.add_layers length].
  - intros E; injection E as <-. exists hi; split; [exact Hsh|lia].
  - destruct (SoilBuild.add_layer rows L) as [r1|] eqn:E1; [|discriminate]. intros E.
    assert (HS1 : sorted r1) by (eapply sorted_geo; [eapply add_layer_geo; exact E1 | exact HS]).
    assert (HP1 : forall L0 k, In L0 Ls -> P (SoilBuild.mk_asg k L0)) by (intros; apply HP; right; assumption).
    destruct (add_layer_shape P hi rows L r1 HS Hsh (fun k => HP L k (or_introl eq_refl)) E1) as [H|H];
      destruct (IH _ _ _ HS1 H HP1 E) as (hi' & A & B); exists hi'; (split; [exact A|lia]).
Qed.

(* the built (undeepened) rows: contiguous layers 1..n from the surface with n at most the number of add_layer calls *)
Lemma build_blocks_bound dz layers rows zs :
  Forall (fun d => 0 <= d) dz -> SoilBuild.build_rows dz layers = Some (rows, zs) ->
  exists n, blocks (from_spec layers) 0 n rows /\ contiguous None rows /\ (n <= Z.of_nat (length layers))%Z.
Proof.
  intros Hd. unfold SoilBuild.build_rows. destruct (SoilBuild.add_layers _ _) as [r1|] eqn:E; [|discriminate]. intros H.
  destruct (create_rows_sorted dz (nofZ num_ops 0) Hd) as [HS _].
  destruct (add_layers_shape_bound (from_spec layers) layers 0 (SoilBuild.create_df dz) r1 HS) as (n & Hn & Hb); auto.
  - exists [], (SoilBuild.create_df dz). repeat split; [constructor|]. apply create_rows_unassigned.
  - intros L k HL. exists L. split; [exact HL|reflexivity].
  - exists n. pose proof (fill_nan_blocks _ _ _ _ _ Hn H) as Hbl. split; [exact Hbl|]. split; [|lia].
    eapply blocks_contiguous; [exact Hbl|reflexivity].
Qed.

Lemma contiguous_same rows rows' : Forall2 same_but_dz rows rows' -> forall prev, contiguous prev rows -> contiguous prev rows'.
Proof.
  induction 1 as [|r r' l l' (Ea & _) _ IH]; intros prev H; [exact I|].
  cbn [contiguous] in *. destruct H as (a & E & Hp & Hr). exists a. split; [rewrite Ea; exact E|]. split; [exact Hp|]. apply IH; exact Hr.
Qed.

Lemma contiguous_layers rows : forall p prev pl wp fc, SoilBuild.to_comps rows = Some p -> contiguous prev rows ->
  match prev with None => pl = 0%Z | Some b => pl = SoilBuild.a_layer b /\ wp = SoilBuild.a_wp b /\ fc = SoilBuild.a_fc b end ->
  TranspirationR.layers_from pl wp fc p.
Proof.
  induction rows as [|r rows IH]; intros p prev pl wp fc; cbn [SoilBuild.to_comps].
  - intros E _ _. injection E as <-. exact I.
  - destruct (SoilBuild.to_comp r) as [c|] eqn:Ec; [|discriminate]. destruct (SoilBuild.to_comps rows) as [cs|] eqn:Ecs; [|discriminate].
    intros E (a & Ea & Hp & Hr) Hprev. injection E as <-. unfold SoilBuild.to_comp in Ec. rewrite Ea in Ec. injection Ec as <-.
    cbn [TranspirationR.layers_from c_layer c_th_wp c_th_fc]. split.
    + destruct prev as [b|].
      * destruct Hprev as (-> & -> & ->). destruct Hp as [->|Hp]; [right; auto|left; lia].
      * subst pl. left. lia.
    + apply (IH cs (Some a)); [reflexivity|exact Hr|auto].
Qed.

(* ---- (d) the initial water contents, method Layer ---------------------------------------------------------------------- *)
Lemma uniform_same rows rows' : Forall2 same_but_dz rows rows' -> uniform_layers rows -> uniform_layers rows'.
Proof.
  intros HS HU.
  assert (Hin : forall r', In r' rows' -> exists r, In r rows /\ SoilBuild.r_asg r' = SoilBuild.r_asg r).
  { clear HU. induction HS as [|r r' l l' (Ea & _) _ IH]; intros x Hx; [destruct Hx|].
    destruct Hx as [<-|Hx]; [exists r; split; [left; reflexivity|exact Ea]|].
    destruct (IH _ Hx) as (y & Iy & Ey). exists y. split; [right; exact Iy|exact Ey]. }
  intros r1 r2 a1 a2 I1 I2 E1 E2 El. destruct (Hin _ I1) as (y1 & J1 & F1). destruct (Hin _ I2) as (y2 & J2 & F2).
  rewrite F1 in E1. rewrite F2 in E2. exact (HU y1 y2 a1 a2 J1 J2 E1 E2 El).
Qed.

Lemma layer_range_same lo hi rows rows' : Forall2 same_but_dz rows rows' ->
  Forall (fun r => exists a, SoilBuild.r_asg r = Some a /\ (lo < SoilBuild.a_layer a <= hi)%Z) rows ->
  Forall (fun r => exists a, SoilBuild.r_asg r = Some a /\ (lo < SoilBuild.a_layer a <= hi)%Z) rows'.
Proof.
  induction 1 as [|r r' l l' (Ea & _) _ IH]; intros H; [constructor|]. inversion H as [|? ? (a & E & Hl) H']; subst.
  constructor; [exists a; split; [rewrite Ea; exact E|exact Hl]|apply IH; exact H'].
Qed.

(* the premise on the configuration's initial water content (method Layer): every layer number 1 .. (number of add_layer calls) is
   named by some entry, and the values are property names WP / FC / SAT (type Prop) or percentages 0..100 (type Pct) *)
Definition iwc_layer_ok (cfg : Config R) : Prop :=
  w_method (cf_iwc cfg) = SoilBuild.MLayer /\
  (forall L, (0 < L <= Z.of_nat (length (so_layers (cf_soil cfg))))%Z ->
     Exists (fun dv => ntrunc num_ops (fst dv) = L) (combine (w_depth_layer (cf_iwc cfg)) (w_value (cf_iwc cfg)))) /\
  Forall (good_val (w_type (cf_iwc cfg))) (w_value (cf_iwc cfg)).

Theorem derived_layers_th0 (cfg : Config R) i :
  initialise cfg = IOk i -> gw_present (cf_gw cfg) = false -> soil_u_ok (cf_soil cfg) ->
  TranspirationR.layers_ok (so_prof (p_soil (i_par i))) /\
  (iwc_layer_ok cfg -> in_bounds (so_prof (p_soil (i_par i))) (d_th (i_state i))).
Proof.
  intros Hi Hgw [Hcm Hls]. destruct (initialise_inv _ _ Hi) as [x X].
  destruct (initialise_state _ _ Hi) as (zgw0 & th0' & rows' & zs' & _ & _ & E3).
  assert (Hwt : p_water_table (i_par i) = 0%Z).
  { rewrite (ii_eq _ _ _ X). cbn [i_par]. unfold x_par, par_of. cbn [p_water_table]. rewrite Hgw. reflexivity. }
  destruct (init_state_defined_no_table (i_par i) (init_season (i_clock i)) zgw0 (fc_reset_of (cf_iwc cfg)) th0' Hwt) as (s & Es & Et & _).
  rewrite E3 in Es. injection Es as <-. clear E3.
  (* identify th0' with the model's own th0 *)
  assert (Eth : d_th (i_state i) = x_th0 x).
  { pose proof (ii_s0 _ _ _ X) as S0. rewrite (ii_eq _ _ _ X). cbn [i_state].
    assert (Hw0 : p_water_table (x_par cfg x) = 0%Z) by (unfold x_par, par_of; cbn [p_water_table]; rewrite Hgw; reflexivity).
    destruct (init_state_defined_no_table (x_par cfg x) (x_k0 x) (x_zgw0 cfg x) (fc_reset_of (cf_iwc cfg)) (x_th0 x) Hw0) as (s & Es & Et' & _).
    rewrite S0 in Es. injection Es as <-. exact Et'. }
  rewrite Eth. clear Et th0' rows' zs' zgw0.
  rewrite (ii_eq _ _ _ X). cbn [i_par]. unfold x_par, par_of. cbn [p_soil].
  destruct (soil_of_fields _ _ _ (ii_soil _ _ _ X)) as (-> & _).
  pose proof (ii_prof _ _ _ X) as Hp. rewrite Hgw in Hp. unfold profile_of in Hp.
  destruct (SoilBuild.to_comps (x_rows x)) as [cs|] eqn:Ec; [|discriminate]. cbn [of_opt ibind] in Hp. injection Hp as Hp. rewrite <- Hp.
  specialize (Hls _ (ii_layers _ _ _ X)).
  pose proof (ii_rows _ _ _ X) as Hd. unfold SoilBuild.build_deepened in Hd.
  destruct (SoilBuild.build_rows (so_dz (cf_soil cfg)) (x_Ls x)) as [[rows0 zs0]|] eqn:Eb; [|discriminate].
  assert (Hnn : Forall (fun d => 0 <= d) (so_dz (cf_soil cfg))).
  { eapply Forall_impl; [|exact Hcm]. intros d Hd0. pose proof (cm_pos _ Hd0). lra. }
  destruct (build_blocks_bound _ _ _ _ Hnn Eb) as (n & Hbl & Hct & Hn).
  assert (A0 : Forall assigned rows0).
  { unfold SoilBuild.build_rows in Eb. destruct (SoilBuild.add_layers _ _); [|discriminate]. exact (fill_nan_assigned _ _ _ Eb). }
  pose proof (deepen_preserves _ _ _ _ _ _ A0 Hd) as Sm.
  split.
  - exact (contiguous_layers _ _ None 0%Z 0 0 Ec (contiguous_same _ _ Sm None Hct) eq_refl).
  - intros (Hme & Hnamed & Hgood).
    pose proof (ii_th0 _ _ _ X) as Hth. rewrite Hme in Hth.
    assert (S0 : rows_sat asg_ok rows0).
    { eapply build_rows_sat; [|exact Eb]. intros L k HL. rewrite Forall_forall in Hls. destruct (Hls L HL) as [(H1 & H2 & H3 & H4) _].
      apply mk_asg_ok. unfold valid_layer. repeat split; lra. }
    pose proof (rows_sat_same _ _ _ Sm S0) as S1.
    pose proof (uniform_same _ _ Sm (blocks_uniform _ _ _ _ Hbl)) as U1.
    pose proof (layer_range_same _ _ _ _ Sm (blocks_layers _ _ _ _ Hbl)) as R1.
    apply (iwc_layer_in_bounds _ _ _ _ _ _ _ U1 S1 Ec Hth).
    intros r a Ir Ea. split.
    + rewrite Forall_forall in R1. destruct (R1 r Ir) as (a' & Ea' & Hl). rewrite Ea in Ea'. injection Ea' as <-.
      apply Hnamed. assert (length (x_Ls x) = length (so_layers (cf_soil cfg))) as <-.
      { pose proof (ii_layers _ _ _ X) as HL. clear -HL. revert HL. generalize (x_Ls x).
        induction (so_layers (cf_soil cfg)) as [|y ys IH]; intros Ls; cbn [SoilBuild.resolve_layers].
        - intros E; injection E as <-. reflexivity.
        - destruct (match y with SoilBuild.LHyd L => Some L | SoilBuild.LTex t sa cl om pen => SoilBuild.layer_from_texture t sa cl om pen end); [|discriminate].
          destruct (SoilBuild.resolve_layers ys) as [Ls'|] eqn:E'; [|discriminate]. intros E; injection E as <-. cbn [length]. f_equal. apply IH. reflexivity. }
      lia.
    + unfold rows_sat in S1. rewrite Forall_forall in S1. specialize (S1 r Ir). rewrite Ea in S1.
      eapply Forall_impl; [|exact Hgood]. intros v Hv. apply good_val_requested; assumption.
Qed.

(* THE CLOSED STATEMENT, reduced premise list: premises on the configuration ([CfgOK], [soil_u_ok], [CropUOK], [iwc_layer_ok]) and two
   premises that remain on the DERIVED parameters: (b) the CO2 concentration of every season (it comes out of the interpolated CO2
   table and the year of the planting date), (c) the bound on the length of a season (harvest step - planting step against the
   derived MaxCanopyCD, fage, Kcb).  [layers_ok] and the initial water contents are discharged (method Layer). *)
Theorem run_config_theorem_cfg2 (cfg : Config R) fuel m' :
  CfgOK cfg -> soil_u_ok (cf_soil cfg) -> CropUOK (cf_crop cfg) -> iwc_layer_ok cfg ->
  (forall i, initialise cfg = IOk i ->
     (forall k, p_co2c (i_par i) k - p_co2r (i_par i) <= 20 * (550 - p_co2r (i_par i))) /\
     (forall k p h, nthZ (plant (i_clock i)) k = Some p -> nthZ (harv (i_clock i)) k = Some h ->
        let kk := cf_tr (i_crops i (c_id (sel_crop (i_par i) k))) in
        (IZR (h - p) - Transpiration.k_MaxCanopyCD kk - 5) * (Transpiration.k_fage kk / 100) <= Transpiration.k_Kcb kk)) ->
  run_config cfg fuel = RRun (Some (GOk m')) ->
  exists i m0 (evs : list (Ev (DState R) (Day.W R) (DRow R))),
    initialise cfg = IOk i /\ init_c (i_clock i) (i_state i) = Ok m0 /\
    Reach (DState R) (Day.W R) (DRow R) (DOut R) (proc_c (i_par i) (i_crops i)) dead (matured (i_par i)) (summary_of (i_par i))
          (reset (i_par i)) (defined_c (i_par i) (i_crops i)) (i_clock i) (i_weather i) m0 evs m' /\
    SInv (i_par i) (i_crops i) (st m') /\ RInv2 (i_par i) (phys (st m')) /\
    Forall (fun e => strong_ev (i_par i) (i_crops i) e /\ rows_day (i_par i) (i_crops i) e) evs /\
    chained _ _ _ (reset (i_par i)) (i_weather i) (phys (st m')) evs /\
    rows (tabs m') = map (fun e => (e_tsc _ _ _ e, e_row _ _ _ e)) evs ++ rows (tabs m0).
Proof.
  intros CK SK UK WK DK. apply run_config_theorem_cfg; try assumption.
  intros i Hi. destruct (DK i Hi) as (D2 & D3).
  destruct (derived_layers_th0 cfg i Hi (ck_no_table _ CK) SK) as (D1 & D4).
  split; [exact D1|]. split; [exact D2|]. split; [exact D3|]. exact (D4 WK).
Qed.

(* ============================================================================================================ *)
(*  Part 5  C18 / C19 at configuration level                                                                      *)
(* ============================================================================================================ *)
(* the profile of the run is the deepened profile of the configuration's soil: it reaches below the crop's maximum rooting depth, and
   (without a water table) the initial water content of the state IS the specified initial water content on those rows — so
   SoilBuildR.iwc_layer_spec / iwc_depth_spec describe d_th (i_state i), and th = thini *)
Theorem initialise_profile_iwc (cfg : Config R) i : initialise cfg = IOk i -> gw_present (cf_gw cfg) = false ->
  exists Ls rows zsoil,
    SoilBuild.resolve_layers (so_layers (cf_soil cfg)) = Some Ls /\
    SoilBuild.build_deepened deepen_fuel (u_Zmax (cf_crop cfg)) (so_dz (cf_soil cfg)) Ls = Some (rows, zsoil) /\
    SoilBuild.to_comps rows = Some (so_prof (p_soil (i_par i))) /\
    u_Zmax (cf_crop cfg) + 1 / 10 <= zsoil /\
    SoilBuild.initial_wc (w_type (cf_iwc cfg)) (w_method (cf_iwc cfg)) rows zsoil (w_depth_layer (cf_iwc cfg)) (w_value (cf_iwc cfg))
      = Some (d_th (i_state i)) /\
    d_thini (i_state i) = d_th (i_state i) /\
    d_th_fc_Adj (i_state i) = map (fun c => c_th_fc c) (so_prof (p_soil (i_par i))).
Proof.
  intros Hi Hgw. destruct (initialise_inv _ _ Hi) as [x X].
  exists (x_Ls x), (x_rows x), (x_zsoil x). split; [exact (ii_layers _ _ _ X)|]. split; [exact (ii_rows _ _ _ X)|].
  assert (Hw0 : p_water_table (x_par cfg x) = 0%Z) by (unfold x_par, par_of; cbn [p_water_table]; rewrite Hgw; reflexivity).
  destruct (init_state_defined_no_table (x_par cfg x) (x_k0 x) (x_zgw0 cfg x) (fc_reset_of (cf_iwc cfg)) (x_th0 x) Hw0)
    as (s & Es & Et & Eti & Efc & _).
  rewrite (ii_s0 _ _ _ X) in Es. injection Es as <-.
  rewrite (ii_eq _ _ _ X). cbn [i_par i_state].
  assert (Ep : so_prof (p_soil (x_par cfg x)) = x_prof x).
  { unfold x_par, par_of. cbn [p_soil]. exact (proj1 (soil_of_fields _ _ _ (ii_soil _ _ _ X))). }
  split.
  - rewrite Ep. pose proof (ii_prof _ _ _ X) as Hp. rewrite Hgw in Hp. unfold profile_of in Hp.
    destruct (SoilBuild.to_comps (x_rows x)); [|discriminate]. cbn in Hp. injection Hp as <-. reflexivity.
  - split.
    + pose proof (ii_rows _ _ _ X) as Hd. unfold SoilBuild.build_deepened in Hd.
      destruct (SoilBuild.build_rows _ _) as [[r0 z0]|]; [|discriminate]. exact (deepen_reaches _ _ _ _ _ _ Hd).
    + rewrite Et, Eti. split; [exact (ii_th0 _ _ _ X)|]. split; [reflexivity|exact Efc].
Qed.

(* the groundwater depth of step k in the weather list of the run is entry k of the daily series the observations give
   (Inputs.gw_series on days since 1970; InputsP.gw_constant_spec / gw_variable_spec / gw_series_range describe that series) *)
Theorem initialise_gw_spec (cfg : Config R) i : initialise cfg = IOk i ->
  let s := Initialise.day_of (cf_start cfg) in let e := Initialise.day_of (cf_end cfg) in
  exists zser zgw,
    Inputs.gw_series (gw_present (cf_gw cfg)) (gw_method (cf_gw cfg)) (s - epoch) (e - epoch) (to_epoch (gw_obs (cf_gw cfg))) = Inputs.Ok zser /\
    Inputs.all_some zser = Some zgw /\
    forall k w, nth_error (i_weather i) k = Some w ->
      w_gw w = if gw_present (cf_gw cfg) then hd 0 (skipn k zgw) else 0.
Proof.
  intros Hi. cbv zeta. destruct (initialise_inv _ _ Hi) as [x X]. exists (x_zser x), (x_zgw x).
  split; [exact (ii_zser _ _ _ X)|]. split; [exact (ii_zgw _ _ _ X)|].
  intros k w. rewrite (ii_eq _ _ _ X). cbn [i_weather]. rewrite weather_of_nth.
  destruct (nth_error (x_wsel x) k); [|discriminate]. intros E. injection E as <-. cbn [w_gw]. rnum. reflexivity.
Qed.

(* ============================================================================================================ *)
(*  Examples (non-vacuity)                                                                                        *)
(* ============================================================================================================ *)
(* C15: the example table of InitialiseP with its columns reversed is a permutation of a well-shaped table *)
Example perm_example (cfg : Config R) :
  initialise (with_weather cfg (permute [4; 3; 2; 1; 0]%nat ex_weather)) = initialise (with_weather cfg ex_weather).
Proof.
  apply initialise_perm.
  - cbn. apply Permutation_sym. exact (Permutation_rev [0; 1; 2; 3; 4]%nat).
  - unfold well_shaped. cbn. repeat constructor.
Qed.

(* C20: two DIFFERENT rainfed irrigation managements and two different field managements without bunds / mulches / CN adjustment are
   related, so the configurations built from them initialise to inert-equal results and run identically *)
Definition ex_irr_a : IrrU R :=
  {| ir_method := 0%Z; ir_SMT := [0; 0; 0; 0]; ir_AppEff := 100; ir_MaxIrr := 25; ir_IrrInterval := 0%Z; ir_sched := [];
     ir_depth := 0; ir_MaxIrrSeason := 10000; ir_NetIrrSMT := 80; ir_WetSurf := 100 |}.
Definition ex_irr_b : IrrU R :=
  {| ir_method := 0%Z; ir_SMT := [70; 60; 50; 40]; ir_AppEff := 50; ir_MaxIrr := 5; ir_IrrInterval := 7%Z; ir_sched := [(730242%Z, 30)];
     ir_depth := 12; ir_MaxIrrSeason := 0; ir_NetIrrSMT := 50; ir_WetSurf := 30 |}.
Definition ex_field_a : Inputs.FieldM R :=
  {| Inputs.fm_mulches := false; Inputs.fm_bunds := false; Inputs.fm_cn_adj := false; Inputs.fm_sr_inhb := false; Inputs.fm_mulch_pct := 50;
     Inputs.fm_f_mulch := 1 / 2; Inputs.fm_z_bund := 0; Inputs.fm_bund_water := 0; Inputs.fm_cn_adj_pct := 0 |}.
Definition ex_field_b : Inputs.FieldM R :=
  {| Inputs.fm_mulches := false; Inputs.fm_bunds := false; Inputs.fm_cn_adj := false; Inputs.fm_sr_inhb := false; Inputs.fm_mulch_pct := 100;
     Inputs.fm_f_mulch := 1; Inputs.fm_z_bund := 200; Inputs.fm_bund_water := 60; Inputs.fm_cn_adj_pct := -20 |}.

Example inert_example (cfg : Config R) fuel :
  irr_u_inert_eq ex_irr_a ex_irr_b /\ field_u_inert_eq ex_field_a ex_field_b /\ ex_irr_a <> ex_irr_b /\
  run_config (with_mgmt cfg ex_irr_a ex_field_a ex_field_a) fuel = run_config (with_mgmt cfg ex_irr_b ex_field_b ex_field_b) fuel.
Proof.
  assert (Hi : irr_u_inert_eq ex_irr_a ex_irr_b).
  { constructor; cbn [ex_irr_a ex_irr_b ir_method]; try reflexivity; try (intros H; discriminate H);
      intros [H|[H|[H|H]]]; discriminate H. }
  assert (Hf : field_u_inert_eq ex_field_a ex_field_b).
  { constructor; cbn [ex_field_a ex_field_b Inputs.fm_mulches Inputs.fm_bunds Inputs.fm_cn_adj Inputs.fm_sr_inhb]; try reflexivity;
      intros H; discriminate H. }
  split; [exact Hi|]. split; [exact Hf|]. split.
  - intros E. apply (f_equal ir_IrrInterval) in E. discriminate E.
  - apply run_config_inert; assumption.
Qed.

(* Part 4: the premise on the initial water content holds for the example configuration of InitialiseP (Prop / Layer, "FC", one layer) *)
Example iwc_layer_ok_example : iwc_layer_ok (ex_cfg (2000, 5, 3)%Z).
Proof.
  unfold iwc_layer_ok. cbn [ex_cfg cf_iwc w_method w_depth_layer w_value w_type cf_soil ex_soil so_layers length combine].
  split; [reflexivity|]. split.
  - intros L HL. assert (L = 1%Z) as -> by lia. constructor. cbn [fst]. rnum. apply (Ztrunc_IZR 1).
  - repeat constructor.
Qed.

Print Assumptions initialise_weather_dep.
Print Assumptions initialise_perm.
Print Assumptions initialise_extra_col.
Print Assumptions initialise_reindex.
Print Assumptions initialise_extra_rows.
Print Assumptions run_config_perm.
Print Assumptions initialise_calendar_weather.
Print Assumptions run_config_prefix_causal.
Print Assumptions initialise_inert.
Print Assumptions run_config_inert.
Print Assumptions initialise_default_harvest_explicit.
Print Assumptions default_harvest_explicit_refuted_ingredient.
Print Assumptions derived_layers_th0.
Print Assumptions run_config_theorem_cfg2.
Print Assumptions initialise_profile_iwc.
Print Assumptions initialise_gw_spec.
Print Assumptions inert_example.
