(* InitialiseP3.v — further configuration-level statements (nothing of InitialiseP.v / InitialiseP2.v is changed).

   Part 1  premise (b) of run_config_theorem_cfg2 from the configuration's CO2 object: [co2_cfg_ok], [derived_co2]; the built-in
           Mauna Loa table satisfies it ([mauna_loa_ok]); [run_config_theorem_cfg3].
   Part 2  premise (c), calendar-day crops: every season lasts at most 366 days ([season_length_366]); [maxcanopy_cfg], [season_len_ok],
           [derived_season_len]; [run_config_theorem_cfg4]: every premise on the configuration.
   Part 3  C14 with the agreement stated on the dated records of the tables: [dates_agree_matrix], [run_config_prefix_causal_dates].
   Part 4  C08 at configuration level: [single_season_config], [reset_matches_single_init], [season_indep_config].
   Examples, Print Assumptions. *)
From Coq Require Import Reals List Bool ZArith Lra Lia Permutation.
From Flocq Require Import Core.
From AC Require Import Num RInst Params Kernels Clock Day DayConcrete RunConcrete.
From AC.Init Require Calendar Inputs SoilBuild CropInit InitState.
From AC.Init Require Import Initialise.
From AC.Water Require Transpiration.
From AC.Crop Require Canopy Roots Yield.
From AC.proofs Require Import ProfR DayP DayConcreteP ClockP RunP RunConcreteP DaySideU DaySideP DaySideRun DaySideRun2 DayRowsP DaySideRows.
From AC.proofs Require Import CalendarP InputsP SoilBuildR InitStateP YieldR.
From AC.proofs Require RainIrrR TranspirationR RootsR CanopyR.
From AC.proofs Require Import SeasonIndepDay SeasonIndepP.
From AC.proofs Require Import InitialiseP InitialiseP2.
Import ListNotations.
Local Open Scope R_scope.
#[local] Existing Instance YieldR.RTrig.

(* ============================================================================================================ *)
(*  Part 1  premise (b): the CO2 concentration of every season, from the configuration's CO2 object               *)
(* ============================================================================================================ *)
(* the largest concentration for which the CO2 correction of Kcb stays a factor in [0,1] *)
Definition co2_hi (ref : R) : R := ref + 20 * (550 - ref).

(* every ppm of the user's table lies in [0, co2_hi ref]; so does the user's concentration when the constant flag is set *)
Definition co2_cfg_ok (cfg : Config R) : Prop :=
  let c := cf_co2 cfg in
  Forall (fun p : Z * R => 0 <= snd p <= co2_hi (Inputs.co2_ref c)) (Inputs.co2_data c) /\
  (Inputs.co2_constant c = true -> Inputs.co2_current c <= co2_hi (Inputs.co2_ref c)).

Lemma co2_process_range sy ey data proc lo hi :
  Forall (fun p : Z * R => lo <= snd p <= hi) data -> Inputs.co2_process sy ey data = Inputs.Ok proc ->
  Forall (fun p : Z * R => lo <= snd p <= hi) proc.
Proof.
  intros Hd. unfold Inputs.co2_process. generalize (Inputs.years sy ey). intros ys. revert proc.
  induction ys as [|y ys IH]; cbn [Inputs.mapr]; intros proc H.
  - injection H as <-. constructor.
  - apply bindr_ok in H as ([y' v] & H0 & H). apply bindr_ok in H as (proc' & Hp & H). injection H as <-.
    destruct (Inputs.np_interp data y) as [v0|] eqn:E; [|discriminate]. injection H0 as <- <-.
    constructor; [exact (np_interp_range _ _ _ _ _ Hd E)|apply IH; exact Hp].
Qed.

Lemma first_conc_range (proc : list (Z * R)) c0 lo hi :
  Forall (fun p : Z * R => lo <= snd p <= hi) proc -> Inputs.first_conc proc = Inputs.Ok c0 -> lo <= c0 <= hi.
Proof. destruct proc as [|[y v] r]; [discriminate|]. intros H E. injection E as <-. inversion H; subst. assumption. Qed.

(* after compute_variables: the concentration written back and the concentration of every later season are at most co2_hi *)
Lemma co2_init_upper sy ey (c c1 : Inputs.CO2 R) :
  Forall (fun p : Z * R => 0 <= snd p <= co2_hi (Inputs.co2_ref c)) (Inputs.co2_data c) ->
  (Inputs.co2_constant c = true -> Inputs.co2_current c <= co2_hi (Inputs.co2_ref c)) ->
  Inputs.co2_init sy ey c = Inputs.Ok c1 ->
  Inputs.co2_current c1 <= co2_hi (Inputs.co2_ref c) /\
  forall y v, Inputs.co2_season c1 y = Inputs.Ok v -> v <= co2_hi (Inputs.co2_ref c).
Proof.
  intros Hd Hk H. destruct (co2_init_fields _ _ _ _ H) as (_ & Ek & _ & Hp & c0 & H0 & Hcur).
  pose proof (co2_process_range _ _ _ _ _ _ Hd Hp) as Hproc.
  pose proof (first_conc_range _ _ _ _ Hproc H0) as Hc0.
  assert (Hc1 : Inputs.co2_current c1 <= co2_hi (Inputs.co2_ref c)).
  { rewrite Hcur. destruct (Inputs.co2_constant c) eqn:E; [|lra]. destruct (nltb num_ops _ _); [exact (Hk eq_refl)|lra]. }
  split; [exact Hc1|]. intros y v. unfold Inputs.co2_season. rewrite Ek.
  destruct (Inputs.co2_constant c).
  - destruct (nltb num_ops (nofZ num_ops 0) (Inputs.co2_current c1)); intros E.
    + injection E as <-. exact Hc1.
    + pose proof (first_conc_range _ _ _ _ Hproc E). lra.
  - destruct (find _ _) as [p|] eqn:Ef; [|discriminate]. intros E. injection E as <-.
    apply find_some in Ef as [Hin _]. rewrite Forall_forall in Hproc. specialize (Hproc p Hin). cbn in Hproc. lra.
Qed.

Theorem derived_co2 (cfg : Config R) i : initialise cfg = IOk i -> co2_cfg_ok cfg ->
  forall k, p_co2c (i_par i) k - p_co2r (i_par i) <= 20 * (550 - p_co2r (i_par i)).
Proof.
  intros Hi [Hd Hk] k. destruct (initialise_inv _ _ Hi) as [x X]. rewrite (ii_eq _ _ _ X). cbn [i_par]. unfold x_par, par_of. cbn [p_co2c p_co2r].
  destruct (co2_init_upper _ _ _ _ Hd Hk (ii_co2 _ _ _ X)) as (H0 & Hs). unfold co2_hi in *.
  assert (E0 : conc0_of cfg = Inputs.co2_current (x_co2 x)) by (unfold conc0_of; rewrite (ii_co2 _ _ _ X); reflexivity).
  enough (fst (fst (look3 (x_seasons cfg x) (conc0_of cfg) (x_o0 x) k)) <= Inputs.co2_ref (cf_co2 cfg) + 20 * (550 - Inputs.co2_ref (cf_co2 cfg))) by lra.
  unfold look3. destruct (k <? 0)%Z; [cbn [fst]; rewrite E0; exact H0|].
  unfold x_seasons, seasons_of.
  set (f := fun kp : Z * Z => season_of _ _ _ _ _ _ _ (fst kp) (snd kp)).
  destruct (nth_in_or_default (Z.to_nat k) (map f (combine (Calendar.zrange 0 (Z.of_nat (length (x_l x)))) (map fst (x_l x)))) (conc0_of cfg, x_o0 x, true)) as [Hin | ->];
    [|cbn [fst]; rewrite E0; exact H0].
  apply in_map_iff in Hin as (kp & <- & _). unfold f, season_of.
  destruct ((fst kp =? 0)%Z && (x_k0 x =? 0)%Z); [cbn [fst]; rewrite E0; exact H0|].
  destruct (Inputs.co2_season _ _) as [c|] eqn:Es; [|cbn [fst]; rewrite E0; exact H0].
  specialize (Hs _ _ Es).
  destruct (u_CalendarType (cf_crop cfg) =? 2)%Z; [|exact Hs].
  destruct (gdd_from _ _ _); [|exact Hs]. destruct (reseason_gdd _ _ _); exact Hs.
Qed.

(* the built-in table (a copy of /repo/aquacrop/data/MaunaLoaCO2.txt, which the CO2 object reads when the user gives no table — the
   table is part of the user's CO2 object, not of the model) satisfies the premise for the default reference 369.41 *)
Definition mauna_loa : list (Z * R) := [(1959%Z, 31598 / 100); (1960%Z, 31691 / 100); (1961%Z, 31764 / 100); (1962%Z, 31845 / 100); (1963%Z, 31899 / 100); (1964%Z, 31962 / 100); (1965%Z, 32004 / 100); (1966%Z, 32138 / 100); (1967%Z, 32216 / 100); (1968%Z, 32304 / 100); (1969%Z, 32462 / 100); (1970%Z, 32568 / 100); (1971%Z, 32632 / 100); (1972%Z, 32745 / 100); (1973%Z, 32968 / 100); (1974%Z, 33017 / 100); (1975%Z, 33108 / 100); (1976%Z, 33205 / 100); (1977%Z, 33378 / 100); (1978%Z, 33541 / 100); (1979%Z, 33678 / 100); (1980%Z, 33868 / 100); (1981%Z, 34011 / 100); (1982%Z, 34122 / 100); (1983%Z, 34284 / 100); (1984%Z, 34441 / 100); (1985%Z, 34587 / 100); (1986%Z, 34719 / 100); (1987%Z, 34898 / 100); (1988%Z, 35145 / 100); (1989%Z, 3529 / 10); (1990%Z, 35416 / 100); (1991%Z, 35548 / 100); (1992%Z, 35627 / 100); (1993%Z, 35695 / 100); (1994%Z, 35864 / 100); (1995%Z, 36062 / 100); (1996%Z, 36236 / 100); (1997%Z, 36347 / 100); (1998%Z, 3665 / 10); (1999%Z, 36814 / 100); (2000%Z, 3694 / 10); (2001%Z, 37107 / 100); (2002%Z, 37317 / 100); (2003%Z, 37578 / 100); (2004%Z, 37752 / 100); (2005%Z, 37976 / 100); (2006%Z, 38185 / 100); (2007%Z, 38371 / 100); (2008%Z, 38557 / 100); (2009%Z, 38735 / 100); (2010%Z, 388); (2020%Z, 418); (2030%Z, 447); (2040%Z, 483); (2050%Z, 522); (2060%Z, 563); (2070%Z, 601); (2080%Z, 639); (2090%Z, 674); (2100%Z, 703)].

Example mauna_loa_ok (cfg : Config R) :
  Inputs.co2_data (cf_co2 cfg) = mauna_loa -> Inputs.co2_ref (cf_co2 cfg) = 36941 / 100 ->
  (Inputs.co2_constant (cf_co2 cfg) = true -> Inputs.co2_current (cf_co2 cfg) <= 3981) -> co2_cfg_ok cfg.
Proof.
  intros Ed Er Hc. unfold co2_cfg_ok. cbv zeta. rewrite Ed, Er. unfold co2_hi. split.
  - unfold mauna_loa. repeat (constructor; [cbn [snd]; lra|]). constructor.
  - intros E. specialize (Hc E). lra.
Qed.

(* THE CLOSED STATEMENT with premise (b) on the configuration: [co2_cfg_ok] replaces the bound on the seasons' CO2 concentrations *)
Theorem run_config_theorem_cfg3 (cfg : Config R) fuel m' :
  CfgOK cfg -> soil_u_ok (cf_soil cfg) -> CropUOK (cf_crop cfg) -> iwc_layer_ok cfg -> co2_cfg_ok cfg ->
  (forall i, initialise cfg = IOk i ->
     forall k p h, nthZ (plant (i_clock i)) k = Some p -> nthZ (harv (i_clock i)) k = Some h ->
        let kk := cf_tr (i_crops i (c_id (sel_crop (i_par i) k))) in
        (IZR (h - p) - Transpiration.k_MaxCanopyCD kk - 5) * (Transpiration.k_fage kk / 100) <= Transpiration.k_Kcb kk) ->
  run_config cfg fuel = RRun (Some (GOk m')) ->
  exists i m0 (evs : list (Ev (DState R) (Day.W R) (DRow R))),
    initialise cfg = IOk i /\ init_c (i_clock i) (i_state i) = Ok m0 /\
    Reach (DState R) (Day.W R) (DRow R) (DOut R) (proc_c (i_par i) (i_crops i)) dead (matured (i_par i)) (summary_of (i_par i))
          (reset (i_par i)) (defined_c (i_par i) (i_crops i)) (i_clock i) (i_weather i) m0 evs m' /\
    SInv (i_par i) (i_crops i) (st m') /\ RInv2 (i_par i) (phys (st m')) /\
    Forall (fun e => strong_ev (i_par i) (i_crops i) e /\ rows_day (i_par i) (i_crops i) e) evs /\
    chained _ _ _ (reset (i_par i)) (i_weather i) (phys (st m')) evs /\
    rows (tabs m') = map (fun e => (e_tsc _ _ _ e, e_row _ _ _ e)) evs ++ rows (tabs m0).
Proof.
  intros CK SK UK WK OK DK. apply run_config_theorem_cfg2; try assumption.
  intros i Hi. split; [exact (derived_co2 cfg i Hi OK)|exact (DK i Hi)].
Qed.

(* ============================================================================================================ *)
(*  Part 2  premise (c): the canopy-ageing bound of every season, calendar-day crops                               *)
(* ============================================================================================================ *)
(* a planting date and the next one are at most 366 days apart *)
Lemma year_step y m d : (Calendar.days_from_civil (y + 1) m d - Calendar.days_from_civil y m d <= 366)%Z.
Proof.
  rewrite !dfc_eq. assert (E : ypof (y + 1) m = (ypof y m + 1)%Z) by (unfold ypof; destruct (m <=? 2)%Z; lia).
  rewrite E, g_step. unfold b2z. destruct (Calendar.is_leap _); lia.
Qed.

(* every season of an accepted season list lasts at most 366 days (harvest step - planting step) *)
Lemma season_length_366 st en pl hv mat l k p h :
  date_valid st = true -> date_valid en = true -> Calendar.season_list st en pl hv mat = Calendar.Ok l ->
  nthZ (map fst l) k = Some p -> nthZ (map snd l) k = Some h -> (h - p <= 366)%Z.
Proof.
  intros Vs Ve E Hp Hh. destruct (season_list_spec st en pl hv mat l Vs Ve E) as (Vp & Vh & _ & _ & Hk & _). cbv zeta in Hk.
  destruct (Hk k p h Hp Hh) as (-> & ->).
  pose proof (harv_le_next pl (harvest_of pl hv mat) Vp Vh (first_year st pl + k)) as H1.
  pose proof (year_step (first_year st pl + k) (fst pl) (snd pl)) as H2. lia.
Qed.

(* MaxCanopyCD as the model derives it from the user's crop (Calendar.cal_derived on the calendar-day inputs, CC0 from the
   plant population and the seed size): computable from the configuration without running initialise *)
Definition maxcanopy_cfg (cfg : Config R) : Z :=
  let u := cf_crop cfg in
  Calendar.r_maxcanopy (Calendar.cal_derived (CropInit.with_cc0 (cal_of u (second_of cfg)) (CropInit.cc0_of (u_PlantPop u) (u_SeedSize u)))).

(* the premise on the configuration: the age reduction of Kcb stays non-negative even for a season of 366 days *)
Definition season_len_ok (cfg : Config R) : Prop :=
  let u := cf_crop cfg in
  u_CalendarType u = 1%Z /\ 0 <= u_fage u /\ (366 - IZR (maxcanopy_cfg cfg) - 5) * (u_fage u / 100) <= u_Kcb u.

Definition same_cal (o o' : CropInit.CropOut (F:=R)) : Prop := CropInit.o_cal o' = CropInit.o_cal o /\ CropInit.o_gdd o' = CropInit.o_gdd o.

Lemma crop_init_cal1 (c : CropInit.CropIn (F:=R)) gdd conc ref o : CropInit.i_mode c = 1%Z ->
  CropInit.crop_init c gdd conc ref = CropInit.IOk o ->
  CropInit.o_cal o = Some (Calendar.cal_derived (CropInit.with_cc0 (CropInit.i_cal c) (CropInit.cc0_of (CropInit.i_PlantPop c) (CropInit.i_SeedSize c)))) /\
  CropInit.o_gdd o = None.
Proof.
  intros Hm. unfold CropInit.crop_init. rewrite Hm. cbn [Z.eqb Pos.eqb]. destruct (CropInit.sx_terms _ _) as [sxt sxb].
  repeat match goal with
         | |- context [match ?x with _ => _ end] => destruct x
         | |- context [if ?b then _ else _] => destruct b
         end; intros E; try discriminate E; injection E as <-; cbn; auto.
Qed.

Lemma look3_cal1 (u : CropU R) s k0 l wsel co2 conc0 o0 k : u_CalendarType u = 1%Z ->
  same_cal o0 (snd (fst (look3 (seasons_of u s k0 l wsel co2 conc0 o0) conc0 o0 k))).
Proof.
  intros Hc. unfold look3. destruct (k <? 0)%Z; [split; reflexivity|].
  unfold seasons_of. set (f := fun kp : Z * Z => season_of u s k0 wsel co2 conc0 o0 (fst kp) (snd kp)).
  destruct (nth_in_or_default (Z.to_nat k) (map f (combine (Calendar.zrange 0 (Z.of_nat (length l))) (map fst l))) (conc0, o0, true)) as [Hin | ->];
    [|split; reflexivity].
  apply in_map_iff in Hin as (kp & <- & _). unfold f, season_of. rewrite Hc. cbn [Z.eqb Pos.eqb].
  destruct (_ && _); [split; reflexivity|]. destruct (Inputs.co2_season _ _); split; reflexivity.
Qed.

Theorem derived_season_len (cfg : Config R) i : initialise cfg = IOk i -> season_len_ok cfg ->
  forall k p h, nthZ (plant (i_clock i)) k = Some p -> nthZ (harv (i_clock i)) k = Some h ->
    let kk := cf_tr (i_crops i (c_id (sel_crop (i_par i) k))) in
    (IZR (h - p) - Transpiration.k_MaxCanopyCD kk - 5) * (Transpiration.k_fage kk / 100) <= Transpiration.k_Kcb kk.
Proof.
  intros Hi (Hc & Hf & Hb) k p h Hp Hh. cbv zeta. destruct (initialise_inv _ _ Hi) as [x X].
  revert Hp Hh. rewrite (ii_eq _ _ _ X). cbn [i_clock i_par i_crops]. unfold x_clock. cbn [plant harv]. intros Hp Hh.
  assert (Hk0 : (0 <= k)%Z). { unfold nthZ in Hp. destruct (k <? 0)%Z eqn:E; [discriminate|]. apply Z.ltb_ge in E. exact E. }
  destruct (n_steps_pos _ _ _ (ii_clock _ _ _ X)) as (_ & _ & S1 & S2 & _).
  pose proof (season_length_366 _ _ _ _ _ _ k p h (sim_date_ok_valid _ S1) (sim_date_ok_valid _ S2) (ii_seasons _ _ _ X) Hp Hh) as Hlen.
  unfold sel_crop. replace (0 <=? k)%Z with true by (symmetry; apply Z.leb_le; exact Hk0).
  unfold x_par at 1. unfold par_of. cbn [p_crop dcrop_of c_id]. unfold x_crops, crops_of.
  destruct (look3_cal1 (cf_crop cfg) (Initialise.day_of (cf_start cfg)) (x_k0 x) (x_l x) (x_wsel x) (x_co2 x) (conc0_of cfg) (x_o0 x) k Hc) as (A & B).
  destruct (crop_init_cal1 (crop_in (cf_crop cfg) (second_of cfg)) _ _ _ _ Hc (ii_o0 _ _ _ X)) as (C1 & C2).
  unfold cropfull_of. cbn [cf_tr Transpiration.k_MaxCanopyCD Transpiration.k_fage Transpiration.k_Kcb].
  unfold x_seasons. rewrite B, C2. unfold derived_of. rewrite A, C1. rnum.
  cbn [crop_in CropInit.i_cal CropInit.i_PlantPop CropInit.i_SeedSize].
  unfold maxcanopy_cfg in Hb. cbv zeta in Hb.
  apply IZR_le in Hlen. eapply Rle_trans; [|exact Hb].
  apply Rmult_le_compat_r; [unfold Rdiv; apply Rmult_le_pos; [exact Hf|lra]|].
  set (M := IZR (Calendar.r_maxcanopy _)). set (D := IZR (h - p)) in *. lra.
Qed.

(* THE CLOSED STATEMENT, calendar-day crops: EVERY premise is on the configuration (no water table, method Layer for the initial water
   content); nothing is assumed about the structures the initialisation derives *)
Theorem run_config_theorem_cfg4 (cfg : Config R) fuel m' :
  CfgOK cfg -> soil_u_ok (cf_soil cfg) -> CropUOK (cf_crop cfg) -> iwc_layer_ok cfg -> co2_cfg_ok cfg -> season_len_ok cfg ->
  run_config cfg fuel = RRun (Some (GOk m')) ->
  exists i m0 (evs : list (Ev (DState R) (Day.W R) (DRow R))),
    initialise cfg = IOk i /\ init_c (i_clock i) (i_state i) = Ok m0 /\
    Reach (DState R) (Day.W R) (DRow R) (DOut R) (proc_c (i_par i) (i_crops i)) dead (matured (i_par i)) (summary_of (i_par i))
          (reset (i_par i)) (defined_c (i_par i) (i_crops i)) (i_clock i) (i_weather i) m0 evs m' /\
    SInv (i_par i) (i_crops i) (st m') /\ RInv2 (i_par i) (phys (st m')) /\
    Forall (fun e => strong_ev (i_par i) (i_crops i) e /\ rows_day (i_par i) (i_crops i) e) evs /\
    chained _ _ _ (reset (i_par i)) (i_weather i) (phys (st m')) evs /\
    rows (tabs m') = map (fun e => (e_tsc _ _ _ e, e_row _ _ _ e)) evs ++ rows (tabs m0).
Proof.
  intros CK SK UK WK OK LK. apply run_config_theorem_cfg3; try assumption.
  intros i Hi. exact (derived_season_len cfg i Hi LK).
Qed.

(* [season_len_ok] is satisfiable: e.g. a calendar-day crop whose Kcb does not age *)
Example season_len_ok_example (cfg : Config R) :
  u_CalendarType (cf_crop cfg) = 1%Z -> u_fage (cf_crop cfg) = 0 -> 0 <= u_Kcb (cf_crop cfg) -> season_len_ok cfg.
Proof. intros Hc Hf Hk. unfold season_len_ok. cbv zeta. rewrite Hf. split; [exact Hc|]. split; [lra|]. lra. Qed.

(* ============================================================================================================ *)
(*  Part 3  C14 with the agreement stated on the DATED records of the two tables                                    *)
(* ============================================================================================================ *)
(* the records of the two tables that carry the same date d, s <= d < s + t, hold the same four values (read by column name) *)
Definition tables_agree_before (s t : Z) (tb tb' : Inputs.Table R) : Prop :=
  forall d r r', (s <= d < s + t)%Z -> In r (Inputs.t_rows tb) -> In r' (Inputs.t_rows tb') ->
    date_of tb r = Some d -> date_of tb' r' = Some d ->
    named Inputs.CMinTemp tb r = named Inputs.CMinTemp tb' r' /\ named Inputs.CMaxTemp tb r = named Inputs.CMaxTemp tb' r' /\
    named Inputs.CPrecip tb r = named Inputs.CPrecip tb' r' /\ named Inputs.CRefET tb r = named Inputs.CRefET tb' r'.

(* one record per day in date order (then step k reads the record dated start + k): agreement on the dated records before day t is
   agreement of the bound matrices before step t *)
Lemma dates_agree_matrix s e t (tb tb' : Inputs.Table R) w w' :
  Inputs.bind_weather s e tb = Inputs.Ok w -> Inputs.bind_weather s e tb' = Inputs.Ok w' ->
  window_dates s e tb = map Some (Inputs.span s e) -> window_dates s e tb' = map Some (Inputs.span s e) ->
  tables_agree_before s t tb tb' -> matrix_agree_before t w w'.
Proof.
  intros Hw Hw' Hd Hd' Ha k Hk.
  pose proof (bind_by_date_length _ _ _ _ Hw Hd) as L. pose proof (bind_by_date_length _ _ _ _ Hw' Hd') as L'.
  destruct (Nat.lt_ge_cases k (Z.to_nat (e - s + 1))) as [Hlt|Hge].
  - destruct (bind_by_date _ _ _ _ k Hw Hd Hlt) as (r & wr & Ir & Dr & Wk & Dw & N1 & N2 & N3 & N4).
    destruct (bind_by_date _ _ _ _ k Hw' Hd' Hlt) as (r' & wr' & Ir' & Dr' & Wk' & Dw' & M1 & M2 & M3 & M4).
    unfold Inputs.weather_at in Wk, Wk'. rewrite Wk, Wk'. f_equal.
    destruct (Ha (s + Z.of_nat k)%Z r r' ltac:(lia) Ir Ir' Dr Dr') as (A1 & A2 & A3 & A4).
    rewrite N1, M1 in A1. rewrite N2, M2 in A2. rewrite N3, M3 in A3. rewrite N4, M4 in A4.
    injection A1 as A1. injection A2 as A2. injection A3 as A3. injection A4 as A4.
    destruct wr, wr'. cbn in *. subst. reflexivity.
  - rewrite (proj2 (nth_error_None w k)) by lia. rewrite (proj2 (nth_error_None w' k)) by lia. reflexivity.
Qed.

Theorem run_config_prefix_causal_dates (cfg : Config R) (tb tb' : Inputs.Table R) t i i' n m0 a b :
  let s := Initialise.day_of (cf_start cfg) in let e := Initialise.day_of (cf_end cfg) in
  u_CalendarType (cf_crop cfg) = 1%Z ->
  window_dates s e tb = map Some (Inputs.span s e) -> window_dates s e tb' = map Some (Inputs.span s e) ->
  tables_agree_before s t tb tb' ->
  initialise (with_weather cfg tb) = IOk i -> initialise (with_weather cfg tb') = IOk i' ->
  i_par i' = i_par i /\ i_crops i' = i_crops i /\ i_clock i' = i_clock i /\ i_state i' = i_state i /\
  (init_c (i_clock i) (i_state i) = Ok m0 ->
   run_steps_c (i_par i) (i_crops i) (i_clock i) (i_weather i) n m0 = GOk a ->
   run_steps_c (i_par i') (i_crops i') (i_clock i') (i_weather i') n m0 = GOk b ->
   rows_before (DState R) (DRow R) (DOut R) t a = rows_before (DState R) (DRow R) (DOut R) t b /\
   sums_before (DState R) (DRow R) (DOut R) t a = sums_before (DState R) (DRow R) (DOut R) t b).
Proof.
  cbv zeta. intros Hc Hd Hd' Ha Hi Hi'.
  destruct (initialise_inv _ _ Hi) as [x X]. destruct (initialise_inv _ _ Hi') as [x' X'].
  assert (Hw : Inputs.bind_weather (Initialise.day_of (cf_start cfg)) (Initialise.day_of (cf_end cfg)) tb = Inputs.Ok (x_wsel x)).
  { unfold Inputs.bind_weather. pose proof (ii_tab _ _ _ X) as E. cbn [with_weather cf_start cf_end cf_weather] in E. rewrite E. exact (ii_wsel _ _ _ X). }
  assert (Hw' : Inputs.bind_weather (Initialise.day_of (cf_start cfg)) (Initialise.day_of (cf_end cfg)) tb' = Inputs.Ok (x_wsel x')).
  { unfold Inputs.bind_weather. pose proof (ii_tab _ _ _ X') as E. cbn [with_weather cf_start cf_end cf_weather] in E. rewrite E. exact (ii_wsel _ _ _ X'). }
  exact (run_config_prefix_causal cfg tb tb' _ _ t i i' n m0 a b Hc Hw Hw' (dates_agree_matrix _ _ _ _ _ _ _ Hw Hw' Hd Hd' Ha) Hi Hi').
Qed.

(* ============================================================================================================ *)
(*  Part 4  C08 at configuration level                                                                            *)
(* ============================================================================================================ *)
(* the same configuration started on another date *)
Definition with_start (cfg : Config R) (st : Z * Z * Z) : Config R :=
  {| cf_start := st; cf_end := cf_end cfg; cf_weather := cf_weather cfg; cf_soil := cf_soil cfg; cf_crop := cf_crop cfg;
     cf_iwc := cf_iwc cfg; cf_irr := cf_irr cfg; cf_field := cf_field cfg; cf_fallow_field := cf_fallow_field cfg;
     cf_gw := cf_gw cfg; cf_co2 := cf_co2 cfg; cf_off_season := cf_off_season cfg |}.

(* the date of step p of the window *)
Definition date_of_step (cfg : Config R) (p : Z) : Z * Z * Z := Calendar.civil_from_days (Initialise.day_of (cf_start cfg) + p).

(* THE SINGLE-SEASON CONFIGURATION "same configuration, start date := planting date of season k" against the multi-season one, without
   a water table: its parameters are [fresh_like] the multi-season parameters for season k (same profile, same initial ponding, HI0 and
   CC0 of season k's crop), it starts IN its first season (season counter 0), and both initial states are InitState.init_state of the
   SAME interpolated water contents th0 *)
Theorem single_season_config (cfg : Config R) i i1 k p :
  initialise cfg = IOk i -> nthZ (plant (i_clock i)) k = Some p ->
  initialise (with_start cfg (date_of_step cfg p)) = IOk i1 ->
  gw_present (cf_gw cfg) = false ->
  fresh_like (i_par i) (i_par i1) k /\
  init_season (i_clock i1) = 0%Z /\
  so_nComp (p_soil (i_par i)) = Z.of_nat (length (so_prof (p_soil (i_par i)))) /\
  p_water_table (i_par i) = 0%Z /\ p_water_table (i_par i1) = 0%Z /\ p_sim_off (i_par i) = cf_off_season cfg /\
  exists th0 zgw0 zgw1,
    InitState.init_state (i_par i) (init_season (i_clock i)) zgw0 (fc_reset_of (cf_iwc cfg)) th0 = Some (i_state i) /\
    InitState.init_state (i_par i1) 0 zgw1 (fc_reset_of (cf_iwc cfg)) th0 = Some (i_state i1).
Proof.
  intros Hi Hp Hi1 Hgw. destruct (initialise_inv _ _ Hi) as [x X]. destruct (initialise_inv _ _ Hi1) as [x1 X1].
  set (cfg1 := with_start cfg (date_of_step cfg p)) in *.
  (* the soil chain does not read the start date *)
  pose proof (ii_layers _ _ _ X) as L0. pose proof (ii_layers _ _ _ X1) as L1. cbn [cfg1 with_start cf_soil] in L1. rewrite L0 in L1. injection L1 as L1.
  pose proof (ii_rows _ _ _ X) as R0. pose proof (ii_rows _ _ _ X1) as R1. cbn [cfg1 with_start cf_soil cf_crop] in R1. rewrite <- L1, R0 in R1. injection R1 as R1 Z1.
  pose proof (ii_prof _ _ _ X) as P0. pose proof (ii_prof _ _ _ X1) as P1. cbn [cfg1 with_start cf_gw] in P1. rewrite <- R1, P0 in P1. injection P1 as P1.
  pose proof (ii_soil _ _ _ X) as S0. pose proof (ii_soil _ _ _ X1) as S1. cbn [cfg1 with_start cf_soil] in S1. rewrite <- P1, S0 in S1. injection S1 as S1.
  pose proof (ii_th0 _ _ _ X) as T0. pose proof (ii_th0 _ _ _ X1) as T1. cbn [cfg1 with_start cf_iwc] in T1. rewrite <- R1, <- Z1, T0 in T1. injection T1 as T1.
  (* CC0 of every crop record *)
  destruct (crop_init_core _ _ _ _ _ (ii_o0 _ _ _ X)) as (C0 & _). destruct (crop_init_core _ _ _ _ _ (ii_o0 _ _ _ X1)) as (C1 & _).
  cbn [crop_in CropInit.i_PlantPop CropInit.i_SeedSize cfg1 with_start cf_crop] in C0, C1.
  (* the single-season clock starts in its first season: its start date is the planting day of year y0 + k *)
  assert (K1 : x_k0 x1 = 0%Z).
  { destruct (n_steps_pos _ _ _ (ii_clock _ _ _ X)) as (_ & _ & A1 & A2 & _).
    pose proof (sim_date_ok_valid _ A1) as Vs. pose proof (sim_date_ok_valid _ A2) as Ve.
    destruct (season_list_spec _ _ _ _ _ _ Vs Ve (ii_seasons _ _ _ X)) as (Vp & _ & _ & _ & Hk & _). cbv zeta in Hk.
    assert (Hh : exists h, nthZ (map snd (x_l x)) k = Some h).
    { revert Hp. rewrite (ii_eq _ _ _ X). cbn [i_clock x_clock plant]. unfold nthZ. destruct (k <? 0)%Z; [discriminate|].
      rewrite !nth_error_map. destruct (nth_error (x_l x) (Z.to_nat k)) as [[a b]|]; [|discriminate]. intros _. exists b. reflexivity. }
    destruct Hh as (h & Hh). revert Hp. rewrite (ii_eq _ _ _ X). cbn [i_clock x_clock plant]. intros Hp.
    destruct (Hk k p h Hp Hh) as (Ep & _).
    assert (Est : date_of_step cfg p = (first_year (cf_start cfg) (u_planting (cf_crop cfg)) + k, fst (u_planting (cf_crop cfg)), snd (u_planting (cf_crop cfg)))%Z).
    { unfold date_of_step. replace (Initialise.day_of (cf_start cfg) + p)%Z with
        (Calendar.days_from_civil (first_year (cf_start cfg) (u_planting (cf_crop cfg)) + k) (fst (u_planting (cf_crop cfg))) (snd (u_planting (cf_crop cfg)))).
      - apply civil_roundtrip_valid. apply valid_any_year. exact Vp.
      - rewrite Ep. unfold CalendarP.day_of, Initialise.day_of. destruct (cf_start cfg) as [[sy sm] sd]. lia. }
    destruct (n_steps_pos _ _ _ (ii_clock _ _ _ X1)) as (_ & _ & B1 & B2 & _).
    destruct (initial_season_counter_spec _ _ _ _ _ _ (sim_date_ok_valid _ B1) (sim_date_ok_valid _ B2) (ii_seasons _ _ _ X1)) as (E & _).
    unfold x_k0. rewrite E. cbn [cfg1 with_start cf_start cf_crop]. rewrite Est. cbn [fst snd]. rewrite !Z.eqb_refl. reflexivity. }
  assert (W0 : p_water_table (x_par cfg x) = 0%Z) by (unfold x_par, par_of; cbn [p_water_table]; rewrite Hgw; reflexivity).
  assert (W1 : p_water_table (x_par cfg1 x1) = 0%Z) by (unfold x_par, par_of; cbn [p_water_table cfg1 with_start cf_gw]; rewrite Hgw; reflexivity).
  rewrite (ii_eq _ _ _ X), (ii_eq _ _ _ X1). cbn [i_par i_clock i_state]. rewrite !init_season_clock, K1.
  split; [|split; [reflexivity|split; [|split; [exact W0|split; [exact W1|split; [reflexivity|]]]]]].
  - constructor; unfold x_par, par_of; cbn [p_soil p_field p_crop dcrop_of c_HI0 c_CC0 cfg1 with_start cf_field cf_crop].
    + rewrite S1. reflexivity.
    + reflexivity.
    + reflexivity.
    + destruct (look3_core (cf_crop cfg) (Initialise.day_of (cf_start cfg)) (x_k0 x) (x_l x) (x_wsel x) (x_co2 x) (conc0_of cfg) (x_o0 x) k) as (A & _).
      destruct (look3_core (cf_crop cfg) (Initialise.day_of (cf_start cfg1)) (x_k0 x1) (x_l x1) (x_wsel x1) (x_co2 x1) (conc0_of cfg1) (x_o0 x1) 0%Z) as (A1 & _).
      unfold x_seasons. cbn [cfg1 with_start cf_crop] in *. rewrite A. cbn [cf_start cfg1 with_start] in A1 |- *. 
      etransitivity; [exact A1|]. rewrite C0, C1. reflexivity.
  - unfold x_par, par_of. cbn [p_soil]. pose proof S0 as S0'. unfold soil_of in S0'. destruct (x_prof x) as [|c0 r]; [discriminate|].
    apply ibind_ok in S0' as (cn & _ & E). injection E as <-. cbn [so_nComp so_prof]. reflexivity.
  - exists (x_th0 x), (x_zgw0 cfg x), (x_zgw0 cfg1 x1). split; [exact (ii_s0 _ _ _ X)|].
    pose proof (ii_s0 _ _ _ X1) as E. rewrite K1, <- T1 in E. exact E.
Qed.

(* the reset at the start of season k of the multi-season run against the INITIAL STATE of the single-season configuration: equal on
   everything the first day of a season reads ([proj]), for every state of the multi-season run (they all satisfy [carry_inv]) *)
Theorem reset_matches_single_init (cfg : Config R) i i1 k p :
  initialise cfg = IOk i -> nthZ (plant (i_clock i)) k = Some p ->
  initialise (with_start cfg (date_of_step cfg p)) = IOk i1 ->
  gw_present (cf_gw cfg) = false -> cf_off_season cfg = false ->
  exists th0, carry_inv (i_par i) th0 (i_state i) /\
    forall ws s, carry_inv (i_par i) th0 s -> proj (reset (i_par i) k ws s) = proj (i_state i1).
Proof.
  intros Hi Hp Hi1 Hgw Hoff.
  destruct (single_season_config cfg i i1 k p Hi Hp Hi1 Hgw) as (Hfl & _ & Hn & W0 & W1 & Eoff & th0 & zgw0 & zgw1 & E0 & E1).
  exists th0. split; [exact (carry_inv_init _ _ _ _ _ _ W0 E0)|]. intros ws s Hc.
  apply (reset_matches_init_no_table (i_par i) (i_par i1) k ws s zgw1 (fc_reset_of (cf_iwc cfg)) th0 (i_state i1)); try assumption.
  rewrite Eoff. exact Hoff.
Qed.

(* C08 for the run from the configuration: the multi-season run has reached, after n0 steps from its initialised model, a model [m]
   whose clock state was produced by the season start of season k; replacing the physical state of [m] by the initial state of the
   single-season configuration changes no row, no summary row and no state from the first step of the season on.
   Remaining premise on the derived parameters: [hi_crops_ok] (the harvest-index search results of every crop record, SeasonIndepDay).
   NOT covered (out of the model's reach here, as in SeasonIndepP): the single-season SIMULATION numbers its steps from 0 and has its own
   clock, weather list, schedule and season index — the statement keeps the clock, the weather and the parameter record of the
   multi-season run and replaces the physical state only. *)
Theorem season_indep_config (cfg : Config R) i i1 k p m0 n0 (m : CModel (F:=R)) (stp : St (DState R)) (T' : Tables (DRow R) (DOut R)) :
  initialise cfg = IOk i -> nthZ (plant (i_clock i)) k = Some p ->
  initialise (with_start cfg (date_of_step cfg p)) = IOk i1 ->
  gw_present (cf_gw cfg) = false -> cf_off_season cfg = false -> hi_crops_ok (i_crops i) ->
  init_c (i_clock i) (i_state i) = Ok m0 ->
  run_steps_c (i_par i) (i_crops i) (i_clock i) (i_weather i) n0 m0 = GOk m ->
  st m = start_season' (i_par i) k (i_weather i) stp p ->
  let m_init : CModel (F:=R) := {| st := with_phys (st m) (i_state i1); tabs := T' |} in
  forall n, gres_rel (run_rel m m_init)
              (run_steps_c (i_par i) (i_crops i) (i_clock i) (i_weather i) (S n) m)
              (run_steps_c (i_par i) (i_crops i) (i_clock i) (i_weather i) (S n) m_init).
Proof.
  intros Hi Hp Hi1 Hgw Hoff Hok Hm0 Hrun Hst.
  destruct (single_season_config cfg i i1 k p Hi Hp Hi1 Hgw) as (Hfl & _ & Hn & W0 & W1 & Eoff & th0 & zgw0 & zgw1 & E0 & E1).
  assert (Hphys : phys (st m0) = i_state i).
  { unfold init_c, init_model in Hm0. destruct (plant (i_clock i)); [discriminate|]. injection Hm0 as <-. reflexivity. }
  exact (season_indep_run_no_table (i_par i) (i_par i1) (i_crops i) (i_clock i) (i_weather i) _ zgw0 _ th0 (i_state i) m0 m n0 stp k p
           zgw1 _ (i_state i1) T' Hok ltac:(rewrite Eoff; exact Hoff) W0 W1 Hn (initialise_clock_wf _ _ Hi) E0 Hphys Hrun Hst Hp Hfl E1).
Qed.

(* the example table of InitialiseP (one record per day): the agreement premise on dated records is satisfiable *)
Example tables_agree_example : tables_agree_before 730241 2 ex_weather ex_weather.
Proof.
  intros d r r' Hd Hr Hr' E E'. cbn [ex_weather Inputs.t_rows] in Hr, Hr'.
  destruct Hr as [<-|[<-|[<-|[]]]]; destruct Hr' as [<-|[<-|[<-|[]]]]; cbn in E, E';
    try (repeat split; reflexivity); rewrite <- E in E'; discriminate E'.
Qed.

Print Assumptions derived_co2.
Print Assumptions mauna_loa_ok.
Print Assumptions run_config_theorem_cfg3.
Print Assumptions season_length_366.
Print Assumptions derived_season_len.
Print Assumptions run_config_theorem_cfg4.
Print Assumptions dates_agree_matrix.
Print Assumptions run_config_prefix_causal_dates.
Print Assumptions single_season_config.
Print Assumptions reset_matches_single_init.
Print Assumptions season_indep_config.
