(* InitialiseP4.v — C11, C07 and C13 at configuration level (nothing of InitialiseP.v … InitialiseP3.v is changed).

   Part 1  C11: [written_back cfg] = the configuration as the user's objects are after one successful _initialize() (clipped weather
           table, harvest date filled in, FloweringCD overwritten, CO2 object with current concentration / processed series);
           [initialise_written_back]: a second initialisation of those objects gives the SAME Init (any number type), under
           [window_ends_ok] and [crop_wb_ok]; [run_config_written_back]; the two premises cannot be dropped: [clip_idem_refuted],
           [written_back_crop_refuted_ingredient].
   Part 2  C07: [initialise_nsteps], [initialise_seasons_spec].     Part 3  C13: [initialise_irr_spec].
   Examples, Print Assumptions. *)
From Coq Require Import Reals List Bool ZArith Lra Lia Permutation.
From Flocq Require Import Core.
From AC Require Import Num RInst Params Kernels Clock Day DayConcrete RunConcrete.
From AC.Init Require Calendar Inputs SoilBuild CropInit InitState.
From AC.Init Require Import Initialise.
From AC.Water Require Transpiration.
From AC.Crop Require Canopy Roots Yield.
From AC.proofs Require Import ProfR ClockP CalendarP InputsP YieldR.
From AC.proofs Require Import InitialiseP InitialiseP2.
Import ListNotations.

(* ============================================================================================================ *)
(*  Part 1  C11 at configuration level: the objects as one initialisation leaves them                             *)
(* ============================================================================================================ *)
Section WrittenBack.
  Context {F : Type} {N : NumOps F} {T : Yield.TrigOps F}.
  Local Open Scope num_scope.

  (* the crop with the two attributes initialisation writes that a later initialisation reads: harvest_date and FloweringCD *)
  Definition set_hf (u : CropU F) (h : option (Z * Z)) (fl : F) : CropU F := {| u_planting := u_planting u; u_harvest := h; u_CropType := u_CropType u; u_CalendarType := u_CalendarType u; u_SwitchGDD := u_SwitchGDD u; u_GDDmethod := u_GDDmethod u; u_ETadj := u_ETadj u; u_PolHeatStress := u_PolHeatStress u; u_PolColdStress := u_PolColdStress u; u_TrColdStress := u_TrColdStress u; u_PlantMethod := u_PlantMethod u; u_Determinant := u_Determinant u; u_Tupp := u_Tupp u; u_Tbase := u_Tbase u; u_GermThr := u_GermThr u; u_YldWC := u_YldWC u; u_Zmin := u_Zmin u; u_Zmax := u_Zmax u; u_Aer := u_Aer u; u_LagAer := u_LagAer u; u_PctZmin := u_PctZmin u; u_fshape_r := u_fshape_r u; u_fshape_ex := u_fshape_ex u; u_fshape_b := u_fshape_b u; u_SxTopQ := u_SxTopQ u; u_SxBotQ := u_SxBotQ u; u_SeedSize := u_SeedSize u; u_PlantPop := u_PlantPop u; u_CCx := u_CCx u; u_CDC := u_CDC u; u_CGC := u_CGC u; u_CDC_CD := u_CDC_CD u; u_CGC_CD := u_CGC_CD u; u_Kcb := u_Kcb u; u_fage := u_fage u; u_a_Tr := u_a_Tr u; u_WP := u_WP u; u_WPy := u_WPy u; u_fsink := u_fsink u; u_bsted := u_bsted u; u_bface := u_bface u; u_HI0 := u_HI0 u; u_HIini := u_HIini u; u_dHI_pre := u_dHI_pre u; u_a_HI := u_a_HI u; u_b_HI := u_b_HI u; u_dHI0 := u_dHI0 u; u_exc := u_exc u; u_CCmin := u_CCmin u; u_beta := u_beta u; u_pu1 := u_pu1 u; u_pu2 := u_pu2 u; u_pu3 := u_pu3 u; u_pu4 := u_pu4 u; u_pl1 := u_pl1 u; u_pl2 := u_pl2 u; u_pl3 := u_pl3 u; u_pl4 := u_pl4 u; u_fw1 := u_fw1 u; u_fw2 := u_fw2 u; u_fw3 := u_fw3 u; u_Tmax_up := u_Tmax_up u; u_Tmax_lo := u_Tmax_lo u; u_Tmin_up := u_Tmin_up u; u_Tmin_lo := u_Tmin_lo u; u_GDD_up := u_GDD_up u; u_GDD_lo := u_GDD_lo u; u_EmergenceCD := u_EmergenceCD u; u_MaxRootingCD := u_MaxRootingCD u; u_SenescenceCD := u_SenescenceCD u; u_MaturityCD := u_MaturityCD u; u_HIstartCD := u_HIstartCD u; u_FloweringCD := fl; u_YldFormCD := u_YldFormCD u; u_Emergence := u_Emergence u; u_MaxRooting := u_MaxRooting u; u_Senescence := u_Senescence u; u_Maturity := u_Maturity u; u_HIstart := u_HIstart u; u_Flowering := u_Flowering u; u_YldForm := u_YldForm u |}.

  Lemma set_hf_id (u : CropU F) : set_hf u (u_harvest u) (u_FloweringCD u) = u.
  Proof. destruct u; reflexivity. Qed.

  (* compute_crop_calendar, calendar-day mode: `crop.FloweringCD = NO_VALUE` on a crop that is not a fruit / grain crop *)
  Definition wb_flowering (u : CropU F) : F :=
    if (u_CalendarType u =? 1)%Z && negb (u_CropType u =? 3)%Z then #(-999) else u_FloweringCD u.

  (* MaturityCD as read_model_parameters has it when it fills in the harvest date (None: that computation raises) *)
  Definition wb_mat (cfg : Config F) (wsel : list (Inputs.WRow F)) : option Z :=
    let u := cf_crop cfg in
    if (u_CalendarType u =? 1)%Z then Some (maturity_arg (u_MaturityCD u))
    else match first_pl_date (cf_start cfg) (u_planting u) with
         | IOk p0 =>
           match gdd_from u p0 wsel with
           | Some gdd =>
             match Calendar.gdd_calendar (CropInit.with_cc0 (cal_of u false) (CropInit.cc0_of (u_PlantPop u) (u_SeedSize u))) gdd with
             | Calendar.Ok g => Some (Calendar.g_maturitycd g)
             | Calendar.Err _ => None
             end
           | None => None
           end
         | IErr_ _ => None
         end.

  (* THE CONFIGURATION AS THE USER'S OBJECTS ARE AFTER ONE SUCCESSFUL _initialize():
       weather_df   := the table clipped to the window (core.py: `self.weather_df = read_weather_inputs(...)`);
       crop         := harvest_date filled with the default (read_model_parameters), FloweringCD = -999 (compute_crop_calendar);
       CO2          := current_concentration and co2_data_processed set (compute_variables).
     Left as they are (see the report): the Soil object (its DataFrame is deepened / filled in place — the Config holds the
     construction recipe, not the DataFrame) and the crop attributes no later initialisation of the same mode reads back. *)
  Definition written_back (cfg : Config F) : Config F :=
    let s := Initialise.day_of (cf_start cfg) in let e := Initialise.day_of (cf_end cfg) in
    let u := cf_crop cfg in
    match Inputs.clip_table s e (cf_weather cfg) with
    | Inputs.Err _ => cfg
    | Inputs.Ok tab =>
      let h := match u_harvest u with
               | Some h => Some h
               | None => match Inputs.select_weather tab with
                         | Inputs.Ok wsel => match wb_mat cfg wsel with
                                             | Some mat => Some (Calendar.default_harvest (u_planting u) mat)
                                             | None => None end
                         | Inputs.Err _ => None end
               end in
      {| cf_start := cf_start cfg; cf_end := cf_end cfg; cf_weather := tab; cf_soil := cf_soil cfg;
         cf_crop := set_hf u h (wb_flowering u);
         cf_iwc := cf_iwc cfg; cf_irr := cf_irr cfg; cf_field := cf_field cfg; cf_fallow_field := cf_fallow_field cfg;
         cf_gw := cf_gw cfg;
         cf_co2 := match Inputs.co2_init (year_of_day s) (year_of_day e) (cf_co2 cfg) with Inputs.Ok c => c | Inputs.Err _ => cf_co2 cfg end;
         cf_off_season := cf_off_season cfg |}
    end.

  (* ---- the write-backs do not change what the rest of the initialisation reads from the crop -------------------------- *)
  Lemma gdd_from_hf (u : CropU F) h fl p w : gdd_from (set_hf u h fl) p w = gdd_from u p w.
  Proof. induction w as [|r w IH]; cbn [gdd_from]; [reflexivity|]. rewrite IH. reflexivity. Qed.

  Lemma cropfull_of_hf (u : CropU F) h o : cropfull_of (set_hf u h (wb_flowering u)) o = cropfull_of u o.
  Proof.
    unfold cropfull_of, wb_flowering. cbn [set_hf u_planting u_harvest u_CropType u_CalendarType u_SwitchGDD u_GDDmethod u_ETadj u_PolHeatStress u_PolColdStress u_TrColdStress u_PlantMethod u_Determinant u_Tupp u_Tbase u_GermThr u_YldWC u_Zmin u_Zmax u_Aer u_LagAer u_PctZmin u_fshape_r u_fshape_ex u_fshape_b u_SxTopQ u_SxBotQ u_SeedSize u_PlantPop u_CCx u_CDC u_CGC u_CDC_CD u_CGC_CD u_Kcb u_fage u_a_Tr u_WP u_WPy u_fsink u_bsted u_bface u_HI0 u_HIini u_dHI_pre u_a_HI u_b_HI u_dHI0 u_exc u_CCmin u_beta u_pu1 u_pu2 u_pu3 u_pu4 u_pl1 u_pl2 u_pl3 u_pl4 u_fw1 u_fw2 u_fw3 u_Tmax_up u_Tmax_lo u_Tmin_up u_Tmin_lo u_GDD_up u_GDD_lo u_EmergenceCD u_MaxRootingCD u_SenescenceCD u_MaturityCD u_HIstartCD u_FloweringCD u_YldFormCD u_Emergence u_MaxRooting u_Senescence u_Maturity u_HIstart u_Flowering u_YldForm].
    destruct (u_CropType u =? 3)%Z; [rewrite andb_false_r; reflexivity|reflexivity].
  Qed.

  Lemma cal_of_hf2 (u : CropU F) h fl b : (u_CalendarType u =? 1)%Z = false -> cal_of (set_hf u h fl) b = cal_of u b.
  Proof. intros E. unfold cal_of. cbn [set_hf u_planting u_harvest u_CropType u_CalendarType u_SwitchGDD u_GDDmethod u_ETadj u_PolHeatStress u_PolColdStress u_TrColdStress u_PlantMethod u_Determinant u_Tupp u_Tbase u_GermThr u_YldWC u_Zmin u_Zmax u_Aer u_LagAer u_PctZmin u_fshape_r u_fshape_ex u_fshape_b u_SxTopQ u_SxBotQ u_SeedSize u_PlantPop u_CCx u_CDC u_CGC u_CDC_CD u_CGC_CD u_Kcb u_fage u_a_Tr u_WP u_WPy u_fsink u_bsted u_bface u_HI0 u_HIini u_dHI_pre u_a_HI u_b_HI u_dHI0 u_exc u_CCmin u_beta u_pu1 u_pu2 u_pu3 u_pu4 u_pl1 u_pl2 u_pl3 u_pl4 u_fw1 u_fw2 u_fw3 u_Tmax_up u_Tmax_lo u_Tmin_up u_Tmin_lo u_GDD_up u_GDD_lo u_EmergenceCD u_MaxRootingCD u_SenescenceCD u_MaturityCD u_HIstartCD u_FloweringCD u_YldFormCD u_Emergence u_MaxRooting u_Senescence u_Maturity u_HIstart u_Flowering u_YldForm]. rewrite E. reflexivity. Qed.

  Lemma crop_in_hf2 (u : CropU F) h fl b : (u_CalendarType u =? 1)%Z = false -> crop_in (set_hf u h fl) b = crop_in u b.
  Proof. intros E. unfold crop_in. rewrite (cal_of_hf2 u h fl b E). reflexivity. Qed.

  Lemma season_of_hf (u : CropU F) h fl s k0 wsel co2 c o k p :
    season_of (set_hf u h fl) s k0 wsel co2 c o k p = season_of u s k0 wsel co2 c o k p.
  Proof.
    unfold season_of. cbn [set_hf u_CalendarType u_bsted u_bface u_fsink u_WP].
    destruct (_ && _); [reflexivity|]. destruct (Inputs.co2_season _ _); [|reflexivity].
    destruct (u_CalendarType u =? 2)%Z eqn:E2; [|reflexivity].
    rewrite gdd_from_hf. unfold reseason_gdd. rewrite crop_in_hf2; [reflexivity|].
    apply Z.eqb_eq in E2. rewrite E2. reflexivity.
  Qed.

  Lemma seasons_of_hf (u : CropU F) h fl s k0 l wsel co2 c o :
    seasons_of (set_hf u h fl) s k0 l wsel co2 c o = seasons_of u s k0 l wsel co2 c o.
  Proof. unfold seasons_of. apply map_ext. intros kp. apply season_of_hf. Qed.

  (* the premise that excludes finding D3: a determinate calendar-day crop that is not a fruit / grain crop AND was given an explicit
     harvest date gets another CanopyDevEnd the second time (the first initialisation has overwritten its FloweringCD) *)
  Definition crop_wb_ok (u : CropU F) : Prop :=
    u_CalendarType u = 1%Z -> u_harvest u = None \/ u_CropType u = 3%Z \/ det_of u <> 1%Z.

  Lemma crop_init_wb (u : CropU F) h gdd conc ref : crop_wb_ok u ->
    (u_CalendarType u =? 1)%Z || (u_CalendarType u =? 2)%Z = true ->
    CropInit.crop_init (crop_in (set_hf u (Some h) (wb_flowering u)) false) gdd conc ref =
    CropInit.crop_init (crop_in u (match u_harvest u with None => true | Some _ => false end)) gdd conc ref.
  Proof.
    intros Hok Hm. destruct (u_CalendarType u =? 1)%Z eqn:E1.
    2:{ rewrite crop_in_hf2 by exact E1. unfold crop_in, cal_of. rewrite E1. reflexivity. }
    apply Z.eqb_eq in E1. specialize (Hok E1).
    unfold crop_in, cal_of, wb_flowering. cbn [set_hf u_planting u_harvest u_CropType u_CalendarType u_SwitchGDD u_GDDmethod u_ETadj u_PolHeatStress u_PolColdStress u_TrColdStress u_PlantMethod u_Determinant u_Tupp u_Tbase u_GermThr u_YldWC u_Zmin u_Zmax u_Aer u_LagAer u_PctZmin u_fshape_r u_fshape_ex u_fshape_b u_SxTopQ u_SxBotQ u_SeedSize u_PlantPop u_CCx u_CDC u_CGC u_CDC_CD u_CGC_CD u_Kcb u_fage u_a_Tr u_WP u_WPy u_fsink u_bsted u_bface u_HI0 u_HIini u_dHI_pre u_a_HI u_b_HI u_dHI0 u_exc u_CCmin u_beta u_pu1 u_pu2 u_pu3 u_pu4 u_pl1 u_pl2 u_pl3 u_pl4 u_fw1 u_fw2 u_fw3 u_Tmax_up u_Tmax_lo u_Tmin_up u_Tmin_lo u_GDD_up u_GDD_lo u_EmergenceCD u_MaxRootingCD u_SenescenceCD u_MaturityCD u_HIstartCD u_FloweringCD u_YldFormCD u_Emergence u_MaxRooting u_Senescence u_Maturity u_HIstart u_Flowering u_YldForm]. rewrite E1. cbn [Z.eqb Pos.eqb andb].
    destruct (u_CropType u =? 3)%Z eqn:E3; cbn [negb andb].
    { destruct (u_harvest u); reflexivity. }
    destruct (u_harvest u) as [h0|] eqn:Eh; [|reflexivity].
    destruct Hok as [Hn|[H3|Hd]]; [discriminate|rewrite H3 in E3; discriminate|].
    unfold CropInit.crop_init.
    cbn [CropInit.i_mode CropInit.i_cal CropInit.i_PlantPop CropInit.i_SeedSize CropInit.i_SxTopQ CropInit.i_SxBotQ CropInit.i_HI0 CropInit.i_HIini
         CropInit.i_bsted CropInit.i_bface CropInit.i_fsink CropInit.i_WP].
    cbn [Z.eqb Pos.eqb]. unfold CropInit.with_cc0, Calendar.cal_derived.
    cbn [Calendar.k_determinant Calendar.k_croptype Calendar.k_emergence Calendar.k_senescence Calendar.k_maturity Calendar.k_histart
         Calendar.k_flowering Calendar.k_yldform Calendar.k_cc0 Calendar.k_ccx Calendar.k_cgc].
    change (det_of (set_hf u (Some h) #(-999))) with (det_of u).
    rewrite E3. assert (Ed : (det_of u =? 1)%Z = false) by (apply Z.eqb_neq; exact Hd). rewrite Ed. reflexivity.
  Qed.

  (* ---- the weather table: clipping the clipped table ----------------------------------------------------------------------- *)
  Lemma clip_rows_idem s e jd (rows rs : list (Z * list (Inputs.Cell F))) :
    Inputs.clip_rows s e jd rows = Inputs.Ok rs -> Inputs.clip_rows s e jd rs = Inputs.Ok rs.
  Proof.
    revert rs. induction rows as [|r rows IH]; cbn [Inputs.clip_rows]; intros rs H.
    - injection H as <-. reflexivity.
    - destruct (Inputs.row_date jd r) as [d|] eqn:Ed; cbn [Inputs.bindr] in H; [|discriminate].
      destruct (Inputs.clip_rows s e jd rows) as [rs'|]; cbn [Inputs.bindr] in H; [|discriminate]. injection H as <-.
      destruct (Inputs.in_window s e d) eqn:Ew; [|apply IH; reflexivity].
      cbn [Inputs.clip_rows]. rewrite Ed. cbn [Inputs.bindr]. rewrite (IH rs' eq_refl). cbn [Inputs.bindr]. rewrite Ew. reflexivity.
  Qed.

  (* the first record inside the window is dated on the start day and the last one on the end day (a table sorted by date with a record
     on both days; [clip_idem_refuted] shows what happens otherwise) *)
  Definition window_ends_ok (cfg : Config F) : Prop :=
    let s := Initialise.day_of (cf_start cfg) in let e := Initialise.day_of (cf_end cfg) in
    forall tab, Inputs.clip_table s e (cf_weather cfg) = Inputs.Ok tab ->
      exists r0, hd_error (Inputs.t_rows tab) = Some r0 /\ date_of tab r0 = Some s /\ date_of tab (last (Inputs.t_rows tab) r0) = Some e.

  Lemma clip_table_cols s e (t tab : Inputs.Table F) : Inputs.clip_table s e t = Inputs.Ok tab ->
    Inputs.t_cols tab = Inputs.t_cols t /\
    exists jd, Inputs.col_pos Inputs.CDate (Inputs.t_cols t) = Inputs.Ok jd /\ Inputs.clip_rows s e jd (Inputs.t_rows t) = Inputs.Ok (Inputs.t_rows tab).
  Proof.
    unfold Inputs.clip_table.
    destruct (Inputs.col_pos Inputs.CMinTemp _); cbn [Inputs.bindr]; [|discriminate].
    destruct (Inputs.col_pos Inputs.CMaxTemp _); cbn [Inputs.bindr]; [|discriminate].
    destruct (Inputs.col_pos Inputs.CPrecip _); cbn [Inputs.bindr]; [|discriminate].
    destruct (Inputs.col_pos Inputs.CRefET _); cbn [Inputs.bindr]; [|discriminate].
    destruct (Inputs.col_pos Inputs.CDate _) as [jd|]; cbn [Inputs.bindr]; [|discriminate].
    destruct (Inputs.t_rows t) as [|r0 rows]; [discriminate|].
    destruct (Inputs.row_date jd r0); cbn [Inputs.bindr]; [|discriminate]. destruct (_ <? _)%Z; [discriminate|].
    destruct (Inputs.row_date jd (last _ _)); cbn [Inputs.bindr]; [|discriminate]. destruct (_ <? _)%Z; [discriminate|].
    destruct (Inputs.clip_rows s e jd (r0 :: rows)) as [rs|] eqn:Ec; cbn [Inputs.bindr]; [|discriminate].
    intros H. injection H as <-. cbn [Inputs.t_cols Inputs.t_rows]. split; [reflexivity|]. exists jd. split; [reflexivity|exact Ec].
  Qed.

  Lemma clip_table_idem s e (t tab : Inputs.Table F) r0 : Inputs.clip_table s e t = Inputs.Ok tab ->
    hd_error (Inputs.t_rows tab) = Some r0 -> date_of tab r0 = Some s -> date_of tab (last (Inputs.t_rows tab) r0) = Some e ->
    Inputs.clip_table s e tab = Inputs.Ok tab.
  Proof.
    intros H Hh Hs He. destruct (clip_table_cols _ _ _ _ H) as (Ec & jd & Ej & Er).
    revert Hs He. unfold date_of. rewrite Ec, Ej. intros Hs He.
    revert H. unfold Inputs.clip_table. rewrite Ec.
    destruct (Inputs.col_pos Inputs.CMinTemp _); cbn [Inputs.bindr]; [|discriminate].
    destruct (Inputs.col_pos Inputs.CMaxTemp _); cbn [Inputs.bindr]; [|discriminate].
    destruct (Inputs.col_pos Inputs.CPrecip _); cbn [Inputs.bindr]; [|discriminate].
    destruct (Inputs.col_pos Inputs.CRefET _); cbn [Inputs.bindr]; [|discriminate].
    rewrite Ej. cbn [Inputs.bindr]. intros _.
    destruct (Inputs.t_rows tab) as [|r rows] eqn:Et; [discriminate|]. injection Hh as ->.
    destruct (Inputs.row_date jd r0) as [d0|]; [|discriminate]. injection Hs as ->. cbn [Inputs.bindr]. rewrite Z.ltb_irrefl.
    destruct (Inputs.row_date jd (last (r0 :: rows) r0)) as [dl|]; [|discriminate]. injection He as ->. cbn [Inputs.bindr]. rewrite Z.ltb_irrefl.
    rewrite (clip_rows_idem _ _ _ _ _ Er). cbn [Inputs.bindr]. destruct tab as [c rr]. cbn [Inputs.t_cols Inputs.t_rows] in *. subst. reflexivity.
  Qed.

  (* a given harvest date: MaturityCD is not read *)
  Lemma season_list_some_mat st en pl h m m' : Calendar.season_list st en pl (Some h) m = Calendar.season_list st en pl (Some h) m'.
  Proof. destruct st as [[sy sm] sd]. reflexivity. Qed.

  Lemma wb_mat_spec (cfg : Config F) wsel mat : u_harvest (cf_crop cfg) = None ->
    (if (u_CalendarType (cf_crop cfg) =? 1)%Z then IOk (maturity_arg (u_MaturityCD (cf_crop cfg)))
     else match u_harvest (cf_crop cfg) with
          | Some _ => IOk 0%Z
          | None =>
            ibind (first_pl_date (cf_start cfg) (u_planting (cf_crop cfg))) (fun p0 =>
            ibind (of_opt EGddMethod (gdd_from (cf_crop cfg) p0 wsel)) (fun gdd =>
            ibind (of_cal (Calendar.gdd_calendar (CropInit.with_cc0 (cal_of (cf_crop cfg) false)
                             (CropInit.cc0_of (u_PlantPop (cf_crop cfg)) (u_SeedSize (cf_crop cfg)))) gdd)) (fun g =>
            IOk (Calendar.g_maturitycd g))))
          end) = IOk mat ->
    wb_mat cfg wsel = Some mat.
  Proof.
    intros Hn. unfold wb_mat. cbv zeta. destruct (u_CalendarType (cf_crop cfg) =? 1)%Z; [intros E; injection E as <-; reflexivity|].
    rewrite Hn. destruct (first_pl_date _ _) as [p0|]; cbn [ibind]; [|discriminate].
    destruct (gdd_from _ _ _) as [gdd|]; cbn [of_opt ibind]; [|discriminate].
    destruct (Calendar.gdd_calendar _ _) as [g|]; cbn [of_cal ibind]; [|discriminate].
    intros E; injection E as <-. reflexivity.
  Qed.

  (* C11 AT CONFIGURATION LEVEL: a second model built from the objects the first initialisation left behind initialises to the SAME
     structures.  Premises: the first / last record inside the window are dated on the start / end day ([window_ends_ok]; otherwise the
     clipped table no longer covers the window, [clip_idem_refuted]); the crop is not a determinate non-fruit calendar-day crop with an
     explicit harvest date ([crop_wb_ok], finding D3, [written_back_crop_refuted_ingredient]). *)
  Theorem initialise_written_back (cfg : Config F) i :
    initialise cfg = IOk i -> window_ends_ok cfg -> crop_wb_ok (cf_crop cfg) -> initialise (written_back cfg) = IOk i.
  Proof.
    intros H Hwin Hcrop. rewrite <- H. pose proof H as H0. unfold initialise in H0.
    destruct (Calendar.read_clock (cf_start cfg) (cf_end cfg)) as [n|] eqn:Ecl; [|discriminate H0]. cbn [of_cal ibind] in H0.
    destruct (Inputs.clip_table _ _ (cf_weather cfg)) as [tab|] eqn:Etab; [|discriminate H0]. cbn [of_in ibind] in H0.
    destruct (of_opt ESoil (SoilBuild.resolve_layers _)) as [Ls|] eqn:E3; [|discriminate H0]. cbn [ibind] in H0.
    match type of H0 with ibind ?r _ = _ => destruct r as [u1|] eqn:E4; [|discriminate H0] end. cbn [ibind] in H0.
    match type of H0 with ibind ?r _ = _ => destruct r as [[rows zsoil]|] eqn:E5; [|discriminate H0] end. cbn [ibind] in H0.
    match type of H0 with ibind ?r _ = _ => destruct r as [u2|] eqn:E6; [|discriminate H0] end. cbn [ibind] in H0.
    destruct (Inputs.select_weather tab) as [wsel|] eqn:Esel; [|discriminate H0]. cbn [of_in ibind] in H0.
    match type of H0 with ibind ?r _ = _ => destruct r as [mat|] eqn:Emat; [|discriminate H0] end. cbn [ibind] in H0.
    match type of H0 with ibind ?r _ = _ => destruct r as [l|] eqn:El; [|discriminate H0] end. cbn [ibind] in H0.
    do 7 (match type of H0 with ibind ?r _ = _ => destruct r eqn:?; [|discriminate H0] end; cbn [ibind] in H0).
    match type of H0 with ibind ?r _ = _ => destruct r as [co2|] eqn:Eco2; [|discriminate H0] end. clear H0.
    destruct (Inputs.co2_init _ _ (cf_co2 cfg)) as [co2'|] eqn:Eco; [|discriminate Eco2]. cbn [of_in] in Eco2. injection Eco2 as ->.
    (* the mode is 1 or 2 *)
    assert (Hmode : (u_CalendarType (cf_crop cfg) =? 1)%Z || (u_CalendarType (cf_crop cfg) =? 2)%Z = true).
    { revert E6. destruct (u_SwitchGDD (cf_crop cfg) =? 1)%Z; [discriminate|]. destruct (_ || _); [reflexivity|discriminate]. }
    (* the written-back harvest date *)
    destruct (Hwin tab Etab) as (r0 & Hh & Hs & He). pose proof (clip_table_idem _ _ _ _ _ Etab Hh Hs He) as Eidem.
    set (h' := match u_harvest (cf_crop cfg) with
               | Some h => Some h
               | None => Some (Calendar.default_harvest (u_planting (cf_crop cfg)) mat) end).
    assert (Ewb : written_back cfg =
      {| cf_start := cf_start cfg; cf_end := cf_end cfg; cf_weather := tab; cf_soil := cf_soil cfg;
         cf_crop := set_hf (cf_crop cfg) h' (wb_flowering (cf_crop cfg));
         cf_iwc := cf_iwc cfg; cf_irr := cf_irr cfg; cf_field := cf_field cfg; cf_fallow_field := cf_fallow_field cfg;
         cf_gw := cf_gw cfg; cf_co2 := co2; cf_off_season := cf_off_season cfg |}).
    { pose proof (fun Eh => wb_mat_spec cfg wsel mat Eh Emat) as Hwb.
      unfold written_back. cbv zeta. rewrite Etab, Esel, Eco. unfold h'. clear Emat. destruct (u_harvest (cf_crop cfg)) eqn:Eh; [reflexivity|].
      rewrite (Hwb eq_refl). reflexivity. }
    rewrite Ewb. clear Ewb.
    assert (Hh' : exists hh, h' = Some hh) by (unfold h'; destruct (u_harvest (cf_crop cfg)); eauto). destruct Hh' as (hh & Ehh).
    (* the season list *)
    assert (Esl : Calendar.season_list (cf_start cfg) (cf_end cfg) (u_planting (cf_crop cfg)) h'
                    (if (u_CalendarType (cf_crop cfg) =? 1)%Z then maturity_arg (u_MaturityCD (cf_crop cfg)) else 0%Z) =
                  Calendar.season_list (cf_start cfg) (cf_end cfg) (u_planting (cf_crop cfg)) (u_harvest (cf_crop cfg)) mat).
    { unfold h'. destruct (u_harvest (cf_crop cfg)) as [h0|] eqn:Eh.
      - apply season_list_some_mat.
      - rewrite <- (default_harvest_explicit _ _ _ mat). apply season_list_some_mat. }
    (* the CO2 object *)
    pose proof (co2_init_idempotent _ _ _ _ Eco) as Eco_i. destruct (co2_init_fields _ _ _ _ Eco) as (Eref & _).
    (* walk *)
    unfold initialise, par_of, crops_of.
    cbn [cf_start cf_end cf_weather cf_soil cf_crop cf_iwc cf_irr cf_field cf_fallow_field cf_gw cf_co2 cf_off_season].
    cbn [set_hf u_CalendarType u_SwitchGDD u_harvest u_planting u_MaturityCD u_Zmax u_PlantPop u_SeedSize u_bsted u_bface u_fsink u_WP].
    rewrite Ecl. cbn [of_cal ibind]. rewrite Eidem, Etab. cbn [of_in ibind].
    apply ibind_ext; [reflexivity|intros ?]. apply ibind_ext; [reflexivity|intros ?]. apply ibind_ext; [reflexivity|intros [? ?]].
    apply ibind_ext; [reflexivity|intros ?]. rewrite Esel. cbn [of_in ibind].
    rewrite Emat. rewrite Ehh. cbn [ibind].
    assert (Emat' : (if (u_CalendarType (cf_crop cfg) =? 1)%Z then IOk (maturity_arg (u_MaturityCD (cf_crop cfg))) else IOk 0%Z) =
                    IOk (if (u_CalendarType (cf_crop cfg) =? 1)%Z then maturity_arg (u_MaturityCD (cf_crop cfg)) else 0%Z))
      by (destruct (u_CalendarType (cf_crop cfg) =? 1)%Z; reflexivity).
    rewrite Emat'. cbn [ibind]. rewrite <- Ehh, Esl.
    apply ibind_ext; [reflexivity|intros sl].
    do 5 (apply ibind_ext; [reflexivity|intros ?]).
    rewrite !gdd_from_hf. apply ibind_ext; [reflexivity|intros gdd0].
    rewrite Eco_i, Eco, Eref. cbn [of_in ibind].
    rewrite Ehh. rewrite (crop_init_wb (cf_crop cfg) hh gdd0 _ _ Hcrop Hmode).
    apply ibind_ext; [reflexivity|intros o0].
    rewrite !seasons_of_hf.
    apply ibind_ext; [reflexivity|intros th0].
    assert (Ecf : forall o, cropfull_of (set_hf (cf_crop cfg) (Some hh) (wb_flowering (cf_crop cfg))) o = cropfull_of (cf_crop cfg) o)
      by (intros; apply cropfull_of_hf).
    apply ibind_ext; [reflexivity|intros s0].
    f_equal. f_equal. apply FunctionalExtensionality.functional_extensionality. intros k. apply Ecf.
  Qed.

  Theorem run_config_written_back (cfg : Config F) i fuel :
    initialise cfg = IOk i -> window_ends_ok cfg -> crop_wb_ok (cf_crop cfg) -> run_config (written_back cfg) fuel = run_config cfg fuel.
  Proof. intros H Hw Hc. unfold run_config. rewrite (initialise_written_back cfg i H Hw Hc), H. reflexivity. Qed.
End WrittenBack.

(* ============================================================================================================ *)
(*  Parts 2 and 3  C07 and C13 at configuration level                                                             *)
(* ============================================================================================================ *)
Section ClockIrr.
  Context {F : Type} {N : NumOps F} {T : Yield.TrigOps F}.
  Local Open Scope num_scope.

  (* MaturityCD as read_model_parameters uses it for the default harvest date (the `mat` of Initialise.initialise) *)
  Definition mat_bind (cfg : Config F) (wsel : list (Inputs.WRow F)) : ires Z :=
    if (u_CalendarType (cf_crop cfg) =? 1)%Z then IOk (maturity_arg (u_MaturityCD (cf_crop cfg)))
    else match u_harvest (cf_crop cfg) with
         | Some _ => IOk 0%Z
         | None =>
           ibind (first_pl_date (cf_start cfg) (u_planting (cf_crop cfg))) (fun p0 =>
           ibind (of_opt EGddMethod (gdd_from (cf_crop cfg) p0 wsel)) (fun gdd =>
           ibind (of_cal (Calendar.gdd_calendar (CropInit.with_cc0 (cal_of (cf_crop cfg) false)
                            (CropInit.cc0_of (u_PlantPop (cf_crop cfg)) (u_SeedSize (cf_crop cfg)))) gdd)) (fun g =>
           IOk (Calendar.g_maturitycd g))))
         end.

  (* the clock / irrigation / weather part of what `initialise cfg = IOk i` means (any number type) *)
  Lemma initialise_inv2 (cfg : Config F) i : initialise cfg = IOk i ->
    let s := Initialise.day_of (cf_start cfg) in let e := Initialise.day_of (cf_end cfg) in
    exists n wsel mat l irr zgw,
      Calendar.read_clock (cf_start cfg) (cf_end cfg) = Calendar.Ok n /\
      Inputs.bind_weather s e (cf_weather cfg) = Inputs.Ok wsel /\
      mat_bind cfg wsel = IOk mat /\
      Calendar.season_list (cf_start cfg) (cf_end cfg) (u_planting (cf_crop cfg)) (u_harvest (cf_crop cfg)) mat = Calendar.Ok l /\
      irr_of (cf_irr cfg) s e = IOk irr /\
      i_clock i = {| n_steps := n; plant := map fst l; harv := map snd l; off_season := cf_off_season cfg |} /\
      p_irr (i_par i) = irr /\ p_fallow_irr (i_par i) = fallow_irr s e /\
      i_weather i = weather_of (gw_present (cf_gw cfg)) wsel zgw.
  Proof.
    cbv zeta. intros H0. unfold initialise in H0.
    destruct (Calendar.read_clock (cf_start cfg) (cf_end cfg)) as [n|] eqn:Ecl; [|discriminate H0]. cbn [of_cal ibind] in H0.
    destruct (Inputs.clip_table _ _ (cf_weather cfg)) as [tab|] eqn:Etab; [|discriminate H0]. cbn [of_in ibind] in H0.
    do 2 (match type of H0 with ibind ?r _ = _ => destruct r eqn:?; [|discriminate H0] end; cbn [ibind] in H0).
    match type of H0 with ibind ?r _ = _ => destruct r as [[rows zsoil]|] eqn:E5; [|discriminate H0] end. cbn [ibind] in H0.
    match type of H0 with ibind ?r _ = _ => destruct r eqn:?; [|discriminate H0] end; cbn [ibind] in H0.
    destruct (Inputs.select_weather tab) as [wsel|] eqn:Esel; [|discriminate H0]. cbn [of_in ibind] in H0.
    fold (mat_bind cfg wsel) in H0.
    destruct (mat_bind cfg wsel) as [mat|] eqn:Emat; [|discriminate H0]. cbn [ibind] in H0.
    destruct (Calendar.season_list _ _ _ _ mat) as [l|] eqn:El; [|discriminate H0]. cbn [of_cal ibind] in H0.
    destruct (irr_of _ _ _) as [irr|] eqn:Eirr; [|discriminate H0]. cbn [ibind] in H0.
    match type of H0 with ibind ?r _ = _ => destruct r eqn:?; [|discriminate H0] end; cbn [ibind] in H0.
    match type of H0 with ibind ?r _ = _ => destruct r as [zgw|] eqn:?; [|discriminate H0] end; cbn [ibind] in H0.
    do 7 (match type of H0 with ibind ?r _ = _ => destruct r eqn:?; [|discriminate H0] end; cbn [ibind] in H0).
    injection H0 as <-. exists n, wsel, mat, l, irr, zgw. cbn [i_clock i_par i_weather]. unfold par_of. cbn [p_irr p_fallow_irr].
    repeat split; try reflexivity; try assumption.
    unfold Inputs.bind_weather. rewrite Etab. exact Esel.
  Qed.

  Lemma weather_of_length wt (w : list (Inputs.WRow F)) : forall z, length (weather_of wt w z) = length w.
  Proof. induction w as [|r w IH]; intros z; cbn [weather_of length]; [reflexivity|]. rewrite IH. reflexivity. Qed.

  (* C07: the number of steps is (end day - start day) + 1, at least 2; the weather list has one record per step when the table has
     one record per day of the window in date order (otherwise it has as many records as the table has inside the window) *)
  Theorem initialise_nsteps (cfg : Config F) i : initialise cfg = IOk i ->
    let s := Initialise.day_of (cf_start cfg) in let e := Initialise.day_of (cf_end cfg) in
    n_steps (i_clock i) = (e - s + 1)%Z /\ (2 <= n_steps (i_clock i))%Z /\ off_season (i_clock i) = cf_off_season cfg /\
    length (i_weather i) = length (window_rows s e (cf_weather cfg)) /\
    (window_dates s e (cf_weather cfg) = map Some (Inputs.span s e) -> Z.of_nat (length (i_weather i)) = n_steps (i_clock i)).
  Proof.
    intros H. cbv zeta. destruct (initialise_inv2 cfg i H) as (n & wsel & mat & l & irr & zgw & Ecl & Ew & _ & _ & _ & Ec & _ & _ & Ewe).
    rewrite Ec, Ewe. cbn [n_steps off_season]. destruct (n_steps_pos _ _ _ Ecl) as (-> & N2 & _).
    assert (Ed : forall d, CalendarP.day_of d = Initialise.day_of d) by (intros [[? ?] ?]; reflexivity).
    rewrite (Ed (cf_start cfg)), (Ed (cf_end cfg)) in *.
    split; [reflexivity|]. split; [exact N2|]. split; [reflexivity|]. rewrite weather_of_length. split.
    - destruct (bind_ok_spec _ _ _ _ Ew) as (Hm & _). exact (mapr_length _ _ _ Hm).
    - intros Hd. rewrite (bind_by_date_length _ _ _ _ Ew Hd). lia.
  Qed.

  (* C07: the seasons of the clock are the configured planting day in consecutive years from the first one on or after the start date,
     each harvest the configured — or default — harvest day of the same or the next year; the list is a well-formed clock *)
  Theorem initialise_seasons_spec (cfg : Config F) i : initialise cfg = IOk i ->
    exists mat wsel, mat_bind cfg wsel = IOk mat /\
    let st := cf_start cfg in let en := cf_end cfg in let pl := u_planting (cf_crop cfg) in
    let h := harvest_of pl (u_harvest (cf_crop cfg)) mat in
    let y0 := first_year st pl in let y1 := last_year en pl h in let dy := year_shift pl h in
    let s := CalendarP.day_of st in
    wf_clock (i_clock i) /\
    md_valid pl = true /\ md_valid h = true /\ (y0 <= y1)%Z /\ length (plant (i_clock i)) = Z.to_nat (y1 - y0 + 1) /\
    (forall k p x, nthZ (plant (i_clock i)) k = Some p -> nthZ (harv (i_clock i)) k = Some x ->
       p = (Calendar.days_from_civil (y0 + k) (fst pl) (snd pl) - s)%Z /\ x = (Calendar.days_from_civil (y0 + k + dy) (fst h) (snd h) - s)%Z) /\
    (dy = if md_lt pl h then 0 else 1)%Z /\
    (s <= Calendar.days_from_civil y0 (fst pl) (snd pl) /\ Calendar.days_from_civil (y0 - 1) (fst pl) (snd pl) < s)%Z /\
    (Calendar.days_from_civil y1 (fst pl) (snd pl) < CalendarP.day_of en)%Z /\
    (u_CalendarType (cf_crop cfg) = 1%Z -> mat = maturity_arg (u_MaturityCD (cf_crop cfg))).
  Proof.
    intros H. destruct (initialise_inv2 cfg i H) as (n & wsel & mat & l & irr & zgw & Ecl & _ & Em & El & _ & Ec & _).
    exists mat, wsel. split; [exact Em|]. cbv zeta.
    destruct (n_steps_pos _ _ _ Ecl) as (En & _ & S1 & S2 & _).
    pose proof (sim_date_ok_valid _ S1) as Vs. pose proof (sim_date_ok_valid _ S2) as Ve.
    destruct (season_list_spec _ _ _ _ _ _ Vs Ve El) as (A1 & A2 & A3 & A4 & A5 & A6 & A7 & A8 & _). cbv zeta in *.
    rewrite Ec. cbn [plant harv]. split.
    - rewrite En. exact (season_list_wf _ _ _ _ _ _ _ Vs Ve El).
    - repeat split; try assumption; try (apply A7).
      + rewrite map_length. exact A4.
      + apply (A5 k p x); assumption.
      + apply (A5 k p x); assumption.
      + intros Hc. unfold mat_bind in Em. rewrite Hc in Em. cbn [Z.eqb Pos.eqb] in Em. injection Em as <-. reflexivity.
  Qed.

  (* C13: the irrigation management of the run IS the user's: method, thresholds, efficiency, caps, interval, depth unchanged; the dated
     schedule re-indexed by Inputs.irr_schedule over the window (so InputsP.schedule_reindex_spec / schedule_outside_dropped /
     schedule_reindex_ok_iff describe it: an event dated d in the window sits at step d - start, events outside are dropped, a repeated
     date is rejected); the fallow management is the struct's defaults *)
  Theorem initialise_irr_spec (cfg : Config F) i : initialise cfg = IOk i ->
    let s := Initialise.day_of (cf_start cfg) in let e := Initialise.day_of (cf_end cfg) in
    let iu := cf_irr cfg in let ir := p_irr (i_par i) in
    i_method ir = ir_method iu /\ i_SMT ir = ir_SMT iu /\ i_AppEff ir = ir_AppEff iu /\ i_MaxIrr ir = ir_MaxIrr iu /\
    i_IrrInterval ir = ir_IrrInterval iu /\ i_depth ir = ir_depth iu /\ i_MaxIrrSeason ir = ir_MaxIrrSeason iu /\
    i_NetIrrSMT ir = ir_NetIrrSMT iu /\ i_WetSurf ir = ir_WetSurf iu /\
    Inputs.irr_schedule (ir_method iu) s e (ir_sched iu) = Inputs.Ok (i_Schedule ir) /\
    (ir_method iu = 3%Z -> Inputs.schedule_reindex s e (ir_sched iu) = Inputs.Ok (i_Schedule ir)) /\
    (ir_method iu <> 3%Z -> i_Schedule ir = map (fun _ => #0) (Inputs.span s e)) /\
    p_fallow_irr (i_par i) = fallow_irr s e.
  Proof.
    intros H. cbv zeta. destruct (initialise_inv2 cfg i H) as (n & wsel & mat & l & irr & zgw & _ & _ & _ & _ & Ei & _ & -> & Ef & _).
    unfold irr_of in Ei. destruct (Inputs.irr_schedule _ _ _ _) as [sch|] eqn:Es; [|discriminate Ei]. cbn [of_in ibind] in Ei. injection Ei as <-.
    cbn [i_method i_SMT i_AppEff i_MaxIrr i_IrrInterval i_depth i_MaxIrrSeason i_NetIrrSMT i_WetSurf i_Schedule].
    repeat split; try reflexivity; try exact Ef.
    - intros E3. unfold Inputs.irr_schedule in Es. rewrite E3 in Es. exact Es.
    - intros E3. unfold Inputs.irr_schedule in Es. apply Z.eqb_neq in E3. rewrite E3 in Es. injection Es as <-. reflexivity.
  Qed.
End ClockIrr.

Local Open Scope R_scope.
#[local] Existing Instance YieldR.RTrig.

(* ---- refutations: the two premises cannot be dropped ------------------------------------------------------------------------ *)
(* a table with a gap on the start day: records dated the day before the start and the end day; window = [start, end] of two days.
   The first initialisation accepts it (the first record is not after the start); the table it writes back starts AFTER the start
   date, so a second initialisation of the same objects is rejected by read_weather_inputs — whatever the rest of the configuration *)
Definition t_gap_start : Inputs.Table R :=
  {| Inputs.t_cols := [Inputs.CDate; Inputs.CMinTemp; Inputs.CMaxTemp; Inputs.CPrecip; Inputs.CRefET];
     Inputs.t_rows := [ex_row 730240 0 3; ex_row 730242 5 3] |}.

Theorem clip_idem_refuted :
  let cfg := with_weather (ex_cfg (2000, 5, 2)%Z) t_gap_start in
  (exists w, Inputs.bind_weather (Initialise.day_of (cf_start cfg)) (Initialise.day_of (cf_end cfg)) (cf_weather cfg) = Inputs.Ok w) /\
  ~ window_ends_ok cfg /\
  initialise (written_back cfg) = IErr_ (EIn Inputs.EStart).
Proof.
  cbv zeta. split; [eexists; reflexivity|]. split.
  - intros H. destruct (H _ eq_refl) as (r0 & Hh & Hs & _). cbn in Hh. injection Hh as <-. cbn in Hs. discriminate Hs.
  - reflexivity.
Qed.

(* finding D3 again: a determinate calendar-day crop that is not a fruit / grain crop, WITH an explicit harvest date.  The first
   initialisation computes CanopyDevEnd from FloweringCD = 21 and overwrites FloweringCD with -999; a second initialisation of the same
   crop object computes it from -999: 1010 against 500 *)
Definition ex_crop_d3 : CropU R := {| u_planting := (5, 1)%Z; u_harvest := Some (9, 1)%Z; u_CropType := 2%Z; u_CalendarType := 1%Z; u_SwitchGDD := 0%Z; u_GDDmethod := 3%Z; u_ETadj := 1%Z; u_PolHeatStress := 1%Z; u_PolColdStress := 1%Z; u_TrColdStress := 1%Z; u_PlantMethod := 1; u_Determinant := 1; u_Tupp := 1; u_Tbase := 1; u_GermThr := 1; u_YldWC := 1; u_Zmin := 1; u_Zmax := 1; u_Aer := 1; u_LagAer := 1; u_PctZmin := 1; u_fshape_r := 1; u_fshape_ex := 1; u_fshape_b := 1; u_SxTopQ := 1; u_SxBotQ := 1; u_SeedSize := 1; u_PlantPop := 1; u_CCx := 1; u_CDC := 1; u_CGC := 1; u_CDC_CD := 1; u_CGC_CD := 1; u_Kcb := 1; u_fage := 1; u_a_Tr := 1; u_WP := 1; u_WPy := 1; u_fsink := 1; u_bsted := 1; u_bface := 1; u_HI0 := 1; u_HIini := 1; u_dHI_pre := 1; u_a_HI := 1; u_b_HI := 1; u_dHI0 := 1; u_exc := 1; u_CCmin := 1; u_beta := 1; u_pu1 := 1; u_pu2 := 1; u_pu3 := 1; u_pu4 := 1; u_pl1 := 1; u_pl2 := 1; u_pl3 := 1; u_pl4 := 1; u_fw1 := 1; u_fw2 := 1; u_fw3 := 1; u_Tmax_up := 1; u_Tmax_lo := 1; u_Tmin_up := 1; u_Tmin_lo := 1; u_GDD_up := 1; u_GDD_lo := 1; u_EmergenceCD := 1; u_MaxRootingCD := 1; u_SenescenceCD := 1; u_MaturityCD := 1; u_HIstartCD := 1999 / 2; u_FloweringCD := 21; u_YldFormCD := 1; u_Emergence := 1; u_MaxRooting := 1; u_Senescence := 1; u_Maturity := 1; u_HIstart := 1; u_Flowering := 1; u_YldForm := 1 |}.

Theorem written_back_crop_refuted_ingredient :
  ~ crop_wb_ok ex_crop_d3 /\
  Calendar.r_canopydevend (Calendar.cal_derived (cal_of ex_crop_d3 false)) = 1010 /\
  Calendar.r_canopydevend (Calendar.cal_derived (cal_of (set_hf ex_crop_d3 (u_harvest ex_crop_d3) (wb_flowering ex_crop_d3)) false)) = 500.
Proof.
  assert (Hd : det_of ex_crop_d3 = 1%Z).
  { unfold det_of. cbn [ex_crop_d3 u_Determinant]. rnum. destruct (Reqb_spec 1 1) as [_|n]; [reflexivity|contradiction n; reflexivity]. }
  split; [|split].
  - intros H. destruct (H eq_refl) as [E|[E|E]]; [discriminate E|discriminate E|contradiction].
  - unfold Calendar.cal_derived, cal_of. cbn [ex_crop_d3 u_CalendarType Z.eqb Pos.eqb Calendar.k_determinant Calendar.k_histart Calendar.k_flowering
      Calendar.r_canopydevend u_HIstartCD u_FloweringCD andb]. rewrite Hd. cbn [Z.eqb Pos.eqb]. rnum.
    replace (1999 / 2 + 21 / 2) with (IZR 1010) by lra. rewrite (@Zrnd_IZR ZnearestE (valid_rnd_N _)). reflexivity.
  - unfold Calendar.cal_derived, cal_of, wb_flowering.
    cbn [set_hf ex_crop_d3 u_CalendarType u_CropType Z.eqb Pos.eqb Calendar.k_determinant Calendar.k_histart Calendar.k_flowering
      Calendar.r_canopydevend u_HIstartCD u_FloweringCD andb negb].
    change (det_of _) with (det_of ex_crop_d3). rewrite Hd. cbn [Z.eqb Pos.eqb]. rnum.
    replace (1999 / 2 + -999 / 2) with (IZR 500) by lra. rewrite (@Zrnd_IZR ZnearestE (valid_rnd_N _)). reflexivity.
Qed.

(* ---- non-vacuity: the example configuration of InitialiseP (three days of weather, one record per day) satisfies both premises ---- *)
Example written_back_premises_example : window_ends_ok (ex_cfg (2000, 5, 3)%Z) /\ crop_wb_ok (cf_crop (ex_cfg (2000, 5, 3)%Z)).
Proof.
  split.
  - intros tab E. cbn in E. injection E as <-. eexists. split; [reflexivity|]. split; reflexivity.
  - intros _. right. left. reflexivity.
Qed.

Print Assumptions initialise_written_back.
Print Assumptions run_config_written_back.
Print Assumptions clip_idem_refuted.
Print Assumptions written_back_crop_refuted_ingredient.
Print Assumptions initialise_inv2.
Print Assumptions initialise_nsteps.
Print Assumptions initialise_seasons_spec.
Print Assumptions initialise_irr_spec.
