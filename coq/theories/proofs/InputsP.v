(* InputsP.v — theorems about Init/Inputs.v (binding of user inputs to the simulation window).
   Everything structural is proved for EVERY number type F; only the range of the interpolated
   groundwater depth uses the real instance. *)
From AC Require Import Num RInst Params.
From AC.Init Require Import Inputs.
From Coq Require Import Permutation Sorted Lia.
Local Open Scope Z_scope.

(* ------------------------------------------------------------------------------------------------ *)
(* generic list facts                                                                               *)
Lemma last_map {A B} (f : A -> B) l d : last (map f l) (f d) = f (last l d).
Proof. induction l as [|a [|b l] IH]; simpl in *; auto. Qed.

Lemma span_length s e : length (span s e) = Z.to_nat (e - s + 1).
Proof. unfold span. now rewrite map_length, seq_length. Qed.

Lemma span_nth s e i : (i < Z.to_nat (e - s + 1))%nat -> nth_error (span s e) i = Some (s + Z.of_nat i).
Proof.
  intros H. unfold span. rewrite nth_error_map.
  assert (nth_error (seq 0 (Z.to_nat (e - s + 1))) i = Some i) as ->; [|reflexivity].
  rewrite nth_error_nth' with (d := O) by now rewrite seq_length.
  now rewrite seq_nth.
Qed.

Lemma span_cons s e : s <= e -> span s e = s :: span (s + 1) e.
Proof.
  intros H. unfold span.
  replace (Z.to_nat (e - s + 1)) with (S (Z.to_nat (e - (s + 1) + 1))) by lia.
  cbn [seq map]. f_equal; [lia|]. rewrite <- seq_shift, map_map. apply map_ext. intros; lia.
Qed.

Lemma span_nil s e : e < s -> span s e = [].
Proof. intros H. unfold span. now replace (Z.to_nat (e - s + 1)) with O by lia. Qed.

Lemma In_span s e d : In d (span s e) <-> s <= d <= e.
Proof.
  unfold span. rewrite in_map_iff. split.
  - intros (i & <- & Hi). apply in_seq in Hi. lia.
  - intros H. exists (Z.to_nat (d - s)). split; [lia|]. apply in_seq. lia.
Qed.

Section Generic.
  Context {F : Type} {N : NumOps F}.

  Lemma bindr_ok {A B} (x : res A) (f : A -> res B) b :
    bindr x f = Ok b -> exists a, x = Ok a /\ f a = Ok b.
  Proof. destruct x; simpl; eauto. discriminate. Qed.

  Lemma mapr_ext {A B} (f g : A -> res B) l : (forall a, In a l -> f a = g a) -> mapr f l = mapr g l.
  Proof.
    induction l; simpl; auto. intros H. rewrite H by auto. rewrite IHl; auto.
  Qed.

  Lemma mapr_map {A B C} (g : A -> B) (f : B -> res C) l : mapr f (map g l) = mapr (fun a => f (g a)) l.
  Proof. induction l; simpl; auto. now rewrite IHl. Qed.

  Lemma mapr_nth {A B} (f : A -> res B) l bs k a :
    mapr f l = Ok bs -> nth_error l k = Some a -> exists b, nth_error bs k = Some b /\ f a = Ok b.
  Proof.
    revert bs k. induction l as [|x l IH]; intros bs k H Hk; [destruct k; discriminate|].
    simpl in H. apply bindr_ok in H as (b & Hb & H). apply bindr_ok in H as (bs' & Hbs & H). injection H as <-.
    destruct k; simpl in *.
    - injection Hk as ->. eauto.
    - eapply IH; eauto.
  Qed.

  Lemma mapr_length {A B} (f : A -> res B) l bs : mapr f l = Ok bs -> length bs = length l.
  Proof.
    revert bs. induction l; simpl; intros bs H.
    - now injection H as <-.
    - apply bindr_ok in H as (b & _ & H). apply bindr_ok in H as (bs' & Hbs & H). injection H as <-.
      simpl. f_equal. auto.
  Qed.

  (* ============================================================================================== *)
  (* (a) weather: the result depends on the table only through the five NAMED cells of each row      *)
  (* ============================================================================================== *)
  Notation Cell := (Cell F). Notation Table := (Table F). Notation WRow := (WRow F).
  Notation Row := (Z * list Cell)%type.

  Definition positions (cols : list Col) : res (nat * nat * nat * nat * nat) :=
    bindr (col_pos CMinTemp cols) (fun jn =>
    bindr (col_pos CMaxTemp cols) (fun jx =>
    bindr (col_pos CPrecip cols) (fun jp =>
    bindr (col_pos CRefET cols) (fun je =>
    bindr (col_pos CDate cols) (fun jd => Ok (jn, jx, jp, je, jd)))))).

  (* what the code can see of one row: its date and its five named values *)
  Definition view (js : nat * nat * nat * nat * nat) (r : Row) : res Z * res WRow :=
    let '(jn, jx, jp, je, jd) := js in (row_date jd r, select_row jn jx jp je jd r).

  Fixpoint clip_views (s e : Z) (vs : list (res Z * res WRow)) : res (list (res WRow)) :=
    match vs with
    | [] => Ok []
    | v :: r => bindr (fst v) (fun d => bindr (clip_views s e r) (fun ws =>
                 Ok (if in_window s e d then snd v :: ws else ws)))
    end.

  Definition bind_views (s e : Z) (vs : list (res Z * res WRow)) : res (list WRow) :=
    match vs with
    | [] => Err EEmpty
    | v0 :: _ =>
      bindr (fst v0) (fun d0 => if s <? d0 then Err EStart else
      bindr (fst (last vs v0)) (fun dl => if dl <? e then Err EEnd else
      bindr (clip_views s e vs) (mapr (fun w => w))))
    end.

  Lemma clip_views_rows s e jn jx jp je jd rows :
    clip_views s e (map (view (jn, jx, jp, je, jd)) rows)
    = bindr (clip_rows s e jd rows) (fun rs => Ok (map (select_row jn jx jp je jd) rs)).
  Proof.
    induction rows as [|r rows IH]; simpl; auto.
    destruct (row_date jd r) as [d|]; simpl; auto.
    rewrite IH. destruct (clip_rows s e jd rows) as [rs|]; simpl; auto.
    now destruct (in_window s e d).
  Qed.

  Lemma clip_rows_views s e jn jx jp je jd rows :
    bindr (clip_rows s e jd rows) (mapr (select_row jn jx jp je jd))
    = bindr (clip_views s e (map (view (jn, jx, jp, je, jd)) rows)) (mapr (fun w => w)).
  Proof.
    rewrite clip_views_rows. destruct (clip_rows s e jd rows); simpl; auto.
    now rewrite mapr_map.
  Qed.

  Lemma bind_views_cons {A} s e (f : A -> res Z * res WRow) (r0 : A) (rows : list A) :
    bind_views s e (map f (r0 :: rows)) =
    bindr (fst (f r0)) (fun d0 => if s <? d0 then Err EStart else
    bindr (fst (f (last (r0 :: rows) r0))) (fun dl => if dl <? e then Err EEnd else
    bindr (clip_views s e (map f (r0 :: rows))) (mapr (fun w => w)))).
  Proof. unfold bind_views. rewrite <- (last_map f). reflexivity. Qed.

  (* the reading of bind_weather all invariance theorems go through *)
  Lemma bind_weather_views s e (t : Table) :
    bind_weather s e t = bindr (positions (t_cols t)) (fun js => bind_views s e (map (view js) (t_rows t))).
  Proof.
    unfold bind_weather, clip_table, positions, select_weather.
    destruct (col_pos CMinTemp (t_cols t)) as [jn|] eqn:E1; cbn [bindr]; auto.
    destruct (col_pos CMaxTemp (t_cols t)) as [jx|] eqn:E2; cbn [bindr]; auto.
    destruct (col_pos CPrecip (t_cols t)) as [jp|] eqn:E3; cbn [bindr]; auto.
    destruct (col_pos CRefET (t_cols t)) as [je|] eqn:E4; cbn [bindr]; auto.
    destruct (col_pos CDate (t_cols t)) as [jd|] eqn:E5; cbn [bindr]; auto.
    destruct (t_rows t) as [|r0 rows] eqn:Er; [reflexivity|].
    rewrite bind_views_cons. cbn [view fst].
    destruct (row_date jd r0) as [d0|] eqn:Ed0; cbn [bindr]; auto.
    destruct (s <? d0); cbn [bindr]; auto.
    destruct (row_date jd (last (r0 :: rows) r0)) as [dl|]; cbn [bindr]; auto.
    destruct (dl <? e); cbn [bindr]; auto.
    rewrite <- clip_rows_views.
    destruct (clip_rows s e jd (r0 :: rows)) as [rs|]; cbn [bindr t_cols t_rows]; auto.
    rewrite E1, E2, E3, E4, E5. reflexivity.
  Qed.

  Lemma bind_same_views s e (t t' : Table) :
    (forall e0, positions (t_cols t) = Err e0 -> positions (t_cols t') = Err e0) ->
    (forall js, positions (t_cols t) = Ok js ->
        exists js', positions (t_cols t') = Ok js' /\ map (view js') (t_rows t') = map (view js) (t_rows t)) ->
    bind_weather s e t' = bind_weather s e t.
  Proof.
    intros He Ho. rewrite !bind_weather_views.
    destruct (positions (t_cols t)) as [js|e0].
    - destruct (Ho js eq_refl) as (js' & -> & Hv). simpl. now rewrite Hv.
    - now rewrite (He e0 eq_refl).
  Qed.

  (* ---- 1c. the index is ignored ---------------------------------------------------------------- *)
  Theorem bind_reindex s e (t t' : Table) :
    t_cols t' = t_cols t -> map snd (t_rows t') = map snd (t_rows t) ->
    bind_weather s e t' = bind_weather s e t.
  Proof.
    intros Hc Hr. apply bind_same_views; rewrite Hc; auto.
    intros js Hjs. exists js. split; [exact Hjs|].
    assert (forall rows : list Row, map (view js) rows = map (fun c => view js (0, c)) (map snd rows)) as Hm.
    { intros rows. rewrite map_map. apply map_ext. intros [i c]. destruct js as [[[[? ?] ?] ?] ?]. reflexivity. }
    now rewrite (Hm (t_rows t')), (Hm (t_rows t)), Hr.
  Qed.

  (* ---- column positions ------------------------------------------------------------------------- *)
  Lemma col_find_shift c cols k : col_find c cols (S k) = map S (col_find c cols k).
  Proof.
    revert k. induction cols as [|c' cols IH]; intros k; simpl; auto.
    destruct (col_eqb c c'); simpl; now rewrite IH.
  Qed.

  Lemma col_find_length c cols k : length (col_find c cols k) = length (filter (col_eqb c) cols).
  Proof.
    revert k. induction cols as [|c' cols IH]; intros k; simpl; auto.
    destruct (col_eqb c c'); simpl; now rewrite IH.
  Qed.

  Lemma col_find_In c cols j :
    In j (col_find c cols 0) <-> exists c', nth_error cols j = Some c' /\ col_eqb c c' = true.
  Proof.
    revert j. induction cols as [|c0 cols IH]; intros j; simpl.
    - split; [tauto|]. intros (c' & H & _). destruct j; discriminate.
    - rewrite col_find_shift. destruct (col_eqb c c0) eqn:E; simpl; rewrite in_map_iff.
      + split.
        * intros [<-|(j' & <- & H)]; [exists c0; auto|]. apply IH in H. exact H.
        * intros (c' & H & Hc). destruct j; [auto|right]. exists j. split; auto. apply IH. eauto.
      + split.
        * intros (j' & <- & H). apply IH in H. exact H.
        * intros (c' & H & Hc). destruct j; simpl in H; [congruence|]. exists j. split; auto. apply IH. eauto.
  Qed.

  (* applying a permutation of the column positions to a list *)
  Definition pick {A} (p : list nat) (l : list A) : list A :=
    flat_map (fun i => match nth_error l i with Some x => [x] | None => [] end) p.

  Lemma pick_nth {A} p (l : list A) j :
    Forall (fun i => (i < length l)%nat) p ->
    nth_error (pick p l) j = match nth_error p j with Some i => nth_error l i | None => None end.
  Proof.
    intros Hp. revert j. induction Hp as [|i p Hi Hp IH]; intros j; simpl.
    - now destruct j.
    - destruct (nth_error l i) as [x|] eqn:E; [|apply nth_error_None in E; lia].
      destruct j; simpl; auto.
  Qed.

  Lemma pick_seq {A} (pre l : list A) :
    flat_map (fun i => match nth_error (pre ++ l) i with Some x => [x] | None => [] end) (seq (length pre) (length l)) = l.
  Proof.
    revert pre. induction l as [|a l IH]; intros pre; simpl; auto.
    rewrite nth_error_app2, Nat.sub_diag by lia. simpl. f_equal.
    specialize (IH (pre ++ [a])). rewrite app_length, Nat.add_1_r, <- app_assoc in IH. exact IH.
  Qed.

  Lemma pick_perm {A} p (l : list A) : Permutation p (seq 0 (length l)) -> Permutation (pick p l) l.
  Proof.
    intros H. unfold pick. etransitivity; [apply Permutation_flat_map, H|].
    pose proof (pick_seq [] l) as E. simpl in E. rewrite E. reflexivity.
  Qed.

  Lemma filter_perm_length {A} (f : A -> bool) a b : Permutation a b -> length (filter f a) = length (filter f b).
  Proof.
    induction 1; simpl; auto; try congruence.
    - destruct (f x); simpl; congruence.
    - destruct (f x), (f y); simpl; congruence.
  Qed.

  Lemma perm_range p n : Permutation p (seq 0 n) -> Forall (fun i => (i < n)%nat) p.
  Proof.
    intros H. apply Forall_forall. intros i Hi. apply (Permutation_in _ H) in Hi. apply in_seq in Hi. lia.
  Qed.

  Lemma col_pos_pick c cols p :
    Permutation p (seq 0 (length cols)) ->
    match col_pos c cols with
    | Err e0 => col_pos c (pick p cols) = Err e0
    | Ok j => exists j', col_pos c (pick p cols) = Ok j' /\ nth_error p j' = Some j
    end.
  Proof.
    intros Hp. unfold col_pos.
    assert (length (col_find c (pick p cols) 0) = length (col_find c cols 0)) as Hl.
    { rewrite !col_find_length. apply filter_perm_length, pick_perm, Hp. }
    pose proof (col_find_In c cols) as HI. pose proof (col_find_In c (pick p cols)) as HI'.
    destruct (col_find c cols 0) as [|j [|j2 l]]; destruct (col_find c (pick p cols) 0) as [|j' [|j2' l']];
      try discriminate; auto.
    exists j'. split; auto.
    destruct (proj1 (HI' j') (or_introl eq_refl)) as (c' & Hn & Hc).
    rewrite pick_nth in Hn by (apply perm_range, Hp).
    destruct (nth_error p j') as [i|]; [|discriminate].
    assert (In i [j]) as [->|[]]; auto. apply HI. eauto.
  Qed.

  Definition well_shaped (t : Table) : Prop := Forall (fun r : Row => length (snd r) = length (t_cols t)) (t_rows t).

  Definition permute (p : list nat) (t : Table) : Table :=
    {| t_cols := pick p (t_cols t); t_rows := map (fun r : Row => (fst r, pick p (snd r))) (t_rows t) |}.

  (* ---- 1a. permuting the columns (names and cells together) changes nothing --------------------- *)
  Theorem bind_perm s e p (t : Table) :
    Permutation p (seq 0 (length (t_cols t))) -> well_shaped t ->
    bind_weather s e (permute p t) = bind_weather s e t.
  Proof.
    intros Hp Hw. apply bind_same_views; unfold positions; cbn [permute t_cols t_rows].
    - intros e0.
      pose proof (col_pos_pick CMinTemp _ _ Hp) as H1. pose proof (col_pos_pick CMaxTemp _ _ Hp) as H2.
      pose proof (col_pos_pick CPrecip _ _ Hp) as H3. pose proof (col_pos_pick CRefET _ _ Hp) as H4.
      pose proof (col_pos_pick CDate _ _ Hp) as H5.
      destruct (col_pos CMinTemp (t_cols t)); [destruct H1 as (? & -> & _)|rewrite H1; auto]; cbn [bindr].
      destruct (col_pos CMaxTemp (t_cols t)); [destruct H2 as (? & -> & _)|rewrite H2; auto]; cbn [bindr].
      destruct (col_pos CPrecip (t_cols t)); [destruct H3 as (? & -> & _)|rewrite H3; auto]; cbn [bindr].
      destruct (col_pos CRefET (t_cols t)); [destruct H4 as (? & -> & _)|rewrite H4; auto]; cbn [bindr].
      destruct (col_pos CDate (t_cols t)); [destruct H5 as (? & -> & _)|rewrite H5; auto]; cbn [bindr].
      discriminate.
    - intros js Hjs.
      pose proof (col_pos_pick CMinTemp _ _ Hp) as H1. pose proof (col_pos_pick CMaxTemp _ _ Hp) as H2.
      pose proof (col_pos_pick CPrecip _ _ Hp) as H3. pose proof (col_pos_pick CRefET _ _ Hp) as H4.
      pose proof (col_pos_pick CDate _ _ Hp) as H5.
      destruct (col_pos CMinTemp (t_cols t)) as [jn|]; [|discriminate]. destruct H1 as (jn' & -> & Hn).
      destruct (col_pos CMaxTemp (t_cols t)) as [jx|]; [|discriminate]. destruct H2 as (jx' & -> & Hx).
      destruct (col_pos CPrecip (t_cols t)) as [jp|]; [|discriminate]. destruct H3 as (jp' & -> & Hpp).
      destruct (col_pos CRefET (t_cols t)) as [je|]; [|discriminate]. destruct H4 as (je' & -> & He).
      destruct (col_pos CDate (t_cols t)) as [jd|]; [|discriminate]. destruct H5 as (jd' & -> & Hd).
      cbn [bindr] in *. injection Hjs as <-. eexists. split; [reflexivity|].
      rewrite map_map. apply map_ext_in. intros r Hr.
      assert (Forall (fun i => (i < length (snd r))%nat) p) as Hrange.
      { unfold well_shaped in Hw. rewrite Forall_forall in Hw. rewrite (Hw r Hr). apply perm_range, Hp. }
      unfold view, row_date, select_row. cbn [snd].
      rewrite !pick_nth by exact Hrange. now rewrite Hn, Hx, Hpp, He, Hd.
  Qed.

  (* ---- 1b. an additional column with a new name changes nothing --------------------------------- *)
  Definition required (c : Col) : bool :=
    match c with COther _ => false | _ => true end.

  Definition add_col (c : Col) (cells : list Cell) (d : Cell) (t : Table) : Table :=
    {| t_cols := c :: t_cols t;
       t_rows := map (fun kr : nat * Row => (fst (snd kr), nth (fst kr) cells d :: snd (snd kr)))
                     (combine (seq 0 (length (t_rows t))) (t_rows t)) |}.

  Lemma col_pos_cons c c0 cols :
    col_eqb c c0 = false ->
    col_pos c (c0 :: cols) = match col_pos c cols with Ok j => Ok (S j) | Err e0 => Err e0 end.
  Proof.
    intros H. unfold col_pos. simpl. rewrite H, col_find_shift.
    now destruct (col_find c cols 0) as [|j [|j2 l]].
  Qed.

  Theorem bind_extra_col s e c cells d (t : Table) :
    required c = false ->
    bind_weather s e (add_col c cells d t) = bind_weather s e t.
  Proof.
    intros Hc. assert (forall x, required x = true -> col_eqb x c = false) as Hx.
    { destruct c; try discriminate Hc. intros x. destruct x; simpl; congruence. }
    apply bind_same_views; unfold positions; cbn [add_col t_cols t_rows];
      rewrite !col_pos_cons by (apply Hx; reflexivity).
    - intros e0. destruct (col_pos CMinTemp (t_cols t)); cbn [bindr]; auto.
      destruct (col_pos CMaxTemp (t_cols t)); cbn [bindr]; auto.
      destruct (col_pos CPrecip (t_cols t)); cbn [bindr]; auto.
      destruct (col_pos CRefET (t_cols t)); cbn [bindr]; auto.
      destruct (col_pos CDate (t_cols t)); cbn [bindr]; auto. discriminate.
    - intros js. destruct (col_pos CMinTemp (t_cols t)); cbn [bindr]; [|discriminate].
      destruct (col_pos CMaxTemp (t_cols t)); cbn [bindr]; [|discriminate].
      destruct (col_pos CPrecip (t_cols t)); cbn [bindr]; [|discriminate].
      destruct (col_pos CRefET (t_cols t)); cbn [bindr]; [|discriminate].
      destruct (col_pos CDate (t_cols t)); cbn [bindr]; [|discriminate].
      intros H. injection H as <-. eexists. split; [reflexivity|].
      rewrite map_map.
      assert (forall (rows : list Row) k,
                 map (fun x : nat * Row => view (S a, S a0, S a1, S a2, S a3) (fst (snd x), nth (fst x) cells d :: snd (snd x)))
                     (combine (seq k (length rows)) rows) = map (view (a, a0, a1, a2, a3)) rows) as Hm.
      { induction rows as [|r rows IH]; intros k; simpl; auto. f_equal. apply IH. }
      apply Hm.
  Qed.

  (* ---- the rows that are bound: those dated inside the window, in TABLE order ------------------- *)
  Definition date_of (t : Table) (r : Row) : option Z :=
    match col_pos CDate (t_cols t) with
    | Ok jd => match row_date jd r with Ok d => Some d | Err _ => None end
    | Err _ => None
    end.

  Definition window_rows (s e : Z) (t : Table) : list Row :=
    filter (fun r => match date_of t r with Some d => in_window s e d | None => false end) (t_rows t).

  Definition wrow_of (t : Table) (r : Row) : res WRow :=
    bindr (positions (t_cols t)) (fun js => snd (view js r)).

  Lemma clip_rows_filter s e jd (rows rs : list Row) :
    clip_rows s e jd rows = Ok rs ->
    rs = filter (fun r => match row_date jd r with Ok d => in_window s e d | Err _ => false end) rows.
  Proof.
    revert rs. induction rows as [|r rows IH]; simpl; intros rs H.
    - now injection H as <-.
    - destruct (row_date jd r) as [d|]; simpl in H; [|discriminate].
      destruct (clip_rows s e jd rows) as [rs'|]; simpl in H; [|discriminate]. injection H as <-.
      specialize (IH rs' eq_refl). subst rs'. now destruct (in_window s e d).
  Qed.

  (* whenever the binding succeeds: first row not after the start, last row not before the end, and the
     matrix is the list of in-window rows, by name, in the order of the table *)
  Theorem bind_ok_spec s e (t : Table) w :
    bind_weather s e t = Ok w ->
    mapr (wrow_of t) (window_rows s e t) = Ok w /\
    exists r0 d0 dl, hd_error (t_rows t) = Some r0 /\ date_of t r0 = Some d0 /\ d0 <= s /\
                     date_of t (last (t_rows t) r0) = Some dl /\ e <= dl.
  Proof.
    unfold bind_weather, clip_table, select_weather, window_rows, wrow_of, date_of, positions.
    destruct (col_pos CMinTemp (t_cols t)) as [jn|] eqn:E1; cbn [bindr]; [|discriminate].
    destruct (col_pos CMaxTemp (t_cols t)) as [jx|] eqn:E2; cbn [bindr]; [|discriminate].
    destruct (col_pos CPrecip (t_cols t)) as [jp|] eqn:E3; cbn [bindr]; [|discriminate].
    destruct (col_pos CRefET (t_cols t)) as [je|] eqn:E4; cbn [bindr]; [|discriminate].
    destruct (col_pos CDate (t_cols t)) as [jd|] eqn:E5; cbn [bindr]; [|discriminate].
    destruct (t_rows t) as [|r0 rows]; [discriminate|].
    destruct (row_date jd r0) as [d0|] eqn:E0; cbn [bindr]; [|discriminate].
    destruct (s <? d0) eqn:Es; [discriminate|].
    destruct (row_date jd (last (r0 :: rows) r0)) as [dl|] eqn:El; cbn [bindr]; [|discriminate].
    destruct (dl <? e) eqn:Ee; [discriminate|].
    destruct (clip_rows s e jd (r0 :: rows)) as [rs|] eqn:Ec; cbn [bindr t_cols t_rows]; [|discriminate].
    rewrite E1, E2, E3, E4, E5. cbn [bindr].
    intros H. split.
    - apply clip_rows_filter in Ec. subst rs.
      erewrite filter_ext; [exact H|]. intros r. cbv beta. now destruct (row_date jd r).
    - exists r0, d0, dl. cbn [hd_error]. rewrite E0, El. repeat split; auto; lia.
  Qed.

  (* ---- 1d. rows dated outside the window can be added or removed freely ------------------------- *)
  Theorem bind_extra_rows s e (t t' : Table) w w' :
    t_cols t' = t_cols t -> window_rows s e t' = window_rows s e t ->
    bind_weather s e t = Ok w -> bind_weather s e t' = Ok w' -> w' = w.
  Proof.
    intros Hc Hw H H'. apply bind_ok_spec in H as (H & _). apply bind_ok_spec in H' as (H' & _).
    rewrite Hw in H'. erewrite mapr_ext in H'; [rewrite H in H'; now injection H'|].
    intros r _. unfold wrow_of. now rewrite Hc.
  Qed.

  (* the dates in the matrix are those of the in-window rows in table order: binding is POSITIONAL *)
  Lemma wrow_of_date (t : Table) r wr : wrow_of t r = Ok wr -> date_of t r = Some (w_date wr).
  Proof.
    unfold wrow_of, date_of, positions.
    destruct (col_pos CMinTemp (t_cols t)) as [jn|]; cbn [bindr]; [|discriminate].
    destruct (col_pos CMaxTemp (t_cols t)) as [jx|]; cbn [bindr]; [|discriminate].
    destruct (col_pos CPrecip (t_cols t)) as [jp|]; cbn [bindr]; [|discriminate].
    destruct (col_pos CRefET (t_cols t)) as [je|]; cbn [bindr]; [|discriminate].
    destruct (col_pos CDate (t_cols t)) as [jd|]; cbn [bindr]; [|discriminate].
    cbn [view snd]. unfold select_row, row_date.
    destruct (cell_num (nth_error (snd r) jn)); cbn [bindr]; [|discriminate].
    destruct (cell_num (nth_error (snd r) jx)); cbn [bindr]; [|discriminate].
    destruct (cell_num (nth_error (snd r) jp)); cbn [bindr]; [|discriminate].
    destruct (cell_num (nth_error (snd r) je)); cbn [bindr]; [|discriminate].
    destruct (cell_date (nth_error (snd r) jd)); cbn [bindr]; [|discriminate].
    intros H. now injection H as <-.
  Qed.

  (* the value of a named numeric column in a row *)
  Definition named (c : Col) (t : Table) (r : Row) : res F :=
    bindr (col_pos c (t_cols t)) (fun j => cell_num (nth_error (snd r) j)).

  Lemma wrow_of_named (t : Table) r wr :
    wrow_of t r = Ok wr ->
    named CMinTemp t r = Ok (w_tmin wr) /\ named CMaxTemp t r = Ok (w_tmax wr) /\
    named CPrecip t r = Ok (w_prec wr) /\ named CRefET t r = Ok (w_et0 wr).
  Proof.
    unfold wrow_of, named, positions.
    destruct (col_pos CMinTemp (t_cols t)) as [jn|]; cbn [bindr]; [|discriminate].
    destruct (col_pos CMaxTemp (t_cols t)) as [jx|]; cbn [bindr]; [|discriminate].
    destruct (col_pos CPrecip (t_cols t)) as [jp|]; cbn [bindr]; [|discriminate].
    destruct (col_pos CRefET (t_cols t)) as [je|]; cbn [bindr]; [|discriminate].
    destruct (col_pos CDate (t_cols t)) as [jd|]; cbn [bindr]; [|discriminate].
    cbn [view snd]. unfold select_row.
    destruct (cell_num (nth_error (snd r) jn)); cbn [bindr]; [|discriminate].
    destruct (cell_num (nth_error (snd r) jx)); cbn [bindr]; [|discriminate].
    destruct (cell_num (nth_error (snd r) jp)); cbn [bindr]; [|discriminate].
    destruct (cell_num (nth_error (snd r) je)); cbn [bindr]; [|discriminate].
    destruct (cell_date (nth_error (snd r) jd)); cbn [bindr]; [|discriminate].
    intros H. injection H as <-. auto.
  Qed.

  (* ---- 1e. step k reads the k-th in-window row of the table; it is the row DATED start+k exactly when
          the in-window rows are one per day in date order ------------------------------------------- *)
  Theorem bind_positional s e (t : Table) w k r :
    bind_weather s e t = Ok w -> nth_error (window_rows s e t) k = Some r ->
    exists wr, weather_at w k = Some wr /\ date_of t r = Some (w_date wr) /\
      named CMinTemp t r = Ok (w_tmin wr) /\ named CMaxTemp t r = Ok (w_tmax wr) /\
      named CPrecip t r = Ok (w_prec wr) /\ named CRefET t r = Ok (w_et0 wr).
  Proof.
    intros H Hk. apply bind_ok_spec in H as (H & _).
    destruct (mapr_nth _ _ _ _ _ H Hk) as (wr & Hn & Hr). exists wr. split; [exact Hn|].
    split; [now apply wrow_of_date|now apply wrow_of_named].
  Qed.

  Definition window_dates (s e : Z) (t : Table) : list (option Z) := map (date_of t) (window_rows s e t).

  Theorem bind_by_date s e (t : Table) w k :
    bind_weather s e t = Ok w ->
    window_dates s e t = map Some (span s e) ->            (* sorted, one row per day, covering the window *)
    (k < Z.to_nat (e - s + 1))%nat ->
    exists r wr, In r (t_rows t) /\ date_of t r = Some (s + Z.of_nat k) /\ weather_at w k = Some wr /\
      w_date wr = s + Z.of_nat k /\
      named CMinTemp t r = Ok (w_tmin wr) /\ named CMaxTemp t r = Ok (w_tmax wr) /\
      named CPrecip t r = Ok (w_prec wr) /\ named CRefET t r = Ok (w_et0 wr).
  Proof.
    intros H Hd Hk.
    assert (nth_error (window_dates s e t) k = Some (Some (s + Z.of_nat k))) as Hn.
    { rewrite Hd, nth_error_map, span_nth by exact Hk. reflexivity. }
    unfold window_dates in Hn. rewrite nth_error_map in Hn.
    destruct (nth_error (window_rows s e t) k) as [r|] eqn:Er; [|discriminate]. injection Hn as Hn.
    destruct (bind_positional _ _ _ _ _ _ H Er) as (wr & Hw & Hdt & Hnm).
    exists r, wr. repeat split; try tauto.
    - apply nth_error_In in Er. unfold window_rows in Er. apply filter_In in Er. tauto.
    - rewrite Hn in Hdt. now injection Hdt.
  Qed.

  (* the matrix has exactly one row per step under that hypothesis *)
  Theorem bind_by_date_length s e (t : Table) w :
    bind_weather s e t = Ok w -> window_dates s e t = map Some (span s e) -> length w = Z.to_nat (e - s + 1).
  Proof.
    intros H Hd. apply bind_ok_spec in H as (H & _). apply mapr_length in H. rewrite H.
    apply (f_equal (@length _)) in Hd. unfold window_dates in Hd. now rewrite !map_length, span_length in Hd.
  Qed.

  (* ============================================================================================== *)
  (* (b) irrigation schedule                                                                         *)
  (* ============================================================================================== *)
  Lemma has_dup_NoDup l : has_dup l = false <-> NoDup l.
  Proof.
    induction l as [|d l IH]; simpl.
    - split; [constructor|auto].
    - rewrite orb_false_iff, IH. split.
      + intros [H1 H2]. constructor; auto. intros Hin.
        assert (existsb (Z.eqb d) l = true); [|congruence].
        apply existsb_exists. exists d. split; auto. apply Z.eqb_refl.
      + intros H. inversion H; subst. split; auto.
        destruct (existsb (Z.eqb d) l) eqn:E; auto.
        apply existsb_exists in E as (x & Hx & E). apply Z.eqb_eq in E. subst. contradiction.
  Qed.

  (* the code accepts a schedule iff no date occurs twice -- anywhere, also outside the window *)
  Theorem schedule_reindex_ok_iff s e (sched : list (Z * F)) :
    (exists l, schedule_reindex s e sched = Ok l) <-> NoDup (map fst sched).
  Proof.
    unfold schedule_reindex. rewrite <- has_dup_NoDup.
    destruct (has_dup (map fst sched)); split; eauto; try discriminate. intros (l & H). discriminate.
  Qed.

  Lemma lookup_date_In d (sched : list (Z * F)) x :
    NoDup (map fst sched) -> In (d, x) sched -> lookup_date d sched = Some x.
  Proof.
    unfold lookup_date. induction sched as [|[d' x'] sched IH]; simpl; [tauto|].
    intros Hn [H|H].
    - injection H as -> ->. now rewrite Z.eqb_refl.
    - inversion Hn; subst. destruct (Z.eqb d' d) eqn:E; [|auto].
      apply Z.eqb_eq in E. subst. exfalso. apply H2. apply in_map_iff. exists (d, x). auto.
  Qed.

  Lemma lookup_date_None d (sched : list (Z * F)) :
    (forall x, ~ In (d, x) sched) -> lookup_date d sched = None.
  Proof.
    unfold lookup_date. induction sched as [|[d' x'] sched IH]; simpl; auto.
    intros H. destruct (Z.eqb d' d) eqn:E.
    - apply Z.eqb_eq in E. subst. exfalso. apply (H x'). auto.
    - apply IH. intros x Hx. apply (H x). auto.
  Qed.

  (* Schedule[i] = the depth scheduled for day start+i, 0 when nothing is scheduled on that day *)
  Theorem schedule_reindex_spec s e (sched : list (Z * F)) l :
    schedule_reindex s e sched = Ok l ->
    length l = Z.to_nat (e - s + 1) /\
    forall i, (i < Z.to_nat (e - s + 1))%nat ->
      (forall x, In (s + Z.of_nat i, x) sched -> nth_error l i = Some x) /\
      ((forall x, ~ In (s + Z.of_nat i, x) sched) -> nth_error l i = Some (nofZ num_ops 0)).
  Proof.
    unfold schedule_reindex. destruct (has_dup (map fst sched)) eqn:E; [discriminate|].
    apply has_dup_NoDup in E. intros H. injection H as <-.
    split; [now rewrite map_length, span_length|].
    intros i Hi. rewrite nth_error_map, span_nth by exact Hi. cbn [option_map]. split.
    - intros x Hx. now rewrite (lookup_date_In _ _ _ E Hx).
    - intros Hx. now rewrite (lookup_date_None _ _ Hx).
  Qed.

  (* scheduled dates outside the window have no effect (once the duplicate test is passed) *)
  Theorem schedule_outside_dropped s e (sched : list (Z * F)) l :
    schedule_reindex s e sched = Ok l ->
    schedule_reindex s e (filter (fun p => in_window s e (fst p)) sched) = Ok l.
  Proof.
    unfold schedule_reindex. destruct (has_dup (map fst sched)) eqn:E; [discriminate|].
    apply has_dup_NoDup in E. intros H. injection H as <-.
    assert (NoDup (map fst (filter (fun p : Z * F => in_window s e (fst p)) sched))) as E'.
    { clear -E. induction sched as [|[d x] sched IH]; simpl in *; auto. inversion E; subst.
      destruct (in_window s e d); simpl; auto. constructor; auto.
      intros Hin. apply H1. apply in_map_iff in Hin as (p & Hp & Hin). apply filter_In in Hin as [Hin _].
      apply in_map_iff. eauto. }
    apply has_dup_NoDup in E'. rewrite E'. f_equal. apply map_ext_in. intros d Hd. apply In_span in Hd.
    assert (lookup_date d (filter (fun p : Z * F => in_window s e (fst p)) sched) = lookup_date d sched) as ->; auto.
    unfold lookup_date. clear -Hd. induction sched as [|[d' x] sched IH]; simpl; auto.
    destruct (in_window s e d') eqn:Ew; simpl.
    - destruct (Z.eqb d' d); auto.
    - destruct (Z.eqb d' d) eqn:Ed; auto. apply Z.eqb_eq in Ed. subst.
      unfold in_window in Ew. apply andb_false_iff in Ew as [Ew|Ew]; apply Z.leb_gt in Ew; lia.
  Qed.

  (* every other irrigation method: a schedule of zeros; the user's Schedule/SMT objects are inputs only
     (by signature: irr_schedule and irr_smt return new values and nothing else) *)
  Theorem irr_schedule_other method s e (sched : list (Z * F)) :
    method <> 3 -> irr_schedule method s e sched = Ok (map (fun _ => nofZ num_ops 0) (span s e)).
  Proof. intros H. unfold irr_schedule. apply Z.eqb_neq in H. now rewrite H. Qed.

  (* ============================================================================================== *)
  (* (d) CO2                                                                                          *)
  (* ============================================================================================== *)
  Lemma co2_init_fields sy ey (c c1 : CO2 F) :
    co2_init sy ey c = Ok c1 ->
    co2_ref c1 = co2_ref c /\ co2_constant c1 = co2_constant c /\ co2_data c1 = co2_data c /\
    co2_process sy ey (co2_data c) = Ok (co2_processed c1) /\
    exists c0, first_conc (co2_processed c1) = Ok c0 /\
      co2_current c1 = if co2_constant c then (if nltb num_ops (nofZ num_ops 0) (co2_current c) then co2_current c else c0) else c0.
  Proof.
    unfold co2_init. intros H. apply bindr_ok in H as (proc & Hp & H). apply bindr_ok in H as (c0 & H0 & H).
    injection H as <-. cbn. repeat split; auto. eauto.
  Qed.

  (* constant_conc = True with a positive user value: every season gets exactly that value *)
  Theorem co2_constant_spec sy ey (c c1 : CO2 F) y :
    co2_init sy ey c = Ok c1 -> co2_constant c = true -> nltb num_ops (nofZ num_ops 0) (co2_current c) = true ->
    co2_current c1 = co2_current c /\ co2_season c1 y = Ok (co2_current c).
  Proof.
    intros H Hc Hp. apply co2_init_fields in H as (_ & Hk & _ & _ & c0 & _ & Hcur).
    rewrite Hc, Hp in Hcur. split; auto. unfold co2_season. now rewrite Hk, Hc, Hcur, Hp.
  Qed.

  (* constant_conc = True without a positive value: the first simulation year's concentration, every season *)
  Theorem co2_constant_default sy ey (c c1 : CO2 F) y :
    co2_init sy ey c = Ok c1 -> co2_constant c = true -> nltb num_ops (nofZ num_ops 0) (co2_current c) = false ->
    exists c0, first_conc (co2_processed c1) = Ok c0 /\ co2_current c1 = c0 /\ co2_season c1 y = Ok c0.
  Proof.
    intros H Hc Hp. apply co2_init_fields in H as (_ & Hk & _ & _ & c0 & H0 & Hcur).
    rewrite Hc, Hp in Hcur. exists c0. repeat split; auto. unfold co2_season. rewrite Hk, Hc, Hcur.
    destruct (nltb num_ops (nofZ num_ops 0) c0); auto.
  Qed.

  Lemma mapr_find_year (f : Z -> option F) ys proc y :
    mapr (fun y => match f y with Some v => Ok (y, v) | None => Err ENoData end) ys = Ok proc ->
    In y ys -> exists v, f y = Some v /\ find (fun p : Z * F => Z.eqb (fst p) y) proc = Some (y, v).
  Proof.
    revert proc. induction ys as [|y0 ys IH]; simpl; intros proc H Hin; [tauto|].
    apply bindr_ok in H as ([y0' v0] & H0 & H). apply bindr_ok in H as (proc' & Hp & H). injection H as <-.
    destruct (f y0) as [v|] eqn:E; [|discriminate]. injection H0 as <- <-. simpl.
    destruct (Z.eqb y0 y) eqn:Ey.
    - apply Z.eqb_eq in Ey. subst. eauto.
    - destruct Hin as [->|Hin]; [rewrite Z.eqb_refl in Ey; discriminate|]. now apply IH.
  Qed.

  (* constant_conc = False: the first season gets the first simulation year's value, a later season that
     starts in calendar year y gets np.interp(y, table) *)
  Theorem co2_by_year sy ey (c c1 : CO2 F) y :
    co2_init sy ey c = Ok c1 -> co2_constant c = false -> sy <= y <= ey ->
    exists v, np_interp (co2_data c) y = Some v /\ co2_season c1 y = Ok v /\
      (y = sy -> co2_current c1 = v).
  Proof.
    intros H Hc Hy. apply co2_init_fields in H as (_ & Hk & _ & Hp & c0 & H0 & Hcur).
    rewrite Hc in Hcur. unfold co2_process, years in Hp.
    destruct (mapr_find_year _ _ _ y Hp) as (v & Hv & Hf); [now apply In_span|].
    exists v. split; auto. unfold co2_season. rewrite Hk, Hc, Hf. split; auto.
    intros ->. rewrite span_cons in Hp by lia. simpl in Hp. rewrite Hv in Hp. simpl in Hp.
    apply bindr_ok in Hp as (proc' & _ & Hp). injection Hp as Hp. rewrite <- Hp in H0. simpl in H0.
    injection H0 as <-. exact Hcur.
  Qed.

  (* C11 for the CO2 object: initialising again from the written-back object, SAME window, same result *)
  Theorem co2_init_idempotent sy ey (c c1 : CO2 F) :
    co2_init sy ey c = Ok c1 -> co2_init sy ey c1 = Ok c1.
  Proof.
    intros H. pose proof (co2_init_fields _ _ _ _ H) as (Hr & Hk & Hd & Hp & c0 & H0 & Hcur).
    unfold co2_init. rewrite Hd, Hp. cbn [bindr]. rewrite H0. cbn [bindr]. rewrite Hk.
    destruct c1 as [r1 cur1 k1 d1 p1]. cbn in *. subst r1 k1 d1.
    assert ((if co2_constant c then if nltb num_ops (nofZ num_ops 0) cur1 then cur1 else c0 else c0) = cur1) as ->; auto.
    destruct (co2_constant c); auto. rewrite Hcur.
    destruct (nltb num_ops (nofZ num_ops 0) (co2_current c)) eqn:E; [now rewrite E|].
    now destruct (nltb num_ops (nofZ num_ops 0) c0).
  Qed.

  (* ============================================================================================== *)
  (* (c) groundwater series                                                                          *)
  (* ============================================================================================== *)
  (* "Constant": the depth of day d is the depth of the LAST row (list order, rows after the first) dated
     on or before d, and the first row's depth if there is none: for date-sorted observations the step
     function through them, extended backwards by the first value.  Never NaN. *)
  Definition const_val (obs : list (Z * F)) (d : Z) : option F :=
    match obs with
    | [] => None
    | (_, v0) :: r => Some (fold_left (fun acc p => if fst p <=? d then snd p else acc) r v0)
    end.

  Lemma gw_const_rows_false (r : list (Z * F)) (g : Z -> F) ds :
    gw_const_rows false r (map (fun d => (d, Some (g d))) ds)
    = map (fun d => (d, Some (fold_left (fun acc p => if fst p <=? d then snd p else acc) r (g d)))) ds.
  Proof.
    revert g. induction r as [|[d v] r IH]; intros g; simpl; auto.
    unfold set_from. rewrite map_map. cbn [fst].
    rewrite <- (IH (fun x => if d <=? x then v else g x)). f_equal. apply map_ext. intros x.
    now destruct (d <=? x).
  Qed.

  Theorem gw_constant_spec s e o1 o2 (r : list (Z * F)) :
    gw_series true GwConstant s e (o1 :: o2 :: r) = Ok (map (const_val (o1 :: o2 :: r)) (span s e)).
  Proof.
    unfold gw_series. cbn [negb]. destruct o1 as [d0 v0]. f_equal.
    change (gw_const_rows true ((d0, v0) :: o2 :: r) (nan_series s e))
      with (gw_const_rows false (o2 :: r) (set_upto d0 v0 (set_from d0 v0 (nan_series s e)))).
    assert (set_upto d0 v0 (set_from d0 v0 (nan_series s e)) = map (fun x => (x, Some ((fun _ => v0) x))) (span s e)) as E.
    { unfold nan_series, set_upto, set_from. rewrite !map_map. apply map_ext. intros x. cbn [fst].
      destruct (d0 <=? x) eqn:E2; cbn [fst]; destruct (x <=? d0) eqn:E1; auto. lia. }
    rewrite E. rewrite (gw_const_rows_false (o2 :: r) (fun _ => v0)), map_map. apply map_ext. intros x. reflexivity.
  Qed.

  (* ---- "Variable" (code after commit 400240e): interpolation by DATE ----------------------------- *)
  Notation lt_date := (fun p q : Z * F => fst p < fst q).

  (* what sort_index leaves of the observations: [obs_sorted] is sorted by date, one entry per date, and
     the entry of a date is its LAST write *)
  Definition last_write (d : Z) (obs : list (Z * F)) : option F :=
    fold_left (fun acc p => if Z.eqb (fst p) d then Some (snd p) else acc) obs None.

  Lemma lookup_insert d d' v (pts : list (Z * F)) :
    lookup_date d (insert_obs d' v pts) = if Z.eqb d' d then Some v else lookup_date d pts.
  Proof.
    unfold lookup_date. induction pts as [|[d1 v1] pts IH]; simpl.
    - now destruct (Z.eqb d' d).
    - destruct (d' <? d1) eqn:E1; simpl.
      + now destruct (Z.eqb d' d).
      + destruct (d' =? d1) eqn:E2; simpl.
        * apply Z.eqb_eq in E2. subst. now destruct (Z.eqb d1 d).
        * destruct (Z.eqb d1 d) eqn:E3; simpl; auto.
          apply Z.eqb_eq in E3. subst. now rewrite E2.
  Qed.

  Theorem obs_sorted_lookup d (obs : list (Z * F)) : lookup_date d (obs_sorted obs) = last_write d obs.
  Proof.
    unfold obs_sorted, last_write.
    assert (forall pts, lookup_date d (fold_left (fun acc p => insert_obs (fst p) (snd p) acc) obs pts)
                        = fold_left (fun acc p => if Z.eqb (fst p) d then Some (snd p) else acc) obs (lookup_date d pts)) as H.
    { induction obs as [|[d' v] obs IH]; intros pts; simpl; auto. now rewrite IH, lookup_insert. }
    apply H.
  Qed.

  Lemma insert_obs_In d v (pts : list (Z * F)) p : In p (insert_obs d v pts) -> p = (d, v) \/ In p pts.
  Proof.
    induction pts as [|[d1 v1] pts IH]; simpl.
    - intros [<-|[]]; auto.
    - destruct (d <? d1); [simpl; intuition|]. destruct (d =? d1); simpl; intuition.
  Qed.

  Lemma insert_obs_sorted d v (pts : list (Z * F)) :
    StronglySorted lt_date pts -> StronglySorted lt_date (insert_obs d v pts).
  Proof.
    induction 1 as [|[d1 v1] pts Hs IH Hf]; simpl.
    - repeat constructor.
    - destruct (d <? d1) eqn:E1.
      + apply Z.ltb_lt in E1. constructor; [constructor; auto|]. constructor; [simpl; lia|].
        eapply Forall_impl; [|exact Hf]. simpl. intros; lia.
      + destruct (d =? d1) eqn:E2.
        * apply Z.eqb_eq in E2. subst. constructor; auto.
        * apply Z.ltb_ge in E1. apply Z.eqb_neq in E2. constructor; auto.
          apply Forall_forall. intros p Hp. apply insert_obs_In in Hp as [->|Hp]; [simpl; lia|].
          rewrite Forall_forall in Hf. now apply Hf.
  Qed.

  Theorem obs_sorted_sorted (obs : list (Z * F)) : StronglySorted lt_date (obs_sorted obs).
  Proof.
    unfold obs_sorted.
    assert (forall pts, StronglySorted lt_date pts ->
              StronglySorted lt_date (fold_left (fun acc p => insert_obs (fst p) (snd p) acc) obs pts)) as H.
    { induction obs as [|[d v] obs IH]; intros pts Hp; simpl; auto. apply IH. now apply insert_obs_sorted. }
    apply H. constructor.
  Qed.

  Lemma insert_obs_nonempty d v (pts : list (Z * F)) : insert_obs d v pts <> [].
  Proof. destruct pts as [|[d1 v1] pts]; simpl; [discriminate|]. destruct (d <? d1); [discriminate|]. destruct (d =? d1); discriminate. Qed.

  Lemma obs_sorted_nonempty o (obs : list (Z * F)) : obs_sorted (o :: obs) <> [].
  Proof.
    unfold obs_sorted. simpl.
    assert (forall pts, pts <> [] -> fold_left (fun acc p => insert_obs (fst p) (snd p) acc) obs pts <> []) as H.
    { induction obs as [|[d v] obs IH]; intros pts Hp; simpl; auto. apply IH. apply insert_obs_nonempty. }
    apply H. discriminate.
  Qed.

  Lemma sorted_app_left (l1 : list (Z * F)) x l2 :
    StronglySorted lt_date (l1 ++ x :: l2) -> Forall (fun y => fst y < fst x) l1.
  Proof.
    induction l1 as [|a l1 IH]; simpl; intros H; auto. inversion H; subst. constructor; auto.
    rewrite Forall_forall in H3. apply H3. apply in_elt.
  Qed.

  Lemma sorted_app_right (l1 : list (Z * F)) x l2 :
    StronglySorted lt_date (l1 ++ x :: l2) -> Forall (fun y => fst x < fst y) l2.
  Proof.
    induction l1 as [|a l1 IH]; simpl; intros H; inversion H; subst; auto.
  Qed.

  Lemma lookup_date_absent d (pts : list (Z * F)) :
    Forall (fun p => fst p <> d) pts -> lookup_date d pts = None.
  Proof.
    unfold lookup_date. induction 1 as [|[d1 v1] pts Hp _ IH]; simpl in *; auto.
    destruct (Z.eqb d1 d) eqn:E; auto. apply Z.eqb_eq in E. contradiction.
  Qed.

  (* np.interp walks past every sample point not after x *)
  Lemma interp_from_app xa ya pre x0 y0 (rest : list (Z * F)) x :
    Forall (fun p => fst p <= x) pre -> x0 <= x ->
    interp_from xa ya (pre ++ (x0, y0) :: rest) x = interp_from x0 y0 rest x.
  Proof.
    intros Hp Hx. revert xa ya. induction Hp as [|[x1 y1] pre H1 _ IH]; intros xa ya; simpl in *.
    - destruct (x <? x0) eqn:E; auto. apply Z.ltb_lt in E. lia.
    - destruct (x <? x1) eqn:E; [apply Z.ltb_lt in E; lia|]. apply IH.
  Qed.

  Lemma np_interp_app pre x0 y0 (rest : list (Z * F)) x :
    Forall (fun p => fst p <= x) pre -> x0 <= x ->
    np_interp (pre ++ (x0, y0) :: rest) x = Some (interp_from x0 y0 rest x).
  Proof.
    intros Hp Hx. destruct pre as [|[xa ya] pre]; simpl.
    - destruct (x <? x0) eqn:E; auto. apply Z.ltb_lt in E. lia.
    - inversion Hp; subst. simpl in *. destruct (x <? xa) eqn:E; [apply Z.ltb_lt in E; lia|].
      now rewrite interp_from_app.
  Qed.

  Lemma to_time_app (a b : list (Z * F)) : to_time (a ++ b) = to_time a ++ to_time b.
  Proof. apply map_app. Qed.

  Lemma to_time_le (pre : list (Z * F)) d :
    Forall (fun p => fst p <= d) pre -> Forall (fun p => fst p <= d * time_unit) (to_time pre).
  Proof.
    intros H. unfold to_time. apply Forall_forall. intros p Hp. apply in_map_iff in Hp as (q & <- & Hq).
    rewrite Forall_forall in H. specialize (H q Hq). simpl. unfold time_unit. nia.
  Qed.

  (* gw_variable_spec.  pts = obs_sorted obs is the list of observations after de-duplication by date
     (last write wins, [obs_sorted_lookup]) and sorting ([obs_sorted_sorted]).  For a day d: *)
  (* (i) an observed day has its (last written) observation *)
  Theorem gw_variable_on_obs (pts : list (Z * F)) d v :
    lookup_date d pts = Some v -> gw_time_interp pts d = Some v.
  Proof. unfold gw_time_interp. now intros ->. Qed.

  (* (ii) before the first observation: the first depth *)
  Theorem gw_variable_before d0 v0 (r : list (Z * F)) d :
    StronglySorted lt_date ((d0, v0) :: r) -> d < d0 -> gw_time_interp ((d0, v0) :: r) d = Some v0.
  Proof.
    intros Hs Hd. unfold gw_time_interp. rewrite lookup_date_absent.
    - simpl. destruct (d * time_unit <? d0 * time_unit) eqn:E; auto. apply Z.ltb_ge in E. unfold time_unit in E. nia.
    - inversion Hs; subst. constructor; [simpl; lia|]. eapply Forall_impl; [|exact H2]. simpl. intros; lia.
  Qed.

  (* (iii) after the last observation: the last depth *)
  Theorem gw_variable_after pre dl vl d :
    StronglySorted lt_date (pre ++ [(dl, vl)]) -> dl < d -> gw_time_interp (pre ++ [(dl, vl)]) d = Some vl.
  Proof.
    intros Hs Hd. pose proof (sorted_app_left _ _ _ Hs) as Hl. simpl in Hl. unfold gw_time_interp.
    rewrite lookup_date_absent.
    - rewrite to_time_app. simpl. rewrite np_interp_app; [reflexivity| |unfold time_unit; nia].
      apply to_time_le. eapply Forall_impl; [|exact Hl]. simpl. intros; lia.
    - apply Forall_app. split; [|constructor; [simpl; lia|constructor]].
      eapply Forall_impl; [|exact Hl]. simpl. intros; lia.
  Qed.

  (* (iv) strictly between two consecutive observations: the straight line through them, computed as
          np.interp does over microseconds ([lin_interp_time] in section Real: = v0 + (v1-v0)(d-d0)/(d1-d0)) *)
  Theorem gw_variable_between pre d0 v0 d1 v1 post d :
    StronglySorted lt_date (pre ++ (d0, v0) :: (d1, v1) :: post) -> d0 < d < d1 ->
    gw_time_interp (pre ++ (d0, v0) :: (d1, v1) :: post) d
    = Some (lin_interp (d0 * time_unit) v0 (d1 * time_unit) v1 (d * time_unit)).
  Proof.
    intros Hs [H0 H1]. pose proof (sorted_app_left _ _ _ Hs) as Hl. pose proof (sorted_app_right _ _ _ Hs) as Hr.
    simpl in Hl, Hr. unfold gw_time_interp. rewrite lookup_date_absent.
    - rewrite to_time_app. simpl. rewrite np_interp_app; [| |unfold time_unit; nia].
      + simpl. destruct (d * time_unit <? d1 * time_unit) eqn:E1; [|apply Z.ltb_ge in E1; unfold time_unit in E1; nia].
        destruct (d * time_unit =? d0 * time_unit) eqn:E2; [apply Z.eqb_eq in E2; unfold time_unit in E2; nia|].
        reflexivity.
      + apply to_time_le. eapply Forall_impl; [|exact Hl]. simpl. intros; lia.
    - assert (Forall (fun y : Z * F => d1 < fst y) post) as Hr2.
      { apply (sorted_app_right (pre ++ [(d0, v0)]) (d1, v1) post). rewrite <- app_assoc. exact Hs. }
      apply Forall_app. split; [eapply Forall_impl; [|exact Hl]; simpl; intros; lia|].
      constructor; [simpl; lia|]. constructor; [simpl; lia|].
      eapply Forall_impl; [|exact Hr2]. simpl. intros; lia.
  Qed.
  (* the series of the "Variable" method, one entry per simulation day *)
  Theorem gw_series_variable s e o1 o2 (r : list (Z * F)) :
    gw_series true GwVariable s e (o1 :: o2 :: r)
    = Ok (map (gw_time_interp (obs_sorted (o1 :: o2 :: r))) (span s e)).
  Proof. destruct o1. reflexivity. Qed.

  Lemma gw_time_interp_defined (pts : list (Z * F)) d : pts <> [] -> gw_time_interp pts d <> None.
  Proof.
    intros H. unfold gw_time_interp. destruct (lookup_date d pts); [discriminate|].
    destruct pts as [|[d0 v0] pts]; [contradiction|]. simpl. discriminate.
  Qed.

  Lemma all_some_defined (l : list (option F)) : Forall (fun o => o <> None) l -> exists vs, all_some l = Some vs.
  Proof.
    induction 1 as [|[v|] l H _ [vs IH]]; simpl; eauto; [rewrite IH; eauto|contradiction].
  Qed.

  (* gw_variable_defined: with two or more observations -- wherever they lie relative to the window, in any
     order, with or without repeated dates -- every simulation day has a depth (no NaN), and the series has
     exactly n_steps entries *)
  Theorem gw_variable_defined s e o1 o2 (r : list (Z * F)) z :
    gw_series true GwVariable s e (o1 :: o2 :: r) = Ok z ->
    length z = Z.to_nat (e - s + 1) /\ Forall (fun o => o <> None) z /\
    (forall k, (k < Z.to_nat (e - s + 1))%nat ->
       exists v, gw_at z k = Some v /\ gw_time_interp (obs_sorted (o1 :: o2 :: r)) (s + Z.of_nat k) = Some v) /\
    exists l, gw_daily true GwVariable s e (o1 :: o2 :: r) = Some l.
  Proof.
    intros H. pose proof H as H'. rewrite gw_series_variable in H. injection H as <-.
    assert (Forall (fun o : option F => o <> None) (map (gw_time_interp (obs_sorted (o1 :: o2 :: r))) (span s e))) as Hf.
    { apply Forall_forall. intros o Ho. apply in_map_iff in Ho as (d & <- & _).
      apply gw_time_interp_defined, obs_sorted_nonempty. }
    split; [now rewrite map_length, span_length|]. split; [exact Hf|]. split.
    - intros k Hk. unfold gw_at. rewrite nth_error_map, span_nth by exact Hk. cbn [option_map].
      destruct (gw_time_interp (obs_sorted (o1 :: o2 :: r)) (s + Z.of_nat k)) as [v|] eqn:E; [eauto|].
      exfalso. revert E. apply gw_time_interp_defined, obs_sorted_nonempty.
    - unfold gw_daily. rewrite H'. rewrite firstn_all2 by (rewrite map_length, span_length; lia).
      now apply all_some_defined.
  Qed.
End Generic.

(* ================================================================================================== *)
(* real instance: the interpolated depth stays between the smallest and the largest observation      *)
(* ================================================================================================== *)
Section Real.
  Local Open Scope R_scope.
  Definition inr (lo hi : R) (o : option R) : Prop := match o with Some v => lo <= v <= hi | None => True end.

  Lemma lin_interp_range x0 y0 x1 y1 x lo hi :
    (x0 < x < x1)%Z -> lo <= y0 <= hi -> lo <= y1 <= hi -> lo <= lin_interp x0 y0 x1 y1 x <= hi.
  Proof.
    intros [H1 H2] H0 Hy. unfold lin_interp. rnum.
    apply IZR_lt in H1, H2. set (a := IZR x - IZR x0). set (b := IZR x1 - IZR x0).
    assert (0 < a) by (unfold a; lra). assert (a < b) by (unfold a, b; lra).
    assert ((y1 - y0) / b * a + y0 = (y1 * a + y0 * (b - a)) / b) as -> by (field; lra).
    pose proof (Rmult_le_pos (y1 - lo) a). pose proof (Rmult_le_pos (y0 - lo) (b - a)).
    pose proof (Rmult_le_pos (hi - y1) a). pose proof (Rmult_le_pos (hi - y0) (b - a)).
    split.
    - apply Rmult_le_reg_r with b; [lra|]. unfold Rdiv. rewrite Rmult_assoc, Rinv_l, Rmult_1_r by lra. nra.
    - apply Rmult_le_reg_r with b; [lra|]. unfold Rdiv. rewrite Rmult_assoc, Rinv_l, Rmult_1_r by lra. nra.
  Qed.

  (* between two observations the value is the straight line through them (positions as abscissae) *)
  Lemma lin_interp_line x0 y0 x1 y1 x :
    (x0 < x1)%Z -> lin_interp x0 y0 x1 y1 x = y0 + (y1 - y0) * (IZR (x - x0) / IZR (x1 - x0)).
  Proof.
    intros H. unfold lin_interp. rnum. rewrite !minus_IZR. apply IZR_lt in H. field. lra.
  Qed.

  Lemma interp_from_range x0 y0 rest x lo hi :
    (x0 <= x)%Z -> lo <= y0 <= hi -> Forall (fun p : Z * R => lo <= snd p <= hi) rest ->
    lo <= interp_from x0 y0 rest x <= hi.
  Proof.
    revert x0 y0. induction rest as [|[x1 y1] rest IH]; intros x0 y0 Hx H0 Hr; simpl; auto.
    inversion Hr; subst. simpl in *.
    destruct (x <? x1)%Z eqn:E1.
    - destruct (x =? x0)%Z eqn:E2; auto. apply Z.ltb_lt in E1. apply Z.eqb_neq in E2.
      apply lin_interp_range; auto. lia.
    - apply Z.ltb_ge in E1. apply IH; auto.
  Qed.

  Lemma np_interp_range pts x v lo hi :
    Forall (fun p : Z * R => lo <= snd p <= hi) pts -> np_interp pts x = Some v -> lo <= v <= hi.
  Proof.
    destruct pts as [|[x0 y0] r]; simpl; [discriminate|]. intros H Hv. inversion H; subst. simpl in *.
    injection Hv as <-. destruct (x <? x0)%Z eqn:E; auto. apply Z.ltb_ge in E. now apply interp_from_range.
  Qed.

  Lemma insert_obs_range d v (pts : list (Z * R)) lo hi :
    lo <= v <= hi -> Forall (fun p : Z * R => lo <= snd p <= hi) pts ->
    Forall (fun p : Z * R => lo <= snd p <= hi) (insert_obs d v pts).
  Proof.
    intros Hv H. apply Forall_forall. intros p Hp. apply insert_obs_In in Hp as [->|Hp]; auto.
    rewrite Forall_forall in H. now apply H.
  Qed.

  Lemma obs_sorted_range (obs : list (Z * R)) lo hi :
    Forall (fun p : Z * R => lo <= snd p <= hi) obs -> Forall (fun p : Z * R => lo <= snd p <= hi) (obs_sorted obs).
  Proof.
    unfold obs_sorted. intros H.
    assert (forall pts, Forall (fun p : Z * R => lo <= snd p <= hi) pts ->
              Forall (fun p : Z * R => lo <= snd p <= hi) (fold_left (fun acc p => insert_obs (fst p) (snd p) acc) obs pts)) as Hg.
    { induction H as [|[d v] obs Hv H IH]; intros pts Hp; simpl; auto. apply IH. now apply insert_obs_range. }
    apply Hg. constructor.
  Qed.

  Lemma gw_time_interp_range (pts : list (Z * R)) d lo hi :
    Forall (fun p : Z * R => lo <= snd p <= hi) pts -> inr lo hi (gw_time_interp pts d).
  Proof.
    intros H. unfold gw_time_interp, lookup_date.
    destruct (find (fun p : Z * R => Z.eqb (fst p) d) pts) as [p|] eqn:E.
    - apply find_some in E as [E _]. rewrite Forall_forall in H. simpl. now apply H.
    - destruct (np_interp (to_time pts) (d * time_unit)) as [v|] eqn:Ev; [|exact I]. simpl.
      eapply np_interp_range; [|exact Ev]. unfold to_time. apply Forall_forall. intros p Hp.
      apply in_map_iff in Hp as (q & <- & Hq). rewrite Forall_forall in H. simpl. now apply H.
  Qed.

  (* the double expression np.interp evaluates over microseconds IS the linear interpolation by date *)
  Lemma lin_interp_time d0 v0 d1 v1 d :
    (d0 < d1)%Z ->
    lin_interp (d0 * time_unit) v0 (d1 * time_unit) v1 (d * time_unit)
    = v0 + (v1 - v0) * (IZR (d - d0) / IZR (d1 - d0)).
  Proof.
    intros H. unfold lin_interp. rnum. rewrite !mult_IZR, !minus_IZR. apply IZR_lt in H.
    assert (0 < IZR time_unit) as Hu by (unfold time_unit; lra).
    set (u := IZR time_unit) in *.
    pose proof (Rmult_lt_0_compat (IZR d1 - IZR d0) u ltac:(lra) Hu) as Hp.
    field. repeat split; try lra; nra.
  Qed.

  Lemma const_rows_range first obs (z : Series R) lo hi :
    Forall (fun p : Z * R => lo <= snd p <= hi) obs -> Forall (fun p => inr lo hi (snd p)) z ->
    Forall (fun p => inr lo hi (snd p)) (gw_const_rows first obs z).
  Proof.
    intros H. revert first z. induction H as [|[d v] obs Hv H IH]; intros first z Hz; simpl; auto.
    apply IH.
    assert (forall z0 : Series R, Forall (fun p => inr lo hi (snd p)) z0 -> Forall (fun p => inr lo hi (snd p)) (set_from d v z0)) as H1.
    { intros z0 H0. apply Forall_forall. intros p Hp. apply in_map_iff in Hp as (q & <- & Hq).
      rewrite Forall_forall in H0. destruct (d <=? fst q)%Z; simpl; auto. }
    assert (forall z0 : Series R, Forall (fun p => inr lo hi (snd p)) z0 -> Forall (fun p => inr lo hi (snd p)) (set_upto d v z0)) as H2.
    { intros z0 H0. apply Forall_forall. intros p Hp. apply in_map_iff in Hp as (q & <- & Hq).
      rewrite Forall_forall in H0. destruct (fst q <=? d)%Z; simpl; auto. }
    destruct first; auto.
  Qed.

  (* C19: wherever the daily depth is defined it lies between the smallest and the largest observation,
     for both methods, any number (>= 1) and any order of observations, inside or outside the window *)
  Theorem gw_series_range m s e obs z lo hi :
    Forall (fun p : Z * R => lo <= snd p <= hi) obs ->
    gw_series true m s e obs = Ok z -> Forall (inr lo hi) z.
  Proof.
    intros Ho. unfold gw_series. cbn [negb].
    assert (Forall (fun p : Z * option R => inr lo hi (snd p)) (nan_series s e)) as Hn.
    { unfold nan_series. apply Forall_forall. intros p Hp. apply in_map_iff in Hp as (d & <- & _). exact I. }
    destruct obs as [|[d1 v1] [|o2 r]]; [discriminate| |].
    - intros H. injection H as <-. apply Forall_forall. intros o Hin. apply in_map_iff in Hin as (d & <- & _).
      inversion Ho; subst. simpl in *. rnum. lra.
    - destruct m; [| |discriminate]; intros H; injection H as <-.
      + pose proof (const_rows_range true _ _ lo hi Ho Hn) as H.
        apply Forall_forall. intros o Hin. apply in_map_iff in Hin as (p & <- & Hp).
        rewrite Forall_forall in H. now apply H.
      + apply Forall_forall. intros o Hin. apply in_map_iff in Hin as (d & <- & _).
        apply gw_time_interp_range, obs_sorted_range, Ho.
  Qed.
  (* gw_variable_spec (C19): the depth of simulation day k under the "Variable" method.  pts = the
     observations after de-duplication by date (last write wins) and sorting by date. *)
  Theorem gw_variable_spec s e o1 o2 (r : list (Z * R)) z k :
    gw_series true GwVariable s e (o1 :: o2 :: r) = Ok z -> (k < Z.to_nat (e - s + 1))%nat ->
    let obs := o1 :: o2 :: r in let pts := obs_sorted obs in let d := (s + Z.of_nat k)%Z in
    StronglySorted (fun p q : Z * R => (fst p < fst q)%Z) pts /\
    (forall d', lookup_date d' pts = last_write d' obs) /\
    exists v, gw_at z k = Some v /\
      (forall x, last_write d obs = Some x -> v = x) /\
      (forall d0 v0 rest, pts = (d0, v0) :: rest -> (d < d0)%Z -> v = v0) /\
      (forall pre dl vl, pts = pre ++ [(dl, vl)] -> (dl < d)%Z -> v = vl) /\
      (forall pre d0 v0 d1 v1 post, pts = pre ++ (d0, v0) :: (d1, v1) :: post -> (d0 < d < d1)%Z ->
         v = v0 + (v1 - v0) * (IZR (d - d0) / IZR (d1 - d0))).
  Proof.
    intros H Hk obs pts d. pose proof (obs_sorted_sorted obs) as Hs. fold pts in Hs.
    split; [exact Hs|]. split; [intros d'; apply obs_sorted_lookup|].
    destruct (gw_variable_defined _ _ _ _ _ _ H) as (_ & _ & Hd & _).
    destruct (Hd k Hk) as (v & Hv & Hg). fold obs pts d in Hg. exists v. split; [exact Hv|]. repeat split.
    - intros x Hx. rewrite <- (obs_sorted_lookup d obs) in Hx. fold pts in Hx.
      rewrite (gw_variable_on_obs _ _ _ Hx) in Hg. now injection Hg.
    - intros d0 v0 rest E Hlt. rewrite E in Hs, Hg. rewrite (gw_variable_before _ _ _ _ Hs Hlt) in Hg. now injection Hg.
    - intros pre dl vl E Hlt. rewrite E in Hs, Hg. rewrite (gw_variable_after _ _ _ _ Hs Hlt) in Hg. now injection Hg.
    - intros pre d0 v0 d1 v1 post E Hlt. rewrite E in Hs, Hg.
      rewrite (gw_variable_between _ _ _ _ _ _ _ Hs Hlt) in Hg. injection Hg as <-. apply lin_interp_time. lia.
  Qed.
End Real.

(* ================================================================================================== *)
(* 4. initialising again                                                                              *)
(* ================================================================================================== *)
Section Again.
  Context {F : Type} {N : NumOps F}.

  Lemma views_as_table (w : list (WRow F)) idx :
    length idx = length w ->
    map (view (0, 1, 2, 3, 4)%nat) (combine idx (map wrow_cells w)) = map (fun wr => (Ok (w_date wr), Ok wr)) w.
  Proof.
    revert idx. induction w as [|wr w IH]; intros [|i idx] H; try discriminate; auto.
    simpl. f_equal; [now destruct wr|]. apply IH. simpl in H. lia.
  Qed.

  Lemma clip_views_all s e (w : list (WRow F)) :
    Forall (fun wr => in_window s e (w_date wr) = true) w ->
    clip_views s e (map (fun wr => (Ok (w_date wr), Ok wr)) w) = Ok (map Ok w).
  Proof. induction 1 as [|wr w H _ IH]; simpl; auto. rewrite IH. simpl. now rewrite H. Qed.

  Lemma mapr_id_ok (w : list (WRow F)) : mapr (fun x => x) (map Ok w) = Ok w.
  Proof. induction w; simpl; auto. now rewrite IHw. Qed.

  (* the matrix of a successful binding, fed back as a table, binds to itself as soon as its first row is
     dated on or before the start and its last row on or after the end (true for gap-free tables) *)
  Theorem bind_as_table s e (w0 : WRow F) w :
    w_date w0 <= s -> e <= w_date (last (w0 :: w) w0) ->
    Forall (fun wr => in_window s e (w_date wr) = true) (w0 :: w) ->
    bind_weather s e (as_table (w0 :: w)) = Ok (w0 :: w).
  Proof.
    intros Hs He Hin. rewrite bind_weather_views.
    change (positions (t_cols (as_table (w0 :: w)))) with (@Ok (nat * nat * nat * nat * nat) (0, 1, 2, 3, 4)%nat).
    cbn [bindr]. unfold as_table. cbn [t_rows].
    rewrite views_as_table by now rewrite map_length, seq_length.
    rewrite bind_views_cons. cbn [fst bindr].
    destruct (s <? w_date w0) eqn:E1; [apply Z.ltb_lt in E1; lia|].
    destruct (w_date (last (w0 :: w) w0) <? e) eqn:E2; [apply Z.ltb_lt in E2; lia|].
    rewrite clip_views_all by exact Hin. cbn [bindr]. apply mapr_id_ok.
  Qed.

  (* every row of a successful binding is dated inside the window *)
  Theorem bind_dates_in_window s e (t : Table F) w :
    bind_weather s e t = Ok w -> Forall (fun wr => in_window s e (w_date wr) = true) w.
  Proof.
    intros H. apply bind_ok_spec in H as (H & _). apply Forall_forall. intros wr Hin.
    apply In_nth_error in Hin as (k & Hk).
    pose proof (mapr_length _ _ _ H) as Hl.
    destruct (nth_error (window_rows s e t) k) as [r|] eqn:Er.
    - destruct (mapr_nth _ _ _ _ _ H Er) as (wr' & Hk' & Hw). rewrite Hk in Hk'. injection Hk' as <-.
      apply wrow_of_date in Hw. apply nth_error_In in Er. unfold window_rows in Er. apply filter_In in Er as [_ Er].
      now rewrite Hw in Er.
    - apply nth_error_None in Er. assert (k < length w)%nat by (apply nth_error_Some; congruence). lia.
  Qed.

  (* init_idempotent for the weather write-back, by-date tables *)
  Corollary init_idempotent_weather s e (t : Table F) w0 w :
    bind_weather s e t = Ok (w0 :: w) -> w_date w0 = s -> w_date (last (w0 :: w) w0) = e ->
    bind_weather s e (as_table (w0 :: w)) = Ok (w0 :: w).
  Proof.
    intros H Hs He. apply bind_as_table; try lia. eapply bind_dates_in_window; eauto.
  Qed.
End Again.

(* ================================================================================================== *)
(* examples: the hypotheses are satisfiable; what happens with gaps                                   *)
(* ================================================================================================== *)
Section Examples.
  Local Open Scope R_scope.
  Let row (i d : Z) (x : R) : Z * list (Cell R) :=
    (i, [VNum 7; VNum (x + 3); VDate d; VNum x; VNum (x + 4); VNum (x + 2)]).
  Let cols := [COther 7; CPrecip; CDate; CMinTemp; CRefET; CMaxTemp].
  Let t_ok : Table R := {| t_cols := cols; t_rows := [row 5 9 0; row 5 10 10; row 8 11 20; row 1 12 30] |}.
  Let t_gap : Table R := {| t_cols := cols; t_rows := [row 5 9 0; row 8 11 20; row 1 12 30] |}.

  Example bind_ok_example :
    bind_weather 10 11 t_ok = Ok [ {| w_tmin := 10; w_tmax := 10 + 2; w_prec := 10 + 3; w_et0 := 10 + 4; w_date := 10%Z |};
                                   {| w_tmin := 20; w_tmax := 20 + 2; w_prec := 20 + 3; w_et0 := 20 + 4; w_date := 11%Z |} ].
  Proof. reflexivity. Qed.

  Example bind_by_date_hyp : window_dates 10 11 t_ok = map Some (span 10 11) /\ well_shaped t_ok.
  Proof. split; [reflexivity|]. repeat constructor. Qed.

  Example bind_perm_hyp : Permutation [3; 0; 5; 1; 4; 2]%nat (seq 0 (length (t_cols t_ok))).
  Proof.
    simpl. apply NoDup_Permutation_bis; [repeat constructor; simpl; intuition lia|simpl; lia|].
    intros x Hx. simpl in *. intuition lia.
  Qed.

  (* a table with a missing day passes both checks; step 0 (day 10) silently gets the weather of day 11,
     the matrix is shorter than the window (IndexError on the last step), and a SECOND initialisation of the
     same model object raises ValueError (the clipped table starts after the start date) *)
  Example bind_gap_wrong_day :
    exists w wr, bind_weather 10 11 t_gap = Ok w /\ weather_at w 0 = Some wr /\ w_date wr = 11%Z /\ length w = 1%nat.
  Proof. eexists. eexists. repeat split; reflexivity. Qed.

  Example init_idempotent_refuted :
    exists t', clip_table 10 11 t_gap = Ok t' /\ bind_weather 10 11 t' = Err EStart.
  Proof. eexists. split; reflexivity. Qed.

  Example init_idempotent_weather_example :
    exists w0 w, bind_weather 10 11 t_ok = Ok (w0 :: w) /\ w_date w0 = 10%Z /\ w_date (last (w0 :: w) w0) = 11%Z.
  Proof. eexists. eexists. repeat split; reflexivity. Qed.

  Example schedule_example :
    schedule_reindex 10 13 [(12%Z, 25); (40%Z, 5); (10%Z, 7)] = Ok [7; 0; 25; 0] /\
    schedule_reindex 10 13 [(12%Z, 25); (40%Z, 5); (40%Z, 7)] = Err EDupLabel.
  Proof. split; reflexivity. Qed.

  (* unsorted observations with a repeated date, one before and one after the window 3..5 *)
  Example gw_obs_sorted_example :
    obs_sorted [(9%Z, 2); (1%Z, 1); (9%Z, 3)] = [(1%Z, 1); (9%Z, 3)].
  Proof. reflexivity. Qed.

  Example gw_variable_between_hyp :
    StronglySorted (fun p q : Z * R => (fst p < fst q)%Z) ([] ++ (1%Z, 1) :: (9%Z, 3) :: []) /\ (1 < 4 < 9)%Z.
  Proof. split; [|lia]. repeat constructor; simpl; lia. Qed.

  (* day 4 of that example: 1 + (3-1)*(4-1)/(9-1) *)
  Example gw_variable_example :
    gw_time_interp (obs_sorted [(9%Z, 2); (1%Z, 1); (9%Z, 3)]) 4 = Some (1 + (3 - 1) * (IZR (4 - 1) / IZR (9 - 1))).
  Proof.
    rewrite gw_obs_sorted_example.
    rewrite (gw_variable_between [] 1 1 9 3 [] 4 (proj1 gw_variable_between_hyp) (proj2 gw_variable_between_hyp)).
    now rewrite lin_interp_time by lia.
  Qed.

  Example gw_range_hyp : Forall (fun p : Z * R => 1 <= snd p <= 2) [(2%Z, 1); (4%Z, 2)].
  Proof. repeat constructor; simpl; lra. Qed.

End Examples.
