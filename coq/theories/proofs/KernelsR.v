(* KernelsR.v — lemmas about Kernels.v at the real instance (exact arithmetic). *)
From AC Require Import Num RInst Kernels.
Local Open Scope R_scope.

Ltac kunfold := unfold pmin, pmax, npmin, npmax, clip01 in *; rnum.

(* ---------------------------------------------------------------- growing degree days *)
Definition gdd_ok (method : Z) := (method = 1 \/ method = 2 \/ method = 3)%Z.

Lemma gdd_defined method Tupp Tbase tmax tmin :
  gdd_ok method -> exists g, growing_degree_day method Tupp Tbase tmax tmin = Some g.
Proof. intros [H|[H|H]]; subst; cbn; eexists; reflexivity. Qed.

Lemma gdd_range method Tupp Tbase tmax tmin g :
  Tbase <= Tupp ->
  growing_degree_day method Tupp Tbase tmax tmin = Some g -> 0 <= g <= Tupp - Tbase.
Proof.
  intros Hb. unfold growing_degree_day.
  destruct (method =? 1)%Z; [|destruct (method =? 2)%Z; [|destruct (method =? 3)%Z]];
    intros H; inversion H; subst; clear H; kunfold; rcases; lra.
Qed.

Lemma gdd_monotone method Tupp Tbase tmax tmin tmax' tmin' g g' :
  Tbase <= Tupp -> tmax <= tmax' -> tmin <= tmin' ->
  growing_degree_day method Tupp Tbase tmax tmin = Some g ->
  growing_degree_day method Tupp Tbase tmax' tmin' = Some g' -> g <= g'.
Proof.
  intros Hb H1 H2. unfold growing_degree_day.
  destruct (method =? 1)%Z; [|destruct (method =? 2)%Z; [|destruct (method =? 3)%Z]];
    intros H H'; inversion H; inversion H'; subst; clear H H'; kunfold; rcases; lra.
Qed.

(* ---------------------------------------------------------------- water stress *)
Lemma frac_range a b : 0 <= a <= b -> 0 < b -> 0 <= a / b <= 1.
Proof.
  intros [Ha Hab] Hb. split.
  - apply Rmult_le_pos; [exact Ha | left; apply Rinv_0_lt_compat; exact Hb].
  - apply (Rmult_le_reg_r b); [exact Hb|]. unfold Rdiv. rewrite Rmult_assoc, Rinv_l; lra.
Qed.

Lemma div_lt_iff a b c : 0 < b -> (a / b < c <-> a < c * b).
Proof.
  intros Hb; split; intros H.
  - apply (Rmult_lt_compat_r b) in H; [|exact Hb]. unfold Rdiv in H. rewrite Rmult_assoc, Rinv_l, Rmult_1_r in H; lra.
  - apply (Rmult_lt_reg_r b); [exact Hb|]. unfold Rdiv. rewrite Rmult_assoc, Rinv_l, Rmult_1_r; lra.
Qed.
Lemma div_gt_iff a b c : 0 < b -> (c < a / b <-> c * b < a).
Proof.
  intros Hb; split; intros H.
  - apply (Rmult_lt_compat_r b) in H; [|exact Hb]. unfold Rdiv in H. rewrite Rmult_assoc, Rinv_l, Rmult_1_r in H; lra.
  - apply (Rmult_lt_reg_r b); [exact Hb|]. unfold Rdiv. rewrite Rmult_assoc, Rinv_l, Rmult_1_r; lra.
Qed.
Lemma div_le_mono a b c : 0 < c -> a <= b -> a / c <= b / c.
Proof. intros Hc H. apply Rmult_le_compat_r; [left; apply Rinv_0_lt_compat; exact Hc | exact H]. Qed.
Lemma div_le_anti a b c : c < 0 -> a <= b -> b / c <= a / c.
Proof.
  intros Hc H. unfold Rdiv. apply Rmult_le_compat_neg_l with (r := / c) in H.
  - lra.
  - left. apply Rinv_lt_0_compat. exact Hc.
Qed.

Lemma ws_drel_range pu pl Dr taw : 0 < taw -> 0 <= ws_drel pu pl Dr taw <= 1.
Proof.
  intros Ht. unfold ws_drel. rnum. rcases; cbn [andb]; try lra.
  assert (H1 : pu < Dr / taw) by (apply div_gt_iff; lra).
  assert (H2 : Dr / taw < pl) by (apply div_lt_iff; lra).
  pose proof (frac_range (pl - Dr / taw) (pl - pu)) as H. lra.
Qed.

Lemma ws_drel_mono pu pl Dr Dr' taw : 0 < taw -> Dr <= Dr' -> ws_drel pu pl Dr taw <= ws_drel pu pl Dr' taw.
Proof.
  intros Ht Hd.
  pose proof (ws_drel_range pu pl Dr taw Ht) as R1. pose proof (ws_drel_range pu pl Dr' taw Ht) as R2.
  revert R1 R2. unfold ws_drel. rnum. rcases; cbn [andb]; intros R1 R2; try lra.
  assert (H1 : pu < Dr / taw) by (apply div_gt_iff; lra).
  assert (H2 : Dr' / taw < pl) by (apply div_lt_iff; lra).
  assert (H3 : Dr / taw <= Dr' / taw) by (apply div_le_mono; lra).
  assert (H4 : (pl - Dr' / taw) / (pl - pu) <= (pl - Dr / taw) / (pl - pu)) by (apply div_le_mono; lra).
  lra.
Qed.

(* the convex shape function x |-> (e^{xf}-1)/(e^f-1) *)
Definition shape (f x : R) : R := (exp (x * f) - 1) / (exp f - 1).

Lemma shape_mono f x y : f <> 0 -> x <= y -> shape f x <= shape f y.
Proof.
  intros Hf Hxy. unfold shape. destruct (Rlt_dec 0 f) as [Hp|Hn].
  - apply div_le_mono; [pose proof (exp_gt_1 f Hp); lra|].
    assert (exp (x * f) <= exp (y * f)) by (apply exp_mono; nra). lra.
  - assert (Hneg : f < 0) by lra.
    apply div_le_anti; [pose proof (exp_lt_1 f Hneg); lra|].
    assert (exp (y * f) <= exp (x * f)) by (apply exp_mono; nra). lra.
Qed.
Lemma shape_0 f : f <> 0 -> shape f 0 = 0.
Proof. intros Hf; unfold shape. rewrite Rmult_0_l, exp_0. unfold Rdiv. ring. Qed.
Lemma shape_1 f : f <> 0 -> shape f 1 = 1.
Proof.
  intros Hf; unfold shape. rewrite Rmult_1_l. apply Rinv_r.
  destruct (Rlt_dec 0 f) as [Hp|Hn]; [pose proof (exp_gt_1 f Hp); lra|].
  assert (Hneg : f < 0) by lra. pose proof (exp_lt_1 f Hneg); lra.
Qed.
Lemma shape_range f x : f <> 0 -> 0 <= x <= 1 -> 0 <= shape f x <= 1.
Proof.
  intros Hf [H0 H1]. pose proof (shape_mono f 0 x Hf H0) as A. pose proof (shape_mono f x 1 Hf H1) as B.
  rewrite shape_0 in A by exact Hf. rewrite shape_1 in B by exact Hf. lra.
Qed.

Lemma ws_ks_shape d f : ws_ks d f = 1 - shape f d.
Proof. reflexivity. Qed.

Lemma ws_ks_range d f : f <> 0 -> 0 <= d <= 1 -> 0 <= ws_ks d f <= 1.
Proof. intros Hf Hd. rewrite ws_ks_shape. pose proof (shape_range f d Hf Hd). lra. Qed.
Lemma ws_ks_anti d d' f : f <> 0 -> d <= d' -> ws_ks d' f <= ws_ks d f.
Proof. intros Hf Hd. rewrite !ws_ks_shape. pose proof (shape_mono f d d' Hf Hd). lra. Qed.

Definition ksw_in01 (k : Ksw) : Prop :=
  0 <= Ksw_Exp k <= 1 /\ 0 <= Ksw_Sto k <= 1 /\ 0 <= Ksw_Sen k <= 1 /\ 0 <= Ksw_Pol k <= 1 /\ 0 <= Ksw_StoLin k <= 1.
Definition ksw_le (k k' : Ksw) : Prop :=
  Ksw_Exp k <= Ksw_Exp k' /\ Ksw_Sto k <= Ksw_Sto k' /\ Ksw_Sen k <= Ksw_Sen k' /\ Ksw_Pol k <= Ksw_Pol k' /\ Ksw_StoLin k <= Ksw_StoLin k'.

Lemma water_stress_range pu0 pu1 pu2 pu3 pl0 pl1 pl2 pl3 etadj cb fs0 fs1 fs2 beta_on Dr taw et0 :
  0 < taw -> fs0 <> 0 -> fs1 <> 0 -> fs2 <> 0 ->
  ksw_in01 (water_stress pu0 pu1 pu2 pu3 pl0 pl1 pl2 pl3 etadj cb fs0 fs1 fs2 beta_on Dr taw et0).
Proof.
  intros Ht H0 H1 H2. unfold water_stress, ksw_in01. cbn [Ksw_Exp Ksw_Sto Ksw_Sen Ksw_Pol Ksw_StoLin].
  repeat split; try (apply ws_ks_range; [assumption | apply ws_drel_range; assumption]);
  match goal with |- context [ws_drel ?a ?b ?c ?d] => pose proof (ws_drel_range a b c d Ht); rnum; lra end.
Qed.

Lemma water_stress_antitone pu0 pu1 pu2 pu3 pl0 pl1 pl2 pl3 etadj cb fs0 fs1 fs2 beta_on Dr Dr' taw et0 :
  0 < taw -> fs0 <> 0 -> fs1 <> 0 -> fs2 <> 0 -> Dr <= Dr' ->
  ksw_le (water_stress pu0 pu1 pu2 pu3 pl0 pl1 pl2 pl3 etadj cb fs0 fs1 fs2 beta_on Dr' taw et0)
         (water_stress pu0 pu1 pu2 pu3 pl0 pl1 pl2 pl3 etadj cb fs0 fs1 fs2 beta_on Dr taw et0).
Proof.
  intros Ht H0 H1 H2 Hd. unfold water_stress, ksw_le. cbn [Ksw_Exp Ksw_Sto Ksw_Sen Ksw_Pol Ksw_StoLin].
  repeat split; try (apply ws_ks_anti; [assumption | apply ws_drel_mono; assumption]);
  match goal with |- context [ws_drel ?a ?b Dr' ?d] => pose proof (ws_drel_mono a b Dr Dr' d Ht Hd); rnum; lra end.
Qed.

(* definedness of the ET0 adjustment: log10 is applied to 10 - 9p, positive when p <= 1 *)
Lemma ws_adj_defined p : p <= 1 -> 0 < 10 - 9 * p.
Proof. intros; lra. Qed.

(* ---------------------------------------------------------------- temperature stress *)
Lemma ks_logistic_eq b t : ks_logistic b t = (1 * (1/1000)) / (1/1000 + (1 - 1/1000) * exp (- b * (1 - t))).
Proof. reflexivity. Qed.

Lemma ks_logistic_range b t : 0 <= ks_logistic b t <= 1.
Proof.
  rewrite ks_logistic_eq. pose proof (exp_pos (- b * (1 - t))) as He.
  apply frac_range; nra.
Qed.

Lemma ks_logistic_anti b t t' : 0 <= b -> t <= t' -> ks_logistic b t' <= ks_logistic b t.
Proof.
  intros Hb Ht. rewrite !ks_logistic_eq.
  pose proof (exp_pos (- b * (1 - t))) as He. pose proof (exp_pos (- b * (1 - t'))) as He'.
  assert (Hm : exp (- b * (1 - t)) <= exp (- b * (1 - t'))) by (apply exp_mono; nra).
  unfold Rdiv at 1 3. apply Rmult_le_compat_l; [lra|].
  apply Rinv_le_contravar; nra.
Qed.

Lemma kst_heat_range flag lo up b tmax k : kst_heat flag lo up b tmax = Some k -> 0 <= k <= 1.
Proof.
  unfold kst_heat. destruct (flag =? 0)%Z; [|destruct (flag =? 1)%Z]; rnum; [| |discriminate].
  - intros H; inversion H; lra.
  - rcases; intros [= <-]; rewrite <- ?ks_logistic_eq; try lra. apply ks_logistic_range.
Qed.

Lemma kst_cold_range flag lo up b tmin k : kst_cold flag lo up b tmin = Some k -> 0 <= k <= 1.
Proof.
  unfold kst_cold. destruct (flag =? 0)%Z; [|destruct (flag =? 1)%Z]; rnum; [| |discriminate].
  - intros H; inversion H; lra.
  - rcases; intros [= <-]; rewrite <- ?ks_logistic_eq; try lra. apply ks_logistic_range.
Qed.

Lemma kst_heat_antitone flag lo up b tmax tmax' k k' : 0 <= b -> tmax <= tmax' ->
  kst_heat flag lo up b tmax = Some k -> kst_heat flag lo up b tmax' = Some k' -> k' <= k.
Proof.
  intros Hb Ht. unfold kst_heat. destruct (flag =? 0)%Z; [|destruct (flag =? 1)%Z]; rnum; [| |discriminate].
  - intros H H'; inversion H; inversion H'; lra.
  - rcases; intros [= <-] [= <-]; rewrite <- ?ks_logistic_eq; try lra;
      try (pose proof (ks_logistic_range b ((tmax - lo) / (up - lo))); lra);
      try (pose proof (ks_logistic_range b ((tmax' - lo) / (up - lo))); lra).
    apply ks_logistic_anti; [exact Hb|]. apply div_le_mono; lra.
Qed.

Lemma kst_cold_monotone flag lo up b tmin tmin' k k' : 0 <= b -> tmin <= tmin' ->
  kst_cold flag lo up b tmin = Some k -> kst_cold flag lo up b tmin' = Some k' -> k <= k'.
Proof.
  intros Hb Ht. unfold kst_cold. destruct (flag =? 0)%Z; [|destruct (flag =? 1)%Z]; rnum; [| |discriminate].
  - intros H H'; inversion H; inversion H'; lra.
  - rcases; intros [= <-] [= <-]; rewrite <- ?ks_logistic_eq; try lra;
      try (pose proof (ks_logistic_range b ((up - tmin) / (up - lo))); lra);
      try (pose proof (ks_logistic_range b ((up - tmin') / (up - lo))); lra).
    apply ks_logistic_anti; [exact Hb|]. apply div_le_mono; lra.
Qed.

Lemma kst_defined flag lo up b t : (flag = 0 \/ flag = 1)%Z ->
  (exists k, kst_heat flag lo up b t = Some k) /\ (exists k, kst_cold flag lo up b t = Some k).
Proof.
  intros [H|H]; subst; unfold kst_heat, kst_cold; cbn [Z.eqb Pos.eqb]; split;
    try (eexists; reflexivity); rnum; rcases; eexists; reflexivity.
Qed.

(* ---------------------------------------------------------------- canopy curves *)
Lemma cc_clamp01_mono a b : a <= b -> cc_clamp01 a <= cc_clamp01 b.
Proof. intros H. unfold cc_clamp01. rnum. rcases; lra. Qed.
Lemma cc_clamp01_range a : 0 <= cc_clamp01 a <= 1.
Proof. unfold cc_clamp01. rnum. rcases; lra. Qed.
Lemma cc_clamp01_id a : 0 <= a <= 1 -> cc_clamp01 a = a.
Proof. intros H. unfold cc_clamp01. rnum. rcases; lra. Qed.
Lemma cc_clamp01_le a c : a <= c -> 0 <= c -> cc_clamp01 a <= c.
Proof. intros H Hc. unfold cc_clamp01. rnum. rcases; lra. Qed.

(* the uncapped growth curve, with E = e^{CGC t} and IE = e^{-CGC t} abstracted *)
Definition cc_raw (CCo CCx E IE : R) : R :=
  if Rltb (CCx / 2) (CCo * E) then CCx - 25/100 * (CCx / CCo) * CCx * IE else CCo * E.

Lemma cc_growth_raw CCo CCx CGC dt :
  cc_growth CCo CCx CGC dt =
  cc_clamp01 (let r := cc_raw CCo CCx (exp (CGC * dt)) (exp (- CGC * dt)) in if Rltb CCx r then CCx else r).
Proof. reflexivity. Qed.

Lemma exp_inv_pair c t : exp (- c * t) * exp (c * t) = 1.
Proof. rewrite <- exp_plus. replace (- c * t + c * t) with 0 by ring. apply exp_0. Qed.

Lemma cc_raw_lower CCo CCx E IE : 0 < CCo -> 0 <= CCx -> 0 < E -> IE * E = 1 ->
  Rltb (CCx / 2) (CCo * E) = true -> CCx / 2 <= CCx - 25/100 * (CCx / CCo) * CCx * IE.
Proof.
  intros Ho Hx HE HI Hc. destruct (Rltb_spec (CCx / 2) (CCo * E)) as [Hlt|]; [|discriminate].
  assert (HIE : 0 < IE) by nra.
  assert (Hq : CCx / CCo * CCo = CCx) by (field; lra).
  set (q := CCx / CCo) in *. assert (0 <= q) by (unfold q; apply Rmult_le_pos; [lra | left; apply Rinv_0_lt_compat; lra]).
  (* q*CCx*IE <= 2*CCx  since CCx = q*CCo <= 2 q CCo ... use CCx < 2 CCo E *)
  assert (q * IE <= 2).
  { assert (q * IE * (CCo * E) <= 2 * (CCo * E)); [|nra].
    replace (q * IE * (CCo * E)) with ((q * CCo) * (IE * E)) by ring. rewrite Hq, HI. lra. }
  nra.
Qed.

Lemma cc_raw_nonneg CCo CCx E IE : 0 < CCo -> 0 <= CCx -> 0 < E -> IE * E = 1 -> 0 <= cc_raw CCo CCx E IE.
Proof.
  intros Ho Hx HE HI. unfold cc_raw. destruct (Rltb (CCx / 2) (CCo * E)) eqn:Hc.
  - pose proof (cc_raw_lower CCo CCx E IE Ho Hx HE HI Hc). lra.
  - nra.
Qed.

Lemma cc_raw_mono CCo CCx E IE E' IE' : 0 < CCo -> 0 <= CCx -> 0 < E -> IE * E = 1 -> IE' * E' = 1 -> E <= E' ->
  cc_raw CCo CCx E IE <= cc_raw CCo CCx E' IE'.
Proof.
  intros Ho Hx HE HI HI' HEE. assert (HE' : 0 < E') by lra.
  unfold cc_raw. destruct (Rltb (CCx / 2) (CCo * E)) eqn:Hc; destruct (Rltb (CCx / 2) (CCo * E')) eqn:Hc'.
  - assert (IE' <= IE).
    { assert (0 < IE) by nra. assert (0 < IE') by nra.
      assert (IE' * (E * IE) <= IE * (E' * IE')); [|nra].
      replace (E * IE) with 1 by lra. replace (E' * IE') with 1 by lra.
      (* IE' <= IE  <->  E <= E' *) 
      assert (IE' * E <= IE' * E') by nra. nra. }
    assert (0 <= 25 / 100 * (CCx / CCo) * CCx).
    { apply Rmult_le_pos; [|lra]. apply Rmult_le_pos; [lra|]. apply Rmult_le_pos; [lra | left; apply Rinv_0_lt_compat; lra]. }
    nra.
  - destruct (Rltb_spec (CCx / 2) (CCo * E)); [|discriminate]. destruct (Rltb_spec (CCx / 2) (CCo * E')); [discriminate|]. nra.
  - pose proof (cc_raw_lower CCo CCx E' IE' Ho Hx HE' HI' Hc'). destruct (Rltb_spec (CCx / 2) (CCo * E)); [discriminate|]. lra.
  - nra.
Qed.

Lemma cc_growth_range CCo CCx CGC dt : 0 < CCo -> 0 <= CCx -> 0 <= cc_growth CCo CCx CGC dt <= CCx.
Proof.
  intros Ho Hx. rewrite cc_growth_raw. cbv zeta.
  pose proof (cc_raw_nonneg CCo CCx _ _ Ho Hx (exp_pos (CGC * dt)) (exp_inv_pair CGC dt)) as Hr.
  set (r := cc_raw _ _ _ _) in *. split; [apply cc_clamp01_range|].
  apply cc_clamp01_le; [|exact Hx]. destruct (Rltb_spec CCx r); lra.
Qed.

Lemma cc_growth_monotone CCo CCx CGC dt dt' : 0 < CCo -> 0 <= CCx -> 0 <= CGC -> dt <= dt' ->
  cc_growth CCo CCx CGC dt <= cc_growth CCo CCx CGC dt'.
Proof.
  intros Ho Hx Hg Hd. rewrite !cc_growth_raw. cbv zeta. apply cc_clamp01_mono.
  assert (HE : exp (CGC * dt) <= exp (CGC * dt')) by (apply exp_mono; nra).
  pose proof (cc_raw_mono CCo CCx _ _ _ _ Ho Hx (exp_pos (CGC * dt)) (exp_inv_pair CGC dt) (exp_inv_pair CGC dt') HE) as Hm.
  set (r := cc_raw _ _ (exp (CGC * dt)) _) in *. set (r' := cc_raw _ _ (exp (CGC * dt')) _) in *.
  destruct (Rltb_spec CCx r); destruct (Rltb_spec CCx r'); lra.
Qed.

(* decline curve *)
Lemma cc_decline_eq CCx CDC dt CCx0 :
  cc_decline CCx CDC dt CCx0 =
  cc_clamp01 (if Rltb CCx (1/1000) then 0
              else CCx * (1 - 5/100 * (exp (dt * CDC * (333/100) * ((CCx + 229/100) / (CCx0 + 229/100)) / (CCx + 229/100)) - 1))).
Proof. reflexivity. Qed.

Lemma cc_decline_range CCx CDC dt CCx0 : 0 <= CCx -> 0 <= CCx0 -> 0 <= CDC -> 0 <= dt ->
  0 <= cc_decline CCx CDC dt CCx0 <= CCx.
Proof.
  intros Hx Hx0 Hc Hd. rewrite cc_decline_eq. split; [apply cc_clamp01_range|].
  apply cc_clamp01_le; [|exact Hx]. destruct (Rltb_spec CCx (1/1000)); [lra|].
  set (e := dt * CDC * (333/100) * ((CCx + 229/100) / (CCx0 + 229/100)) / (CCx + 229/100)).
  assert (0 <= e).
  { unfold e. apply Rmult_le_pos; [|left; apply Rinv_0_lt_compat; lra].
    apply Rmult_le_pos; [nra|]. apply Rmult_le_pos; [lra | left; apply Rinv_0_lt_compat; lra]. }
  pose proof (exp_ge_1 e H). nra.
Qed.

Lemma cc_decline_antitone CCx CDC dt dt' CCx0 : 0 <= CCx -> 0 <= CCx0 -> 0 <= CDC -> dt <= dt' ->
  cc_decline CCx CDC dt' CCx0 <= cc_decline CCx CDC dt CCx0.
Proof.
  intros Hx Hx0 Hc Hd. rewrite !cc_decline_eq. apply cc_clamp01_mono.
  destruct (Rltb_spec CCx (1/1000)); [lra|].
  set (k := (CCx + 229/100) / (CCx0 + 229/100)).
  assert (Hk : 0 <= k) by (unfold k; apply Rmult_le_pos; [lra | left; apply Rinv_0_lt_compat; lra]).
  assert (Hi : 0 < / (CCx + 229/100)) by (apply Rinv_0_lt_compat; lra).
  assert (He : exp (dt * CDC * (333/100) * k / (CCx + 229/100)) <= exp (dt' * CDC * (333/100) * k / (CCx + 229/100))).
  { apply exp_mono. unfold Rdiv. apply Rmult_le_compat_r; [lra|]. apply Rmult_le_compat_r; [lra|]. nra. }
  nra.
Qed.

(* ---------------------------------------------------------------- cc_required_time inverts the growth curve *)
Lemma cc_required_time_inverts cc CCo CCx CGC : 0 < CCo -> CCo < cc -> cc < CCx -> CCx <= 1 -> 0 < CGC ->
  cc_growth CCo CCx CGC (cc_required_time_cgc cc CCo CCx CGC) = cc.
Proof.
  intros Ho Hlo Hhi Hx1 Hg. rewrite cc_growth_raw. cbv zeta. unfold cc_required_time_cgc. rnum.
  set (x := if Rleb cc (CCx / 2) then _ else _).
  assert (HE : exp (CGC * (x / CGC)) = exp x) by (f_equal; field; lra).
  assert (HIE : exp (- CGC * (x / CGC)) = / exp x).
  { rewrite <- exp_Ropp. f_equal. field; lra. }
  rewrite HE, HIE. unfold cc_raw.
  assert (Hend : forall r, r = cc -> cc_clamp01 (if Rltb CCx r then CCx else r) = cc).
  { intros r ->. destruct (Rltb_spec CCx cc); [lra|]. apply cc_clamp01_id. lra. }
  apply Hend. unfold x. destruct (Rleb_spec cc (CCx / 2)) as [Hle|Hgt].
  - rewrite exp_ln by (apply Rdiv_lt_0_compat; lra).
    replace (CCo * (cc / CCo)) with cc by (field; lra).
    destruct (Rltb_spec (CCx / 2) cc); [lra | reflexivity].
  - assert (Hpos : 0 < 25 / 100 * CCx * CCx / CCo / (CCx - cc)).
    { apply Rdiv_lt_0_compat; [|lra]. apply Rdiv_lt_0_compat; [nra|lra]. }
    rewrite exp_ln by exact Hpos.
    assert (Hv : CCo * (25 / 100 * CCx * CCx / CCo / (CCx - cc)) = 25/100 * CCx * CCx / (CCx - cc)) by (field; lra).
    rewrite Hv.
    assert (CCx / 2 < 25/100 * CCx * CCx / (CCx - cc)).
    { apply div_gt_iff; [lra|]. nra. }
    destruct (Rltb_spec (CCx / 2) (25 / 100 * CCx * CCx / (CCx - cc))); [|lra].
    field. repeat split; try lra; nra.
Qed.

(* ---------------------------------------------------------------- CO2 productivity factor *)
Record fco2_params_ok (ref bsted bface fsink : R) : Prop := {
  fp_ref : 0 < ref < 550;
  fp_bsted : 0 <= bsted;
  fp_fsink : 0 <= fsink <= 1;
  fp_B : bsted <= bsted * fsink + bface * (1 - fsink);
  fp_ref_b : ref * bsted < 1;
  fp_margin : (bsted * fsink + bface * (1 - fsink) - bsted) * (550 + ref) <= 1 - ref * bsted }.

Lemma fco2_weight_mid c ref : ref < 550 -> ref <= c <= 550 -> fco2_weight c ref = (c - ref) / (550 - ref).
Proof.
  intros Hr [H1 H2]. unfold fco2_weight. rnum. rcases.
  - assert (c = ref) by lra. subst. unfold Rdiv. ring.
  - assert (c = 550) by lra. subst. field. lra.
  - field. lra.
Qed.

Lemma fco2_at_ref ref bsted bface fsink WP : ref <> 0 -> fco2 ref ref bsted bface fsink WP = 1.
Proof.
  intros Hr. unfold fco2, fco2_select, fco2_old, fco2_weight. rnum.
  destruct (Rleb_spec ref ref); [|lra].
  replace (ref / ref / (1 + (ref - ref) * ((1 - 0) * bsted + 0 * (bsted * fsink + bface * (1 - fsink))))) with 1 by (field; lra).
  ring.
Qed.

Section FCO2.
  Variables ref bsted bface fsink : R.
  Hypothesis OK : fco2_params_ok ref bsted bface fsink.
  Let B := bsted * fsink + bface * (1 - fsink).
  Let old c := fco2_old c ref bsted bface fsink.
  Let new c := fco2_new c ref fsink.
  Let sel c := fco2_select c ref bsted bface fsink.

  Lemma old_low c : c <= ref -> old c = (c / ref) / (1 + (c - ref) * bsted).
  Proof.
    intros H. unfold old, fco2_old, fco2_weight. rnum. destruct (Rleb_spec c ref); [|lra].
    f_equal. ring.
  Qed.

  Lemma old_low_mono c1 c2 : 0 < c1 -> c1 <= c2 -> c2 <= ref -> old c1 <= old c2.
  Proof.
    destruct OK as [[Hr0 Hr] Hb _ _ Hrb _]. intros H0 H12 H2.
    rewrite !old_low by lra.
    assert (D1 : 0 < 1 + (c1 - ref) * bsted) by nra.
    assert (D2 : 0 < 1 + (c2 - ref) * bsted) by nra.
    apply (Rmult_le_reg_r ((1 + (c1 - ref) * bsted) * (1 + (c2 - ref) * bsted))); [nra|].
    replace (c1 / ref / (1 + (c1 - ref) * bsted) * ((1 + (c1 - ref) * bsted) * (1 + (c2 - ref) * bsted)))
      with (c1 / ref * (1 + (c2 - ref) * bsted)) by (field; lra).
    replace (c2 / ref / (1 + (c2 - ref) * bsted) * ((1 + (c1 - ref) * bsted) * (1 + (c2 - ref) * bsted)))
      with (c2 / ref * (1 + (c1 - ref) * bsted)) by (field; lra).
    apply (Rmult_le_reg_r ref); [lra|].
    replace (c1 / ref * (1 + (c2 - ref) * bsted) * ref) with (c1 * (1 + (c2 - ref) * bsted)) by (field; lra).
    replace (c2 / ref * (1 + (c1 - ref) * bsted) * ref) with (c2 * (1 + (c1 - ref) * bsted)) by (field; lra).
    nra.
  Qed.

  Lemma old_mid c : ref <= c <= 550 ->
    old c = (c / ref) / (1 + bsted * (c - ref) + ((B - bsted) / (550 - ref)) * ((c - ref) * (c - ref))).
  Proof.
    destruct OK as [[Hr0 Hr] _ _ _ _ _]. intros H. unfold old, fco2_old. cbv zeta.
    rewrite (fco2_weight_mid c ref Hr H). rnum. f_equal. unfold B. field. lra.
  Qed.

  Lemma old_mid_mono c1 c2 : ref <= c1 -> c1 <= c2 -> c2 <= 550 -> old c1 <= old c2.
  Proof.
    destruct OK as [[Hr0 Hr] Hb Hfs HB Hrb Hm]. fold B in HB, Hm. intros H1 H12 H2.
    rewrite !old_mid by lra.
    set (L := 550 - ref). set (k := (B - bsted) / L). set (x1 := c1 - ref). set (x2 := c2 - ref).
    assert (HL : 0 < L) by (unfold L; lra).
    assert (Hk : 0 <= k) by (unfold k; apply Rmult_le_pos; [lra | left; apply Rinv_0_lt_compat; lra]).
    assert (HkL : k * L = B - bsted) by (unfold k; field; lra).
    assert (Hx1 : 0 <= x1 <= L) by (unfold x1, L; lra). assert (Hx2 : 0 <= x2 <= L) by (unfold x2, L; lra).
    assert (Hx12 : x1 <= x2) by (unfold x1, x2; lra).
    assert (D1 : 0 < 1 + bsted * x1 + k * (x1 * x1)) by nra.
    assert (D2 : 0 < 1 + bsted * x2 + k * (x2 * x2)) by nra.
    replace c1 with (x1 + ref) by (unfold x1; ring). replace c2 with (x2 + ref) by (unfold x2; ring).
    apply (Rmult_le_reg_r ((1 + bsted * x1 + k * (x1 * x1)) * (1 + bsted * x2 + k * (x2 * x2)) * ref));
      [apply Rmult_lt_0_compat; [apply Rmult_lt_0_compat; assumption | lra]|].
    replace ((x1 + ref) / ref / (1 + bsted * x1 + k * (x1 * x1)) * ((1 + bsted * x1 + k * (x1 * x1)) * (1 + bsted * x2 + k * (x2 * x2)) * ref))
      with ((x1 + ref) * (1 + bsted * x2 + k * (x2 * x2))) by (field; lra).
    replace ((x2 + ref) / ref / (1 + bsted * x2 + k * (x2 * x2)) * ((1 + bsted * x1 + k * (x1 * x1)) * (1 + bsted * x2 + k * (x2 * x2)) * ref))
      with ((x2 + ref) * (1 + bsted * x1 + k * (x1 * x1))) by (field; lra).
    (* difference = (x2-x1) * (1 - b ref - k x1 x2 - k ref (x1+x2)) *)
    assert (Hfac : (x2 + ref) * (1 + bsted * x1 + k * (x1 * x1)) - (x1 + ref) * (1 + bsted * x2 + k * (x2 * x2))
                   = (x2 - x1) * (1 - bsted * ref - k * (x1 * x2) - k * ref * (x1 + x2))) by ring.
    assert (Hbound : k * (x1 * x2) + k * ref * (x1 + x2) <= 1 - bsted * ref).
    { assert (k * (x1 * x2) <= k * (L * L)) by (apply Rmult_le_compat_l; [lra | nra]).
      assert (k * ref * (x1 + x2) <= k * ref * (2 * L)) by (apply Rmult_le_compat_l; [nra | lra]).
      assert (k * (L * L) + k * ref * (2 * L) = (B - bsted) * (550 + ref)).
      { rewrite <- HkL. unfold L. ring. }
      lra. }
    assert (0 <= (x2 - x1) * (1 - bsted * ref - k * (x1 * x2) - k * ref * (x1 + x2))) by (apply Rmult_le_pos; lra).
    lra.
  Qed.

  Lemma old_ref : old ref = 1.
  Proof. destruct OK as [[Hr0 Hr] _ _ _ _ _]. rewrite old_low by lra. field. lra. Qed.

  Lemma fshape_neg : - (461824/100000) - 343831/100000 * fsink - 532587/100000 * fsink * fsink < 0.
  Proof. destruct OK as [_ _ [H0 H1] _ _ _]. nra. Qed.

  Lemma new_eq c : new c =
    let fs := - (461824/100000) - 343831/100000 * fsink - 532587/100000 * fsink * fsink in
    if Rleb 2000 c then 158/100 else 1 + 58/100 * shape fs ((c - ref) / (2000 - ref)).
  Proof. reflexivity. Qed.

  Lemma new_mono c1 c2 : ref <= c1 -> c1 <= c2 -> new c1 <= new c2.
  Proof.
    destruct OK as [[Hr0 Hr] _ _ _ _ _]. intros H1 H12. rewrite !new_eq. cbv zeta.
    pose proof fshape_neg as Hf. set (fs := - (461824/100000) - _ - _) in *.
    assert (Hfs : fs <> 0) by lra.
    destruct (Rleb_spec 2000 c1); destruct (Rleb_spec 2000 c2); try lra.
    - assert (0 <= (c1 - ref) / (2000 - ref) <= 1) by (apply frac_range; lra).
      pose proof (shape_range fs _ Hfs H). lra.
    - assert ((c1 - ref) / (2000 - ref) <= (c2 - ref) / (2000 - ref)) by (apply div_le_mono; lra).
      pose proof (shape_mono fs _ _ Hfs H). lra.
  Qed.

  Lemma new_ge_1 c : ref <= c -> 1 <= new c.
  Proof.
    destruct OK as [[Hr0 Hr] _ _ _ _ _]. intros H1. rewrite new_eq. cbv zeta.
    pose proof fshape_neg as Hf. set (fs := - (461824/100000) - _ - _) in *.
    assert (Hfs : fs <> 0) by lra.
    destruct (Rleb_spec 2000 c); [lra|].
    assert (0 <= (c - ref) / (2000 - ref) <= 1) by (apply frac_range; lra).
    pose proof (shape_range fs _ Hfs H). lra.
  Qed.

  Lemma sel_eq c : sel c = if Rleb c ref then old c else if Rleb c 550 && Rltb (old c) (new c) then old c else new c.
  Proof. reflexivity. Qed.

  Lemma sel_mono c1 c2 : 0 < c1 -> c1 <= c2 -> sel c1 <= sel c2.
  Proof.
    destruct OK as [[Hr0 Hr] _ _ _ _ _]. intros H0 H12. rewrite !sel_eq.
    destruct (Rleb_spec c1 ref) as [A1|A1]; destruct (Rleb_spec c2 ref) as [A2|A2]; try lra.
    - apply old_low_mono; lra.
    - pose proof (old_low_mono c1 ref H0 A1 (Rle_refl _)) as M. rewrite old_ref in M.
      pose proof (new_ge_1 c2) as N.
      destruct (Rleb_spec c2 550) as [B2|B2]; cbn [andb].
      + pose proof (old_mid_mono ref c2 (Rle_refl _)) as M2. rewrite old_ref in M2.
        destruct (Rltb_spec (old c2) (new c2)); lra.
      + lra.
    - pose proof (new_mono c1 c2) as N.
      destruct (Rleb_spec c1 550) as [B1|B1]; destruct (Rleb_spec c2 550) as [B2|B2]; cbn [andb]; try lra.
      + pose proof (old_mid_mono c1 c2) as M.
        destruct (Rltb_spec (old c1) (new c1)); destruct (Rltb_spec (old c2) (new c2)); lra.
      + destruct (Rltb_spec (old c1) (new c1)); lra.
  Qed.

  Lemma fco2_ftype_range WP : 0 <= fco2_ftype WP <= 1.
  Proof. unfold fco2_ftype. rnum. rcases; try lra. Qed.

  Lemma fco2_monotone WP c1 c2 : 0 < c1 -> c1 <= c2 ->
    fco2 c1 ref bsted bface fsink WP <= fco2 c2 ref bsted bface fsink WP.
  Proof.
    intros H0 H12. pose proof (sel_mono c1 c2 H0 H12) as S. unfold sel in S.
    pose proof (fco2_ftype_range WP) as T. unfold fco2.
    set (s1 := fco2_select c1 _ _ _ _) in *. set (s2 := fco2_select c2 _ _ _ _) in *. set (ft := fco2_ftype WP) in *.
    rnum. nra.
  Qed.
End FCO2.

(* ---------------------------------------------------------------- aeration stress *)
Lemma aeration_range days lag S Act Aer k d : Aer < S -> Act <= S -> 0 <= days -> days <= 3 -> 
  aeration_stress days lag S Act Aer = Some (k, d) -> 0 <= k <= 1.
Proof.
  intros HS HA Hd0 Hd3. unfold aeration_stress. rnum.
  destruct (Rltb_spec Aer Act) as [Hgt|Hle].
  - assert (Hf : 0 <= (S - Act) / (S - Aer) <= 1) by (apply frac_range; lra).
    destruct (Rltb_spec days lag).
    + intros [= <- _]. nra.
    + destruct (Rleb_spec lag days); [|discriminate]. intros [= <- _]. lra.
  - intros [= <- _]. lra.
Qed.
