(* KernelsSrcOK.v — the definitions of gen/KernelsSrc.v, which harness/gen_kernels.py regenerates from the TEXT of the
   Python functions on every run, are equal to the hand model (Kernels.v, Crop/Canopy.v) for EVERY number type:
   no property of the arithmetic is used, only unfolding, case analysis on the boolean tests and conversion.
   An edit of a Python function that changes its meaning changes the generated definition and breaks a proof here.
   The last part transfers headline facts of proofs/KernelsR.v to the source-generated definitions (over R). *)
From AC Require Import Num Kernels.
From AC.Crop Require Import Canopy.
From AC.gen Require Import KernelsSrc.

(* one boolean test at a time; tests under binders are skipped (zeta-expanded first) *)
Ltac atom c :=
  lazymatch c with
  | (?a && _)%bool => atom a
  | (?a || _)%bool => atom a
  | negb ?a => atom a
  | _ => constr:(c)
  end.
Ltac split_if :=
  match goal with
  | |- context [if ?c then _ else _] => let a := atom c in destruct a eqn:?; cbn [andb orb negb]
  end.
Ltac src_auto := cbv zeta; repeat split_if; try reflexivity.

Definition mode_str (m : cc_mode) : pystr :=
  match m with Growth => Str_Growth | Decline => Str_Decline end.

Section OK.
  Context {F : Type} {N : NumOps F}.
  Local Open Scope num_scope.

  (* ---- growing_degree_day: same parameters, same order; None = UnboundLocalError for a method outside 1..3 *)
  Theorem growing_degree_day_src_ok : forall (GDDmethod : Z) (Tupp Tbase temp_max temp_min : F),
    growing_degree_day_src GDDmethod Tupp Tbase temp_max temp_min
    = growing_degree_day GDDmethod Tupp Tbase temp_max temp_min.
  Proof. intros. unfold growing_degree_day_src, growing_degree_day. src_auto. Qed.

  (* ---- cc_development: the hand model has a two-constructor mode and no failure; the source compares a string *)
  Theorem cc_development_src_ok : forall (CCo CCx CGC CDC dt : F) (m : cc_mode) (CCx0 : F),
    cc_development_src CCo CCx CGC CDC dt (mode_str m) CCx0 = Some (cc_development CCo CCx CGC CDC dt m CCx0).
  Proof.
    intros. destruct m; unfold cc_development_src, cc_development, cc_growth, cc_decline, cc_clamp01, mode_str;
      cbn [pystr_eqb]; src_auto.
  Qed.

  (* any other string: UnboundLocalError *)
  Theorem cc_development_src_other : forall (CCo CCx CGC CDC dt : F) (Mode : pystr) (CCx0 : F),
    Mode <> Str_Growth -> Mode <> Str_Decline -> cc_development_src CCo CCx CGC CDC dt Mode CCx0 = None.
  Proof. intros. destruct Mode; try contradiction; reflexivity. Qed.

  (* ---- cc_required_time: the hand model is split by mode *)
  Theorem cc_required_time_src_cgc_ok : forall (cc_prev CCo CCx CGC CDC : F),
    cc_required_time_src cc_prev CCo CCx CGC CDC Str_CGC = Some (cc_required_time_cgc cc_prev CCo CCx CGC).
  Proof. intros. unfold cc_required_time_src, cc_required_time_cgc. cbn [pystr_eqb]. src_auto. Qed.

  Theorem cc_required_time_src_cdc_ok : forall (cc_prev CCo CCx CGC CDC : F),
    cc_required_time_src cc_prev CCo CCx CGC CDC Str_CDC = Some (cc_required_time_cdc cc_prev CCx CDC).
  Proof. intros. unfold cc_required_time_src, cc_required_time_cdc. cbn [pystr_eqb]. src_auto. Qed.

  Theorem cc_required_time_src_other : forall (cc_prev CCo CCx CGC CDC : F) (Mode : pystr),
    Mode <> Str_CGC -> Mode <> Str_CDC -> cc_required_time_src cc_prev CCo CCx CGC CDC Mode = None.
  Proof. intros. destruct Mode; try contradiction; reflexivity. Qed.

  (* ---- temperature_stress: the hand model is split in the heat and the cold coefficient *)
  Theorem temperature_stress_src_ok :
    forall (PolHeatStress : Z) (Tmax_lo Tmax_up fshape_b : F) (PolColdStress : Z) (Tmin_up Tmin_lo temp_max temp_min : F),
    temperature_stress_src PolHeatStress Tmax_lo Tmax_up fshape_b PolColdStress Tmin_up Tmin_lo temp_max temp_min
    = match kst_heat PolHeatStress Tmax_lo Tmax_up fshape_b temp_max,
            kst_cold PolColdStress Tmin_lo Tmin_up fshape_b temp_min with
      | Some h, Some c => Some (h, c)
      | _, _ => None
      end.
  Proof. intros. unfold temperature_stress_src, kst_heat, kst_cold, ks_logistic. src_auto. Qed.

  (* ---- aeration_stress: the hand model takes (S, Act, Aer), the source reads thRZ.Act, thRZ.Aer, thRZ.S in this order *)
  Theorem aeration_stress_src_ok : forall (AerDays LagAer thRZ_Act thRZ_Aer thRZ_S : F),
    aeration_stress_src AerDays LagAer thRZ_Act thRZ_Aer thRZ_S
    = aeration_stress AerDays LagAer thRZ_S thRZ_Act thRZ_Aer.
  Proof. intros. unfold aeration_stress_src, aeration_stress. src_auto. Qed.

  (* ---- water_stress.  Shape differences: arrays -> scalars, the result tuple -> the record Ksw, the test
     (beta == True) and (tEarlySen > 0) -> one boolean.  One operation differs: the source copies the thresholds with
     [np.ones(nstress) * Crop_p_up], i.e. computes 1.0 * p, which the hand model omits.  1.0 * p = p holds in IEEE
     doubles (bit for bit, every p) and in R but not in an arbitrary number structure, hence the hypothesis. *)
  Definition ksw_tuple (k : Ksw) : F * F * F * F * F := (Ksw_Exp k, Ksw_Sto k, Ksw_Sen k, Ksw_Pol k, Ksw_StoLin k).

  Theorem water_stress_src_ok : (forall x : F, #1 * x = x) ->
    forall (pu0 pu1 pu2 pu3 pl0 pl1 pl2 pl3 : F) (ETadj : Z) (Crop_beta fs0 fs1 fs2 tEarlySen Dr taw et0 : F) (beta : bool),
    water_stress_src pu0 pu1 pu2 pu3 pl0 pl1 pl2 pl3 ETadj Crop_beta fs0 fs1 fs2 tEarlySen Dr taw et0 beta
    = ksw_tuple (water_stress pu0 pu1 pu2 pu3 pl0 pl1 pl2 pl3 ETadj Crop_beta fs0 fs1 fs2
                              (beta && (tEarlySen >? #0)) Dr taw et0).
  Proof.
    intros Hone. intros. unfold water_stress_src. rewrite !Hone.
    unfold ksw_tuple, water_stress, ws_threshold, ws_adj, clip01, ws_drel, ws_ks.
    cbn [Ksw_Exp Ksw_Sto Ksw_Sen Ksw_Pol Ksw_StoLin].
    destruct (ETadj =? 1)%Z; destruct beta; cbn [Bool.eqb andb]; [destruct (tEarlySen >? #0) | | destruct (tEarlySen >? #0) | ];
      cbn [andb]; reflexivity.
  Qed.

  (* ---- adjust_CCx / update_CCx_CDC (hand model in Crop/Canopy.v); the calls go to the source-generated callees *)
  Theorem adjust_CCx_src_ok : forall (cc_prev CCo CCx CGC CDC dt tSum CanopyDevEnd Crop_CCx : F),
    adjust_CCx_src cc_prev CCo CCx CGC CDC dt tSum CanopyDevEnd Crop_CCx
    = Some (adjust_CCx cc_prev CCo CCx CGC CDC dt tSum CanopyDevEnd Crop_CCx).
  Proof.
    intros. unfold adjust_CCx_src, adjust_CCx. rewrite cc_required_time_src_cgc_ok. cbv zeta.
    change Str_Growth with (mode_str Growth). rewrite cc_development_src_ok.
    destruct (_ >? _); reflexivity.
  Qed.

  Theorem update_CCx_CDC_src_ok : forall (cc_prev CDC CCx dt : F),
    update_CCx_CDC_src cc_prev CDC CCx dt = update_CCx_CDC cc_prev CDC CCx dt.
  Proof. intros. reflexivity. Qed.

  (* ---- the CO2 block of initialize/compute_variables.py (statements `if CO2conc <= CO2ref:` ... `crop.fCO2 = ...`),
     translated under the assumption param_struct.NCrops = 1.  The hand model [fco2] is total; the source leaves
     fCO2new unbound unless CO2conc > CO2ref and then reads it unless CO2conc <= CO2ref: None exactly when both tests
     fail (NaN only).  Argument order: the source reads bsted, fsink, bface; the hand model takes bsted bface fsink. *)
  Theorem fco2_block_src_ok : forall (c ref bsted fsink bface WP : F),
    fco2_block_src c ref bsted fsink bface WP
    = if (c >? ref) || (c <=? ref) then Some (fco2 c ref bsted bface fsink WP) else None.
  Proof.
    intros. unfold fco2_block_src, fco2, fco2_ftype, fco2_select, fco2_new, fco2_old, fco2_weight. src_auto.
  Qed.

  (* ---- the same block in timestep/reset_initial_conditions.py.  There fCO2old is computed only when CO2conc <= 550 and
     is read when CO2conc <= CO2ref: for 550 < CO2conc <= CO2ref Python raises UnboundLocalError where the hand model
     returns a value (unreachable with a reference concentration below 550, see [fco2_reset_block_src_defined]). *)
  Theorem fco2_reset_block_src_ok : forall (c ref bsted fsink bface WP : F),
    fco2_reset_block_src c ref bsted fsink bface WP
    = if c <=? #550
      then (if (c >? ref) || (c <=? ref) then Some (fco2 c ref bsted bface fsink WP) else None)
      else (if (c >? ref) && negb (c <=? ref) then Some (fco2 c ref bsted bface fsink WP) else None).
  Proof.
    intros. unfold fco2_reset_block_src, fco2, fco2_ftype, fco2_select, fco2_new, fco2_old, fco2_weight. src_auto.
  Qed.
End OK.

Print Assumptions growing_degree_day_src_ok.
Print Assumptions cc_development_src_ok.
Print Assumptions cc_development_src_other.
Print Assumptions cc_required_time_src_cgc_ok.
Print Assumptions cc_required_time_src_cdc_ok.
Print Assumptions cc_required_time_src_other.
Print Assumptions temperature_stress_src_ok.
Print Assumptions aeration_stress_src_ok.
Print Assumptions water_stress_src_ok.
Print Assumptions adjust_CCx_src_ok.
Print Assumptions update_CCx_CDC_src_ok.
Print Assumptions fco2_block_src_ok.
Print Assumptions fco2_reset_block_src_ok.

(* ------------------------------------------------------------------------------------------------------------
   Transfer: facts of proofs/KernelsR.v about the hand model hold of the source-generated definitions (over R). *)
From AC Require Import RInst.
From AC.proofs Require Import KernelsR.
Local Open Scope R_scope.

Corollary growing_degree_day_src_range method Tupp Tbase tmax tmin g :
  Tbase <= Tupp ->
  growing_degree_day_src method Tupp Tbase tmax tmin = Some g -> 0 <= g <= Tupp - Tbase.
Proof. rewrite growing_degree_day_src_ok. apply gdd_range. Qed.

Corollary growing_degree_day_src_monotone method Tupp Tbase tmax tmin tmax' tmin' g g' :
  Tbase <= Tupp -> tmax <= tmax' -> tmin <= tmin' ->
  growing_degree_day_src method Tupp Tbase tmax tmin = Some g ->
  growing_degree_day_src method Tupp Tbase tmax' tmin' = Some g' -> g <= g'.
Proof. rewrite !growing_degree_day_src_ok. apply gdd_monotone. Qed.

Corollary growing_degree_day_src_defined method Tupp Tbase tmax tmin :
  gdd_ok method -> exists g, growing_degree_day_src method Tupp Tbase tmax tmin = Some g.
Proof. rewrite growing_degree_day_src_ok. apply gdd_defined. Qed.

Corollary cc_development_src_monotone CCo CCx CGC CDC dt dt' CCx0 c c' :
  0 < CCo -> 0 <= CCx -> 0 <= CGC -> dt <= dt' ->
  cc_development_src CCo CCx CGC CDC dt Str_Growth CCx0 = Some c ->
  cc_development_src CCo CCx CGC CDC dt' Str_Growth CCx0 = Some c' -> c <= c'.
Proof.
  intros Ho Hx Hg Hd. change Str_Growth with (mode_str Growth). rewrite !cc_development_src_ok.
  intros [= <-] [= <-]. apply cc_growth_monotone; assumption.
Qed.

Corollary cc_development_src_growth_range CCo CCx CGC CDC dt CCx0 c :
  0 < CCo -> 0 <= CCx ->
  cc_development_src CCo CCx CGC CDC dt Str_Growth CCx0 = Some c -> 0 <= c <= CCx.
Proof.
  intros Ho Hx. change Str_Growth with (mode_str Growth). rewrite cc_development_src_ok.
  intros [= <-]. apply cc_growth_range; assumption.
Qed.

Corollary cc_development_src_decline_antitone CCo CCx CGC CDC dt dt' CCx0 c c' :
  0 <= CCx -> 0 <= CCx0 -> 0 <= CDC -> dt <= dt' ->
  cc_development_src CCo CCx CGC CDC dt Str_Decline CCx0 = Some c ->
  cc_development_src CCo CCx CGC CDC dt' Str_Decline CCx0 = Some c' -> c' <= c.
Proof.
  intros Hx Hx0 Hc Hd. change Str_Decline with (mode_str Decline). rewrite !cc_development_src_ok.
  intros [= <-] [= <-]. apply cc_decline_antitone; assumption.
Qed.

Corollary cc_required_time_src_inverts cc CCo CCx CGC CDC CCx0 t :
  0 < CCo -> CCo < cc -> cc < CCx -> CCx <= 1 -> 0 < CGC ->
  cc_required_time_src cc CCo CCx CGC CDC Str_CGC = Some t ->
  cc_development_src CCo CCx CGC CDC t Str_Growth CCx0 = Some cc.
Proof.
  intros Ho Hlo Hhi Hx1 Hg. rewrite cc_required_time_src_cgc_ok. intros [= <-].
  change Str_Growth with (mode_str Growth). rewrite cc_development_src_ok. f_equal.
  apply cc_required_time_inverts; assumption.
Qed.

Corollary temperature_stress_src_range ph lo up b pc up' lo' tmax tmin h c :
  temperature_stress_src ph lo up b pc up' lo' tmax tmin = Some (h, c) -> 0 <= h <= 1 /\ 0 <= c <= 1.
Proof.
  rewrite temperature_stress_src_ok.
  destruct (kst_heat ph lo up b tmax) as [h0|] eqn:Hh; [|discriminate].
  destruct (kst_cold pc lo' up' b tmin) as [c0|] eqn:Hc; [|discriminate].
  intros [= <- <-]. split; [eapply kst_heat_range | eapply kst_cold_range]; eassumption.
Qed.

Corollary temperature_stress_src_defined ph lo up b pc up' lo' tmax tmin :
  (ph = 0 \/ ph = 1)%Z -> (pc = 0 \/ pc = 1)%Z ->
  exists h c, temperature_stress_src ph lo up b pc up' lo' tmax tmin = Some (h, c).
Proof.
  intros Hh Hc. rewrite temperature_stress_src_ok.
  destruct (proj1 (kst_defined ph lo up b tmax Hh)) as [h ->].
  destruct (proj2 (kst_defined pc lo' up' b tmin Hc)) as [c ->]. eauto.
Qed.

Corollary aeration_stress_src_range days lag Act Aer S k d : Aer < S -> Act <= S -> 0 <= days -> days <= 3 ->
  aeration_stress_src days lag Act Aer S = Some (k, d) -> 0 <= k <= 1.
Proof. rewrite aeration_stress_src_ok. apply aeration_range. Qed.

(* water_stress over R: the hypothesis 1 * x = x is a theorem *)
Theorem water_stress_src_ok_over_R pu0 pu1 pu2 pu3 pl0 pl1 pl2 pl3 ETadj cb fs0 fs1 fs2 tEarlySen Dr taw et0 beta :
  water_stress_src pu0 pu1 pu2 pu3 pl0 pl1 pl2 pl3 ETadj cb fs0 fs1 fs2 tEarlySen Dr taw et0 beta
  = ksw_tuple (water_stress pu0 pu1 pu2 pu3 pl0 pl1 pl2 pl3 ETadj cb fs0 fs1 fs2
                            (beta && Rltb 0 tEarlySen) Dr taw et0).
Proof.
  exact (water_stress_src_ok (F:=R) (N:=RNops) Rmult_1_l
           pu0 pu1 pu2 pu3 pl0 pl1 pl2 pl3 ETadj cb fs0 fs1 fs2 tEarlySen Dr taw et0 beta).
Qed.

Corollary water_stress_src_range pu0 pu1 pu2 pu3 pl0 pl1 pl2 pl3 ETadj cb fs0 fs1 fs2 tEarlySen Dr taw et0 beta k0 k1 k2 k3 k4 :
  0 < taw -> fs0 <> 0 -> fs1 <> 0 -> fs2 <> 0 ->
  water_stress_src pu0 pu1 pu2 pu3 pl0 pl1 pl2 pl3 ETadj cb fs0 fs1 fs2 tEarlySen Dr taw et0 beta = (k0, k1, k2, k3, k4) ->
  0 <= k0 <= 1 /\ 0 <= k1 <= 1 /\ 0 <= k2 <= 1 /\ 0 <= k3 <= 1 /\ 0 <= k4 <= 1.
Proof.
  intros Ht H0 H1 H2. rewrite water_stress_src_ok_over_R. unfold ksw_tuple. intros [= <- <- <- <- <-].
  apply water_stress_range; assumption.
Qed.

(* the CO2 block over R: defined everywhere (compute_variables), defined when the reference is at most 550 (reset) *)
Theorem fco2_block_src_over_R c ref bsted fsink bface WP :
  fco2_block_src c ref bsted fsink bface WP = Some (fco2 c ref bsted bface fsink WP).
Proof.
  rewrite fco2_block_src_ok. rnum. destruct (Rltb_spec ref c); [reflexivity|].
  destruct (Rleb_spec c ref); [reflexivity|lra].
Qed.

Theorem fco2_reset_block_src_defined c ref bsted fsink bface WP : ref <= 550 ->
  fco2_reset_block_src c ref bsted fsink bface WP = Some (fco2 c ref bsted bface fsink WP).
Proof.
  intros Hr. rewrite fco2_reset_block_src_ok. rnum.
  destruct (Rleb_spec c 550); destruct (Rltb_spec ref c); destruct (Rleb_spec c ref); cbn; try reflexivity; lra.
Qed.

(* ... and the reset block does raise (UnboundLocalError: fCO2old) for a concentration in (550, ref] *)
Theorem fco2_reset_block_src_unbound c ref bsted fsink bface WP : 550 < c -> c <= ref ->
  fco2_reset_block_src c ref bsted fsink bface WP = None.
Proof.
  intros H1 H2. rewrite fco2_reset_block_src_ok. rnum.
  destruct (Rleb_spec c 550); [lra|]. destruct (Rltb_spec ref c); [lra|]. reflexivity.
Qed.
Example fco2_reset_block_src_unbound_ex : fco2_reset_block_src 600 700 0 0 0 0 = None.
Proof. apply fco2_reset_block_src_unbound; lra. Qed.

Corollary fco2_block_src_at_ref ref bsted fsink bface WP : ref <> 0 ->
  fco2_block_src ref ref bsted fsink bface WP = Some 1.
Proof. intros Hr. rewrite fco2_block_src_over_R. f_equal. apply fco2_at_ref; exact Hr. Qed.

Corollary fco2_block_src_monotone ref bsted bface fsink WP c1 c2 f1 f2 :
  fco2_params_ok ref bsted bface fsink -> 0 < c1 -> c1 <= c2 ->
  fco2_block_src c1 ref bsted fsink bface WP = Some f1 ->
  fco2_block_src c2 ref bsted fsink bface WP = Some f2 -> f1 <= f2.
Proof.
  intros OK H0 H12. rewrite !fco2_block_src_over_R. intros [= <-] [= <-]. apply fco2_monotone; assumption.
Qed.

Print Assumptions water_stress_src_ok_over_R.
