(* ProcsSrcOK.v — the definitions of gen/ProcsSrc.v, which harness/gen_kernels.py regenerates from the TEXT of the
   daily-process functions (irrigation, growth_stage, biomass_accumulation, HIref_current_day, the HIadj functions) on every run,
   are equal to the hand models of Water/RainIrr.v and Crop/Yield.v for EVERY number type: only unfolding, case
   analysis on the boolean tests / option matches and conversion are used.  Where the source performs an
   algebraically neutral operation that the hand model omits, the identity is an explicit hypothesis (it holds in
   IEEE doubles and in R); these places are listed in the comments.
   The last part transfers headline facts of proofs/RainIrrR.v and proofs/YieldR.v to the generated definitions. *)
From Coq Require Import String.
From AC Require Import Num Params Kernels.
From AC.Water Require Import RootZone RainIrr.
From AC.Crop Require Import Yield.
From AC.gen Require Import ProcsSrc.

Ltac atom c :=
  lazymatch c with
  | (?a && _)%bool => atom a
  | (?a || _)%bool => atom a
  | negb ?a => atom a
  | Bool.eqb ?a _ => atom a
  | _ => constr:(c)
  end.
Ltac split_if :=
  match goal with
  | |- context [if ?c then _ else _] =>
    let a := atom c in
    lazymatch a with true => fail | false => fail | context [if _ then _ else _] => fail | _ => idtac end;
    destruct a eqn:?; cbn [andb orb negb Bool.eqb]; cbv beta iota
  end.
Ltac split_opt :=
  match goal with
  | |- context [match ?x with Some _ => _ | None => _ end] =>
    lazymatch x with Some _ => fail | None => fail | context [if _ then _ else _] => fail | _ => idtac end;
    destruct x eqn:?; cbv beta iota
  end.
Ltac src_auto := cbv beta zeta iota; repeat (first [split_if | split_opt]); try reflexivity; try congruence.

(* the external calls are the ones the theorems below assume *)
Example irrigation_src_calls_pinned :
  irrigation_src_calls =
  [("root_zone_water"%string,
    ["prof"%string; "float(NewCond_Zroot)"%string; "NewCond_th"%string; "Soil_zTop"%string;
     "float(Crop.Zmin)"%string; "Crop.Aer"%string])].
Proof. reflexivity. Qed.

Section OK.
  Context {F : Type} {N : NumOps F}.
  Local Open Scope num_scope.

  Lemma py_index_src_ok {A} (l : list A) i : py_index_src l i = py_index l i.
  Proof. reflexivity. Qed.

  (* ---- irrigation.  The source calls root_zone_water(prof, float(Zroot), th, zTop, float(Crop.Zmin), Crop.Aer)
     (pinned above) inside the growing season and reads four of its eleven results: they are the last four parameters
     of [irrigation_src]; the hand model calls its own [root_zone_water].  If that call fails the hand model is None
     (second theorem); the generated function cannot express this.  Same parameter order otherwise, without the two
     opaque arguments th and prof. *)
  Theorem irrigation_src_ok :
    forall (method : Z) (smt : list F) (eff maxirr : F) (interval : Z) (sched : list F) (depth maxseason : F)
           (stage : Z) (irrcum epot tpot zroot : F) (dap tsc : Z) (zmin aer ztop : F) (gs : bool) (rain runoff : F)
           (p : list (Comp F)) (th : list F) (rz : RZ (F:=F)),
    (gs = true -> root_zone_water p zroot th ztop zmin aer = Some rz) ->
    irrigation_src method smt eff maxirr interval sched depth maxseason stage irrcum epot tpot zroot dap tsc
                   zmin aer ztop gs rain runoff (rz_Dr_Rz rz) (rz_TAW_Rz rz) (rz_Act rz) (rz_FC rz)
    = irrigation method smt eff maxirr interval sched depth maxseason stage irrcum epot tpot zroot th dap tsc
                 zmin aer p ztop gs rain runoff.
  Proof.
    intros until rz. intros Hrz. unfold irrigation_src, irrigation, irr_depletion.
    destruct gs; cbn [Bool.eqb].
    - rewrite (Hrz eq_refl). unfold irr_method, irr_season, irr_request, irr_effadj.
      change (@py_index_src F) with (@py_index F). cbn [fst snd]. src_auto.
    - unfold irr_season. cbn [fst snd]. src_auto.
  Qed.

  Theorem irrigation_rzw_fails :
    forall (method : Z) (smt : list F) (eff maxirr : F) (interval : Z) (sched : list F) (depth maxseason : F)
           (stage : Z) (irrcum epot tpot zroot : F) (dap tsc : Z) (zmin aer ztop : F) (rain runoff : F)
           (p : list (Comp F)) (th : list F),
    root_zone_water p zroot th ztop zmin aer = None ->
    irrigation method smt eff maxirr interval sched depth maxseason stage irrcum epot tpot zroot th dap tsc
               zmin aer p ztop true rain runoff = None.
  Proof. intros. unfold irrigation, irr_depletion. rewrite H. reflexivity. Qed.

  (* ---- growth_stage.  The source works on NewCond = InitCond and returns the object; the only attribute it writes
     is growth_stage, which is the result.  Argument order: the source reads Crop.CalendarType, Canopy10Pct, MaxCanopy,
     Senescence, then InitCond.dap, delayed_cds, gdd_cum, delayed_gdds, growth_stage. *)
  Theorem growth_stage_src_ok :
    forall (caltype : Z) (c10 maxcan sen : F) (dap dcds : Z) (gddcum dgdd : F) (old : Z) (gs : bool),
    growth_stage_src caltype c10 maxcan sen dap dcds gddcum dgdd old gs
    = growth_stage caltype dap dcds gddcum dgdd c10 maxcan sen old gs.
  Proof. intros. unfold growth_stage_src, growth_stage. destruct gs; cbn [Bool.eqb]; src_auto. Qed.

  (* ---- biomass_accumulation.  The crop object is the record YCrop of the hand model; the generated function takes
     the attributes it reads, in the order of their first use. *)
  Theorem biomass_accumulation_src_ok :
    forall (c : YCrop (F:=F)) (dap dcds : Z) (hiref pct B Bns Tr TrPot et0 : F) (gs : bool),
    biomass_accumulation_src (y_HIstartCD c) (y_CropType c) (y_Determinant c) (y_YldFormCD c) (y_WP c) (y_WPy c) (y_fCO2 c)
                             dap dcds hiref pct B Bns Tr TrPot et0 gs
    = biomass_accumulation c dap dcds hiref pct B Bns Tr TrPot et0 gs.
  Proof.
    intros. unfold biomass_accumulation_src, biomass_accumulation, wp_adj, fswitch, hit, is23.
    destruct gs; cbn [Bool.eqb]; src_auto.
  Qed.

  (* ---- HIref_current_day.  NewCond_CC_prev is a parameter the source never reads; `InitCond_HIref = NewCond_HIref * 1`
     is dead code (its value is never read), so the neutral multiplication needs no hypothesis here. *)
  Theorem HIref_current_day_src_ok :
    forall (c : YCrop (F:=F)) (hiref hifinal : F) (dap dcds : Z) (yf : bool) (pct cc cc_prev ccxw : F) (gs : bool),
    HIref_current_day_src hiref hifinal dap dcds yf pct cc cc_prev ccxw (y_HIstartCD c) (y_CropType c) (y_HIini c) (y_HI0 c)
                          (y_HIGC c) (y_tLinSwitch c) (y_dHILinear c) (y_YldFormCD c) gs
    = HIref_current_day c hiref hifinal dap dcds yf pct cc ccxw gs.
  Proof.
    intros. unfold HIref_current_day_src, HIref_current_day, hi_curve, hi_limit, hi_final_local, hi_logistic, hit, is12, is23.
    destruct gs; cbn [Bool.eqb]; src_auto.
  Qed.

  (* ---- HIadj_pollination: same parameters, same order (Ksw.pol, Kst.PolC, Kst.PolH are the three attribute reads) *)
  Theorem HIadj_pollination_src_ok :
    forall (cc fpol flo ccmin exc ksw_pol kst_polc kst_polh t : F),
    HIadj_pollination_src cc fpol flo ccmin exc ksw_pol kst_polc kst_polh t
    = HIadj_pollination cc fpol flo ccmin exc ksw_pol kst_polc kst_polh t.
  Proof. intros. unfold HIadj_pollination_src, HIadj_pollination, frac_flow, flow_frac. src_auto. Qed.

  (* ---- HIadj_post_anthesis.  Three operations of the source are absent from the hand model:
       InitCond_DelayedCDs = NewCond_DelayedCDs * 1     integer arithmetic: Z.mul_1_r, no hypothesis
       InitCond_sCor1/2   = NewCond_sCor1/2 * 1         float x * 1.0          -> hypothesis [x * #1 = x]
       DayCor = dap - 1 - Crop.HIstartCD                the source subtracts 1 from the INTEGER dap and converts,
                                                        the hand model converts and subtracts #1 -> hypothesis
                                                        [#(z - 1) = #z - #1] (exact below 2^53 in doubles, true in R)
     The result tuple is the record Post of the hand model. *)
  Definition post_tuple (po : Post (F:=F)) : F * F * F * F * F := (p_scor1 po, p_scor2 po, p_upp po, p_dwn po, p_fpost po).

  Theorem HIadj_post_anthesis_src_ok :
    (forall x : F, x * #1 = x) -> (forall z : Z, #(z - 1) = #z - #1) ->
    forall (dcds : Z) (scor1 scor2 : F) (dap : Z) (fpre cc upp dwn : F) (c : YCrop (F:=F)) (ksw_exp ksw_sto : F),
    HIadj_post_anthesis_src dcds scor1 scor2 dap fpre cc upp dwn (y_CanopyDevEndCD c) (y_HIstartCD c) (y_a_HI c)
                            (y_YldFormCD c) (y_HIendCD c) (y_b_HI c) ksw_exp ksw_sto
    = match HIadj_post_anthesis dcds scor1 scor2 dap fpre cc upp dwn c ksw_exp ksw_sto with
      | Some po => Some (post_tuple po)
      | None => None
      end.
  Proof.
    intros Hone Hpred. intros. unfold HIadj_post_anthesis_src, HIadj_post_anthesis, post_tuple. cbv zeta.
    rewrite !Z.mul_1_r, !Hone, !Hpred. src_auto.
  Qed.

  (* ---- steps 18-19 of run_single_timestep.py (solution_single_time_step) as a block: from `NewCond.YieldPot = ...`
     to the end of `if growing_season is True: ... elif growing_season is False: ...`.  The attributes written are the
     result, in the order of their first store: YieldPot, DryYield, FreshYield, crop_mature.  The hand model has the
     two functions [yields] (dry, fresh, pot) and [crop_mature].  [dry0], [fresh0]: the incoming DryYield/FreshYield,
     kept only when growing_season is neither True nor False (impossible for a bool). *)
  Theorem yield_block_src_ok :
    forall (Bns hi dry0 B hiadj fresh0 : F) (dap : Z) (gdd_cum : F) (mature gs : bool) (YldWC : F) (caltype : Z) (maturity : F),
    yield_block_src Bns hi dry0 B hiadj fresh0 dap gdd_cum mature gs YldWC caltype maturity
    = let '(dry, fresh, pot) := yields B Bns hi hiadj YldWC gs in
      (pot, dry, fresh, crop_mature caltype dap gdd_cum maturity mature gs).
  Proof. intros. unfold yield_block_src, yields, crop_mature. destruct gs; cbn [Bool.eqb]; src_auto. Qed.

End OK.

(* ---- HIadj_pre_anthesis: np.sin / np.pi enter through the class TrigSrc of the generated file; the instance
   [trig_src] (declared as an instance, so that it need not be written) takes them from the TrigOps of the hand model *)
#[export] Instance trig_src {F : Type} {T : TrigOps F} : TrigSrc F := {| ssin := tsin; spi := tpi |}.

Theorem HIadj_pre_anthesis_src_ok : forall {F : Type} {N : NumOps F} {T : TrigOps F} (B Bns cc dHI_pre : F),
  HIadj_pre_anthesis_src B Bns cc dHI_pre = HIadj_pre_anthesis B Bns cc dHI_pre.
Proof. intros. unfold HIadj_pre_anthesis_src, HIadj_pre_anthesis. cbn [ssin spi trig_src]. src_auto. Qed.

Print Assumptions irrigation_src_ok.
Print Assumptions growth_stage_src_ok.
Print Assumptions biomass_accumulation_src_ok.
Print Assumptions HIref_current_day_src_ok.
Print Assumptions HIadj_pre_anthesis_src_ok.
Print Assumptions HIadj_pollination_src_ok.
Print Assumptions HIadj_post_anthesis_src_ok.
Print Assumptions yield_block_src_ok.

(* ------------------------------------------------------------------------------------------------------------
   Transfer: facts of proofs/RainIrrR.v and proofs/YieldR.v hold of the source-generated definitions (over R). *)
From AC Require Import RInst.
From AC.proofs Require Import RainIrrR YieldR.
Local Open Scope R_scope.

Section IrrigationTransfer.
  Variables (method : Z) (smt : list R) (eff maxirr : R) (interval : Z) (sched : list R) (depth maxseason : R)
            (stage : Z) (irrcum epot tpot zroot : R) (th : list R) (dap tsc : Z) (zmin aer : R) (p : list (Comp R))
            (ztop : R) (gs : bool) (rain runoff : R) (rz : RZ (F:=R)).
  Hypothesis RZW : gs = true -> root_zone_water p zroot th ztop zmin aer = Some rz.
  Variables depl taw cum irr : R.
  Hypothesis RES :
    irrigation_src method smt eff maxirr interval sched depth maxseason stage irrcum epot tpot zroot dap tsc
                   zmin aer ztop gs rain runoff (rz_Dr_Rz rz) (rz_TAW_Rz rz) (rz_Act rz) (rz_FC rz)
    = Some (depl, taw, cum, irr).

  Lemma irrigation_src_res :
    irrigation method smt eff maxirr interval sched depth maxseason stage irrcum epot tpot zroot th dap tsc zmin aer p ztop
               gs rain runoff = Some (depl, taw, cum, irr).
  Proof. rewrite <- RES. symmetry. apply irrigation_src_ok. exact RZW. Qed.

  Corollary irrigation_src_nonneg : 0 <= irr.
  Proof. exact (irr_nonneg _ _ _ _ _ _ _ _ _ _ _ _ _ _ _ _ _ _ _ _ _ _ _ _ _ _ _ irrigation_src_res). Qed.
  Corollary irrigation_src_rainfed_zero : method = 0%Z -> irr = 0.
  Proof. exact (irr_rainfed_zero _ _ _ _ _ _ _ _ _ _ _ _ _ _ _ _ _ _ _ _ _ _ _ _ _ _ _ irrigation_src_res). Qed.
  Corollary irrigation_src_net_zero : method = 4%Z -> irr = 0.
  Proof. exact (irr_net_zero _ _ _ _ _ _ _ _ _ _ _ _ _ _ _ _ _ _ _ _ _ _ _ _ _ _ _ irrigation_src_res). Qed.
  Corollary irrigation_src_off_season_zero : gs = false -> irr = 0 /\ cum = 0 /\ depl = 0 /\ taw = 0.
  Proof. exact (irr_off_season_zero _ _ _ _ _ _ _ _ _ _ _ _ _ _ _ _ _ _ _ _ _ _ _ _ _ _ _ irrigation_src_res). Qed.
  Corollary irrigation_src_daily_cap : 0 <= maxirr -> irr <= maxirr.
  Proof. exact (irr_daily_cap _ _ _ _ _ _ _ _ _ _ _ _ _ _ _ _ _ _ _ _ _ _ _ _ _ _ _ irrigation_src_res). Qed.
  Corollary irrigation_src_season_cap : 0 <= maxseason -> irrcum <= maxseason -> cum <= maxseason.
  Proof. exact (irr_season_cap _ _ _ _ _ _ _ _ _ _ _ _ _ _ _ _ _ _ _ _ _ _ _ _ _ _ _ irrigation_src_res). Qed.
End IrrigationTransfer.

Corollary growth_stage_src_range caltype c10 maxcan sen dap dcds gddcum dgdd old gs r :
  growth_stage_src caltype c10 maxcan sen dap dcds gddcum dgdd old gs = Some r -> (0 <= r <= 4)%Z.
Proof. rewrite growth_stage_src_ok. apply growth_stage_range. Qed.

Corollary biomass_accumulation_src_gain (c : YCrop (F:=R)) dap dcds hiref pct B Bns Tr TrPot et0 B' Bns' :
  biomass_accumulation_src (y_HIstartCD c) (y_CropType c) (y_Determinant c) (y_YldFormCD c) (y_WP c) (y_WPy c) (y_fCO2 c)
                           dap dcds hiref pct B Bns Tr TrPot et0 true = Some (B', Bns') ->
  0 <= pct <= 100 -> (0 < hiref -> 0 <= hit c dap dcds) -> y_WPy c <= 100 ->
  exists k, y_WPy c / 100 <= k <= 1 /\
            B' - B = y_WP c * y_fCO2 c * (Tr / et0) * k /\
            Bns' - Bns = y_WP c * y_fCO2 c * (TrPot / et0) * k.
Proof. rewrite biomass_accumulation_src_ok. apply biomass_gain. Qed.

Corollary HIref_current_day_src_le_HI0 (c : YCrop (F:=R)) hiref hifinal dap dcds yf pct cc cc_prev ccxw gs :
  0 <= y_HI0 c -> -(4/1000) <= y_HIini c ->
  fst (fst (HIref_current_day_src hiref hifinal dap dcds yf pct cc cc_prev ccxw (y_HIstartCD c) (y_CropType c) (y_HIini c)
              (y_HI0 c) (y_HIGC c) (y_tLinSwitch c) (y_dHILinear c) (y_YldFormCD c) gs)) <= y_HI0 c.
Proof. rewrite HIref_current_day_src_ok. apply hi_ref_le_HI0. Qed.

Corollary HIref_current_day_src_nonneg (c : YCrop (F:=R)) hiref hifinal dap dcds yf pct cc cc_prev ccxw gs :
  0 <= y_HI0 c -> -(4/1000) <= y_HIini c -> 0 <= hifinal ->
  0 <= fst (fst (HIref_current_day_src hiref hifinal dap dcds yf pct cc cc_prev ccxw (y_HIstartCD c) (y_CropType c) (y_HIini c)
                   (y_HI0 c) (y_HIGC c) (y_tLinSwitch c) (y_dHILinear c) (y_YldFormCD c) gs)).
Proof. rewrite HIref_current_day_src_ok. apply hi_ref_nonneg. Qed.

Corollary HIadj_pre_anthesis_src_range B Bns cc d :
  0 <= HIadj_pre_anthesis_src B Bns cc d /\
  (0 <= d -> HIadj_pre_anthesis_src B Bns cc d <= 1 + d / 100).
Proof. rewrite HIadj_pre_anthesis_src_ok. apply pre_anthesis_range. Qed.

Corollary HIadj_pollination_src_range cc fpol flo ccmin exc kp pc ph t f :
  HIadj_pollination_src cc fpol flo ccmin exc kp pc ph t = Some f ->
  0 < flo -> 0 <= fpol <= 1 -> 0 <= kp -> 0 <= pc -> 0 <= ph -> -100 <= exc -> fpol <= f <= 1.
Proof. rewrite HIadj_pollination_src_ok. apply pollination_range. Qed.

Corollary yield_block_src_identities Bns hi dry0 B hiadj fresh0 dap gdd_cum mature YldWC caltype maturity :
  yield_block_src Bns hi dry0 B hiadj fresh0 dap gdd_cum mature true YldWC caltype maturity
  = (Bns / 100 * hi, B / 100 * hiadj, B / 100 * hiadj / (YldWC / 100), crop_mature caltype dap gdd_cum maturity mature true) /\
  yield_block_src Bns hi dry0 B hiadj fresh0 dap gdd_cum mature false YldWC caltype maturity
  = (Bns / 100 * hi, 0, 0, mature).
Proof.
  rewrite !yield_block_src_ok. destruct (yield_identities B Bns hi hiadj YldWC) as [-> ->]. split; reflexivity.
Qed.

(* HIadj_post_anthesis over R: both hypotheses are theorems *)
Theorem HIadj_post_anthesis_src_ok_over_R dcds scor1 scor2 dap fpre cc upp dwn (c : YCrop (F:=R)) ksw_exp ksw_sto :
  HIadj_post_anthesis_src dcds scor1 scor2 dap fpre cc upp dwn (y_CanopyDevEndCD c) (y_HIstartCD c) (y_a_HI c)
                          (y_YldFormCD c) (y_HIendCD c) (y_b_HI c) ksw_exp ksw_sto
  = match HIadj_post_anthesis dcds scor1 scor2 dap fpre cc upp dwn c ksw_exp ksw_sto with
    | Some po => Some (post_tuple po)
    | None => None
    end.
Proof.
  refine (HIadj_post_anthesis_src_ok (F:=R) (N:=RNops) Rmult_1_r _ dcds scor1 scor2 dap fpre cc upp dwn c ksw_exp ksw_sto).
  intros z. rnum. apply minus_IZR.
Qed.
