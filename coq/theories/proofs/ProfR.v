(* ProfR.v — shared vocabulary for the theorems about profile processes (real instance).
   Well-formedness of a profile, bounds on water contents, storage algebra.  Every process unit
   states its theorems with THESE predicates so that the day-level theorems can compose them. *)
From AC Require Import Num RInst Params.
Local Open Scope R_scope.

(* a compartment of a valid soil: positive thickness, 0 < th_dry < th_wp < th_fc < th_s, 0 < tau <= 1, Ksat > 0.
   (th_fc = th_s, tau = 0 or Ksat = 0 make drainage/infiltration divide by zero in the code; every built-in and
   texture-derived soil satisfies the strict inequalities.) *)
Record wf_comp (c : Comp R) : Prop := {
  wf_dz : 0 < c_dz c;
  wf_dry : 0 < c_th_dry c;
  wf_dry_wp : c_th_dry c < c_th_wp c;
  wf_wp_fc : c_th_wp c < c_th_fc c;
  wf_fc_s : c_th_fc c < c_th_s c;
  wf_tau : 0 < c_tau c <= 1;
  wf_ksat : 0 < c_ksat c }.

Definition wf_prof (p : list (Comp R)) : Prop := Forall wf_comp p.
(* th_dry <= th <= th_s in every compartment (and the lists have the same length) *)
Definition in_bounds (p : list (Comp R)) (th : list R) : Prop := Forall2 (fun c t => c_th_dry c <= t <= c_th_s c) p th.
(* adjusted field capacity between field capacity and saturation *)
Definition fcadj_ok (p : list (Comp R)) (fc : list R) : Prop := Forall2 (fun c a => c_th_fc c <= a <= c_th_s c) p fc.

(* water held by one compartment at content th (mm) *)
Definition W (c : Comp R) (th : R) : R := th * c_dz c * 1000.

Lemma W_add c th x : c_dz c <> 0 -> W c (th + x / (1000 * c_dz c)) = W c th + x.
Proof. intros; unfold W; field; auto. Qed.
Lemma W_add' c th x : c_dz c <> 0 -> W c (th + x / (c_dz c * 1000)) = W c th + x.
Proof. intros; unfold W; field; auto. Qed.
Lemma W_sub c a b : W c (a - b) = W c a - W c b.
Proof. unfold W; ring. Qed.
Lemma W_plus c a b : W c (a + b) = W c a + W c b.
Proof. unfold W; ring. Qed.
Lemma W_alt c d : d * 1000 * c_dz c = W c d.
Proof. unfold W; ring. Qed.
Lemma W_mono c a b : 0 < c_dz c -> a <= b -> W c a <= W c b.
Proof. intros Hd H; unfold W. apply Rmult_le_compat_r; [lra|]. apply Rmult_le_compat_r; lra. Qed.

Lemma storage_nil_l th : storage (F:=R) [] th = 0.
Proof. reflexivity. Qed.
Lemma storage_nil_r p : storage (F:=R) p [] = 0.
Proof. destruct p; reflexivity. Qed.
Lemma storage_cons c p t th : storage (c :: p) (t :: th) = W c t + storage p th.
Proof. cbn [storage]. rnum. unfold W. reflexivity. Qed.
Lemma storage_app p1 p2 t1 t2 : length p1 = length t1 ->
  storage (p1 ++ p2) (t1 ++ t2) = storage p1 t1 + storage p2 t2.
Proof.
  revert t1; induction p1 as [|c p1 IH]; intros [|t t1] H; try discriminate.
  - cbn [app]. rewrite storage_nil_l. lra.
  - cbn [app]. rewrite !storage_cons, IH by (simpl in H; congruence). lra.
Qed.

Lemma in_bounds_length p th : in_bounds p th -> length p = length th.
Proof. induction 1; simpl; congruence. Qed.
Lemma fcadj_ok_length p fc : fcadj_ok p fc -> length p = length fc.
Proof. induction 1; simpl; congruence. Qed.
