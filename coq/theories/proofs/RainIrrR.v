(* RainIrrR.v — theorems about Water/RainIrr.v at the real instance:
     A. rainfall_partition (C02): SCS split, adjusted curve number in [0,100];
     B. irrigation (C13, C04): strategy contracts, caps, sign;
     C. growth_stage: range. *)
From AC Require Import Num RInst Params.
From AC.Water Require Import RootZone RainIrr.
From AC.proofs Require Import ProfR.
From Flocq Require Import Core.
Local Open Scope R_scope.

(* ------------------------------------------------------------------ helpers *)
Lemma pmin_Rmin a b : pmin a b = Rmin a b.
Proof. unfold pmin, Rmin. rnum. destruct (Rltb_spec b a), (Rle_dec a b); lra. Qed.
Lemma pmax_Rmax a b : pmax a b = Rmax a b.
Proof. unfold pmax, Rmax. rnum. destruct (Rltb_spec a b), (Rle_dec a b); lra. Qed.

Lemma Rpow_2 x : 0 < x -> Rpow x 2 = x * x.
Proof.
  intros H. unfold Rpow. destruct (Req_EM_T x 0); [lra|].
  replace 2 with (INR 2) by (simpl; lra). rewrite Rpower_pow by exact H. ring.
Qed.
Lemma Rpow_3 x : 0 < x -> Rpow x 3 = x * x * x.
Proof.
  intros H. unfold Rpow. destruct (Req_EM_T x 0); [lra|].
  replace 3 with (INR 3) by (simpl; lra). rewrite Rpower_pow by exact H. ring.
Qed.

Lemma ZnearestE_le x y : x <= y -> (ZnearestE x <= ZnearestE y)%Z.
Proof. apply Zrnd_le. apply valid_rnd_N. Qed.
Lemma ZnearestE_IZR n : ZnearestE (IZR n) = n.
Proof. apply (@Zrnd_IZR ZnearestE (valid_rnd_N _)). Qed.
Lemma ZnearestE_near x n : Rabs (x - IZR n) < / 2 -> ZnearestE x = n.
Proof. apply Znearest_imp. Qed.

(* ================================================================== A. rainfall_partition *)

(* np.exp(-14*np.log(10)) is a positive number below 1/15 (it is 1e-14) *)
Lemma rp_tiny_range : 0 < rp_tiny < / 15.
Proof.
  unfold rp_tiny. rnum. split; [apply exp_pos|].
  assert (L : 1 < ln 10).
  { rewrite <- (ln_exp 1). apply ln_increasing; [apply exp_pos|]. pose proof exp_le_3. lra. }
  replace (-14 * ln 10) with (- (14 * ln 10)) by ring. rewrite exp_Ropp.
  apply Rinv_lt_contravar.
  - apply Rmult_lt_0_compat; [lra | apply exp_pos].
  - pose proof (exp_ineq1 (14 * ln 10)). lra.
Qed.

(* the two cubics *)
Definition cn_bot_poly (x : R) : R := 507/1000 * x - 374/100000 * (x * x) + 867/10000000 * (x * x * x).
Definition cn_top_poly (x : R) : R := 233/100 * x - 209/10000 * (x * x) + 76/1000000 * (x * x * x).

Lemma cn_bot_poly_range x : 0 <= x <= 100 -> 0 <= cn_bot_poly x <= 100.
Proof.
  intros [H0 H1]. unfold cn_bot_poly. split.
  - replace (507/1000 * x - 374/100000 * (x * x) + 867/10000000 * (x * x * x))
      with (x * (507/1000 - 374/100000 * x + 867/10000000 * (x * x))) by field.
    apply Rmult_le_pos; [exact H0|]. nra.
  - assert (E : 100 - (507/1000 * x - 374/100000 * (x * x) + 867/10000000 * (x * x * x))
                = (100 - x) * (1 + 493/100000 * x + 867/10000000 * (x * x))) by field.
    assert (0 <= (100 - x) * (1 + 493/100000 * x + 867/10000000 * (x * x))).
    { apply Rmult_le_pos; [lra|]. nra. }
    lra.
Qed.

Lemma cn_top_poly_range x : 0 <= x <= 100 -> 0 <= cn_top_poly x <= 100.
Proof.
  intros [H0 H1]. unfold cn_top_poly. split.
  - replace (233/100 * x - 209/10000 * (x * x) + 76/1000000 * (x * x * x))
      with (x * (233/100 - 209/10000 * x + 76/1000000 * (x * x))) by field.
    apply Rmult_le_pos; [exact H0|].
    pose proof (Rle_0_sqr (x - 275/2)) as Q. unfold Rsqr in Q. nra.
  - assert (E : 100 - (233/100 * x - 209/10000 * (x * x) + 76/1000000 * (x * x * x))
                = (100 - x) * (1 - 133/10000 * x + 76/1000000 * (x * x))) by field.
    assert (0 <= (100 - x) * (1 - 133/10000 * x + 76/1000000 * (x * x))).
    { apply Rmult_le_pos; [lra|]. pose proof (Rle_0_sqr (x - 175/2)) as Q. unfold Rsqr in Q. nra. }
    lra.
Qed.

Lemma round_0_100 v : 0 <= v <= 100 + 2/5 -> (0 <= ZnearestE v <= 100)%Z.
Proof.
  intros [H0 H1]. split.
  - rewrite <- (ZnearestE_IZR 0). apply ZnearestE_le. exact H0.
  - replace 100%Z with (ZnearestE (100 + 2/5)).
    + apply ZnearestE_le. exact H1.
    + apply ZnearestE_near. replace (100 + 2/5 - 100) with (2/5) by ring. rewrite Rabs_pos_eq; lra.
Qed.

Lemma rp_cnbot_range cn : 0 < cn <= 100 -> (0 <= rp_cnbot cn <= 100)%Z.
Proof.
  intros H. pose proof rp_tiny_range as T. unfold rp_cnbot. rnum. rewrite Rpow_2, Rpow_3 by lra.
  pose proof (cn_bot_poly_range cn ltac:(lra)) as B. unfold cn_bot_poly in B.
  apply round_0_100. lra.
Qed.
Lemma rp_cntop_range cn : 0 < cn <= 100 -> (0 <= rp_cntop cn <= 100)%Z.
Proof.
  intros H. pose proof rp_tiny_range as T. unfold rp_cntop. rnum. rewrite Rpow_2, Rpow_3 by lra.
  pose proof (cn_top_poly_range cn ltac:(lra)) as B. unfold cn_top_poly in B.
  apply round_0_100. lra.
Qed.

(* the curve number adjusted for antecedent moisture stays in [0,100] (it can be 0 for tiny curve numbers, in which
   case the code divides by zero) *)
Theorem cn_adjusted_le_100 cn wet :
  0 < cn <= 100 -> 0 <= wet <= 1 -> (0 <= rp_cn_adjust cn wet <= 100)%Z.
Proof.
  intros Hc Hw. unfold rp_cn_adjust.
  pose proof (rp_cnbot_range cn Hc) as [B0 B1]. pose proof (rp_cntop_range cn Hc) as [T0 T1].
  apply IZR_le in B0, B1, T0, T1. rnum. rewrite minus_IZR.
  set (b := IZR (rp_cnbot cn)) in *. set (t := IZR (rp_cntop cn)) in *.
  apply round_0_100.
  replace (b + (t - b) * wet) with (b * (1 - wet) + t * wet) by ring.
  assert (0 <= b * (1 - wet)) by (apply Rmult_le_pos; lra).
  assert (0 <= t * wet) by (apply Rmult_le_pos; lra).
  assert (b * (1 - wet) <= 100 * (1 - wet)) by (apply Rmult_le_compat_r; lra).
  assert (t * wet <= 100 * wet) by (apply Rmult_le_compat_r; lra).
  lra.
Qed.

Lemma rp_wet_top_range ncomp zcn p th w : rp_wet_top ncomp zcn p th = Some w -> 0 <= w <= 1.
Proof.
  unfold rp_wet_top. destruct (_ <? 0)%Z; [discriminate|].
  destruct (rp_wet _ _ _ _ _ _) as [x|]; [|discriminate]. intros H; inversion H; subst; clear H.
  rnum. rcases; lra.
Qed.

(* "effective curve number <= 100" in model terms: the curve number after the field-management percentage,
   cn0*(1+pct/100), lies in (0,100].  Then the curve number used for the partition lies in [0,100], i.e. (when it is
   not 0, where the code raises) the potential retention S = 25400/cn - 254 is >= 0. *)
Definition cn_mgmt (cn0 pct : R) : R := cn0 * (1 + pct / 100).

Lemma rp_cn_range pct cn0 adjcn zcn ncomp p th c :
  0 < cn_mgmt cn0 pct <= 100 -> rp_cn pct cn0 adjcn zcn ncomp p th = Some c -> 0 <= c <= 100.
Proof.
  unfold cn_mgmt, rp_cn. intros Hc. destruct (adjcn =? 1)%Z.
  - destruct (rp_wet_top ncomp zcn p th) as [w|] eqn:E; [|discriminate].
    intros H; inversion H; subst; clear H. apply rp_wet_top_range in E.
    pose proof (cn_adjusted_le_100 _ w Hc E) as [A B]. apply IZR_le in A, B. split; [exact A | exact B].
  - intros H; inversion H; subst. rnum. lra.
Qed.

Lemma rp_S_nonneg cn : 0 < cn <= 100 -> 0 <= rp_S cn.
Proof.
  intros [H0 H1]. unfold rp_S. rnum.
  assert (254 <= 25400 / cn).
  { apply (Rmult_le_reg_r cn); [exact H0|]. unfold Rdiv. rewrite Rmult_assoc, Rinv_l; lra. }
  lra.
Qed.

(* the SCS partition itself, for a retention S >= 0 *)
Lemma rp_split_spec cn P ro infl :
  0 <= rp_S cn -> 0 <= P -> rp_split cn P = Some (ro, infl) ->
  ro + infl = P /\ 0 <= ro <= P /\
  (P <= 5/100 * rp_S cn -> ro = 0) /\
  (5/100 * rp_S cn < P -> ro = (P - 5/100 * rp_S cn) * (P - 5/100 * rp_S cn) / (P + 95/100 * rp_S cn)).
Proof.
  intros HS HP. unfold rp_split. set (S := rp_S cn) in *. rnum.
  destruct (Reqb_spec cn 0); [discriminate|].
  destruct (Rleb_spec (P - 5 / 100 * S) 0) as [Ht|Ht].
  - intros H; inversion H; subst. repeat split; lra.
  - destruct (Reqb_spec (P + (1 - 5 / 100) * S) 0) as [Hd|Hd]; [discriminate|].
    intros H; inversion H; subst; clear H.
    assert (Ht' : 0 < P - 5 / 100 * S) by lra.
    rewrite Rpow_2 by exact Ht'.
    assert (Hdpos : 0 < P + (1 - 5 / 100) * S) by lra.
    assert (Hnum : (P - 5 / 100 * S) * (P - 5 / 100 * S) <= P * (P + (1 - 5 / 100) * S)) by nra.
    assert (Hq : 0 <= (P - 5 / 100 * S) * (P - 5 / 100 * S) / (P + (1 - 5 / 100) * S) <= P).
    { split.
      - apply Rmult_le_pos; [nra | left; apply Rinv_0_lt_compat; exact Hdpos].
      - apply (Rmult_le_reg_r (P + (1 - 5 / 100) * S)); [exact Hdpos|].
        unfold Rdiv. rewrite Rmult_assoc, Rinv_l, Rmult_1_r by lra. exact Hnum. }
    repeat split; try lra.
    intros _. f_equal. lra.
Qed.

Lemma rp_split_defined cn P : cn <> 0 -> 0 <= rp_S cn -> 0 <= P -> exists r, rp_split cn P = Some r.
Proof.
  intros Hc HS HP. unfold rp_split. set (S := rp_S cn) in *. rnum.
  destruct (Reqb_spec cn 0); [contradiction|].
  destruct (Rleb_spec (P - 5 / 100 * S) 0); [eexists; reflexivity|].
  destruct (Reqb_spec (P + (1 - 5 / 100) * S) 0); [lra | eexists; reflexivity].
Qed.

(* C02, rainfall part: for every branch (bunds / inhibited runoff / curve number with or without the
   antecedent-moisture adjustment) rain is split exactly into runoff and infiltration, 0 <= Runoff <= P. *)
Theorem scs_split P th daysub srinhb bunds zbund pct cn0 adjcn zcn ncomp p ro infl ds :
  0 < cn_mgmt cn0 pct <= 100 -> 0 <= P ->
  rainfall_partition P th daysub srinhb bunds zbund pct cn0 adjcn zcn ncomp p = Some (ro, infl, ds) ->
  ro + infl = P /\ 0 <= ro <= P.
Proof.
  intros Hc HP. unfold rainfall_partition.
  destruct (negb srinhb && (negb bunds || (zbund <? 1#/1000)%num)).
  - destruct (rp_cn pct cn0 adjcn zcn ncomp p th) as [c|] eqn:Ec; [|discriminate].
    destruct (rp_split c P) as [[r i]|] eqn:Es; [|discriminate].
    intros H; inversion H; subst; clear H.
    pose proof (rp_cn_range _ _ _ _ _ _ _ _ Hc Ec) as Hr.
    assert (c <> 0).
    { intros ->. unfold rp_split in Es. rnum. destruct (Reqb_spec 0 0); [discriminate | lra]. }
    pose proof (rp_split_spec c P ro infl (rp_S_nonneg c ltac:(lra)) HP Es). tauto.
  - intros H; inversion H; subst. rnum. lra.
Qed.

(* bunds (higher than 1 mm) or inhibited runoff: no runoff, everything infiltrates, the counter is left alone *)
Theorem rp_bunds_no_runoff P th daysub srinhb bunds zbund pct cn0 adjcn zcn ncomp p :
  srinhb = true \/ (bunds = true /\ 1/1000 <= zbund) ->
  rainfall_partition P th daysub srinhb bunds zbund pct cn0 adjcn zcn ncomp p = Some (0, P, daysub).
Proof.
  intros H. unfold rainfall_partition. rnum.
  destruct H as [->|[-> Hz]]; cbn [negb andb orb]; [reflexivity|].
  rewrite Rltb_false by lra. destruct srinhb; reflexivity.
Qed.

(* in the curve-number branch the submerged-days counter is reset and the runoff is the SCS formula *)
Theorem rp_cn_branch P th daysub bunds zbund pct cn0 adjcn zcn ncomp p ro infl ds :
  bunds = false \/ zbund < 1/1000 ->
  rainfall_partition P th daysub false bunds zbund pct cn0 adjcn zcn ncomp p = Some (ro, infl, ds) ->
  ds = 0%Z /\ exists cn, rp_cn pct cn0 adjcn zcn ncomp p th = Some cn /\ rp_split cn P = Some (ro, infl).
Proof.
  intros Hb. unfold rainfall_partition. rnum. cbn [negb andb].
  assert (E : negb bunds || Rltb zbund (1 / 1000) = true).
  { destruct Hb as [->|Hz]; [reflexivity|]. rewrite Rltb_true by lra. apply orb_true_r. }
  rewrite E.
  destruct (rp_cn pct cn0 adjcn zcn ncomp p th) as [c|]; [|discriminate].
  destruct (rp_split c P) as [[r i]|] eqn:Es; [|discriminate].
  intros H; inversion H; subst. split; [reflexivity|]. exists c. auto.
Qed.

(* a dry day produces neither runoff nor infiltration *)
Theorem rp_dry_day th daysub srinhb bunds zbund pct cn0 adjcn zcn ncomp p ro infl ds :
  0 < cn_mgmt cn0 pct <= 100 ->
  rainfall_partition 0 th daysub srinhb bunds zbund pct cn0 adjcn zcn ncomp p = Some (ro, infl, ds) ->
  ro = 0 /\ infl = 0.
Proof.
  intros Hc H. pose proof (scs_split _ _ _ _ _ _ _ _ _ _ _ _ _ _ _ Hc (Rle_refl 0) H). lra.
Qed.

(* the hypothesis on the curve number is necessary: with cn = 200 (S = -127) a dry day yields negative runoff *)
Theorem scs_split_needs_cn_le_100 : exists ro infl, rp_split 200 0 = Some (ro, infl) /\ ro < 0 /\ 0 < infl.
Proof.
  unfold rp_split, rp_S. rnum.
  destruct (Reqb_spec 200 0); [lra|].
  destruct (Rleb_spec (0 - 5 / 100 * (25400 / 200 - 254)) 0); [lra|].
  destruct (Reqb_spec (0 + (1 - 5 / 100) * (25400 / 200 - 254)) 0); [lra|].
  eexists; eexists; split; [reflexivity|].
  rewrite Rpow_2 by lra.
  replace (0 - 5 / 100 * (25400 / 200 - 254)) with (635/100) by lra.
  replace (0 + (1 - 5 / 100) * (25400 / 200 - 254)) with (-(12065/100)) by lra.
  assert (635 / 100 * (635 / 100) / - (12065 / 100) < 0).
  { unfold Rdiv at 1. rewrite Rinv_opp.
    assert (0 < / (12065 / 100)) by (apply Rinv_0_lt_compat; lra). nra. }
  lra.
Qed.

(* ================================================================== B. irrigation *)

Lemma Rmax_0_0 : Rmax 0 0 = 0.
Proof. unfold Rmax; destruct (Rle_dec 0 0); lra. Qed.

(* ---- the seasonal cap / cumulative counter *)
Lemma irr_season_spec M c irr :
  0 <= irr ->
  let r := irr_season M c irr in
  fst r = c + snd r /\ 0 <= snd r <= irr /\ (c <= M -> fst r <= M) /\ (c + irr <= M -> snd r = irr) /\
  (M < c + irr -> snd r = Rmax 0 (M - c)).
Proof.
  intros Hi. unfold irr_season. cbn [fst snd]. rewrite pmax_Rmax. rnum.
  destruct (Rltb_spec M (c + irr)) as [H|H].
  - unfold Rmax. destruct (Rle_dec 0 (M - c)); repeat split; intros; lra.
  - repeat split; intros; lra.
Qed.

(* ---- the value requested by a strategy (before `Irr = max(0, Irr)`) never exceeds MaxIrr when MaxIrr >= 0 *)
Lemma irr_request_le depl eff maxirr : irr_request depl eff maxirr <= maxirr.
Proof. unfold irr_request. rewrite pmin_Rmin. apply Rmin_l. Qed.

Lemma irr_method_le method smt eff maxirr interval sched depth stage dap tsc depl taw v :
  0 <= maxirr ->
  irr_method method smt eff maxirr interval sched depth stage dap tsc depl taw = Some v -> v <= maxirr.
Proof.
  intros Hm. unfold irr_method.
  pose proof (irr_request_le depl eff maxirr) as Hr.
  destruct (method =? 0)%Z; [intros H; inversion H; subst; rnum; lra|].
  destruct (method =? 1)%Z.
  { destruct (py_index smt (stage - 1)) as [s|]; [|discriminate].
    destruct (_ <? _)%num; intros H; inversion H; subst; rnum; lra. }
  destruct (method =? 2)%Z.
  { destruct (interval =? 0)%Z; [discriminate|].
    destruct (_ =? 0)%Z; intros H; inversion H; subst; rnum; lra. }
  destruct (method =? 3)%Z.
  { destruct (py_index sched tsc) as [s|]; [|discriminate].
    destruct (_ <=? _)%num; [|discriminate]. intros H; inversion H; subst. rewrite pmin_Rmin. apply Rmin_l. }
  destruct (method =? 4)%Z; [intros H; inversion H; subst; rnum; lra|].
  destruct (method =? 5)%Z; [|discriminate].
  intros H; inversion H; subst. rewrite pmin_Rmin. apply Rmin_l.
Qed.

(* ---- structure of a result *)
Definition irr_stage (dap stage : Z) : Z := if (dap =? 1)%Z then 1%Z else stage.

Lemma irrigation_in_season method smt eff maxirr interval sched depth maxseason stage irrcum epot tpot zroot th dap tsc
      zmin aer p ztop rain runoff depl taw cum irr :
  irrigation method smt eff maxirr interval sched depth maxseason stage irrcum epot tpot zroot th dap tsc zmin aer p ztop
             true rain runoff = Some (depl, taw, cum, irr) ->
  exists irr0,
    irr_depletion p zroot th ztop zmin aer tpot epot rain runoff = Some (depl, taw) /\
    irr_method method smt eff maxirr interval sched depth (irr_stage dap stage) dap tsc depl taw = Some irr0 /\
    cum = fst (irr_season maxseason irrcum (Rmax 0 irr0)) /\ irr = snd (irr_season maxseason irrcum (Rmax 0 irr0)).
Proof.
  unfold irrigation, irr_stage.
  destruct (irr_depletion _ _ _ _ _ _ _ _ _ _) as [[d t]|]; [|discriminate].
  destruct (irr_method _ _ _ _ _ _ _ _ _ _ _ _) as [i0|] eqn:E; [|discriminate].
  intros H; inversion H; subst; clear H. exists i0. rewrite pmax_Rmax. auto.
Qed.

Lemma irrigation_off_season method smt eff maxirr interval sched depth maxseason stage irrcum epot tpot zroot th dap tsc
      zmin aer p ztop rain runoff :
  irrigation method smt eff maxirr interval sched depth maxseason stage irrcum epot tpot zroot th dap tsc zmin aer p ztop
             false rain runoff = Some (0, 0, 0, 0).
Proof.
  unfold irrigation, irr_season. cbn [fst snd]. rewrite pmax_Rmax. rnum.
  destruct (Rltb_spec maxseason (0 + 0)) as [H|H].
  - replace (Rmax 0 (maxseason - 0)) with 0 by (unfold Rmax; destruct (Rle_dec 0 (maxseason - 0)); lra).
    repeat f_equal; lra.
  - repeat f_equal; lra.
Qed.

(* the depletion used by every strategy: root-zone depletion (Dr_Rz, NOT the top-soil one) plus the expected
   outflows minus inflows of the day, minus the water above field capacity; TAW is the root-zone TAW *)
Definition irr_abvfc (rz : RZ (F:=R)) (zroot zmin : R) : R :=
  if Rltb (rz_FC rz) (rz_Act rz) then (rz_Act rz - rz_FC rz) * 1000 * Rmax zroot zmin else 0.

Theorem irr_depletion_spec p zroot th ztop zmin aer tpot epot rain runoff depl taw :
  irr_depletion p zroot th ztop zmin aer tpot epot rain runoff = Some (depl, taw) <->
  exists rz, root_zone_water p zroot th ztop zmin aer = Some rz /\
             depl = rz_Dr_Rz rz + (tpot + epot - rain + runoff - irr_abvfc rz zroot zmin) /\ taw = rz_TAW_Rz rz.
Proof.
  unfold irr_depletion, irr_abvfc. rewrite <- pmax_Rmax. rnum.
  destruct (root_zone_water p zroot th ztop zmin aer) as [rz|].
  - split.
    + intros H; inversion H; subst. exists rz. auto.
    + intros [rz' [E [-> ->]]]. inversion E; subst. reflexivity.
  - split; [discriminate | intros [rz' [E _]]; discriminate].
Qed.

(* what the result looks like in season, for a value v requested by the strategy:
   Irr = max(0,v), unless IrrCum + max(0,v) > MaxIrrSeason, then Irr = max(0, MaxIrrSeason - IrrCum) *)
Definition capped (maxseason irrcum v : R) : R :=
  if Rltb maxseason (irrcum + Rmax 0 v) then Rmax 0 (maxseason - irrcum) else Rmax 0 v.

Lemma irr_capped maxseason irrcum irr i0 :
  irr = snd (irr_season maxseason irrcum (Rmax 0 i0)) -> irr = capped maxseason irrcum i0.
Proof. intros ->. unfold capped, irr_season. cbn [snd]. rewrite pmax_Rmax. rnum. reflexivity. Qed.

Lemma capped_pos maxseason irrcum v : 0 < capped maxseason irrcum v -> 0 < v.
Proof.
  unfold capped. destruct (Rltb_spec maxseason (irrcum + Rmax 0 v)) as [H|H]; intros Hp.
  - destruct (Rle_dec v 0) as [Hv|Hv]; [|lra]. rewrite Rmax_left in H by exact Hv.
    rewrite Rmax_left in Hp by lra. lra.
  - destruct (Rle_dec v 0) as [Hv|Hv]; [|lra]. rewrite Rmax_left in Hp by exact Hv. lra.
Qed.
Lemma capped_uncapped maxseason irrcum v : 0 <= v -> irrcum + v <= maxseason -> capped maxseason irrcum v = v.
Proof.
  intros Hv Hc. unfold capped. rewrite Rmax_right by exact Hv. rewrite Rltb_false by exact Hc. reflexivity.
Qed.

Section Irrigation.
  Variables (method : Z) (smt : list R) (eff maxirr : R) (interval : Z) (sched : list R) (depth maxseason : R)
            (stage : Z) (irrcum epot tpot zroot : R) (th : list R) (dap tsc : Z) (zmin aer : R) (p : list (Comp R))
            (ztop : R) (gs : bool) (rain runoff : R).
  Variables depl taw cum irr : R.
  Hypothesis RES :
    irrigation method smt eff maxirr interval sched depth maxseason stage irrcum epot tpot zroot th dap tsc zmin aer p ztop
               gs rain runoff = Some (depl, taw, cum, irr).
  Local Notation capped := (capped maxseason irrcum).

  (* C04: the irrigation depth is never negative (no hypothesis on the parameters is needed) *)
  Theorem irr_nonneg : 0 <= irr.
  Proof.
    destruct gs.
    - apply irrigation_in_season in RES. destruct RES as [i0 [_ [_ [_ ->]]]].
      pose proof (irr_season_spec maxseason irrcum (Rmax 0 i0) (Rmax_l _ _)). cbv zeta in H. tauto.
    - rewrite irrigation_off_season in RES. inversion RES. lra.
  Qed.

  (* C13: rainfed *)
  Theorem irr_rainfed_zero : method = 0%Z -> irr = 0.
  Proof.
    intros ->. destruct gs.
    - apply irrigation_in_season in RES. destruct RES as [i0 [_ [M [_ ->]]]].
      cbn in M. inversion M; subst.
      pose proof (irr_season_spec maxseason irrcum (Rmax 0 0) (Rmax_l _ _)) as H. cbv zeta in H. rnum.
      rewrite Rmax_0_0 in H |- *. lra.
    - rewrite irrigation_off_season in RES. inversion RES. lra.
  Qed.

  (* C13 / C04: nothing outside the growing season, and the seasonal counter is reset *)
  Theorem irr_off_season_zero : gs = false -> irr = 0 /\ cum = 0 /\ depl = 0 /\ taw = 0.
  Proof. intros E. rewrite E, irrigation_off_season in RES. inversion RES. lra. Qed.

  (* C13: net irrigation mode applies no surface irrigation *)
  Theorem irr_net_zero : method = 4%Z -> irr = 0.
  Proof.
    intros ->. destruct gs.
    - apply irrigation_in_season in RES. destruct RES as [i0 [_ [M [_ ->]]]].
      cbn in M. inversion M; subst.
      pose proof (irr_season_spec maxseason irrcum (Rmax 0 0) (Rmax_l _ _)) as H. cbv zeta in H. rnum.
      rewrite Rmax_0_0 in H |- *. lra.
    - rewrite irrigation_off_season in RES. inversion RES. lra.
  Qed.

  (* C13: a single application never exceeds the daily maximum (every method, in particular 1, 2, 3, 5) *)
  Theorem irr_daily_cap : 0 <= maxirr -> irr <= maxirr.
  Proof.
    intros Hm. destruct gs.
    - apply irrigation_in_season in RES. destruct RES as [i0 [_ [M [_ ->]]]].
      apply irr_method_le in M; [|exact Hm].
      pose proof (irr_season_spec maxseason irrcum (Rmax 0 i0) (Rmax_l _ _)) as H. cbv zeta in H.
      assert (Rmax 0 i0 <= maxirr) by (apply Rmax_lub; lra). lra.
    - rewrite irrigation_off_season in RES. inversion RES. lra.
  Qed.

  (* C13: the seasonal total never exceeds the seasonal maximum; in season the counter is advanced by Irr *)
  Theorem irr_season_cap : 0 <= maxseason -> irrcum <= maxseason -> cum <= maxseason.
  Proof.
    intros H0 Hc. destruct gs.
    - apply irrigation_in_season in RES. destruct RES as [i0 [_ [_ [-> _]]]].
      pose proof (irr_season_spec maxseason irrcum (Rmax 0 i0) (Rmax_l _ _)) as H. cbv zeta in H. tauto.
    - rewrite irrigation_off_season in RES. inversion RES. lra.
  Qed.
  Theorem irr_season_cap_in_season : gs = true -> irrcum <= maxseason -> cum <= maxseason.
  Proof.
    intros E Hc. rewrite E in RES. apply irrigation_in_season in RES. destruct RES as [i0 [_ [_ [-> _]]]].
    pose proof (irr_season_spec maxseason irrcum (Rmax 0 i0) (Rmax_l _ _)) as H. cbv zeta in H. tauto.
  Qed.
  Theorem irr_cum_update : gs = true -> cum = irrcum + irr.
  Proof.
    intros E. rewrite E in RES. apply irrigation_in_season in RES. destruct RES as [i0 [_ [_ [-> ->]]]].
    pose proof (irr_season_spec maxseason irrcum (Rmax 0 i0) (Rmax_l _ _)) as H. cbv zeta in H. tauto.
  Qed.

  (* C13: fixed interval — irrigation only on days 1, 1+k, 1+2k, ... (nDays = DAP - 1, `nDays % IrrInterval == 0`),
     and on those days the request is min(MaxIrr, max(0,Depl)*EffAdj) *)
  Theorem irr_interval_days : gs = true -> method = 2%Z -> 0 < irr -> interval <> 0%Z /\ ((dap - 1) mod interval = 0)%Z.
  Proof.
    intros E Hm Hp. rewrite E in RES. apply irrigation_in_season in RES. destruct RES as [i0 [_ [M [_ Hi]]]]. rewrite Hm in M.
    apply irr_capped in Hi. rewrite Hi in Hp. apply capped_pos in Hp.
    unfold irr_method in M. cbn [Z.eqb Pos.eqb] in M.
    destruct (interval =? 0)%Z eqn:E0; [discriminate|]. apply Z.eqb_neq in E0.
    destruct ((dap - 1) mod interval =? 0)%Z eqn:E1.
    - apply Z.eqb_eq in E1. auto.
    - inversion M; subst. rnum. lra.
  Qed.
  Theorem irr_interval_amount :
    gs = true -> method = 2%Z -> interval <> 0%Z -> ((dap - 1) mod interval = 0)%Z ->
    irr = capped (Rmin maxirr (Rmax 0 depl * (((100 - eff) + 100) / 100))).
  Proof.
    intros E Hm H0 H1. rewrite E in RES. apply irrigation_in_season in RES. destruct RES as [i0 [_ [M [_ Hi]]]]. rewrite Hm in M.
    apply irr_capped in Hi. rewrite Hi.
    unfold irr_method in M. cbn [Z.eqb Pos.eqb] in M.
    apply Z.eqb_neq in H0. rewrite H0 in M. apply Z.eqb_eq in H1. rewrite H1 in M.
    inversion M; subst. unfold irr_request, irr_effadj. rewrite pmin_Rmin, pmax_Rmax. rnum. reflexivity.
  Qed.

  (* C13: pre-defined schedule — exactly the scheduled depth of the current time step, capped by MaxIrr
     (then by the seasonal cap, exactly as coded) *)
  Theorem irr_schedule_exact :
    gs = true -> method = 3%Z ->
    exists v, py_index sched tsc = Some v /\ 0 <= v /\ irr = capped (Rmin maxirr v) /\
              (0 <= maxirr -> irrcum + Rmin maxirr v <= maxseason -> irr = Rmin maxirr v).
  Proof.
    intros E Hm. rewrite E in RES. apply irrigation_in_season in RES. destruct RES as [i0 [_ [M [_ Hi]]]]. rewrite Hm in M.
    apply irr_capped in Hi. unfold irr_method in M. cbn [Z.eqb Pos.eqb] in M.
    destruct (py_index sched tsc) as [v|]; [|discriminate]. revert M. rnum.
    destruct (Rleb_spec 0 v) as [Hv|Hv]; [|discriminate]. intros M; inversion M; subst.
    exists v. rewrite pmin_Rmin. repeat split; auto.
    intros Hm Hc. apply capped_uncapped; [|exact Hc]. apply Rmin_glb; assumption.
  Qed.

  (* C13: constant depth *)
  Theorem irr_constant_depth :
    gs = true -> method = 5%Z ->
    irr = capped (Rmin maxirr depth) /\
    (0 <= maxirr -> 0 <= depth -> irrcum + Rmin maxirr depth <= maxseason -> irr = Rmin maxirr depth).
  Proof.
    intros E Hm. rewrite E in RES. apply irrigation_in_season in RES. destruct RES as [i0 [_ [M [_ Hi]]]]. rewrite Hm in M.
    apply irr_capped in Hi. unfold irr_method in M. cbn [Z.eqb Pos.eqb] in M. inversion M; subst.
    rewrite pmin_Rmin. split; [reflexivity|].
    intros Hm Hd Hc. apply capped_uncapped; [|exact Hc]. apply Rmin_glb; assumption.
  Qed.

  (* C13: soil-moisture threshold.  The threshold is SMT[stage'-1] (Python indexing: stage' = 0 reads SMT[-1], the LAST
     entry), stage' = 1 on DAP = 1, otherwise the growth stage stored on the previous day.  Depl and TAW are the
     returned Depletion / TAW, see [irr_depletion_spec].  Irrigation is triggered iff Depl/TAW > 1 - SMT/100. *)
  Theorem irr_smt_spec :
    gs = true -> method = 1%Z ->
    exists s, py_index smt (irr_stage dap stage - 1) = Some s /\
      (1 - s / 100 < depl / taw ->
         irr = capped (Rmin maxirr (Rmax 0 depl * (((100 - eff) + 100) / 100)))) /\
      (depl / taw <= 1 - s / 100 -> irr = 0).
  Proof.
    intros E Hm. rewrite E in RES. apply irrigation_in_season in RES. destruct RES as [i0 [_ [M [_ Hi]]]]. rewrite Hm in M.
    apply irr_capped in Hi. unfold irr_method in M. cbn [Z.eqb Pos.eqb] in M.
    destruct (py_index smt (irr_stage dap stage - 1)) as [s|]; [|discriminate]. exists s. split; [reflexivity|].
    revert M. rnum. destruct (Rltb_spec (1 - s / 100) (depl / taw)) as [Ht|Ht]; intros M; inversion M; subst.
    - split; [|lra]. intros _. unfold irr_request, irr_effadj. rewrite pmin_Rmin, pmax_Rmax. rnum. reflexivity.
    - split; [lra|]. intros _. unfold capped.
      rewrite Rmax_0_0.
      destruct (Rltb_spec maxseason (irrcum + 0)); [|reflexivity].
      unfold Rmax. destruct (Rle_dec 0 (maxseason - irrcum)); lra.
  Qed.

  (* Irr > 0 only if the threshold is exceeded and the depletion is positive ... *)
  Theorem irr_smt_only_if :
    gs = true -> method = 1%Z -> 0 < irr ->
    exists s, py_index smt (irr_stage dap stage - 1) = Some s /\ 1 - s / 100 < depl / taw /\ 0 < depl.
  Proof.
    intros E Hm Hp. destruct (irr_smt_spec E Hm) as [s [Hs [Hon Hoff]]]. exists s. split; [exact Hs|].
    destruct (Rlt_dec (1 - s / 100) (depl / taw)) as [Ht|Ht]; [|rewrite Hoff in Hp; lra].
    split; [exact Ht|]. rewrite (Hon Ht) in Hp. apply capped_pos in Hp.
    destruct (Rle_dec depl 0) as [Hd|Hd]; [|lra]. exfalso.
    rewrite (Rmax_left 0 depl) in Hp by exact Hd. rewrite Rmult_0_l in Hp.
    pose proof (Rmin_r maxirr 0). lra.
  Qed.
  (* ... and conversely, if the threshold is exceeded, the depletion is positive, the efficiency is below 200 %,
     the daily maximum is positive and the seasonal allowance is not exhausted, then Irr > 0 *)
  Theorem irr_smt_if s :
    gs = true -> method = 1%Z -> py_index smt (irr_stage dap stage - 1) = Some s ->
    1 - s / 100 < depl / taw -> 0 < depl -> eff < 200 -> 0 < maxirr -> irrcum < maxseason -> 0 < irr.
  Proof.
    intros E Hm Hs Ht Hd He Hmx Hc. destruct (irr_smt_spec E Hm) as [s' [Hs' [Hon _]]].
    rewrite Hs in Hs'. inversion Hs'; subst s'. rewrite (Hon Ht). unfold capped.
    assert (Hv : 0 < Rmin maxirr (Rmax 0 depl * (((100 - eff) + 100) / 100))).
    { apply Rmin_glb_lt; [exact Hmx|]. rewrite Rmax_right by lra. apply Rmult_lt_0_compat; lra. }
    rewrite (Rmax_right 0 (Rmin _ _)) by lra.
    destruct (Rltb_spec maxseason (irrcum + Rmin maxirr (Rmax 0 depl * (((100 - eff) + 100) / 100)))); [|exact Hv].
    rewrite Rmax_right by lra. lra.
  Qed.
  (* the amount when triggered and the seasonal cap does not bind: refill the depletion, adjusted for the application
     efficiency ((100-eff)+100)/100 = (200-eff)/100, limited to MaxIrr *)
  Theorem irr_smt_amount s :
    gs = true -> method = 1%Z -> py_index smt (irr_stage dap stage - 1) = Some s ->
    1 - s / 100 < depl / taw -> 0 <= maxirr -> eff <= 200 ->
    irrcum + Rmin maxirr (Rmax 0 depl * ((200 - eff) / 100)) <= maxseason ->
    irr = Rmin maxirr (Rmax 0 depl * ((200 - eff) / 100)).
  Proof.
    intros E Hm Hs Ht Hmx He Hc. destruct (irr_smt_spec E Hm) as [s' [Hs' [Hon _]]].
    rewrite Hs in Hs'. inversion Hs'; subst s'. rewrite (Hon Ht).
    replace ((100 - eff + 100) / 100) with ((200 - eff) / 100) by lra.
    apply capped_uncapped; [|exact Hc]. apply Rmin_glb; [exact Hmx|].
    apply Rmult_le_pos; [apply Rmax_l | lra].
  Qed.
End Irrigation.

(* ================================================================== C. growth_stage *)
Theorem growth_stage_range caltype dap dcds gddcum dgdd c10 maxcan sen old gs r :
  growth_stage caltype dap dcds gddcum dgdd c10 maxcan sen old gs = Some r -> (0 <= r <= 4)%Z.
Proof.
  unfold growth_stage. destruct gs; [|intros H; inversion H; lia].
  destruct (caltype =? 1)%Z; [|destruct (caltype =? 2)%Z; [|discriminate]];
    intros H; inversion H; subst; clear H; rnum; rcases; try lia; lra.
Qed.
(* more precisely: 0 exactly off season, 1..4 in season, by the position of the adjusted time *)
Theorem growth_stage_spec caltype dap dcds gddcum dgdd c10 maxcan sen old r :
  growth_stage caltype dap dcds gddcum dgdd c10 maxcan sen old true = Some r ->
  exists t, (caltype = 1%Z /\ t = IZR (dap - dcds) \/ caltype = 2%Z /\ t = gddcum - dgdd) /\
    (t <= c10 -> r = 1%Z) /\ (c10 < t <= maxcan -> r = 2%Z) /\ (c10 < t -> maxcan < t <= sen -> r = 3%Z) /\
    (c10 < t -> maxcan < t -> sen < t -> r = 4%Z).
Proof.
  unfold growth_stage.
  destruct (caltype =? 1)%Z eqn:E1; [|destruct (caltype =? 2)%Z eqn:E2; [|discriminate]];
    intros H; inversion H; subst; clear H; rnum; eexists; (split; [first [left; split; [apply Z.eqb_eq; exact E1|reflexivity] | right; split; [apply Z.eqb_eq; exact E2|reflexivity]]|]);
    rcases; repeat split; intros; try reflexivity; lra.
Qed.
Theorem growth_stage_off_season caltype dap dcds gddcum dgdd c10 maxcan sen old :
  growth_stage caltype dap dcds gddcum dgdd c10 maxcan sen old false = Some 0%Z.
Proof. reflexivity. Qed.

(* ================================================================== Examples: the hypotheses are satisfiable *)

(* ---- rainfall_partition, curve number 50 without adjustment, 50 mm of rain: S = 254, Runoff = 37.3^2/291.3 *)
Example ex_rain_cn :
  0 < cn_mgmt 50 0 <= 100 /\
  rainfall_partition 50 [] 3 false false 0 0 50 0 (3/10) 0 [] =
    Some ((373/10) * (373/10) / (2913/10), 50 - (373/10) * (373/10) / (2913/10), 0%Z).
Proof.
  split; [unfold cn_mgmt; lra|].
  unfold rainfall_partition, rp_cn, rp_split, rp_S. cbn [negb andb orb Z.eqb]. rnum.
  replace (50 * (1 + 0 / 100)) with 50 by lra.
  destruct (Reqb_spec 50 0); [lra|].
  replace (25400 / 50 - 254) with 254 by lra.
  destruct (Rleb_spec (50 - 5 / 100 * 254) 0); [lra|].
  destruct (Reqb_spec (50 + (1 - 5 / 100) * 254) 0); [lra|].
  rewrite Rpow_2 by lra.
  replace (50 - 5 / 100 * 254) with (373/10) by lra. replace (50 + (1 - 5 / 100) * 254) with (2913/10) by lra.
  reflexivity.
Qed.

(* ---- a one-compartment soil (1 m thick): wp 0.10, fc 0.30, sat 0.50 *)
Definition ex_c : Comp R :=
  {| c_dz := 1; c_dzsum := 1; c_zmid := 1/2; c_layer := 1; c_th_dry := 5/100; c_th_wp := 1/10; c_th_fc := 3/10;
     c_th_s := 1/2; c_ksat := 500; c_tau := 3/4; c_pen := 100; c_acr := 0; c_bcr := 0 |}.

Example ex_c_wf : wf_prof [ex_c] /\ in_bounds [ex_c] [1/5].
Proof.
  split.
  - constructor; [|constructor]. constructor; cbn; lra.
  - constructor; [cbn; lra | constructor].
Qed.

(* antecedent-moisture adjustment on, curve number 61 (CNbot = 37, CNtop = 82), z_cn = 0.3 m: the call is defined and
   the partition identities hold *)
Lemma ex_cnbot : rp_cnbot 61 = 37%Z.
Proof.
  pose proof rp_tiny_range as T. unfold rp_cnbot. rnum. rewrite Rpow_2, Rpow_3 by lra.
  apply ZnearestE_near. apply Rabs_def1; lra.
Qed.
Lemma ex_cntop : rp_cntop 61 = 82%Z.
Proof.
  pose proof rp_tiny_range as T. unfold rp_cntop. rnum. rewrite Rpow_2, Rpow_3 by lra.
  apply ZnearestE_near. apply Rabs_def1; lra.
Qed.

Example ex_rain_adj :
  0 < cn_mgmt 61 0 <= 100 /\
  exists ro infl, rainfall_partition 50 [1/5] 3 false false 0 0 61 1 (3/10) 1 [ex_c] = Some (ro, infl, 0%Z) /\
                  ro + infl = 50 /\ 0 <= ro <= 50.
Proof.
  assert (Hc : 0 < cn_mgmt 61 0 <= 100) by (unfold cn_mgmt; lra).
  split; [exact Hc|].
  assert (Ew : exists w, rp_wet_top 1 (3/10) [ex_c] [1/5] = Some w).
  { unfold rp_wet_top, rp_comp_sto. cbn [count_if ex_c c_dzsum]. rnum. rewrite Rleb_true by lra.
    cbn [Z.add Z.sub Z.opp Z.pos_sub Z.ltb Z.compare Pos.compare Pos.compare_cont Z.to_nat Pos.to_nat Pos.iter_op rp_wet].
    eexists; reflexivity. }
  destruct Ew as [w Ew].
  assert (Ecn : rp_cn 0 61 1 (3/10) 1 [ex_c] [1/5] = Some (IZR (rp_cn_adjust (61 * (1 + 0 / 100)) w))).
  { unfold rp_cn. cbn [Z.eqb Pos.eqb]. rewrite Ew. reflexivity. }
  pose proof (rp_wet_top_range _ _ _ _ _ Ew) as Hw.
  assert (Hpos : Z.le 37 (rp_cn_adjust (61 * (1 + 0 / 100)) w)).
  { replace (61 * (1 + 0 / 100)) with 61 by lra. unfold rp_cn_adjust. rewrite ex_cnbot, ex_cntop. rnum.
    rewrite <- (ZnearestE_IZR 37) at 1. apply ZnearestE_le.
    change (IZR (82 - 37)) with 45. nra. }
  pose proof (rp_cn_range _ _ _ _ _ _ _ _ Hc Ecn) as Hr. apply IZR_le in Hpos.
  set (c := IZR (rp_cn_adjust (61 * (1 + 0 / 100)) w)) in *. clearbody c.
  destruct (rp_split_defined c 50) as [[ro infl] Es]; [apply Rgt_not_eq; lra | apply rp_S_nonneg; lra | lra |].
  exists ro, infl.
  assert (E : rainfall_partition 50 [1/5] 3 false false 0 0 61 1 (3/10) 1 [ex_c] = Some (ro, infl, 0%Z)).
  { unfold rainfall_partition. cbn [negb andb orb]. rewrite Ecn, Es. reflexivity. }
  split; [exact E|]. assert (HP : 0 <= 50) by lra. apply (scs_split _ _ _ _ _ _ _ _ _ _ _ _ _ _ _ Hc HP E).
Qed.

Example ex_cn_adjusted : Z.le 0 (rp_cn_adjust 61 (1/2)) /\ Z.le (rp_cn_adjust 61 (1/2)) 100.
Proof. apply cn_adjusted_le_100; lra. Qed.

(* ---- irrigation on that soil: th = 0.20, root depth 1 m: Dr = 100 mm, TAW = 200 mm, Tpot + Epot = 6 mm *)
Lemma Rround2_int x n : x = IZR n -> Rround 2 x = IZR n.
Proof.
  intros ->. replace (IZR n) with (IZR (n * 100) / pow10 2) at 1.
  - rewrite Rround_IZR. unfold pow10. simpl. rewrite mult_IZR. field.
  - unfold pow10. simpl. rewrite mult_IZR. field.
Qed.

Lemma ex_rz : root_zone_water [ex_c] 1 [1/5] 1 (3/10) 5 =
  Some {| rz_WrAct := 200; rz_Dr_Zt := 100; rz_Dr_Rz := 100; rz_TAW_Zt := 200; rz_TAW_Rz := 200;
          rz_Act := 200 / 1000; rz_S := 500 / 1000; rz_FC := 300 / 1000; rz_WP := 100 / 1000; rz_Dry := 50 / 1000;
          rz_Aer := 450 / 1000 |}.
Proof.
  unfold root_zone_water.
  assert (Erd : nround_np num_ops 2 (npmax 1 (3/10)) = 1).
  { unfold npmax. rnum. rewrite Rltb_false by lra. apply (Rround2_int 1 1). reflexivity. }
  rewrite Erd. unfold rz_loop, rz_term, ex_c.
  cbn [c_dz c_dzsum c_th_s c_th_fc c_th_wp c_th_dry a_act a_s a_fc a_wp a_dry a_aer]. rnum.
  rewrite (Rltb_false 1 1) by lra. rewrite (Rleb_true 1 1) by lra.
  rewrite (Rround2_int (1 * 1000 * (1/5) * 1) 200) by lra.
  rewrite (Rround2_int (1 * 1000 * (1/2) * 1) 500) by lra.
  rewrite (Rround2_int (1 * 1000 * (3/10) * 1) 300) by lra.
  rewrite (Rround2_int (1 * 1000 * (1/10) * 1) 100) by lra.
  rewrite (Rround2_int (1 * 1000 * (5/100) * 1) 50) by lra.
  rewrite (Rround2_int (1 * 1000 * (1/2 - 5/100) * 1) 450) by lra.
  cbn [a_act a_s a_fc a_wp a_dry a_aer]. unfold pmax, pmin. rnum.
  rewrite !(Rltb_false (0 + 200) 0) by lra. rewrite !(Rltb_false (0 + 300 - (0 + 100)) 0) by lra.
  rewrite !(Rltb_false (0 + 300 - (0 + 100)) (0 + 300 - (0 + 200))) by lra.
  f_equal. f_equal; lra.
Qed.

Lemma ex_depl : irr_depletion [ex_c] 1 [1/5] 1 (3/10) 5 5 1 0 0 = Some (106, 200).
Proof.
  unfold irr_depletion. rewrite ex_rz. cbn [rz_FC rz_Act rz_Dr_Rz rz_TAW_Rz]. rnum.
  rewrite Rltb_false by lra. f_equal. f_equal; lra.
Qed.

(* the in-season call on the example soil, given what the strategy requests *)
Lemma ex_irrigation method smt eff maxirr interval sched depth maxseason stage irrcum dap tsc irr0 :
  irr_method method smt eff maxirr interval sched depth (irr_stage dap stage) dap tsc 106 200 = Some irr0 ->
  irrigation method smt eff maxirr interval sched depth maxseason stage irrcum 1 5 1 [1/5] dap tsc (3/10) 5 [ex_c] 1
             true 0 0 = Some (106, 200, irrcum + capped maxseason irrcum irr0, capped maxseason irrcum irr0).
Proof.
  intros M. unfold irrigation. rewrite ex_depl. fold (irr_stage dap stage). rewrite M. rewrite pmax_Rmax.
  pose proof (irr_season_spec maxseason irrcum (Rmax 0 irr0) (Rmax_l _ _)) as H. cbv zeta in H.
  destruct H as [H1 _].
  pose proof (irr_capped maxseason irrcum _ irr0 eq_refl) as H2. rnum. rewrite H1, H2. reflexivity.
Qed.

Lemma ex_request eff : 100 * 25 <= 106 * (200 - eff) -> irr_request 106 eff 25 = 25.
Proof.
  intros H. unfold irr_request, irr_effadj. rewrite pmin_Rmin, pmax_Rmax. rnum.
  rewrite Rmax_right by lra. apply Rmin_left. lra.
Qed.

(* soil moisture threshold 60 % of TAW in stage 2, efficiency 80 %: Depl/TAW = 0.53 > 0.40, request 127.2 mm, MaxIrr 25 *)
Example ex_irr_smt :
  irrigation 1 [60; 60; 60; 60] 80 25 3 [] 0 10000 2 0 1 5 1 [1/5] 7 0 (3/10) 5 [ex_c] 1 true 0 0
  = Some (106, 200, 25, 25).
Proof.
  rewrite (ex_irrigation 1 _ 80 25 3 [] 0 10000 2 0 7 0 25).
  - rewrite capped_uncapped by lra. repeat f_equal; lra.
  - unfold irr_method, irr_stage. cbn [Z.eqb Pos.eqb].
    change (py_index [60; 60; 60; 60] (2 - 1)) with (Some 60). rewrite ex_request by lra. rnum.
    rewrite Rltb_true by lra. reflexivity.
Qed.
(* ... below the threshold (SMT 40 %: 0.53 <= 0.60) nothing is applied *)
Example ex_irr_smt_off :
  irrigation 1 [40; 40; 40; 40] 80 25 3 [] 0 10000 2 0 1 5 1 [1/5] 7 0 (3/10) 5 [ex_c] 1 true 0 0
  = Some (106, 200, 0, 0).
Proof.
  rewrite (ex_irrigation 1 _ 80 25 3 [] 0 10000 2 0 7 0 0).
  - rewrite capped_uncapped by lra. repeat f_equal; lra.
  - unfold irr_method, irr_stage. cbn [Z.eqb Pos.eqb].
    change (py_index [40; 40; 40; 40] (2 - 1)) with (Some 40). rnum.
    rewrite Rltb_false by lra. reflexivity.
Qed.
(* fixed interval of 3 days: day 7 is an irrigation day ((7-1) mod 3 = 0), day 8 is not *)
Example ex_irr_interval :
  irrigation 2 [] 80 25 3 [] 0 10000 2 0 1 5 1 [1/5] 7 0 (3/10) 5 [ex_c] 1 true 0 0 = Some (106, 200, 25, 25) /\
  irrigation 2 [] 80 25 3 [] 0 10000 2 0 1 5 1 [1/5] 8 0 (3/10) 5 [ex_c] 1 true 0 0 = Some (106, 200, 0, 0).
Proof.
  split.
  - rewrite (ex_irrigation 2 _ 80 25 3 [] 0 10000 2 0 7 0 25).
    + rewrite capped_uncapped by lra. repeat f_equal; lra.
    + unfold irr_method. cbn [Z.eqb Pos.eqb]. change ((7 - 1) mod 3 =? 0)%Z with true. cbv iota.
      rewrite ex_request by lra. reflexivity.
  - rewrite (ex_irrigation 2 _ 80 25 3 [] 0 10000 2 0 8 0 0).
    + rewrite capped_uncapped by lra. repeat f_equal; lra.
    + unfold irr_method. cbn [Z.eqb Pos.eqb]. change ((8 - 1) mod 3 =? 0)%Z with false. reflexivity.
Qed.
(* schedule: 30 mm on time step 1, capped by MaxIrr = 25 *)
Example ex_irr_schedule :
  irrigation 3 [] 100 25 0 [0; 30] 0 10000 2 0 1 5 1 [1/5] 7 1 (3/10) 5 [ex_c] 1 true 0 0 = Some (106, 200, 25, 25).
Proof.
  rewrite (ex_irrigation 3 _ 100 25 0 [0; 30] 0 10000 2 0 7 1 25).
  - rewrite capped_uncapped by lra. repeat f_equal; lra.
  - unfold irr_method. cbn [Z.eqb Pos.eqb]. change (py_index [0; 30] 1) with (Some 30). rnum.
    rewrite Rleb_true by lra. rewrite pmin_Rmin, Rmin_left by lra. reflexivity.
Qed.
(* constant depth 10 mm; the seasonal cap binds: 95 mm already applied of 100 *)
Example ex_irr_depth :
  irrigation 5 [] 100 25 0 [] 10 10000 2 0 1 5 1 [1/5] 7 0 (3/10) 5 [ex_c] 1 true 0 0 = Some (106, 200, 10, 10) /\
  irrigation 5 [] 100 25 0 [] 10 100 2 95 1 5 1 [1/5] 7 0 (3/10) 5 [ex_c] 1 true 0 0 = Some (106, 200, 100, 5).
Proof.
  assert (M : forall st dap, irr_method 5 [] 100 25 0 [] 10 st dap 0 106 200 = Some 10).
  { intros. unfold irr_method. cbn [Z.eqb Pos.eqb]. rewrite pmin_Rmin, Rmin_right by lra. reflexivity. }
  split.
  - rewrite (ex_irrigation 5 _ 100 25 0 [] 10 10000 2 0 7 0 10) by apply M.
    rewrite capped_uncapped by lra. repeat f_equal; lra.
  - rewrite (ex_irrigation 5 _ 100 25 0 [] 10 100 2 95 7 0 10) by apply M.
    unfold capped. rewrite (Rmax_right 0 10) by lra. rewrite Rltb_true by lra. rewrite Rmax_right by lra.
    repeat f_equal; lra.
Qed.
(* rainfed and net irrigation *)
Example ex_irr_rainfed_net :
  irrigation 0 [] 100 25 0 [] 0 10000 2 0 1 5 1 [1/5] 7 0 (3/10) 5 [ex_c] 1 true 0 0 = Some (106, 200, 0, 0) /\
  irrigation 4 [] 100 25 0 [] 0 10000 2 0 1 5 1 [1/5] 7 0 (3/10) 5 [ex_c] 1 true 0 0 = Some (106, 200, 0, 0).
Proof.
  split.
  - rewrite (ex_irrigation 0 _ 100 25 0 [] 0 10000 2 0 7 0 0) by reflexivity.
    rewrite capped_uncapped by lra. repeat f_equal; lra.
  - rewrite (ex_irrigation 4 _ 100 25 0 [] 0 10000 2 0 7 0 0) by reflexivity.
    rewrite capped_uncapped by lra. repeat f_equal; lra.
Qed.
(* off season: [irrigation_off_season] holds for every input *)

(* ---- growth_stage: day 50 after planting, thresholds 20 / 60 / 100 days -> stage 2 *)
Example ex_growth_stage : growth_stage 1 50 0 0 0 20 60 100 0 true = Some 2%Z.
Proof.
  unfold growth_stage. cbn [Z.eqb Pos.eqb]. change (50 - 0)%Z with 50%Z. rnum.
  rewrite (Rleb_false 50 20) by lra. rewrite (Rleb_true 50 60) by lra. reflexivity.
Qed.
