(* RootZoneR.v — facts about root_zone_water at the real instance (C03: reported root-zone storage is never negative). *)
From AC Require Import Num RInst Params.
From AC.Water Require Import RootZone.
Local Open Scope R_scope.

Lemma pmax_0_nonneg x : 0 <= pmax (F:=R) x 0.
Proof. unfold pmax. rnum. destruct (Rltb_spec x 0); lra. Qed.

Theorem root_zone_water_nonneg p zroot th ztop zmin aer r :
  root_zone_water p zroot th ztop zmin aer = Some r ->
  0 <= rz_WrAct r /\ 0 <= rz_TAW_Rz r /\ 0 <= rz_TAW_Zt r /\ rz_Dr_Rz r <= rz_TAW_Rz r /\ rz_Dr_Zt r <= rz_TAW_Zt r.
Proof.
  unfold root_zone_water. destruct (rz_loop _ _ _ _ _) as [a|]; [|discriminate].
  set (Wr := if nltb num_ops (a_act a) _ then _ else _).
  assert (HWr : 0 <= Wr) by (subst Wr; rnum; destruct (Rltb_spec (a_act a) 0); lra).
  assert (Hmin : forall x y : R, pmin x y <= y) by (intros x y; unfold pmin; rnum; destruct (Rltb_spec y x); lra).
  destruct (nltb num_ops ztop _).
  - destruct (Z.leb _ 0); [discriminate|].
    destruct (top_loop _ _ _ _ _ _) as [[act fc] wp].
    intros H; injection H as <-. cbn. repeat split; try assumption; try apply pmax_0_nonneg; apply Hmin.
  - intros H; injection H as <-. cbn. repeat split; try assumption; try apply pmax_0_nonneg; apply Hmin.
Qed.
